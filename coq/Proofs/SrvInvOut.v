(* Proofs/SrvInvOut.v - what each move adds to the output, and the invariants about the trace that follow:
   dispatched ids <= sc_lastID, every GOAWAY carries sc_lastID and sets sc_closing (after which sc_lastID is
   frozen), panics come from the HPACK decoder only, dispatched requests satisfy the per-stream predicate. *)
From H2V Require Import Base.Bytes Base.MachineInt Base.Result Gen.GenConsts Impl.ServerConn Proofs.SrvBase
  Proofs.SrvInvMoves Proofs.SrvInvDecomp Proofs.SrvInvSteps Proofs.SrvInvSlots.
From Coq Require Import ZArith Lia ZifyN ZifyNat ZifyBool Permutation.
Local Open Scope N_scope.

Section Out.
Variable hstate : Type.
Variable dec_field : hstate -> N -> bytes -> dec_res hstate.
Variable enc_field : hstate -> bytes -> bytes -> bool -> bytes * hstate.
Variable enc_set_max : hstate -> N -> hstate.
Variable cfg : config.
Variable Q : stream -> Prop.
Notation sconn := (sconn hstate).
Notation mv := (mv hstate dec_field cfg Q).
Notation gmv := (gmv hstate dec_field cfg Q).
Notation gmvs := (gmvs hstate dec_field cfg Q).
Notation SI := (SI cfg Q).
Implicit Types c : sconn.

Definition has_panic : Prop := exists d n b, dec_field d n b = DPanic hstate.

(* the codes a GOAWAY may carry, by origin *)
Definition gcode (pc : option N) (code : N) : Prop := In code sl_codes \/ pc = Some code.

(* one new output item of a move from a to b *)
Definition new_ok (G : N -> Prop) (a b : sconn) (x : outev) : Prop :=
  is_frame x \/ (exists o, x = OLate o /\ is_frame o) \/
  (exists code, (x = OGoAway (sc_lastID a) code \/ x = OLate (OGoAway (sc_lastID a) code)) /\ sc_closing b = true /\
                sc_lastID b = sc_lastID a /\ G code) \/
  (exists s, x = ODispatch (st_id s) (st_req s) /\ In (st_id s) (map st_id (sc_strms a)) /\ sc_sl_done a = false /\
             dispatchable s /\ (Forall Q (sc_strms a) -> Q s)) \/
  (exists sid w, x = ORelease sid w /\ sc_sl_done a = false) \/ (exists who why, x = OExit who why) \/
  (exists who why, x = OPanic who why /\ has_panic).

Definition delta_ok (G : N -> Prop) (a b : sconn) : Prop :=
  (exists l, sc_out b = l ++ sc_out a /\ Forall (new_ok G a b) l) /\
  sc_lastID a <= sc_lastID b /\
  (sc_closing a = true -> sc_closing b = true /\ sc_lastID b = sc_lastID a).

Lemma delta_same G a b : sc_out b = sc_out a -> sc_lastID b = sc_lastID a -> sc_closing b = sc_closing a -> delta_ok G a b.
Proof.
  intros E1 E2 E3. split; [exists []; split; [assumption | constructor]|]. rewrite E2, E3. split; [lia | auto].
Qed.

Lemma delta_one G a b x : sc_out b = x :: sc_out a -> new_ok G a b x ->
  sc_lastID b = sc_lastID a -> sc_closing b = sc_closing a -> delta_ok G a b.
Proof.
  intros E1 N1 E2 E3. split; [exists [x]; split; [assumption | constructor; [assumption | constructor]]|].
  rewrite E2, E3. split; [lia | auto].
Qed.

Lemma delta_goaway (G : N -> Prop) c sid code : G code -> delta_ok G c (write_goaway c sid code).
Proof.
  intro Hg. split; [|rewrite sc_lastID_write_goaway, sc_closing_write_goaway; split; [lia | auto]].
  rewrite sc_out_write_goaway.
  assert (NG : forall x, x = OGoAway (sc_lastID c) code \/ x = OLate (OGoAway (sc_lastID c) code) ->
               new_ok G c (write_goaway c sid code) x).
  { intros x Hx. right. right. left. exists code. rewrite sc_closing_write_goaway, sc_lastID_write_goaway. auto. }
  destruct (sc_wl_dead c); [exists []; split; [reflexivity | constructor]|].
  destruct (sc_sl_done c); eexists [_]; (split; [reflexivity | constructor; [apply NG; auto | constructor]]).
Qed.

Lemma mv_delta o a b : mv o a b -> SI a -> delta_ok (fun code => In code sl_codes) a b.
Proof.
  intros M HS. destruct M.
  - (* lite *)
    destruct H0 as (SC & (l & E & F) & _). unfold same_core in SC. destruct SC as (_ & _ & _ & _ & S5 & _ & S7 & _).
    split; [|split; [rewrite S5; apply N.le_refl | intros; split; congruence]].
    exists l. split; [assumption|]. eapply Forall_impl; [|exact F]. intros x Hx. left. assumption.
  - apply delta_goaway. assumption.
  - apply delta_same; sc_rw; reflexivity.
  - apply delta_same; reflexivity.
  - apply delta_same; reflexivity.
  - (* dispatch *)
    eapply delta_one; [reflexivity | | reflexivity | reflexivity].
    right. right. right. left. exists x. split; [reflexivity|]. split; [|split; [assumption|split; [assumption|]]].
    + apply strms_search_In in H0. destruct H0 as [I E]. rewrite <- E. apply in_map. assumption.
    + intro F. apply H5. rewrite Forall_forall in F. apply F. apply strms_search_In in H0. tauto.
  - (* create *)
    split; [exists []; split; [reflexivity | constructor]|]. sc_cbn. pose proof (si_hi _ _ _ _ HS). split; [lia | congruence].
  - (* close *)
    pose proof (sc_out_close_stream _ c x) as E. destruct (st_handlerRunning x).
    + apply delta_same; sc_rw; [assumption | reflexivity | reflexivity].
    + eapply delta_one; [exact E | | sc_rw; reflexivity | sc_rw; reflexivity].
      right. right. right. right. left. eauto.
  - eapply delta_one; [rewrite sc_out_release_stream; reflexivity | | sc_rw; reflexivity | sc_rw; reflexivity].
    right. right. right. right. left. eauto.
  - (* returned: the frames of the response *)
    destruct H0 as (SC & (l & E & F) & _). unfold same_core in SC. destruct SC as (_ & _ & _ & _ & S5 & _ & S7 & _).
    split; [|sc_rw; split; [rewrite S5; apply N.le_refl | intros; split; congruence]].
    exists l. rewrite sc_out_put. split; [assumption|]. eapply Forall_impl; [|exact F]. intros y Hy. left. assumption.
  - eapply delta_one; [reflexivity | | reflexivity | reflexivity]. right. right. right. right. right. left. eauto.
  - eapply delta_one; [reflexivity | | reflexivity | reflexivity]. right. right. right. right. right. left. eauto.
  - eapply delta_one; [reflexivity | | reflexivity | reflexivity]. right. right. right. right. right. right.
    exists 1, 0. split; [reflexivity | assumption].
  - destruct H0 as [SC EO]. unfold same_core in SC. destruct SC as (S1 & S2 & S3 & S4 & S5 & S6 & S7 & S8 & S9 & S10 & S11 & S12 & S13 & S14 & S15). apply delta_same; assumption.
Qed.

Lemma delta_weaken (G G' : N -> Prop) a b : (forall code, G code -> G' code) -> delta_ok G a b -> delta_ok G' a b.
Proof.
  intros HG [(l & E & F) R]. split; [|exact R]. exists l. split; [assumption|].
  eapply Forall_impl; [|exact F]. intros x Hx. unfold new_ok in *.
  destruct Hx as [H|[H|[(code & H1 & H2 & H3 & H4)|H]]]; auto. right. right. left. exists code. auto.
Qed.

Lemma omv_delta pc a b : omv hstate pc a b -> delta_ok (gcode pc) a b.
Proof.
  intros M. destruct M.
  - apply delta_same; reflexivity.
  - eapply delta_one; [reflexivity | | reflexivity | reflexivity]. right. right. right. right. right. left. eauto.
  - apply delta_goaway. destruct H0 as [-> | ->]; [left; in_codes | right; reflexivity].
  - eapply delta_one; [reflexivity | | reflexivity | reflexivity]. right. right. right. right. right. left. eauto.
  - apply delta_same; reflexivity.
  - apply delta_same; reflexivity.
  - (* emit *)
    split; [|sc_rw; split; [lia | auto]]. rewrite sc_out_emit.
    destruct (sc_wl_dead c); [exists []; split; [reflexivity | constructor]|].
    destruct (sc_sl_done c); eexists [_]; (split; [reflexivity | constructor; [|constructor]]).
    + right. left. eauto.
    + left. assumption.
  - (* idle *)
    assert (D : delta_ok (gcode pc) c (write_goaway c 0 c_NoError)) by (apply delta_goaway; right; assumption).
    destruct D as [(l & E & F) R]. split; [|exact R]. exists l. split; [exact E | exact F].
  - apply delta_same; reflexivity.
  - apply delta_same; reflexivity.
Qed.

Lemma gmv_delta pc a b : gmv pc a b -> SI a -> delta_ok (gcode pc) a b.
Proof.
  intros M HS. destruct M.
  - eapply delta_weaken; [|eapply mv_delta; eassumption]. intros code Hc. left. assumption.
  - apply omv_delta. assumption.
Qed.

(* reading new_ok for an item of a given shape *)
Ltac new_ok_cases F :=
  unfold new_ok in F;
  destruct F as [F|[(?o & F & ?Fo)|[(?code' & [F|F] & ?Cb & ?Lb & ?Gc)|[(?s & F & ?Is & ?Hd & ?Ds & ?Qs)|[(?y & ?w & F & ?Hd)|[(?y & ?w & F)|(?y & ?w & F & ?Hp)]]]]]];
  try discriminate F; try (cbn in F; contradiction).

Lemma new_ok_dispatch G a b sid rq : new_ok G a b (ODispatch sid rq) ->
  exists s, sid = st_id s /\ rq = st_req s /\ In (st_id s) (map st_id (sc_strms a)) /\ sc_sl_done a = false /\
            dispatchable s /\ (Forall Q (sc_strms a) -> Q s).
Proof. intro F. new_ok_cases F. inversion F; subst. exists s. auto 10. Qed.

Lemma new_ok_goaway G a b last code x : x = OGoAway last code \/ x = OLate (OGoAway last code) -> new_ok G a b x ->
  last = sc_lastID a /\ sc_closing b = true /\ sc_lastID b = sc_lastID a /\ G code.
Proof.
  intros [-> | ->] F; new_ok_cases F.
  - inversion F; subst. auto.
  - inversion F; subst. cbn in Fo. contradiction.
  - inversion F; subst. auto.
Qed.

Lemma new_ok_panic G a b who why : new_ok G a b (OPanic who why) -> has_panic.
Proof. intro F. new_ok_cases F. assumption. Qed.

Lemma new_ok_late G a b o : new_ok G a b (OLate o) -> is_frame o \/ exists last code, o = OGoAway last code.
Proof. intro F. new_ok_cases F; inversion F; subst; eauto. Qed.

Lemma new_ok_release G a b sid w : new_ok G a b (ORelease sid w) -> sc_sl_done a = false.
Proof. intro F. new_ok_cases F. assumption. Qed.

(* ---------- the invariant on the output ---------- *)
(* what is known of a dispatched request *)
Definition disp_ok (rq : request) : Prop := exists s, Q s /\ dispatchable s /\ rq = st_req s.

Record OI (c : sconn) : Prop := mkOI {
  oi_disp : forall sid rq, In (ODispatch sid rq) (sc_out c) -> sid <= sc_lastID c /\ disp_ok rq;
  oi_goaway : forall last code, In (OGoAway last code) (sc_out c) \/ In (OLate (OGoAway last code)) (sc_out c) ->
              last = sc_lastID c /\ sc_closing c = true;
  oi_panic : forall who why, In (OPanic who why) (sc_out c) -> has_panic;
  oi_late : forall o, In (OLate o) (sc_out c) -> is_frame o \/ exists last code, o = OGoAway last code
}.

Lemma OI_init h0 : OI (init_conn cfg h0).
Proof. constructor; cbn; intros; tauto. Qed.

Lemma OI_gmv pc a b : gmv pc a b -> SI a -> OI a -> OI b.
Proof.
  intros M HS HO. destruct (gmv_delta pc a b M HS) as [(l & E & F) (LE & CL)].
  rewrite Forall_forall in F. destruct HO. constructor; rewrite E.
  - intros sid rq I. apply in_app_or in I. destruct I as [I|I].
    + destruct (new_ok_dispatch _ _ _ _ _ (F _ I)) as (s & -> & -> & Is & Hd & Ds & Qs). split.
      * apply in_map_iff in Is. destruct Is as (y & Ey & Iy). rewrite <- Ey.
        destruct (si_ids _ _ _ _ HS Hd) as [_ LEa]. specialize (LEa y (in_or_app _ _ _ (or_introl Iy))). lia.
      * exists s. split; [apply Qs, (si_Q _ _ _ _ HS Hd) | split; [assumption | reflexivity]].
    + destruct (oi_disp0 _ _ I). split; [lia | assumption].
  - intros last code I.
    assert (I' : (exists x, (x = OGoAway last code \/ x = OLate (OGoAway last code)) /\ In x l) \/
                 (In (OGoAway last code) (sc_out a) \/ In (OLate (OGoAway last code)) (sc_out a))).
    { destruct I as [I|I]; apply in_app_or in I; destruct I; eauto. }
    destruct I' as [(x & Hx & Ix)|I'].
    + destruct (new_ok_goaway _ _ _ _ _ _ Hx (F _ Ix)) as (-> & Cb & Lb & _). auto.
    + destruct (oi_goaway0 _ _ I') as [-> Ca]. destruct (CL Ca). split; congruence.
  - intros who why I. apply in_app_or in I. destruct I as [I|I]; [eapply new_ok_panic; eauto | eauto].
  - intros o I. apply in_app_or in I. destruct I as [I|I]; [eapply new_ok_late; eauto | eauto].
Qed.

(* ---------- every event list ---------- *)
Hypothesis HQc : Qclosed hstate dec_field cfg Q.

Notation step := (step dec_field enc_field enc_set_max cfg).
Notation run := (run dec_field enc_field enc_set_max cfg).

Definition SIO (c : sconn) : Prop := SI c /\ OI c.

Theorem SIO_step c e : SIO c -> SIO (step c e).
Proof.
  apply (inv_step hstate dec_field enc_field enc_set_max cfg Q HQc SIO).
  - intros c0 [H _]. eapply SI_ids_ok; eassumption.
  - intros pc a b M [H1 H2]. split; [eapply SI_gmv; eassumption | eapply OI_gmv; eassumption].
Qed.

Theorem SIO_run h0 evs : SIO (run h0 evs).
Proof.
  apply (run_ind _ dec_field enc_field enc_set_max cfg h0 SIO).
  - split; [apply (SI_init _ dec_field enc_field enc_set_max) | apply OI_init].
  - intros c e. apply SIO_step.
Qed.

(* C10 (i), on the state: whatever GOAWAY was sent carries a last-stream-id >= every dispatched id *)
Theorem goaway_covers_dispatch h0 evs last code sid rq :
  let c := run h0 evs in
  In (OGoAway last code) (sc_out c) \/ In (OLate (OGoAway last code)) (sc_out c) ->
  In (ODispatch sid rq) (sc_out c) -> sid <= last.
Proof.
  intros c HG HD. destruct (SIO_run h0 evs) as [_ HO]. fold c in HO.
  destruct (oi_goaway _ HO _ _ HG) as [-> _]. destruct (oi_disp _ HO _ _ HD). assumption.
Qed.

(* the effect of a whole step on the output *)
Theorem step_delta c e : SIO c -> SIO (step c e) /\
  exists l, sc_out (step c e) = l ++ sc_out c.
Proof.
  intro H. split; [apply SIO_step; assumption|].
  assert (G : gmvs (parser_code e) c (step c e)).
  { apply (gmvs_step hstate dec_field enc_field enc_set_max cfg Q HQc). destruct H as [H _]. eapply SI_ids_ok; eassumption. }
  revert H. induction G as [c0|a b c0 M G IH]; intro H; [exists []; reflexivity|].
  destruct H as [H1 H2]. destruct (gmv_delta _ _ _ M H1) as [(l & E & _) _].
  destruct IH as (l' & E'); [split; [eapply SI_gmv; eassumption | eapply OI_gmv; eassumption]|].
  exists (l' ++ l). rewrite E', E, app_assoc. reflexivity.
Qed.

End Out.
