(* Proofs/TeardownCliInv3.v -- blocking-structure model (Impl/Teardown.v), client: queue bounds are inductive.
   Statements: Props/Teardown.v; overview: Proofs/TeardownProofs.v. *)
From Coq Require Import Arith Lia Bool List.
From RecordUpdate Require Import RecordSet.
Import RecordSetNotations.
Import ListNotations.
From H2V Require Import Impl.Teardown Proofs.TeardownCliInv.

Module CliPi3.
Import Cli CliP.
Ltac unf := unfold lx_of, bcount, wl_hold, rl_hold, rl_k, rl_stop, bw_of_state, midn, cpc, xin, resolveX, release, set_cpc, end_cpc,
  bw_of, dead in *.
Ltac act_cases a :=
  destruct a;
  try match goal with p : nat |- _ => destruct p as [|[|[|p]]] end.
Ltac dm :=
  match goal with
  | |- context[match ?x with _ => _ end] =>
      lazymatch x with
      | context[match _ with _ => _ end] => fail
      | _ => destruct x eqn:?
      end
  | H : context[match ?x with _ => _ end] |- _ =>
      lazymatch x with
      | context[match _ with _ => _ end] => fail
      | _ => destruct x eqn:?
      end
  end.
Ltac easy_fin := solve [auto | congruence | lia | tauto | (intuition congruence) ].
Ltac fwd :=
  repeat match goal with
         | H : ?A -> _, H' : ?A |- _ => specialize (H H')
         | H : ?x = ?x -> _ |- _ => specialize (H eq_refl)
         end.
Ltac rwx :=
  repeat match goal with
         | H : xloc ?s = _ |- _ => progress (rewrite H in * )
         end.
Ltac fin := cbn in *; intros; subst; rwk; rwx; fwd; rwk; cbn in *; rewrite ?orb_false_r in *;
  first [ easy_fin | dm; fin ].
Ltac prep G := cbn in G; break; try lia;
  repeat match goal with b : bool |- _ => destruct b | h : hold |- _ => destruct h end;
  unf; rwk; cbn in *; unf;
  try match goal with |- context[xres ?s] => destruct (xres s) eqn:? end; cbn in *.


Section P.
Variable cap : nat.
Notation guard := (Cli.guard cap).
Lemma inv3_step : forall s a, CliP.inv3 cap s -> guard a s -> CliP.inv3 cap (eff a s).
Proof.
  intros s a I G. destruct I.
  act_cases a; prep G.
  all: constructor; cbn; unf; cbn; rwk; cbn; auto; try congruence; try lia.
  all: try (timeout 20 fin).
Qed.

End P.
End CliPi3.
