(* Proofs/SrvIsoRun.v - C09 (a) over whole runs: the HPACK decoder state after any run in which the stream
   loop raised no connection error while handling a header-block fragment is the reference decoder folded
   over the fragments the stream loop has handled - whatever happened to the streams they belonged to.
   Also: the frame condition (no other step touches the decoder), and the contiguity of header blocks in the
   stream loop's input (what the read loop guarantees). *)
From H2V Require Import Base.Bytes Base.MachineInt Base.Result Gen.GenConsts Impl.ServerConn Proofs.SrvBase
  Proofs.SrvIsoRef Proofs.SrvIsoMoves Proofs.SrvIsoSteps Proofs.SrvIsoHdr Proofs.SrvIsoHdrStep.
From Coq Require Import ZArith Lia ZifyN ZifyNat ZifyBool.
Local Open Scope N_scope.

Section Run.
Variable hstate : Type.
Variable dec_field : hstate -> N -> bytes -> dec_res hstate.
Variable enc_field : hstate -> bytes -> bytes -> bool -> bytes * hstate.
Variable enc_set_max : hstate -> N -> hstate.
Variable cfg : config.
Notation sconn := (sconn hstate).
Notation step := (step dec_field enc_field enc_set_max cfg).
Implicit Types c : sconn.

(* ---------- which frames the stream loop takes ---------- *)
Definition sl_takes c (e : event) : option sframe :=
  match e with
  | EvSL => if sc_sl_done c then None else hd_error (sc_readerQ c)
  | _ => None
  end.

(* the header-block fragment handled in this step, if any *)
Definition hdr_taken c (e : event) : list sframe :=
  match sl_takes c e with
  | Some fr => if is_hdr_frame fr then [fr] else []
  | None => []
  end.

Fixpoint hframes_from c (evs : list event) : list sframe :=
  match evs with
  | [] => []
  | e :: t => hdr_taken c e ++ hframes_from (step c e) t
  end.

Lemma hframes_from_app c a b : hframes_from c (a ++ b) = hframes_from c a ++ hframes_from (run_from dec_field enc_field enc_set_max cfg c a) b.
Proof.
  revert c. induction a as [|e a IH]; intro c; [reflexivity|].
  cbn [app hframes_from]. rewrite IH, <- app_assoc. reflexivity.
Qed.

(* ---------- the frame condition: only header-block fragments touch the decoder ---------- *)
Definition rsame c c' : Prop :=
  sc_dec c' = sc_dec c /\ sc_discardID c' = sc_discardID c /\ sc_discardPrev c' = sc_discardPrev c /\
  sc_discardFields c' = sc_discardFields c /\ sc_strms c' = sc_strms c /\ sc_ring c' = sc_ring c /\
  sc_lastID c' = sc_lastID c /\ sc_highestID c' = sc_highestID c /\ sc_sl_done c' = sc_sl_done c /\
  sc_wl_dead c' = sc_wl_dead c.

Ltac rsame_tac := unfold rsame; sc_rw; repeat split; reflexivity.

Lemma rsame_refl c : rsame c c. Proof. rsame_tac. Qed.
Lemma rsame_trans a b c : rsame a b -> rsame b c -> rsame a c.
Proof. unfold rsame. intros H1 H2. decompose [and] H1. decompose [and] H2. repeat split; congruence. Qed.
Lemma rsame_write_goaway c sid code : rsame c (write_goaway c sid code). Proof. rsame_tac. Qed.
Lemma rsame_rl_exit c why : rsame c (rl_exit c why). Proof. rsame_tac. Qed.
Lemma rsame_emit c o : rsame c (emit c o). Proof. rsame_tac. Qed.
Lemma rsame_upd_expectCont c n : rsame c (upd_expectCont c n). Proof. rsame_tac. Qed.
Lemma rsame_forward c fr : rsame c (forward c fr).
Proof. unfold forward. destruct (sc_sl_done c); [apply rsame_rl_exit | rsame_tac]. Qed.

Lemma rsame_rl_step c i : rsame c (rl_step cfg c i).
Proof.
  unfold rl_step. destruct i as [fr| |[code|]|].
  - set (r := if negb (sc_expectCont c =? 0) then _ else _).
    assert (R : match r with inl c' => rsame c c' | inr c1 => rsame c c1 end).
    { subst r. repeat match goal with |- context [if ?b then _ else _] => destruct b end;
      try apply rsame_refl; try apply rsame_upd_expectCont;
      (eapply rsame_trans; [apply rsame_write_goaway | apply rsame_rl_exit]). }
    destruct r as [c'|c1]; [exact R|].
    destruct (negb (sf_sid fr =? 0)).
    + destruct (check_frame_with_stream fr) as [e|].
      * eapply rsame_trans; [exact R|]. rewrite write_error_fst. destruct e; try apply rsame_rl_exit;
          (eapply rsame_trans; [apply rsame_write_goaway | apply rsame_rl_exit]).
      * eapply rsame_trans; [exact R | apply rsame_forward].
    + destruct (sf_kind fr); repeat match goal with |- context [if ?b then _ else _] => destruct b end;
        try exact R; try (eapply rsame_trans; [exact R|]);
        try apply rsame_forward; try apply rsame_emit; try apply rsame_rl_exit;
        (eapply rsame_trans; [apply rsame_write_goaway | apply rsame_rl_exit]).
  - destruct (negb _); [|apply rsame_refl]. eapply rsame_trans; [apply rsame_write_goaway | apply rsame_rl_exit].
  - eapply rsame_trans; [apply rsame_write_goaway | apply rsame_rl_exit].
  - apply rsame_rl_exit.
  - apply rsame_rl_exit.
Qed.

Lemma no_open_block_false c : no_open_block false c.
Proof. intro K. discriminate K. Qed.

(* C09 (a), converse: a step that does not handle a header-block fragment leaves the decoder alone *)
Theorem dec_frame_condition c e : hdr_taken c e = [] -> sc_dec (step c e) = sc_dec c.
Proof.
  intro HT. destruct e as [i| |sid r|t| | | |].
  - rewrite step_EvRL. destruct (sc_rl_done c); [reflexivity|]. apply rsame_rl_step.
  - rewrite step_EvSL. unfold hdr_taken, sl_takes in HT.
    destruct (sc_sl_done c); [reflexivity|].
    destruct (sc_readerQ c) as [|fr q]; [destruct (sc_rl_done c); reflexivity|].
    cbn [hd_error] in HT. destruct (is_hdr_frame fr) eqn:IH; [discriminate|].
    rewrite (hmvs_dec _ _ _ _ _ (hmvs_sl_frame_other _ dec_field enc_set_max cfg (sf_sid fr) false _ fr IH (fun _ => eq_refl) (no_open_block_false _))).
    reflexivity.
  - rewrite step_EvDone. destruct (sc_sl_done c); [reflexivity|].
    apply (hmvs_dec _ sid false). apply hmvs_sl_done. intro K; discriminate K.
  - rewrite step_EvClock. destruct (_ <? _)%Z; reflexivity.
  - rewrite step_EvTimer. destruct (sc_sl_done c); [reflexivity|]. apply (hmvs_dec _ 0 false). apply hmvs_sl_timer.
  - rewrite step_EvIdle. sc_rw. reflexivity.
  - rewrite step_EvCloser. destruct (_ && _)%bool; reflexivity.
  - reflexivity.
Qed.

(* ---------- header blocks are contiguous in the stream loop's input ---------- *)
(* walking through the queue from the block in progress (0: none): Some fin = the block open at the end *)
Fixpoint qwalk (cur : N) (q : list sframe) : option N :=
  match q with
  | [] => Some cur
  | fr :: t =>
    if is_hdr_frame fr then
      if is_cont fr then (if cur =? sf_sid fr then qwalk (next_cur fr) t else None)
      else (if cur =? 0 then qwalk (next_cur fr) t else None)
    else (if cur =? 0 then qwalk 0 t else None)
  end.

Lemma qwalk_app cur q1 q2 : qwalk cur (q1 ++ q2) = match qwalk cur q1 with Some m => qwalk m q2 | None => None end.
Proof.
  revert cur. induction q1 as [|fr t IH]; intro cur; cbn [app qwalk]; [reflexivity|].
  destruct (is_hdr_frame fr); [destruct (is_cont fr)|]; destruct (_ =? _); auto.
Qed.

(* the queue continues the block in progress, and ends where the read loop is *)
Definition QI c (cur : N) : Prop :=
  exists fin, qwalk cur (sc_readerQ c) = Some fin /\ (sc_rl_done c = false -> fin = sc_expectCont c).

Lemma QI_ext c c' cur : sc_readerQ c' = sc_readerQ c -> sc_rl_done c' = sc_rl_done c -> sc_expectCont c' = sc_expectCont c ->
  QI c cur -> QI c' cur.
Proof. intros E1 E2 E3 (fin & W & F). exists fin. rewrite E1, E2, E3. auto. Qed.

Lemma QI_exit c cur c' : sc_readerQ c' = sc_readerQ c -> sc_rl_done c' = true -> QI c cur -> QI c' cur.
Proof. intros E1 E2 (fin & W & F). exists fin. rewrite E1, E2. split; [exact W | discriminate]. Qed.

Lemma QI_forward c cur fr m : sc_rl_done c = false ->
  qwalk (sc_expectCont c) [fr] = Some m ->
  QI c cur -> QI (forward (upd_expectCont c m) fr) cur.
Proof.
  intros Hr W1 (fin & W & F). specialize (F Hr). subst fin. unfold forward. sc_cbn.
  destruct (sc_sl_done c).
  - exists (sc_expectCont c). unfold rl_exit, note. sc_cbn. split; [exact W | discriminate].
  - exists m. sc_cbn. rewrite qwalk_app, W. split; [exact W1 | reflexivity].
Qed.

Lemma check_frame_odd fr : check_frame_with_stream fr = None -> sf_sid fr <> 0.
Proof.
  unfold check_frame_with_stream. destruct (N.land (sf_sid fr) 1 =? 0) eqn:E; [discriminate|]. intros _ Z. rewrite Z in E. discriminate.
Qed.

Lemma sum_if (A B C : Type) (b : bool) (x y : B) (G : A -> C) (F : B -> C) :
  match (if b then inr x else inr y) with inl a => G a | inr c0 => F c0 end = F (if b then x else y).
Proof. destruct b; reflexivity. Qed.

Lemma QI_rl_step c cur i : sc_rl_done c = false -> QI c cur -> QI (rl_step cfg c i) cur.
Proof.
  intros Hr Q.
  assert (EX : forall c1 why, sc_readerQ c1 = sc_readerQ c -> QI (rl_exit c1 why) cur).
  { intros c1 why E. eapply QI_exit; [| |exact Q]; unfold rl_exit, note; sc_cbn; [exact E | reflexivity]. }
  assert (GX : forall code why, QI (rl_exit (write_goaway c 0 code) why) cur).
  { intros. apply EX. sc_rw. reflexivity. }
  unfold rl_step. destruct i as [fr| |[code|]|]; try (apply EX; reflexivity); try apply GX.
  2:{ destruct (negb _); [apply GX | exact Q]. }
  destruct (negb (sc_expectCont c =? 0)) eqn:EC.
  - (* a block is open: only its CONTINUATION is acceptable *)
    apply negb_true_iff in EC.
    destruct (negb (fkind_eqb (sf_kind fr) KCont) || negb (sf_sid fr =? sc_expectCont c))%bool eqn:OK; [apply GX|].
    apply orb_false_elim in OK. destruct OK as [K1 K2]. apply negb_false_iff in K1. apply negb_false_iff in K2.
    assert (NZ : negb (sf_sid fr =? 0) = true) by (apply negb_true_iff; lia). rewrite NZ.
    assert (QW : qwalk (sc_expectCont c) [fr] = Some (if flag_has (sf_flags fr) FL_EH then 0 else sc_expectCont c)).
    { cbn [qwalk]. unfold is_hdr_frame, is_hdr_kind, is_cont, next_cur, eh_of. rewrite NZ, K1. cbn [orb andb].
      rewrite orb_true_r. replace (sc_expectCont c =? sf_sid fr) with true by lia.
      destruct (flag_has _ _); [reflexivity|]. f_equal. lia. }
    assert (EE : forall c1 e, sc_readerQ c1 = sc_readerQ c -> QI (rl_exit (fst (write_error c1 None e)) 1) cur).
    { intros c1 e E. apply EX. rewrite write_error_fst. destruct e; sc_rw; exact E. }
    destruct (flag_has (sf_flags fr) FL_EH) eqn:EH.
    + destruct (check_frame_with_stream fr) as [e|]; [apply EE; reflexivity|].
      apply QI_forward; [exact Hr | exact QW | exact Q].
    + destruct (check_frame_with_stream fr) as [e|]; [apply EE; reflexivity|].
      destruct Q as (fin & Wk & F). specialize (F Hr). subst fin. unfold forward.
      destruct (sc_sl_done c); [exists (sc_expectCont c); unfold rl_exit, note; sc_cbn; split; [exact Wk | discriminate]|].
      exists (sc_expectCont c). sc_cbn. rewrite qwalk_app, Wk. split; [exact QW | reflexivity].
  - (* no block is open *)
    apply negb_false_iff in EC. assert (E0 : sc_expectCont c = 0) by lia.
    destruct (fkind_eqb (sf_kind fr) KCont) eqn:K1; [apply GX|].
    rewrite sum_if.
    set (c1 := if fkind_eqb (sf_kind fr) KHeaders && negb (flag_has (sf_flags fr) FL_EH) then upd_expectCont c (sf_sid fr) else c).
    assert (RQ1 : sc_readerQ c1 = sc_readerQ c) by (subst c1; destruct (_ && _)%bool; reflexivity).
    destruct (negb (sf_sid fr =? 0)) eqn:NZ.
    + destruct (check_frame_with_stream fr) as [e|].
      * rewrite write_error_fst. apply EX. destruct e; sc_rw; exact RQ1.
      * set (m := if fkind_eqb (sf_kind fr) KHeaders && negb (flag_has (sf_flags fr) FL_EH) then sf_sid fr else 0).
        assert (QW : qwalk (sc_expectCont c) [fr] = Some m).
        { cbn [qwalk]. unfold is_hdr_frame, is_hdr_kind, is_cont, next_cur, eh_of. rewrite NZ, K1, E0. cbn [andb N.eqb].
          rewrite orb_false_r. subst m. destruct (fkind_eqb (sf_kind fr) KHeaders); [|reflexivity].
          destruct (flag_has _ _); reflexivity. }
        destruct Q as (fin & Wk & F). specialize (F Hr). subst fin. unfold forward.
        replace (sc_sl_done c1) with (sc_sl_done c) by (subst c1; destruct (_ && _)%bool; reflexivity).
        destruct (sc_sl_done c).
        { exists (sc_expectCont c). unfold rl_exit, note. sc_cbn. rewrite RQ1. split; [exact Wk | discriminate]. }
        exists m. sc_cbn. rewrite RQ1, qwalk_app, Wk. split; [exact QW|]. intros _.
        subst c1 m. destruct (_ && _)%bool; sc_cbn; [reflexivity | lia].
    + (* connection-level frames: never part of a block, the read loop's state does not move *)
      apply negb_false_iff in NZ.
      assert (C1 : c1 = c \/ (fkind_eqb (sf_kind fr) KHeaders = true)).
      { subst c1. destruct (fkind_eqb (sf_kind fr) KHeaders); [right; reflexivity | left; reflexivity]. }
      assert (QW : qwalk (sc_expectCont c) [fr] = Some 0).
      { cbn [qwalk]. unfold is_hdr_frame. replace (negb (sf_sid fr =? 0)) with false by (symmetry; apply negb_false_iff; exact NZ).
        cbn [andb]. rewrite E0. reflexivity. }
      assert (FW : QI (forward c fr) cur).
      { destruct Q as (fin & Wk & F). specialize (F Hr). subst fin. unfold forward.
        destruct (sc_sl_done c); [exists (sc_expectCont c); unfold rl_exit, note; sc_cbn; split; [exact Wk | discriminate]|].
        exists 0. sc_cbn. rewrite qwalk_app, Wk. split; [exact QW | intros _; lia]. }
      destruct C1 as [->|KH].
      * destruct (sf_kind fr); try apply GX; try (apply EX; reflexivity).
        -- destruct (negb _); [exact FW | exact Q].
        -- destruct (negb _); [|exact Q]. eapply QI_ext; [| | |exact Q]; sc_rw; reflexivity.
        -- destruct (sf_inc fr =? 0); [apply GX | exact FW].
      * assert (KHe : sf_kind fr = KHeaders) by (destruct (sf_kind fr); try discriminate KH; reflexivity).
        rewrite KHe. apply EX. sc_rw. exact RQ1.
Qed.

(* ---------- the reference over the fragments, the ghost, clean runs ---------- *)
Variable h0 : hstate.
Notation run := (run dec_field enc_field enc_set_max cfg h0).

Definition hframes (evs : list event) : list sframe := hframes_from (init_conn cfg h0) evs.

Lemma hframes_snoc evs e : hframes (evs ++ [e]) = hframes evs ++ hdr_taken (run evs) e.
Proof. unfold hframes. rewrite hframes_from_app. cbn [hframes_from]. rewrite app_nil_r. reflexivity. Qed.

(* decoder state, fields of the open block decoded so far, bytes carried over to the next fragment *)
Definition hst : Type := (hstate * N * bytes)%type.

Definition ref_frame (st : hst) (fr : sframe) (st' : hst) : Prop :=
  exists fs, ref_run dec_field (eh_of fr) (fst (fst st)) (if is_cont fr then snd (fst st) else 0)
                     ((if is_cont fr then snd st else []) ++ sf_payload fr) fs (fst (fst st')) (snd (fst st')) (snd st').

Inductive ref_frames (st0 : hst) : list sframe -> hst -> Prop :=
| rf_nil : ref_frames st0 [] st0
| rf_snoc frs fr st st' : ref_frames st0 frs st -> ref_frame st fr st' -> ref_frames st0 (frs ++ [fr]) st'.

Lemma ref_frame_det st fr st1 st2 : ref_frame st fr st1 -> ref_frame st fr st2 -> st1 = st2.
Proof.
  intros [fs1 R1] [fs2 R2]. destruct (ref_run_det _ dec_field _ _ _ _ _ _ _ _ _ _ _ _ R1 R2) as (_ & E1 & E2 & E3).
  destruct st1 as [[d1 n1] c1], st2 as [[d2 n2] c2]. cbn [fst snd] in *. congruence.
Qed.

Lemma ref_frames_det st0 frs st1 : ref_frames st0 frs st1 -> forall st2, ref_frames st0 frs st2 -> st1 = st2.
Proof.
  induction 1 as [|frs fr st st' RF IH R]; intros st2 H2.
  - inversion H2 as [|frs' fr' sa sb Ha Hb E]; [reflexivity|]. destruct frs'; discriminate.
  - inversion H2 as [E|frs' fr' sa sb Ha Hb E]; [destruct frs; discriminate|].
    apply app_inj_tail in E. destruct E as [-> ->]. rewrite (IH _ Ha) in R. eapply ref_frame_det; eassumption.
Qed.

(* the block left open by the fragments handled so far *)
Definition cur_of (frs : list sframe) : N := fold_left (fun _ fr => next_cur fr) frs 0.
Lemma cur_of_snoc frs fr : cur_of (frs ++ [fr]) = next_cur fr.
Proof. unfold cur_of. rewrite fold_left_app. reflexivity. Qed.

(* a step is clean if, when it handles a header-block fragment, the write loop is alive and no error output
   (GOAWAY, panic) is produced *)
Definition clean_step c (e : event) : Prop :=
  forall fr, hdr_taken c e = [fr] -> sc_wl_dead c = false /\ (gcount (sc_out (step c e)) <= gcount (sc_out c))%nat.

Fixpoint clean_from c (evs : list event) : Prop :=
  match evs with
  | [] => True
  | e :: t => clean_step c e /\ clean_from (step c e) t
  end.
Definition clean (evs : list event) : Prop := clean_from (init_conn cfg h0) evs.

Lemma clean_from_app c a b : clean_from c (a ++ b) <-> clean_from c a /\ clean_from (run_from dec_field enc_field enc_set_max cfg c a) b.
Proof.
  revert c. induction a as [|e a IH]; intro c; cbn [app clean_from]; [rewrite run_from_nil; tauto|].
  rewrite IH, run_from_cons. tauto.
Qed.
Lemma clean_snoc evs e : clean (evs ++ [e]) <-> clean evs /\ clean_step (run evs) e.
Proof. unfold clean. rewrite clean_from_app. cbn [clean_from]. rewrite <- run_eq. tauto. Qed.

(* ---------- the invariant ---------- *)
Lemma HG_ext c c' cur n carry : sc_strms c' = sc_strms c -> sc_lastID c' = sc_lastID c -> sc_highestID c' = sc_highestID c ->
  sc_discardID c' = sc_discardID c -> sc_discardPrev c' = sc_discardPrev c -> sc_discardFields c' = sc_discardFields c ->
  sc_ring c' = sc_ring c -> HG c cur n carry -> HG c' cur n carry.
Proof.
  intros E1 E2 E3 E4 E5 E6 E7 [H C]. split; [eapply HInv_ext; eassumption|].
  unfold carry_at. rewrite E1, E4, E5, E6. exact C.
Qed.

Lemma HG_rsame c c' cur n carry : rsame c c' -> HG c cur n carry -> HG c' cur n carry.
Proof. unfold rsame. intro R. decompose [and] R. apply HG_ext; assumption. Qed.

Lemma HG_hmvs own c c' cur n carry : hmvs own true c c' -> sc_sl_done c' = false -> HG c cur n carry -> HG c' cur n carry.
Proof.
  intros M Hd [H C]. split; [eapply hmvs_HInv; eassumption|]. intro NZ. eapply hmvs_carry; eauto.
Qed.

Definition RunInv (evs : list event) : Prop :=
  exists n carry, ref_frames (h0, 0, []) (hframes evs) (sc_dec (run evs), n, carry) /\
    (sc_sl_done (run evs) = false ->
     HG (run evs) (cur_of (hframes evs)) n carry /\ QI (run evs) (cur_of (hframes evs))).

Lemma HInv_init : HInv (eq 0) (init_conn cfg h0).
Proof.
  constructor; unfold init_conn; sc_cbn.
  - constructor.
  - constructor.
  - intros s [].
  - lia.
  - intro H. congruence.
  - intros e [].
Qed.

Lemma sl_done_mono c e : sc_sl_done c = true -> sc_sl_done (step c e) = true.
Proof.
  intro H. destruct e as [i| |sid r|t| | | |].
  - rewrite step_EvRL. destruct (sc_rl_done c); [exact H|]. destruct (rsame_rl_step c i) as (_ & _ & _ & _ & _ & _ & _ & _ & E & _). congruence.
  - rewrite step_EvSL, H. exact H.
  - rewrite step_EvDone, H. exact H.
  - rewrite step_EvClock. destruct (_ <? _)%Z; exact H.
  - rewrite step_EvTimer, H. exact H.
  - rewrite step_EvIdle. sc_rw. exact H.
  - rewrite step_EvCloser, H. rewrite andb_false_r. exact H.
  - exact H.
Qed.

Theorem run_inv evs : clean evs -> RunInv evs.
Proof.
  induction evs as [|e evs IH] using rev_ind.
  - intros _. exists 0, []. split; [constructor|]. intros _. split.
    + split; [apply HInv_init | intro H; exfalso; apply H; reflexivity].
    + exists 0. split; reflexivity.
  - intro CL. apply clean_snoc in CL. destruct CL as [CL CS]. specialize (IH CL).
    destruct IH as (n & carry & RF & IHd). unfold RunInv. rewrite hframes_snoc, run_snoc.
    set (c := run evs) in *. set (frs := hframes evs) in *.
    destruct (hdr_taken c e) as [|fr [|fr2 t]] eqn:HT.
    + (* not a header-block fragment *)
      rewrite app_nil_r. exists n, carry. rewrite (dec_frame_condition c e HT). split; [exact RF|].
      intro Hd'. assert (Hd : sc_sl_done c = false).
      { destruct (sc_sl_done c) eqn:E; [|reflexivity]. rewrite (sl_done_mono c e E) in Hd'. discriminate. }
      destruct (IHd Hd) as [G Q]. set (cur := cur_of frs) in *.
      destruct e as [i| |sid r|t| | | |].
      * rewrite step_EvRL in *. destruct (sc_rl_done c) eqn:Hr; [split; assumption|].
        split; [eapply HG_rsame; [apply rsame_rl_step | exact G] | apply QI_rl_step; assumption].
      * rewrite step_EvSL in *. rewrite Hd in *. unfold hdr_taken, sl_takes in HT. rewrite Hd in HT.
        destruct (sc_readerQ c) as [|fr q] eqn:RQ.
        { destruct (sc_rl_done c); [discriminate Hd' | split; assumption]. }
        cbn [hd_error] in HT. destruct (is_hdr_frame fr) eqn:IHF; [discriminate|].
        destruct Q as (fin & Wk & F). rewrite RQ in Wk. cbn [qwalk] in Wk. rewrite IHF in Wk.
        destruct (cur =? 0) eqn:C0; [|discriminate]. assert (cur = 0) by lia. clear C0.
        set (c0 := upd_readerQ c q) in *.
        assert (G0 : HG c0 cur n carry) by (eapply HG_ext; [..|exact G]; reflexivity).
        assert (NOB : no_open_block true c0).
        { intros _. destruct G0 as [[ND FP IDS _ _ _] _]. split; [exact ND|].
          replace cur with 0 in FP by congruence. apply all_hf_of_P0; [intros s Is; apply IDS; exact Is | exact FP]. }
        pose proof (hmvs_sl_frame_other _ dec_field enc_set_max cfg (sf_sid fr) true c0 fr IHF (fun _ => eq_refl) NOB) as M.
        split; [eapply HG_hmvs; eassumption|].
        pose proof (hmvs_base _ _ _ _ _ M) as (_ & _ & B3 & B4 & B5 & _).
        exists fin. rewrite B3, B4, B5. unfold c0. sc_cbn. replace cur with 0 by congruence. split; [exact Wk | exact F].
      * rewrite step_EvDone in *. rewrite Hd in *.
        assert (M : hmvs sid true c (fst (sl_done enc_field cfg c sid r))).
        { apply hmvs_sl_done. intros _ s SS Run. destruct G as [[_ FP _ _ _ _] _]. rewrite Forall_forall in FP.
          destruct (FP s) as (_ & _ & P3 & _); [apply strms_search_In in SS; tauto | auto]. }
        split; [eapply HG_hmvs; eassumption|].
        pose proof (hmvs_base _ _ _ _ _ M) as (_ & _ & B3 & B4 & B5 & _). eapply QI_ext; [exact B4 | exact B3 | exact B5 | exact Q].
      * rewrite step_EvClock in *. destruct (_ <? _)%Z; [|split; assumption].
        split; [eapply HG_ext; [..|exact G]; reflexivity | eapply QI_ext; [..|exact Q]; reflexivity].
      * rewrite step_EvTimer in *. rewrite Hd in *.
        pose proof (hmvs_sl_timer _ cfg 0 true c) as M.
        split; [eapply HG_hmvs; eassumption|].
        pose proof (hmvs_base _ _ _ _ _ M) as (_ & _ & B3 & B4 & B5 & _). eapply QI_ext; [exact B4 | exact B3 | exact B5 | exact Q].
      * rewrite step_EvIdle in *.
        split; [eapply HG_ext; [..|exact G]; sc_rw; reflexivity | eapply QI_ext; [..|exact Q]; sc_rw; reflexivity].
      * rewrite step_EvCloser in *. destruct (_ && _)%bool; [discriminate Hd' | split; assumption].
      * rewrite step_EvWriteFail in *.
        split; [eapply HG_ext; [..|exact G]; reflexivity | eapply QI_ext; [..|exact Q]; reflexivity].
    + (* a header-block fragment *)
      destruct (CS fr HT) as [W GC].
      unfold hdr_taken, sl_takes in HT. destruct e; try discriminate HT.
      destruct (sc_sl_done c) eqn:Hd; [discriminate|]. destruct (sc_readerQ c) as [|fr' q] eqn:RQ; [discriminate|].
      cbn [hd_error] in HT. destruct (is_hdr_frame fr') eqn:IHF; [|discriminate]. inversion HT; subst fr'.
      destruct (IHd eq_refl) as [G Q]. set (cur := cur_of frs) in *.
      rewrite step_EvSL in *. rewrite Hd, RQ in *.
      set (c0 := upd_readerQ c q) in *.
      assert (G0 : HG c0 cur n carry) by (eapply HG_ext; [..|exact G]; reflexivity).
      destruct Q as (fin & Wk & F). rewrite RQ in Wk. cbn [qwalk] in Wk. rewrite IHF in Wk.
      assert (KC : is_cont fr = true -> cur = sf_sid fr).
      { intro IC. rewrite IC in Wk. destruct (cur =? sf_sid fr) eqn:E; [lia | discriminate]. }
      assert (KH : is_cont fr = false -> cur = 0).
      { intro IC. rewrite IC in Wk. destruct (cur =? 0) eqn:E; [lia | discriminate]. }
      assert (Wk' : qwalk (next_cur fr) q = Some fin).
      { destruct (is_cont fr); destruct (_ =? _); [exact Wk | discriminate | exact Wk | discriminate]. }
      destruct (sl_frame_hdr _ dec_field enc_field enc_set_max cfg c0 fr cur n carry IHF Hd W G0 KC KH GC)
        as (fs & n' & carry' & R & EF & GP).
      exists n', carry'. split.
      * eapply rf_snoc; [exact RF|]. exists fs. cbn [fst snd]. exact R.
      * intro Hd'. rewrite cur_of_snoc. split; [apply GP; exact Hd'|].
        destruct EF as ((_ & _ & B3 & B4 & B5 & _) & _). exists fin. rewrite B3, B4, B5. exact (conj Wk' F).
    + (* impossible: one frame per step *)
      unfold hdr_taken in HT. destruct (sl_takes c e); [destruct (is_hdr_frame s)|]; discriminate.
Qed.

(* C09 (a) over a run: the decoder state is the reference folded over the fragments handled *)
Theorem dec_is_reference evs : clean evs ->
  exists n carry, ref_frames (h0, 0, []) (hframes evs) (sc_dec (run evs), n, carry).
Proof. intro CL. destruct (run_inv evs CL) as (n & carry & RF & _). exists n, carry. exact RF. Qed.

End Run.

Arguments hframes {hstate}. Arguments ref_frames {hstate}. Arguments ref_frame {hstate}. Arguments clean {hstate}.
Arguments clean_step {hstate}. Arguments hdr_taken {hstate}. Arguments sl_takes {hstate}. Arguments QI {hstate}.
Arguments RunInv {hstate}. Arguments rsame {hstate}.

(* ---------- the decoder state does not depend on what became of the streams ---------- *)
Section Indep.
Variable hstate : Type.
Variable dec_field : hstate -> N -> bytes -> dec_res hstate.
Variable enc_field enc_field' : hstate -> bytes -> bytes -> bool -> bytes * hstate.
Variable enc_set_max enc_set_max' : hstate -> N -> hstate.
Variable h0 : hstate.

(* all the reference looks at: HEADERS or CONTINUATION, END_HEADERS, the fragment *)
Definition frag (fr : sframe) : bool * bool * bytes := (is_cont fr, eh_of fr, sf_payload fr).

Lemma ref_frame_frag st fr fr' st' : frag fr = frag fr' -> ref_frame dec_field st fr st' -> ref_frame dec_field st fr' st'.
Proof. unfold frag, ref_frame. intro E. inversion E as [[E1 E2 E3]]. rewrite E1, E2, E3. auto. Qed.

Lemma ref_frames_frag st0 frs st : ref_frames dec_field st0 frs st ->
  forall frs', map frag frs = map frag frs' -> ref_frames dec_field st0 frs' st.
Proof.
  induction 1 as [|frs fr st st' RF IH R]; intros frs' E.
  - destruct frs'; [constructor | discriminate].
  - destruct frs' as [|x l] using rev_ind; [rewrite map_app in E; destruct (map frag frs); discriminate|].
    rewrite !map_app in E. cbn [map] in E. apply app_inj_tail in E. destruct E as [E1 E2].
    eapply rf_snoc; [apply IH; exact E1 | eapply ref_frame_frag; eassumption].
Qed.

(* Two runs - any two configurations (limits), any two event lists (other frames, handler completions,
   timers, stream fates) - in which the stream loop has handled the same header-block fragments in the same
   order leave the HPACK decoder in the same state. *)
Theorem hpack_state_independent cfg cfg' evs evs' :
  clean dec_field enc_field enc_set_max cfg h0 evs -> clean dec_field enc_field' enc_set_max' cfg' h0 evs' ->
  map frag (hframes dec_field enc_field enc_set_max cfg h0 evs) = map frag (hframes dec_field enc_field' enc_set_max' cfg' h0 evs') ->
  sc_dec (run dec_field enc_field enc_set_max cfg h0 evs) = sc_dec (run dec_field enc_field' enc_set_max' cfg' h0 evs').
Proof.
  intros C1 C2 E.
  destruct (dec_is_reference _ _ _ _ _ _ _ C1) as (n1 & k1 & R1).
  destruct (dec_is_reference _ _ _ _ _ _ _ C2) as (n2 & k2 & R2).
  pose proof (ref_frames_frag _ _ _ R1 _ E) as R1'.
  pose proof (ref_frames_det _ dec_field _ _ _ R1' _ R2) as EQ. inversion EQ. reflexivity.
Qed.

End Indep.

(* ---------- executable versions (for examples) ---------- *)
Section Exec.
Variable hstate : Type.
Variable dec_field : hstate -> N -> bytes -> dec_res hstate.
Variable enc_field : hstate -> bytes -> bytes -> bool -> bytes * hstate.
Variable enc_set_max : hstate -> N -> hstate.
Variable cfg : config.
Variable h0 : hstate.
Notation step := (step dec_field enc_field enc_set_max cfg).

Definition cleanb_step (c : sconn hstate) (e : event) : bool :=
  match hdr_taken c e with
  | [_] => negb (sc_wl_dead c) && Nat.leb (gcount (sc_out (step c e))) (gcount (sc_out c))
  | _ => true
  end.
Fixpoint cleanb_from (c : sconn hstate) (evs : list event) : bool :=
  match evs with
  | [] => true
  | e :: t => cleanb_step c e && cleanb_from (step c e) t
  end.
Definition cleanb (evs : list event) : bool := cleanb_from (init_conn cfg h0) evs.

Lemma cleanb_from_sound evs : forall c, cleanb_from c evs = true -> clean_from _ dec_field enc_field enc_set_max cfg c evs.
Proof.
  induction evs as [|e t IH]; intros c H; cbn [cleanb_from clean_from] in *; [exact I|].
  apply andb_prop in H. destruct H as [H1 H2]. split; [|apply IH; exact H2].
  intros fr HT. unfold cleanb_step in H1. rewrite HT in H1. apply andb_prop in H1. destruct H1 as [W G].
  apply negb_true_iff in W. apply Nat.leb_le in G. auto.
Qed.
Lemma cleanb_sound evs : cleanb evs = true -> clean dec_field enc_field enc_set_max cfg h0 evs.
Proof. apply cleanb_from_sound. Qed.

(* the reference as a function: None when a fragment does not decode (or the fuel of the model runs out) *)
Definition ref_step (st : option (hst hstate)) (fr : sframe) : option (hst hstate) :=
  match st with
  | None => None
  | Some (d, n, carry) =>
    match dec_block_ref dec_field d (if is_cont fr then n else 0) (if is_cont fr then carry else []) (sf_payload fr) (eh_of fr) with
    | ROk _ d' n' carry' => Some (d', n', carry')
    | _ => None
    end
  end.
Definition ref_fold (st0 : hst hstate) (frs : list sframe) : option (hst hstate) := fold_left ref_step frs (Some st0).

Lemma ref_fold_sound st0 frs : forall st, ref_fold st0 frs = Some st -> ref_frames dec_field st0 frs st.
Proof.
  induction frs as [|fr frs IH] using rev_ind; intros st H.
  - inversion H; subst. constructor.
  - unfold ref_fold in H. rewrite fold_left_app in H. cbn [fold_left] in H.
    destruct (fold_left ref_step frs (Some st0)) as [[[d n] carry]|] eqn:E; [|discriminate].
    cbn [ref_step] in H.
    destruct (dec_block_ref dec_field d _ _ _ _) as [fs d' n' carry'| | |] eqn:R; try discriminate.
    inversion H; subst. eapply rf_snoc; [apply IH; exact E|].
    exists fs. cbn [fst snd]. apply dec_block_ref_sound. exact R.
Qed.

End Exec.

(* ---------- the per-step theorem at the states of clean runs ---------- *)
Section RunStep.
Variable hstate : Type.
Variable dec_field : hstate -> N -> bytes -> dec_res hstate.
Variable enc_field : hstate -> bytes -> bytes -> bool -> bytes * hstate.
Variable enc_set_max : hstate -> N -> hstate.
Variable cfg : config.
Variable h0 : hstate.
Notation step := (step dec_field enc_field enc_set_max cfg).
Notation run := (run dec_field enc_field enc_set_max cfg h0).

(* C09 (a), per step, for every state reached without a connection error of the stream loop on a header
   block: the fragment the stream loop takes next is decoded as the reference says, from the ghost of the
   run so far (n fields, carry), whatever happens to its stream - unless this very step raises a connection error. *)
Theorem hdr_step_reference evs fr q :
  clean dec_field enc_field enc_set_max cfg h0 evs ->
  sc_sl_done (run evs) = false -> sc_readerQ (run evs) = fr :: q -> is_hdr_frame fr = true ->
  sc_wl_dead (run evs) = false ->
  (gcount (sc_out (step (run evs) EvSL)) <= gcount (sc_out (run evs)))%nat ->
  exists n carry,
    ref_frames dec_field (h0, 0, []) (hframes dec_field enc_field enc_set_max cfg h0 evs) (sc_dec (run evs), n, carry) /\
    hdr_post dec_field cfg (upd_readerQ (run evs) q) (if is_cont fr then n else 0)
             ((if is_cont fr then carry else []) ++ sf_payload fr) fr (step (run evs) EvSL).
Proof.
  intros CL Hd RQ IHF W GC. destruct (run_inv _ dec_field enc_field enc_set_max cfg h0 evs CL) as (n & carry & RF & IHd).
  destruct (IHd Hd) as [G Q]. exists n, carry. split; [exact RF|].
  set (c := run evs) in *. set (cur := cur_of (hframes dec_field enc_field enc_set_max cfg h0 evs)) in *.
  rewrite step_EvSL in *. rewrite Hd, RQ in *.
  set (c0 := upd_readerQ c q) in *.
  assert (G0 : HG c0 cur n carry) by (eapply HG_ext; [..|exact G]; reflexivity).
  destruct Q as (fin & Wk & F). rewrite RQ in Wk. cbn [qwalk] in Wk. rewrite IHF in Wk.
  assert (KC : is_cont fr = true -> cur = sf_sid fr).
  { intro IC. rewrite IC in Wk. destruct (cur =? sf_sid fr) eqn:E; [lia | discriminate]. }
  assert (KH : is_cont fr = false -> cur = 0).
  { intro IC. rewrite IC in Wk. destruct (cur =? 0) eqn:E; [lia | discriminate]. }
  exact (sl_frame_hdr _ dec_field enc_field enc_set_max cfg c0 fr cur n carry IHF Hd W G0 KC KH GC).
Qed.

(* the same, spelled out: n, carry = where the run so far left the open block; fs, n', carry' = what the
   reference makes of this fragment; afterwards the decoder is the reference's and, when the block goes on, the
   carry is where the next CONTINUATION will look for it (the stream's previousHeaderBytes, or the discard
   registers when the stream is gone) *)
Theorem hdr_step_reference_explicit evs fr q :
  clean dec_field enc_field enc_set_max cfg h0 evs ->
  sc_sl_done (run evs) = false -> sc_readerQ (run evs) = fr :: q -> is_hdr_frame fr = true ->
  sc_wl_dead (run evs) = false ->
  (gcount (sc_out (step (run evs) EvSL)) <= gcount (sc_out (run evs)))%nat ->
  exists n carry fs n' carry',
    ref_frames dec_field (h0, 0, []) (hframes dec_field enc_field enc_set_max cfg h0 evs) (sc_dec (run evs), n, carry) /\
    ref_run dec_field (eh_of fr) (sc_dec (run evs)) (if is_cont fr then n else 0)
            ((if is_cont fr then carry else []) ++ sf_payload fr) fs (sc_dec (step (run evs) EvSL)) n' carry' /\
    (eh_of fr = true -> carry' = []) /\
    (eh_of fr = false -> sc_sl_done (step (run evs) EvSL) = false ->
     carry_at (step (run evs) EvSL) (sf_sid fr) = Some (n', carry')).
Proof.
  intros CL Hd RQ IHF W GC.
  destruct (hdr_step_reference evs fr q CL Hd RQ IHF W GC) as (n & carry & RF & (fs & n' & carry' & R & _ & GP)).
  exists n, carry, fs, n', carry'. split; [exact RF|]. split; [exact R|]. split.
  - intro EH. rewrite EH in R. eapply ref_run_eh_carry. exact R.
  - intros EH Hd'. destruct (GP Hd') as ([_ CA] & _). unfold next_cur in CA. rewrite EH in CA. apply CA.
    unfold is_hdr_frame in IHF. apply andb_prop in IHF. destruct IHF as [Z _]. apply negb_true_iff in Z. lia.
Qed.

End RunStep.

(* ---------- the reference over fragments, with the fields it decodes ---------- *)
Section RefFs.
Variable hstate : Type.
Variable dec_field : hstate -> N -> bytes -> dec_res hstate.

Inductive ref_frames_fs (st0 : hst hstate) : list sframe -> list (bytes * bytes) -> hst hstate -> Prop :=
| rff_nil : ref_frames_fs st0 [] [] st0
| rff_snoc frs fr fs0 fs st st' :
    ref_frames_fs st0 frs fs0 st ->
    ref_run dec_field (eh_of fr) (fst (fst st)) (if is_cont fr then snd (fst st) else 0)
            ((if is_cont fr then snd st else []) ++ sf_payload fr) fs (fst (fst st')) (snd (fst st')) (snd st') ->
    ref_frames_fs st0 (frs ++ [fr]) (fs0 ++ fs) st'.

Lemma ref_frames_fs_forget st0 frs fs st : ref_frames_fs st0 frs fs st -> ref_frames dec_field st0 frs st.
Proof. induction 1; [constructor|]. eapply rf_snoc; [eassumption|]. eexists. eassumption. Qed.

End RefFs.
Arguments ref_frames_fs {hstate}.
