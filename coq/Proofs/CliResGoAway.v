(* Proofs/CliResGoAway.v - C11: what the client does with GOAWAY, and which errors it calls retryable. *)
From H2V Require Import Base.Bytes Base.MachineInt Base.Result Gen.GenConsts Impl.ServerConn Impl.ClientConn Proofs.CliBase
     Proofs.CliResInv Proofs.CliResStep Proofs.CliResMoves Proofs.CliResThms.
From Coq Require Import ZArith Lia ZifyN ZifyNat ZifyBool List Bool.
Import ListNotations.
Local Open Scope N_scope.

(* the instance that lets the connection put ErrGoAway and nothing else: for cl_goaway on its own *)
Definition cp_ga : cparams.
Proof.
  refine {| Eok := fun _ e => e = CEGoAway; Vok := fun _ _ => True; Wok := fun _ _ _ => True |}; auto.
Defined.

Section GoAway.
Context {hstate : Type}.
Variable dec_field : hstate -> N -> bytes -> dec_res hstate.
Variable enc_field : hstate -> bytes -> bytes -> bool -> bytes * hstate.
Variable enc_set_max : hstate -> N -> hstate.
Variable cfg : cl_config.
Variable h0 : hstate.
Variable first : bytes.
Implicit Types c : cconn hstate.

Notation step := (cl_step dec_field enc_field enc_set_max cfg).
Notation run := (cl_run dec_field enc_field enc_set_max cfg h0 first).
Notation reach := (cl_reachable dec_field enc_field enc_set_max cfg h0 first).

(* ---------- (a) after GOAWAY no further stream is opened ---------- *)
Theorem goaway_no_headers c e l : reach c -> cc_goAway c = true -> cc_out (step c e) = l ++ cc_out c ->
  Forall (fun o => is_headers o = false) l.
Proof.
  intros R GA Hl. destruct (ss_out _ _ _ _ (sum_any dec_field enc_field enc_set_max cfg c e (inv_reach _ _ _ _ _ _ c R))) as (l' & Hl' & Fl & _).
  rewrite Hl' in Hl. apply app_inv_tail in Hl. subst l'. eapply Forall_impl; [|exact Fl].
  intros o [B|B]; [destruct o; try discriminate; reflexivity|]. destruct o; try reflexivity.
  destruct B as (_ & _ & GA' & _). congruence.
Qed.

Lemma goaway_stays c e : reach c -> cc_goAway c = true -> cc_goAway (step c e) = true.
Proof. intros R. apply (ss_goAway _ _ _ _ (sum_any dec_field enc_field enc_set_max cfg c e (inv_reach _ _ _ _ _ _ c R))). Qed.

Theorem goaway_no_headers_ever evs1 evs2 : cc_goAway (run evs1) = true ->
  cc_goAway (run (evs1 ++ evs2)) = true /\
  filter is_headers (cc_out (run (evs1 ++ evs2))) = filter is_headers (cc_out (run evs1)).
Proof.
  intro GA. induction evs2 as [|e evs2 IH] using rev_ind; [rewrite app_nil_r; auto|].
  rewrite app_assoc, cl_run_snoc. destruct IH as [GA2 IH]. set (c := run (evs1 ++ evs2)) in *.
  assert (R : reach c) by apply cl_run_reachable.
  split; [apply goaway_stays; assumption|].
  destruct (ss_out _ _ _ _ (sum_any dec_field enc_field enc_set_max cfg c e (inv_reach _ _ _ _ _ _ c R))) as (l & Hl & _).
  rewrite Hl, filter_app, <- IH. rewrite (filter_none is_headers l); [reflexivity|].
  pose proof (goaway_no_headers c e l R GA2 Hl) as F. rewrite Forall_forall in F. exact F.
Qed.

(* ---------- (b) the step that takes a GOAWAY in ---------- *)
Lemma rl_frame_goaway_tables c fr : st_ok c -> sf_kind fr = KGoAway -> sf_sid fr = 0 ->
  cc_reqQueued (cl_rl_frame dec_field c fr) = cc_reqQueued c /\ cc_goAway (cl_rl_frame dec_field c fr) = cc_goAway c /\
  cc_closeRef (cl_rl_frame dec_field c fr) = cc_closeRef c.
Proof.
  intros St K Z. unfold cl_rl_frame. rewrite K. cbn [fkind_eqb].
  assert (EX : forall why, cc_reqQueued (cl_rl_exit (cl_set_last_err c CEConn) why) = cc_reqQueued c /\
                           cc_goAway (cl_rl_exit (cl_set_last_err c CEConn) why) = cc_goAway c /\
                           cc_closeRef (cl_rl_exit (cl_set_last_err c CEConn) why) = cc_closeRef c).
  { intro why. unfold cl_rl_exit. cbn [cl_note cc_reqQueued cc_goAway cc_closeRef ccu_out ccu_rl_done].
    rewrite cc_reqQueued_cl_conn_close, cc_goAway_cl_conn_close, cc_closeRef_cl_conn_close,
            cc_reqQueued_cl_set_last_err, cc_goAway_cl_set_last_err, cc_closeRef_cl_set_last_err. auto. }
  destruct (negb (cc_hdrStream c =? 0) && _); [apply EX|]. rewrite andb_false_r.
  rewrite cl_dispatch_eq. unfold disp_pre. rewrite Z.
  assert (F0 : cl_req_find (cc_reqQueued c) 0 = None).
  { apply cl_req_find_None. intro J. apply in_map_iff in J. destruct J as ([i u] & Hi & J). cbn in Hi. subst i.
    destruct (s_rq _ St _ _ J) as (_ & _ & _ & _ & NZ & _). congruence. }
  rewrite F0. unfold cl_read_stream. rewrite K. cbn [disp_ok1 disp_chk disp_err3 disp_tail].
  destruct (cl_gone_away c); [|auto].
  unfold cl_rl_exit. cbn [cl_note cc_reqQueued cc_goAway cc_closeRef ccu_out ccu_rl_done].
  rewrite cc_reqQueued_cl_conn_close, cc_goAway_cl_conn_close, cc_closeRef_cl_conn_close. auto.
Qed.

Theorem goaway_step c fr : reach c -> cl_rl_live c = true -> cc_netClosed c = false ->
  sf_kind fr = KGoAway -> sf_sid fr = 0 ->
  let c' := step c (CEvRL (RFrame fr)) in
  cc_goAway c' = true /\ cc_closeRef c' = sf_dep fr /\
  cc_reqQueued c' = filter (fun e => negb (sf_dep fr <? fst e)) (cc_reqQueued c) /\
  forall id t, In (id, t) (cc_reqQueued c) -> sf_dep fr < id ->
    exists x x', cl_ctx_get c t = Some x /\ cl_ctx_get c' t = Some x' /\ ct_sid x = id /\
                 ct_finished x' = true /\ answered x' = true /\ (answered x = false -> ct_err x' = Some CEGoAway).
Proof.
  intros R RL NC K Z. destruct (inv_reach _ _ _ _ _ _ c R) as [St A]. cbn [cl_step]. rewrite RL. unfold cl_rl_step. rewrite NC, Z, K. cbn [N.eqb].
  destruct (effo_goaway (CP:=cp_ga) (fun _ => True) (fun _ _ => I) c (sf_dep fr) (fun _ _ => eq_refl) St) as (E1 & F1 & Q1 & G1 & C1 & A1).
  destruct (cl_goaway c (sf_dep fr)) as [c1 stuck]. cbn [fst snd] in *. subst stuck.
  pose proof (st_ok_eff (CP:=cp_ga) _ _ _ St (proj1 E1)) as S1.
  destruct (rl_frame_goaway_tables c1 fr S1 K Z) as (Q2 & G2 & C2).
  rewrite Q2, G2, C2. repeat split; auto.
  intros id t J L. destruct (s_rq _ St _ _ J) as (x & G & Sx & _). destruct (A1 id t J L) as (x1 & Gx1 & An1 & Fi1).
  assert (E2 : effo (CP:=cp_any) any_item c1 (cl_rl_frame dec_field c1 fr)).
  { apply effo_rl_frame; try (intros; exact I); [exact S1|].
    apply (an_ok_effo (CP:=cp_ga) (fun _ => True) c c1 A E1). }
  destruct (e_ctx _ _ _ (proj1 E2) _ _ Gx1) as (x' & Gx' & V2). exists x, x'. repeat split; auto.
  - apply (cev_finished _ _ V2 Fi1).
  - apply (cev_answered _ _ V2 An1).
  - intro NA. destruct (e_ctx _ _ _ (proj1 E1) _ _ G) as (x1' & Gx1' & V1). rewrite Gx1 in Gx1'. inversion Gx1'; subst x1'.
    unfold answered in NA, An1. apply orb_false_iff in NA. destruct NA as [NR NE].
    rewrite (cev_returned _ _ V1), NR in An1. cbn [orb] in An1.
    assert (E1x : ct_err x1 = Some CEGoAway).
    { destruct (cev_err _ _ V1) as [Es|(_ & _ & e & Es & Ee)]; [|cbn in Ee; subst e; exact Es].
      rewrite Es in An1. destruct (ct_err x); discriminate. }
    destruct (cev_err _ _ V2) as [Es|(Es & _)]; congruence.
Qed.


(* ---------- (c) a retryable error only for a request the server cannot have processed ---------- *)
Definition hdr_sids (out : list coutev) : list N :=
  flat_map (fun o => match o with COHeaders s _ _ => [s] | _ => [] end) out.

Lemma hdr_sids_app l l' : hdr_sids (l ++ l') = hdr_sids l ++ hdr_sids l'.
Proof. apply flat_map_app. Qed.

Lemma hdr_sids_In sid out : In sid (hdr_sids out) <-> exists es blk, In (COHeaders sid es blk) out.
Proof.
  unfold hdr_sids. rewrite in_flat_map. split.
  - intros (o & Ho & Hs). destruct o; cbn in Hs; try contradiction. destruct Hs as [<-|[]]. eauto.
  - intros (es & blk & H). eexists. split; [exact H | left; reflexivity].
Qed.

(* stream ids on the wire are positive and below nextID *)
Theorem hdr_sids_bound evs sid : In sid (hdr_sids (cc_out (run evs))) -> 0 < sid /\ sid < cc_nextID (run evs).
Proof.
  revert sid. apply (cl_run_ind_reach _ dec_field enc_field enc_set_max cfg h0 first
                       (fun c => forall sid, In sid (hdr_sids (cc_out c)) -> 0 < sid /\ sid < cc_nextID c)).
  - intro sid. unfold cl_init. destruct (cl_settings_deserialize false first); intros [].
  - intros c e R IH sid H. pose proof (inv_reach _ _ _ _ _ _ c R) as Hi.
    pose proof (sum_any dec_field enc_field enc_set_max cfg c e Hi) as S.
    destruct (ss_out _ _ _ _ S) as (l & Hl & Fl & _ & HN). rewrite Hl, hdr_sids_app in H. apply in_app_iff in H.
    destruct H as [H|H].
    + apply hdr_sids_In in H. destruct H as (es & blk & H). rewrite Forall_forall in Fl.
      destruct (Fl _ H) as [B|(_ & _ & _ & -> & _)]; [discriminate|].
      assert (HX : existsb is_headers l = true) by (apply existsb_exists; eexists; split; [exact H | reflexivity]).
      rewrite (HN HX). pose proof (s_next _ (proj1 Hi)) as Z. clear - Z. lia.
    + destruct (IH _ H) as [A B]. split; [exact A|]. destruct (ss_next _ _ _ _ S) as [-> | ->]; [exact B | clear - B; lia].
Qed.

(* the read loop took in a GOAWAY whose last-stream-id is below id *)
Definition ga_above (evs : list cevent) (id : N) : Prop :=
  exists pre fr post, evs = pre ++ CEvRL (RFrame fr) :: post /\ sf_kind fr = KGoAway /\ sf_sid fr = 0 /\ sf_dep fr < id /\
    cl_rl_live (run pre) = true /\ cc_netClosed (run pre) = false.

Lemma ga_above_snoc evs e id : ga_above evs id -> ga_above (evs ++ [e]) id.
Proof. intros (pre & fr & post & -> & H). exists pre, fr, (post ++ [e]). rewrite <- app_assoc. split; [reflexivity | exact H]. Qed.

(* the instance for one step from c: beside the plain errors, ErrGoAway for the streams a GOAWAY taken in by this very
   step disclaims *)
Definition ga_now c (e : cevent) (sid : N) : Prop :=
  exists fr, e = CEvRL (RFrame fr) /\ sf_kind fr = KGoAway /\ sf_sid fr = 0 /\ sf_dep fr < sid /\
             cl_rl_live c = true /\ cc_netClosed c = false.
Definition cp_step c (e : cevent) : cparams.
Proof.
  refine {| Eok := fun sid er => (cl_retryable er = false /\ er <> CENil) \/ er = CENil \/ (er = CEGoAway /\ ga_now c e sid);
            Vok := fun _ _ => True; Wok := fun _ _ _ => True |}; auto.
Defined.
Instance cplain_step c e : cplain (cp_step c e).
Proof. intros sid er A B. left. auto. Qed.

Lemma sum_step c e : inv c -> step_sum (CP:=cp_step c e) dec_field c e (step c e).
Proof.
  intro Hi. apply step_moves; [exact Hi|]. intros i Ei. repeat split; try (intros; exact I).
  - intros fr Hf RL NC c1 _ _. right. left. reflexivity.
  - intros fr Hf K Z RL NC id L. right. right. split; [reflexivity|]. exists fr. subst i. auto 10.
Qed.

Lemma submit_noop c t rq q x : cl_ctx_get c t = Some x -> step c (CEvSubmit t rq q) = c.
Proof. intro G. cbn [cl_step]. unfold cl_submit. rewrite G. reflexivity. Qed.

Definition unsent c (t : N) (x : cctx) : Prop := ct_sid x = 0 /\ (ct_done x = true \/ ~ In t (cc_inQ c)).

Definition retry_inv (evs : list cevent) : Prop :=
  let c := run evs in
  (forall t x e, cl_ctx_get c t = Some x -> ct_err x = Some e -> cl_retryable e = true ->
     unsent c t x \/ (e = CEGoAway /\ ga_above evs (ct_sid x))) /\
  (forall t r e resp, In (COResult t r e resp) (cc_out c) -> cl_retryable e = true ->
     exists x, cl_ctx_get c t = Some x /\ ct_done x = true /\ (ct_sid x = 0 \/ (e = CEGoAway /\ ga_above evs (ct_sid x)))).

Lemma resolve_err_cases x e : ct_err (cl_ctx_resolve x e) = ct_err x \/ (ct_err x = None /\ ct_err (cl_ctx_resolve x e) = Some e).
Proof. rewrite cl_ctx_resolve_eq. destruct (ct_resolved x); cbn; [auto|]. destruct (ct_err x) eqn:E; cbn; [left; exact E | right; auto]. Qed.
Lemma resolve_sid x e : ct_sid (cl_ctx_resolve x e) = ct_sid x.
Proof. rewrite cl_ctx_resolve_eq. destruct (_ && _); reflexivity. Qed.
Lemma resolve_done x e : ct_done (cl_ctx_resolve x e) = ct_done x.
Proof. rewrite cl_ctx_resolve_eq. destruct (_ && _); reflexivity. Qed.

Theorem retry_inv_run evs : retry_inv evs.
Proof.
  induction evs as [|e evs IH] using rev_ind.
  { split.
    - intros t x er G. exfalso. unfold cl_ctx_get, cl_run, cl_init in G. cbn [fold_left] in G.
      destruct (cl_settings_deserialize false first); discriminate.
    - intros t r er resp H. exfalso. unfold cl_run, cl_init in H. cbn [fold_left] in H.
      destruct (cl_settings_deserialize false first); destruct H. }
  unfold retry_inv. rewrite cl_run_snoc. destruct IH as [IH1 IH2]. set (c := run evs) in *.
  assert (R : reach c) by apply cl_run_reachable. pose proof (inv_reach _ _ _ _ _ _ c R) as Hi. destruct Hi as [St A].
  pose proof (sum_step c e (conj St A)) as S. set (c' := step c e) in *.
  (* what stays unsent *)
  assert (KU : forall t x x', cl_ctx_get c t = Some x -> unsent c t x -> ct_sid x' = ct_sid x -> ct_done x' = ct_done x -> unsent c' t x').
  { intros t x x' G [U1 U2] Hs Hd. split; [congruence|]. destruct U2 as [U2|U2]; [left; congruence|]. right. intro J.
    destruct (ss_inQ _ _ _ _ S _ J) as [J'|(rq & q & ->)]; [contradiction|].
    unfold c' in J. rewrite (submit_noop c t rq q x G) in J. contradiction. }
  assert (P1 : forall t x' er, cl_ctx_get c' t = Some x' -> ct_err x' = Some er -> cl_retryable er = true ->
               unsent c' t x' \/ (er = CEGoAway /\ ga_above (evs ++ [e]) (ct_sid x'))).
  { intros t x' er G' E' Rt. destruct (cl_ctx_get c t) as [x|] eqn:G.
    2:{ destruct (ss_new _ _ _ _ S _ _ G G') as (rq & q & _ & _ & Z & _ & _ & _ & _ & _ & _ & _ & [(En & _)|(_ & _ & NI & _)]); [congruence|].
        left. split; [exact Z | right; exact NI]. }
    destruct (ss_old _ _ _ _ S _ _ G) as (x'' & G'' & M). rewrite G' in G''. inversion G''; subst x''. clear G''.
    assert (KEEP : forall y, ct_err y = ct_err x -> ct_sid y = ct_sid x -> ct_done y = ct_done x -> cev (CP:=cp_step c e) y x' ->
                   unsent c' t x' \/ (er = CEGoAway /\ ga_above (evs ++ [e]) (ct_sid x'))).
    { intros y Ey Sy Dy V. destruct (cev_err _ _ V) as [Es|(En & _ & e0 & Es & Ee)].
      - rewrite Es, Ey in E'. destruct (IH1 t x er G E' Rt) as [U|[-> GA]].
        + left. apply (KU t x x' G U); [rewrite (cev_sid _ _ V); exact Sy | rewrite (cev_done _ _ V); exact Dy].
        + right. split; [reflexivity|]. rewrite (cev_sid _ _ V), Sy. apply ga_above_snoc, GA.
      - rewrite Es in E'. inversion E'; subst e0. cbn in Ee. destruct Ee as [[F _]|[->|[-> (fr & -> & K & Z & L & RL & NC)]]]; [congruence | discriminate|].
        right. split; [reflexivity|]. rewrite (cev_sid _ _ V). exists evs, fr, []. repeat split; auto. }
    destruct M as [V|Ee Wr [->|(CL & Z & ->)]|Ee Ar Fi ->|Ee Fi Ca V|Ee Rr En ->|Ee WL (q & IQ) Dn Z GA V|Ee WL (q & IQ) CO Z ->].
    - apply (KEEP x); auto.
    - apply (KEEP (ctu_writing x false)); auto. apply cev_refl.
    - left. split; [rewrite resolve_sid; exact Z | left; rewrite resolve_done; reflexivity].
    - destruct (resolve_err_cases (ctu_fired x true) CETimeout) as [Es|[_ Es]]; [|rewrite Es in E'; inversion E'; subst er; discriminate].
      cbn in Es. rewrite Es in E'. destruct (IH1 t x er G E' Rt) as [U|[-> GA]].
      + left. apply (KU t x _ G U); [rewrite resolve_sid; reflexivity | rewrite resolve_done; reflexivity].
      + right. split; [reflexivity|]. rewrite resolve_sid. apply ga_above_snoc, GA.
    - apply (KEEP (ctu_cancelled x true)); auto.
    - discriminate.
    - (* taken on by writeRequest: its Err held nothing retryable *)
      exfalso. assert (NRt : forall e0, ct_err x = Some e0 -> cl_retryable e0 = false).
      { intros e0 E0. destruct (cl_retryable e0) eqn:Rt0; [|reflexivity]. exfalso.
        destruct (IH1 t x e0 G E0 Rt0) as [[_ [U|U]]|[_ (pre & fr & post & _ & _ & _ & L & _)]].
        - congruence.
        - apply U. rewrite IQ. left. reflexivity.
        - rewrite Z in L. clear - L. lia. }
      destruct (cev_err _ _ V) as [Es|(En & _ & e0 & Es & Eo)].
      + cbn in Es. rewrite Es in E'. rewrite (NRt _ E') in Rt. discriminate.
      + rewrite Es in E'. inversion E'; subst e0. cbn in Eo. destruct Eo as [[F _]|[->|[_ (fr & Ef & _)]]]; [congruence | discriminate | subst e; discriminate].
    - left. split; [rewrite resolve_sid; exact Z|]. right. unfold c'. subst e.
      apply (wl_in_dequeues (CP:=cp_any) dec_field enc_field enc_set_max cfg c t q (conj St A) WL IQ). }
  split; [exact P1|].
  intros t r er resp H Rt. destruct (ss_out _ _ _ _ S) as (l & Hl & Fl & _). rewrite Hl in H. apply in_app_iff in H.
  destruct H as [H|H].
  - (* this step's receive *)
    rewrite Forall_forall in Fl. destruct (Fl _ H) as [B|(Ee & x & G & Rr & Ex & _)]; [discriminate|].
    destruct (ss_res _ _ _ _ S t r er resp) as (x0 & G0 & G0').
    + rewrite Hl. apply in_app_iff. left. exact H.
    + intro J. pose proof (results_exact dec_field enc_field enc_set_max cfg h0 first evs t) as RE. fold c in RE.
      unfold ret_flag in RE. rewrite G, Rr in RE. unfold res_count in RE. apply length_zero_iff_nil in RE.
      assert (In (COResult t r er resp) (filter (is_res_of t) (cc_out c))) by (apply filter_In; split; [exact J | cbn; apply N.eqb_refl]).
      rewrite RE in H0. destruct H0.
    + rewrite G in G0. inversion G0; subst x0. exists (recv_ctx x). split; [exact G0'|]. split; [reflexivity|].
      destruct (IH1 t x er G Ex Rt) as [[U _]|[-> GA]]; [left; exact U | right; split; [reflexivity | apply ga_above_snoc, GA]].
  - destruct (IH2 t r er resp H Rt) as (x & G & Dn & Hs). destruct (ss_old _ _ _ _ S _ _ G) as (x' & G' & M).
    assert (K : ct_done x' = true /\ ct_sid x' = ct_sid x).
    { destruct M as [V|Ee Wr [->|(CL & Z & ->)]|Ee Ar Fi ->|Ee Fi Ca V|Ee Rr En ->|Ee WL (q & IQ) Dn' Z GA V|Ee WL (q & IQ) CO Z ->].
      - rewrite (cev_done _ _ V), (cev_sid _ _ V). auto.
      - auto.
      - rewrite resolve_done, resolve_sid. auto.
      - rewrite resolve_done, resolve_sid. auto.
      - rewrite (cev_done _ _ V), (cev_sid _ _ V). auto.
      - auto.
      - congruence.
      - rewrite resolve_done, resolve_sid. auto. }
    destruct K as [K1 K2]. exists x'. split; [exact G'|]. split; [exact K1|]. rewrite K2.
    destruct Hs as [Hs|[-> GA]]; [left; exact Hs | right; split; [reflexivity | apply ga_above_snoc, GA]].
Qed.

(* C11 (c): a result that RoundTrip takes as retryable is only ever given for a request whose HEADERS this connection
   never wrote, or (ErrGoAway) whose stream the server disclaimed with a GOAWAY below it *)
Theorem retry_sound evs t r e resp :
  In (COResult t r e resp) (cc_out (run evs)) -> cl_retryable e = true ->
  exists x, cl_ctx_get (run evs) t = Some x /\
    (~ In (ct_sid x) (hdr_sids (cc_out (run evs))) \/ (e = CEGoAway /\ ga_above evs (ct_sid x))).
Proof.
  intros H Rt. destruct (proj2 (retry_inv_run evs) t r e resp H Rt) as (x & G & _ & [Z|GA]).
  - exists x. split; [exact G|]. left. intro J. destruct (hdr_sids_bound evs _ J) as [P _]. rewrite Z in P. clear - P. lia.
  - exists x. auto.
Qed.

(* and the flag RoundTrip looks at is exactly retryable(err) *)
Theorem retry_flag evs t r e resp : In (COResult t r e resp) (cc_out (run evs)) -> r = cl_retryable e.
Proof.
  revert t r e resp. apply (cl_run_ind_reach _ dec_field enc_field enc_set_max cfg h0 first
                              (fun c => forall t r e resp, In (COResult t r e resp) (cc_out c) -> r = cl_retryable e)).
  - intros t r e resp. unfold cl_init. destruct (cl_settings_deserialize false first); intros [].
  - intros c e0 R IH t r e resp H.
    destruct (ss_out _ _ _ _ (sum_any dec_field enc_field enc_set_max cfg c e0 (inv_reach _ _ _ _ _ _ c R))) as (l & Hl & Fl & _).
    rewrite Hl in H. apply in_app_iff in H. destruct H as [H|H]; [|eapply IH; exact H].
    rewrite Forall_forall in Fl. destruct (Fl _ H) as [B|(_ & x & _ & _ & _ & Hr & _)]; [discriminate | exact Hr].
Qed.

End GoAway.
