(* Proofs/TeardownCliLive6.v -- blocking-structure model (Impl/Teardown.v), client, S3 liveness (6): the write loop ends.
   Statements: Props/Teardown.v; overview: Proofs/TeardownProofs.v. *)
From Coq Require Import Arith Lia Bool List.
From RecordUpdate Require Import RecordSet.
Import RecordSetNotations.
Import ListNotations.
From H2V Require Import Impl.Teardown Proofs.TeardownGen Proofs.TeardownCliInv Proofs.TeardownCliInv1 Proofs.TeardownCliInv2 Proofs.TeardownCliInv3 Proofs.TeardownCliInv4 Proofs.TeardownCliLocks Proofs.TeardownCliInv5 Proofs.TeardownCliLive1 Proofs.TeardownCliLive4 Proofs.TeardownCliLive5.

Module CliL7.
Import Cli CliP CliP2 CliL CliL2 CliL5 CliL6.

Ltac easy_fin ::= solve [auto | congruence | lia | tauto | (intuition congruence)
                         | (intuition (try congruence; try lia))
                         | (repeat split; eauto; try congruence; try lia)
                         | (left; repeat split; eauto; try congruence; try lia)
                         | (right; right; right; repeat split; eauto; try congruence; try lia) ].
Ltac solve_side ::= cbn; unf; rwk; rwx; cbn;
  first [ solve [repeat split; eauto; try congruence; try lia]
        | match goal with |- _ \/ _ => first [ solve [left; solve_side] | solve [right; solve_side] ] end
        | solve [timeout 10 fin] ].
Ltac stab := let s := fresh "s" in let a := fresh "a" in let I := fresh "I" in
  let H := fresh "H" in let G := fresh "G" in
  intros s a I H G; clear I; act_cases a; cbn in G; break; try lia; params; unf; rwk; cbn in *;
  try congruence; try solve [solve_side].
Ltac wunf := unfold iterQ, wl_t, wl_iter, wm, pcw in *.

Section P.
Variable cap : nat.
Hypothesis cap_pos : 1 <= cap.
Notation guard := (Cli.guard cap).
Notation reachable := (Cli.reachable cap).
Notation inv := (CliP.inv cap).
Variable r : run guard eff.
Hypothesis F : fair_run cap r.
Hypothesis R0 : reachable (st r 0).
Hypothesis NS : forall i, stalled (st r i) = false \/ dead (st r i) = true.

Notation Inv_run := (CliL2.Inv_run cap cap_pos r R0 NS).
Notation "P ~> Q" := (leadsto r P Q) (at level 70).
Notation ensures := (lt_ensures guard eff r (Inv cap) Inv_run).
Notation ensures_s := (lt_ensures_s guard eff r (Inv cap) Inv_run).
Let Fwl : sfair g_wl r := proj1 (proj2 (proj2 (proj2 F))).
Let Fbody : sfair g_body r := proj1 (proj2 (proj2 (proj2 (proj2 (proj2 (proj2 (proj2 F))))))).
Let Wwl := sfair_fair guard eff r g_wl Fwl.
Let Wbody := sfair_fair guard eff r g_body Fbody.
Notation rl_release := (CliL2.rl_release cap cap_pos r F R0 NS).

Notation done_stable := (CliL2.done_stable cap cap_pos r NS).
Notation closed_stable := (CliL2.closed_stable cap cap_pos r NS).
Notation wl_t_stable := (CliL6.wl_t_stable cap cap_pos r NS).

Lemma rl_done_stable : stable guard eff (Inv cap) (fun s => rl s = RDone).
Proof. stab. Qed.

(* -- (E) the write loop gets through its teardown and out of the drain loop -- *)
Definition PE (s : state) : Prop := closed s = true /\ done s = true /\ rl s = RDone /\ wl_t s.
Lemma PE_stable : stable guard eff (Inv cap) PE.
Proof.
  intros s a I (H1 & H2 & H3 & H4) G. repeat split.
  - eapply closed_stable; eauto.
  - eapply done_stable; eauto.
  - eapply rl_done_stable; eauto.
  - eapply wl_t_stable; eauto.
Qed.

Definition ws (p : wl_pc) : nat :=
  match p with
  | LT0 => 7 | LClose CCas => 6 | LClose CDone => 5 | LClose CLock => 4 | LClose CWrite => 3
  | LT2 => 2 | LT3 => 1 | _ => 0
  end.

Lemma wt_step : forall n,
  (fun s => (PE s /\ 2 <= ws (wl s)) /\ ws (wl s) = n) ~> (fun s => PE s /\ ws (wl s) < n).
Proof.
  intros n. apply (ensures g_wl); auto.
  - intros s a I ((HP & Hr) & Hn) G. pose proof (PE_stable s a I HP G) as HP'.
    revert HP'. generalize (PE (eff a s)). intros PE' HP'. unfold PE, ws in *.
    clear I; act_cases a; cbn in G; break; try lia; params; unf; rwk; cbn in *; unf; xr;
      try congruence; try lia;
      first [ left; solve [solve_side] | right; solve [solve_side] | idtac ].
  - intros s a I ((HP & Hr) & Hn) Ga G. pose proof (PE_stable s a I HP G) as HP'.
    revert HP'. generalize (PE (eff a s)). intros PE' HP'. unfold PE, ws in *.
    clear I; act_cases a; cbn in Ga; try contradiction; try lia;
      cbn in G; break; try lia; params; unf; rwk; cbn in *; unf; xr; try congruence; try lia;
      try solve [solve_side].
  - intros s I (((Hc & Hd & Hrl & Ht) & Hr) & Hn).
    destruct I as (I & _ & Hst). pose proof I as (I1 & I2 & _).
    destruct (wl s) eqn:E; cbn in Hr; try lia.
    + exists LSetErr; cbn; auto.
    + destruct c.
      * exists (CCasLose 0); cbn; rewrite E; repeat split; auto; lia.
      * exists (CCloseDone 0); cbn; rewrite E; repeat split; auto; lia.
      * exists (CLockB 0); cbn; rewrite E; repeat split; auto; try lia.
        destruct (clock_holder cap cap_pos s 0 ltac:(lia) I) as [Hb|(h & Hw)]; auto.
        { unfold cpc; rewrite E; auto. }
        congruence.
      * exists (CWriteRet 0); cbn; rewrite E; repeat split; auto; try lia; tauto.
    + exists LT2Take; cbn; auto.
Qed.

Lemma wt_to_drain : PE ~> (fun s => PE s /\ ws (wl s) <= 1).
Proof.
  apply (lt_variant guard eff r PE _ (fun s => ws (wl s))). intros n i (HP & Hn).
  destruct (le_lt_dec 2 (ws (wl (st r i)))) as [Hge|Hlt].
  - destruct (wt_step n i) as (j & Hj & HP' & Hl); [repeat split; auto; apply HP|].
    exists j; split; auto.
  - exists i; split; auto. left; split; auto; lia.
Qed.

Definition tx_active (p : tx_pc) : nat :=
  match p with TArmed | TRes | TDel | TTake | TOut => 2 | _ => 0 end.
Definition V (s : state) : nat :=
  inq s + outq s + xin s + 2 * ow s + (match xc s with KW1 => 2 | _ => 0 end) + tx_active (tx s).
Definition PE3 (s : state) : Prop := PE s /\ wl s = LT3.

Lemma drain_step : forall n,
  (fun s => PE3 s /\ V s = n) ~> (fun s => wl s = LDone \/ (PE3 s /\ V s < n)).
Proof.
  intros n. apply (ensures g_wl); auto.
  - intros s a I ((HP & Hw) & Hn) G. pose proof (PE_stable s a I HP G) as HP'.
    revert HP'. unfold PE3. generalize (PE (eff a s)). intros PE' HP'.
    destruct HP as (Hc & Hd & Hrl & _). unfold V, tx_active in *.
    assert (xc s = KW1 -> xloc s = XOut) by (destruct I as ((_ & _ & _ & I4) & _); apply I4).
    clear I; act_cases a; cbn in G; break; try lia; params; unf; rwk; fwd; rwx; cbn -[Nat.mul] in *;
      unf; xr; try congruence; try lia;
      first [ left; solve [solve_side] | right; solve [solve_side] | idtac ].
    all: try (destruct (tx s) eqn:?; cbn in *; first [ left; solve [solve_side] | right; solve [solve_side] ]).
    all: try (destruct (xloc s) eqn:?; cbn in *; first [ left; solve [solve_side] | right; solve [solve_side] ]).
    all: try (destruct (xsid s) eqn:?; cbn in *; first [ left; solve [solve_side] | right; solve [solve_side] ]).
  - intros s a I ((HP & Hw) & Hn) Ga G. pose proof (PE_stable s a I HP G) as HP'.
    revert HP'. unfold PE3. generalize (PE (eff a s)). intros PE' HP'.
    destruct HP as (Hc & Hd & Hrl & _). unfold V, tx_active in *.
    clear I; act_cases a; cbn in Ga; try contradiction; try lia;
      cbn in G; break; try lia; params; unf; rwk; rwx; cbn -[Nat.mul] in *; unf; xr;
      try congruence; try lia;
      first [ left; solve [solve_side] | right; solve [solve_side] | idtac ].
  - intros s I (((Hc & Hd & Hrl & Ht) & Hw) & Hn).
    destruct (Nat.eq_dec (inq s) 0) as [E1|E1]; [|exists LT3InO; cbn; repeat split; auto; lia].
    destruct (Nat.eq_dec (outq s) 0) as [E2|E2]; [|exists LT3Out; cbn; repeat split; auto; lia].
    destruct (xloc s) eqn:E3;
      try (exists LT3End; cbn; repeat split; auto; congruence).
    exists LT3InX; cbn; auto.
Qed.

Lemma drain_finishes : PE3 ~> (fun s => wl s = LDone).
Proof.
  apply (lt_variant guard eff r PE3 _ V). intros n i H.
  destruct (drain_step n i H) as (j & Hj & Hq). exists j; auto.
Qed.

Theorem wl_finishes : PE ~> (fun s => wl s = LDone).
Proof.
  intros i HP. destruct (wt_to_drain i HP) as (j & Hj & HP' & Hw).
  destruct (wl (st r j)) eqn:E; cbn in Hw; try lia;
    try (destruct HP' as (_ & _ & _ & Ht); unfold wl_t in Ht; rewrite E in Ht; contradiction).
  - destruct c; cbn in Hw; lia.
  - destruct (drain_finishes j) as (k & Hk & Hq); [split; auto|]. exists k; split; auto; lia.
  - exists j; auto.
Qed.
End P.
End CliL7.
