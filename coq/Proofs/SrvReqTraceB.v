(* Proofs/SrvReqTraceB.v - C01, the trace-level statement for one request, part 2: a clean lock-step run of the
   header block of a request never carries more than the header-list limit over a frame boundary (the model answers
   that with GOAWAY, which a clean step does not emit), and: a state reached by a clean run that is ready in the sense
   of the statement of Props/C01.v is `ready` in the sense of Proofs/SrvMsgStream.v. *)
From H2V Require Import Base.Bytes Base.MachineInt Base.Result Gen.GenConsts Impl.ServerConn Spec.Http2Messages
  Proofs.SrvBase Proofs.SrvMsgDefs Proofs.SrvMsgPure Proofs.SrvMsgLoop Proofs.SrvMsgStream Proofs.SrvMsgPhase
  Proofs.SrvMsgReq Proofs.SrvMsgC20 Proofs.SrvInvSlots Proofs.SrvIsoRef Proofs.SrvIsoMoves Proofs.SrvIsoSteps Proofs.SrvIsoHdr
  Proofs.SrvIsoHdrStep Proofs.SrvIsoRun.
From Coq Require Import ZArith Lia ZifyN ZifyNat ZifyBool List.
Import ListNotations.
Local Open Scope N_scope.

Section B.
Variable hstate : Type.
Variable dec_field : hstate -> N -> bytes -> dec_res hstate.
Variable enc_field : hstate -> bytes -> bytes -> bool -> bytes * hstate.
Variable enc_set_max : hstate -> N -> hstate.
Variable cfg : config.
Variable h0 : hstate.
Notation sconn := (sconn hstate).
Notation step := (step dec_field enc_field enc_set_max cfg).
Notation run := (run dec_field enc_field enc_set_max cfg h0).
Notation run_from := (run_from dec_field enc_field enc_set_max cfg).
Notation clean := (clean dec_field enc_field enc_set_max cfg h0).
Notation feed := (feed dec_field enc_field enc_set_max cfg).
Notation feeds := (feeds dec_field enc_field enc_set_max cfg).
Implicit Types c : sconn.

(* ---------- a clean step on a header-block fragment does not end the stream loop ---------- *)
Lemma clean_hdr_step_alive evs fr q :
  clean (evs ++ [EvSL]) -> sc_sl_done (run evs) = false -> sc_readerQ (run evs) = fr :: q -> is_hdr_frame fr = true ->
  sc_closing (run evs) = false -> sc_sl_done (run (evs ++ [EvSL])) = false.
Proof.
  intros CL Hd RQ IHF NC. apply clean_snoc in CL. destruct CL as [CL CS].
  assert (HT : hdr_taken (run evs) EvSL = [fr]).
  { unfold hdr_taken, sl_takes. rewrite Hd, RQ. cbn [hd_error]. rewrite IHF. reflexivity. }
  destruct (CS fr HT) as [W GC].
  destruct (hdr_step_reference _ dec_field enc_field enc_set_max cfg h0 evs fr q CL Hd RQ IHF W GC)
    as (n & carry & _ & (fs & n' & carry' & _ & EF & _)).
  rewrite run_snoc. destruct EF as (_ & _ & D). unfold done_eff in D. sc_cbn_in D.
  destruct D as [D|[_ [D|D]]]; [congruence | congruence | specialize (D W); lia].
Qed.

(* the read loop forwards a frame of the block *)
Lemma rl_blk c sid (iscont es eh : bool) frag :
  N.land sid 1 = 1 -> sc_rl_done c = false -> sc_sl_done c = false -> sc_readerQ c = [] ->
  sc_expectCont c = (if iscont then sid else 0) ->
  step c (EvRL (RFrame (blk_frame iscont sid es eh frag))) =
  upd_readerQ (upd_expectCont c (if eh then 0 else sid)) [blk_frame iscont sid es eh frag].
Proof.
  intros O Rl Sl Q E. assert (NZ : sid <> 0) by (intro; subst; discriminate).
  rewrite step_EvRL, Rl.
  unfold rl_step, blk_frame. rewrite E.
  destruct iscont; cbn [sf_kind sf_sid sf_flags cont_frame headers_frame fkind_eqb negb andb orb].
  - replace (sid =? 0) with false by lia. rewrite N.eqb_refl, fl_has_eh. cbn [negb orb].
    unfold check_frame_with_stream. cbn [sf_sid sf_kind cont_frame headers_frame data_frame]. rewrite O. cbn [N.eqb Pos.eqb].
    unfold forward. destruct eh; sc_cbn; rewrite Sl, Q.
    + reflexivity.
    + replace (upd_expectCont c sid) with c; [reflexivity | rewrite <- E; symmetry; apply upd_expectCont_same].
  - cbn [N.eqb negb]. rewrite fl_has_eh. replace (sid =? 0) with false by lia. cbn [negb].
    unfold check_frame_with_stream. cbn [sf_sid sf_kind cont_frame headers_frame data_frame]. rewrite O. cbn [N.eqb Pos.eqb].
    unfold forward. destruct eh; cbn [negb]; sc_cbn; rewrite Sl, Q.
    + replace (upd_expectCont c 0) with c; [reflexivity | rewrite <- E; symmetry; apply upd_expectCont_same].
    + reflexivity.
Qed.

Lemma is_hdr_blk_frame iscont sid es eh frag : sid <> 0 -> is_hdr_frame (blk_frame iscont sid es eh frag) = true.
Proof.
  intro NZ. unfold is_hdr_frame, blk_frame. destruct iscont; cbn [sf_sid sf_kind cont_frame headers_frame];
    replace (sid =? 0) with false by lia; reflexivity.
Qed.

(* one frame of the block, fed in lock-step at the end of a clean run, from a state where both loops run *)
Lemma blk_feed_alive evsP sid (iscont es eh : bool) frag :
  N.land sid 1 = 1 ->
  sc_rl_done (run evsP) = false -> sc_sl_done (run evsP) = false -> sc_readerQ (run evsP) = [] ->
  sc_expectCont (run evsP) = (if iscont then sid else 0) -> sc_closing (run evsP) = false ->
  clean (evsP ++ [EvRL (RFrame (blk_frame iscont sid es eh frag)); EvSL]) ->
  run (evsP ++ [EvRL (RFrame (blk_frame iscont sid es eh frag)); EvSL]) = feed (run evsP) (blk_frame iscont sid es eh frag) /\
  sc_sl_done (feed (run evsP) (blk_frame iscont sid es eh frag)) = false.
Proof.
  intros O Rl Sl Q E NC CL. assert (NZ : sid <> 0) by (intro; subst; discriminate).
  set (fr := blk_frame iscont sid es eh frag) in *.
  assert (ER : run (evsP ++ [EvRL (RFrame fr); EvSL]) = feed (run evsP) fr).
  { rewrite run_app. reflexivity. }
  split; [exact ER|]. rewrite <- ER.
  replace (evsP ++ [EvRL (RFrame fr); EvSL]) with ((evsP ++ [EvRL (RFrame fr)]) ++ [EvSL]) in * by (rewrite <- app_assoc; reflexivity).
  assert (X : run (evsP ++ [EvRL (RFrame fr)]) = upd_readerQ (upd_expectCont (run evsP) (if eh then 0 else sid)) [fr]).
  { rewrite run_snoc. apply rl_blk; assumption. }
  apply (clean_hdr_step_alive _ fr []); [exact CL | | | apply is_hdr_blk_frame; exact NZ |]; rewrite X; sc_cbn; assumption || reflexivity.
Qed.

(* ---------- the carried-over bytes stay within the limit ---------- *)
Variable c0 : sconn.
Variable sid : N.
Hypothesis R0 : ready cfg c0 sid.
Notation holds := (holds cfg c0 sid).

Lemma odd0 : N.land sid 1 = 1.
Proof. apply (rd_odd _ _ _ _ (proj1 R0)). Qed.

Lemma lockstep_cons fr frs : lockstep (fr :: frs) = [EvRL (RFrame fr); EvSL] ++ lockstep frs.
Proof. reflexivity. Qed.

Lemma cont_carries d n prev frags fs d' carries :
  block_dec dec_field d n prev frags fs d' carries ->
  forall evsP state st size rq recv stF,
    holds (run evsP) sid (PhBlock state st size n prev rq recv d) ->
    clean (evsP ++ lockstep (cont_frames sid frags)) ->
    list_over cfg (size + fsize fs) = false -> vrun cfg st fs = inr stF ->
    carries_over cfg carries = false.
Proof.
  induction 1 as [d n prev frag fs d' n' Hf | d n prev frag frags fs1 d1 n1 carry fs2 d' carries NE Hf B IH];
    intros evsP state st size rq recv stF H CL LO VR; [reflexivity|].
  cbn [cont_frames] in CL. replace (is_nil frags) with false in CL by (destruct frags; [congruence | reflexivity]).
  rewrite lockstep_cons, app_assoc in CL.
  pose proof (step_cont _ dec_field enc_field enc_set_max cfg c0 sid R0 (run evsP) state st size n prev rq recv d false frag
                        fs1 d1 n1 carry H Hf) as S.
  unfold blk_result in S. cbv zeta in S.
  rewrite fsize_app in LO. pose proof (fsize_nonneg fs2) as P2.
  rewrite (list_over_mono cfg (size + fsize fs1) (size + (fsize fs1 + fsize fs2)) ltac:(lia) LO) in S.
  rewrite vrun_app in VR. destruct (vrun cfg st fs1) as [code|st1]; [discriminate|].
  (* the step is clean: the stream loop is still running *)
  pose proof H as (AL & _ & _). destruct AL as [[Hb _ _ _ _ _ _] _]. destruct Hb as [Bc Bsl Brl Bwl Bq Bec _ _ _ _ _ _ _ _ _].
  pose proof (proj1 (clean_from_app _ _ _ _ _ _ _ _) CL) as [CL1 _].
  destruct (blk_feed_alive evsP sid true false false frag odd0 Brl Bsl Bq Bec Bc CL1) as [ER AL2].
  change (blk_frame true sid false false frag) with (cont_frame sid false frag) in *.
  cbn [carries_over existsb]. fold (carries_over cfg carries).
  destruct (carry_over cfg carry) eqn:CO.
  - exfalso. cbn [SrvMsgPhase.holds] in S. destruct S as [S _]. congruence.
  - cbn [orb]. rewrite <- ER in S.
    apply (IH _ state st1 (size + fsize fs1)%Z (req_fold rq fs1) recv stF S CL); [|exact VR].
    replace (size + fsize fs1 + fsize fs2)%Z with (size + (fsize fs1 + fsize fs2))%Z by lia. exact LO.
Qed.

Lemma block_carries evs0 es hfrags fs d' carries stF :
  c0 = run evs0 ->
  block_dec dec_field (sc_dec c0) 0 [] hfrags fs d' carries ->
  clean (evs0 ++ lockstep (block_frames sid es hfrags)) ->
  list_over cfg (fsize fs) = false -> vrun cfg v0 fs = inr stF ->
  carries_over cfg carries = false.
Proof.
  intros E0 B CL LO VR.
  inversion B as [d_ n_ prev_ frag fs_ d'_ n' Hf | d_ n_ prev_ frag frags' fs1 d1 n1 carry fs2 d'_ carries' NE Hf B']; subst d_ n_ prev_;
    [reflexivity|]. subst hfrags fs carries d'_.
  cbn [block_frames] in CL. replace (is_nil frags') with false in CL by (destruct frags'; [congruence | reflexivity]).
  rewrite lockstep_cons, app_assoc in CL.
  pose proof (step_first _ dec_field enc_field enc_set_max cfg c0 sid R0 es false frag fs1 d1 n1 carry Hf) as S.
  unfold blk_result in S. cbv zeta in S. rewrite Z.add_0_l in S.
  rewrite fsize_app in LO. pose proof (fsize_nonneg fs2) as P2.
  rewrite (list_over_mono cfg (fsize fs1) (fsize fs1 + fsize fs2) ltac:(lia) LO) in S.
  rewrite vrun_app in VR. destruct (vrun cfg v0 fs1) as [code|st1]; [discriminate|].
  pose proof R0 as (Rs & Rl & Q & E). destruct Rs as [_ _ _ _ _ _ _ _ _ Hclosing Hsl _].
  pose proof (proj1 (clean_from_app _ _ _ _ _ _ _ _) CL) as [CL1 _].
  rewrite E0 in Rl, Q, E, Hclosing, Hsl.
  destruct (blk_feed_alive evs0 sid false es false frag odd0 Rl Hsl Q E Hclosing CL1) as [ER AL2].
  change (blk_frame false sid es false frag) with (headers_frame sid es false frag) in *.
  cbn [carries_over existsb]. fold (carries_over cfg carries').
  rewrite <- E0 in ER, AL2.
  destruct (carry_over cfg carry) eqn:CO.
  - exfalso. cbn [SrvMsgPhase.holds] in S. destruct S as [S _]. congruence.
  - cbn [orb]. rewrite <- ER in S.
    apply (cont_carries _ _ _ _ _ _ _ B' _ _ st1 (fsize fs1) (req_fold empty_req fs1) 0%Z stF S CL); [exact LO | exact VR].
Qed.

End B.
