(* Proofs/SrvFlowSend.v - sendData as a relation: one constructor per way an iteration of the loop can go.
   Everything else about sending (ledger safety, END_STREAM framing, no-stall, completion) is an induction on it. *)
From H2V Require Import Base.Bytes Base.MachineInt Base.Result Gen.GenConsts Impl.ServerConn Proofs.SrvBase.
From Coq Require Import ZArith Lia ZifyN ZifyNat ZifyBool List.
Import ListNotations.
Local Open Scope N_scope.
Set Default Proof Using "Type".

(* ---------- small facts ---------- *)

Lemma zmin_min a b : zmin a b = Z.min a b.
Proof. unfold zmin. destruct (a <? b)%Z eqn:E; lia. Qed.

Lemma len_nil_iff (b : bytes) : len b = 0 <-> b = [].
Proof. unfold len. destruct b; cbn [length]; split; intro H; try reflexivity; try discriminate; lia. Qed.

Lemma len_takeN k (b : bytes) : len (takeN k b) = N.min k (len b).
Proof. unfold len, takeN. rewrite firstn_length. lia. Qed.

Lemma len_dropN k (b : bytes) : len (dropN k b) = len b - k.
Proof. unfold len, dropN. rewrite skipn_length. lia. Qed.

Lemma takeN_dropN k (b : bytes) : takeN k b ++ dropN k b = b.
Proof. apply firstn_skipn. Qed.

Lemma len_app (a b : bytes) : len (a ++ b) = len a + len b.
Proof. unfold len. rewrite app_length. lia. Qed.

Section Send.
Variable hstate : Type.
Notation sconn := (sconn hstate).
Implicit Types c : sconn.

(* ---------- one iteration, named ---------- *)

Definition sd_avail c (n : sendst) : Z := zmin (sn_window n) (sc_clientWindow c).
Definition sd_step c (n : sendst) : Z :=
  zmin (zmin (Z.of_N maxDataFrameSize) (sd_avail c n)) (Z.of_N (len (sn_pending n))).
Definition sd_chunk c (n : sendst) : bytes := takeN (Z.to_N (sd_step c n)) (sn_pending n).
Definition sd_rest c (n : sendst) : bytes := dropN (Z.to_N (sd_step c n)) (sn_pending n).
Definition sd_es c (n : sendst) : bool := sn_pendingEnd n && match sd_rest c n with [] => true | _ => false end.
Definition sd_c2 c (sid : N) (n : sendst) : sconn :=
  upd_clientWindow (emit c (OData sid (sd_es c n) (sd_chunk c n))) (sc_clientWindow c - sd_step c n).
Definition sd_n' c (n : sendst) : sendst :=
  mkSnd (sn_window n - sd_step c n) (sd_rest c n) (sn_pendingEnd n) (sn_bodyStream n) (sn_bodySize n) (sn_bodyRead n).

Definition sd_go (fuel : nat) c (sid : N) (n : sendst) : sconn * sendst * bool * bool :=
  if (sd_avail c n <=? 0)%Z then (c, n, false, false)
  else if sd_es c n then (sd_c2 c sid n, sd_n' c n, true, false)
  else send_data_loop fuel (sd_c2 c sid n) sid (sd_n' c n).

Definition sd_closed (n : sendst) : sendst :=
  mkSnd (sn_window n) (sn_pending n) (sn_pendingEnd n) None (sn_bodySize n) (sn_bodyRead n).

Lemma send_data_loop_S fuel c sid n :
  send_data_loop (S fuel) c sid n =
  match sn_pending n with
  | [] =>
    match sn_bodyStream n with
    | None => (c, n, true, false)
    | Some _ =>
      match refill_pending n with
      | None => (write_reset c sid c_InternalError, sd_closed n, true, true)
      | Some n1 =>
        match sn_pending n1 with
        | [] => (if sn_pendingEnd n1 then emit c (OData sid true []) else c, n1, true, false)
        | _ => sd_go fuel c sid n1
        end
      end
    end
  | _ => sd_go fuel c sid n
  end.
Proof.
  assert (E : forall o, sc_clientWindow (emit c o) = sc_clientWindow c) by (intro; sc_unf).
  cbn [send_data_loop]. unfold sd_go, sd_c2, sd_n', sd_es, sd_rest, sd_chunk, sd_step, sd_avail, sd_closed.
  destruct (sn_pending n); [|rewrite ?E; reflexivity].
  destruct (sn_bodyStream n); [|reflexivity]. destruct (refill_pending n) as [n1|]; [|reflexivity].
  destruct (sn_pending n1); [reflexivity|]. rewrite ?E. reflexivity.
Qed.

(* ---------- refillPending ---------- *)

(* the state the sending iteration starts from: n itself, or n after a scripted read *)
Inductive sd_src (n : sendst) : sendst -> Prop :=
| src_same : sn_pending n <> [] -> sd_src n n
| src_refill n1 : sn_pending n = [] -> sn_bodyStream n <> None -> refill_pending n = Some n1 -> sn_pending n1 <> [] ->
    sd_src n n1.

Lemma refill_window n n1 : refill_pending n = Some n1 -> sn_window n1 = sn_window n.
Proof.
  unfold refill_pending. destruct (sn_bodyStream n) as [reads|]; [|intro H; inversion H; reflexivity].
  destruct reads as [|[ch e] t].
  - intro H; inversion H; reflexivity.
  - destruct e; [destruct ch| |]; intro H; inversion H; reflexivity.
Qed.

Lemma sd_src_window n n1 : sd_src n n1 -> sn_window n1 = sn_window n.
Proof. destruct 1; [reflexivity | eauto using refill_window]. Qed.

Lemma sd_src_pending n n1 : sd_src n n1 -> sn_pending n1 <> [].
Proof. destruct 1; assumption. Qed.

(* ---------- the relation ---------- *)

(* SDL sid c n r k: r is a possible result of sendData from (c, n); k = the fuel ran out (never, see below) *)
Inductive SDL (sid : N) : sconn -> sendst -> sconn * sendst * bool * bool -> bool -> Prop :=
| SDL_fuel c n : SDL sid c n (c, n, false, false) true
| SDL_none c n : sn_pending n = [] -> sn_bodyStream n = None -> SDL sid c n (c, n, true, false) false
| SDL_fail c n : sn_pending n = [] -> sn_bodyStream n <> None -> refill_pending n = None ->
    SDL sid c n (write_reset c sid c_InternalError, sd_closed n, true, true) false
| SDL_eof c n n1 : sn_pending n = [] -> sn_bodyStream n <> None -> refill_pending n = Some n1 -> sn_pending n1 = [] ->
    SDL sid c n (if sn_pendingEnd n1 then emit c (OData sid true []) else c, n1, true, false) false
| SDL_blocked c n n1 : sd_src n n1 -> (sd_avail c n1 <= 0)%Z -> SDL sid c n (c, n1, false, false) false
| SDL_last c n n1 : sd_src n n1 -> (0 < sd_avail c n1)%Z -> sd_es c n1 = true ->
    SDL sid c n (sd_c2 c sid n1, sd_n' c n1, true, false) false
| SDL_more c n n1 r k : sd_src n n1 -> (0 < sd_avail c n1)%Z -> sd_es c n1 = false ->
    SDL sid (sd_c2 c sid n1) (sd_n' c n1) r k -> SDL sid c n r k.

Lemma sd_go_SDL sid fuel c n n1 :
  (forall c n, exists k, SDL sid c n (send_data_loop fuel c sid n) k) ->
  sd_src n n1 -> exists k, SDL sid c n (sd_go fuel c sid n1) k.
Proof.
  intros IH Hs. unfold sd_go. destruct (sd_avail c n1 <=? 0)%Z eqn:A.
  - exists false. apply SDL_blocked; [assumption | lia].
  - destruct (sd_es c n1) eqn:E.
    + exists false. apply SDL_last; [assumption | lia | assumption].
    + destruct (IH (sd_c2 c sid n1) (sd_n' c n1)) as [k H]. exists k. eapply SDL_more; eauto. lia.
Qed.

Lemma send_data_loop_SDL sid fuel : forall c n, exists k, SDL sid c n (send_data_loop fuel c sid n) k.
Proof.
  induction fuel as [|fuel IH]; intros c n.
  - exists true. constructor.
  - rewrite send_data_loop_S. destruct (sn_pending n) eqn:P.
    + destruct (sn_bodyStream n) eqn:B; [|exists false; constructor; assumption].
      destruct (refill_pending n) as [n1|] eqn:R.
      * destruct (sn_pending n1) eqn:P1.
        -- exists false. apply SDL_eof; try assumption. congruence.
        -- apply sd_go_SDL; [assumption|]. apply src_refill; try assumption; congruence.
      * exists false. apply SDL_fail; try assumption. congruence.
    + apply sd_go_SDL; [assumption|]. apply src_same. congruence.
Qed.

(* ---------- arithmetic of one chunk ---------- *)

Lemma sd_step_bounds c n : sn_pending n <> [] -> (0 < sd_avail c n)%Z ->
  (0 < sd_step c n)%Z /\ (sd_step c n <= 16384)%Z /\ (sd_step c n <= sn_window n)%Z /\
  (sd_step c n <= sc_clientWindow c)%Z /\ (sd_step c n <= Z.of_N (len (sn_pending n)))%Z.
Proof.
  intros P A. unfold sd_step, sd_avail in *. rewrite !zmin_min in *. unfold maxDataFrameSize.
  assert (len (sn_pending n) <> 0) by (rewrite len_nil_iff; assumption). lia.
Qed.

Lemma sd_chunk_len c n : sn_pending n <> [] -> (0 < sd_avail c n)%Z -> Z.of_N (len (sd_chunk c n)) = sd_step c n.
Proof.
  intros P A. destruct (sd_step_bounds c n P A) as (B1 & _ & _ & _ & B5).
  unfold sd_chunk. rewrite len_takeN. lia.
Qed.

Lemma sd_chunk_rest c n : sd_chunk c n ++ sd_rest c n = sn_pending n.
Proof. apply takeN_dropN. Qed.

(* what sendData changes in the connection: the trace and the client window *)
Lemma SDL_nf sid c n r k : SDL sid c n r k ->
  fst (fst (fst r)) = upd_clientWindow (upd_out c (sc_out (fst (fst (fst r))))) (sc_clientWindow (fst (fst (fst r)))).
Proof.
  assert (E : forall (c : sconn), c = upd_clientWindow (upd_out c (sc_out c)) (sc_clientWindow c)) by (intros []; reflexivity).
  assert (F : forall (c : sconn) o, emit c o = upd_clientWindow (upd_out c (sc_out (emit c o))) (sc_clientWindow (emit c o))).
  { intros c0 o. unfold emit. destruct (sc_wl_dead c0); [apply E|]. destruct (sc_sl_done c0); destruct c0; reflexivity. }
  induction 1; cbn [fst].
  - apply E.
  - apply E.
  - unfold write_reset. apply F.
  - destruct (sn_pendingEnd n1); [apply F | apply E].
  - apply E.
  - unfold sd_c2. rewrite (F c) at 1. destruct c; reflexivity.
  - rewrite IHSDL at 1. unfold sd_c2. rewrite (F c) at 1. destruct c; reflexivity.
Qed.

End Send.

Arguments sd_avail {hstate}. Arguments sd_step {hstate}. Arguments sd_chunk {hstate}. Arguments sd_rest {hstate}.
Arguments sd_es {hstate}. Arguments sd_c2 {hstate}. Arguments sd_n' {hstate}. Arguments sd_go {hstate}.
Arguments SDL {hstate}.
