(* Proofs/TeardownCliInv5.v -- blocking-structure model (Impl/Teardown.v), client: once done is closed the closer is on its way.
   Statements: Props/Teardown.v; overview: Proofs/TeardownProofs.v. *)
From Coq Require Import Arith Lia Bool List.
From RecordUpdate Require Import RecordSet.
Import RecordSetNotations.
Import ListNotations.
From H2V Require Import Impl.Teardown Proofs.TeardownGen Proofs.TeardownCliInv Proofs.TeardownCliInv1 Proofs.TeardownCliInv2 Proofs.TeardownCliInv3 Proofs.TeardownCliInv4 Proofs.TeardownCliLocks.

Module CliL.
Import Cli CliP CliP2.

Ltac unf := unfold lx_of, bcount, wl_hold, rl_hold, rl_k, rl_stop, bw_of_state, midn, cpc, xin, resolveX, release,
  set_cpc, end_cpc, bw_of, dead in *.
Ltac act_cases a :=
  destruct a;
  try match goal with
      | G : Cli.guard _ (CCasWin ?p) _ |- _ => destruct p as [|[|[|p]]]
      | G : Cli.guard _ (CCasLose ?p) _ |- _ => destruct p as [|[|[|p]]]
      | G : Cli.guard _ (CCloseDone ?p) _ |- _ => destruct p as [|[|[|p]]]
      | G : Cli.guard _ (CLockB ?p) _ |- _ => destruct p as [|[|[|p]]]
      | G : Cli.guard _ (CWriteRet ?p) _ |- _ => destruct p as [|[|[|p]]]
      end.
Ltac params :=
  repeat match goal with b : bool |- _ => destruct b | h : hold |- _ => destruct h end.
Ltac dm :=
  match goal with
  | |- context[match ?x with _ => _ end] =>
      lazymatch x with
      | context[match _ with _ => _ end] => fail
      | _ => destruct x eqn:?
      end
  | H : context[match ?x with _ => _ end] |- _ =>
      lazymatch x with
      | context[match _ with _ => _ end] => fail
      | _ => destruct x eqn:?
      end
  end.
Ltac easy_fin := solve [auto | congruence | lia | tauto | (intuition congruence) ].
Ltac fwd :=
  repeat match goal with
         | H : ?A -> _, H' : ?A |- _ => specialize (H H')
         | H : ?x = ?x -> _ |- _ => specialize (H eq_refl)
         end.
Ltac rwx :=
  repeat match goal with
         | H : xloc ?s = _ |- _ => progress (rewrite H in * )
         end.
Ltac fin := cbn in *; intros; subst; rwk; rwx; fwd; rwk; cbn in *; rewrite ?orb_false_r in *;
  first [ easy_fin | dm; fin ].
Ltac prep G := cbn in G; break; try lia; params; unf; rwk; cbn in *; unf;
  try match goal with |- context[xres ?s] => destruct (xres s) eqn:? end; cbn in *.

Record inv5 (s : state) : Prop := {
  i_fin : done s = true ->
          sclosed s = true \/ is_late (cpc 0 s) || is_late (cpc 1 s) || is_late (cpc 2 s) = true }.

Section P.
Variable cap : nat.
Hypothesis cap_pos : 1 <= cap.
Notation guard := (Cli.guard cap).
Notation reachable := (Cli.reachable cap).
Notation inv := (CliP.inv cap).

Lemma inv5_init : forall s, init cap s -> inv5 s.
Proof.
  unfold init; intros s H; break. constructor; unf; rwk; cbn; auto; congruence.
Qed.

Lemma inv5_step : forall s a, inv5 s -> guard a s -> inv5 (eff a s).
Proof.
  intros s a I G. destruct I.
  act_cases a; prep G.
  all: constructor; cbn; unf; cbn; rwk; cbn; auto; try congruence; try lia.
  all: try (timeout 20 fin).
Qed.
End P.
End CliL.
