(* Proofs/SrvMsgExamples.v - C20: concrete requests on the server instantiated with the real HPACK model: the hypotheses
   of the theorems of SrvMsgC20.v are satisfiable (by computation), and what the theorems say is what the model does. *)
From H2V Require Import Base.Bytes Base.MachineInt Base.Result Gen.GenConsts Impl.Hpack Impl.ServerConn Impl.ServerInst
     Spec.Http2Messages Proofs.SrvBase Proofs.SrvMsgDefs Proofs.SrvMsgStream Proofs.SrvMsgCheck Proofs.SrvMsgC20.
From Coq Require Import ZArith Lia String.
Local Open Scope N_scope.
Import ListNotations.

(* a header block: every field as a literal without indexing, new name, no Huffman (RFC 7541 6.2.2) *)
Definition lit (f : field) : bytes := 0 :: len (fst f) :: fst f ++ len (snd f) :: snd f.
Definition blk (fs : list field) : bytes := List.concat (map lit fs).
Definition F (k v : string) : field := (octets k, octets v).

Definition cfgE : config := mkCfg 100 4096 1000 0 4194304.
Definition c_init : sconn hpack_state := init_conn cfgE srv_init_hpack.

Notation srv_request_decodes := (request_decodes srv_dec_field).
Notation srv_run_from := (run_from srv_dec_field srv_enc_field set_max_table_size cfgE).

Ltac decodes_tac :=
  unfold decodes; apply block_run_f_sound; vm_compute; reflexivity.

(* ---- 1. a well-formed POST: header block cut in the middle of a field, two DATA frames, a trailer ---- *)
Definition fs1 : list field :=
  [F ":method" "POST"; F ":scheme" "https"; F ":path" "/upload"; F ":authority" "example.org";
   F "content-type" "text/plain"; F "content-length" "5"; F "te" "trailers"].
Definition tr1 : list field := [F "x-checksum" "abc"].
Definition hfrags1 : list bytes := [firstn 40 (blk fs1); skipn 40 (blk fs1)].
Definition chunks1 : list bytes := [octets "he"; octets "llo"].
Definition tfrags1 : option (list bytes) := Some [blk tr1].
Definition d_after1 : hpack_state := srv_init_hpack.   (* literals without indexing leave the table alone *)
Definition carries1 : list bytes := [skipn 29 (firstn 40 (blk fs1))].

Example ex1_ready : ready cfgE c_init 1.
Proof. apply ready_init; [reflexivity | vm_compute; reflexivity]. Qed.

Example ex1_decodes : srv_request_decodes (sc_dec c_init) hfrags1 tfrags1 fs1 tr1 d_after1 carries1.
Proof.
  exists srv_init_hpack, carries1, []. split; [decodes_tac|]. split; [decodes_tac | reflexivity].
Qed.

Example ex1_hyps : within_limits cfgE fs1 tr1 carries1 5 = true /\ wf_request fs1 tr1 5 = true.
Proof. split; vm_compute; reflexivity. Qed.

Example ex1_trace :
  trace (srv_run_from c_init (lockstep (req_frames 1 hfrags1 chunks1 tfrags1))) =
  [OWinUpd 1 2; OWinUpd 1 3; ODispatch 1 (the_request fs1 chunks1 tr1)].
Proof. vm_compute. reflexivity. Qed.

(* ---- 2. malformed requests: the stream alone is refused ---- *)
(* (i) a pseudo-header field in the trailers (after a header block without any regular field) *)
Definition fs2 : list field := [F ":method" "GET"; F ":scheme" "https"; F ":path" "/"].
Definition tr2 : list field := [F ":authority" "x"].
Example ex2_hyps :
  srv_request_decodes (sc_dec c_init) [blk fs2] (Some [blk tr2]) fs2 tr2 srv_init_hpack [] /\
  header_limits cfgE fs2 tr2 [] = true /\ within_limits cfgE fs2 tr2 [] 0 && wf_request fs2 tr2 0 = false.
Proof.
  split; [|split; vm_compute; reflexivity].
  exists srv_init_hpack, [], []. split; [decodes_tac|]. split; [decodes_tac | reflexivity].
Qed.
Example ex2_trace :
  trace (srv_run_from c_init (lockstep (req_frames 1 [blk fs2] [] (Some [blk tr2])))) = [ORst 1 c_ProtocolError; ORelease 1 true].
Proof. vm_compute. reflexivity. Qed.

(* (ii) two content-length fields that disagree; the body matches the second one.
   The request dies in the header block: its DATA frames are only counted against the connection window *)
Definition body_hello : list bytes := [octets "hello"].
Definition body_hi : list bytes := [octets "hi"].
Definition body_x : list bytes := [octets "x"].
Definition fs3 : list field := fs2 ++ [F "content-length" "3"; F "content-length" "5"].
Example ex3_hyps :
  srv_request_decodes (sc_dec c_init) [blk fs3] None fs3 [] srv_init_hpack [] /\
  header_limits cfgE fs3 [] [] = true /\ within_limits cfgE fs3 [] [] 5 && wf_request fs3 [] 5 = false.
Proof.
  split; [|split; vm_compute; reflexivity].
  exists srv_init_hpack, [], []. split; [decodes_tac|]. repeat split.
Qed.
Example ex3_trace :
  trace (srv_run_from c_init (lockstep (req_frames 1 [blk fs3] body_hello None))) = [ORst 1 c_ProtocolError; ORelease 1 true].
Proof. vm_compute. reflexivity. Qed.

(* (iii) an upper-case name in the FIRST of two fragments: the rest of the block (a CONTINUATION frame) is still decoded,
   then DATA arrives for the dead stream *)
Definition fs4 : list field := fs2 ++ [F "X-Custom" "1"; F "accept" "*/*"].
Definition hfrags4 : list bytes := [firstn 45 (blk fs4); skipn 45 (blk fs4)].
Definition carries4 : list bytes := [skipn 37 (firstn 45 (blk fs4))].
Example ex4_hyps :
  srv_request_decodes (sc_dec c_init) hfrags4 None fs4 [] srv_init_hpack carries4 /\
  header_limits cfgE fs4 [] carries4 = true /\
  within_limits cfgE fs4 [] carries4 2 && wf_request fs4 [] 2 = false.
Proof.
  split; [|split; vm_compute; reflexivity].
  exists srv_init_hpack, carries4, []. split; [decodes_tac|]. repeat split.
Qed.
Example ex4_trace :
  trace (srv_run_from c_init (lockstep (req_frames 1 hfrags4 body_hi None))) = [ORst 1 c_ProtocolError; ORelease 1 true].
Proof. vm_compute. reflexivity. Qed.

(* (iv) a declared content-length over MaxRequestBodySize: ENHANCE_YOUR_CALM, still only the stream *)
Definition fs5 : list field := fs2 ++ [F "content-length" "5000"].
Example ex5_hyps :
  srv_request_decodes (sc_dec c_init) [blk fs5] None fs5 [] srv_init_hpack [] /\
  header_limits cfgE fs5 [] [] = true /\ within_limits cfgE fs5 [] [] 1 && wf_request fs5 [] 1 = false.
Proof.
  split; [|split; vm_compute; reflexivity].
  exists srv_init_hpack, [], []. split; [decodes_tac|]. repeat split.
Qed.
Example ex5_trace :
  trace (srv_run_from c_init (lockstep (req_frames 1 [blk fs5] body_x None))) = [ORst 1 c_EnhanceYourCalm; ORelease 1 true].
Proof. vm_compute. reflexivity. Qed.

(* ---- 3. over the header-list limit: not dispatched (and here the connection is given up: GOAWAY) ---- *)
Definition cfgS : config := mkCfg 100 100 1000 0 4194304.
Example ex6_hyps :
  srv_request_decodes srv_init_hpack [blk fs1] None fs1 [] srv_init_hpack [] /\ within_limits cfgS fs1 [] [] 0 = false.
Proof.
  split; [|vm_compute; reflexivity].
  exists srv_init_hpack, [], []. split; [decodes_tac|]. repeat split.
Qed.
Example ex6_trace :
  trace (run_from srv_dec_field srv_enc_field set_max_table_size cfgS (init_conn cfgS srv_init_hpack)
                  (lockstep (req_frames 1 [blk fs1] [] None))) =
  [OGoAway 1 c_EnhanceYourCalm; OExit 1 0].
Proof. vm_compute. reflexivity. Qed.

(* ---- 4. another position in the history: stream 1 has been dispatched and its handler is still running,
   stream 3 was refused (malformed), the request comes on stream 5 ---- *)
Definition c_mid : sconn hpack_state :=
  srv_run_from c_init (lockstep (req_frames 1 hfrags1 chunks1 tfrags1 ++ req_frames 3 [blk fs3] body_hello None)).

Example ex7_ready : ready cfgE c_mid 5.
Proof.
  split; [|repeat split; vm_compute; reflexivity].
  constructor; try (vm_compute; reflexivity).
  - vm_compute. discriminate.
  - vm_compute. discriminate.
  - let l := eval vm_compute in (sc_strms c_mid) in
    assert (E : sc_strms c_mid = l) by (vm_compute; reflexivity); rewrite E.
    constructor; [|constructor]. intros _. split; [reflexivity | discriminate].
Qed.
Example ex7_decodes : srv_request_decodes (sc_dec c_mid) [blk fs2] None fs2 [] srv_init_hpack [].
Proof. exists srv_init_hpack, [], []. split; [decodes_tac|]. repeat split. Qed.
Example ex7_hyps : within_limits cfgE fs2 [] [] 0 = true /\ wf_request fs2 [] 0 = true.
Proof. split; vm_compute; reflexivity. Qed.
Example ex7_trace :
  trace (srv_run_from c_mid (lockstep (req_frames 5 [blk fs2] [] None))) =
  trace c_mid ++ [ODispatch 5 (the_request fs2 [] [])].
Proof. vm_compute. reflexivity. Qed.
