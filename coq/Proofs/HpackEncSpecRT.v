(* Specification-level round trips of RFC 7541 5.2 and 6: [spec_dec_str] inverts [spec_enc_str],
   [spec_dec_repr] inverts [spec_enc_repr] up to [canon] (the H bit of a name that is not sent),
   and a block parses back into the representations it was made of. Nothing here mentions the
   implementation model of hpack.go. *)
From Coq Require Import List NArith ZArith Bool Lia.
From H2V Require Import Base.Bytes Spec.Rfc7541Huffman Spec.Rfc7541
     Proofs.HuffmanBits Proofs.HuffmanDecode Proofs.HpackSpecHuff Proofs.HpackEncSpecInt.
Import ListNotations.
Local Open Scope N_scope.

(* ---- 5.2 ---- *)

Lemma takeN_len_app (d rest : bytes) : takeN (len d) (d ++ rest) = d.
Proof. unfold takeN, len. rewrite Nat2N.id. apply firstn_app_len. reflexivity. Qed.

Lemma dropN_len_app (d rest : bytes) : dropN (len d) (d ++ rest) = rest.
Proof. unfold dropN, len. rewrite Nat2N.id. apply skipn_app_len. reflexivity. Qed.

Lemma spec_dec_str_cons x tl : spec_dec_str (x :: tl) =
  match spec_dec_int 7 (x :: tl) with
  | None => None
  | Some (n, rest) =>
      if len rest <? n then None
      else if 128 <=? x then
             match spec_huff_decode (takeN n rest) with
             | Some s => Some (true, s, dropN n rest)
             | None => None
             end
           else Some (false, takeN n rest, dropN n rest)
  end.
Proof. reflexivity. Qed.

Theorem spec_dec_enc_str h s rest : bytes_ok s = true -> len s < 2 ^ 32 ->
  spec_dec_str (spec_enc_str h s ++ rest) = Some (h, s, rest).
Proof.
  intros Hok Hlen. unfold spec_enc_str.
  set (d := if h then spec_encode s else s).
  set (pat := if h then 128 else 0).
  assert (len d < 2 ^ 63) as Hd.
  { change (2 ^ 32) with 4294967296 in Hlen. change (2 ^ 63) with 9223372036854775808.
    subst d. destruct h; [pose proof (spec_encode_len s Hok)|]; lia. }
  assert (spec_dec_int 7 (spec_enc_int 7 pat (len d) ++ d ++ rest) = Some (len d, d ++ rest)) as Hint.
  { apply spec_dec_enc_int; [subst pat; destruct h; reflexivity | exact Hd]. }
  rewrite <- app_assoc.
  destruct (spec_enc_int_head 7 pat (len d)) as [x [tl [E R]]].
  rewrite E in *. cbn [app] in *. rewrite spec_dec_str_cons, Hint.
  replace (len (d ++ rest) <? len d) with false
    by (symmetry; apply N.ltb_ge; unfold len; rewrite app_length; lia).
  rewrite takeN_len_app, dropN_len_app.
  assert ((128 <=? x) = h) as ->.
  { change (2 ^ 7 - 1) with 127 in R. subst pat. destruct h.
    - apply N.leb_le. destruct R as [[-> _]| ->]; lia.
    - apply N.leb_gt. destruct R as [[-> L]| ->]; lia. }
  subst d. destruct h; [|reflexivity].
  rewrite (spec_huff_decode_encode s Hok). reflexivity.
Qed.

(* ---- 6: one representation ---- *)

(* the form the parser returns: with an indexed name there is no name string, hence no H bit *)
Definition canon (r : repr) : repr :=
  match r with
  | Literal m (NameIdx i) _ hval value => Literal m (NameIdx i) false hval value
  | _ => r
  end.

(* representations an encoder can write and a decoder within the limits of the specification
   (9 continuation octets) reads back *)
Definition str_wf (s : bytes) : Prop := bytes_ok s = true /\ len s < 2 ^ 32.

Definition repr_wf (r : repr) : Prop :=
  match r with
  | Indexed i => i < 2 ^ 63
  | Literal _ (NameIdx i) _ _ v => 0 < i < 2 ^ 63 /\ str_wf v
  | Literal _ (NameLit n) _ _ v => str_wf n /\ str_wf v
  | SizeUpdate n => n < 2 ^ 63
  end.

Lemma mode_pattern_mod m : mode_pattern m mod 2 ^ mode_prefix m = 0.
Proof. destruct m; reflexivity. Qed.

Lemma spec_dec_repr_cons x tl : spec_dec_repr (x :: tl) =
  if 128 <=? x then
    match spec_dec_int 7 (x :: tl) with Some (i, rest) => Some (Indexed i, rest) | None => None end
  else if 64 <=? x then dec_literal Incremental (x :: tl)
  else if 32 <=? x then
    match spec_dec_int 5 (x :: tl) with Some (n, rest) => Some (SizeUpdate n, rest) | None => None end
  else if 16 <=? x then dec_literal Never (x :: tl)
  else dec_literal Without (x :: tl).
Proof. reflexivity. Qed.

Lemma spec_dec_repr_literal m x tl : mode_pattern m <= x < mode_pattern m + 2 ^ mode_prefix m ->
  spec_dec_repr (x :: tl) = dec_literal m (x :: tl).
Proof.
  intros H. rewrite spec_dec_repr_cons.
  destruct m; cbn [mode_pattern mode_prefix] in H;
    [change (2 ^ 6) with 64 in H | change (2 ^ 4) with 16 in H | change (2 ^ 4) with 16 in H].
  - replace (128 <=? x) with false by (symmetry; apply N.leb_gt; lia).
    replace (64 <=? x) with true by (symmetry; apply N.leb_le; lia). reflexivity.
  - replace (128 <=? x) with false by (symmetry; apply N.leb_gt; lia).
    replace (64 <=? x) with false by (symmetry; apply N.leb_gt; lia).
    replace (32 <=? x) with false by (symmetry; apply N.leb_gt; lia).
    replace (16 <=? x) with false by (symmetry; apply N.leb_gt; lia). reflexivity.
  - replace (128 <=? x) with false by (symmetry; apply N.leb_gt; lia).
    replace (64 <=? x) with false by (symmetry; apply N.leb_gt; lia).
    replace (32 <=? x) with false by (symmetry; apply N.leb_gt; lia).
    replace (16 <=? x) with true by (symmetry; apply N.leb_le; lia). reflexivity.
Qed.

Lemma mode_prefix_pos m : 0 < mode_prefix m.
Proof. destruct m; reflexivity. Qed.

Theorem spec_dec_enc_repr r rest : repr_wf r ->
  spec_dec_repr (spec_enc_repr r ++ rest) = Some (canon r, rest).
Proof.
  intros Hwf. destruct r as [i | m [i | name] hname hval value | n]; cbn [spec_enc_repr canon repr_wf] in *.
  - (* Indexed *)
    pose proof (spec_dec_enc_int 7 128 i rest eq_refl Hwf) as Hint.
    destruct (spec_enc_int_head 7 128 i) as [x [tl [E R]]].
    pose proof (spec_enc_int_head_range 7 128 i x tl eq_refl E) as Rg.
    rewrite E in *. cbn [app] in *. rewrite spec_dec_repr_cons.
    replace (128 <=? x) with true by (symmetry; apply N.leb_le; lia).
    rewrite Hint. reflexivity.
  - (* Literal, indexed name *)
    destruct Hwf as [[Hi0 Hi] [Hv1 Hv2]].
    rewrite <- app_assoc.
    pose proof (spec_dec_enc_int (mode_prefix m) (mode_pattern m) i (spec_enc_str hval value ++ rest)
                  (mode_pattern_mod m) Hi) as Hint.
    destruct (spec_enc_int_head (mode_prefix m) (mode_pattern m) i) as [x [tl [E R]]].
    pose proof (spec_enc_int_head_range _ _ _ x tl (mode_prefix_pos m) E) as Rg.
    rewrite E in *. cbn [app] in *. rewrite (spec_dec_repr_literal m) by exact Rg.
    unfold dec_literal. rewrite Hint.
    replace (i =? 0) with false by (symmetry; apply N.eqb_neq; lia).
    rewrite (spec_dec_enc_str hval value rest Hv1 Hv2). reflexivity.
  - (* Literal, literal name *)
    destruct Hwf as [[Hn1 Hn2] [Hv1 Hv2]].
    cbn [app]. rewrite (spec_dec_repr_literal m)
      by (pose proof (mode_prefix_pos m); assert (0 < 2 ^ mode_prefix m) by (apply N.neq_0_lt_0, N.pow_nonzero; discriminate); lia).
    unfold dec_literal.
    assert (spec_dec_int (mode_prefix m) (mode_pattern m :: (spec_enc_str hname name ++ spec_enc_str hval value) ++ rest)
            = Some (0, (spec_enc_str hname name ++ spec_enc_str hval value) ++ rest)) as ->.
    { destruct m; reflexivity. }
    cbn [N.eqb]. rewrite <- app_assoc.
    rewrite (spec_dec_enc_str hname name _ Hn1 Hn2).
    rewrite (spec_dec_enc_str hval value rest Hv1 Hv2). reflexivity.
  - (* SizeUpdate *)
    pose proof (spec_dec_enc_int 5 32 n rest eq_refl Hwf) as Hint.
    destruct (spec_enc_int_head 5 32 n) as [x [tl [E R]]].
    pose proof (spec_enc_int_head_range 5 32 n x tl eq_refl E) as Rg.
    change (2 ^ 5) with 32 in Rg.
    rewrite E in *. cbn [app] in *. rewrite spec_dec_repr_cons.
    replace (128 <=? x) with false by (symmetry; apply N.leb_gt; lia).
    replace (64 <=? x) with false by (symmetry; apply N.leb_gt; lia).
    replace (32 <=? x) with true by (symmetry; apply N.leb_le; lia).
    rewrite Hint. reflexivity.
Qed.

Lemma spec_enc_repr_nonempty r : exists x tl, spec_enc_repr r = x :: tl.
Proof.
  destruct r as [i | m [i | name] hname hval value | n]; cbn [spec_enc_repr].
  - destruct (spec_enc_int_head 7 128 i) as [x [tl [E _]]]. rewrite E. eexists; eexists; reflexivity.
  - destruct (spec_enc_int_head (mode_prefix m) (mode_pattern m) i) as [x [tl [E _]]]. rewrite E.
    eexists; eexists; reflexivity.
  - eexists; eexists; reflexivity.
  - destruct (spec_enc_int_head 5 32 n) as [x [tl [E _]]]. rewrite E. eexists; eexists; reflexivity.
Qed.

(* ---- a block ---- *)

Lemma spec_enc_block_cons r rs : spec_enc_block (r :: rs) = spec_enc_repr r ++ spec_enc_block rs.
Proof. reflexivity. Qed.

Lemma spec_enc_block_app a b : spec_enc_block (a ++ b) = spec_enc_block a ++ spec_enc_block b.
Proof. unfold spec_enc_block. apply flat_map_app. Qed.

Lemma parse_reprs_cons fuel x tl : parse_reprs (S fuel) (x :: tl) =
  match spec_dec_repr (x :: tl) with
  | None => None
  | Some (r, rest) => match parse_reprs fuel rest with Some rs => Some (r :: rs) | None => None end
  end.
Proof. reflexivity. Qed.

Theorem parse_enc_block : forall rs fuel, Forall repr_wf rs -> (length (spec_enc_block rs) <= fuel)%nat ->
  parse_reprs fuel (spec_enc_block rs) = Some (map canon rs).
Proof.
  induction rs as [|r rs IH]; intros fuel Hwf Hf.
  - destruct fuel; reflexivity.
  - inversion Hwf as [|r' rs' Hr Hrs]; subst.
    rewrite spec_enc_block_cons in *.
    pose proof (spec_dec_enc_repr r (spec_enc_block rs) Hr) as Hd.
    destruct (spec_enc_repr_nonempty r) as [x [tl E]]. rewrite E in *. cbn [app] in *.
    destruct fuel as [|fuel]; [simpl in Hf; lia|].
    rewrite parse_reprs_cons, Hd, IH; [reflexivity | exact Hrs |].
    simpl in Hf. rewrite app_length in Hf. lia.
Qed.

Corollary spec_parse_enc_block rs : Forall repr_wf rs ->
  spec_parse_block (spec_enc_block rs) = Some (map canon rs).
Proof. intros H. unfold spec_parse_block. apply parse_enc_block; [exact H | lia]. Qed.

(* the meaning does not look at the H bits *)
Lemma spec_step_canon t a r : spec_step t a (canon r) = spec_step t a r.
Proof. destruct r as [i | m [i | name] hname hval value | n]; reflexivity. Qed.

Lemma sem_from_canon : forall rs t a, sem_from t a (map canon rs) = sem_from t a rs.
Proof.
  induction rs as [|r rs IH]; intros t a; [reflexivity|].
  cbn [map sem_from]. rewrite spec_step_canon.
  destruct (spec_step t a r) as [[[f|] t']|]; [rewrite IH; reflexivity | apply IH | reflexivity].
Qed.

Theorem spec_decode_enc_block t rs : Forall repr_wf rs ->
  spec_decode_block t (spec_enc_block rs) = spec_sem t rs.
Proof.
  intros H. unfold spec_decode_block. rewrite (spec_parse_enc_block rs H).
  unfold spec_sem. apply sem_from_canon.
Qed.
