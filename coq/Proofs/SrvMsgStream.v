(* Proofs/SrvMsgStream.v - C20: one request, frame by frame, through the stream loop. *)
From H2V Require Import Base.Bytes Base.MachineInt Base.Result Gen.GenConsts Impl.ServerConn Spec.Http2Messages
     Proofs.SrvBase Proofs.SrvMsgDefs Proofs.SrvMsgPure Proofs.SrvMsgLoop.
From Coq Require Import ZArith Lia ZifyN ZifyNat ZifyBool.
Local Open Scope N_scope.

(* ---------- a stream opened by HEADERS that has not been answered: everything but the request side is at rest ---------- *)
Definition h_init : hdr := mkHdr false [] false false false false false 0 false 0 0 [] empty_req.

Definition S_of (sid : N) (win t0 : Z) (state : sstate) (h : hdr) (recv : Z) : stream :=
  mkStream sid win state KHeaders t0 (hd_headersFinished h) (hd_prev h) (hd_pMethod h) (hd_pScheme h) (hd_pPath h)
           (hd_pAuth h) (hd_regularSeen h) (hd_contentLength h) (hd_hasCL h) recv (hd_headerListSize h) (hd_blockFields h)
           (hd_path h) (hd_req h) [] false None 0 0 false false false false.

Lemma new_S_of sid win t0 : set_orig_started (new_stream sid win) KHeaders t0 = S_of sid win t0 SIdle h_init 0.
Proof. reflexivity. Qed.
Lemma get_hdr_S_of sid win t0 st h r : get_hdr (S_of sid win t0 st h r) = h.
Proof. destruct h; reflexivity. Qed.
Lemma set_hdr_S_of sid win t0 st h r h' : set_hdr (S_of sid win t0 st h r) h' = S_of sid win t0 st h' r.
Proof. reflexivity. Qed.
Lemma set_state_S_of sid win t0 st h r st' : set_state (S_of sid win t0 st h r) st' = S_of sid win t0 st' h r.
Proof. reflexivity. Qed.

Definition hdr_fin (h : hdr) (b : bool) : hdr :=
  mkHdr b (hd_prev h) (hd_pMethod h) (hd_pScheme h) (hd_pPath h) (hd_pAuth h) (hd_regularSeen h)
        (hd_contentLength h) (hd_hasCL h) (hd_headerListSize h) (hd_blockFields h) (hd_path h) (hd_req h).
Lemma set_headers_finished_S_of sid win t0 st h r b :
  set_headers_finished (S_of sid win t0 st h r) b = S_of sid win t0 st (hdr_fin h b) r.
Proof. reflexivity. Qed.

Definition hdr_req (h : hdr) (rq : request) : hdr :=
  mkHdr (hd_headersFinished h) (hd_prev h) (hd_pMethod h) (hd_pScheme h) (hd_pPath h) (hd_pAuth h) (hd_regularSeen h)
        (hd_contentLength h) (hd_hasCL h) (hd_headerListSize h) (hd_blockFields h) (hd_path h) rq.
Lemma set_recv_S_of sid win t0 st h r r' rq : set_recv (S_of sid win t0 st h r) r' rq = S_of sid win t0 st (hdr_req h rq) r'.
Proof. reflexivity. Qed.

Definition H_of (hf : bool) (prev : bytes) (st : vst) (size : Z) (nf : N) (rq : request) : hdr :=
  mkHdr hf prev (v_m st) (v_s st) (v_p st) (v_a st) (v_r st) (v_cl st) (v_has st) size nf (v_path st) rq.

Lemma hdr_of_H_of h st size nf rq : hdr_of h st size nf rq = H_of (hd_headersFinished h) (hd_prev h) st size nf rq.
Proof. reflexivity. Qed.
Lemma H_of_eta h : h = H_of (hd_headersFinished h) (hd_prev h) (vabs h) (hd_headerListSize h) (hd_blockFields h) (hd_req h).
Proof. destruct h; reflexivity. Qed.
Lemma vabs_H_of hf prev st size nf rq : vabs (H_of hf prev st size nf rq) = st.
Proof. destruct st; reflexivity. Qed.

(* the flags a header block starts with: a trailer block (the headers were finished) starts as if a regular field had been seen *)
Definition v_start (h : hdr) : vst :=
  mkV (hd_pMethod h) (hd_pScheme h) (hd_pPath h) (hd_pAuth h) (hd_regularSeen h || hd_headersFinished h)
      (hd_contentLength h) (hd_hasCL h) (hd_path h).
Lemma v_start_first h : hd_headersFinished h = false -> v_start h = vabs h.
Proof. intro H. unfold v_start, vabs. rewrite H, orb_false_r. reflexivity. Qed.
Lemma v_start_trailers h : hd_headersFinished h = true -> v_start h = v_setr (vabs h).
Proof. intro H. unfold v_start, vabs, v_setr. rewrite H, orb_true_r. reflexivity. Qed.

Definition start_hdr (h : hdr) (n0 : N) : hdr :=
  mkHdr false [] (hd_pMethod h) (hd_pScheme h) (hd_pPath h) (hd_pAuth h)
        (hd_regularSeen h || hd_headersFinished h) (hd_contentLength h) (hd_hasCL h) (hd_headerListSize h)
        n0 (hd_path h) (hd_req h).

(* what header_field can answer *)
Lemma fields_loop_inl_kind cfg : forall fs h e,
  fields_loop cfg h fs = inl e -> e = EGoAway c_EnhanceYourCalm \/ exists code, e = EReset code.
Proof.
  induction fs as [|[k v] t IH]; intros h e; cbn [fields_loop]; [discriminate|].
  rewrite header_field_vstep. cbv zeta. destruct (list_over cfg _).
  - intro E. inversion E. left. reflexivity.
  - destruct (vstep cfg (vabs h) (classify k) v) as [code|st1].
    + intro E. inversion E. right. eauto.
    + apply IH.
Qed.

(* a frame of a header block *)
Definition blk_frame (iscont : bool) (sid : N) (es eh : bool) (frag : bytes) : sframe :=
  if iscont then cont_frame sid eh frag else headers_frame sid es eh frag.

(* ---------- the stream table with our stream at the end ---------- *)
Lemma search_snoc l s : strms_search l (st_id s) = None -> strms_search (l ++ [s]) (st_id s) = Some s.
Proof. intro H. rewrite strms_search_app_None by assumption. cbn [strms_search]. rewrite N.eqb_refl. reflexivity. Qed.

Lemma put_snoc l s s' : strms_search l (st_id s) = None -> st_id s' = st_id s -> strms_put (l ++ [s]) s' = l ++ [s'].
Proof.
  intros H E. induction l as [|x t IH]; cbn [app strms_put strms_search] in *.
  - rewrite E, N.eqb_refl. reflexivity.
  - rewrite E. destruct (st_id x =? st_id s); [discriminate|]. rewrite IH by assumption. reflexivity.
Qed.

Lemma del_snoc l s : strms_search l (st_id s) = None -> strms_del (l ++ [s]) (st_id s) = l.
Proof.
  intros H. induction l as [|x t IH]; cbn [app strms_del strms_search] in *.
  - rewrite N.eqb_refl. reflexivity.
  - destruct (st_id x =? st_id s); [discriminate|]. rewrite IH by assumption. reflexivity.
Qed.

(* the other streams are at rest: their header blocks are complete and none is idle *)
Definition quiet (x : stream) : Prop := st_orig x = KHeaders -> st_headersFinished x = true /\ st_state x <> SIdle.

Lemma fkind_eqb_eq a b : fkind_eqb a b = true <-> a = b.
Proof. destruct a, b; cbn; split; intro; try reflexivity; try discriminate. Qed.

Lemma prev_headers_snoc l s p :
  Forall quiet l -> st_orig s = KHeaders -> get_previous_headers (l ++ [s]) = Some p -> st_headersFinished p = true.
Proof.
  intros Q O. unfold get_previous_headers. rewrite rev_app_distr. cbn [rev app filter]. rewrite O. cbn [fkind_eqb].
  destruct (filter (fun s0 => fkind_eqb (st_orig s0) KHeaders) (rev l)) as [|q r] eqn:F; [discriminate|].
  intro E. inversion E; subst q.
  assert (I : In p (filter (fun s0 => fkind_eqb (st_orig s0) KHeaders) (rev l))) by (rewrite F; left; reflexivity).
  apply filter_In in I. destruct I as [I1 I2]. apply in_rev in I1. apply fkind_eqb_eq in I2.
  rewrite Forall_forall in Q. destruct (Q p I1 I2). assumption.
Qed.

(* ---------- the ring of closed ids ---------- *)
Definition rfind (r : list (N * bool)) (id : N) : option bool :=
  match find (fun e => N.eqb id (fst e)) r with Some e => Some (snd e) | None => None end.
Definition rmem (r : list (N * bool)) (id : N) : bool := existsb (fun e => N.eqb id (fst e)) r.

Lemma rfind_snoc r id w : rmem r id = false -> rfind (r ++ [(id, w)]) id = Some w.
Proof.
  unfold rfind, rmem. induction r as [|e t IH]; cbn [app find existsb fst snd].
  - rewrite N.eqb_refl. reflexivity.
  - intro H. apply orb_false_iff in H. destruct H as [H1 H2]. rewrite H1. apply IH. assumption.
Qed.

Lemma rfind_set_nth r k id w : (k < length r)%nat -> rmem r id = false -> rfind (set_nth_N r k (id, w)) id = Some w.
Proof.
  unfold rfind, rmem. revert k. induction r as [|e t IH]; intros k Hk; cbn [length] in Hk; [lia|].
  destruct k as [|k]; cbn [set_nth_N find existsb fst snd].
  - rewrite N.eqb_refl. reflexivity.
  - intro H. apply orb_false_iff in H. destruct H as [H1 H2]. rewrite H1. apply IH; [lia | assumption].
Qed.

Section Stream.
Variable hstate : Type.
Variable dec_field : hstate -> N -> bytes -> dec_res hstate.
Variable enc_field : hstate -> bytes -> bytes -> bool -> bytes * hstate.
Variable enc_set_max : hstate -> N -> hstate.
Variable cfg : config.
Notation sconn := (sconn hstate).
Notation step := (step dec_field enc_field enc_set_max cfg).
Notation sl_frame := (sl_frame dec_field enc_set_max cfg).
Notation frag_dec := (frag_dec dec_field).
Implicit Types c : sconn.

Lemma implicit_close_quiet fuel c sid l s :
  sc_strms c = l ++ [s] -> Forall quiet l -> st_id s = sid -> implicit_close fuel c sid = c.
Proof.
  intros E Q I. destruct fuel as [|fuel]; [reflexivity|]. cbn [implicit_close]. rewrite E.
  destruct l as [|x t]; cbn [app].
  - rewrite I, N.ltb_irrefl. reflexivity.
  - inversion Q as [|? ? Qx _]; subst.
    destruct (fkind_eqb (st_orig x) KHeaders) eqn:O; [|rewrite andb_false_r; reflexivity].
    apply fkind_eqb_eq in O. destruct (Qx O) as [_ NI].
    replace (sstate_eqb (st_state x) SIdle) with false; [rewrite andb_false_r; reflexivity|].
    destruct (st_state x); try reflexivity. congruence.
Qed.

(* what follows the stream lookup and the HEADERS prelude *)
Definition tail (c2 : sconn) (s : stream) (fr : sframe) (wasClosing : bool) : sconn * bool :=
  let '(c3, s3, e) := handle_frame dec_field cfg c2 s fr in
  match e with
  | Some e =>
    let '(c4, s4) := write_error c3 (Some s3) e in
    let s5 := match s4 with Some x => set_state x SClosed | None => set_state s3 SClosed end in
    match e with
    | EGoAway code => if negb (code =? c_NoError) then brk (put c4 s5) else after_frame cfg c4 s5 fr wasClosing
    | EReset _ => after_frame cfg c4 s5 fr wasClosing
    | EPanic => brk (note c3 (OPanic 1 0))
    end
  | None => after_frame cfg c3 s3 fr wasClosing
  end.

(* ---------- a connection ready for a new request on sid ---------- *)
Record ready_sl (c : sconn) (sid : N) : Prop := mkReady {
  rd_odd : N.land sid 1 = 1;
  rd_fresh : sc_highestID c < sid;
  rd_last : sc_lastID c <= sc_highestID c;
  rd_table : strms_search (sc_strms c) sid = None;
  rd_ring : in_ring c sid = false;
  rd_oldest : sc_oldest c < closedStrmsCap;
  rd_disc : sc_discardID c <> sid;
  rd_quiet : Forall quiet (sc_strms c);
  rd_slot : (sc_open c < cf_maxStreams cfg)%Z;
  rd_closing : sc_closing c = false;
  rd_sl : sc_sl_done c = false;
  rd_wl : sc_wl_dead c = false
}.
(* ... and the read loop is between two header blocks, with nothing queued for the stream loop *)
Definition ready (c : sconn) (sid : N) : Prop :=
  ready_sl c sid /\ sc_rl_done c = false /\ sc_readerQ c = [] /\ sc_expectCont c = 0.

Lemma sid_nz sid : N.land sid 1 = 1 -> sid <> 0.
Proof. intros H E. subst. discriminate. Qed.

(* the first HEADERS frame opens the stream *)
Lemma sl_frame_fresh c sid es eh frag :
  ready_sl c sid ->
  let s := S_of sid (sc_initWin c) (sc_now c) SIdle h_init 0 in
  let c3 := upd_open (upd_strms (upd_lastID (upd_highestID c sid) sid) (sc_strms c ++ [s])) (sc_open c + 1) in
  sl_frame c (headers_frame sid es eh frag) = tail c3 s (headers_frame sid es eh frag) false.
Proof.
  intros R s c3. destruct R. pose proof (sid_nz _ rd_odd0) as NZ.
  unfold sl_frame. cbn [sf_sid sf_kind headers_frame fkind_eqb andb].
  replace (sid =? 0) with false by lia.
  replace (sid <=? sc_lastID c) with false by lia.
  rewrite rd_ring0. replace (sid <=? sc_highestID c) with false by lia.
  sc_cbn. rewrite rd_closing0. replace (cf_maxStreams cfg <=? sc_open c)%Z with false by lia. cbn [orb].
  replace (sid <? sc_lastID c) with false by lia.
  rewrite new_S_of. fold s. sc_cbn.
  assert (Q : Forall quiet (sc_strms c)) by assumption.
  destruct (get_previous_headers (sc_strms c ++ [s])) as [p|] eqn:P.
  - rewrite (prev_headers_snoc (sc_strms c) s p Q eq_refl P). cbn [negb].
    erewrite implicit_close_quiet; [reflexivity | sc_cbn; reflexivity | assumption | reflexivity].
  - erewrite implicit_close_quiet; [reflexivity | sc_cbn; reflexivity | assumption | reflexivity].
Qed.

(* a frame for the stream at the end of the table *)
Lemma sl_frame_own c sid l s fr :
  sf_sid fr = sid -> sid <> 0 -> sc_strms c = l ++ [s] -> strms_search l sid = None -> st_id s = sid ->
  st_orig s = KHeaders -> sid <= sc_lastID c -> Forall quiet l ->
  (sf_kind fr = KCont -> sc_discardID c <> sid) ->
  sl_frame c fr = tail c s fr (sc_closing c).
Proof.
  intros Hs NZ E HN I O L Q D. unfold sl_frame. rewrite Hs.
  replace (sid =? 0) with false by lia.
  assert (X : (fkind_eqb (sf_kind fr) KCont && negb (sc_discardID c =? 0) && (sid =? sc_discardID c))%bool = false).
  { destruct (fkind_eqb (sf_kind fr) KCont) eqn:K; [|reflexivity]. apply fkind_eqb_eq in K. specialize (D K).
    replace (sid =? sc_discardID c) with false by lia. apply andb_false_r. }
  rewrite X. replace (sid <=? sc_lastID c) with true by lia.
  rewrite E. rewrite <- I at 1. rewrite search_snoc by (rewrite I; assumption).
  destruct (fkind_eqb (sf_kind fr) KHeaders) eqn:K; [|reflexivity].
  destruct (get_previous_headers (sc_strms c)) as [p|] eqn:P.
  - rewrite E in P. rewrite (prev_headers_snoc l s p Q O P). cbn [negb].
    erewrite implicit_close_quiet; [reflexivity | exact E | assumption | reflexivity].
  - erewrite implicit_close_quiet; [reflexivity | exact E | assumption | reflexivity].
Qed.

(* frames for a stream the server has reset and remembers *)
Lemma ring_find_in c id b : ring_find c id = Some b -> in_ring c id = true.
Proof.
  unfold ring_find, in_ring. destruct (find _ (sc_ring c)) as [e|] eqn:F; [|discriminate]. intros _.
  apply find_some in F. destruct F as [F1 F2]. apply existsb_exists. exists e. auto.
Qed.

Lemma sl_frame_dead_data c sid es d :
  sid <> 0 -> strms_search (sc_strms c) sid = None -> ring_find c sid = Some true ->
  sl_frame c (data_frame sid es d) = cont (credit_conn_window cfg c (Z.of_N (len d))).
Proof.
  intros NZ S R. unfold sl_frame. cbn [sf_sid sf_kind sf_len data_frame fkind_eqb andb].
  replace (sid =? 0) with false by lia. rewrite S.
  destruct (sid <=? sc_lastID c); rewrite (ring_find_in _ _ _ R), R; reflexivity.
Qed.

Lemma sl_frame_dead_headers c sid es eh frag :
  sid <> 0 -> strms_search (sc_strms c) sid = None -> ring_find c sid = Some true ->
  sl_frame c (headers_frame sid es eh frag) =
  discard_or_break (discard_header_block dec_field cfg c (headers_frame sid es eh frag)).
Proof.
  intros NZ S R. unfold sl_frame. cbn [sf_sid sf_kind headers_frame fkind_eqb andb].
  replace (sid =? 0) with false by lia. rewrite S.
  destruct (sid <=? sc_lastID c); rewrite (ring_find_in _ _ _ R), R; reflexivity.
Qed.

Lemma sl_frame_dead_cont c sid eh frag :
  sid <> 0 -> sc_discardID c = sid ->
  sl_frame c (cont_frame sid eh frag) = discard_or_break (discard_header_block dec_field cfg c (cont_frame sid eh frag)).
Proof.
  intros NZ D. unfold sl_frame. cbn [sf_sid sf_kind cont_frame fkind_eqb andb].
  replace (sid =? 0) with false by lia. rewrite D. replace (sid =? 0) with false by lia. rewrite N.eqb_refl. reflexivity.
Qed.

Lemma ring_find_eq c id : ring_find c id = rfind (sc_ring c) id.
Proof. reflexivity. Qed.
Lemma in_ring_eq c id : in_ring c id = rmem (sc_ring c) id.
Proof. reflexivity. Qed.

Lemma rfind_mark_closed c id w :
  in_ring c id = false -> sc_oldest c < closedStrmsCap -> rfind (sc_ring (mark_closed c id w)) id = Some w.
Proof.
  intros H O. unfold mark_closed. rewrite H.
  destruct (N.of_nat (length (sc_ring c)) <? closedStrmsCap) eqn:E; sc_cbn.
  - apply rfind_snoc. exact H.
  - apply rfind_set_nth; [unfold closedStrmsCap in *; lia | exact H].
Qed.

(* RST_STREAM(code) for the stream at the end of the table, which is then closed *)
Definition kill (c : sconn) (sX : stream) (code : N) : sconn := close_stream (put (write_reset c (st_id sX) code) sX) sX.

Lemma kill_strms c l s sX code :
  sc_strms c = l ++ [s] -> strms_search l (st_id s) = None -> st_id sX = st_id s -> sc_strms (kill c sX code) = l.
Proof.
  intros E HN I. unfold kill. rewrite sc_strms_close_stream, sc_strms_put. sc_rw. rewrite E.
  rewrite put_snoc by assumption. apply (del_snoc l sX). rewrite I. assumption.
Qed.

Lemma kill_ring c sX code :
  in_ring c (st_id sX) = false -> sc_oldest c < closedStrmsCap -> st_weReset sX = true ->
  ring_find (kill c sX code) (st_id sX) = Some true.
Proof.
  intros R O W. rewrite ring_find_eq. unfold kill. rewrite sc_ring_close_stream, W.
  apply rfind_mark_closed.
  - rewrite in_ring_eq. sc_rw. exact R.
  - sc_rw. exact O.
Qed.

Lemma kill_out c sX code :
  sc_wl_dead c = false -> sc_sl_done c = false -> st_handlerRunning sX = false ->
  sc_out (kill c sX code) = ORelease (st_id sX) true :: ORst (st_id sX) code :: sc_out c.
Proof.
  intros W S H. unfold kill. rewrite sc_out_close_stream, H. sc_rw. rewrite sc_out_write_reset, sc_out_emit, W, S. reflexivity.
Qed.

Lemma kill_open c sX code :
  st_handlerRunning sX = false -> st_orig sX = KHeaders -> sc_open (kill c sX code) = (sc_open c - 1)%Z.
Proof. intros H O. unfold kill. rewrite sc_open_close_stream, H, O. sc_rw. reflexivity. Qed.

Lemma fl_has_es es eh : flag_has (fl_of es eh) FL_ES = es.
Proof. destruct es, eh; reflexivity. Qed.
Lemma fl_has_eh es eh : flag_has (fl_of es eh) FL_EH = eh.
Proof. destruct es, eh; reflexivity. Qed.

Lemma upd_dec_discard_twice c d1 a b n d2 a' b' n' :
  upd_discard (upd_dec (upd_discard (upd_dec c d1) a b n) d2) a' b' n' = upd_discard (upd_dec c d2) a' b' n'.
Proof. reflexivity. Qed.

Section HHF.
Variables (c : sconn) (sid : N) (win t0 : Z) (state : sstate) (h : hdr) (recv : Z).
Variables (iscont es eh : bool) (frag : bytes).
Variables (fs : list field) (d' : hstate) (n' : N) (carry : bytes).
Let s := S_of sid win t0 state h recv.
Let fr := blk_frame iscont sid es eh frag.
Let n0 := if iscont then hd_blockFields h else 0.
Hypothesis NZ : sid <> 0.
Hypothesis Htr : hd_headersFinished h = true -> iscont = false /\ es = true.
Hypothesis Hdec : frag_dec eh (sc_dec c) n0 (hd_prev h ++ frag) fs d' n' carry.

Let h1 := start_hdr h n0.

Lemma hhf_unfold :
  handle_header_frame dec_field cfg c s fr =
  let '(d1, h2, e, rest) := header_loop dec_field (S (length (hd_prev h ++ frag))) cfg eh (sc_dec c) h1 (hd_prev h ++ frag) in
  let c1 := upd_dec c d1 in
  let s1 := S_of sid win t0 state h2 recv in
  match e with
  | Some (EReset code) =>
    let c2 := upd_discard c1 (sc_discardID c1) [] (hd_blockFields h2 + 1) in
    match discard_fragment dec_field cfg c2 sid rest eh with
    | (c3, Some de) => (c3, s1, Some de)
    | (c3, None) => (c3, s1, Some (EReset code))
    end
  | Some e => (c1, s1, Some e)
  | None =>
    if list_over cfg (Z.of_N (len (hd_prev h2))) then (c1, s1, Some (EGoAway c_EnhanceYourCalm)) else (c1, s1, None)
  end.
Proof.
  unfold handle_header_frame, fr, blk_frame, s.
  assert (A : (st_headersFinished (S_of sid win t0 state h recv) &&
               (negb (fkind_eqb (sf_kind (if iscont then cont_frame sid eh frag else headers_frame sid es eh frag)) KHeaders)
                || negb (flag_has (sf_flags (if iscont then cont_frame sid eh frag else headers_frame sid es eh frag)) FL_ES)))%bool = false).
  { cbn [st_headersFinished S_of]. destruct (hd_headersFinished h) eqn:F; [|reflexivity].
    destruct (Htr eq_refl) as [-> ->]. cbn [headers_frame sf_kind sf_flags fkind_eqb negb orb andb]. rewrite fl_has_es. reflexivity. }
  rewrite A.
  assert (B : (fkind_eqb (sf_kind (if iscont then cont_frame sid eh frag else headers_frame sid es eh frag)) KHeaders &&
               (sf_dep (if iscont then cont_frame sid eh frag else headers_frame sid es eh frag) =? st_id (S_of sid win t0 state h recv)))%bool = false).
  { destruct iscont; cbn; [reflexivity|]. destruct sid; [exfalso; apply NZ; reflexivity | reflexivity]. }
  rewrite B. rewrite get_hdr_S_of.
  assert (P : sf_payload (if iscont then cont_frame sid eh frag else headers_frame sid es eh frag) = frag) by (destruct iscont; reflexivity).
  assert (E : flag_has (sf_flags (if iscont then cont_frame sid eh frag else headers_frame sid es eh frag)) FL_EH = eh)
    by (destruct iscont; cbn [sf_flags cont_frame headers_frame]; apply fl_has_eh).
  assert (K : (if fkind_eqb (sf_kind (if iscont then cont_frame sid eh frag else headers_frame sid es eh frag)) KCont
               then hd_blockFields h else 0) = n0) by (unfold n0; destruct iscont; reflexivity).
  rewrite P, E, K. fold (start_hdr h n0). fold h1. cbv zeta.
  destruct (header_loop dec_field (S (length (hd_prev h ++ frag))) cfg eh (sc_dec c) h1 (hd_prev h ++ frag)) as [[[d1 h2] e] rest].
  rewrite set_hdr_S_of. cbn [st_id S_of]. unfold list_over. reflexivity.
Qed.

(* every field of the fragment is accepted *)
Lemma hhf_ok st' :
  list_over cfg (hd_headerListSize h + fsize fs) = false ->
  vrun cfg (v_start h) fs = inr st' ->
  handle_header_frame dec_field cfg c s fr =
  (upd_dec c d',
   S_of sid win t0 state (H_of false carry st' (hd_headerListSize h + fsize fs) n' (req_fold (hd_req h) fs)) recv,
   if list_over cfg (Z.of_N (len carry)) then Some (EGoAway c_EnhanceYourCalm) else None).
Proof.
  intros Hs Hv. rewrite hhf_unfold.
  assert (F : fields_loop cfg h1 fs = inr (hdr_of h1 st' (hd_headerListSize h + fsize fs) (n0 + N.of_nat (length fs)) (req_fold (hd_req h) fs))).
  { apply (fields_loop_inr cfg fs h1 st'); [exact Hs | exact Hv]. }
  rewrite (header_loop_ok _ dec_field cfg _ _ _ _ _ _ _ _ Hdec h1 _ _ eq_refl F) by lia.
  rewrite hdr_of_H_of. unfold h1. cbn [hd_headersFinished hd_prev start_hdr add_prev H_of app].
  rewrite <- (frag_dec_count _ dec_field _ _ _ _ _ _ _ _ Hdec).
  destruct (list_over cfg (Z.of_N (len carry))); reflexivity.
Qed.

(* a field is refused *)
Lemma hhf_err e :
  fields_loop cfg h1 fs = inl e ->
  exists c1 h_e e',
    handle_header_frame dec_field cfg c s fr = (c1, S_of sid win t0 state h_e recv, Some e') /\
    hd_headersFinished h_e = false /\ hd_prev h_e = [] /\
    match e with
    | EReset code =>
      c1 = upd_discard (upd_dec c d') (if eh then 0 else sid) (if eh then [] else carry) n' /\
      e' = (if eh then EReset code else if list_over cfg (Z.of_N (len carry)) then EGoAway c_EnhanceYourCalm else EReset code)
    | _ => e' = e /\ exists d1, c1 = upd_dec c d1
    end.
Proof.
  intro F. rewrite hhf_unfold.
  destruct (header_loop_err _ dec_field cfg _ _ _ _ _ _ _ _ Hdec h1 e (S (length (hd_prev h ++ frag))) eq_refl F ltac:(lia))
    as (d1 & h2 & rest & fs2 & L & D2 & F2 & P2).
  rewrite L. cbv zeta. unfold h1 in F2, P2. cbn [start_hdr hd_headersFinished hd_prev] in F2, P2.
  destruct e as [code|code|].
  - exists (upd_dec c d1), h2, (EGoAway code). repeat split; eauto.
  - set (c2 := upd_discard (upd_dec c d1) (sc_discardID (upd_dec c d1)) [] (hd_blockFields h2 + 1)).
    assert (D3 : frag_dec eh (sc_dec c2) (sc_discardFields c2) (sc_discardPrev c2 ++ rest) fs2 d' n' carry) by exact D2.
    rewrite (discard_fragment_ok _ dec_field cfg c2 sid rest eh _ _ _ _ D3).
    destruct eh.
    + eexists _, h2, _. repeat split; eauto.
    + destruct (list_over cfg (Z.of_N (len carry))); eexists _, h2, _; repeat split; eauto.
  - exists (upd_dec c d1), h2, EPanic. repeat split; eauto.
Qed.

End HHF.

End Stream.

Arguments kill {hstate}.
Arguments tail {hstate}.
Arguments ready {hstate}.
Arguments ready_sl {hstate}.
