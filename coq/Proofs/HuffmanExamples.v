(* C15: concrete instances (RFC 7541 Appendix C.4.1 and three rejected inputs). *)
From Coq Require Import List NArith Bool.
From H2V Require Import Base.Bytes Base.Result Gen.GenHuffman Spec.XNetTables
  Spec.Rfc7541Huffman Impl.Huffman.
Import ListNotations.
Local Open Scope N_scope.

(* "www.example.com" *)
Definition ex_www : bytes := [119; 119; 119; 46; 101; 120; 97; 109; 112; 108; 101; 46; 99; 111; 109].
(* f1e3 c2e5 f23a 6ba0 ab90 f4ff *)
Definition ex_www_enc : bytes := [241; 227; 194; 229; 242; 58; 107; 160; 171; 144; 244; 255].

Lemma example_www :
  bytes_ok ex_www = true /\ bytes_ok ex_www_enc = true /\
  huffman_encode ex_www = ex_www_enc /\ spec_encode ex_www = ex_www_enc /\
  huffman_decode ex_www_enc = Ok ex_www /\ spec_valid ex_www_enc ex_www.
Proof.
  unfold spec_valid.
  repeat match goal with |- _ /\ _ => split end; vm_compute; reflexivity.
Qed.

(* rejected: an encoded EOS; padding that is not all ones; a whole byte of padding *)
Lemma example_rejects :
  huffman_decode [255; 255; 255; 255] = Err E_huff_index /\
  huffman_decode [0] = Err E_huff_zero /\
  huffman_decode [7; 255] = Err E_huff_left.
Proof.
  unfold spec_valid.
  repeat match goal with |- _ /\ _ => split end; vm_compute; reflexivity.
Qed.
