(* Proofs/SrvMsgInst.v - C20 for the real HPACK model: the hypothesis `decodes` of the server theorems follows from
   Impl/Hpack.v's header-block loop accepting the frames (block_decode_frames = Ok), which C03 (Props/C03.v) proves
   equal to RFC 7541's decoding of the concatenated block, however the block is cut (C03_split_invariance,
   C03_dec_refines_spec).  Uses the bridge of Proofs/SrvIsoInst.v (frame_loop => reference run). *)
From H2V Require Import Base.Bytes Base.MachineInt Base.Result Gen.GenConsts Impl.Hpack Impl.ServerConn Impl.ServerInst
     Spec.Http2Messages Proofs.SrvBase Proofs.HpackDefs Proofs.SrvIsoRef Proofs.SrvIsoInst Proofs.SrvMsgDefs.
From Coq Require Import ZArith Lia.
Local Open Scope N_scope.

Lemma frag_dec_of_ref_run eh d n b fs d' n' carry :
  ref_run srv_dec_field eh d n b fs d' n' carry -> frag_dec srv_dec_field eh d n b fs d' n' carry.
Proof.
  induction 1 as [d n | d n b d' Hb Hd | d n b d' Hb He Hd | d n b k v rest d1 fs d' n' carry Hb Hd _ IH].
  - constructor.
  - apply fd_none; assumption.
  - apply fd_short; assumption.
  - eapply fd_field; [exact Hb | exact Hd | eapply srv_dec_shrinks; exact Hd | exact IH].
Qed.

Lemma block_dec_of_frames : forall frags (first : bool) hp st fs hp',
  frags <> [] -> (first = true -> st = mkS [] 0) ->
  frames_from hp st (frames_of first frags) = Ok (fs, hp') ->
  exists carries, block_dec srv_dec_field hp (s_block_fields st) (s_prev st) frags (map kv_of fs) hp' carries.
Proof.
  induction frags as [|x rest IH]; intros first hp st fs hp' NE F0 H; [congruence|].
  assert (BF : (if negb first then s_block_fields st else 0) = s_block_fields st).
  { destruct first; [rewrite (F0 eq_refl); reflexivity | reflexivity]. }
  destruct rest as [|y rest'].
  - cbn [frames_of frames_from] in H.
    destruct (Hpack.handle_header_frame hp st (x, true, negb first)) as [[[fs1 hp1] st1]|e|w] eqn:HF; try discriminate.
    inversion H; subst. rewrite app_nil_r.
    pose proof (ref_run_of_hpack_frame _ _ _ _ _ _ _ _ HF) as RR. rewrite BF in RR.
    assert (P1 : s_prev st1 = []).
    { unfold Hpack.handle_header_frame in HF.
      destruct (frame_loop _ hp empty_field true _ _) as [[[a b0] c0]|?|?]; try discriminate.
      destruct (true && negb (len (s_prev c0) =? 0))%bool eqn:C; [discriminate|]. inversion HF; subst.
      cbn [andb] in C. apply Bool.negb_false_iff in C. apply N.eqb_eq in C. unfold len in C. destruct (s_prev st1); [reflexivity|cbn in C; lia]. }
    rewrite P1 in RR. exists []. eapply bd_last. apply frag_dec_of_ref_run. exact RR.
  - change (frames_of first (x :: y :: rest')) with ((x, false, negb first) :: frames_of false (y :: rest')) in H.
    cbn [frames_from] in H.
    destruct (Hpack.handle_header_frame hp st (x, false, negb first)) as [[[fs1 hp1] st1]|e|w] eqn:HF; try discriminate.
    destruct (frames_from hp1 st1 (frames_of false (y :: rest'))) as [[fs2 hp2]|e|w] eqn:FF; try discriminate.
    inversion H; subst.
    pose proof (ref_run_of_hpack_frame _ _ _ _ _ _ _ _ HF) as RR. rewrite BF in RR.
    destruct (IH false hp1 st1 fs2 hp' ltac:(discriminate) ltac:(discriminate) FF) as (cs & B).
    exists (s_prev st1 :: cs). rewrite map_app. eapply bd_more; [discriminate | apply frag_dec_of_ref_run; exact RR | exact B].
Qed.

(* the frames of a block, however it is cut, accepted by the HPACK model's header-block loop *)
Theorem decodes_of_hpack hp frags fs hp' :
  frags <> [] -> block_decode_frames hp (frames_of true frags) = Ok (fs, hp') ->
  exists carries, decodes srv_dec_field hp frags (map kv_of fs) hp' carries.
Proof.
  intros NE H. unfold decodes. exact (block_dec_of_frames frags true hp (mkS [] 0) fs hp' NE (fun _ => eq_refl) H).
Qed.
