(* Proofs/SrvFlowEs.v - C06 framing: at most one END_STREAM per stream in the server's output, and no HEADERS or
   DATA on the stream after it. *)
From H2V Require Import Base.Bytes Base.MachineInt Base.Result Gen.GenConsts Impl.ServerConn Proofs.SrvBase
  Spec.FlowLedger Proofs.SrvFlowLedger Proofs.SrvFlowDefs Proofs.SrvFlowSend Proofs.SrvFlowEff Proofs.SrvFlowSafe
  Proofs.SrvFlowSafeB Proofs.SrvFlowSafeC.
From Coq Require Import ZArith Lia ZifyN ZifyNat ZifyBool List.
Import ListNotations.
Local Open Scope N_scope.
Set Default Proof Using "Type".

(* the stream a response frame (HEADERS or DATA) is on, and whether it carries END_STREAM *)
Definition frame_sid (o : outev) : option N :=
  match strip o with OHeaders s _ _ | OData s _ _ => Some s | _ => None end.
Definition is_es (o : outev) : bool :=
  match strip o with OHeaders _ es _ | OData _ es _ => es | _ => false end.

(* `out` is newest first, as in sc_out *)
Definition ended (out : list outev) (sid : N) : Prop :=
  exists o, In o out /\ frame_sid o = Some sid /\ is_es o = true.

Fixpoint es_ok (out : list outev) : Prop :=
  match out with
  | [] => True
  | o :: t => es_ok t /\ forall sid, frame_sid o = Some sid -> ~ ended t sid
  end.

Definition noframe_out (o : outev) : Prop := frame_sid o = None.

Lemma quiet_noframe o : quiet_out o -> noframe_out o.
Proof. unfold quiet_out, noframe_out, frame_sid. destruct (strip o); auto; contradiction. Qed.
Lemma winupd_noframe o : winupd_out o -> noframe_out o.
Proof. unfold winupd_out, noframe_out, frame_sid. destruct (strip o); auto; contradiction. Qed.

Lemma ended_app a b sid : ended (a ++ b) sid <-> ended a sid \/ ended b sid.
Proof.
  unfold ended. split.
  - intros (o & Hin & H). apply in_app_or in Hin. destruct Hin; [left | right]; eauto.
  - intros [(o & Hin & H)|(o & Hin & H)]; exists o; (split; [apply in_or_app; auto | assumption]).
Qed.

Lemma ended_noframe new sid : Forall noframe_out new -> ~ ended new sid.
Proof.
  intros F (o & Hin & H & _). rewrite Forall_forall in F. specialize (F o Hin). unfold noframe_out in F. congruence.
Qed.

Lemma ended_ext_noframe new out sid : Forall noframe_out new -> (ended (new ++ out) sid <-> ended out sid).
Proof.
  intro F. rewrite ended_app. split; [intros [H|H]; [exfalso; eapply ended_noframe; eassumption | assumption] | auto].
Qed.

Lemma es_ok_ext_noframe new out : Forall noframe_out new -> es_ok out -> es_ok (new ++ out).
Proof.
  induction 1 as [|o l Ho _ IH]; intro H; [assumption|]. cbn [app es_ok]. split; [auto|].
  intros sid Hs. unfold noframe_out in Ho. congruence.
Qed.

(* the shape of the final theorem: of two response frames on one stream, the earlier one has no END_STREAM *)
Lemma es_ok_split out : es_ok out -> forall a o2 b o1 d sid, out = a ++ o2 :: b ++ o1 :: d ->
  frame_sid o1 = Some sid -> frame_sid o2 = Some sid -> is_es o1 = false.
Proof.
  intros H a. revert out H. induction a as [|x a IH]; intros out H o2 b o1 d sid E H1 H2; subst out.
  - cbn [app es_ok] in H. destruct H as [_ H]. destruct (is_es o1) eqn:Es; [|reflexivity].
    exfalso. apply (H sid H2). exists o1. split; [apply in_or_app; right; left; reflexivity | auto].
  - cbn [app es_ok] in H. destruct H as [H _]. eapply IH; eauto.
Qed.

(* the trace after some frames have been queued on stream sid; fin: END_STREAM may have been among them *)
Definition EsStep (sid : N) (out out' : list outev) (fin : bool) : Prop :=
  es_ok out' /\ (forall sid', sid' <> sid -> (ended out' sid' <-> ended out sid')) /\ (fin = false -> ~ ended out' sid).

Lemma EsStep_refl sid out fin : es_ok out -> ~ ended out sid -> EsStep sid out out fin.
Proof. intros H N. split; [assumption|]. split; [tauto | auto]. Qed.

Lemma EsStep_trans sid a b c fin : EsStep sid a b false -> EsStep sid b c fin -> EsStep sid a c fin.
Proof.
  intros (A1 & A2 & A3) (B1 & B2 & B3). split; [assumption|]. split; [|assumption].
  intros sid' NE. rewrite (B2 _ NE). apply A2. assumption.
Qed.

Lemma EsStep_fin sid a b fin : EsStep sid a b fin -> EsStep sid a b true.
Proof. intros (A1 & A2 & _). split; [assumption|]. split; [assumption | discriminate]. Qed.

Lemma EsStep_noframe sid out new fin : Forall noframe_out new -> es_ok out -> ~ ended out sid ->
  EsStep sid out (new ++ out) fin.
Proof.
  intros F H N. split; [apply es_ok_ext_noframe; assumption|].
  split; [intros; apply ended_ext_noframe; assumption|]. intros _. rewrite ended_ext_noframe; assumption.
Qed.

(* one frame on sid: queued as it is, queued late, or dropped *)
Lemma EsStep_frame sid out o pre : frame_sid o = Some sid ->
  (pre = [] \/ pre = [o] \/ pre = [OLate o]) -> es_ok out -> ~ ended out sid ->
  EsStep sid out (pre ++ out) (is_es o).
Proof.
  intros Hs Hpre H N. destruct Hpre as [->|Hpre]; [apply EsStep_refl; assumption|].
  assert (exists o', pre = [o'] /\ frame_sid o' = Some sid /\ is_es o' = is_es o) as (o' & -> & Hs' & He').
  { destruct Hpre as [->| ->]; eexists; split; try reflexivity; auto. }
  cbn [app]. split; [cbn [es_ok]; split; [assumption|]; intros sid0 E; rewrite Hs' in E; inversion E; subst; assumption|].
  split.
  - intros sid' NE. change (o' :: out) with ([o'] ++ out). rewrite ended_app. split; [|auto].
    intros [(x & [<-|[]] & Hx & _)|Hx]; [congruence | assumption].
  - intros Ef. change (o' :: out) with ([o'] ++ out). rewrite ended_app.
    intros [(x & [<-|[]] & _ & Hx)|Hx]; [congruence | contradiction].
Qed.

Section Es.
Variable hstate : Type.
Variable dec_field : hstate -> N -> bytes -> dec_res hstate.
Variable enc_field : hstate -> bytes -> bytes -> bool -> bytes * hstate.
Variable enc_set_max : hstate -> N -> hstate.
Variable cfg : config.
Notation sconn := (sconn hstate).
Implicit Types c : sconn.

Lemma emit_EsStep c sid o : frame_sid o = Some sid -> es_ok (sc_out c) -> ~ ended (sc_out c) sid ->
  EsStep sid (sc_out c) (sc_out (emit c o)) (is_es o).
Proof.
  intros Hs H N. destruct (emit_cases _ c o) as (pre & -> & Hpre). apply EsStep_frame; assumption.
Qed.

Lemma SDL_es sid c n r k : SDL sid c n r k -> es_ok (sc_out c) -> ~ ended (sc_out c) sid ->
  EsStep sid (sc_out c) (sc_out (fst (fst (fst r)))) (snd (fst r)).
Proof.
  induction 1; intros HO N; cbn [fst snd].
  - apply EsStep_refl; assumption.
  - apply EsStep_refl; assumption.
  - unfold write_reset. destruct (emit_cases _ c (ORst sid c_InternalError)) as (pre & -> & Hpre).
    apply EsStep_noframe; try assumption. destruct Hpre as [->|[->| ->]]; repeat constructor.
  - destruct (sn_pendingEnd n1); [|apply EsStep_refl; assumption].
    apply (emit_EsStep c sid (OData sid true [])); auto.
  - apply EsStep_refl; assumption.
  - unfold sd_c2. sc_cbn. apply EsStep_fin with (fin := is_es (OData sid (sd_es c n1) (sd_chunk c n1))).
    apply emit_EsStep; auto.
  - assert (E1 : EsStep sid (sc_out c) (sc_out (sd_c2 c sid n1)) false).
    { unfold sd_c2. sc_cbn. replace false with (is_es (OData sid (sd_es c n1) (sd_chunk c n1))) by (cbn; assumption).
      apply emit_EsStep; auto. }
    eapply EsStep_trans; [exact E1|]. apply IHSDL; [apply E1 | apply E1; reflexivity].
Qed.

(* ---------- the invariant ---------- *)

(* X: ids whose table entry may be that of a stream that has ended (it is about to be closed) *)
Definition EsX (X : N -> Prop) c : Prop :=
  es_ok (sc_out c) /\
  (forall s, In s (sc_strms c) -> ~ X (st_id s) -> ~ ended (sc_out c) (st_id s)) /\
  (forall sid, sc_highestID c < sid -> ~ ended (sc_out c) sid).
Notation Es := (EsX (fun _ => False)).

Lemma EsX_weaken (X Y : N -> Prop) c : (forall i, X i -> Y i) -> EsX X c -> EsX Y c.
Proof. intros H (A & B & C). split; [assumption|]. split; [|assumption]. intros s Hs NY. apply B; auto. Qed.

Lemma EsX_ext_ids X c c' : (forall s, In s (sc_strms c') -> In (st_id s) (map st_id (sc_strms c))) ->
  sc_highestID c <= sc_highestID c' -> out_ext noframe_out c c' -> EsX X c -> EsX X c'.
Proof.
  intros HS HH (new & E & F) (A & B & C). unfold EsX. rewrite E. split; [apply es_ok_ext_noframe; assumption|]. split.
  - intros s Hs NX. rewrite ended_ext_noframe by assumption. apply HS in Hs. apply in_map_iff in Hs.
    destruct Hs as (s0 & E0 & Hs0). rewrite <- E0. apply B; [assumption | rewrite E0; assumption].
  - intros sid H. rewrite ended_ext_noframe by assumption. apply C. flia.
Qed.

Lemma EsX_ext X c c' : (forall s, In s (sc_strms c') -> In s (sc_strms c)) -> sc_highestID c <= sc_highestID c' ->
  out_ext noframe_out c c' -> EsX X c -> EsX X c'.
Proof. intros HS. apply EsX_ext_ids. intros s Hs. apply in_map, HS, Hs. Qed.

Lemma out_quiet_noframe c c' : out_ext quiet_out c c' -> out_ext noframe_out c c'.
Proof. apply out_ext_weaken. apply quiet_noframe. Qed.

Lemma not_ended_ext c c' sid : out_ext noframe_out c c' -> ~ ended (sc_out c) sid -> ~ ended (sc_out c') sid.
Proof. intros (new & E & F) H. rewrite E, ended_ext_noframe; assumption. Qed.

Lemma EsX_Quiet X c c' : Quiet c c' -> EsX X c -> EsX X c'.
Proof.
  intros Q. apply EsX_ext; [rewrite (q_strms _ _ _ Q); auto | apply Q | apply out_quiet_noframe, Q].
Qed.
Lemma EsX_Closes X c c' : Closes c c' -> EsX X c -> EsX X c'.
Proof.
  intros Q. apply EsX_ext; [apply Dels_In, Q | rewrite (cl_highestID _ _ _ Q); flia | apply out_quiet_noframe, Q].
Qed.
Lemma EsX_Recv X c c' : Recv c c' -> EsX X c -> EsX X c'.
Proof.
  intros Q. apply EsX_ext; [rewrite (rv_strms _ _ _ Q); auto | rewrite (rv_highestID _ _ _ Q); flia|].
  eapply out_ext_weaken; [apply winupd_noframe | apply Q].
Qed.

Lemma EsX_put X c x : EsX X c -> ~ ended (sc_out c) (st_id x) -> EsX X (put c x).
Proof.
  intros (A & B & C) N. split; [assumption|]. split; [|assumption]. unfold put. sc_cbn.
  intros s Hs NX. apply strms_put_In in Hs. destruct Hs as [->|Hs]; auto.
Qed.

Lemma EsX_close X c s : NoDup (map st_id (sc_strms c)) -> EsX X c -> (forall i, X i -> i = st_id s) ->
  Es (close_stream c s).
Proof.
  intros ND E HX.
  assert (E' : EsX X (close_stream c s)) by (eapply EsX_Closes; [apply Closes_close_stream | exact E]).
  destruct E' as (A & B & C). split; [assumption|]. split; [|assumption].
  intros s0 Hs _. apply B; [assumption|]. rewrite sc_strms_close_stream in Hs.
  intro Hx. apply HX in Hx. eapply strms_del_not_In; eassumption.
Qed.

(* sendData *)
Lemma send_data_es X c s : EsX X c -> ~ ended (sc_out c) (st_id s) -> st_id s <= sc_highestID c ->
  let r := send_data c s in
  EsX (fun i => X i \/ i = st_id s) (fst (fst r)) /\ (snd r = false -> ~ ended (sc_out (fst (fst r))) (st_id s)).
Proof.
  intros (A & B & C) N Hh. cbv zeta. unfold send_data.
  destruct (send_data_loop_SDL _ (st_id s) (send_data_fuel (get_snd s)) c (get_snd s)) as [k H].
  pose proof (SDL_Frame _ _ _ _ _ _ H) as (F & E1 & E2 & E3 & E4).
  pose proof (SDL_es _ _ _ _ _ H A N) as (A' & B' & C').
  destruct (send_data_loop (send_data_fuel (get_snd s)) c (st_id s) (get_snd s)) as [[[c1 n1] done] wr].
  cbn [fst snd] in *. split; [|assumption]. split; [assumption|]. split.
  - rewrite E1. intros s0 Hs NX. rewrite B' by tauto. apply B; tauto.
  - rewrite E4. intros sid Hs. rewrite B' by flia. auto.
Qed.

Lemma EsX_step X c c' sid fin : EsX X c -> EsStep sid (sc_out c) (sc_out c') fin ->
  sc_strms c' = sc_strms c -> sc_highestID c' = sc_highestID c -> sid <= sc_highestID c ->
  EsX (fun i => X i \/ i = sid) c' /\ (fin = false -> EsX X c').
Proof.
  intros (A & B & C) (A' & B' & C') E1 E4 Hh. split.
  - split; [assumption|]. split.
    + rewrite E1. intros s0 Hs NX. rewrite B' by tauto. apply B; tauto.
    + rewrite E4. intros sid0 Hs. rewrite B' by flia. auto.
  - intro Ef. split; [assumption|]. split.
    + rewrite E1. intros s0 Hs NX. destruct (N.eq_dec (st_id s0) sid) as [->|NE]; [auto|]. rewrite B' by assumption. auto.
    + rewrite E4. intros sid0 Hs. rewrite B' by flia. auto.
Qed.

Lemma finish_request_es X c s r : EsX X c -> ~ ended (sc_out c) (st_id s) -> st_id s <= sc_highestID c ->
  let res := finish_request enc_field c s r in
  EsX (fun i => X i \/ i = st_id s) (fst (fst res)) /\ (snd res = false -> ~ ended (sc_out (fst (fst res))) (st_id s)).
Proof.
  intros E N Hh. cbv zeta. unfold finish_request.
  destruct (response_block enc_field (sc_enc c) r) as [blk e'].
  set (hb := match rs_body r with BBuffered [] => false | _ => true end).
  set (c1 := emit (upd_enc c e') (OHeaders (st_id s) (negb hb) blk)).
  assert (S1 : EsStep (st_id s) (sc_out c) (sc_out c1) (negb hb)).
  { subst c1. apply (emit_EsStep (upd_enc c e') (st_id s) (OHeaders (st_id s) (negb hb) blk)); [reflexivity | apply E | exact N]. }
  destruct (EsX_step X c c1 (st_id s) (negb hb) E S1) as [E1 E1']; try assumption;
    try (subst c1; rewrite ?sc_strms_emit, ?sc_highestID_emit; reflexivity).
  destruct (negb hb) eqn:HB.
  - cbn [fst snd]. split; [exact E1 | discriminate].
  - specialize (E1' eq_refl).
    match goal with |- context [send_data c1 ?x] => set (s1 := x) end.
    assert (I1 : st_id s1 = st_id s) by reflexivity.
    change (st_id s) with (st_id s1). apply (send_data_es X c1 s1 E1').
    + change (st_id s1) with (st_id s). apply S1. reflexivity.
    + change (st_id s1) with (st_id s). subst c1. rewrite sc_highestID_emit. exact Hh.
Qed.

(* flushStreams: streams that have been finished stay in the table until the end of the pass *)
Lemma flush_loop_es ids : forall c done L, SimX hstate None c L -> NoDup ids -> (forall i, In i ids -> ~ In i done) ->
  EsX (fun i => In i done) c ->
  EsX (fun i => In i (snd (flush_loop c ids done))) (fst (flush_loop c ids done)).
Proof.
  induction ids as [|id t IH]; intros c done L S ND Hd E; cbn [flush_loop]; [exact E|].
  inversion ND as [|? ? NIt NDt]; subst.
  assert (Hd' : forall i, In i t -> ~ In i done) by (intros; apply Hd; right; assumption).
  destruct (strms_search (sc_strms c) id) as [s|] eqn:F; [|eapply IH; eassumption].
  destruct (st_responded s && negb (st_handlerRunning s) && has_more_to_send s); [|eapply IH; eassumption].
  apply strms_search_In in F. destruct F as [Hin Hid].
  assert (Hh : held L s) by (apply (sim_strm _ _ _ _ S); [assumption | discriminate]).
  assert (Hle : st_id s <= sc_lastID c) by (apply (sim_le _ _ _ _ S); assumption).
  assert (Hhi : st_id s <= sc_highestID c) by (pose proof (sim_hi _ _ _ _ S); flia).
  assert (N : ~ ended (sc_out c) (st_id s)).
  { apply (proj1 (proj2 E)); [assumption|]. rewrite Hid. apply Hd. left. reflexivity. }
  destruct (send_data_led _ None c s L S (or_introl eq_refl) Hh Hle) as (L1 & Led & S1 & H1 & I1 & Lid).
  pose proof (send_data_es _ c s E N Hhi) as [E1 N1].
  destruct (send_data c s) as [[c1 s1] fin]. cbn [fst snd] in *.
  assert (S2 : SimX hstate None (put c1 s1) L1).
  { eapply SimX_put; [exact S1 | right; congruence | exact H1 | rewrite I1, Lid; exact Hle]. }
  eapply IH; [exact S2 | assumption | |].
  - intros i Hi. destruct fin; [|auto]. intro Hx. apply in_app_or in Hx. destruct Hx as [Hx|[<-|[]]]; [eapply Hd'; eassumption | contradiction].
  - destruct fin.
    + (* finished: id joins the list *)
      assert (E2 : EsX (fun i => In i (done ++ [id])) c1).
      { eapply EsX_weaken; [|exact E1]. intros i [Hi| ->]; apply in_or_app; [left; assumption | right; left; congruence]. }
      destruct E2 as (A & B & C). split; [assumption|]. split; [|assumption]. unfold put. sc_cbn.
      intros s0 Hs NX. apply strms_put_In in Hs. destruct Hs as [->|Hs]; [|auto].
      exfalso. apply NX. apply in_or_app. right. left. congruence.
    + (* not finished: nothing ended on it *)
      specialize (N1 eq_refl).
      assert (E2 : EsX (fun i => In i done) c1).
      { destruct E1 as (A & B & C). split; [assumption|]. split; [|assumption].
        intros s0 Hs NX. destruct (N.eq_dec (st_id s0) (st_id s)) as [->|NE]; [assumption|]. apply B; [assumption | tauto]. }
      apply EsX_put; [exact E2|]. rewrite I1. exact N1.
Qed.

Lemma close_all_notin ids : forall c, NoDup (map st_id (sc_strms c)) ->
  forall s, In s (sc_strms (close_all c ids)) -> ~ In (st_id s) ids.
Proof.
  induction ids as [|id t IH]; intros c ND s Hs; [intros []|]. cbn [close_all] in Hs.
  destruct (strms_search (sc_strms c) id) as [s0|] eqn:F.
  - apply strms_search_In in F. destruct F as [_ Hid].
    assert (ND' : NoDup (map st_id (sc_strms (close_stream c (set_state s0 SClosed))))).
    { rewrite sc_strms_close_stream. apply strms_del_NoDup. assumption. }
    intros [Eq|Hin]; [|eapply IH; eassumption].
    pose proof (Dels_In _ _ (cl_strms _ _ _ (close_all_Closes _ t _)) _ Hs) as Hs'.
    rewrite sc_strms_close_stream in Hs'. cbn [st_id set_state] in Hs'.
    eapply strms_del_not_In; [exact ND | exact Hs' | congruence].
  - intros [Eq|Hin]; [|eapply IH; eassumption].
    pose proof (Dels_In _ _ (cl_strms _ _ _ (close_all_Closes _ t _)) _ Hs) as Hs'.
    eapply strms_search_None; eauto.
Qed.

Lemma flush_streams_es c L : SimX hstate None c L -> Es c -> Es (flush_streams c).
Proof.
  intros S E. unfold flush_streams.
  pose proof (flush_loop_es (map st_id (sc_strms c)) c [] L S (sim_nodup _ _ _ _ S)) as E1.
  destruct (flush_loop_led _ (map st_id (sc_strms c)) c [] L S) as (L' & _ & S').
  destruct (flush_loop c (map st_id (sc_strms c)) []) as [c1 done]. cbn [fst snd] in *.
  assert (E2 : EsX (fun i => In i done) c1).
  { apply E1; [intros i _ []|]. eapply EsX_weaken; [|exact E]. intros i []. }
  pose proof (EsX_Closes _ _ _ (close_all_Closes _ done c1) E2) as (A & B & C).
  split; [assumption|]. split; [|assumption]. intros s Hs _. apply B; [assumption|].
  apply (close_all_notin done c1 (sim_nodup _ _ _ _ S') s Hs).
Qed.

(* afterFrame *)
Lemma after_frame_es ex c s fr wc L X :
  SimX hstate ex c L -> (ex = None \/ ex = Some (st_id s)) -> held L s -> st_id s <= sc_lastID c ->
  EsX X c -> (forall i, X i -> i = st_id s) -> ~ ended (sc_out c) (st_id s) ->
  Es (fst (after_frame cfg c s fr wc)).
Proof.
  intros S Hex Hh Hid E HX N. unfold after_frame. cbv zeta.
  destruct (handle_state_eff fr s) as ((I1 & W1 & _) & _).
  set (s1 := handle_state fr s) in *.
  assert (H1 : held L s1) by (eapply held_same_win; eassumption).
  assert (Hhi : st_id s <= sc_highestID c) by (pose proof (sim_hi _ _ _ _ S); flia).
  assert (M : exists c2 s2 L2,
             (if sstate_eqb (st_state s1) SHalfClosed && st_headersFinished s1 && negb (st_responded s1) then
                  let s2 := set_flags s1 true (st_handlerRunning s1) (st_abandoned s1) in
                  if st_hasCL s2 && negb (st_recvBody s2 =? st_contentLength s2)%Z then
                    (write_reset c (st_id s2) c_ProtocolError, set_state (set_weReset s2) SClosed)
                  else
                    (note c (ODispatch (st_id s2) (st_req s2)), set_flags s2 true true (st_abandoned s2))
                else if st_responded s1 && negb (st_handlerRunning s1) && has_more_to_send s1 then
                  let '(c1, s2, fin) := send_data c s1 in
                  (c1, if fin then set_state s2 SClosed else s2)
                else (c, s1)) = (c2, s2) /\
             SimX hstate (Some (st_id s)) c2 L2 /\ held L2 s2 /\ st_id s2 = st_id s /\ sc_lastID c2 = sc_lastID c /\
             EsX (fun i => X i \/ i = st_id s) c2 /\
             (sstate_eqb (st_state s2) SClosed = false -> ~ ended (sc_out c2) (st_id s))).
  { destruct (sstate_eqb (st_state s1) SHalfClosed && st_headersFinished s1 && negb (st_responded s1)).
    - cbv zeta. match goal with |- context [if ?b then _ else _] => destruct b end.
      + eexists _, _, L. split; [reflexivity|].
        split; [eapply SimX_Quiet; [apply Quiet_write_reset | eapply SimX_some; eassumption]|].
        split; [eapply held_same_win; [| |exact H1]; reflexivity|]. split; [exact I1|]. split; [apply sc_lastID_write_reset|].
        split; [eapply EsX_weaken; [|eapply EsX_Quiet; [apply Quiet_write_reset | exact E]]; auto|].
        intros _. cbn [st_id set_flags]. rewrite I1.
        eapply not_ended_ext; [apply out_quiet_noframe, (q_out _ _ _ (Quiet_write_reset _ c (st_id s) c_ProtocolError)) | exact N].
      + eexists _, _, L. split; [reflexivity|].
        split; [eapply SimX_Quiet; [apply (Quiet_note _ c (ODispatch _ _) I) | eapply SimX_some; eassumption]|].
        split; [eapply held_same_win; [| |exact H1]; reflexivity|]. split; [exact I1|]. split; [reflexivity|].
        split; [eapply EsX_weaken; [|eapply EsX_Quiet; [apply (Quiet_note _ c (ODispatch _ _) I) | exact E]]; auto|].
        intros _. eapply not_ended_ext; [apply out_quiet_noframe, (q_out _ _ _ (Quiet_note _ c (ODispatch _ _) I)) | exact N].
    - destruct (st_responded s1 && negb (st_handlerRunning s1) && has_more_to_send s1).
      + destruct (send_data_led _ ex c s1 L S) as (L1 & Led & S1 & Hh1 & Id1 & Lid); rewrite ?I1; try assumption.
        pose proof (send_data_es X c s1 E) as R. rewrite I1 in R. destruct (R N Hhi) as [E1 N1]. clear R.
        destruct (send_data c s1) as [[c1 s2] fin]. cbn [fst snd] in *. rewrite I1 in *.
        eexists _, _, L1. split; [reflexivity|]. split; [exact S1|].
        split; [destruct fin; [eapply held_same_win; [| |exact Hh1]; reflexivity | exact Hh1]|].
        split; [destruct fin; exact Id1|]. split; [exact Lid|]. split; [exact E1|].
        destruct fin; [cbn; discriminate | intros _; apply N1; reflexivity].
      + eexists _, _, L. split; [reflexivity|]. split; [eapply SimX_some; eassumption|].
        split; [exact H1|]. split; [exact I1|]. split; [reflexivity|].
        split; [eapply EsX_weaken; [|exact E]; auto|]. intros _. exact N. }
  destruct M as (c2 & s2 & L2 & EQ & S2 & H2 & I2 & Lid & E2 & N2). cbv zeta in EQ. rewrite EQ. clear EQ.
  assert (S3 : SimX hstate None (put c2 s2) L2).
  { eapply SimX_put; [exact S2 | right; congruence | exact H2 | rewrite I2, Lid; exact Hid]. }
  assert (G : Es (if sstate_eqb (st_state s2) SClosed then close_stream (put c2 s2) s2 else put c2 s2)).
  { destruct (sstate_eqb (st_state s2) SClosed).
    - apply (EsX_close (fun i => X i \/ i = st_id s)); [apply (sim_nodup _ _ _ _ S3)| |].
      + destruct E2 as (A & B & C). split; [exact A|]. split; [|exact C]. unfold put. sc_cbn.
        intros s0 Hs NX. apply strms_put_In in Hs. destruct Hs as [->|Hs]; [exfalso; apply NX; right; exact I2 | auto].
      + intros i [Hi| ->]; [rewrite I2; auto | congruence].
    - specialize (N2 eq_refl).
      assert (E3 : EsX X c2).
      { destruct E2 as (A & B & C). split; [exact A|]. split; [|exact C].
        intros s0 Hs NX. destruct (N.eq_dec (st_id s0) (st_id s)) as [->|NE]; [exact N2 | apply B; tauto]. }
      assert (E4 : EsX X (put c2 s2)) by (apply EsX_put; [exact E3 | rewrite I2; exact N2]).
      destruct E4 as (A & B & C). split; [exact A|]. split; [|exact C].
      intros s0 Hs _. destruct (N.eq_dec (st_id s0) (st_id s)) as [->|NE]; [exact N2|].
      apply B; [exact Hs|]. intro Hx. apply HX in Hx. contradiction. }
  match goal with |- context [if ?b then brk ?x else cont ?x] => destruct b end; cbn [fst cont]; [|exact G].
  eapply EsX_Quiet; [apply Quiet_brk | exact G].
Qed.

(* ---------- the steps ---------- *)

Definition EInv c : Prop := (sc_sl_done c = true /\ es_ok (sc_out c)) \/ Es c.

Lemma es_ok_quiet c c' : out_ext quiet_out c c' -> es_ok (sc_out c) -> es_ok (sc_out c').
Proof. intros O H. destruct (out_quiet_noframe _ _ O) as (new & -> & F). apply es_ok_ext_noframe; assumption. Qed.

Lemma EInv_es_ok c : EInv c -> es_ok (sc_out c).
Proof. intros [[_ H]|H]; [exact H | apply H]. Qed.

Lemma Origin_es c fr c1 s L : SimX hstate None c L -> Origin c fr c1 s -> Es c ->
  Es c1 /\ ~ ended (sc_out c1) (st_id s).
Proof.
  intros S O E. destruct O as [s LE F | KH FD HI LA].
  - split; [exact E|]. apply strms_search_In in F. apply (proj1 (proj2 E)); [apply F | auto].
  - destruct E as (A & B & C).
    assert (N : ~ ended (sc_out c) (sf_sid fr)) by (apply C; exact HI).
    split; [|exact N]. split; [exact A|]. sc_cbn. split.
    + intros s0 Hs _. apply in_app_or in Hs. destruct Hs as [Hs|[<-|[]]]; [apply B; auto | exact N].
    + intros sid H. apply C. flia.
Qed.

Lemma sl_frame_es c fr L : SimX hstate None c L -> Es c -> EInv (fst (sl_frame dec_field enc_set_max cfg c fr)).
Proof.
  intros S E.
  destruct (sl_frame_SLF _ dec_field enc_set_max cfg c fr)
    as [c' Q D P3 | c' F O SD | Z K HW c0 newInit delta Fa | Z K W | NZ K | c1 s p NZ Or KH Hp | c1 s c2 cX sX NZ Or CL HF].
  - right. eapply EsX_Quiet; eassumption.
  - left. split; [exact SD | eapply es_ok_quiet; [exact O | apply E]].
  - right. pose proof (settings_Sim _ enc_set_max c fr L S) as S2. cbv zeta in S2. fold c0 newInit delta in S2.
    eapply flush_streams_es; [exact S2|].
    eapply EsX_ext_ids; [| | |exact E].
    + rewrite sc_strms_emit. sc_cbn. intros s Hs. apply in_map_iff in Hs. destruct Hs as (s0 & <- & Hs0).
      cbn [bump st_id set_window]. apply in_map. exact Hs0.
    + rewrite sc_highestID_emit. sc_cbn. unfold c0. destruct (settings_c0_fields _ enc_set_max c fr) as (_ & _ & _ & _ & -> & _). flia.
    + eapply out_ext_trans; [|apply out_ext_emit; exact eq_refl]. apply out_ext_same. sc_cbn. unfold c0.
      apply (settings_c0_fields _ enc_set_max c fr).
  - right. eapply flush_streams_es; [apply (winupd_Sim _ c (sf_inc fr) L S)|].
    eapply EsX_ext; [| | |exact E]; [auto | sc_cbn; flia | apply out_ext_same; reflexivity].
  - right. eapply EsX_Recv; [apply Recv_credit | exact E].
  - right. destruct (Origin_es c fr c1 s L S Or E) as [E1 _].
    apply EsX_put; [eapply EsX_Quiet; [apply Quiet_write_goaway | exact E1]|].
    eapply not_ended_ext; [apply out_quiet_noframe, (q_out _ _ _ (Quiet_write_goaway _ c1 (st_id p) c_ProtocolError))|].
    cbn [st_id set_state]. apply (proj1 (proj2 E1)); [exact Hp | auto].
  - destruct (Origin_es c fr c1 s L S Or E) as [E1 N1].
    destruct (after_pre_Sim _ dec_field cfg c fr c1 s c2 cX sX L S NZ Or CL HF) as (SX & HX & LeX & IX & _).
    destruct (HFok_eff _ dec_field cfg c2 s fr cX sX HF) as (c3 & s3 & R & Q & _).
    assert (EX : Es cX).
    { eapply EsX_Quiet; [exact Q|]. eapply EsX_Recv; [exact R|]. eapply EsX_Closes; [exact CL | exact E1]. }
    assert (NX : ~ ended (sc_out cX) (st_id sX)).
    { rewrite IX. eapply not_ended_ext; [apply out_quiet_noframe, Q|].
      eapply not_ended_ext; [eapply out_ext_weaken; [apply winupd_noframe | apply R]|].
      eapply not_ended_ext; [apply out_quiet_noframe, CL | exact N1]. }
    pose proof (after_frame_es None cX sX fr (sc_closing c) _ (fun _ => False) SX (or_introl eq_refl) HX LeX EX) as G.
    right. apply G; [intros i [] | exact NX].
Qed.

Lemma sl_done_es c sid r L : SimX hstate None c L -> Es c -> Es (fst (sl_done enc_field cfg c sid r)).
Proof.
  intros S E. unfold sl_done.
  destruct (take_stream (sc_gone c) sid) as [[s rest]|].
  - cbn [fst cont].
    assert (Q : Quiet c (release_stream (upd_gone c rest) (set_flags s (st_responded s) false true))).
    { eapply Quiet_trans; [|apply Quiet_release_stream].
      constructor; sc_cbn; first [reflexivity | flia | (left; reflexivity) | (intro; assumption) | (apply out_ext_same; reflexivity)]. }
    eapply EsX_Quiet; eassumption.
  - destruct (strms_search (sc_strms c) sid) as [s|] eqn:F; [|exact E].
    destruct (negb (st_handlerRunning s)); [exact E|].
    apply strms_search_In in F. destruct F as [Hin Hid].
    set (s1 := set_flags s (st_responded s) false (st_abandoned s)).
    assert (H1 : held L s1).
    { eapply held_same_win; [| |apply (sim_strm _ _ _ _ S s Hin); discriminate]; reflexivity. }
    assert (Le1 : st_id s1 <= sc_lastID c) by apply (sim_le _ _ _ _ S s Hin).
    assert (Hhi : st_id s1 <= sc_highestID c) by (pose proof (sim_hi _ _ _ _ S); flia).
    assert (N : ~ ended (sc_out c) (st_id s1)) by (apply (proj1 (proj2 E) s); [exact Hin | auto]).
    destruct (finish_request_led _ enc_field None c s1 r L S (or_introl eq_refl) H1 Le1) as (L1 & Led & S1 & Hh & I1 & Lid).
    destruct (finish_request_es (fun _ => False) c s1 r E N Hhi) as [E1 N1].
    destruct (finish_request enc_field c s1 r) as [[c1 s2] fin]. cbn [fst snd] in *.
    assert (G : Es (if fin then close_stream (put c1 (set_state s2 SClosed)) (set_state s2 SClosed) else put c1 s2)).
    { destruct fin.
      - assert (S2 : SimX hstate None (put c1 (set_state s2 SClosed)) L1).
        { eapply SimX_put; [exact S1 | right; cbn [st_id set_state]; rewrite I1; reflexivity | eapply held_same_win; [| |exact Hh]; reflexivity|].
          cbn [st_id set_state]. rewrite I1, Lid. exact Le1. }
        apply (EsX_close (fun i => False \/ i = st_id s1)); [apply (sim_nodup _ _ _ _ S2)| |].
        + destruct E1 as (A & B & C). split; [exact A|]. split; [|exact C]. unfold put. sc_cbn.
          intros s0 Hs NX. apply strms_put_In in Hs. destruct Hs as [->|Hs]; [exfalso; apply NX; right; exact I1 | auto].
        + intros i [[]| ->]. cbn [st_id set_state]. congruence.
      - specialize (N1 eq_refl).
        destruct E1 as (A & B & C). split; [exact A|]. split; [|exact C]. unfold put. sc_cbn.
        intros s0 Hs _. apply strms_put_In in Hs. destruct Hs as [->|Hs]; [rewrite I1; exact N1|].
        destruct (N.eq_dec (st_id s0) (st_id s1)) as [->|NE]; [exact N1 | apply B; tauto]. }
    match goal with |- context [if ?b then brk ?x else cont ?x] => destruct b end; cbn [fst cont]; [|exact G].
    eapply EsX_Quiet; [apply Quiet_brk | exact G].
Qed.

Variable h0 : hstate.
Notation step := (step dec_field enc_field enc_set_max cfg).
Notation Inv := (Inv hstate).

Lemma EInv_quiet c c' : out_ext quiet_out c c' -> sc_strms c' = sc_strms c -> sc_highestID c <= sc_highestID c' ->
  (sc_sl_done c = true -> sc_sl_done c' = true) -> EInv c -> EInv c'.
Proof.
  intros O E1 E2 SD [[H1 H2]|H].
  - left. split; [auto | eapply es_ok_quiet; eassumption].
  - right. eapply EsX_ext; [rewrite E1; intros s Hs; exact Hs | exact E2 | apply out_quiet_noframe, O | exact H].
Qed.

Lemma step_es c e L : Inv c L -> EInv c -> EInv (step c e).
Proof.
  intros H E. destruct e as [i| |sid r|t| | | |].
  - rewrite step_EvRL. destruct (sc_rl_done c); [exact E|].
    destruct (rl_step_eff _ cfg c i) as [[r1 r2 r3 r4 r5 r6 r7 r8 r9 r10] _].
    eapply EInv_quiet; try eassumption; [rewrite r6; flia | congruence].
  - rewrite step_EvSL. destruct (sc_sl_done c) eqn:SD; [exact E|].
    destruct H as [H|S]; [congruence|]. destruct E as [[E _]|E]; [congruence|].
    destruct (sc_readerQ c) as [|fr q].
    + destruct (sc_rl_done c); [|right; exact E]. left. split; [reflexivity|].
      cbn [sc_out note upd_out]. change (?o :: ?l) with ([o] ++ l). apply es_ok_ext_noframe; [repeat constructor | apply E].
    + apply (sl_frame_es (upd_readerQ c q) fr L); [eapply SimX_same; [..|exact S]; reflexivity|].
      eapply EsX_ext; [| | |exact E]; [auto | sc_cbn; flia | apply out_ext_same; reflexivity].
  - rewrite step_EvDone. destruct (sc_sl_done c) eqn:SD; [exact E|].
    destruct H as [H|S]; [congruence|]. destruct E as [[E _]|E]; [congruence|].
    right. eapply sl_done_es; eassumption.
  - rewrite step_EvClock. destruct (sc_now c <? t)%Z; [|exact E].
    eapply EInv_quiet; [apply out_ext_same; reflexivity | reflexivity | sc_cbn; flia | auto | exact E].
  - rewrite step_EvTimer. destruct (sc_sl_done c) eqn:SD; [exact E|].
    destruct E as [[E _]|E]; [congruence|]. right. unfold sl_timer.
    destruct (cf_maxRequestTime cfg <=? 0)%Z; cbn [fst cont]; [exact E|].
    eapply EsX_Closes; [apply close_heads_Closes | exact E].
  - rewrite step_EvIdle.
    assert (Q : Quiet c (upd_closer (write_goaway c 0 c_NoError) true)).
    { eapply Quiet_trans; [apply Quiet_write_goaway|].
      constructor; sc_cbn; first [reflexivity | flia | (left; reflexivity) | (intro; assumption) | (apply out_ext_same; reflexivity)]. }
    eapply EInv_quiet; [apply Q | apply Q | apply Q | | exact E].
    intro SD. destruct (q_sl_done _ _ _ Q) as [X|X]; congruence.
  - rewrite step_EvCloser. destruct (sc_closer c && negb (sc_sl_done c)); [|exact E].
    left. split; [reflexivity|]. eapply es_ok_quiet; [apply (q_out _ _ _ (Quiet_brk _ c)) | apply EInv_es_ok, E].
  - rewrite step_EvWriteFail.
    eapply EInv_quiet; [apply out_ext_same; reflexivity | reflexivity | sc_cbn; flia | auto | exact E].
Qed.

Lemma es_from evs : forall c L, Inv c L -> EInv c -> EInv (run_from dec_field enc_field enc_set_max cfg c evs).
Proof.
  induction evs as [|e evs IH]; intros c L H E; [exact E|]. rewrite run_from_cons.
  destruct (StepOK_tl _ dec_field enc_field enc_set_max cfg c e L H) as (_ & H' & _).
  eapply IH; [exact H' | eapply step_es; eassumption].
Qed.

(* C06 framing: of two response frames (HEADERS or DATA) on one stream, the earlier one has no END_STREAM.
   So there is at most one END_STREAM per stream and nothing follows it. *)
Theorem end_stream_once evs pre o1 mid o2 post sid :
  trace (run dec_field enc_field enc_set_max cfg h0 evs) = pre ++ o1 :: mid ++ o2 :: post ->
  frame_sid o1 = Some sid -> frame_sid o2 = Some sid -> is_es o1 = false.
Proof.
  intros T H1 H2.
  assert (E : EInv (run dec_field enc_field enc_set_max cfg h0 evs)).
  { rewrite run_eq. eapply es_from; [apply Inv_init|]. right. split; [exact I|]. split; [intros ? []|].
    intros sid0 _ (o & [] & _). }
  apply EInv_es_ok in E. unfold trace in T.
  assert (R : sc_out (run dec_field enc_field enc_set_max cfg h0 evs) = rev post ++ o2 :: rev mid ++ o1 :: rev pre).
  { rewrite <- (rev_involutive (sc_out _)), T. rewrite rev_app_distr. cbn [rev]. rewrite rev_app_distr. cbn [rev].
    rewrite <- !app_assoc. cbn [app]. reflexivity. }
  eapply es_ok_split; [exact E | exact R | exact H1 | exact H2].
Qed.

End Es.
