(* Proofs/SrvFlowCTrackB.v - C06 completion: the tracked response through flushStreams and afterFrame. *)
From H2V Require Import Base.Bytes Base.MachineInt Base.Result Gen.GenConsts Impl.ServerConn Proofs.SrvBase
  Spec.FlowLedger Proofs.SrvFlowLedger Proofs.SrvFlowDefs Proofs.SrvFlowSend Proofs.SrvFlowEff Proofs.SrvFlowSafe
  Proofs.SrvFlowSafeB Proofs.SrvFlowSafeC Proofs.SrvFlowEs Proofs.SrvFlowRecv Proofs.SrvFlowStall Proofs.SrvFlowFuel
  Proofs.SrvFlowDone Proofs.SrvFlowCDecomp Proofs.SrvFlowCMono Proofs.SrvFlowCView Proofs.SrvFlowCEarly Proofs.SrvFlowCTrack.
From Coq Require Import ZArith Lia ZifyN ZifyNat ZifyBool List.
Import ListNotations.
Local Open Scope N_scope.
Set Default Proof Using "Type".

Lemma has_more_pending s : st_pending s <> [] -> has_more_to_send s = true.
Proof. unfold has_more_to_send. destruct (st_pending s); [congruence | reflexivity]. Qed.
Lemma has_more_done s : st_pending s = [] -> st_bodyStream s = None -> has_more_to_send s = false.
Proof. unfold has_more_to_send. intros -> ->. reflexivity. Qed.

Section TrackB.
Variable hstate : Type.
Variable dec_field : hstate -> N -> bytes -> dec_res hstate.
Variable enc_field : hstate -> bytes -> bytes -> bool -> bytes * hstate.
Variable enc_set_max : hstate -> N -> hstate.
Variable cfg : config.
Notation sconn := (sconn hstate).
Implicit Types c : sconn.
Notation AbortS := (AbortS hstate).
Notation Keeps := (Keeps hstate).
Notation FrameO := (FrameO hstate).
Notation Live := (Live hstate).
Notation Complete := (Complete hstate).
Notation Sent := (Sent hstate).
Notation Queued := (Queued hstate).
Notation Track := (Track hstate).

Definition IdsHi c : Prop := forall s, In s (sc_strms c) -> st_id s <= sc_highestID c.

Lemma alive_or_abort sid c : AbortS sid c \/ (sc_wl_dead c = false /\ sc_sl_done c = false).
Proof.
  destruct (sc_sl_done c) eqn:SD; [left; left; exact SD|]. destruct (sc_wl_dead c) eqn:WD; [left; right; left; exact WD|].
  right. split; reflexivity.
Qed.

Lemma FrameO_send_data c s : FrameO c (fst (fst (send_data c s))).
Proof. apply FrameO_NoCredit, send_data_NoCredit. Qed.
Lemma FrameO_put c x : FrameO c (put c x).
Proof. apply FrameO_same; [apply Frame_put | reflexivity]. Qed.
Lemma FrameO_close c x : FrameO c (close_stream c x).
Proof. eapply FrameO_Frame; [apply Frame_close_stream | apply close_stream_out]. Qed.

Lemma Queued_same sid es frames c c' : sc_out c' = sc_out c -> Queued sid es frames c -> Queued sid es frames c'.
Proof. intros E (blk & Q). exists blk. rewrite E. exact Q. Qed.

(* the tracked stream after sendData: written back, or closed *)
Lemma live_put c s sid B c1 s1 frames' :
  strms_search (sc_strms c) sid = Some s -> phase s = true -> sc_strms c1 = sc_strms c ->
  st_id s1 = sid -> st_responded s1 = st_responded s -> st_handlerRunning s1 = st_handlerRunning s ->
  st_bodyStream s1 = None -> st_pendingEnd s1 = true -> st_pending s1 <> [] ->
  Queued sid false frames' c1 -> concat (map snd frames') ++ st_pending s1 = B -> es_shape frames' false -> Forall small frames' ->
  Live sid B (put c1 s1).
Proof.
  intros F PT E Id R Ru BS PE PN Q CB ES FS. exists s1, frames'.
  split; [unfold put; sc_cbn; rewrite E, <- Id; eapply search_put_same; rewrite Id; exact F|].
  split; [rewrite <- PT; apply phase_flags; assumption|].
  repeat (split; [assumption|]). assumption.
Qed.

Lemma sent_of_live sid B frames' c s : st_pending s <> [] -> concat (map snd frames') = B ->
  (exists frames0 : list (bool * bytes), concat (map snd frames0) ++ st_pending s = B) ->
  Queued sid false frames' c -> es_shape frames' true -> Forall small frames' -> Sent sid B c.
Proof.
  intros PN CB (f0 & E0) Q ES FS.
  assert (NB : isnil B = false).
  { apply isnil_false. intro X. rewrite X in E0. apply app_eq_nil in E0. destruct E0. contradiction. }
  exists frames'. rewrite NB. auto.
Qed.

(* ---------- flushStreams ---------- *)

(* the stream is still in the table, all of its response queued: it is closed at the end of the pass *)
Definition FinT (sid : N) (B : bytes) c : Prop :=
  exists s, strms_search (sc_strms c) sid = Some s /\ has_more_to_send s = false /\ sid <= sc_highestID c /\ Sent sid B c.

Definition TrackF (done : list N) (sid : N) (B : bytes) c : Prop :=
  AbortS sid c \/ (Live sid B c /\ ~ In sid done) \/ Complete sid B c \/ (In sid done /\ FinT sid B c).

Lemma TrackF_Keeps done done' sid B c c' : Keeps sid c c' -> FrameO c c' -> (In sid done' <-> In sid done) ->
  TrackF done sid B c -> TrackF done' sid B c'.
Proof.
  intros K F D [H|[[H N]|[H|[I (s & S1 & S2 & S3 & S4)]]]].
  - left. eapply AbortS_FrameO; eassumption.
  - right; left. split; [eapply Live_Keeps; eassumption | rewrite D; exact N].
  - right; right; left. eapply Complete_Keeps; eassumption.
  - right; right; right. split; [rewrite D; exact I|]. exists s. rewrite (k_search _ _ _ _ K).
    split; [exact S1|]. split; [exact S2|]. split; [pose proof (k_hi _ _ _ _ K); flia | eapply Sent_Keeps; eassumption].
Qed.

Lemma flush_loop_TrackF sid B ids : forall c done, IdsHi c -> TrackF done sid B c ->
  TrackF (snd (flush_loop c ids done)) sid B (fst (flush_loop c ids done)).
Proof.
  induction ids as [|id t IH]; intros c done HI H; cbn [flush_loop]; [exact H|].
  destruct (strms_search (sc_strms c) id) as [s0|] eqn:F; [|apply IH; assumption].
  destruct (st_responded s0 && negb (st_handlerRunning s0) && has_more_to_send s0) eqn:W; [|apply IH; assumption].
  pose proof (strms_search_In _ _ _ F) as [Hin Hid].
  destruct (send_data_stream _ c s0) as (A1 & A2 & A3 & A4 & A5 & A6 & A7). cbv zeta in *.
  assert (HI' : forall s1, st_id s1 = st_id s0 -> IdsHi (put (fst (fst (send_data c s0))) s1)).
  { intros s1 E x Hx. unfold put in *. sc_cbn. sc_cbn_in Hx. rewrite A6.
    assert (I : In (st_id x) (map st_id (strms_put (sc_strms (fst (fst (send_data c s0)))) s1))) by (apply in_map; exact Hx).
    rewrite strms_put_ids, A5 in I. apply in_map_iff in I. destruct I as (x0 & <- & H0). apply HI, H0. }
  destruct (N.eq_dec id sid) as [->|NE].
  - (* the tracked stream *)
    destruct H as [H|[[H N]|[H|[I (s & S1 & S2 & _)]]]].
    + pose proof (FrameO_send_data c s0) as Fo. destruct (send_data c s0) as [[c1 s1] fin]. cbn [fst snd] in *.
      apply IH; [apply HI'; exact A1|]. left. eapply AbortS_FrameO; [|exact H]. eapply FrameO_trans; [exact Fo | apply FrameO_put].
    + destruct (alive_or_abort sid c) as [Ab|[WD SD]].
      { pose proof (FrameO_send_data c s0) as Fo. destruct (send_data c s0) as [[c1 s1] fin]. cbn [fst snd] in *.
        apply IH; [apply HI'; exact A1|]. left. eapply AbortS_FrameO; [|exact Ab]. eapply FrameO_trans; [exact Fo | apply FrameO_put]. }
      destruct H as (s & frames & S1 & PT & BS & PE & PN & Q & CB & ES & FS).
      assert (s = s0) by congruence. subst s.
      destruct (send_live _ c s0 sid B frames Hid BS PE PN WD SD Q CB ES FS) as (frames' & Q' & FS' & I1 & St1 & R1 & Ru1 & BS1 & PE1 & T1 & SD1 & WD1 & CL1 & X).
      cbv zeta in *. destruct (send_data c s0) as [[c1 s1] fin]. cbn [fst snd] in *.
      apply IH; [apply HI'; exact A1|]. destruct fin.
      * destruct X as (CB' & ES' & P1). right; right; right. split; [apply in_or_app; right; left; reflexivity|].
        exists s1. split; [unfold put; sc_cbn; rewrite T1, <- I1; eapply search_put_same; rewrite I1; exact F|].
        split; [apply has_more_done; assumption|]. split; [unfold put; sc_cbn; rewrite A6; rewrite <- Hid; apply HI, Hin|].
        eapply (sent_of_live sid B frames' _ s0); try eassumption; try (eexists; exact CB); try (eapply Queued_same; [|exact Q']; reflexivity).
      * destruct X as (PN' & CB' & ES'). right; left. split; [|exact N].
        eapply (live_put c s0 sid B c1 s1 frames'); eassumption.
    + destruct H as (H & _). congruence.
    + assert (s = s0) by congruence. subst s. rewrite S2, Bool.andb_false_r in W. discriminate.
  - (* another stream *)
    pose proof (Keeps_send_data _ sid c s0) as K. pose proof (FrameO_send_data c s0) as Fo.
    destruct (send_data c s0) as [[c1 s1] fin]. cbn [fst snd] in *.
    apply IH; [apply HI'; exact A1|].
    eapply TrackF_Keeps; [| | |exact H].
    + eapply Keeps_trans; [apply K; congruence | apply Keeps_put; congruence].
    + eapply FrameO_trans; [exact Fo | apply FrameO_put].
    + destruct fin; [|tauto]. split; [|intro; apply in_or_app; left; assumption].
      intro X. apply in_app_or in X. destruct X as [X|[X|[]]]; [exact X | congruence].
Qed.

Lemma Keeps_close_all sid ids : forall c, strms_search (sc_strms c) sid = None \/ ~ In sid ids -> Keeps sid c (close_all c ids).
Proof.
  induction ids as [|id t IH]; intros c H; cbn [close_all]; [apply Keeps_refl|].
  assert (H' : forall c', Keeps sid c c' -> strms_search (sc_strms c') sid = None \/ ~ In sid t).
  { intros c' K. destruct H as [H|H]; [left; rewrite (k_search _ _ _ _ K); exact H | right; intro X; apply H; right; exact X]. }
  destruct (strms_search (sc_strms c) id) as [s|] eqn:F; [|apply IH, H', Keeps_refl].
  assert (NE : st_id (set_state s SClosed) <> sid).
  { cbn [st_id set_state]. pose proof (strms_search_In _ _ _ F) as [_ Hid]. destruct H as [H|H]; [|intro; apply H; left; congruence].
    intro E. assert (X : id = sid) by congruence. rewrite <- X in H. congruence. }
  pose proof (Keeps_close _ sid c (set_state s SClosed) NE) as K.
  eapply Keeps_trans; [exact K | apply IH, H', K].
Qed.

Lemma flush_streams_Track sid B c : NoDup (map st_id (sc_strms c)) -> IdsHi c -> Track sid B c -> Track sid B (flush_streams c).
Proof.
  intros ND HI H. unfold flush_streams.
  assert (H0 : TrackF [] sid B c).
  { destruct H as [H|[H|H]]; [left; exact H | right; left; split; [exact H | intros []] | right; right; left; exact H]. }
  pose proof (flush_loop_TrackF sid B (map st_id (sc_strms c)) c [] HI H0) as H1.
  assert (ND1 : NoDup (map st_id (sc_strms (fst (flush_loop c (map st_id (sc_strms c)) []))))).
  { clear - ND. generalize (@nil N). generalize (map st_id (sc_strms c)) as ids. intros ids. revert c ND.
    induction ids as [|id t IH]; intros c ND done; cbn [flush_loop]; [exact ND|].
    destruct (strms_search (sc_strms c) id) as [s|]; [|apply IH, ND].
    destruct (st_responded s && negb (st_handlerRunning s) && has_more_to_send s); [|apply IH, ND].
    destruct (send_data_stream _ c s) as (_ & _ & _ & _ & A5 & _). cbv zeta in A5.
    destruct (send_data c s) as [[c1 s1] fin]. cbn [fst snd] in *. apply IH. unfold put. sc_cbn. rewrite strms_put_ids, A5. exact ND. }
  destruct (flush_loop c (map st_id (sc_strms c)) []) as [c1 done]. cbn [fst snd] in *.
  pose proof (close_all_Closes _ done c1) as CL.
  destruct H1 as [H1|[[H1 N1]|[H1|[I1 (s & S1 & S2 & S3 & S4)]]]].
  - left. eapply AbortS_FrameO; [apply FrameO_Closes, CL | exact H1].
  - right; left. eapply Live_Keeps; [apply Keeps_close_all; right; exact N1 | exact H1].
  - right; right. eapply Complete_Keeps; [apply Keeps_close_all; left; apply H1 | exact H1].
  - right; right. split; [|split].
    + destruct (strms_search (sc_strms (close_all c1 done)) sid) as [x|] eqn:Fx; [|reflexivity].
      exfalso. apply strms_search_In in Fx. destruct Fx as [Hx Ex].
      apply (close_all_notin _ done c1 ND1 x Hx). rewrite Ex. exact I1.
    + rewrite (cl_highestID _ _ _ CL). exact S3.
    + destruct S4 as (frames & (blk & Q) & R). exists frames. split; [|exact R]. exists blk.
      destruct (out_quiet_noframe _ _ _ (cl_out _ _ _ CL)) as (new & E & Fn). rewrite E, rf_app, (rf_noframe _ _ Fn). exact Q.
Qed.

(* ---------- afterFrame on the tracked stream ---------- *)

Lemma handle_state_open fr s : sf_kind fr <> KRst -> st_state s <> SClosed -> st_state (handle_state fr s) <> SClosed.
Proof.
  intros K St. unfold handle_state.
  replace (fkind_eqb (sf_kind fr) KRst) with false by (destruct (sf_kind fr); try reflexivity; congruence).
  destruct (st_state s) eqn:E; repeat match goal with |- context [if ?b then _ else _] => destruct b end;
    cbn [st_state set_state]; congruence.
Qed.

Lemma after_frame_own c s sX fr wc sid B frames :
  NoDup (map st_id (sc_strms c)) -> sid <= sc_highestID c ->
  strms_search (sc_strms c) sid = Some s -> phase s = true -> st_bodyStream s = None -> st_pendingEnd s = true ->
  st_pending s <> [] -> Queued sid false frames c -> concat (map snd frames) ++ st_pending s = B -> es_shape frames false ->
  Forall small frames -> st_state s <> SClosed ->
  same_send s sX -> sf_kind fr <> KRst ->
  Track sid B (fst (after_frame cfg c sX fr wc)).
Proof.
  intros ND Hhi F PT BS PE PN Q CB ES FS St SS K.
  destruct (alive_or_abort sid c) as [Ab|[WD SD]].
  { left. eapply AbortS_FrameO; [apply FrameO_NoCredit, after_frame_NoCredit | exact Ab]. }
  pose proof (strms_search_In _ _ _ F) as [Hin Hid].
  destruct SS as (iX & stX & _ & _ & pX & peX & bX & _ & _ & rX & ruX & _).
  unfold after_frame. cbv zeta.
  destruct (handle_state_eff fr sX) as ((I1 & _ & _ & P1 & PE1 & B1 & _) & R1 & Ru1 & _).
  pose proof (handle_state_open fr sX K ltac:(congruence)) as St1.
  set (s1 := handle_state fr sX) in *.
  assert (PT1 : phase s1 = true) by (rewrite <- PT; apply phase_flags; congruence).
  assert (RS1 : st_responded s1 = true) by (unfold phase in PT1; destruct (st_responded s1); [reflexivity | discriminate]).
  assert (C1 : sstate_eqb (st_state s1) SHalfClosed && st_headersFinished s1 && negb (st_responded s1) = false).
  { rewrite RS1. cbn [negb]. apply Bool.andb_false_r. }
  assert (C2 : st_responded s1 && negb (st_handlerRunning s1) && has_more_to_send s1 = true).
  { fold (phase s1). rewrite PT1. cbn [andb]. apply has_more_pending. congruence. }
  rewrite C1, C2.
  destruct (send_live _ c s1 sid B frames ltac:(congruence) ltac:(congruence) ltac:(congruence) ltac:(congruence) WD SD Q ltac:(congruence) ES FS)
    as (frames' & Q' & FS' & I2 & St2 & R2 & Ru2 & BS2 & PE2 & T2 & SD2 & WD2 & CL2 & X).
  destruct (send_data_stream _ c s1) as (_ & _ & _ & _ & _ & A6 & _).
  cbv zeta in *. destruct (send_data c s1) as [[c1 s2] fin]. cbn [fst snd] in *.
  destruct fin.
  - destruct X as (CB' & ES' & P2). cbn [st_state set_state sstate_eqb sstate_rank N.eqb Pos.eqb].
    set (s3 := set_state s2 SClosed). set (c3 := close_stream (put c1 s3) s3).
    assert (G : Complete sid B c3).
    { split; [|split].
      - subst c3. rewrite sc_strms_close_stream. unfold put. sc_cbn. rewrite T2.
        replace (st_id s3) with sid by (subst s3; cbn [st_id set_state]; congruence).
        replace sid with (st_id s3) at 1 by (subst s3; cbn [st_id set_state]; congruence).
        replace (strms_del (strms_put (sc_strms c) s3) sid) with (strms_del (strms_put (sc_strms c) s3) (st_id s3))
          by (subst s3; cbn [st_id set_state]; congruence).
        replace (strms_search (strms_del (strms_put (sc_strms c) s3) (st_id s3)) sid)
          with (strms_search (strms_del (strms_put (sc_strms c) s3) (st_id s3)) (st_id s3))
          by (subst s3; cbn [st_id set_state]; congruence).
        apply search_del_same. rewrite strms_put_ids. exact ND.
      - subst c3. rewrite sc_highestID_close_stream. unfold put. sc_cbn. rewrite A6. exact Hhi.
      - eapply (sent_of_live sid B frames' _ s); try eassumption; [eauto|].
        destruct Q' as (blk & Q'). exists blk. subst c3.
        destruct (out_quiet_noframe _ _ _ (close_stream_out _ (put c1 s3) s3)) as (new & E & Fn).
        rewrite E, rf_app, (rf_noframe _ _ Fn). exact Q'. }
    match goal with |- context [if ?b then brk c3 else cont c3] => destruct b end; cbn [fst cont]; [|right; right; exact G].
    left. left. reflexivity.
  - destruct X as (PN' & CB' & ES').
    assert (NC : sstate_eqb (st_state s2) SClosed = false).
    { rewrite St2. destruct (st_state s1); try reflexivity. congruence. }
    rewrite NC.
    assert (G : Live sid B (put c1 s2)).
    { eapply (live_put c s sid B c1 s2 frames'); try eassumption; congruence. }
    match goal with |- context [if ?b then brk ?x else cont ?x] => destruct b end; cbn [fst cont]; [|right; left; exact G].
    left. left. reflexivity.
Qed.

End TrackB.
