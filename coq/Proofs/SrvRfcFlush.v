(* Proofs/SrvRfcFlush.v - C08: flushStreams and the request timer: several streams send in one
   step; those that finish are first noted, then closed one after the other. *)
From H2V Require Import Base.Bytes Base.MachineInt Base.Result Gen.GenConsts Impl.ServerConn.
From H2V Require Import Proofs.SrvBase Proofs.SrvRfcDefs Proofs.SrvRfcSpec Proofs.SrvRfcModel Proofs.SrvRfcSim Proofs.SrvRfcEff
  Proofs.SrvRfcSend Proofs.SrvRfcStep Proofs.SrvRfcKit Proofs.SrvRfcRl Proofs.SrvRfcSl Proofs.SrvRfcKnown Proofs.SrvRfcBatch.
From Coq Require Import ZArith Lia ZifyN ZifyNat ZifyBool.
Local Open Scope N_scope.

Definition fin_sent (w : bool) (id : N) : RS.sent := if w then RS.SentRst id else RS.SentEndStream id.

Lemma sents_on_app id ds d : sents_on id (ds ++ d) = sents_on id d ++ sents_on id ds.
Proof. unfold sents_on. rewrite filter_app, rev_app_distr, flat_map_app, filter_app. reflexivity. Qed.

Section Flush.
Variable hstate : Type.
Notation sconn := (sconn hstate).
Notation tbl := (tbl hstate).
Notation AuxT := (AuxT hstate).
Notation batch := (batch hstate).
Implicit Types c : sconn.

(* where one stream id stands in the middle of such a step.  P: finished, not closed yet; D: closed *)
Definition gcase c c' (d : list outev) (D P : list (N * bool)) (id : N) : Prop :=
  match tbl c id with
  | None => tbl c' id = None /\ (ring_find c' id = ring_find c id \/ ring_find c' id = None) /\ sents_on id d = []
  | Some st =>
    (exists st', tbl c' id = Some st' /\ st_state st' = st_state st /\ st_headersFinished st' = st_headersFinished st /\
                 strm_ok st' /\ sents_on id d = [] /\ ring_find c' id = None /\ ~ In id (map fst P) /\ ~ In id (map fst D)) \/
    (exists st' w, tbl c' id = Some st' /\ In (id, w) P /\ ~ In id (map fst D) /\ st_state st = SHalfClosed /\ st_headersFinished st = true /\
                   st_weReset st' = w /\ st_headersFinished st' = true /\ st_handlerRunning st' = false /\
                   sents_on id d = [fin_sent w id] /\ ring_find c' id = None) \/
    (exists w, tbl c' id = None /\ In (id, w) D /\ st_state st = SHalfClosed /\ st_headersFinished st = true /\
               (ring_find c' id = Some w \/ ring_find c' id = None) /\ sents_on id d = [fin_sent w id])
  end.

Record gbatch c c' (d : list outev) (D P : list (N * bool)) : Prop := {
  GB_rl : sc_rl_done c' = sc_rl_done c;
  GB_wl : sc_wl_dead c' = sc_wl_dead c;
  GB_sl : sc_sl_done c' = false;
  GB_q : sc_readerQ c' = sc_readerQ c;
  GB_last : sc_lastID c' = sc_lastID c;
  GB_high : sc_highestID c' = sc_highestID c;
  GB_cl : sc_closing c' = sc_closing c;
  GB_ec : sc_expectCont c' = sc_expectCont c;
  GB_di : sc_discardID c' = sc_discardID c;
  GB_out : sc_out c' = d ++ sc_out c;
  GB_ng : forall o, In o d -> is_goaway o = None;
  GB_ne : existsb is_exit d = false;
  GB_nd : forall sid rq, ~ In (ODispatch sid rq) d;
  GB_nodup : NoDup (map st_id (sc_strms c'));
  GB_ring : ring_ok hstate c';
  GB_P : NoDup (map fst P);
  GB_Pin : forall i w, In (i, w) P -> exists st', tbl c' i = Some st';
  GB_case : forall id, gcase c c' d D P id
}.

Lemma gbatch_refl c : AuxT c -> sc_sl_done c = false -> gbatch c c [] [] [].
Proof.
  intros AT Hsl. constructor; try reflexivity; try exact Hsl;
    match goal with
    | |- forall o, In o [] -> _ => intros o []
    | |- forall sid rq, ~ In _ [] => intros sid rq []
    | |- NoDup (map st_id _) => apply (A_nodup _ _ AT)
    | |- ring_ok _ _ => apply (A_ring _ _ AT)
    | |- NoDup (map fst []) => constructor
    | |- forall i w, In (i, w) [] -> _ => intros i w []
    | |- _ => idtac
    end.
  intro id. unfold gcase. destruct (tbl c id) as [st|] eqn:T.
  + left. exists st. pose proof (search_In _ _ _ T) as HIn. pose proof (search_id _ _ _ T) as Hid.
      split; [reflexivity|]. split; [reflexivity|]. split; [reflexivity|]. split; [apply (AuxT_strm_ok hstate c st AT HIn)|].
      split; [reflexivity|]. split; [|split; intros []].
      pose proof (A_tr _ _ AT st HIn) as X. rewrite Hid, in_ring_find in X. destruct (ring_find c id); [discriminate | reflexivity].
  + auto.
Qed.

(* no stream is left between "finished" and "closed": the description of Proofs/SrvRfcBatch.v *)
Lemma gbatch_batch c c' d D : AuxT c -> gbatch c c' d D [] -> batch c c' d D.
Proof.
  intros AT [Brl Bwl Bsl Bq Bl Bh Bcl Bec Bdi Bout Bng Bne Bnd Bnodup Bring BP BPin Bcase].
  assert (TbIn' : forall st', In st' (sc_strms c') -> tbl c' (st_id st') = Some st') by (intros st' H; apply In_search; assumption).
  constructor; try assumption.
  - intros st' H. pose proof (TbIn' st' H) as T'. pose proof (Bcase (st_id st')) as G. unfold gcase in G.
    destruct (tbl c (st_id st')) as [st|] eqn:T.
    + destruct G as [(s1 & T1 & A & B & C & E & F & _)|[(s1 & w & _ & [] & _)|(w & T1 & _)]]; [|congruence].
      assert (s1 = st') by congruence. subst s1. exists st. pose proof (search_In _ _ _ T) as HIn. pose proof (search_id _ _ _ T) as Hid.
      split; [exact HIn|]. split; [symmetry; exact Hid|]. split; [exact A|]. split; [exact B|]. split; [exact C|].
      split; [rewrite Hid; exact E|]. rewrite in_ring_find, F. reflexivity.
    + destruct G as (T1 & _). congruence.
  - intros id st T T'. pose proof (Bcase id) as G. unfold gcase in G. rewrite T in G.
    destruct G as [(s1 & T1 & _)|[(s1 & w & _ & [] & _)|(w & _ & Hin & A & B & C & E)]]; [congruence|].
    exists w. auto.
  - intros id T. pose proof (Bcase id) as G. unfold gcase in G. rewrite T in G. exact G.
Qed.

(* one stream sends (sendData); it stays in the table, finished or not *)
Lemma gbatch_send c c1 d D P id st' c2 s2 ds P' :
  gbatch c c1 d D P -> tbl c1 id = Some st' -> ~ In id (map fst P) ->
  sc_strms c2 = strms_put (sc_strms c1) s2 -> sc_ring c2 = sc_ring c1 -> sc_oldest c2 = sc_oldest c1 ->
  sc_rl_done c2 = sc_rl_done c1 -> sc_wl_dead c2 = sc_wl_dead c1 -> sc_sl_done c2 = false -> sc_readerQ c2 = sc_readerQ c1 ->
  sc_lastID c2 = sc_lastID c1 -> sc_highestID c2 = sc_highestID c1 -> sc_closing c2 = sc_closing c1 ->
  sc_expectCont c2 = sc_expectCont c1 -> sc_discardID c2 = sc_discardID c1 -> sc_out c2 = ds ++ sc_out c1 ->
  st_id s2 = id -> st_state s2 = st_state st' -> st_headersFinished s2 = st_headersFinished st' ->
  (forall o, In o ds -> is_goaway o = None) -> existsb is_exit ds = false -> (forall sid rq, ~ In (ODispatch sid rq) ds) ->
  ((filter noisy ds = [] /\ strm_ok s2 /\ P' = P) \/
   (exists o w, filter noisy ds = [o] /\ sent_of o = [fin_sent w id] /\ st_weReset s2 = w /\ st_state st' = SHalfClosed /\
                st_headersFinished st' = true /\ st_handlerRunning s2 = false /\ P' = (id, w) :: P)) ->
  gbatch c c2 (ds ++ d) D P'.
Proof.
  intros [Brl Bwl Bsl Bq Bl Bh Bcl Bec Bdi Bout Bng Bne Bnd Bnodup Bring BP BPin Bcase] T1 NP A1 A2 A3 A4 A5 A6 A7 A8 A9 A10 A11 A12 A13 Hid Hst Hfin Hng Hne Hnd Hout.
  pose proof (search_id _ _ _ T1) as Hid'.
  assert (TbS : tbl c2 id = Some s2).
  { unfold SrvRfcDefs.tbl in *. rewrite A1, <- Hid. eapply search_put_same. rewrite Hid. exact T1. }
  assert (TbO : forall i, i <> id -> tbl c2 i = tbl c1 i).
  { intros i Hn. unfold SrvRfcDefs.tbl. rewrite A1. apply search_put_other. rewrite Hid. exact Hn. }
  assert (Rf : forall i, ring_find c2 i = ring_find c1 i) by (intro i; apply ring_find_ext, A2).
  assert (SO : forall i, i <> id -> sents_on i ds = []).
  { intros i Hn. destruct Hout as [(Q & _)|(o & w & Q & So & _)]; [apply sents_on_quiet, Q|].
    rewrite (sents_on_one i ds o _ Q So). unfold on_id, fin_sent. destruct w; cbn [sent_sid];
      replace (id =? i) with false by (symmetry; apply N.eqb_neq; congruence); reflexivity. }
  assert (PP : forall i, i <> id -> (In i (map fst P') <-> In i (map fst P))).
  { intros i Hn. destruct Hout as [(_ & _ & ->)|(o & w & _ & _ & _ & _ & _ & _ & ->)]; [tauto|]. cbn [map fst In]. split; [intros [X|X]; [congruence | exact X] | auto]. }
  constructor; try congruence.
  - rewrite A13, Bout, app_assoc. reflexivity.
  - intros o H. apply in_app_or in H. destruct H as [H|H]; [apply Hng, H | apply Bng, H].
  - rewrite existsb_app, Hne, Bne. reflexivity.
  - intros sid rq H. apply in_app_or in H. destruct H as [H|H]; [exact (Hnd sid rq H) | exact (Bnd sid rq H)].
  - rewrite A1. apply put_nodup, Bnodup.
  - eapply ring_ok_ext; [exact A2 | exact A3 | exact Bring].
  - destruct Hout as [(_ & _ & ->)|(o & w & _ & _ & _ & _ & _ & _ & ->)]; [exact BP|]. cbn [map fst]. constructor; assumption.
  - intros i w0 Hin. destruct (N.eq_dec i id) as [->|Hn]; [eauto|]. rewrite (TbO i Hn). apply (BPin i w0).
    destruct Hout as [(_ & _ & ->)|(o & w & _ & _ & _ & _ & _ & _ & ->)]; [exact Hin|]. destruct Hin as [E|E]; [inversion E; congruence | exact E].
  - intro i. pose proof (Bcase i) as G. unfold gcase in *. rewrite sents_on_app.
    destruct (N.eq_dec i id) as [->|Hn].
    + (* the stream that sent *)
      destruct (tbl c id) as [st|] eqn:T; [|destruct G as (X & _); congruence].
      destruct G as [(s1 & T1' & B1 & B2 & B3 & B4 & B5 & B6 & B7)|[(s1 & w & _ & Hin & _)|(w & X & _)]];
        [ | exfalso; apply NP; apply in_map_iff; exists (id, w); auto | congruence].
      assert (s1 = st') by congruence. subst s1. rewrite B4. cbn [app].
      destruct Hout as [(Q & Ok2 & ->)|(o & w & Q & So & Wr & Hhc & Hf & Hrun & ->)].
      * left. exists s2. rewrite Rf, (sents_on_quiet _ _ Q).
        split; [exact TbS|]. split; [rewrite Hst; exact B1|]. split; [rewrite Hfin; exact B2|]. split; [exact Ok2|].
        split; [reflexivity|]. split; [exact B5|]. split; [exact B6 | exact B7].
      * right. left. exists s2, w. rewrite Rf, (sents_on_one _ ds o _ Q So). unfold on_id at 1, fin_sent at 1.
        replace (match sent_sid (if w then RS.SentRst id else RS.SentEndStream id) with Some j => j =? id | None => false end) with true
          by (destruct w; cbn; rewrite N.eqb_refl; reflexivity).
        split; [exact TbS|]. split; [left; reflexivity|]. split; [exact B7|]. split; [rewrite <- B1; exact Hhc|]. split; [rewrite <- B2; exact Hf|].
        split; [exact Wr|]. split; [rewrite Hfin; exact Hf|]. split; [exact Hrun|]. split; [reflexivity | exact B5].
    + (* every other stream *)
      rewrite (TbO i Hn), Rf, (SO i Hn), app_nil_r.
      destruct (tbl c i) as [st|]; [|exact G].
      destruct G as [(s1 & X1 & X2 & X3 & X4 & X5 & X6 & X7 & X8)|[(s1 & w & X1 & X2 & X3)|G]].
      * left. exists s1. split; [exact X1|]. split; [exact X2|]. split; [exact X3|]. split; [exact X4|]. split; [exact X5|].
        split; [exact X6|]. split; [rewrite (PP i Hn); exact X7 | exact X8].
      * right. left. exists s1, w. split; [exact X1|]. split; [|exact X3].
        destruct Hout as [(_ & _ & ->)|(o & w0 & _ & _ & _ & _ & _ & _ & ->)]; [exact X2 | right; exact X2].
      * right. right. exact G.
Qed.

Definition drop_id (id : N) (P : list (N * bool)) : list (N * bool) := filter (fun p => negb (fst p =? id)) P.

Lemma drop_id_In id P i : In i (map fst (drop_id id P)) <-> In i (map fst P) /\ i <> id.
Proof.
  unfold drop_id. induction P as [|[j w] P IH]; cbn [filter map fst In]; [tauto|].
  destruct (j =? id) eqn:E; cbn [negb map fst In]; rewrite IH; split; intros H.
  - destruct H as [H1 H2]. split; [right; exact H1 | exact H2].
  - destruct H as [[H|H] H2]; [subst; apply N.eqb_eq in E; congruence | auto].
  - destruct H as [H|[H1 H2]]; [subst; split; [left; reflexivity | apply N.eqb_neq in E; exact E] | split; [right; exact H1 | exact H2]].
  - destruct H as [[H|H] H2]; [left; exact H | right; auto].
Qed.

Lemma drop_id_In2 id P i w : In (i, w) (drop_id id P) <-> In (i, w) P /\ i <> id.
Proof.
  unfold drop_id. rewrite filter_In. cbn [fst]. split; intros [H1 H2]; split; auto.
  - apply negb_true_iff, N.eqb_neq in H2. exact H2.
  - apply negb_true_iff, N.eqb_neq. exact H2.
Qed.

Lemma drop_id_nodup id P : NoDup (map fst P) -> NoDup (map fst (drop_id id P)).
Proof.
  unfold drop_id. induction P as [|[j w] P IH]; cbn [filter map fst]; [auto|]. intro H. inversion H; subst.
  destruct (j =? id); cbn [negb map fst]; [apply IH; assumption|]. constructor; [|apply IH; assumption].
  intro X. apply (drop_id_In id P j) in X. tauto.
Qed.

(* a stream that has finished is closed *)
Lemma gbatch_close c c1 d D P id w st' :
  gbatch c c1 d D P -> In (id, w) P -> tbl c1 id = Some st' ->
  gbatch c (close_stream c1 (set_state st' SClosed))
         ((if st_handlerRunning st' then [] else [ORelease (st_id st') true]) ++ d) ((id, w) :: D) (drop_id id P).
Proof.
  intros [Brl Bwl Bsl Bq Bl Bh Bcl Bec Bdi Bout Bng Bne Bnd Bnodup Bring BP BPin Bcase] HinP T1.
  pose proof (search_id _ _ _ T1) as Hid.
  set (sC := set_state st' SClosed). set (c2 := close_stream c1 sC).
  (* what is known of the stream *)
  pose proof (Bcase id) as G0. unfold gcase in G0.
  destruct (tbl c id) as [st|] eqn:T; [|destruct G0 as (X & _); congruence].
  assert (PD : exists w0, In (id, w0) P /\ ~ In id (map fst D) /\ st_state st = SHalfClosed /\ st_headersFinished st = true /\ st_weReset st' = w0 /\
                          st_headersFinished st' = true /\ st_handlerRunning st' = false /\ sents_on id d = [fin_sent w0 id] /\ ring_find c1 id = None).
  { destruct G0 as [(s1 & _ & _ & _ & _ & _ & _ & NP & _)|[(s1 & w0 & X1 & X2 & X3)|(w0 & X & _)]]; [|exists w0|congruence].
    - exfalso. apply NP. apply in_map_iff. exists (id, w). auto.
    - assert (s1 = st') by congruence. subst s1. tauto. }
  destruct PD as (w0 & HinP0 & ND0 & Hhc & Hfin & Wr & Fin' & Run' & So & Rn).
  assert (Ew : w0 = w).
  { clear -BP HinP HinP0. induction P as [|[j x] P IH]; [destruct HinP|]. cbn [map fst] in BP. inversion BP; subst.
    destruct HinP as [H|H], HinP0 as [H0|H0]; try congruence.
    - inversion H; subst. exfalso. apply H1. apply in_map_iff. exists (id, w0). auto.
    - inversion H0; subst. exfalso. apply H1. apply in_map_iff. exists (id, w). auto.
    - apply IH; assumption. }
  rewrite Ew in *. clear Ew HinP0.
  assert (S2 : sc_strms c2 = strms_del (sc_strms c1) id) by (unfold c2; rewrite sc_strms_close_stream; cbn; rewrite Hid; reflexivity).
  assert (TbS : tbl c2 id = None) by (unfold SrvRfcDefs.tbl; rewrite S2; apply search_del_same, Bnodup).
  assert (TbO : forall i, i <> id -> tbl c2 i = tbl c1 i) by (intros i Hn; unfold SrvRfcDefs.tbl; rewrite S2; apply search_del_other, Hn).
  assert (Rf : forall i, ring_find c2 i = ring_find (mark_closed c1 id w) i).
  { intro i. apply ring_find_ext. unfold c2. rewrite sc_ring_close_stream. cbn. rewrite Hid, Wr. reflexivity. }
  assert (Run : st_handlerRunning sC = false) by exact Run'.
  rewrite Run'. 
  assert (O2 : sc_out c2 = [ORelease (st_id st') true] ++ sc_out c1) by (unfold c2; rewrite sc_out_close_stream, Run; reflexivity).
  constructor.
  - unfold c2. sc_rw. exact Brl.
  - unfold c2. sc_rw. exact Bwl.
  - unfold c2. sc_rw. exact Bsl.
  - unfold c2. sc_rw. exact Bq.
  - unfold c2. sc_rw. exact Bl.
  - unfold c2. sc_rw. exact Bh.
  - unfold c2. sc_rw. exact Bcl.
  - unfold c2. sc_rw. exact Bec.
  - unfold c2. rewrite sc_discardID_close_stream. cbn. rewrite Fin'. cbn [negb andb]. rewrite andb_false_r. exact Bdi.
  - rewrite O2, Bout, app_assoc. reflexivity.
  - intros o [<-|H]; [reflexivity | apply Bng, H].
  - cbn [app existsb is_exit strip_late orb]. exact Bne.
  - intros sid rq [H|H]; [discriminate | exact (Bnd sid rq H)].
  - rewrite S2. apply del_nodup, Bnodup.
  - unfold c2. eapply ring_ok_ext; [rewrite sc_ring_close_stream; reflexivity | rewrite sc_oldest_close_stream; reflexivity | apply ring_ok_mark, Bring].
  - apply drop_id_nodup, BP.
  - intros i w9 Hin. apply drop_id_In2 in Hin. destruct Hin as [Hin Hn]. rewrite (TbO i Hn). apply (BPin i w9 Hin).
  - intro i. pose proof (Bcase i) as G. unfold gcase in *. rewrite sents_on_app.
    assert (SR : forall j, sents_on j [ORelease (st_id st') true] = []) by (intro j; reflexivity). rewrite SR, app_nil_r.
    destruct (N.eq_dec i id) as [->|Hn].
    + rewrite T. right. right. exists w. split; [exact TbS|]. split; [left; reflexivity|]. split; [exact Hhc|]. split; [exact Hfin|].
      split; [left; rewrite Rf, ring_find_mark_same by exact Bring; rewrite Rn; reflexivity | exact So].
    + rewrite (TbO i Hn), Rf.
      pose proof (ring_find_mark_other hstate c1 id w i Bring Hn) as RM.
      destruct (tbl c i) as [st0|].
      * destruct G as [(s1 & X1 & X2 & X3 & X4 & X5 & X6 & X7 & X8)|[(s1 & w1 & X1 & X2 & X3 & X4 & X5 & X6 & X7 & X8 & X9 & X10)|(w1 & X1 & X2 & X3 & X4 & X5 & X6)]].
        -- left. exists s1. split; [exact X1|]. split; [exact X2|]. split; [exact X3|]. split; [exact X4|]. split; [exact X5|].
           split; [destruct RM as [E|E]; rewrite E; [exact X6 | reflexivity]|].
           split; [rewrite drop_id_In; tauto | cbn [map fst In]; intros [E|E]; [congruence | exact (X8 E)]].
        -- right. left. exists s1, w1. split; [exact X1|]. split; [apply drop_id_In2; auto|].
           split; [cbn [map fst In]; intros [E|E]; [congruence | exact (X3 E)]|]. repeat (split; [assumption|]).
           destruct RM as [E|E]; rewrite E; [exact X10 | reflexivity].
        -- right. right. exists w1. split; [exact X1|]. split; [right; exact X2|]. split; [exact X3|]. split; [exact X4|].
           split; [|exact X6]. destruct RM as [E|E]; rewrite E; [exact X5 | right; reflexivity].
      * destruct G as (X1 & X2 & X3). split; [exact X1|]. split; [|exact X3].
        destruct RM as [E|E]; rewrite E; [exact X2 | right; reflexivity].
Qed.

(* ---------- flushStreams ---------- *)

Lemma flush_loop_gbatch c : sc_wl_dead c = false -> forall ids c1 done d P,
  gbatch c c1 d [] P -> NoDup ids -> (forall i, In i ids -> ~ In i (map fst P)) -> (forall i, In i done <-> In i (map fst P)) ->
  exists d' P', gbatch c (fst (flush_loop c1 ids done)) d' [] P' /\
                (forall i, In i (snd (flush_loop c1 ids done)) <-> In i (map fst P')).
Proof.
  intro Hwl. induction ids as [|id t IH]; intros c1 done d P GB ND NP DP; cbn [flush_loop fst snd]; [exists d, P; auto|].
  inversion ND as [|? ? NI ND']; subst.
  assert (NPt : forall i, In i t -> ~ In i (map fst P)) by (intros i H; apply NP; right; exact H).
  destruct (strms_search (sc_strms c1) id) as [st'|] eqn:T1; [|apply (IH c1 done d P GB ND' NPt DP)].
  destruct (st_responded st' && negb (st_handlerRunning st') && has_more_to_send st')%bool eqn:C; [|apply (IH c1 done d P GB ND' NPt DP)].
  apply andb_true_iff in C. destruct C as [C Cm]. apply andb_true_iff in C. destruct C as [Cr Ch]. apply negb_true_iff in Ch.
  (* the stream is one of the table, untouched so far *)
  pose proof (GB_case _ _ _ _ _ GB id) as G0. unfold gcase in G0. fold (tbl c1 id) in T1.
  destruct (tbl c id) as [st|] eqn:T; [|destruct G0 as (X & _); congruence].
  assert (KP : st_state st' = st_state st /\ st_headersFinished st' = st_headersFinished st /\ strm_ok st').
  { destruct G0 as [(s1 & X1 & X2 & X3 & X4 & _)|[(s1 & w & _ & Hin & _)|(w & X & _)]]; [|exfalso|congruence].
    - assert (s1 = st') by congruence. subst s1. auto.
    - apply (NP id (or_introl eq_refl)). apply in_map_iff. exists (id, w). auto. }
  destruct KP as (_ & _ & Ok). destruct Ok as (Os & Ow & Or & Oo & Osend).
  destruct (Or (or_introl Cr)) as [Hhc Hfin].
  pose proof (search_id _ _ _ T1) as Hid.
  assert (W1 : wr hstate c1) by (split; [apply (GB_sl _ _ _ _ _ GB) | rewrite (GB_wl _ _ _ _ _ GB); exact Hwl]).
  destruct (send_data c1 st') as [[c2 s2] fin] eqn:SD.
  destruct (send_data_spec hstate c1 st' c2 s2 fin W1 Cm Osend SD) as (ds & SDd & FD & Sid & Sst & Sfin & Sresp & Srun & Sorig & Sout).
  destruct (data_or_rst_facts ds FD) as (Dnd & Dng & Dne).
  set (P' := if fin then (id, st_weReset s2) :: P else P).
  assert (GB' : gbatch c (put c2 s2) (ds ++ d) [] P').
  { apply (gbatch_send c c1 d [] P id st' (put c2 s2) s2 ds P' GB T1 (NP id (or_introl eq_refl)));
      try (unfold sd in SDd; rewrite SDd; sc_rw; sc_cbn; reflexivity); try assumption.
    - unfold sd in SDd. rewrite SDd. sc_rw. sc_cbn. apply (GB_sl _ _ _ _ _ GB).
    - rewrite Sid. exact Hid.
    - unfold P'. destruct fin.
      + right. rewrite Hid in Sout. destruct Sout as [(ch & Fn & Wr)|(Fn & Wr)].
        * exists (OData id true ch), false. split; [exact Fn|]. split; [reflexivity|]. split; [rewrite Wr; exact Ow|].
          split; [exact Hhc|]. split; [exact Hfin|]. split; [rewrite Srun; exact Ch|]. rewrite Wr, Ow. reflexivity.
        * exists (ORst id c_InternalError), true. split; [exact Fn|]. split; [reflexivity|]. split; [exact Wr|].
          split; [exact Hhc|]. split; [exact Hfin|]. split; [rewrite Srun; exact Ch|]. rewrite Wr. reflexivity.
      + left. destruct Sout as (Fn & Wr & Sok). split; [exact Fn|]. split; [|reflexivity].
        unfold strm_ok. rewrite Sst, Wr, Sresp, Srun, Sfin. repeat split; auto. }
  destruct fin.
  - apply (IH (put c2 s2) (done ++ [id]) (ds ++ d) P' GB' ND').
    + intros i H. unfold P'. cbn [map fst In]. intros [X|X]; [subst; contradiction | exact (NPt i H X)].
    + intro i. unfold P'. cbn [map fst In]. rewrite in_app_iff, DP. cbn [In]. tauto.
  - apply (IH (put c2 s2) done (ds ++ d) P' GB' ND'); [exact NPt | exact DP].
Qed.

Lemma close_all_gbatch c : forall ids c1 d D P,
  gbatch c c1 d D P -> (forall i, In i ids -> In i (map fst P) \/ In i (map fst D)) ->
  exists d' D' P', gbatch c (close_all c1 ids) d' D' P' /\ (forall i, In i (map fst P') <-> In i (map fst P) /\ ~ In i ids).
Proof.
  induction ids as [|id t IH]; intros c1 d D P GB H; cbn [close_all].
  { exists d, D, P. split; [exact GB|]. intro i. cbn [In]. tauto. }
  pose proof (GB_case _ _ _ _ _ GB id) as G0. unfold gcase in G0.
  destruct (strms_search (sc_strms c1) id) as [st'|] eqn:T1; fold (tbl c1 id) in T1.
  - (* still in the table: it is one of the finished ones *)
    assert (HP : exists w, In (id, w) P).
    { destruct (tbl c id) as [st|]; [|destruct G0 as (X & _); congruence].
      destruct G0 as [(s1 & _ & _ & _ & _ & _ & _ & NP & NDd)|[(s1 & w & _ & Hin & _)|(w & X & _)]]; [|eauto|congruence].
      exfalso. destruct (H id (or_introl eq_refl)); contradiction. }
    destruct HP as [w HinP].
    pose proof (gbatch_close c c1 d D P id w st' GB HinP T1) as GB'.
    destruct (IH _ _ _ _ GB') as (d' & D' & P' & GB'' & HP').
    + intros i Hi. destruct (N.eq_dec i id) as [->|Hn]; [right; left; reflexivity|].
      destruct (H i (or_intror Hi)) as [X|X]; [left; apply drop_id_In; auto | right; right; exact X].
    + exists d', D', P'. split; [exact GB''|]. intro i. rewrite HP', drop_id_In. cbn [In]. split; [intros [[A B] C]; split; [exact A | intros [X|X]; [congruence | exact (C X)]] | intros [A B]; split; [split; [exact A | intro X; apply B; left; congruence] | intro X; apply B; right; exact X]].
  - (* already gone *)
    assert (NP : ~ In id (map fst P)).
    { intro X. apply in_map_iff in X. destruct X as ([i w] & E & Hin). cbn in E. subst i.
      destruct (GB_Pin _ _ _ _ _ GB id w Hin) as [s9 Y]. congruence. }
    destruct (IH c1 d D P GB) as (d' & D' & P' & GB'' & HP'); [intros i Hi; apply H; right; exact Hi|].
    exists d', D', P'. split; [exact GB''|]. intro i. rewrite HP'. cbn [In]. split; [intros [A B]; split; [exact A | intros [X|X]; [congruence | exact (B X)]] | intros [A B]; split; [exact A | intro X; apply B; right; exact X]].
Qed.

(* the description of Proofs/SrvRfcBatch.v, the other way round, when nothing was closed *)
Lemma batch_gbatch c c' d : AuxT c -> batch c c' d [] -> sc_sl_done c' = false -> sc_out c' = d ++ sc_out c ->
  (forall sid rq, ~ In (ODispatch sid rq) d) -> gbatch c c' d [] [].
Proof.
  intros AT [Brl Bwl Bq Blast Bhigh Bcl Bec Bdi Bng Bne Bnd Bring Bkeep Bclosed Bother] Hsl Ho Hnd.
  constructor; try assumption; [constructor | intros i w [] |].
  intro id. unfold gcase. destruct (tbl c id) as [st|] eqn:T; [|apply Bother, T].
  destruct (tbl c' id) as [st'|] eqn:T'.
  - left. exists st'. pose proof (search_In _ _ _ T') as HIn'. pose proof (search_id _ _ _ T') as Hid'.
    destruct (Bkeep st' HIn') as (st0 & Hin0 & Hid0 & Hst & Hfin & Ok & Hs & Hr).
    assert (T0 : tbl c (st_id st0) = Some st0) by (apply In_search; [apply (A_nodup _ _ AT) | exact Hin0]).
    assert (st0 = st) by (rewrite <- Hid0, Hid' in T0; congruence). subst st0.
    split; [reflexivity|]. split; [exact Hst|]. split; [exact Hfin|]. split; [exact Ok|].
    split; [rewrite <- Hid0, Hid' in Hs; exact Hs|]. split; [|split; intros []].
    rewrite Hid', in_ring_find in Hr. destruct (ring_find c' id); [discriminate | reflexivity].
  - destruct (Bclosed id st T T') as (w & [] & _).
Qed.

Lemma flush_streams_gbatch c cX dX : sc_wl_dead c = false -> gbatch c cX dX [] [] ->
  exists d D, gbatch c (flush_streams cX) d D [].
Proof.
  intros Hwl GB. unfold flush_streams.
  destruct (flush_loop_gbatch c Hwl (map st_id (sc_strms cX)) cX [] dX [] GB (GB_nodup _ _ _ _ _ GB)) as (d' & P' & GB' & HP').
  - intros i _ [].
  - intro i. tauto.
  - destruct (flush_loop cX (map st_id (sc_strms cX)) []) as [c1 done]. cbn [fst snd] in *.
    destruct (close_all_gbatch c done c1 d' [] P' GB') as (d'' & D' & P'' & GB'' & HP'').
    + intros i Hi. left. apply HP', Hi.
    + assert (P'' = []).
      { destruct P'' as [|[i w] t]; [reflexivity|]. exfalso.
        destruct (HP'' i) as [X _]. destruct (X (or_introl eq_refl)) as [A B]. apply B, HP', A. }
      subst P''. exists d'', D'. exact GB''.
Qed.

Lemma classify_conn l : (forall o, In o l -> is_goaway o = None) -> existsb is_exit l = false -> classify 0 l = RS.Process.
Proof.
  intros Hg He. unfold classify. rewrite He. cbn [N.eqb].
  assert (X : first_some is_goaway l = None).
  { clear He. induction l as [|o t IH]; [reflexivity|]. cbn [first_some]. rewrite (Hg o (or_introl eq_refl)). apply IH. intros o' H. apply Hg. right. exact H. }
  rewrite X. reflexivity.
Qed.

End Flush.
