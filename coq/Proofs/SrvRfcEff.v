(* Proofs/SrvRfcEff.v - C08: what the helpers of the stream loop do to the components the
   abstraction relation looks at, and which errors they can return. *)
From H2V Require Import Base.Bytes Base.MachineInt Base.Result Gen.GenConsts Impl.ServerConn.
From H2V Require Import Proofs.SrvBase Proofs.SrvRfcDefs Proofs.SrvRfcModel.
From Coq Require Import ZArith Lia ZifyN ZifyNat ZifyBool.
Local Open Scope N_scope.

(* the errors a header block can end in *)
Definition hdr_err (e : h2err) : Prop :=
  match e with
  | EGoAway code => code = c_ProtocolError \/ code = c_EnhanceYourCalm \/ code = c_CompressionError \/ code = c_InternalError
  | EReset code => code = c_ProtocolError \/ code = c_EnhanceYourCalm
  | EPanic => True
  end.

(* discarding: a connection error or nothing *)
Definition disc_err (e : h2err) : Prop :=
  match e with
  | EGoAway code => code = c_EnhanceYourCalm \/ code = c_CompressionError \/ code = c_InternalError
  | EReset _ => False
  | EPanic => True
  end.

Lemma disc_hdr_err e : disc_err e -> hdr_err e.
Proof. destruct e; cbn; tauto. Qed.

(* everything about a stream but its header-decoding part *)
Definition same_ctl (a b : stream) : Prop :=
  st_id b = st_id a /\ st_state b = st_state a /\ st_weReset b = st_weReset a /\ st_responded b = st_responded a /\
  st_handlerRunning b = st_handlerRunning a /\ st_pending b = st_pending a /\ st_pendingEnd b = st_pendingEnd a /\
  st_bodyStream b = st_bodyStream a /\ st_orig b = st_orig a.

Lemma same_ctl_refl a : same_ctl a a. Proof. repeat split. Qed.
Lemma same_ctl_trans a b c : same_ctl a b -> same_ctl b c -> same_ctl a c.
Proof.
  unfold same_ctl. intros (A1 & A2 & A3 & A4 & A5 & A6 & A7 & A8 & A9) (B1 & B2 & B3 & B4 & B5 & B6 & B7 & B8 & B9).
  repeat split; etransitivity; eassumption.
Qed.
Lemma same_ctl_set_hdr s h : same_ctl s (set_hdr s h). Proof. repeat split. Qed.
Lemma same_ctl_set_recv s r q : same_ctl s (set_recv s r q). Proof. repeat split. Qed.
Lemma same_ctl_set_window s w : same_ctl s (set_window s w). Proof. repeat split. Qed.
Lemma same_ctl_set_headers_finished s b : same_ctl s (set_headers_finished s b). Proof. repeat split. Qed.
Lemma same_ctl_has_more a b : same_ctl a b -> has_more_to_send b = has_more_to_send a.
Proof.
  unfold same_ctl, has_more_to_send. intros (A1 & A2 & A3 & A4 & A5 & A6 & A7 & A8 & A9). rewrite A6, A8. reflexivity.
Qed.

Section Eff.
Variable hstate : Type.
Variable dec_field : hstate -> N -> bytes -> dec_res hstate.
Variable cfg : config.
Notation sconn := (sconn hstate).
Implicit Types c : sconn.

(* only the decoder and the discard registers change *)
Definition dd c c' : Prop := exists d id prev n, c' = upd_discard (upd_dec c d) id prev n.

Lemma dd_refl c : dd c c.
Proof. exists (sc_dec c), (sc_discardID c), (sc_discardPrev c), (sc_discardFields c). destruct c; reflexivity. Qed.
Lemma dd_trans a b c : dd a b -> dd b c -> dd a c.
Proof. intros (d1 & i1 & p1 & n1 & ->) (d2 & i2 & p2 & n2 & ->). exists d2, i2, p2, n2. reflexivity. Qed.
Lemma dd_upd_dec c d : dd c (upd_dec c d).
Proof. exists d, (sc_discardID c), (sc_discardPrev c), (sc_discardFields c). destruct c; reflexivity. Qed.
Lemma dd_upd_discard c i p n : dd c (upd_discard c i p n).
Proof. exists (sc_dec c), i, p, n. destruct c; reflexivity. Qed.

(* ---------- discard ---------- *)

Lemma discard_loop_err fuel : forall eh d fields b d' f' carry e,
  discard_loop dec_field fuel eh d fields b = (d', f', carry, Some e) -> disc_err e.
Proof.
  induction fuel as [|fuel IH]; intros eh d fields b d' f' carry e; cbn [discard_loop].
  - intro H. inversion H; subst. cbn. tauto.
  - destruct b as [|b0 b']; [discriminate|].
    destruct (dec_field d fields (b0 :: b')) as [k v rest st|st|st|st|].
    + apply IH.
    + discriminate.
    + destruct (negb eh); [discriminate|]. intro H. inversion H; subst. cbn. tauto.
    + intro H. inversion H; subst. cbn. tauto.
    + intro H. inversion H; subst. exact I.
Qed.

Lemma discard_fragment_spec c id frag eh :
  dd c (fst (discard_fragment dec_field cfg c id frag eh)) /\
  match snd (discard_fragment dec_field cfg c id frag eh) with
  | Some e => disc_err e
  | None => sc_discardID (fst (discard_fragment dec_field cfg c id frag eh)) = if eh then 0 else id
  end.
Proof.
  unfold discard_fragment.
  destruct (discard_loop dec_field _ eh (sc_dec c) (sc_discardFields c) _) as [[[d' fields] carry] e] eqn:DL.
  destruct e as [e|].
  - cbn [fst snd]. split; [eapply dd_trans; [apply dd_upd_dec | apply dd_upd_discard]|].
    eapply discard_loop_err; eassumption.
  - destruct eh; cbn [fst snd].
    + split; [eapply dd_trans; [apply dd_upd_dec | apply dd_upd_discard] | reflexivity].
    + destruct (_ && _)%bool; cbn [fst snd].
      * split; [eapply dd_trans; [apply dd_upd_dec | apply dd_upd_discard] | cbn; tauto].
      * split; [eapply dd_trans; [apply dd_upd_dec | apply dd_upd_discard] | reflexivity].
Qed.

Lemma discard_header_block_spec c fr :
  dd c (fst (discard_header_block dec_field cfg c fr)) /\
  match snd (discard_header_block dec_field cfg c fr) with
  | Some e => disc_err e
  | None => sc_discardID (fst (discard_header_block dec_field cfg c fr)) = if flag_has (sf_flags fr) FL_EH then 0 else sf_sid fr
  end.
Proof.
  unfold discard_header_block.
  match goal with |- context [discard_fragment _ _ ?c0 ?i ?f ?e] => destruct (discard_fragment_spec c0 i f e) as [D E] end.
  split; [|exact E].
  destruct (fkind_eqb (sf_kind fr) KCont); [exact D | eapply dd_trans; [apply dd_upd_discard | exact D]].
Qed.

(* ---------- the header loop ---------- *)

Lemma header_field_spec h k v :
  match header_field cfg h k v with
  | inl e => hdr_err e
  | inr h' => hd_headersFinished h' = hd_headersFinished h /\ hd_prev h' = hd_prev h
  end.
Proof.
  unfold header_field.
  repeat match goal with
         | |- context [if ?b then _ else _] => destruct b
         | |- context [match parse_uint ?v with _ => _ end] => destruct (parse_uint v)
         end; cbn; auto.
Qed.

Lemma header_loop_spec fuel : forall eh d h b d' h' e rest,
  header_loop dec_field fuel cfg eh d h b = (d', h', e, rest) ->
  hd_headersFinished h' = hd_headersFinished h /\ (eh = true -> hd_prev h' = hd_prev h) /\
  match e with Some e => hdr_err e | None => True end.
Proof.
  induction fuel as [|fuel IH]; intros eh d h b d' h' e rest; cbn [header_loop].
  - intro H. inversion H; subst. cbn. tauto.
  - destruct b as [|b0 b']; [intro H; inversion H; subst; tauto|].
    destruct (dec_field d (hd_blockFields h) (b0 :: b')) as [k v rest' st|st|st|st|].
    + pose proof (header_field_spec h k v) as HF. destruct (header_field cfg h k v) as [e0|h0].
      * intro H. inversion H; subst. tauto.
      * intro H. destruct (IH _ _ _ _ _ _ _ _ H) as (A & B & C). destruct HF as [F1 F2].
        split; [congruence|]. split; [intro E; rewrite (B E); exact F2 | exact C].
    + intro H. inversion H; subst. tauto.
    + destruct eh; cbn [negb]; intro H; inversion H; subst; cbn; [tauto|].
      split; [reflexivity|]. split; [discriminate | exact I].
    + intro H. inversion H; subst. cbn. tauto.
    + intro H. inversion H; subst. cbn. tauto.
Qed.

(* handleHeaderFrame: the connection changes by dd only; the stream keeps everything but
   its header part; what is known about headersFinished and the discard register *)
Lemma handle_header_frame_spec c s fr c1 s1 e :
  handle_header_frame dec_field cfg c s fr = (c1, s1, e) ->
  dd c c1 /\ same_ctl s s1 /\
  match e with
  | None => st_headersFinished s1 = false /\ sc_discardID c1 = sc_discardID c /\
            (flag_has (sf_flags fr) FL_EH = true -> st_prev s1 = [])
  | Some (EReset code) => st_headersFinished s1 = false /\ (code = c_ProtocolError \/ code = c_EnhanceYourCalm) /\
            sc_discardID c1 = (if flag_has (sf_flags fr) FL_EH then 0 else st_id s)
  | Some e => hdr_err e
  end.
Proof.
  unfold handle_header_frame.
  destruct (st_headersFinished s && _)%bool.
  { intro H. inversion H; subst. split; [apply dd_refl|]. split; [apply same_ctl_refl|]. cbn. tauto. }
  destruct (fkind_eqb (sf_kind fr) KHeaders && _)%bool.
  { intro H. inversion H; subst. split; [apply dd_refl|]. split; [apply same_ctl_set_headers_finished|]. cbn. tauto. }
  destruct (header_loop dec_field _ cfg _ (sc_dec c) _ _) as [[[d' h2] e0] rest] eqn:HL.
  destruct (header_loop_spec _ _ _ _ _ _ _ _ _ HL) as (F & P & E). cbn [hd_headersFinished hd_prev] in F, P.
  destruct e0 as [[code|code|]|].
  - intro H. inversion H; subst. split; [apply dd_upd_dec|]. split; [apply same_ctl_set_hdr | exact E].
  - match goal with |- context [discard_fragment _ _ ?c0 ?i ?f ?eh] =>
      destruct (discard_fragment_spec c0 i f eh) as [D X]; destruct (discard_fragment dec_field cfg c0 i f eh) as [c3 [de|]] end;
    cbn [fst snd] in *; intro H; inversion H; subst.
    + split; [eapply dd_trans; [apply dd_upd_dec|]; eapply dd_trans; [apply dd_upd_discard | exact D]|].
      split; [apply same_ctl_set_hdr|]. destruct de; try exact (disc_hdr_err _ X). contradiction.
    + split; [eapply dd_trans; [apply dd_upd_dec|]; eapply dd_trans; [apply dd_upd_discard | exact D]|].
      split; [apply same_ctl_set_hdr|]. split; [exact F|]. split; [exact E | exact X].
  - intro H. inversion H; subst. split; [apply dd_upd_dec|]. split; [apply same_ctl_set_hdr | exact I].
  - destruct (_ && _)%bool; intro H; inversion H; subst.
    + split; [apply dd_upd_dec|]. split; [apply same_ctl_set_hdr|]. cbn. tauto.
    + split; [apply dd_upd_dec|]. split; [apply same_ctl_set_hdr|]. split; [exact F|]. split; [reflexivity | exact P].
Qed.

End Eff.
