(* Proofs/SrvInvSteps.v - every step of the model is a sequence of moves: the stream-loop moves of
   Proofs/SrvInvDecomp.v, the read-loop moves and a few others.  `gmvs_step` is the one place where `step`
   is unfolded; invariants are proved by closure under `gmv` (Theorem inv_step / inv_run). *)
From H2V Require Import Base.Bytes Base.MachineInt Base.Result Gen.GenConsts Impl.ServerConn Proofs.SrvBase
  Proofs.SrvInvMoves Proofs.SrvInvDecomp.
From Coq Require Import ZArith Lia ZifyN ZifyNat ZifyBool.
Local Open Scope N_scope.

Section Steps.
Variable hstate : Type.
Variable dec_field : hstate -> N -> bytes -> dec_res hstate.
Variable enc_field : hstate -> bytes -> bytes -> bool -> bytes * hstate.
Variable enc_set_max : hstate -> N -> hstate.
Variable cfg : config.
Variable Q : stream -> Prop.
Notation sconn := (sconn hstate).
Notation mv := (mv hstate dec_field cfg Q).
Notation mvs := (mvs hstate dec_field cfg Q).
Notation step := (step dec_field enc_field enc_set_max cfg).
Implicit Types c : sconn.

(* the moves of the read loop, of the timers and of the environment *)
(* the index is the code the frame parser handed to the read loop with this event, if any *)
Inductive gmv (pc : option N) : sconn -> sconn -> Prop :=
| gmv_sl o a b : mv o a b -> gmv pc a b                                   (* the stream loop *)
| gmv_pop c fr q : sc_sl_done c = false -> sc_readerQ c = fr :: q -> gmv pc c (upd_readerQ c q)
| gmv_slexit c : sc_sl_done c = false -> sc_rl_done c = true -> sc_readerQ c = [] ->
    gmv pc c (note (upd_done c true true) (OExit 1 1))
| gmv_rl_goaway c code : sc_rl_done c = false -> code = c_ProtocolError \/ pc = Some code ->
    gmv pc c (write_goaway c 0 code)    (* the read loop *)
| gmv_rl_exit c why : sc_rl_done c = false -> gmv pc c (rl_exit c why)
| gmv_rl_expect c n : sc_rl_done c = false -> gmv pc c (upd_expectCont c n)
| gmv_rl_fwd c fr : sc_rl_done c = false -> sc_sl_done c = false -> gmv pc c (upd_readerQ c (sc_readerQ c ++ [fr]))
| gmv_rl_emit c o : sc_rl_done c = false -> is_frame o -> gmv pc c (emit c o)
| gmv_idle c : gmv pc c (upd_closer (write_goaway c 0 c_NoError) true)   (* closeIdleConn *)
| gmv_now c t : gmv pc c (upd_now c t)
| gmv_wl_dead c : gmv pc c (upd_wl_dead c true).

Inductive gmvs (pc : option N) : sconn -> sconn -> Prop :=
| gmvs_nil c : gmvs pc c c
| gmvs_cons a b c : gmv pc a b -> gmvs pc b c -> gmvs pc a c.

Definition parser_code (e : event) : option N :=
  match e with EvRL (RBadFrame (Some code)) => Some code | _ => None end.

Lemma gmvs_one pc a b : gmv pc a b -> gmvs pc a b.
Proof. intro H. econstructor; [eassumption | constructor]. Qed.
Lemma gmvs_trans pc a b c : gmvs pc a b -> gmvs pc b c -> gmvs pc a c.
Proof. induction 1; intro H2; [assumption|]. econstructor; [eassumption | auto]. Qed.
Lemma gmvs_mvs pc l a b : mvs l a b -> gmvs pc a b.
Proof. induction 1; [constructor|]. econstructor; [eapply gmv_sl; eassumption | assumption]. Qed.

Lemma gmvs_ind_inv pc (P : sconn -> Prop) : (forall a b, gmv pc a b -> P a -> P b) -> forall a b, gmvs pc a b -> P a -> P b.
Proof. intros H a b M. induction M; eauto. Qed.
Lemma gmvs_ind_rel pc (R : sconn -> sconn -> Prop) :
  (forall a, R a a) -> (forall a b c, R a b -> R b c -> R a c) -> (forall a b, gmv pc a b -> R a b) ->
  forall a b, gmvs pc a b -> R a b.
Proof. intros Hr Ht Hm a b M. induction M; eauto. Qed.

(* ---------- the read loop ---------- *)
Lemma gmvs_forward pc c fr : sc_rl_done c = false -> gmvs pc c (forward c fr).
Proof.
  intro Hr. unfold forward. destruct (sc_sl_done c) eqn:Hd; apply gmvs_one; [apply gmv_rl_exit | apply gmv_rl_fwd]; assumption.
Qed.

Lemma gmvs_goaway_exit pc c code why : sc_rl_done c = false -> code = c_ProtocolError \/ pc = Some code ->
  gmvs pc c (rl_exit (write_goaway c 0 code) why).
Proof.
  intros Hr Hc. eapply gmvs_trans; apply gmvs_one; [apply gmv_rl_goaway | apply gmv_rl_exit]; [assumption | assumption|].
  rewrite sc_rl_done_write_goaway. assumption.
Qed.

Theorem gmvs_rl_step c i : sc_rl_done c = false -> gmvs (parser_code (EvRL i)) c (rl_step cfg c i).
Proof.
  intro Hr. unfold rl_step. destruct i as [fr| |[code|]|].
  - (* a frame *)
    assert (R : forall c1 : sconn, sc_rl_done c1 = false -> gmvs None c1
      (if negb (sf_sid fr =? 0)
       then match check_frame_with_stream fr with
            | Some e => rl_exit (fst (write_error c1 None e)) 1
            | None => forward c1 fr
            end
       else match sf_kind fr with
            | KSettings => if negb (flag_has (sf_flags fr) FL_ES) then forward c1 fr else c1
            | KWinUpd => if sf_inc fr =? 0 then rl_exit (write_goaway c1 0 c_ProtocolError) 1 else forward c1 fr
            | KPing => if negb (flag_has (sf_flags fr) FL_ES) then emit c1 (OPingAck (sf_payload fr)) else c1
            | KGoAway => rl_exit c1 (if sf_code fr =? c_NoError then 0 else 4)
            | _ => rl_exit (write_goaway c1 0 c_ProtocolError) 1
            end)).
    { intros c1 H1. destruct (negb (sf_sid fr =? 0)).
      - destruct (check_frame_with_stream fr) as [e|] eqn:CF; [|apply gmvs_forward; assumption].
        unfold check_frame_with_stream in CF.
        assert (e = EGoAway c_ProtocolError) as ->.
        { destruct (_ =? 0); [congruence|]. destruct (sf_kind fr); congruence. }
        cbn [write_error fst]. apply gmvs_goaway_exit; [assumption | left; reflexivity].
      - destruct (sf_kind fr); try (apply gmvs_goaway_exit; [assumption | left; reflexivity]).
        + destruct (negb _); [apply gmvs_forward; assumption | constructor].
        + destruct (negb _); [|constructor]. apply gmvs_one, gmv_rl_emit; [assumption | exact I].
        + apply gmvs_one, gmv_rl_exit. assumption.
        + destruct (sf_inc fr =? 0); [apply gmvs_goaway_exit; [assumption | left; reflexivity] | apply gmvs_forward; assumption]. }
    destruct (negb (sc_expectCont c =? 0)).
    + destruct (_ || _)%bool; [apply gmvs_goaway_exit; [assumption | left; reflexivity]|].
      destruct (flag_has (sf_flags fr) FL_EH); [|apply R; assumption].
      eapply gmvs_trans; [apply gmvs_one, gmv_rl_expect; assumption | apply R; assumption].
    + destruct (fkind_eqb (sf_kind fr) KCont); [apply gmvs_goaway_exit; [assumption | left; reflexivity]|].
      destruct (_ && _)%bool; [|apply R; assumption].
      eapply gmvs_trans; [apply gmvs_one, gmv_rl_expect; assumption | apply R; assumption].
  - destruct (negb _); [apply gmvs_goaway_exit; [assumption | left; reflexivity] | constructor].
  - apply gmvs_goaway_exit; [assumption | right; reflexivity].
  - apply gmvs_one, gmv_rl_exit; assumption.
  - apply gmvs_one, gmv_rl_exit; assumption.
Qed.

(* ---------- every step ---------- *)
Hypothesis HQ_new : forall id w k t, Q (set_orig_started (new_stream id w) k t).
Hypothesis HQ_closed : forall s, Q s -> Q (set_state s SClosed).
Hypothesis HQ_handle_state : forall fr s, Q s -> Q (handle_state fr s).
Hypothesis HQ_weReset : forall s, Q s -> Q (set_weReset s).
Hypothesis HQ_flags : forall s a b d, Q s -> Q (set_flags s a b d).
Hypothesis HQ_window : forall s w, Q s -> Q (set_window s w).
Hypothesis HQ_snd : forall s n, Q s -> Q (set_snd s n).
Hypothesis HQ_frame : forall c s fr c' s' e, Q s -> handle_frame dec_field cfg c s fr = (c', s', e) ->
  (forall code, e <> Some (EGoAway code)) -> Q s'.

Theorem gmvs_step c e : (sc_sl_done c = false -> ids_ok c) -> gmvs (parser_code e) c (step c e).
Proof.
  intro IO. destruct e as [i| |sid r|t| | | |].
  - rewrite step_EvRL. destruct (sc_rl_done c) eqn:Hr; [constructor | apply gmvs_rl_step; assumption].
  - rewrite step_EvSL. destruct (sc_sl_done c) eqn:Hd; [constructor|].
    destruct (sc_readerQ c) as [|fr q] eqn:RQ.
    + destruct (sc_rl_done c) eqn:Hr; [|constructor]. apply gmvs_one, gmv_slexit; assumption.
    + eapply gmvs_trans; [apply gmvs_one, (gmv_pop _ c fr q); assumption|].
      eapply gmvs_mvs. apply (mvs_sl_frame hstate dec_field enc_set_max cfg Q HQ_new HQ_closed HQ_handle_state HQ_weReset HQ_flags HQ_window HQ_snd HQ_frame (upd_readerQ c q) fr Hd (IO eq_refl)).
  - rewrite step_EvDone. destruct (sc_sl_done c) eqn:Hd; [constructor|].
    destruct (mvs_sl_done hstate dec_field enc_field cfg Q HQ_closed HQ_weReset HQ_flags HQ_snd c sid r Hd) as [(E & _)|(b & M1 & M)].
    + rewrite E. constructor.
    + eapply gmvs_trans; [apply gmvs_one, (gmv_sl _ _ _ _ M1) | eapply gmvs_mvs; exact M].
  - rewrite step_EvClock. destruct (_ <? _)%Z; [apply gmvs_one, gmv_now | constructor].
  - rewrite step_EvTimer. destruct (sc_sl_done c) eqn:Hd; [constructor|].
    eapply gmvs_mvs. apply mvs_sl_timer. assumption.
  - rewrite step_EvIdle. apply gmvs_one, gmv_idle.
  - rewrite step_EvCloser. destruct (_ && _)%bool eqn:B; [|constructor].
    apply andb_prop in B. destruct B as [_ B]. apply negb_true_iff in B.
    apply gmvs_one, (gmv_sl _ None), mv_brk. assumption.
  - rewrite step_EvWriteFail. apply gmvs_one, gmv_wl_dead.
Qed.

(* invariants: closed under the moves (and strong enough to give ids_ok) => preserved by every step *)
Theorem inv_step (P : sconn -> Prop) :
  (forall c, P c -> sc_sl_done c = false -> ids_ok c) ->
  (forall pc a b, gmv pc a b -> P a -> P b) ->
  forall c e, P c -> P (step c e).
Proof.
  intros HI HM c e H. eapply gmvs_ind_inv; [exact (HM (parser_code e)) | | exact H]. apply gmvs_step. auto.
Qed.

Theorem inv_run (P : sconn -> Prop) (h0 : hstate) :
  (forall c, P c -> sc_sl_done c = false -> ids_ok c) ->
  (forall pc a b, gmv pc a b -> P a -> P b) ->
  P (init_conn cfg h0) ->
  forall evs, P (run dec_field enc_field enc_set_max cfg h0 evs).
Proof. intros HI HM H0. apply run_ind; [exact H0|]. intros c e. apply inv_step; assumption. Qed.

End Steps.
