(* Proofs/SrvInvSteps.v - every step of the model is a sequence of moves: the stream-loop moves of
   Proofs/SrvInvDecomp.v, the read-loop moves and a few others.  `gmvs_step` is the one place where `step`
   is unfolded; invariants are proved by closure under `gmv` (Theorem inv_step / inv_run). *)
From H2V Require Import Base.Bytes Base.MachineInt Base.Result Gen.GenConsts Impl.ServerConn Proofs.SrvBase
  Proofs.SrvInvMoves Proofs.SrvInvDecomp.
From Coq Require Import ZArith Lia ZifyN ZifyNat ZifyBool.
Local Open Scope N_scope.

Section Steps.
Variable hstate : Type.
Variable dec_field : hstate -> N -> bytes -> dec_res hstate.
Variable enc_field : hstate -> bytes -> bytes -> bool -> bytes * hstate.
Variable enc_set_max : hstate -> N -> hstate.
Variable cfg : config.
Variable Q : stream -> Prop.
Notation sconn := (sconn hstate).
Notation mv := (mv hstate dec_field cfg Q).
Notation mvs := (mvs hstate dec_field cfg Q).
Notation step := (step dec_field enc_field enc_set_max cfg).
Implicit Types c : sconn.

(* the moves of the read loop, of the timers and of the environment.
   The index is the GOAWAY code the event itself brings, if any: the code of the frame parser's error, or NO_ERROR for
   the idle timer. *)
Inductive omv (pc : option N) : sconn -> sconn -> Prop :=
| omv_pop c fr q : sc_sl_done c = false -> sc_readerQ c = fr :: q -> omv pc c (upd_readerQ c q)
| omv_slexit c : sc_sl_done c = false -> sc_rl_done c = true -> sc_readerQ c = [] ->
    omv pc c (note (upd_done c true true) (OExit 1 1))
| omv_rl_goaway c code : sc_rl_done c = false -> code = c_ProtocolError \/ pc = Some code ->
    omv pc c (write_goaway c 0 code)                                               (* the read loop *)
| omv_rl_exit c why : sc_rl_done c = false -> omv pc c (rl_exit c why)
| omv_rl_expect c n : sc_rl_done c = false -> omv pc c (upd_expectCont c n)
| omv_rl_fwd c fr : sc_rl_done c = false -> sc_sl_done c = false -> omv pc c (upd_readerQ c (sc_readerQ c ++ [fr]))
| omv_rl_emit c o : sc_rl_done c = false -> is_frame o -> omv pc c (emit c o)
| omv_idle c : pc = Some c_NoError -> omv pc c (upd_closer (write_goaway c 0 c_NoError) true)   (* closeIdleConn *)
| omv_now c t : omv pc c (upd_now c t)
| omv_wl_dead c : omv pc c (upd_wl_dead c true).

Inductive omvs (pc : option N) : sconn -> sconn -> Prop :=
| omvs_nil c : omvs pc c c
| omvs_cons a b c : omv pc a b -> omvs pc b c -> omvs pc a c.

(* all moves *)
Inductive gmv (pc : option N) : sconn -> sconn -> Prop :=
| gmv_sl o a b : mv o a b -> gmv pc a b
| gmv_o a b : omv pc a b -> gmv pc a b.

Inductive gmvs (pc : option N) : sconn -> sconn -> Prop :=
| gmvs_nil c : gmvs pc c c
| gmvs_cons a b c : gmv pc a b -> gmvs pc b c -> gmvs pc a c.

Definition parser_code (e : event) : option N :=
  match e with EvRL (RBadFrame (Some code)) => Some code | EvIdle => Some c_NoError | _ => None end.

Lemma omvs_one pc a b : omv pc a b -> omvs pc a b.
Proof. intro H. econstructor; [eassumption | constructor]. Qed.
Lemma omvs_trans pc a b c : omvs pc a b -> omvs pc b c -> omvs pc a c.
Proof. induction 1; intro H2; [assumption|]. econstructor; [eassumption | auto]. Qed.
Lemma omvs_ind_inv pc (P : sconn -> Prop) : (forall a b, omv pc a b -> P a -> P b) -> forall a b, omvs pc a b -> P a -> P b.
Proof. intros H a b M. induction M; eauto. Qed.

Lemma gmvs_one pc a b : gmv pc a b -> gmvs pc a b.
Proof. intro H. econstructor; [eassumption | constructor]. Qed.
Lemma gmvs_trans pc a b c : gmvs pc a b -> gmvs pc b c -> gmvs pc a c.
Proof. induction 1; intro H2; [assumption|]. econstructor; [eassumption | auto]. Qed.
Lemma gmvs_mvs pc l a b : mvs l a b -> gmvs pc a b.
Proof. induction 1; [constructor|]. econstructor; [eapply gmv_sl; eassumption | assumption]. Qed.
Lemma gmvs_omvs pc a b : omvs pc a b -> gmvs pc a b.
Proof. induction 1; [constructor|]. econstructor; [eapply gmv_o; eassumption | assumption]. Qed.

Lemma gmvs_ind_inv pc (P : sconn -> Prop) : (forall a b, gmv pc a b -> P a -> P b) -> forall a b, gmvs pc a b -> P a -> P b.
Proof. intros H a b M. induction M; eauto. Qed.
Lemma gmvs_ind_rel pc (R : sconn -> sconn -> Prop) :
  (forall a, R a a) -> (forall a b c, R a b -> R b c -> R a c) -> (forall a b, gmv pc a b -> R a b) ->
  forall a b, gmvs pc a b -> R a b.
Proof. intros Hr Ht Hm a b M. induction M; eauto. Qed.

(* ---------- the read loop ---------- *)
Lemma omvs_forward pc c fr : sc_rl_done c = false -> omvs pc c (forward c fr).
Proof.
  intro Hr. unfold forward. destruct (sc_sl_done c) eqn:Hd; apply omvs_one; [apply omv_rl_exit | apply omv_rl_fwd]; assumption.
Qed.

Lemma omvs_goaway_exit pc c code why : sc_rl_done c = false -> code = c_ProtocolError \/ pc = Some code ->
  omvs pc c (rl_exit (write_goaway c 0 code) why).
Proof.
  intros Hr Hc. eapply omvs_trans; apply omvs_one; [apply omv_rl_goaway | apply omv_rl_exit]; [assumption | assumption|].
  rewrite sc_rl_done_write_goaway. assumption.
Qed.

Theorem omvs_rl_step c i : sc_rl_done c = false -> omvs (parser_code (EvRL i)) c (rl_step cfg c i).
Proof.
  intro Hr. unfold rl_step. destruct i as [fr| |[code|]|].
  - (* a frame *)
    assert (R : forall c1 : sconn, sc_rl_done c1 = false -> omvs None c1
      (if negb (sf_sid fr =? 0)
       then match check_frame_with_stream fr with
            | Some e => rl_exit (fst (write_error c1 None e)) 1
            | None => forward c1 fr
            end
       else match sf_kind fr with
            | KSettings => if negb (flag_has (sf_flags fr) FL_ES) then forward c1 fr else c1
            | KWinUpd => if sf_inc fr =? 0 then rl_exit (write_goaway c1 0 c_ProtocolError) 1 else forward c1 fr
            | KPing => if negb (flag_has (sf_flags fr) FL_ES) then emit c1 (OPingAck (sf_payload fr)) else c1
            | KGoAway => rl_exit c1 (if sf_code fr =? c_NoError then 0 else 4)
            | _ => rl_exit (write_goaway c1 0 c_ProtocolError) 1
            end)).
    { intros c1 H1. destruct (negb (sf_sid fr =? 0)).
      - destruct (check_frame_with_stream fr) as [e|] eqn:CF; [|apply omvs_forward; assumption].
        unfold check_frame_with_stream in CF.
        assert (e = EGoAway c_ProtocolError) as ->.
        { destruct (_ =? 0); [congruence|]. destruct (sf_kind fr); congruence. }
        cbn [write_error fst]. apply omvs_goaway_exit; [assumption | left; reflexivity].
      - destruct (sf_kind fr); try (apply omvs_goaway_exit; [assumption | left; reflexivity]).
        + destruct (negb _); [apply omvs_forward; assumption | constructor].
        + destruct (negb _); [|constructor]. apply omvs_one, omv_rl_emit; [assumption | exact I].
        + apply omvs_one, omv_rl_exit. assumption.
        + destruct (sf_inc fr =? 0); [apply omvs_goaway_exit; [assumption | left; reflexivity] | apply omvs_forward; assumption]. }
    destruct (negb (sc_expectCont c =? 0)).
    + destruct (_ || _)%bool; [apply omvs_goaway_exit; [assumption | left; reflexivity]|].
      destruct (flag_has (sf_flags fr) FL_EH); [|apply R; assumption].
      eapply omvs_trans; [apply omvs_one, omv_rl_expect; assumption | apply R; assumption].
    + destruct (fkind_eqb (sf_kind fr) KCont); [apply omvs_goaway_exit; [assumption | left; reflexivity]|].
      destruct (_ && _)%bool; [|apply R; assumption].
      eapply omvs_trans; [apply omvs_one, omv_rl_expect; assumption | apply R; assumption].
  - destruct (negb _); [apply omvs_goaway_exit; [assumption | left; reflexivity] | constructor].
  - apply omvs_goaway_exit; [assumption | right; reflexivity].
  - apply omvs_one, omv_rl_exit; assumption.
  - apply omvs_one, omv_rl_exit; assumption.
Qed.

(* ---------- every step ---------- *)
Hypothesis HQc : Qclosed hstate dec_field cfg Q.

(* the shape of a step: EvDone either does nothing or starts with the return of that handler;
   every other event is a few moves of the environment / read loop followed by unlabelled stream-loop moves *)
Definition done_noop (c : sconn) (sid : N) : Prop :=
  sc_sl_done c = true \/
  (take_stream (sc_gone c) sid = None /\ forall s, strms_search (sc_strms c) sid = Some s -> st_handlerRunning s = false).

Theorem step_shape c e : (sc_sl_done c = false -> ids_ok c) ->
  match e with
  | EvDone sid r =>
      (step c e = c /\ done_noop c sid) \/
      (sc_sl_done c = false /\ exists b, mv (Some sid) c b /\ mvs [] b (step c e))
  | _ => exists c0, omvs (parser_code e) c c0 /\ mvs [] c0 (step c e)
  end.
Proof.
  intro IO. destruct e as [i| |sid r|t| | | |].
  - rewrite step_EvRL. eexists. split; [|constructor].
    destruct (sc_rl_done c) eqn:Hr; [constructor | apply omvs_rl_step; assumption].
  - rewrite step_EvSL. destruct (sc_sl_done c) eqn:Hd; [eexists; split; constructor|].
    destruct (sc_readerQ c) as [|fr q] eqn:RQ.
    + eexists. split; [|constructor].
      destruct (sc_rl_done c) eqn:Hr; [|constructor]. apply omvs_one, omv_slexit; assumption.
    + exists (upd_readerQ c q). split; [apply omvs_one, (omv_pop _ c fr q); assumption|].
      apply (mvs_sl_frame hstate dec_field enc_set_max cfg Q HQc (upd_readerQ c q) fr Hd (IO eq_refl)).
  - rewrite step_EvDone. destruct (sc_sl_done c) eqn:Hd; [left; split; [reflexivity | left; assumption]|].
    destruct (mvs_sl_done hstate dec_field enc_field cfg Q HQc c sid r Hd) as [(E & N1 & N2)|(b & M1 & M)].
    + left. split; [assumption | right; split; assumption].
    + right. split; [reflexivity|]. exists b. split; assumption.
  - rewrite step_EvClock. eexists. split; [|constructor]. destruct (_ <? _)%Z; [apply omvs_one, omv_now | constructor].
  - rewrite step_EvTimer. exists c. split; [constructor|]. destruct (sc_sl_done c) eqn:Hd; [constructor|].
    apply mvs_sl_timer; assumption.
  - rewrite step_EvIdle. eexists. split; [apply omvs_one, omv_idle; reflexivity | constructor].
  - rewrite step_EvCloser. exists c. split; [constructor|]. destruct (_ && _)%bool eqn:B; [|constructor].
    apply andb_prop in B. destruct B as [_ B]. apply negb_true_iff in B.
    apply mvs0_one, mv_brk. assumption.
  - rewrite step_EvWriteFail. eexists. split; [apply omvs_one, omv_wl_dead | constructor].
Qed.

Theorem gmvs_step c e : (sc_sl_done c = false -> ids_ok c) -> gmvs (parser_code e) c (step c e).
Proof.
  intro IO. pose proof (step_shape c e IO) as S.
  destruct e as [i| |sid r|t| | | |];
    try (destruct S as (c0 & O & M); eapply gmvs_trans; [apply gmvs_omvs; exact O | eapply gmvs_mvs; exact M]).
  destruct S as [(E & _)|(_ & b & M1 & M)]; [rewrite E; constructor|].
  eapply gmvs_trans; [apply gmvs_one, (gmv_sl _ _ _ _ M1) | eapply gmvs_mvs; exact M].
Qed.

(* invariants: closed under the moves (and strong enough to give ids_ok) => preserved by every step *)
Theorem inv_step (P : sconn -> Prop) :
  (forall c, P c -> sc_sl_done c = false -> ids_ok c) ->
  (forall pc a b, gmv pc a b -> P a -> P b) ->
  forall c e, P c -> P (step c e).
Proof.
  intros HI HM c e H. eapply gmvs_ind_inv; [exact (HM (parser_code e)) | | exact H]. apply gmvs_step. auto.
Qed.

Theorem inv_run (P : sconn -> Prop) (h0 : hstate) :
  (forall c, P c -> sc_sl_done c = false -> ids_ok c) ->
  (forall pc a b, gmv pc a b -> P a -> P b) ->
  P (init_conn cfg h0) ->
  forall evs, P (run dec_field enc_field enc_set_max cfg h0 evs).
Proof. intros HI HM H0. apply run_ind; [exact H0|]. intros c e. apply inv_step; assumption. Qed.

End Steps.
