(* Proofs/SrvIsoResp.v - C01 (b): what the peer is sent when a handler returns (sl_done), for a buffered body
   that the flow-control windows admit at once: HEADERS carrying response_block of the status and the fields,
   then DATA frames whose payloads concatenate to the body, END_STREAM exactly on the last frame (on HEADERS when
   there is no body), then the stream is released; nothing else on the stream. *)
From H2V Require Import Base.Bytes Base.MachineInt Base.Result Gen.GenConsts Impl.ServerConn Proofs.SrvBase
  Proofs.SrvFlowSend.
From Coq Require Import ZArith Lia ZifyN ZifyNat ZifyBool.
Local Open Scope N_scope.

(* DATA frames for a list of chunks: END_STREAM on the last one only *)
Fixpoint data_outs (sid : N) (chunks : list bytes) : list outev :=
  match chunks with
  | [] => []
  | [ch] => [OData sid true ch]
  | ch :: t => OData sid false ch :: data_outs sid t
  end.

Lemma data_outs_cons sid ch t : t <> [] -> data_outs sid (ch :: t) = OData sid false ch :: data_outs sid t.
Proof. destruct t; [congruence | reflexivity]. Qed.

Definition chunk_ok (ch : bytes) : Prop := ch <> [] /\ len ch <= maxDataFrameSize.

Section Resp.
Variable hstate : Type.
Variable enc_field : hstate -> bytes -> bytes -> bool -> bytes * hstate.
Variable cfg : config.
Notation sconn := (sconn hstate).
Implicit Types c : sconn.

Lemma len_pos_cons (x : N) (b : bytes) : 0 < len (x :: b).
Proof. unfold len. cbn [length]. lia. Qed.

(* a buffered body that fits the windows goes out at once *)
Lemma send_data_loop_buffered fuel : forall c sid n,
  sn_bodyStream n = None -> sn_pendingEnd n = true -> sn_pending n <> [] ->
  sc_wl_dead c = false -> sc_sl_done c = false ->
  (Z.of_N (len (sn_pending n)) <= sn_window n)%Z -> (Z.of_N (len (sn_pending n)) <= sc_clientWindow c)%Z ->
  (N.to_nat (len (sn_pending n) / maxDataFrameSize) < fuel)%nat ->
  exists chunks, concat chunks = sn_pending n /\ chunks <> [] /\ Forall chunk_ok chunks /\
    let r := send_data_loop fuel c sid n in
    sc_out (fst (fst (fst r))) = rev (data_outs sid chunks) ++ sc_out c /\
    snd (fst r) = true /\ snd r = false /\ sn_pending (snd (fst (fst r))) = [] /\
    sn_bodyStream (snd (fst (fst r))) = None /\
    upd_out (upd_clientWindow (fst (fst (fst r))) 0) [] = upd_out (upd_clientWindow c 0) [].
Proof.
  induction fuel as [|fuel IH]; intros c sid n BS PE PN W Hd LW LC LF; [exfalso; apply (Nat.nlt_0_r _ LF)|].
  rewrite send_data_loop_S. destruct (sn_pending n) as [|x p] eqn:EP; [congruence|]. rewrite <- EP in *.
  assert (LP : 0 < len (sn_pending n)) by (rewrite EP; apply len_pos_cons).
  unfold sd_go. unfold sd_avail. rewrite zmin_min.
  replace (Z.min (sn_window n) (sc_clientWindow c) <=? 0)%Z with false by lia.
  assert (ST : sd_step c n = Z.min (Z.of_N maxDataFrameSize) (Z.of_N (len (sn_pending n)))).
  { unfold sd_step, sd_avail. rewrite !zmin_min. lia. }
  assert (CH : sd_chunk c n ++ sd_rest c n = sn_pending n) by apply sd_chunk_rest.
  assert (LCk : len (sd_chunk c n) = N.min maxDataFrameSize (len (sn_pending n))).
  { unfold sd_chunk. rewrite len_takeN, ST. lia. }
  assert (LR : len (sd_rest c n) = len (sn_pending n) - N.min maxDataFrameSize (len (sn_pending n))).
  { unfold sd_rest. rewrite len_dropN, ST. lia. }
  assert (CK : chunk_ok (sd_chunk c n)).
  { split; [|rewrite LCk; lia]. intro E. rewrite E in LCk. unfold len in LCk at 1. cbn [length] in LCk. unfold maxDataFrameSize in *. lia. }
  assert (OUT : sc_out (sd_c2 c sid n) = OData sid (sd_es c n) (sd_chunk c n) :: sc_out c).
  { unfold sd_c2. sc_cbn. rewrite sc_out_emit, W, Hd. reflexivity. }
  unfold sd_es. rewrite PE. cbn [andb].
  destruct (sd_rest c n) as [|y rest] eqn:ER.
  - (* the last chunk *)
    exists [sd_chunk c n]. cbn [concat]. rewrite app_nil_r. rewrite app_nil_r in CH.
    split; [exact CH|]. split; [discriminate|]. split; [constructor; [exact CK | constructor]|].
    cbn [fst snd data_outs rev app]. unfold sd_es in OUT. rewrite PE, ER in OUT. cbn [andb] in OUT.
    split; [exact OUT|]. repeat split.
    + unfold sd_n'. cbn [sn_pending]. exact ER.
    + unfold sd_n'. cbn [sn_bodyStream]. exact BS.
    + unfold sd_c2, emit. rewrite W, Hd. reflexivity.
  - (* more to come *)
    rewrite <- ER in *.
    assert (RN : sd_rest c n <> []) by (rewrite ER; discriminate).
    destruct (IH (sd_c2 c sid n) sid (sd_n' c n)) as (chunks & CC & CN & CF & R).
    + exact BS.
    + exact PE.
    + exact RN.
    + unfold sd_c2, emit. rewrite W, Hd. sc_cbn. exact W.
    + unfold sd_c2, emit. rewrite W, Hd. sc_cbn. exact Hd.
    + unfold sd_n'. cbn [sn_pending sn_window]. rewrite ST. lia.
    + unfold sd_n', sd_c2. cbn [sn_pending]. sc_cbn. rewrite ST. lia.
    + unfold sd_n'. cbn [sn_pending]. rewrite LR.
      assert (len (sn_pending n) > maxDataFrameSize).
      { destruct (N.le_gt_cases (len (sn_pending n)) maxDataFrameSize) as [L|L]; [|lia].
        exfalso. rewrite N.min_r in LR by exact L. rewrite N.sub_diag in LR. rewrite ER in LR. pose proof (len_pos_cons y rest). lia. }
      rewrite N.min_l by lia. unfold maxDataFrameSize in *.
      assert ((len (sn_pending n) - 16384) / 16384 = len (sn_pending n) / 16384 - 1).
      { replace (len (sn_pending n)) with ((len (sn_pending n) - 16384) + 1 * 16384) at 2 by lia. rewrite N.div_add by lia. lia. }
      assert (1 <= len (sn_pending n) / 16384) by (apply N.div_le_lower_bound; lia). lia.
    + exists (sd_chunk c n :: chunks). cbn [concat]. rewrite CC. cbn [sd_n' sn_pending].
      split; [exact CH|]. split; [discriminate|]. split; [constructor; assumption|].
      cbv zeta in R. destruct R as (RO & RD & RW & RP & RB & RC).
      rewrite (data_outs_cons sid _ chunks CN). cbn [rev]. rewrite <- app_assoc. cbn [app].
      assert (ES : sd_es c n = false) by (unfold sd_es; rewrite PE; destruct (sd_rest c n); [congruence | reflexivity]).
      rewrite ES in OUT.
      split; [rewrite RO, OUT; reflexivity|]. repeat split; try assumption.
      rewrite RC. unfold sd_c2, emit. rewrite W, Hd. reflexivity.
Qed.

Lemma strms_del_put l x : strms_del (strms_put l x) (st_id x) = strms_del l (st_id x).
Proof.
  induction l as [|y t IH]; cbn [strms_put strms_del]; [reflexivity|].
  destruct (st_id y =? st_id x) eqn:E; cbn [strms_del].
  - rewrite N.eqb_refl. reflexivity.
  - rewrite E, IH. reflexivity.
Qed.

Definition no_body (b : bytes) : bool := match b with [] => true | _ => false end.

(* C01 (b): the handler of an open stream returns a response with a buffered body *)
Theorem sl_done_buffered c sid s r b :
  take_stream (sc_gone c) sid = None -> strms_search (sc_strms c) sid = Some s -> st_handlerRunning s = true ->
  rs_body r = BBuffered b -> st_bodyStream s = None ->
  sc_wl_dead c = false -> sc_sl_done c = false ->
  (Z.of_N (len b) <= st_window s)%Z -> (Z.of_N (len b) <= sc_clientWindow c)%Z ->
  exists chunks tail,
    concat chunks = b /\ Forall chunk_ok chunks /\ (tail = [] \/ tail = [OExit 1 0]) /\
    sc_out (fst (sl_done enc_field cfg c sid r)) =
      tail ++ ORelease sid true :: rev (data_outs sid chunks) ++
      OHeaders sid (no_body b) (fst (response_block enc_field (sc_enc c) r)) :: sc_out c /\
    sc_enc (fst (sl_done enc_field cfg c sid r)) = snd (response_block enc_field (sc_enc c) r) /\
    sc_strms (fst (sl_done enc_field cfg c sid r)) = strms_del (sc_strms c) sid.
Proof.
  intros TG SS Run RB BS W Hd LW LC. destruct (strms_search_In _ _ _ SS) as [_ Ei].
  unfold sl_done. rewrite TG, SS, Run. cbn [negb].
  set (s1 := set_flags s (st_responded s) false (st_abandoned s)).
  unfold finish_request. rewrite RB.
  destruct (response_block enc_field (sc_enc c) r) as [blk e'] eqn:RBK. cbn [fst snd].
  set (c1 := emit (upd_enc c e') (OHeaders (st_id s1) (negb (match b with [] => false | _ => true end)) blk)).
  assert (O1 : sc_out c1 = OHeaders sid (no_body b) blk :: sc_out c).
  { unfold c1. rewrite sc_out_emit. sc_cbn. rewrite W, Hd. cbn [s1 set_flags st_id]. rewrite Ei. destruct b; reflexivity. }
  assert (FIN : forall c2 (x : stream) outs, st_id x = sid -> st_handlerRunning x = false ->
            sc_out c2 = outs ++ sc_out c1 -> sc_strms c2 = sc_strms c -> sc_enc c2 = e' ->
            exists tail, (tail = [] \/ tail = [OExit 1 0]) /\
              sc_out (fst (let c3 := close_stream (put c2 (set_state x SClosed)) (set_state x SClosed) in
                           if sc_closing c3 && can_close_after_goaway c3 then brk c3 else cont c3)) =
              tail ++ ORelease sid true :: outs ++ sc_out c1 /\
              sc_enc (fst (let c3 := close_stream (put c2 (set_state x SClosed)) (set_state x SClosed) in
                           if sc_closing c3 && can_close_after_goaway c3 then brk c3 else cont c3)) = e' /\
              sc_strms (fst (let c3 := close_stream (put c2 (set_state x SClosed)) (set_state x SClosed) in
                           if sc_closing c3 && can_close_after_goaway c3 then brk c3 else cont c3)) = strms_del (sc_strms c) sid).
  { intros c2 x outs Ex Rx EO ES EE. cbv zeta.
    set (c3 := close_stream (put c2 (set_state x SClosed)) (set_state x SClosed)).
    assert (O3 : sc_out c3 = ORelease sid true :: outs ++ sc_out c1).
    { unfold c3. rewrite sc_out_close_stream. cbn [set_state st_handlerRunning st_id]. rewrite Rx, Ex. sc_rw. rewrite EO. reflexivity. }
    assert (E3 : sc_enc c3 = e') by (unfold c3; sc_rw; exact EE).
    assert (S3 : sc_strms c3 = strms_del (sc_strms c) sid).
    { unfold c3. rewrite sc_strms_close_stream, sc_strms_put, ES. cbn [set_state st_id]. rewrite <- Ex.
      exact (strms_del_put (sc_strms c) (set_state x SClosed)). }
    destruct (sc_closing c3 && can_close_after_goaway c3)%bool.
    - exists [OExit 1 0]. split; [auto|]. unfold brk, note. sc_cbn. rewrite O3, E3, S3. auto.
    - exists []. split; [auto|]. cbn [cont fst app]. auto. }
  destruct b as [|x0 b0].
  - (* no body: END_STREAM is on HEADERS *)
    cbn [negb]. destruct (FIN c1 s1 []) as (tail & TL & TO & TE & TS); try reflexivity.
    + exact Ei.
    + unfold c1. sc_rw. reflexivity.
    + unfold c1. sc_rw. reflexivity.
    + exists [], tail. split; [reflexivity|]. split; [constructor|]. split; [exact TL|].
      cbn [data_outs rev app] in *. rewrite <- O1. auto.
  - cbn [negb]. set (b := x0 :: b0) in *.
    set (n := mkSnd (st_window s1) b true (st_bodyStream s1) (st_bodySize s1) (st_bodyRead s1)).
    unfold send_data. replace (get_snd (set_snd s1 n)) with n by reflexivity.
    destruct (send_data_loop_buffered (send_data_fuel n) c1 (st_id (set_snd s1 n)) n) as (chunks & CC & CN & CF & R).
    + exact BS.
    + reflexivity.
    + discriminate.
    + unfold c1. sc_rw. exact W.
    + unfold c1. sc_rw. exact Hd.
    + exact LW.
    + unfold c1. sc_rw. exact LC.
    + unfold send_data_fuel. cbn [n sn_pending sn_bodyStream]. replace (st_bodyStream s1) with (@None (list (bytes * rerr))) by (symmetry; exact BS). lia.
    + cbv zeta in R. destruct (send_data_loop (send_data_fuel n) c1 (st_id (set_snd s1 n)) n) as [[[c2 n2] dn] wr].
      cbn [fst snd] in R. destruct R as (RO & RD & RW & RP & RBS & RC). subst dn wr.
      destruct (FIN c2 (set_snd (set_snd s1 n) (mkSnd (sn_window n2) (sn_pending n2) (sn_pendingEnd n2) None (sn_bodySize n2) (sn_bodyRead n2)))
                    (rev (data_outs (st_id (set_snd s1 n)) chunks))) as (tail & TL & TO & TE & TS).
      * exact Ei.
      * reflexivity.
      * exact RO.
      * assert (E : sc_strms (upd_out (upd_clientWindow c2 0) []) = sc_strms (upd_out (upd_clientWindow c1 0) [])) by (rewrite RC; reflexivity).
        sc_cbn_in E. rewrite E. unfold c1. sc_rw. reflexivity.
      * assert (E : sc_enc (upd_out (upd_clientWindow c2 0) []) = sc_enc (upd_out (upd_clientWindow c1 0) [])) by (rewrite RC; reflexivity).
        sc_cbn_in E. rewrite E. unfold c1. sc_rw. reflexivity.
      * exists chunks, tail. split; [exact CC|]. split; [exact CF|]. split; [exact TL|].
        cbn [fst snd]. replace (st_id (set_snd s1 n)) with sid in * by (symmetry; exact Ei).
        rewrite <- O1. auto.
Qed.

End Resp.
