(* Proofs/SrvRfcSl.v - C08: frames on a stream the table does not hold (closed, refused,
   forgotten, never opened): the leaves of sl_frame that leave the table alone. *)
From H2V Require Import Base.Bytes Base.MachineInt Base.Result Gen.GenConsts Impl.ServerConn.
From H2V Require Import Proofs.SrvBase Proofs.SrvRfcDefs Proofs.SrvRfcSpec Proofs.SrvRfcModel Proofs.SrvRfcSim Proofs.SrvRfcEff
  Proofs.SrvRfcStep Proofs.SrvRfcKit Proofs.SrvRfcRl.
From Coq Require Import ZArith Lia ZifyN ZifyNat ZifyBool.
Local Open Scope N_scope.

Section Sl.
Variable hstate : Type.
Variable dec_field : hstate -> N -> bytes -> dec_res hstate.
Variable enc_field : hstate -> bytes -> bytes -> bool -> bytes * hstate.
Variable enc_set_max : hstate -> N -> hstate.
Variable cfg : config.
Notation sconn := (sconn hstate).
Notation feed := (feed hstate dec_field enc_field enc_set_max cfg).
Notation G := (G hstate).
Notation view := (view hstate).
Notation tbl := (tbl hstate).
Notation Sim := (Sim hstate).
Notation static := (static hstate).
Notation seq_ok := (seq_ok hstate).
Implicit Types c : sconn.

(* the header-block register of the specification follows the read loop *)
Lemma block_after c s fr ec' r d : seq_ok c fr ec' -> sf_sid fr <> 0 -> R_block hstate c s ->
  RS.block (after_outs (RS.spec_next s (RS.Frame (abs_frame fr)) r) d) = if ec' =? 0 then None else Some ec'.
Proof.
  intros SQ Zn B. unfold after_outs. rewrite block_fold_sent, block_spec_next. unfold R_block in B.
  unfold RS.in_sequence, abs_frame. cbn [RS.f_kind RS.f_sid RS.f_eh]. rewrite B.
  destruct SQ as [(E0 & K & ->)|(E0 & K & Sd & ->)].
  - rewrite E0. cbn [N.eqb]. revert K. destruct (sf_kind fr); intro K; cbn [abs_kind fkind_eqb andb]; try reflexivity; try congruence.
    destruct (flag_has (sf_flags fr) FL_EH); cbn [negb]; [reflexivity|].
    replace (sf_sid fr =? 0) with false by lia. reflexivity.
  - replace (sc_expectCont c =? 0) with false by lia. rewrite K. cbn [abs_kind].
    replace (sf_sid fr =? sc_expectCont c) with true by lia.
    destruct (flag_has (sf_flags fr) FL_EH); [reflexivity|].
    replace (sf_sid fr =? 0) with false by lia. reflexivity.
Qed.

Lemma view_none c id : tbl c id = None ->
  view c id = match ring_find c id with Some b => MRing b | None => if id <=? sc_highestID c then MOld else MNew end.
Proof. intro H. unfold SrvRfcDefs.view. rewrite H. reflexivity. Qed.

Lemma ec'_cases c fr ec' : seq_ok c fr ec' -> ec' = 0 \/ ec' = sf_sid fr.
Proof.
  intros [(_ & _ & ->)|(_ & _ & _ & ->)].
  - destruct (_ && _)%bool; auto.
  - destruct (flag_has _ _); auto.
Qed.

(* a frame on an id the table does not hold, after which the table and the ring are as before *)
Lemma G_sl_static c s ph fr ec' c' d :
  Sim c s ph -> sc_sl_done c = false -> seq_ok c fr ec' -> N.odd (sf_sid fr) = true -> tbl c (sf_sid fr) = None ->
  feed c (IIn (RFrame fr)) = c' -> static c c' -> sc_sl_done c' = false -> sc_expectCont c' = ec' ->
  sc_out c' = d ++ sc_out c -> (forall sid rq, ~ In (ODispatch sid rq) d) ->
  (RS.allowed s (RS.Frame (abs_frame fr)) (resolve s (RS.Frame (abs_frame fr)) (classify (sf_sid fr) (rev (filter noisy d)))) = true \/
   known_deviation hstate c s (RFrame fr) = true) ->
  (forall id, RS.st_of (after_outs (RS.spec_next s (RS.Frame (abs_frame fr)) (resolve s (RS.Frame (abs_frame fr)) (classify (sf_sid fr) (rev (filter noisy d))))) d) id = RS.st_of s id) ->
  RS.highest (after_outs (RS.spec_next s (RS.Frame (abs_frame fr)) (resolve s (RS.Frame (abs_frame fr)) (classify (sf_sid fr) (rev (filter noisy d))))) d) = RS.highest s ->
  RS.goaway (after_outs (RS.spec_next s (RS.Frame (abs_frame fr)) (resolve s (RS.Frame (abs_frame fr)) (classify (sf_sid fr) (rev (filter noisy d))))) d) = sc_closing c' ->
  (sc_discardID c' = sc_discardID c \/ sc_discardID c' = 0 \/ (sc_discardID c' = sf_sid fr /\ sf_sid fr <= sc_highestID c)) ->
  (ec' <> 0 -> sc_discardID c' = ec' \/
               RS.dead (after_outs (RS.spec_next s (RS.Frame (abs_frame fr)) (resolve s (RS.Frame (abs_frame fr)) (classify (sf_sid fr) (rev (filter noisy d))))) d) = true) ->
  (sc_closing c' = false -> sc_highestID c < sf_sid fr -> sf_kind fr = KPriority) ->
  G c s ph (RFrame fr) (feed c (IIn (RFrame fr))).
Proof.
  intros HS Hsl SQ Od Tn E St Hsl' Hec Ho Hnd Ha Hst Hhi Hga Hdi Hcont Hnew.
  rewrite E. exists d. split; [exact Ho|]. cbn [abs_input input_sid]. split; [exact Ha|].
  rewrite Hsl'. split; [|intros sid rq H; exfalso; exact (Hnd sid rq H)].
  set (s2 := after_outs _ d) in *.
  pose proof (S_aux _ _ _ _ HS) as [AT AH]. pose proof St as (A1 & A2 & A3 & A4 & A5 & A6 & A7 & A8).
  assert (Tn' : forall st, In st (sc_strms c) -> st_id st <> sf_sid fr).
  { intros st H Eq. pose proof (In_search _ _ (A_nodup _ _ AT) H) as X. rewrite Eq in X. unfold SrvRfcDefs.tbl in Tn. congruence. }
  apply (live_tuple_static hstate c c' s s2 ph).
  - exact HS.
  - exact St.
  - (* AuxH *)
    destruct AH as [F1 F2 F3 F4]. constructor.
    + intros st H Hf. rewrite A1 in H. rewrite Hec. pose proof (F1 st H Hf) as X.
      destruct SQ as [(E0 & _)|(E0 & K & Sd & _)].
      * rewrite E0 in X. destruct (A_ids _ _ AT st H) as [O _]. rewrite X in O. discriminate.
      * exfalso. apply (Tn' st H). congruence.
    + intros st Hne H. rewrite Hec in H. rewrite (tbl_static hstate _ _ _ St) in H.
      destruct (ec'_cases _ _ _ SQ) as [Z|Z]; [congruence|]. rewrite Z in H. congruence.
    + rewrite Hec. intro Hne. destruct (ec'_cases _ _ _ SQ) as [Z|Z]; [congruence | rewrite Z; exact Od].
    + intro Hne. rewrite (tbl_static hstate _ _ _ St), A5. destruct Hdi as [X|[X|[X Y]]].
      * rewrite X in *. apply F4, Hne.
      * congruence.
      * rewrite X. split; [exact Tn | exact Y].
  - exact Hst.
  - exact Hhi.
  - unfold R_block. rewrite Hec. apply (block_after c s fr ec' _ d SQ); [|exact (S_blk _ _ _ _ HS)].
    intro Z. rewrite Z in Od. discriminate.
  - exact Hga.
  - rewrite Hec. intros Hne _. apply Hcont, Hne.
  - intros st H. cbn [ph_next]. replace (st_id st =? sf_sid fr) with false; [reflexivity|].
    symmetry. apply N.eqb_neq. apply Tn', H.
  - intros Hc id O L. cbn [ph_next]. destruct (id =? sf_sid fr) eqn:X.
    + apply N.eqb_eq in X. subst id. rewrite (S_new _ _ _ _ HS); [| | exact O | exact L].
      * pose proof (Hnew Hc L) as K. unfold abs_frame. cbn [RS.request_step RS.f_kind]. rewrite K. reflexivity.
      * (* closing c = false: the spec's goaway flag only grows *)
        rewrite <- (S_ga _ _ _ _ HS). rewrite <- Hga in Hc. subst s2. unfold after_outs in Hc.
        rewrite goaway_fold_sent, goaway_spec_next in Hc. destruct (RS.goaway s); [discriminate | reflexivity].
    + apply (S_new _ _ _ _ HS); [| exact O | exact L].
      rewrite <- (S_ga _ _ _ _ HS). rewrite <- Hga in Hc. subst s2. unfold after_outs in Hc.
      rewrite goaway_fold_sent, goaway_spec_next in Hc. destruct (RS.goaway s); [discriminate | reflexivity].
Qed.

(* what the specification thinks of an id the table does not hold *)
Lemma unknown_state c s ph id : Sim c s ph -> N.odd id = true -> tbl c id = None ->
  (id <= sc_highestID c -> exists w, RS.st_of s id = RS.Closed w) /\
  (sc_highestID c < id -> RS.st_of s id = RS.Idle /\ ring_find c id = None).
Proof.
  intros HS O Tn. pose proof (S_str _ _ _ _ HS id O) as R. rewrite (view_none c id Tn) in R.
  destruct (ring_find c id) as [b|] eqn:F.
  - assert (X : exists w, RS.st_of s id = RS.Closed w).
    { destruct b; cbn [rel] in R; [eauto | destruct R; eauto]. }
    split; [intros _; exact X|]. intro L. destruct X as [w Hw].
    pose proof (st_of_closed_le s id w (S_wf _ _ _ _ HS) Hw). rewrite (S_hi _ _ _ _ HS) in H. lia.
  - destruct (id <=? sc_highestID c) eqn:L; cbn [rel] in R.
    + split; [intros _; eauto | intro; lia].
    + split; [intro; lia | intros _; auto].
Qed.

Lemma ring_state c s ph id b : Sim c s ph -> N.odd id = true -> tbl c id = None -> ring_find c id = Some b ->
  if b then RS.st_of s id = RS.Closed RS.WeRst
  else RS.st_of s id = RS.Closed RS.PeerEnd \/ RS.st_of s id = RS.Closed RS.PeerRst.
Proof.
  intros HS O Tn F. pose proof (S_str _ _ _ _ HS id O) as R. rewrite (view_none c id Tn), F in R.
  destruct b; exact R.
Qed.

(* facts about the state the stream loop starts from *)
Lemma c1_facts c ec' : static c (upd_expectCont c ec') /\ sc_sl_done (upd_expectCont c ec') = sc_sl_done c /\
  sc_wl_dead (upd_expectCont c ec') = sc_wl_dead c /\ sc_expectCont (upd_expectCont c ec') = ec' /\
  sc_closing (upd_expectCont c ec') = sc_closing c /\ sc_discardID (upd_expectCont c ec') = sc_discardID c /\
  sc_out (upd_expectCont c ec') = sc_out c.
Proof. repeat split. Qed.

(* ---------- wrappers for the three kinds of static leaf ---------- *)

Lemma G_sl_goaway c s ph fr ec' code :
  Sim c s ph -> sc_sl_done c = false -> seq_ok c fr ec' -> N.odd (sf_sid fr) = true -> tbl c (sf_sid fr) = None ->
  feed c (IIn (RFrame fr)) = write_goaway (upd_expectCont c ec') (sf_sid fr) code ->
  (RS.allowed s (RS.Frame (abs_frame fr)) (RS.ConnErr code) = true \/ known_deviation hstate c s (RFrame fr) = true) ->
  G c s ph (RFrame fr) (feed c (IIn (RFrame fr))).
Proof.
  intros HS Hsl SQ Od Tn E Ha.
  pose proof (S_aux _ _ _ _ HS) as [AT AH]. pose proof (A_wl _ _ AT) as Hwl.
  apply (G_sl_static c s ph fr ec' (write_goaway (upd_expectCont c ec') (sf_sid fr) code) [OGoAway (sc_lastID c) code]);
    [exact HS | exact Hsl | exact SQ | exact Od | exact Tn | exact E | | | | | | | | | | | | ];
    cbn [filter noisy strip_late rev app classify first_some is_goaway resolve].
  - repeat split; sc_rw; reflexivity.
  - sc_rw. exact Hsl.
  - sc_rw. reflexivity.
  - rewrite sc_out_write_goaway. sc_cbn. rewrite Hwl, Hsl. reflexivity.
  - intros sid rq [H|[]]; discriminate.
  - exact Ha.
  - apply (spec_goaway s (abs_frame fr) code _ (sc_lastID c) (S_wf _ _ _ _ HS)). reflexivity.
  - apply (spec_goaway s (abs_frame fr) code _ (sc_lastID c) (S_wf _ _ _ _ HS)). reflexivity.
  - rewrite sc_closing_write_goaway. apply (spec_goaway s (abs_frame fr) code _ (sc_lastID c) (S_wf _ _ _ _ HS)). reflexivity.
  - left. sc_rw. reflexivity.
  - intros _. right. apply (spec_goaway s (abs_frame fr) code _ (sc_lastID c) (S_wf _ _ _ _ HS)). reflexivity.
  - rewrite sc_closing_write_goaway. discriminate.
Qed.

Lemma G_sl_quiet c s ph fr ec' c' d :
  Sim c s ph -> sc_sl_done c = false -> seq_ok c fr ec' -> N.odd (sf_sid fr) = true -> tbl c (sf_sid fr) = None ->
  feed c (IIn (RFrame fr)) = c' -> static c c' -> sc_sl_done c' = false -> sc_expectCont c' = ec' -> sc_closing c' = sc_closing c ->
  sc_out c' = d ++ sc_out c -> filter noisy d = [] -> (forall sid rq, ~ In (ODispatch sid rq) d) ->
  ((RS.may_process s (RS.Frame (abs_frame fr)) = true \/
    existsb (fun v => RS.admits v RS.Ignore) (RS.verdicts s (RS.Frame (abs_frame fr))) = true) \/
   known_deviation hstate c s (RFrame fr) = true) ->
  RS.receive (RS.st_of s (sf_sid fr)) (abs_frame fr) = RS.st_of s (sf_sid fr) ->
  (sc_discardID c' = sc_discardID c \/ sc_discardID c' = 0 \/ (sc_discardID c' = sf_sid fr /\ sf_sid fr <= sc_highestID c)) ->
  (ec' <> 0 -> sc_discardID c' = ec') ->
  (sc_closing c = false -> sc_highestID c < sf_sid fr -> sf_kind fr = KPriority) ->
  G c s ph (RFrame fr) (feed c (IIn (RFrame fr))).
Proof.
  intros HS Hsl SQ Od Tn E St Hsl' Hec Hcl Ho Hq Hnd Ha Hrec Hdi Hcont Hnew.
  assert (Stay : stays s (abs_frame fr) (resolve s (RS.Frame (abs_frame fr)) RS.Process)) by (apply stays_quiet; exact Hrec).
  destruct (spec_quiet s (abs_frame fr) _ d (S_wf _ _ _ _ HS) Hq Stay) as (Q1 & Q2 & Q3 & Q4).
  apply (G_sl_static c s ph fr ec' c' d);
    [exact HS | exact Hsl | exact SQ | exact Od | exact Tn | exact E | exact St | exact Hsl' | exact Hec | exact Ho | exact Hnd | | | | | | | ];
    rewrite ?Hq; cbn [rev classify first_some existsb];
    try replace (sf_sid fr =? 0) with false by (destruct (sf_sid fr =? 0) eqn:Z; [apply N.eqb_eq in Z; rewrite Z in Od; discriminate | reflexivity]).
  - destruct Ha as [Ha|Ha]; [left; apply allowed_quiet, Ha | right; exact Ha].
  - exact Q1.
  - exact Q2.
  - rewrite Q3, conn_err_resolve_quiet, orb_false_r, Hcl. exact (S_ga _ _ _ _ HS).
  - exact Hdi.
  - intro H. left. apply Hcont, H.
  - rewrite Hcl. exact Hnew.
Qed.

Lemma G_sl_rst c s ph fr ec' code :
  Sim c s ph -> sc_sl_done c = false -> seq_ok c fr ec' -> N.odd (sf_sid fr) = true -> tbl c (sf_sid fr) = None ->
  feed c (IIn (RFrame fr)) = write_reset (upd_expectCont c ec') (sf_sid fr) code ->
  (RS.allowed s (RS.Frame (abs_frame fr)) (RS.StreamErr code) = true \/ known_deviation hstate c s (RFrame fr) = true) ->
  RS.reset (RS.st_of s (sf_sid fr)) (abs_frame fr) = RS.st_of s (sf_sid fr) ->
  ec' = 0 ->
  (sc_closing c = false -> sc_highestID c < sf_sid fr -> sf_kind fr = KPriority) ->
  G c s ph (RFrame fr) (feed c (IIn (RFrame fr))).
Proof.
  intros HS Hsl SQ Od Tn E Ha Hres EC Hnew.
  pose proof (S_aux _ _ _ _ HS) as [AT AH]. pose proof (A_wl _ _ AT) as Hwl.
  assert (Zn : (sf_sid fr =? 0) = false) by (destruct (sf_sid fr =? 0) eqn:Z; [apply N.eqb_eq in Z; rewrite Z in Od; discriminate | reflexivity]).
  assert (Ac : active (RS.st_of s (sf_sid fr)) = false).
  { destruct (N.le_gt_cases (sf_sid fr) (sc_highestID c)) as [L|L].
    - destruct (proj1 (unknown_state c s ph _ HS Od Tn) L) as [w ->]. reflexivity.
    - destruct (proj2 (unknown_state c s ph _ HS Od Tn) L) as [-> _]. reflexivity. }
  assert (Stay : stays s (abs_frame fr) (RS.StreamErr code)) by (right; right; exact Hres).
  destruct (spec_rst s (abs_frame fr) code [ORst (sf_sid fr) code] (S_wf _ _ _ _ HS) eq_refl Stay Ac) as (Q1 & Q2 & Q3 & Q4).
  apply (G_sl_static c s ph fr ec' (write_reset (upd_expectCont c ec') (sf_sid fr) code) [ORst (sf_sid fr) code]);
    [exact HS | exact Hsl | exact SQ | exact Od | exact Tn | exact E | | | | | | | | | | | | ];
    cbn [filter noisy strip_late rev app classify first_some is_goaway is_exit existsb orb is_rst resolve]; rewrite ?Zn; cbn [first_some is_rst strip_late]; rewrite ?N.eqb_refl; cbn [resolve].
  - repeat split; sc_rw; reflexivity.
  - sc_rw. exact Hsl.
  - sc_rw. reflexivity.
  - unfold write_reset. rewrite sc_out_emit. sc_cbn. rewrite Hwl, Hsl. reflexivity.
  - intros sid rq [H|[]]; discriminate.
  - exact Ha.
  - exact Q1.
  - exact Q2.
  - rewrite Q3. sc_rw. exact (S_ga _ _ _ _ HS).
  - left. sc_rw. reflexivity.
  - intro H. exfalso. apply H. exact EC.
  - sc_rw. exact Hnew.
Qed.

(* ---------- sl_frame in two halves (auxiliary definitions, equal to the model's text) ---------- *)

(* the stream to work on, or the outcome when the frame is dealt with without one *)
Definition sl_pre c (fr : sframe) : (sconn * bool) + (sconn * stream) :=
  let wasClosing := sc_closing c in
  match (if sf_sid fr <=? sc_lastID c then strms_search (sc_strms c) (sf_sid fr) else None) with
  | Some s => inr (c, s)
  | None =>
    if fkind_eqb (sf_kind fr) KRst then
      if (sc_lastID c <? sf_sid fr) && (sc_highestID c <? sf_sid fr)
      then inl (cont (write_goaway c (sf_sid fr) c_ProtocolError)) else inl (cont c)
    else if in_ring c (sf_sid fr) then
      let weReset := match ring_find c (sf_sid fr) with Some b => b | None => false end in
      match sf_kind fr with
      | KPriority | KWinUpd | KRst => inl (cont c)
      | KData =>
        if weReset then inl (cont (credit_conn_window cfg c (Z.of_N (sf_len fr))))
        else inl (cont (write_goaway c (sf_sid fr) c_StreamClosedError))
      | KHeaders =>
        if weReset then inl (discard_or_break (discard_header_block dec_field cfg c fr))
        else inl (cont (write_goaway c (sf_sid fr) c_StreamClosedError))
      | _ => inl (cont (write_goaway c (sf_sid fr) c_StreamClosedError))
      end
    else if fkind_eqb (sf_kind fr) KPriority then
      if sf_dep fr =? sf_sid fr then inl (cont (write_reset c (sf_sid fr) c_ProtocolError)) else inl (cont c)
    else if fkind_eqb (sf_kind fr) KHeaders && (sf_sid fr <=? sc_highestID c) then
      inl (cont (write_goaway c (sf_sid fr) c_ProtocolError))
    else
    let c := if fkind_eqb (sf_kind fr) KHeaders then upd_highestID c (sf_sid fr) else c in
    if fkind_eqb (sf_kind fr) KHeaders && ((cf_maxStreams cfg <=? sc_open c)%Z || wasClosing) then
      let c1 := mark_closed (write_reset c (sf_sid fr) c_RefusedStreamError) (sf_sid fr) true in
      inl (discard_or_break (discard_header_block dec_field cfg c1 fr))
    else if sf_sid fr <? sc_lastID c then inl (cont (write_goaway c (sf_sid fr) c_ProtocolError))
    else
      if fkind_eqb (sf_kind fr) KHeaders && sc_closing c then
        let c1 := mark_closed (write_reset c (sf_sid fr) c_RefusedStreamError) (sf_sid fr) true in
        inl (discard_or_break (discard_header_block dec_field cfg c1 fr))
      else
        let c1 := if fkind_eqb (sf_kind fr) KHeaders then upd_lastID c (sf_sid fr) else c in
        let s := set_orig_started (new_stream (sf_sid fr) (sc_initWin c1)) (sf_kind fr) (sc_now c1) in
        let c2 := upd_strms c1 (sc_strms c1 ++ [s]) in
        let c3 := if fkind_eqb (sf_kind fr) KHeaders then upd_open c2 (sc_open c2 + 1) else c2 in
        inr (c3, s)
  end.

(* the frame on its stream *)
Definition sl_known c1 (s : stream) (fr : sframe) (wasClosing : bool) : sconn * bool :=
  let pre2 : (sconn * bool) + sconn :=
    if fkind_eqb (sf_kind fr) KHeaders then
      match get_previous_headers (sc_strms c1) with
      | Some p =>
        if negb (st_headersFinished p) then
          let '(c2, p') := write_error c1 (Some p) (EGoAway c_ProtocolError) in
          inl (cont (match p' with Some p' => put c2 p' | None => c2 end))
        else inr (implicit_close (S (length (sc_strms c1))) c1 (st_id s))
      | None => inr (implicit_close (S (length (sc_strms c1))) c1 (st_id s))
      end
    else inr c1 in
  match pre2 with
  | inl r => r
  | inr c2 =>
    let '(c3, s3, e) := handle_frame dec_field cfg c2 s fr in
    match e with
    | Some e =>
      let '(c4, s4) := write_error c3 (Some s3) e in
      let s5 := match s4 with Some x => set_state x SClosed | None => set_state s3 SClosed end in
      match e with
      | EGoAway code => if negb (code =? c_NoError) then brk (put c4 s5) else after_frame cfg c4 s5 fr wasClosing
      | EReset _ => after_frame cfg c4 s5 fr wasClosing
      | EPanic => brk (note c3 (OPanic 1 0))
      end
    | None => after_frame cfg c3 s3 fr wasClosing
    end
  end.

Lemma sl_frame_split c fr : (sf_sid fr =? 0) = false ->
  sl_frame dec_field enc_set_max cfg c fr =
  if fkind_eqb (sf_kind fr) KCont && negb (sc_discardID c =? 0) && (sf_sid fr =? sc_discardID c)
  then discard_or_break (discard_header_block dec_field cfg c fr)
  else match sl_pre c fr with
       | inl r => r
       | inr (c1, s) => sl_known c1 s fr (sc_closing c)
       end.
Proof. intro Z. unfold sl_frame. rewrite Z. reflexivity. Qed.

(* ---------- leaves where the stream loop ends ---------- *)

Lemma existsb_rev {A} (f : A -> bool) l : existsb f (rev l) = existsb f l.
Proof.
  induction l as [|a t IH]; [reflexivity|]. cbn [rev existsb]. rewrite existsb_app, IH. cbn [existsb].
  rewrite orb_false_r. apply orb_comm.
Qed.

Lemma exit_noisy l : existsb is_exit (filter noisy l) = existsb is_exit l.
Proof.
  induction l as [|o t IH]; [reflexivity|]. cbn [filter existsb]. destruct (noisy o) eqn:N; cbn [existsb]; rewrite IH; [reflexivity|].
  unfold noisy, is_exit in *. destruct (strip_late o); try discriminate; reflexivity.
Qed.

Lemma classify_exit sid l : existsb is_exit l = true -> conn_err (classify sid l) = true.
Proof. intro H. unfold classify. destruct (first_some is_goaway l); [reflexivity|]. rewrite H. reflexivity. Qed.

Lemma G_over c s ph i c' d :
  feed c (IIn i) = c' -> sc_sl_done c' = true -> sc_out c' = d ++ sc_out c -> existsb is_exit d = true ->
  (RS.allowed s (abs_input i) (classify (input_sid i) (rev (filter noisy d))) = true \/ known_deviation hstate c s i = true) ->
  (forall sid rq, In (ODispatch sid rq) d -> ph_next ph (IIn i) sid = RS.PDone) ->
  G c s ph i (feed c (IIn i)).
Proof.
  intros E Hsl Ho Hex Ha Hd. rewrite E. exists d. split; [exact Ho|].
  assert (CE : conn_err (classify (input_sid i) (rev (filter noisy d))) = true).
  { apply classify_exit. rewrite existsb_rev, exit_noisy. exact Hex. }
  assert (RE : resolve s (abs_input i) (classify (input_sid i) (rev (filter noisy d))) = classify (input_sid i) (rev (filter noisy d))).
  { destruct (classify _ _); try discriminate; reflexivity. }
  cbv zeta. rewrite RE. split; [exact Ha|]. rewrite Hsl. split; [|exact Hd].
  apply dead_after_outs, dead_spec_next_conn, CE.
Qed.

Lemma first_goaway_skip l t : (forall o, In o l -> is_goaway o = None) -> first_some is_goaway (l ++ t) = first_some is_goaway t.
Proof.
  induction l as [|o l IH]; intros H; [reflexivity|]. cbn [app first_some]. rewrite (H o (or_introl eq_refl)).
  apply IH. intros o' Ho'. apply H. right. exact Ho'.
Qed.

Lemma classify_goaway sid l l0 code t : (forall o, In o l -> is_goaway o = None) ->
  classify sid (l ++ OGoAway l0 code :: t) = RS.ConnErr code.
Proof. intro H. unfold classify. rewrite first_goaway_skip by exact H. reflexivity. Qed.

Lemma classify_close sid l : (forall o, In o l -> is_goaway o = None) -> existsb is_exit l = true ->
  classify sid l = RS.ConnClose.
Proof.
  intros H X. unfold classify. rewrite <- (app_nil_r l) at 1. rewrite first_goaway_skip by exact H. cbn [first_some].
  rewrite X. reflexivity.
Qed.

Lemma no_goaway_rev_filter dX : (forall o, In o dX -> is_goaway o = None) ->
  forall o, In o (rev (filter noisy dX)) -> is_goaway o = None.
Proof. intros H o Hin. apply in_rev in Hin. apply filter_In in Hin. apply H, Hin. Qed.

(* discardHeaderBlock failed: GOAWAY (or a panic) and the stream loop ends *)
Lemma G_discard_break c s ph fr cX cD e dX :
  feed c (IIn (RFrame fr)) = fst (discard_or_break (cD, Some e)) -> disc_err e ->
  dd hstate cX cD -> sc_out cX = dX ++ sc_out c -> sc_sl_done cX = false -> sc_wl_dead cX = false ->
  (forall sid rq, ~ In (ODispatch sid rq) dX) -> (forall o, In o dX -> is_goaway o = None) ->
  (match e with
   | EGoAway code => RS.allowed s (RS.Frame (abs_frame fr)) (RS.ConnErr code) = true
   | _ => RS.allowed s (RS.Frame (abs_frame fr)) RS.ConnClose = true
   end \/ known_deviation hstate c s (RFrame fr) = true) ->
  G c s ph (RFrame fr) (feed c (IIn (RFrame fr))).
Proof.
  intros E De (dv & di & dp & dn & ->) Ho Hsl Hwl Hnd Hng Ha.
  destruct e as [code|code|]; [ | contradiction | ].
  - (* GOAWAY(code) *)
    cbn [discard_or_break write_error fst] in E.
    apply (G_over c s ph (RFrame fr) _ (OExit 1 0 :: OGoAway (sc_lastID cX) code :: dX) E).
    + reflexivity.
    + rewrite sc_out_brk, sc_out_write_goaway. sc_cbn. rewrite Hwl, Hsl, Ho. reflexivity.
    + reflexivity.
    + cbn [abs_input input_sid filter noisy strip_late rev]. rewrite <- app_assoc. cbn [app].
      rewrite classify_goaway by (apply no_goaway_rev_filter, Hng). exact Ha.
    + intros sid rq [H|[H|H]]; try discriminate. exfalso. exact (Hnd sid rq H).
  - (* panic *)
    cbn [discard_or_break fst] in E.
    apply (G_over c s ph (RFrame fr) _ (OExit 1 0 :: OPanic 1 0 :: dX) E).
    + reflexivity.
    + rewrite sc_out_brk. cbn [sc_out note upd_out]. sc_cbn. rewrite Ho. reflexivity.
    + reflexivity.
    + cbn [abs_input input_sid filter noisy strip_late rev]. rewrite classify_close; [exact Ha | |].
      * intros o Hin. apply in_app_or in Hin. destruct Hin as [Hin|[<-|[]]]; [|reflexivity].
        apply in_app_or in Hin. destruct Hin as [Hin|[<-|[]]]; [|reflexivity]. apply (no_goaway_rev_filter dX Hng), Hin.
      * rewrite existsb_app. cbn [existsb is_exit strip_late]. apply orb_true_r.
    + intros sid rq [H|[H|H]]; try discriminate. exfalso. exact (Hnd sid rq H).
Qed.

Lemma G_live c s ph fr c' d :
  feed c (IIn (RFrame fr)) = c' -> sc_sl_done c' = false -> sc_out c' = d ++ sc_out c ->
  (RS.allowed s (RS.Frame (abs_frame fr)) (resolve s (RS.Frame (abs_frame fr)) (classify (sf_sid fr) (rev (filter noisy d)))) = true \/
   known_deviation hstate c s (RFrame fr) = true) ->
  live_tuple hstate c' (after_outs (RS.spec_next s (RS.Frame (abs_frame fr)) (resolve s (RS.Frame (abs_frame fr)) (classify (sf_sid fr) (rev (filter noisy d))))) d)
             (ph_next ph (IIn (RFrame fr))) ->
  (forall sid rq, In (ODispatch sid rq) d -> ph_next ph (IIn (RFrame fr)) sid = RS.PDone) ->
  G c s ph (RFrame fr) (feed c (IIn (RFrame fr))).
Proof.
  intros E Hsl Ho Ha Hl Hd. rewrite E. exists d. split; [exact Ho|]. cbn [abs_input input_sid]. cbv zeta.
  split; [exact Ha|]. rewrite Hsl. split; [exact Hl | exact Hd].
Qed.

Lemma Zn_of_odd n : N.odd n = true -> (n =? 0) = false.
Proof. intro O. destruct (n =? 0) eqn:Z; [apply N.eqb_eq in Z; rewrite Z in O; discriminate | reflexivity]. Qed.

(* the verdicts for HEADERS on an idle odd stream *)
Lemma idle_headers_verdicts s fr : RS.block s = None -> N.odd (sf_sid fr) = true -> sf_kind fr = KHeaders ->
  RS.st_of s (sf_sid fr) = RS.Idle ->
  RS.verdicts s (RS.Frame (abs_frame fr)) =
  (if sf_dep fr =? sf_sid fr then [RS.SE c_ProtocolError] else if RS.goaway s then [RS.VIgnore] else [RS.VProcess])
  ++ RS.policy ++ RS.block_errors.
Proof.
  intros B O K Hi. rewrite verdicts_stream; [|exact B | intro Z; rewrite Z in O; discriminate | rewrite K; exact I].
  unfold RS.on_stream, RS.by_state, abs_frame. cbn [RS.f_kind RS.f_sid RS.f_self]. rewrite Hi, K. cbn [abs_kind].
  rewrite <- N.negb_odd, O. cbn [negb]. rewrite app_nil_r. reflexivity.
Qed.

(* HEADERS for a new stream refused: RST_STREAM(REFUSED_STREAM), its block decoded and dropped *)
Lemma G_refuse c s ph fr ec' :
  Sim c s ph -> sc_sl_done c = false -> seq_ok c fr ec' -> N.odd (sf_sid fr) = true -> tbl c (sf_sid fr) = None ->
  sf_kind fr = KHeaders -> ring_find c (sf_sid fr) = None -> sc_highestID c < sf_sid fr ->
  feed c (IIn (RFrame fr)) =
    fst (discard_or_break (discard_header_block dec_field cfg
           (mark_closed (write_reset (upd_highestID (upd_expectCont c ec') (sf_sid fr)) (sf_sid fr) c_RefusedStreamError) (sf_sid fr) true) fr)) ->
  G c s ph (RFrame fr) (feed c (IIn (RFrame fr))).
Proof.
  intros HS Hsl SQ Od Tn KK Rn Hgt E.
  pose proof (S_aux _ _ _ _ HS) as [AT AH]. pose proof (A_wl _ _ AT) as Hwl. pose proof (S_wf _ _ _ _ HS) as W.
  pose proof (Zn_of_odd _ Od) as Zn.
  assert (EC : sc_expectCont c = 0 /\ ec' = if flag_has (sf_flags fr) FL_EH then 0 else sf_sid fr).
  { destruct SQ as [(E0 & _ & ->)|(_ & K & _)]; [|congruence]. split; [exact E0|]. rewrite KK. cbn [fkind_eqb andb].
    destruct (flag_has _ _); reflexivity. }
  destruct EC as [E0 EC].
  assert (BN : RS.block s = None) by (rewrite (block_of_ec hstate c s (S_blk _ _ _ _ HS)), E0; reflexivity).
  destruct (proj2 (unknown_state c s ph _ HS Od Tn) Hgt) as [Hidle _].
  pose proof (idle_headers_verdicts s fr BN Od KK Hidle) as V.
  set (cR := mark_closed (write_reset (upd_highestID (upd_expectCont c ec') (sf_sid fr)) (sf_sid fr) c_RefusedStreamError) (sf_sid fr) true) in *.
  assert (RingR : sc_ring cR = sc_ring (mark_closed c (sf_sid fr) true) /\ sc_oldest cR = sc_oldest (mark_closed c (sf_sid fr) true)).
  { apply mark_closed_ring_ext; sc_rw; reflexivity. }
  assert (OutR : sc_out cR = [ORst (sf_sid fr) c_RefusedStreamError] ++ sc_out c).
  { unfold cR. rewrite sc_out_mark_closed. unfold write_reset. rewrite sc_out_emit. sc_cbn. rewrite Hwl, Hsl. reflexivity. }
  assert (SlR : sc_sl_done cR = false) by (unfold cR; sc_rw; exact Hsl).
  assert (WlR : sc_wl_dead cR = false) by (unfold cR; sc_rw; exact Hwl).
  destruct (discard_header_block_spec hstate dec_field cfg cR fr) as [DD DE].
  destruct (discard_header_block dec_field cfg cR fr) as [cD [e|]] eqn:DH; cbn [fst snd] in DD, DE.
  - (* the block does not decode: connection error *)
    apply (G_discard_break c s ph fr cR cD e [ORst (sf_sid fr) c_RefusedStreamError] E DE DD OutR SlR WlR).
    + intros sid rq [H|[]]; discriminate.
    + intros o [<-|[]]; reflexivity.
    + left. destruct e as [code|code|]; cbn in DE; try contradiction; apply allowed_table; rewrite V.
      * destruct DE as [-> | [-> | ->]]; destruct (sf_dep fr =? sf_sid fr), (RS.goaway s); reflexivity.
      * destruct (sf_dep fr =? sf_sid fr), (RS.goaway s); reflexivity.
  - (* refused *)
    cbn [discard_or_break fst cont] in E. destruct DD as (dv & di & dp & dn & DD).
    assert (Fc : sc_strms cD = sc_strms c /\ sc_lastID cD = sc_lastID c /\ sc_rl_done cD = sc_rl_done c /\ sc_wl_dead cD = sc_wl_dead c /\
                 sc_readerQ cD = sc_readerQ c /\ sc_highestID cD = sf_sid fr /\ sc_sl_done cD = false /\ sc_closing cD = sc_closing c /\
                 sc_expectCont cD = ec' /\ sc_out cD = [ORst (sf_sid fr) c_RefusedStreamError] ++ sc_out c /\
                 sc_ring cD = sc_ring (mark_closed c (sf_sid fr) true) /\ sc_oldest cD = sc_oldest (mark_closed c (sf_sid fr) true)).
    { rewrite DD. sc_cbn. repeat split; try exact OutR; try apply RingR; try exact SlR;
        unfold cR; sc_rw; first [reflexivity | assumption]. }
    destruct Fc as (F1 & F2 & F3 & F4 & F5 & F6 & F7 & F8 & F9 & F10 & F11 & F12).
    assert (RF : forall id, ring_find cD id = ring_find (mark_closed c (sf_sid fr) true) id) by (intro id; apply ring_find_ext, F11).
    assert (Tb : forall id, tbl cD id = tbl c id) by (intro id; unfold SrvRfcDefs.tbl; rewrite F1; reflexivity).
    (* the reaction *)
    assert (CL : classify (sf_sid fr) (rev (filter noisy [ORst (sf_sid fr) c_RefusedStreamError])) = RS.StreamErr c_RefusedStreamError).
    { cbn [filter noisy strip_late rev app]. unfold classify. cbn [first_some is_goaway strip_late existsb is_exit orb]. rewrite Zn.
      cbn [first_some is_rst strip_late]. rewrite N.eqb_refl. reflexivity. }
    apply (G_live c s ph fr cD [ORst (sf_sid fr) c_RefusedStreamError] E F7 F10); rewrite ?CL; cbn [resolve].
    + left. apply allowed_table. rewrite V. destruct (sf_dep fr =? sf_sid fr), (RS.goaway s); reflexivity.
    + set (s1 := RS.spec_next s (RS.Frame (abs_frame fr)) (RS.StreamErr c_RefusedStreamError)).
      assert (W1 : wf s1) by (apply wf_spec_next, W).
      assert (S1sid : RS.st_of s1 (sf_sid fr) = RS.Closed RS.WeRst).
      { unfold s1. rewrite (st_of_spec_next_same s (abs_frame fr)) by exact Od. cbn [conn_err next_st].
        change (RS.f_sid (abs_frame fr)) with (sf_sid fr). rewrite Hidle. unfold RS.reset, abs_frame. cbn [RS.f_kind]. rewrite KK. reflexivity. }
      assert (S1hi : RS.highest s1 = sf_sid fr).
      { unfold s1. rewrite highest_spec_next by exact W. cbn [conn_err negb andb next_st]. change (RS.f_sid (abs_frame fr)) with (sf_sid fr).
        rewrite Zn, Hidle. unfold RS.reset, abs_frame. cbn [RS.f_kind negb andb]. rewrite KK. cbn [abs_kind].
        rewrite (S_hi _ _ _ _ HS). lia. }
      assert (AO : after_outs s1 [ORst (sf_sid fr) c_RefusedStreamError] = RS.spec_sent s1 (RS.SentRst (sf_sid fr))) by reflexivity.
      assert (NotIn : forall st, In st (sc_strms c) -> st_id st <> sf_sid fr).
      { intros st H X. pose proof (In_search _ _ (A_nodup _ _ AT) H) as Y. rewrite X in Y. unfold SrvRfcDefs.tbl in Tn. congruence. }
      apply (live_tuple_one hstate c cD s _ ph _ (sf_sid fr) HS).
      * (* Aux *)
        split.
        -- apply (AuxT_ring_change hstate c cD AT F1 F2 F3 F4 F5); [lia | | ].
           ++ eapply ring_ok_ext; [exact F11 | exact F12 | apply ring_ok_mark, (A_ring _ _ AT)].
           ++ intros st H. rewrite RF. apply ring_find_mark_other; [apply (A_ring _ _ AT) | apply NotIn, H].
        -- destruct AH as [H1 H2 H3 H4]. constructor.
           ++ intros st H Hf. rewrite F1 in H. pose proof (H1 st H Hf) as X. rewrite E0 in X.
              destruct (A_ids _ _ AT st H) as [O _]. rewrite X in O. discriminate.
           ++ intros st Hne H. rewrite F9 in Hne, H. rewrite Tb in H.
              destruct (ec'_cases c fr ec' SQ) as [Z|Z]; [congruence | rewrite Z in H; congruence].
           ++ rewrite F9. intro Hne. destruct (ec'_cases c fr ec' SQ) as [Z|Z]; [congruence | rewrite Z; exact Od].
           ++ rewrite DE. destruct (flag_has (sf_flags fr) FL_EH); [congruence|]. intros _. split; [rewrite Tb; exact Tn | rewrite F6; lia].
      * intros id Hne. split; [rewrite Tb; reflexivity|]. rewrite RF. apply ring_find_mark_other; [apply (A_ring _ _ AT) | exact Hne].
      * intros _. rewrite AO. unfold SrvRfcDefs.view. rewrite Tb, Tn, RF, ring_find_mark_same by apply (A_ring _ _ AT). rewrite Rn.
        cbn [rel1 rel]. rewrite st_of_spec_sent by exact W1. cbn [sent_sid]. rewrite N.eqb_refl, S1sid. reflexivity.
      * intros id Hne. rewrite AO. rewrite st_of_spec_sent by exact W1. cbn [sent_sid].
        replace (sf_sid fr =? id) with false by lia. apply sdrift_next; [exact W | exact Hne].
      * unfold R_block. rewrite F9. apply (block_after c s fr ec' _ _ SQ); [lia | exact (S_blk _ _ _ _ HS)].
      * rewrite AO, goaway_spec_sent. unfold s1. rewrite goaway_spec_next. cbn [conn_err]. rewrite orb_false_r, F8. exact (S_ga _ _ _ _ HS).
      * rewrite AO, highest_spec_sent by exact W1. rewrite S1hi, F6. reflexivity.
      * intros Hne _. left. rewrite DE, F9, EC. reflexivity.
      * intros st H. rewrite F1 in H. cbn [ph_next]. replace (st_id st =? sf_sid fr) with false by (pose proof (NotIn st H); lia).
        exact (S_ph _ _ _ _ HS st H).
      * intros Hc id O L. rewrite F6 in L. cbn [ph_next]. replace (id =? sf_sid fr) with false by lia.
        apply (S_new _ _ _ _ HS); [congruence | exact O | lia].
    + intros sid rq [H|[]]; discriminate.
Qed.

Lemma ec'_hdr c fr ec' : seq_ok c fr ec' -> sf_kind fr = KHeaders \/ sf_kind fr = KCont ->
  ec' = if flag_has (sf_flags fr) FL_EH then 0 else sf_sid fr.
Proof.
  intros [(_ & K & ->)|(_ & K & _ & ->)] [H|H]; try congruence.
  rewrite H. cbn [fkind_eqb andb]. destruct (flag_has _ _); reflexivity.
Qed.

Lemma receive_closed w f : RS.receive (RS.Closed w) f = RS.Closed w.
Proof. unfold RS.receive. destruct (RS.f_kind f); reflexivity. Qed.

(* a header block frame on a stream we reset: decoded and dropped *)
Lemma G_sl_discard c s ph fr ec' :
  Sim c s ph -> sc_sl_done c = false -> seq_ok c fr ec' -> N.odd (sf_sid fr) = true -> tbl c (sf_sid fr) = None ->
  sf_kind fr = KHeaders \/ sf_kind fr = KCont -> sf_sid fr <= sc_highestID c ->
  RS.verdicts s (RS.Frame (abs_frame fr)) = RS.VIgnore :: RS.block_errors ->
  feed c (IIn (RFrame fr)) = fst (discard_or_break (discard_header_block dec_field cfg (upd_expectCont c ec') fr)) ->
  G c s ph (RFrame fr) (feed c (IIn (RFrame fr))).
Proof.
  intros HS Hsl SQ Od Tn KK Hle V E.
  pose proof (S_aux _ _ _ _ HS) as [AT AH]. pose proof (A_wl _ _ AT) as Hwl.
  destruct (proj1 (unknown_state c s ph _ HS Od Tn) Hle) as [w Hw].
  set (c1 := upd_expectCont c ec') in *.
  destruct (discard_header_block_spec hstate dec_field cfg c1 fr) as [DD DE].
  destruct (discard_header_block dec_field cfg c1 fr) as [cD [e|]] eqn:DH; cbn [fst snd] in DD, DE.
  - apply (G_discard_break c s ph fr c1 cD e [] E DE DD); try reflexivity; try assumption.
    + intros sid rq [].
    + intros o [].
    + left. destruct e as [code|code|]; cbn in DE; try contradiction; apply allowed_table; rewrite V.
      * destruct DE as [-> | [-> | ->]]; reflexivity.
      * reflexivity.
  - cbn [discard_or_break fst cont] in E. destruct DD as (dv & di & dp & dn & DD).
    apply (G_sl_quiet c s ph fr ec' cD []); try assumption.
    + rewrite DD. repeat split.
    + rewrite DD. exact Hsl.
    + rewrite DD. reflexivity.
    + rewrite DD. reflexivity.
    + rewrite DD. reflexivity.
    + reflexivity.
    + intros sid rq [].
    + left. right. rewrite V. reflexivity.
    + rewrite Hw. apply receive_closed.
    + rewrite DE. destruct (flag_has _ _); [right; left; reflexivity | right; right; split; [reflexivity | exact Hle]].
    + intros _. rewrite DE. symmetry. apply (ec'_hdr c fr ec' SQ KK).
    + intros _ L. lia.
Qed.

(* crediting the connection window: at most a WINDOW_UPDATE on stream 0 *)
Lemma credit_out c n : sc_sl_done c = false -> sc_wl_dead c = false ->
  exists dw, sc_out (credit_conn_window cfg c n) = dw ++ sc_out c /\ filter noisy dw = [] /\ (forall sid rq, ~ In (ODispatch sid rq) dw).
Proof.
  intros A B. unfold credit_conn_window. destruct (n <=? 0)%Z.
  - exists []. split; [reflexivity|]. split; [reflexivity | intros sid rq []].
  - destruct (_ <? _)%Z.
    + exists [OWinUpd 0 (cf_maxWindow cfg - (sc_currentWindow c - n))%Z]. split.
      * unfold write_window_update. rewrite sc_out_emit. sc_cbn. rewrite B, A. reflexivity.
      * split; [reflexivity | intros sid rq [H|[]]; discriminate].
    + exists []. split; [reflexivity|]. split; [reflexivity | intros sid rq []].
Qed.

(* a stream made for this frame *)
Definition created c (fr : sframe) (c2 : sconn) (st : stream) : Prop :=
  st = set_orig_started (new_stream (sf_sid fr) (sc_initWin c)) (sf_kind fr) (sc_now c) /\
  ring_find c (sf_sid fr) = None /\ sc_lastID c <= sf_sid fr /\
  match sf_kind fr with
  | KHeaders => sc_highestID c < sf_sid fr /\ sc_closing c = false /\
                c2 = upd_open (upd_strms (upd_lastID (upd_highestID c (sf_sid fr)) (sf_sid fr)) (sc_strms c ++ [st])) (sc_open c + 1)
  | KRst | KPriority => False
  | _ => c2 = upd_strms c (sc_strms c ++ [st])
  end.

Lemma closed_verdicts_hdr s fr w : RS.st_of s (sf_sid fr) = RS.Closed w -> w <> RS.Implicit ->
  RS.block s = None -> sf_sid fr <> 0 -> sf_kind fr = KHeaders ->
  RS.verdicts s (RS.Frame (abs_frame fr)) =
  match w with
  | RS.WeRst => RS.VIgnore :: RS.block_errors
  | RS.PeerRst => [RS.SE c_StreamClosedError]
  | _ => [RS.CE c_StreamClosedError; RS.SE c_StreamClosedError]
  end.
Proof.
  intros Hw Hi B Z K. rewrite verdicts_stream; [|exact B | exact Z | rewrite K; exact I].
  unfold RS.on_stream, RS.by_state, abs_frame. cbn [RS.f_kind RS.f_sid]. rewrite Hw, K. cbn [abs_kind].
  destruct w; try congruence; rewrite app_nil_r; reflexivity.
Qed.

Lemma sl_pre_unknown c s ph fr ec' :
  Sim c s ph -> sc_sl_done c = false -> seq_ok c fr ec' -> N.odd (sf_sid fr) = true ->
  match sf_kind fr with KPing | KPush => False | _ => True end -> tbl c (sf_sid fr) = None ->
  (fkind_eqb (sf_kind fr) KCont && negb (sc_discardID c =? 0) && (sf_sid fr =? sc_discardID c) = false)%bool ->
  match sl_pre (upd_expectCont c ec') fr with
  | inl r => feed c (IIn (RFrame fr)) = fst r -> G c s ph (RFrame fr) (feed c (IIn (RFrame fr)))
  | inr (c2, st) => created (upd_expectCont c ec') fr c2 st
  end.
Proof.
  intros HS Hsl SQ Od Kok Tn ND.
  pose proof (S_aux _ _ _ _ HS) as [AT AH]. pose proof (A_wl _ _ AT) as Hwl. pose proof (S_wf _ _ _ _ HS) as W.
  pose proof (Zn_of_odd _ Od) as Zn. assert (Znn : sf_sid fr <> 0) by lia.
  set (c1 := upd_expectCont c ec').
  unfold sl_pre.
  replace (if sf_sid fr <=? sc_lastID c1 then strms_search (sc_strms c1) (sf_sid fr) else None) with (@None stream)
    by (change (strms_search (sc_strms c1) (sf_sid fr)) with (tbl c (sf_sid fr)); rewrite Tn; destruct (_ <=? _); reflexivity).
  cbv zeta.
  destruct (unknown_state c s ph _ HS Od Tn) as [Hle Hgt].
  (* the header-block register *)
  assert (BK : (sf_kind fr <> KCont /\ RS.block s = None /\ sc_expectCont c = 0) \/
               (sf_kind fr = KCont /\ RS.block s = Some (sf_sid fr) /\ sc_expectCont c = sf_sid fr)).
  { pose proof (block_of_ec hstate c s (S_blk _ _ _ _ HS)) as B. destruct SQ as [(E0 & K & _)|(E0 & K & Sd & _)].
    - left. rewrite B, E0. auto.
    - right. rewrite B. replace (sc_expectCont c =? 0) with false by lia. rewrite Sd. auto. }
  change (sc_lastID c1) with (sc_lastID c). change (sc_highestID c1) with (sc_highestID c). change (in_ring c1 (sf_sid fr)) with (in_ring c (sf_sid fr)).
  change (ring_find c1 (sf_sid fr)) with (ring_find c (sf_sid fr)). change (sc_closing c1) with (sc_closing c).
  (* RST_STREAM *)
  destruct (fkind_eqb (sf_kind fr) KRst) eqn:KR.
  { apply fkind_eqb_eq in KR. destruct BK as [(K & BN & E0)|(K & _)]; [|congruence].
    assert (V : RS.verdicts s (RS.Frame (abs_frame fr)) = RS.on_stream s (abs_frame fr))
      by (apply verdicts_stream; [exact BN | exact Znn | rewrite KR; exact I]).
    destruct ((sc_lastID c <? sf_sid fr) && (sc_highestID c <? sf_sid fr))%bool eqn:C; cbn [fst cont]; intro E.
    - apply andb_true_iff in C. destruct C as [_ C2]. destruct (Hgt ltac:(lia)) as [Hidle _].
      apply (G_sl_goaway c s ph fr ec' c_ProtocolError HS Hsl SQ Od Tn E).
      left. apply allowed_table. rewrite V. unfold RS.on_stream, RS.by_state, abs_frame. cbn [RS.f_kind RS.f_sid]. rewrite Hidle, KR. reflexivity.
    - assert (L : sf_sid fr <= sc_highestID c).
      { apply andb_false_iff in C. pose proof (A_last _ _ AT). destruct C as [C|C]; lia. }
      destruct (Hle L) as [w Hw].
      apply (G_sl_quiet c s ph fr ec' c1 []); try assumption; try reflexivity.
      + repeat split.
      + intros sid rq [].
      + left. right. rewrite V. unfold RS.on_stream, RS.by_state, abs_frame. cbn [RS.f_kind RS.f_sid]. rewrite Hw, KR. cbn [abs_kind].
        destruct w; reflexivity.
      + rewrite Hw. apply receive_closed.
      + left. reflexivity.
      + intro Hne. exfalso. apply Hne. destruct SQ as [(_ & _ & ->)|(_ & K' & _)]; [rewrite KR; reflexivity | congruence].
      + intros _ L'. lia. }
  apply fkind_eqb_neq in KR.
  (* remembered in the ring *)
  destruct (in_ring c (sf_sid fr)) eqn:IR.
  { rewrite in_ring_find in IR. destruct (ring_find c (sf_sid fr)) as [b|] eqn:RF; [|discriminate].
    pose proof (ring_state c s ph _ b HS Od Tn RF) as RSt.
    assert (L : sf_sid fr <= sc_highestID c).
    { destruct (N.le_gt_cases (sf_sid fr) (sc_highestID c)) as [L|L]; [exact L|]. destruct (Hgt L) as [_ X]. congruence. }
    destruct (Hle L) as [w Hw].
    cbv beta iota.
    destruct BK as [(K & BN & E0)|(K & BS & E0)].
    - (* outside a header block *)
      assert (V : match sf_kind fr with KCont | KSettings | KPing | KGoAway | KPush => True | _ =>
                  RS.verdicts s (RS.Frame (abs_frame fr)) = RS.on_stream s (abs_frame fr) end).
      { destruct (sf_kind fr) eqn:KK; try exact I; apply verdicts_stream; try assumption; rewrite KK; exact I. }
      assert (EC0 : sf_kind fr <> KHeaders -> ec' = 0).
      { intro NH. destruct SQ as [(_ & _ & ->)|(_ & K' & _)]; [|congruence]. apply fkind_eqb_neq in NH. rewrite NH. reflexivity. }
      revert Kok V EC0. destruct (sf_kind fr) eqn:KK; intros Kok V EC0; try contradiction; try congruence.
      + (* DATA *)
        destruct b; cbn [fst cont]; intro E.
        * destruct (credit_out c1 (Z.of_N (sf_len fr)) Hsl Hwl) as (dw & Ho & Hq & Hnd).
          apply (G_sl_quiet c s ph fr ec' _ dw HS Hsl SQ Od Tn E); try assumption.
          -- repeat split; sc_rw; reflexivity.
          -- sc_rw. exact Hsl.
          -- sc_rw. reflexivity.
          -- sc_rw. reflexivity.
          -- left. right. rewrite V. unfold RS.on_stream, RS.by_state, abs_frame. cbn [RS.f_kind RS.f_sid]. rewrite RSt, KK. reflexivity.
          -- rewrite Hw. apply receive_closed.
          -- left. sc_rw. reflexivity.
          -- intro Hne. exfalso. apply Hne, EC0. discriminate.
          -- intros _ L'. lia.
        * apply (G_sl_goaway c s ph fr ec' c_StreamClosedError HS Hsl SQ Od Tn E).
          left. apply allowed_table. rewrite V. unfold RS.on_stream, RS.by_state, abs_frame. cbn [RS.f_kind RS.f_sid].
          destruct RSt as [-> | ->]; rewrite KK; reflexivity.
      + (* HEADERS *)
        destruct b; cbn [fst cont]; intro E.
        * apply (G_sl_discard c s ph fr ec' HS Hsl SQ Od Tn); auto.
          rewrite (closed_verdicts_hdr s fr RS.WeRst RSt); auto. discriminate.
        * apply (G_sl_goaway c s ph fr ec' c_StreamClosedError HS Hsl SQ Od Tn E).
          left. apply allowed_table.
          destruct RSt as [X | X]; rewrite (closed_verdicts_hdr s fr _ X) by (auto; discriminate); reflexivity.
      + (* PRIORITY *)
        cbn [fst cont]. intro E.
        apply (G_sl_quiet c s ph fr ec' c1 [] HS Hsl SQ Od Tn E); try assumption; try reflexivity.
        * repeat split.
        * intros sid rq [].
        * left. right. rewrite V. unfold RS.on_stream, RS.by_state, abs_frame. cbn [RS.f_kind RS.f_sid RS.f_self]. rewrite Hw, KK. cbn [abs_kind].
          destruct w; reflexivity.
        * rewrite Hw. apply receive_closed.
        * left. reflexivity.
        * intro Hne. exfalso. apply Hne, EC0. discriminate.
        * intros _ L'. lia.
      + (* SETTINGS with a stream id *)
        cbn [fst cont]. intro E.
        apply (G_sl_goaway c s ph fr ec' c_StreamClosedError HS Hsl SQ Od Tn E).
        right. unfold known_deviation. rewrite KK, Zn, in_ring_find, RF. reflexivity.
      + (* GOAWAY with a stream id *)
        cbn [fst cont]. intro E.
        apply (G_sl_goaway c s ph fr ec' c_StreamClosedError HS Hsl SQ Od Tn E).
        right. unfold known_deviation. rewrite KK, Zn, in_ring_find, RF. reflexivity.
      + (* WINDOW_UPDATE *)
        cbn [fst cont]. intro E.
        apply (G_sl_quiet c s ph fr ec' c1 [] HS Hsl SQ Od Tn E); try assumption; try reflexivity.
        * repeat split.
        * intros sid rq [].
        * destruct b.
          -- left. right. rewrite V. unfold RS.on_stream, RS.by_state, abs_frame. cbn [RS.f_kind RS.f_sid]. rewrite RSt, KK. reflexivity.
          -- destruct RSt as [X | X].
             ++ left. right. rewrite V. unfold RS.on_stream, RS.by_state, abs_frame. cbn [RS.f_kind RS.f_sid]. rewrite X, KK. reflexivity.
             ++ right. unfold known_deviation. rewrite KK, RF, X. reflexivity.
        * rewrite Hw. apply receive_closed.
        * left. reflexivity.
        * intro Hne. exfalso. apply Hne, EC0. discriminate.
        * intros _ L'. lia.
    - (* CONTINUATION of a block whose HEADERS was a connection error *)
      rewrite K. cbn [fst cont]. intro E.
      apply (G_sl_goaway c s ph fr ec' c_StreamClosedError HS Hsl SQ Od Tn E).
      left. apply allowed_dead; [|reflexivity].
      assert (Hne : sc_expectCont c <> 0) by lia.
      destruct (S_cont _ _ _ _ HS Hne) as [X|X]; [rewrite E0; exact Tn | | exact X].
      exfalso. rewrite K in ND. cbn [fkind_eqb andb] in ND. rewrite X, E0 in ND. rewrite Zn, N.eqb_refl in ND. discriminate. }
  (* not remembered *)
  rewrite in_ring_find in IR. destruct (ring_find c (sf_sid fr)) as [b|] eqn:RN; [discriminate|]. clear IR.
  assert (Old : sf_sid fr <= sc_highestID c -> RS.st_of s (sf_sid fr) = RS.Closed RS.Implicit).
  { intro L. pose proof (S_str _ _ _ _ HS _ Od) as R. rewrite (view_none c _ Tn), RN in R.
    replace (sf_sid fr <=? sc_highestID c) with true in R by lia. exact R. }
  assert (DeadCont : sf_kind fr = KCont -> RS.dead s = true).
  { intro K. destruct BK as [(K' & _)|(_ & _ & E0)]; [congruence|].
    assert (Hne : sc_expectCont c <> 0) by lia.
    destruct (S_cont _ _ _ _ HS Hne) as [X|X]; [rewrite E0; exact Tn | | exact X].
    exfalso. rewrite K in ND. cbn [fkind_eqb andb] in ND. rewrite X, E0 in ND. rewrite Zn, N.eqb_refl in ND. discriminate. }
  (* PRIORITY *)
  destruct (fkind_eqb (sf_kind fr) KPriority) eqn:KP.
  { apply fkind_eqb_eq in KP. destruct BK as [(K & BN & E0)|(K & _)]; [|congruence].
    assert (V : RS.verdicts s (RS.Frame (abs_frame fr)) = RS.on_stream s (abs_frame fr))
      by (apply verdicts_stream; [exact BN | exact Znn | rewrite KP; exact I]).
    assert (EC0 : ec' = 0) by (destruct SQ as [(_ & _ & ->)|(_ & K' & _)]; [rewrite KP; reflexivity | congruence]).
    assert (St : (exists w, RS.st_of s (sf_sid fr) = RS.Closed w) \/ RS.st_of s (sf_sid fr) = RS.Idle).
    { destruct (N.le_gt_cases (sf_sid fr) (sc_highestID c)) as [L|L]; [left; apply Hle, L | right; apply Hgt, L]. }
    destruct (sf_dep fr =? sf_sid fr) eqn:SD; cbn [fst cont]; intro E.
    - apply (G_sl_rst c s ph fr ec' c_ProtocolError HS Hsl SQ Od Tn E); auto.
      + left. apply allowed_table. rewrite V. unfold RS.on_stream, RS.by_state, RS.priority_frame, abs_frame. cbn [RS.f_kind RS.f_sid RS.f_self].
        rewrite KP, SD. cbn [abs_kind]. destruct St as [[w ->] | ->]; try destruct w; reflexivity.
      + unfold RS.reset, abs_frame. cbn [RS.f_kind]. rewrite KP. cbn [abs_kind]. destruct St as [[w ->] | ->]; try destruct w; reflexivity.
    - apply (G_sl_quiet c s ph fr ec' c1 [] HS Hsl SQ Od Tn E); try assumption; try reflexivity.
      + repeat split.
      + intros sid rq [].
      + left. destruct St as [[w Hw] | Hi].
        * right. rewrite V. unfold RS.on_stream, RS.by_state, abs_frame. cbn [RS.f_kind RS.f_sid RS.f_self]. rewrite Hw, KP, SD. destruct w; reflexivity.
        * left. unfold RS.may_process. rewrite V. unfold RS.on_stream, RS.by_state, RS.priority_frame, abs_frame. cbn [RS.f_kind RS.f_sid RS.f_self].
          rewrite Hi, KP, SD. reflexivity.
      + unfold RS.receive, abs_frame. cbn [RS.f_kind]. rewrite KP. cbn [abs_kind]. destruct St as [[w ->] | ->]; try destruct w; reflexivity.
      + left. reflexivity.
      + intro Hne. congruence.
      + intros _ _. exact KP. }
  apply fkind_eqb_neq in KP.
  (* HEADERS on an id already used *)
  destruct (fkind_eqb (sf_kind fr) KHeaders && (sf_sid fr <=? sc_highestID c))%bool eqn:HH.
  { apply andb_true_iff in HH. destruct HH as [KH L]. apply fkind_eqb_eq in KH. cbn [fst cont]. intro E.
    destruct BK as [(K & BN & E0)|(K & _)]; [|congruence].
    apply (G_sl_goaway c s ph fr ec' c_ProtocolError HS Hsl SQ Od Tn E).
    left. apply allowed_table. rewrite verdicts_stream; [|exact BN | exact Znn | rewrite KH; exact I].
    unfold RS.on_stream, RS.by_state, abs_frame. cbn [RS.f_kind RS.f_sid]. rewrite (Old ltac:(lia)), KH. reflexivity. }
  destruct (fkind_eqb (sf_kind fr) KHeaders) eqn:KH.
  - (* HEADERS on a new id *)
    apply fkind_eqb_eq in KH. cbn [andb] in HH. assert (Gt : sc_highestID c < sf_sid fr) by lia.
    change (sc_open (upd_highestID c1 (sf_sid fr))) with (sc_open c).
    change (sc_lastID (upd_highestID c1 (sf_sid fr))) with (sc_lastID c).
    change (sc_closing (upd_highestID c1 (sf_sid fr))) with (sc_closing c).
    cbn [andb].
    destruct ((cf_maxStreams cfg <=? sc_open c)%Z || sc_closing c)%bool eqn:RFS.
    + intro E. apply (G_refuse c s ph fr ec' HS Hsl SQ Od Tn KH RN Gt E).
    + apply orb_false_iff in RFS. destruct RFS as [_ CL].
      pose proof (A_last _ _ AT) as LL. replace (sf_sid fr <? sc_lastID c) with false by lia. rewrite CL.
      unfold created. rewrite KH. repeat split; try assumption; try lia. change (sc_lastID c1) with (sc_lastID c). lia.
  - (* any other frame *)
    cbn [andb]. apply fkind_eqb_neq in KH. change (sc_lastID c1) with (sc_lastID c).
    destruct (sf_sid fr <? sc_lastID c) eqn:LT.
    + cbn [fst cont]. intro E. apply (G_sl_goaway c s ph fr ec' c_ProtocolError HS Hsl SQ Od Tn E).
      pose proof (A_last _ _ AT) as LL. pose proof (Old ltac:(lia)) as Hi.
      left. destruct BK as [(K & BN & E0)|(K & _)]; [|apply allowed_dead; [apply DeadCont, K | reflexivity]].
      apply allowed_table. revert Kok KR KP KH K. destruct (sf_kind fr) eqn:KK; intros; try contradiction; try congruence;
        try (rewrite verdicts_stream_bad; [reflexivity | exact BN | exact Znn | rewrite KK; exact I]);
        (rewrite verdicts_stream; [|exact BN | exact Znn | rewrite KK; exact I];
         unfold RS.on_stream, RS.by_state, abs_frame; cbn [RS.f_kind RS.f_sid]; rewrite Hi, KK; reflexivity).
    + unfold created. split; [reflexivity|]. split; [exact RN|]. split; [change (sc_lastID c1) with (sc_lastID c); lia|].
      revert Kok KR KP KH. destruct (sf_kind fr); intros; try contradiction; try congruence; reflexivity.
Qed.

End Sl.
