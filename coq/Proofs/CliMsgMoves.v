(* Proofs/CliMsgMoves.v - C02 / C20 (client): "quiet moves" of the client connection.

   qm P c c'   c' is c after something that
                 - leaves the read loop's decoder and header-block registers alone,
                 - leaves nextID and the write loop's encoder alone,
                 - changes no Ctx in (tag, streamID, Response, gotStatus, Request), and does not put nil
                   (nor ErrNoMoreStreamIDs) into an Err channel,
                 - only REMOVES entries from reqQueued and from the in queue,
                 - adds to the trace only items satisfying P (no HEADERS, no result; for P = q2 no DATA either),
                 - revives no loop.
   Everything the model does is a quiet move except: Conn.Write (a new Ctx), writeRequest up to its HEADERS frame,
   dispatch (header/DATA frames go into the Response of the request on the frame's stream), and the caller
   taking its result.  Reflexive, transitive; one lemma per helper function. *)
From H2V Require Import Base.Bytes Base.MachineInt Base.Result Gen.GenConsts Impl.ServerConn Impl.ClientConn Proofs.CliBase.
From Coq Require Import ZArith Lia ZifyN ZifyNat ZifyBool List.
Import ListNotations.
Local Open Scope N_scope.
Set Default Proof Using "Type".

Definition q1 (o : coutev) : bool := match o with COHeaders _ _ _ | COResult _ _ _ _ => false | _ => true end.
Definition q2 (o : coutev) : bool := match o with COHeaders _ _ _ | COResult _ _ _ _ | COData _ _ _ => false | _ => true end.
Definition q0 (o : coutev) : bool := match o with COResult _ _ _ _ => false | _ => true end.
Lemma q1_q0_all l : forallb q1 l = true -> forallb q0 l = true.
Proof. induction l as [|o t IH]; [reflexivity|]. cbn [forallb]. intro H. apply andb_true_iff in H. destruct H as [A B]. rewrite (IH B), andb_true_r. destruct o; auto. Qed.
Lemma q2_q1 o : q2 o = true -> q1 o = true. Proof. destruct o; auto. Qed.
Lemma q2_q1_all l : forallb q2 l = true -> forallb q1 l = true.
Proof. induction l as [|o t IH]; [reflexivity|]. cbn [forallb]. intro H. apply andb_true_iff in H. destruct H as [A B]. rewrite (q2_q1 _ A), (IH B). reflexivity. Qed.

(* errors whose delivery the properties single out *)
Definition err_special (e : cerr) : bool := match e with CENil | CENoIDs => true | _ => false end.

(* the part of a Ctx a quiet move keeps *)
Definition cvw (x : cctx) : N * cresponse * bool * crequest := (ct_sid x, ct_resp x, ct_gotStatus x, ct_req x).
Definition ctx_q (x x' : cctx) : Prop :=
  ct_tag x' = ct_tag x /\ cvw x' = cvw x /\ (forall e, ct_err x' = Some e -> err_special e = true -> ct_err x = Some e).

Lemma ctx_q_refl x : ctx_q x x. Proof. repeat split; auto. Qed.
Lemma ctx_q_trans x y z : ctx_q x y -> ctx_q y z -> ctx_q x z.
Proof. intros (A & B & C) (A' & B' & C'). repeat split; [congruence | congruence | intros e H S; apply C; [apply C'|]; assumption]. Qed.

Section Moves.
Context {hstate : Type}.
Implicit Types c : cconn hstate.

Definition ctxs_q c c' : Prop :=
  forall tag, match cl_ctx_get c' tag, cl_ctx_get c tag with
              | Some x', Some x => ctx_q x x'
              | None, None => True
              | _, _ => False
              end.

Record qm (P : coutev -> bool) c c' : Prop := mkQM {
  qm_dec : cc_dec c' = cc_dec c;
  qm_hs : cc_hdrStream c' = cc_hdrStream c;
  qm_hp : cc_hdrPrev c' = cc_hdrPrev c;
  qm_hf : cc_hdrFields c' = cc_hdrFields c;
  qm_he : cc_hdrEndStream c' = cc_hdrEndStream c;
  qm_hr : cc_hdrRegularSeen c' = cc_hdrRegularSeen c;
  qm_hst : cc_hdrStatus c' = cc_hdrStatus c;
  qm_herr : cc_hdrErr c' = cc_hdrErr c;
  qm_next : cc_nextID c' = cc_nextID c;
  qm_enc : cc_enc c' = cc_enc c;
  qm_encSeen : cc_encTableSeen c' = cc_encTableSeen c;
  qm_ctx : ctxs_q c c';
  qm_rq : (forall p, In p (cc_reqQueued c') -> In p (cc_reqQueued c)) /\
          (NoDup (map fst (cc_reqQueued c)) -> NoDup (map fst (cc_reqQueued c')));
  qm_inq : (forall t, In t (cc_inQ c') -> In t (cc_inQ c)) /\ (NoDup (cc_inQ c) -> NoDup (cc_inQ c'));
  qm_le : forall e, cc_lastErr c' = Some e -> err_special e = true -> cc_lastErr c = Some e;
  qm_out : exists new, cc_out c' = new ++ cc_out c /\ forallb P new = true;
  qm_outq : forallb q2 (cc_outQ c) = true -> forallb q2 (cc_outQ c') = true;
  qm_rl : cl_rl_live c' = true -> cl_rl_live c = true;
  qm_wl : cl_wl_live c' = true -> cl_wl_live c = true
}.

Lemma ctxs_q_refl c : ctxs_q c c.
Proof. intro tag. destruct (cl_ctx_get c tag); [apply ctx_q_refl | exact I]. Qed.
Lemma ctxs_q_trans a b c : ctxs_q a b -> ctxs_q b c -> ctxs_q a c.
Proof.
  intros H1 H2 tag. specialize (H1 tag). specialize (H2 tag).
  destruct (cl_ctx_get c tag), (cl_ctx_get b tag), (cl_ctx_get a tag); try contradiction; try exact I.
  eapply ctx_q_trans; eassumption.
Qed.

Lemma ctxs_q_same c c' : cc_ctxs c' = cc_ctxs c -> ctxs_q c c'.
Proof. intros E tag. unfold cl_ctx_get. rewrite E. destruct (cl_ctxs_get (cc_ctxs c) tag); [apply ctx_q_refl | exact I]. Qed.

Lemma qm_refl P c : qm P c c.
Proof.
  constructor; try reflexivity; auto.
  - apply ctxs_q_refl.
  - exists []. split; reflexivity.
Qed.

Lemma qm_trans P a b c : qm P a b -> qm P b c -> qm P a c.
Proof.
  intros [] []. constructor; try congruence; auto.
  - eapply ctxs_q_trans; eassumption.
  - destruct qm_rq0, qm_rq1. split; auto.
  - destruct qm_inq0, qm_inq1. split; auto.
  - destruct qm_out0 as (n0 & E0 & F0), qm_out1 as (n1 & E1 & F1). exists (n1 ++ n0). split.
    + rewrite E1, E0, app_assoc. reflexivity.
    + rewrite forallb_app, F1, F0. reflexivity.
Qed.

Lemma qm_weaken c c' : qm q2 c c' -> qm q1 c c'.
Proof. intros []. constructor; auto. destruct qm_out0 as (n & E & F). exists n. split; [exact E | apply q2_q1_all; exact F]. Qed.

Lemma qm_weaken0 c c' : qm q1 c c' -> qm q0 c c'.
Proof. intros []. constructor; auto. destruct qm_out0 as (n & E & F). exists n. split; [exact E | apply q1_q0_all; exact F]. Qed.

(* ---------- the tracked part of the state ---------- *)
Definition tracked c :=
  (cc_dec c, cc_hdrStream c, cc_hdrPrev c, cc_hdrFields c, cc_hdrEndStream c, cc_hdrRegularSeen c, cc_hdrStatus c, cc_hdrErr c,
   cc_nextID c, cc_enc c, cc_encTableSeen c, cc_ctxs c, cc_reqQueued c, cc_inQ c, cc_lastErr c, cc_out c, cc_outQ c,
   (cc_rl_done c, cc_rl_stuck c, cc_wl_done c, cc_wl_stuck c)).

Lemma qm_same P c c' : tracked c' = tracked c -> qm P c c'.
Proof.
  unfold tracked. intro H. inversion H.
  constructor; auto; try congruence.
  - intro tag. unfold cl_ctx_get. rewrite H12. destruct (cl_ctxs_get (cc_ctxs c) tag); [apply ctx_q_refl | exact I].
  - rewrite H13. split; auto.
  - rewrite H14. split; auto.
  - exists []. split; [rewrite H16; reflexivity | reflexivity].
  - unfold cl_rl_live. congruence.
  - unfold cl_wl_live. congruence.
Qed.

(* ---------- the setters that matter ---------- *)
Lemma qm_note P c o : P o = true -> qm P c (cl_note c o).
Proof.
  intro H. constructor; try reflexivity; auto.
  - apply ctxs_q_same; reflexivity.
  - exists [o]. split; [reflexivity | cbn; rewrite H; reflexivity].
Qed.

Lemma qm_notes P c l : forallb P l = true -> qm P c (cl_notes c l).
Proof.
  revert c. induction l as [|o t IH]; intros c H; [apply qm_refl|]. cbn [cl_notes forallb] in *.
  apply andb_true_iff in H. destruct H as [A B]. eapply qm_trans; [apply qm_note; exact A | apply IH; exact B].
Qed.

Lemma qm_ctxs P c l : ctxs_q c (ccu_ctxs c l) -> qm P c (ccu_ctxs c l).
Proof. intro H. constructor; try reflexivity; auto. exists []. split; reflexivity. Qed.

Lemma ctxs_q_put c x x0 : cl_ctx_get c (ct_tag x0) = Some x -> ctx_q x x0 -> ctxs_q c (cl_ctx_put c x0).
Proof.
  intros G Q tag. rewrite cl_ctx_get_put. destruct (tag =? ct_tag x0) eqn:E.
  - replace tag with (ct_tag x0) by lia. rewrite G. exact Q.
  - destruct (cl_ctx_get c tag); [apply ctx_q_refl | exact I].
Qed.

Lemma qm_ctx_put P c x x0 : cl_ctx_get c (ct_tag x0) = Some x -> ctx_q x x0 -> qm P c (cl_ctx_put c x0).
Proof. intros G Q. apply qm_ctxs. exact (ctxs_q_put _ _ _ G Q). Qed.

Lemma qm_ctx_upd P c tag f : (forall x, ctx_q x (f x)) -> qm P c (cl_ctx_upd c tag f).
Proof.
  intro F. unfold cl_ctx_upd. destruct (cl_ctx_get c tag) as [x|] eqn:G; [|apply qm_refl].
  destruct (F x) as (T & _). apply (qm_ctx_put P c x (f x)); [|apply F].
  rewrite T. destruct (cl_ctxs_get_In _ _ _ G) as [_ E]. rewrite E. exact G.
Qed.

(* ctx.resolve with an error that is not nil *)
Lemma ctx_q_resolve x e : err_special e = false -> ctx_q x (cl_ctx_resolve x e).
Proof.
  intro S. rewrite cl_ctx_resolve_eq. destruct (negb (ct_resolved x) && match ct_err x with None => true | Some _ => false end); [|apply ctx_q_refl].
  repeat split. cbn. intros e0 H S0. inversion H; subst. congruence.
Qed.

Lemma qm_resolve P c tag e : err_special e = false -> qm P c (cl_resolve c tag e).
Proof. intro S. apply qm_ctx_upd. intro x. apply ctx_q_resolve, S. Qed.

Lemma qm_resolve_all P c tags e : err_special e = false -> qm P c (cl_resolve_all c tags e).
Proof.
  intro S. revert c. induction tags as [|t r IH]; intro c; [apply qm_refl|]. cbn [cl_resolve_all].
  eapply qm_trans; [apply qm_resolve, S | apply IH].
Qed.

Lemma ctx_q_finished_resolve x e b : err_special e = false -> ctx_q x (cl_ctx_resolve (ctu_finished x b) e).
Proof. intro S. eapply ctx_q_trans; [|apply ctx_q_resolve, S]. repeat split; auto. Qed.

Lemma qm_reqQueued_filter P c f : qm P c (ccu_reqQueued c (filter f (cc_reqQueued c))).
Proof.
  constructor; try reflexivity; auto.
  - apply ctxs_q_same; reflexivity.
  - cbn. split.
    + intros p H. apply filter_In in H. tauto.
    + induction (cc_reqQueued c) as [|p t IH]; [auto|]. cbn [map filter]. intro H. inversion H; subst.
      destruct (f p); [|auto]. cbn [map]. constructor; [|auto]. intro I. apply H2.
      apply in_map_iff in I. destruct I as (q & E & I). apply filter_In in I. apply in_map_iff. exists q. tauto.
  - exists []. split; reflexivity.
Qed.

Lemma qm_reqQueued_nil P c : qm P c (ccu_reqQueued c []).
Proof.
  constructor; try reflexivity; auto.
  - apply ctxs_q_same; reflexivity.
  - cbn. split; [intros p [] | intros _; constructor].
  - exists []. split; reflexivity.
Qed.

Lemma qm_inQ_nil P c : qm P c (ccu_inQ c []).
Proof.
  constructor; try reflexivity; auto.
  - apply ctxs_q_same; reflexivity.
  - cbn. split; [intros p [] | intros _; constructor].
  - exists []. split; reflexivity.
Qed.

Lemma qm_inQ_tail P c t q : cc_inQ c = t :: q -> qm P c (ccu_inQ c q).
Proof.
  intro E. constructor; try reflexivity; auto.
  - apply ctxs_q_same; reflexivity.
  - cbn. rewrite E. split; [intros p H; right; exact H | intro H; inversion H; assumption].
  - exists []. split; reflexivity.
Qed.

Lemma qm_outQ P c q : (forallb q2 (cc_outQ c) = true -> forallb q2 q = true) -> qm P c (ccu_outQ c q).
Proof.
  intro H. constructor; try reflexivity; auto.
  - apply ctxs_q_same; reflexivity.
  - exists []. split; reflexivity.
Qed.

Lemma qm_lastErr P c e : err_special e = false -> qm P c (ccu_lastErr c (Some e)).
Proof.
  intro S. constructor; try reflexivity; auto.
  - apply ctxs_q_same; reflexivity.
  - cbn. intros e0 H S0. inversion H; subst. congruence.
  - exists []. split; reflexivity.
Qed.

Lemma qm_rl_done P c : qm P c (ccu_rl_done c true).
Proof. constructor; try reflexivity; auto; [apply ctxs_q_same; reflexivity | exists []; split; reflexivity | unfold cl_rl_live; cbn; discriminate]. Qed.
Lemma qm_rl_stuck P c : qm P c (ccu_rl_stuck c true).
Proof. constructor; try reflexivity; auto; [apply ctxs_q_same; reflexivity | exists []; split; reflexivity | unfold cl_rl_live; cbn; rewrite andb_false_r; discriminate]. Qed.
Lemma qm_wl_done P c : qm P c (ccu_wl_done c true).
Proof. constructor; try reflexivity; auto; [apply ctxs_q_same; reflexivity | exists []; split; reflexivity | unfold cl_wl_live; cbn; discriminate]. Qed.
Lemma qm_wl_stuck P c : qm P c (ccu_wl_stuck c true).
Proof. constructor; try reflexivity; auto; [apply ctxs_q_same; reflexivity | exists []; split; reflexivity | unfold cl_wl_live; cbn; rewrite andb_false_r; discriminate]. Qed.

(* ---------- the helper functions ---------- *)
Ltac qsame := apply qm_same; reflexivity.
Ltac qset := match goal with |- qm _ ?b (?s ?inner ?v) => unify b inner; apply qm_same; reflexivity end.
Ltac qthen := eapply qm_trans.
Ltac qnote := apply qm_note; reflexivity.

Lemma qm_set_last_err P c e : err_special e = false -> qm P c (cl_set_last_err c e).
Proof. intro S. unfold cl_set_last_err. destruct (cc_lastErr c); [apply qm_refl | apply qm_lastErr, S]. Qed.

Lemma qm_req_del P c id : qm P c (cl_req_del c id).
Proof. apply qm_reqQueued_filter. Qed.

Lemma qm_take_req_count P c id : qm P c (cl_take_req_count c id).
Proof.
  unfold cl_take_req_count. destruct (cl_req_find (cc_reqQueued c) id); [|apply qm_refl].
  qthen; [apply qm_req_del | qsame].
Qed.

Lemma qm_write_out P c o : q2 o = true -> qm P c (cl_write_out c o).
Proof.
  intro H. unfold cl_write_out. destruct (cc_closed c); [apply qm_refl|]. apply qm_outQ.
  intro F. rewrite forallb_app, F. cbn. rewrite H. reflexivity.
Qed.

Lemma qm_signal_window P c : qm P c (cl_signal_window c).
Proof. qsame. Qed.

Lemma qm_close_net c : qm q2 c (cl_close_net c).
Proof. unfold cl_close_net. qthen; [|qset]. destruct (cl_can_write c); [qnote | apply qm_refl]. Qed.

Lemma qm_conn_close c : qm q2 c (cl_conn_close c).
Proof.
  unfold cl_conn_close, cl_close_begin. destruct (cc_closed c); [apply qm_refl|].
  qthen; [|apply qm_close_net]. qsame.
Qed.

Lemma qm_stuck_fold P held : forall c, qm P c (fold_left (fun c t => cl_ctx_upd c t (fun x => ctu_lckStuck x true)) held c).
Proof.
  induction held as [|t r IH]; intro c; [apply qm_refl|]. cbn [fold_left].
  qthen; [|apply IH]. apply qm_ctx_upd. intro x. repeat split; auto.
Qed.

Lemma qm_go_stuck who held c self tag : qm q2 c (cl_go_stuck who held c self tag).
Proof.
  unfold cl_go_stuck.
  assert (A : qm q2 c (cl_note (fold_left (fun c t => cl_ctx_upd c t (fun x => ctu_lckStuck x true)) held c)
                               (if self then COSelfDeadlock who tag else COBlocked who tag))).
  { qthen; [apply qm_stuck_fold|]. apply qm_note. destruct self; reflexivity. }
  destruct (who =? 0); [qthen; [exact A | apply qm_rl_stuck]|].
  destruct (who =? 1); [qthen; [exact A | apply qm_wl_stuck]|]. exact A.
Qed.

Lemma qm_close_body c pb : qm q2 c (cl_close_body c pb).
Proof.
  unfold cl_close_body. destruct (pb_stream pb); [|apply qm_refl].
  qthen; [|qnote]. apply qm_ctx_upd. intro x. repeat split; auto.
Qed.

Lemma qm_pending P c l : qm P c (ccu_pending c l).
Proof. qsame. Qed.

Lemma qm_delete_pending who held c id : qm q2 c (fst (cl_delete_pending who held c id)).
Proof.
  unfold cl_delete_pending. destruct (cl_pend_get (cc_pending c) id) as [pb|]; [|apply qm_refl].
  destruct (pb_stream pb); [|apply qm_pending].
  destruct (cl_acquire_for held _ (pb_tag pb) id); cbn [fst].
  - qthen; [apply qm_pending | apply qm_close_body].
  - apply qm_pending.
  - qthen; [apply qm_pending | apply qm_go_stuck].
  - qthen; [apply qm_pending | apply qm_go_stuck].
Qed.

Lemma qm_cancel_stream P c id code : qm P c (cl_cancel_stream c id code).
Proof. apply qm_write_out. reflexivity. Qed.

Lemma qm_apply_initial_window P c size : qm P c (cl_apply_initial_window c size).
Proof. qsame. Qed.

Lemma qm_add_window P c sid inc : qm P c (cl_add_window c sid inc).
Proof.
  unfold cl_add_window. qthen; [|apply qm_signal_window].
  destruct (sid =? 0); [qsame|]. destruct (cl_pend_get (cc_pending c) sid); [qsame | apply qm_refl].
Qed.

Lemma qm_update_window P c sid n : qm P c (cl_update_window c sid n).
Proof. apply qm_write_out. reflexivity. Qed.

(* writeLoop's exit, with an error that is not nil *)
Lemma qm_wl_exit c le why :
  match le with Some e => err_special e = false | None => True end -> qm q2 c (cl_wl_exit c le why).
Proof.
  intro S. unfold cl_wl_exit.
  set (e := match le with Some e => e | None => CEConn end).
  assert (SE : err_special e = false) by (subst e; destruct le; [exact S | reflexivity]).
  qthen; [|qnote]. qthen; [|apply qm_wl_done]. qthen; [|apply qm_outQ; reflexivity]. qthen; [|apply qm_inQ_nil].
  qthen; [|apply qm_resolve_all, SE]. qthen; [|apply qm_reqQueued_nil]. qthen; [|apply qm_resolve_all, SE].
  qthen; [|apply qm_conn_close]. apply qm_set_last_err, SE.
Qed.

Variable cfg : cl_config.

Lemma qm_wl_after c : qm q2 c (cl_wl_after cfg c).
Proof. unfold cl_wl_after. destruct (negb (ccf_disableAcks cfg) && (3 <=? cc_unacks c)%Z); [apply qm_wl_exit; reflexivity | apply qm_refl]. Qed.

Lemma qm_wl_out c : forallb q2 (cc_outQ c) = true -> qm q2 c (cl_wl_out cfg c).
Proof.
  intro F. unfold cl_wl_out. destruct (cc_outQ c) as [|o q] eqn:E; [apply qm_refl|].
  cbn [forallb] in F. apply andb_true_iff in F. destruct F as [Fo Fq].
  assert (A : qm q2 c (ccu_outQ c q)) by (apply qm_outQ; intros _; exact Fq).
  destruct (cl_can_write (ccu_outQ c q)).
  - qthen; [|apply qm_wl_after]. qthen; [exact A | apply qm_note, Fo].
  - qthen; [exact A | apply qm_wl_exit; reflexivity].
Qed.

Lemma qm_wl_ping c : qm q2 c (cl_wl_ping cfg c).
Proof.
  unfold cl_wl_ping. destruct (cl_can_write c); [|apply qm_wl_exit; reflexivity].
  qthen; [|apply qm_wl_after]. qthen; [|qset]. qnote.
Qed.

Lemma qm_wl_done_ev c : qm q2 c (cl_wl_done c).
Proof. unfold cl_wl_done. destruct (cc_closed c); [apply qm_wl_exit; exact I | apply qm_refl]. Qed.

(* ---------- the read loop, everything but dispatch ---------- *)
Lemma qm_rl_exit c why : qm q2 c (cl_rl_exit c why).
Proof. unfold cl_rl_exit. qthen; [|qnote]. qthen; [apply qm_conn_close | apply qm_rl_done]. Qed.

Lemma qm_rl_fail c : qm q2 c (cl_rl_fail c).
Proof. unfold cl_rl_fail. qthen; [|apply qm_rl_exit]. apply qm_set_last_err; reflexivity. Qed.

Lemma qm_rl_panic c : qm q2 c (cl_rl_panic c).
Proof.
  unfold cl_rl_panic. qthen; [|apply qm_rl_exit]. qthen; [|apply qm_reqQueued_nil]. qthen; [|apply qm_resolve_all; reflexivity].
  qthen; [|apply qm_set_last_err; reflexivity]. qnote.
Qed.

Lemma qm_handle_settings c st : qm q2 c (cl_handle_settings c st).
Proof.
  unfold cl_handle_settings. qthen; [|apply qm_write_out; reflexivity].
  destruct (cs_hasWin st).
  - qthen; [|apply qm_apply_initial_window]. destruct (cl_settings_has st c_HeaderTableSize); qsame.
  - destruct (cl_settings_has st c_HeaderTableSize); qsame.
Qed.

Lemma qm_finish c tag id e : err_special e = false -> qm q2 c (cl_finish c tag id e).
Proof.
  intro S. unfold cl_finish. qthen; [|apply qm_ctx_upd; intro x; apply ctx_q_finished_resolve, S].
  qthen; [apply qm_take_req_count|].
  destruct (cl_pend_get _ id); [|apply qm_refl]. qthen; [apply qm_pending | apply qm_close_body].
Qed.

Lemma qm_goaway_fail l : forall c, qm q2 c (fst (cl_goaway_fail c l)).
Proof.
  induction l as [|[id tag] t IH]; intro c; [apply qm_refl|]. cbn [cl_goaway_fail].
  destruct (cl_delete_pending 0 [] (ccu_open c (cc_open c - 1)%Z) id) as [c2 stuck] eqn:D.
  assert (A : qm q2 c c2).
  { qthen; [|pose proof (qm_delete_pending 0 [] (ccu_open c (cc_open c - 1)%Z) id) as Q; rewrite D in Q; exact Q]. qsame. }
  destruct stuck; cbn [fst]; [exact A|].
  qthen; [exact A|]. qthen; [|apply IH]. apply qm_ctx_upd. intro x. apply ctx_q_finished_resolve. reflexivity.
Qed.

Lemma qm_goaway c last : qm q2 c (fst (cl_goaway c last)).
Proof.
  unfold cl_goaway. qthen; [|apply qm_goaway_fail]. qthen; [|apply (qm_reqQueued_filter q2 _ (fun e => negb (last <? fst e)))]. qsame.
Qed.

(* ---------- callers, timers, Close ---------- *)
Lemma qm_submit_check c tag : (forall e, cc_lastErr c = Some e -> err_special e = false) -> qm q2 c (cl_submit_check c tag).
Proof.
  intro LE. unfold cl_submit_check. destruct (cl_ctx_get c tag) as [x|] eqn:G; [|apply qm_refl].
  destruct (ct_writing x); cbn [negb]; [|apply qm_refl].
  assert (T : cl_ctx_get c (ct_tag (ctu_writing x false)) = Some x).
  { cbn. destruct (cl_ctxs_get_In _ _ _ G) as [_ E]. rewrite E. exact G. }
  assert (Q : ctx_q x (ctu_writing x false)) by (repeat split; auto).
  destruct (cc_closed c); cbn [negb]; [|exact (qm_ctx_put _ _ _ _ T Q)].
  destruct (ct_lckStuck (ctu_writing x false)).
  { qthen; [exact (qm_ctx_put _ _ _ _ T Q) | apply qm_go_stuck]. }
  destruct (ct_sid (ctu_writing x false) =? 0); [|exact (qm_ctx_put _ _ _ _ T Q)].
  apply (qm_ctx_put _ _ x).
  - rewrite ct_tag_cl_ctx_resolve. exact T.
  - eapply ctx_q_trans; [|apply ctx_q_resolve]. { repeat split; auto. }
    unfold cl_close_err. destruct (cc_lastErr c) as [e|] eqn:L; [exact (LE e eq_refl) | reflexivity].
Qed.

Lemma qm_timeout_fire c tag : qm q2 c (cl_timeout_fire c tag).
Proof.
  unfold cl_timeout_fire. destruct (cl_ctx_get c tag) as [x|] eqn:G; [|apply qm_refl].
  destruct (ct_armed x && negb (ct_fired x)); [|apply qm_refl].
  apply (qm_ctx_put _ _ x).
  - rewrite ct_tag_cl_ctx_resolve. cbn. destruct (cl_ctxs_get_In _ _ _ G) as [_ E]. rewrite E. exact G.
  - eapply ctx_q_trans; [|apply ctx_q_resolve; reflexivity]. repeat split; auto.
Qed.

Lemma qm_timeout_cancel c tag : qm q2 c (cl_timeout_cancel c tag).
Proof.
  unfold cl_timeout_cancel. destruct (cl_ctx_get c tag) as [x|] eqn:G; [|apply qm_refl].
  destruct (ct_fired x && negb (ct_cancelled x)); [|apply qm_refl].
  assert (A : qm q2 c (cl_ctx_put c (ctu_cancelled x true))).
  { apply (qm_ctx_put _ _ x); [|repeat split; auto]. cbn. destruct (cl_ctxs_get_In _ _ _ G) as [_ E]. rewrite E. exact G. }
  destruct (negb (ct_conn x) || (ct_sid x =? 0)); [exact A|].
  destruct (cl_delete_pending 3 [] (cl_ctx_put c (ctu_cancelled x true)) (ct_sid x)) as [c2 stuck] eqn:D.
  assert (B : qm q2 c c2).
  { qthen; [exact A|]. pose proof (qm_delete_pending 3 [] (cl_ctx_put c (ctu_cancelled x true)) (ct_sid x)) as Q. rewrite D in Q. exact Q. }
  destruct stuck; [exact B|]. qthen; [exact B|]. qthen; [apply qm_take_req_count | apply qm_cancel_stream].
Qed.

Lemma qm_close_call c : qm q2 c (cl_close_call c).
Proof. unfold cl_close_call, cl_close_begin. destruct (cc_closed c); [apply qm_refl | qsame]. Qed.

Lemma qm_close_finish c : qm q2 c (cl_close_finish c).
Proof. unfold cl_close_finish. destruct (cc_closing c); [|apply qm_refl]. qthen; [apply qm_close_net | qsame]. Qed.

(* ---------- sendPending: DATA frames only ---------- *)
Lemma q1_data_frames fuel : forall sid step body endb, forallb q1 (cl_data_frames fuel sid step body endb) = true.
Proof.
  induction fuel as [|f IH]; intros; cbn [cl_data_frames]; [reflexivity|].
  destruct (len body <=? step); [reflexivity|]. cbn [forallb q1]. apply IH.
Qed.
Lemma q1_write_data mf sid body endb : forallb q1 (cl_write_data mf sid body endb) = true.
Proof. unfold cl_write_data. destruct body; [destruct endb; reflexivity | apply q1_data_frames]. Qed.

Lemma qm_send_pending fuel : forall c id, qm q1 c (fst (cl_send_pending fuel c id)).
Proof.
  induction fuel as [|fuel IH]; intros c id; cbn [cl_send_pending]; [apply qm_refl|].
  destruct (cl_pend_get (cc_pending c) id) as [pb|]; [|apply qm_refl].
  destruct (cl_is_nil (pb_body pb) && match pb_stream pb with Some _ => true | None => false end && negb (pb_drained pb)).
  - destruct (cl_refill pb) as [pb'|].
    + qthen; [|apply IH]. apply qm_pending.
    + destruct (cl_delete_pending 1 [] c id) as [c1 stuck] eqn:D.
      assert (A : qm q1 c c1).
      { apply qm_weaken. pose proof (qm_delete_pending 1 [] c id) as Q. rewrite D in Q. exact Q. }
      destruct stuck; cbn [fst]; [exact A|].
      destruct (cl_req_find (cc_reqQueued c1) id); cbn [fst]; [|exact A].
      assert (B : qm q1 c (cl_ctx_upd (cl_take_req_count c1 id) (pb_tag pb) (fun x => cl_ctx_resolve (ctu_finished x true) CEBody))).
      { qthen; [exact A|]. qthen; [apply qm_take_req_count|]. apply qm_ctx_upd; intro x; apply ctx_q_finished_resolve; reflexivity. }
      match goal with |- qm q1 c (fst (if ?b then _ else _)) => destruct b end; cbn [fst]; [|exact B].
      qthen; [exact B | qnote].
  - match goal with |- qm q1 c (fst (if ?b then _ else _)) => destruct b end; cbn [fst].
    { qthen; [|apply qm_pending]. qsame. }
    match goal with |- context [cl_acquire_for [] ?c2 ?t ?i] => set (cc2 := c2); destruct (cl_acquire_for [] cc2 t i) end.
    + destruct (cl_can_write cc2); cbn [fst].
      * match goal with |- context [cl_notes cc2 ?l] => assert (N : qm q1 c (cl_notes cc2 l)) end.
        { qthen; [|apply qm_notes, q1_write_data]. subst cc2. qthen; [|apply qm_pending]. qsame. }
        match goal with |- qm q1 c (fst (if ?b then _ else _)) => destruct b end; cbn [fst].
        -- qthen; [exact N | apply qm_weaken, qm_close_body].
        -- qthen; [exact N | apply IH].
      * subst cc2. qthen; [|apply qm_pending]. qsame.
    + match goal with |- context [cl_delete_pending 1 [] ?a id] => set (cc2' := a) end.
      assert (QA : qm q1 cc2 cc2') by (subst cc2'; match goal with |- context [if ?b then _ else _] => destruct b end; [apply qm_add_window | apply qm_refl]).
      destruct (cl_delete_pending 1 [] cc2' id) as [c3 stuck] eqn:D. cbn [fst].
      qthen; [|apply qm_weaken; pose proof (qm_delete_pending 1 [] cc2' id) as Q; rewrite D in Q; exact Q].
      qthen; [|exact QA]. subst cc2. qthen; [|apply qm_pending]. qsame.
    + cbn [fst]. qthen; [|apply qm_weaken, qm_go_stuck]. subst cc2. qthen; [|apply qm_pending]. qsame.
    + cbn [fst]. qthen; [|apply qm_weaken, qm_go_stuck]. subst cc2. qthen; [|apply qm_pending]. qsame.
Qed.

Lemma qm_flush_pending ids : forall c, qm q1 c (fst (cl_flush_pending c ids)).
Proof.
  induction ids as [|id t IH]; intro c; cbn [cl_flush_pending]; [apply qm_refl|].
  pose proof (qm_send_pending (cl_send_fuel c id) c id) as Q.
  destruct (cl_send_pending (cl_send_fuel c id) c id) as [c1 r]. cbn [fst] in Q.
  destruct r; cbn [fst]; [qthen; [exact Q | apply IH] | exact Q | exact Q].
Qed.

Lemma qm_wl_win c order : qm q1 c (cl_wl_win cfg c order).
Proof.
  unfold cl_wl_win. destruct (cc_winCh c); cbn [negb]; [|apply qm_refl].
  pose proof (qm_flush_pending (cl_pending_order (ccu_winCh c false) order) (ccu_winCh c false)) as Q.
  destruct (cl_flush_pending (ccu_winCh c false) (cl_pending_order (ccu_winCh c false) order)) as [c2 r]. cbn [fst] in Q.
  assert (A : qm q1 c c2) by (qthen; [|exact Q]; qsame).
  destruct r; [qthen; [exact A | apply qm_weaken, qm_wl_after] | qthen; [exact A | apply qm_weaken, qm_wl_exit; reflexivity] | exact A].
Qed.

End Moves.
