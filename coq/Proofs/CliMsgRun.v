(* Proofs/CliMsgRun.v - C02 (c) / C20 (client): the invariant along every run. *)
From H2V Require Import Base.Bytes Base.MachineInt Base.Result Gen.GenConsts Impl.ServerConn Impl.ClientConn
  Spec.Http2Messages Spec.Http2Responses Proofs.CliBase Proofs.SrvIsoRef Proofs.CliMsgRef Proofs.CliMsgAuto Proofs.CliMsgMoves
  Proofs.CliMsgDisp Proofs.CliMsgStep Proofs.CliMsgInv Proofs.CliMsgFeed.
From Coq Require Import ZArith Lia ZifyN ZifyNat ZifyBool List.
Import ListNotations.
Local Open Scope N_scope.

Section Run.
Context {hstate : Type}.
Variable dec_field : hstate -> N -> bytes -> dec_res hstate.
Variable enc_field : hstate -> bytes -> bytes -> bool -> bytes * hstate.
Variable enc_set_max : hstate -> N -> hstate.
Variable cfg : cl_config.
Implicit Types c : cconn hstate.
Implicit Types g : @gst hstate.

Notation step := (cl_step dec_field enc_field enc_set_max cfg).
Notation mvs := (mvs dec_field enc_field enc_set_max).
Notation mv1 := (mv1 enc_field enc_set_max).
Notation gstep := (gstep dec_field).
Notation Inv := (Inv (hstate := hstate)).

Definition gopt g (tk : option sframe) : gst := match tk with Some fr => gstep g fr | None => g end.

(* ---------- the micro-moves ---------- *)
Lemma Inv_result g c tag x e :
  Inv g c -> cl_ctx_get c tag = Some x -> ct_err x = Some e ->
  let x2 := ctu_pooled (ctu_returned (ctu_resolved (ctu_done (ctu_armed (ctu_err x None) false) true) true) true)
                       ((if ct_armed x then negb (ct_fired x) else true) && ct_finished x) in
  Inv g (cl_note (cl_ctx_put c x2) (COResult tag (cl_retryable e) e (ct_resp x2))).
Proof.
  intros I G E x2.
  assert (T : ct_tag x = tag) by (destruct (cl_ctxs_get_In _ _ _ G); assumption).
  assert (Q : qm q0 c (cl_ctx_put c x2)).
  { apply (qm_ctx_put _ _ x); [cbn; rewrite T; exact G|]. repeat split; auto. cbn. discriminate. }
  pose proof (Inv_qm0 g c _ I Q) as I2.
  assert (G2 : cl_ctx_get (cl_ctx_put c x2) tag = Some x2).
  { rewrite cl_ctx_get_put. change (ct_tag x2) with (ct_tag x). rewrite T, N.eqb_refl, G. reflexivity. }
  destruct I2 as [j1 j2 j3 j4 j5 j6 j7 j8 j9 j10 j11]. constructor; try assumption.
  intros t r resp H. cbn in H. destruct H as [H|H]; [|exact (j7 t r resp H)].
  inversion H; subst t r resp. assert (e = CENil) by congruence. subst e.
  destruct (i_nil _ _ I tag x G E) as [A B]. exists x2. repeat split; assumption.
Qed.

Lemma nextID_qm P c c' : qm P c c' -> cc_nextID c' = cc_nextID c.
Proof. intros []. assumption. Qed.

Lemma Inv_mv1 g c c' : Inv g c -> Idle g c -> mv1 c c' -> Inv g c' /\ Idle g c' /\ cc_nextID c <= cc_nextID c'.
Proof.
  intros I ID M. destruct M as [c c' Q|c tag rq armed G|c tag x G S NI|c|c tag x G S NI LE L|c tag x c' G S NI LE Q L F|c tag x e G E].
  - split; [eapply Inv_qm; eassumption | split; [eapply Idle_qm; eassumption | rewrite (nextID_qm _ _ _ Q); lia]].
  - split; [eapply Inv_addctx; assumption | split; [exact ID | cbn; lia]].
  - split; [eapply Inv_inq; eassumption | split; [exact ID | cbn; lia]].
  - split; [eapply Inv_encsize; assumption | split; [exact ID | cbn; lia]].
  - destruct (reg_Inv dec_field enc_field enc_set_max g c tag x I ID G S NI LE) as (I2 & ID2 & NX & _ & _).
    unfold reg_state in *. destruct (cl_request_block enc_field (cc_enc (ccu_nextID c (u32 (cc_nextID c + 2)))) (ct_req x)) as [blk e']. cbn [fst] in *.
    match goal with |- Inv g (cl_note ?R ?o) /\ _ => assert (Q : qm q0 R (cl_note R o)) by (apply qm_note; reflexivity) end.
    split; [eapply Inv_qm0; eassumption | split; [eapply Idle_qm; eassumption|]]. cbn [cl_note cc_nextID ccu_out]. rewrite NX. lia.
  - destruct (reg_Inv dec_field enc_field enc_set_max g c tag x I ID G S NI LE) as (I2 & ID2 & NX & _ & _).
    split; [eapply Inv_qm; eassumption | split; [eapply Idle_qm; eassumption|]]. rewrite (nextID_qm _ _ _ Q), NX. lia.
  - split; [exact (Inv_result g c tag x e I G E) | split; [exact ID | cbn; lia]].
Qed.

Lemma Inv_mvs g c c' tk : mvs tk c c' -> Inv g c -> Idle g c -> (forall fr, tk = Some fr -> sf_sid fr < cc_nextID c) ->
  Inv (gopt g tk) c' /\ Idle (gopt g tk) c'.
Proof.
  intro M. revert g. induction M as [c|tk c c1 c2 M1 M IH|fr c c1 c2 F M IH]; intros g I ID LT.
  - split; assumption.
  - destruct (Inv_mv1 g c c1 I ID M1) as (I1 & ID1 & LE). apply IH; try assumption. intros fr E. specialize (LT fr E). lia.
  - destruct (Inv_feedmove dec_field g c fr c1 I F) as [I1 NX].
    destruct F as (L & S0 & FS & _).
    assert (ID1 : Idle (gstep g fr) c1) by (eapply Idle_feedmove; try eassumption; exact (LT fr eq_refl)).
    destruct (IH (gstep g fr) I1 ID1) as [I2 ID2]; [intros fr0 E; discriminate|]. split; assumption.
Qed.

(* ---------- one step ---------- *)
Theorem Inv_step g c e :
  Inv g c -> Idle g c -> (forall fr, cl_taken c e = Some fr -> sf_sid fr < cc_nextID c) ->
  Inv (gopt g (cl_taken c e)) (step c e) /\ Idle (gopt g (cl_taken c e)) (step c e).
Proof.
  intros I ID LT. apply (Inv_mvs g c (step c e) (cl_taken c e)); try assumption.
  apply step_mvs. eapply Inv_Pre; eassumption.
Qed.

(* ---------- runs ---------- *)
Fixpoint takens_from c (evs : list cevent) : list sframe :=
  match evs with
  | [] => []
  | e :: t => (match cl_taken c e with Some fr => [fr] | None => [] end) ++ takens_from (step c e) t
  end.

(* the server never sends a frame on a stream the client has not opened yet *)
Fixpoint never_idle_from c (evs : list cevent) : Prop :=
  match evs with
  | [] => True
  | e :: t => (forall fr, cl_taken c e = Some fr -> sf_sid fr < cc_nextID c) /\ never_idle_from (step c e) t
  end.

Lemma fold_gopt g tk l : fold_left gstep ((match tk with Some fr => [fr] | None => [] end) ++ l) g = fold_left gstep l (gopt g tk).
Proof. destruct tk; reflexivity. Qed.

Lemma Inv_run_from evs : forall g c, Inv g c -> Idle g c -> never_idle_from c evs ->
  Inv (fold_left gstep (takens_from c evs) g) (fold_left step evs c) /\ Idle (fold_left gstep (takens_from c evs) g) (fold_left step evs c).
Proof.
  induction evs as [|e t IH]; intros g c I ID NI; [split; assumption|].
  cbn [takens_from fold_left never_idle_from] in *. destruct NI as [N1 N2]. rewrite fold_gopt.
  destruct (Inv_step g c e I ID N1) as [I1 ID1]. apply IH; assumption.
Qed.

(* ---------- the initial state ---------- *)
Lemma Inv_init h0 first : Inv (ginit h0) (cl_init enc_set_max h0 first) /\ Idle (ginit h0) (cl_init enc_set_max h0 first).
Proof.
  assert (A : forall c : cconn hstate, cc_ctxs c = [] -> cc_reqQueued c = [] -> cc_inQ c = [] -> cc_out c = [] -> cc_outQ c = [] ->
              cc_dec c = h0 -> cc_hdrStream c = 0 -> cc_hdrErr c = None -> cc_nextID c = 1 ->
              (forall e, cc_lastErr c = Some e -> err_special e = false) -> Inv (ginit h0) c /\ Idle (ginit h0) c).
  { intros c E1 E2 E3 E4 E5 E6 E7 E8 E9 E10. split; [|split; [intros s i [] | exact Logic.I]].
    constructor.
    - intros _. split; [symmetry; exact E6 | exact E7].
    - rewrite E8. discriminate.
    - rewrite E2. intros id tag [].
    - rewrite E2. constructor.
    - unfold cl_ctx_get. rewrite E1. discriminate.
    - unfold cl_ctx_get. rewrite E1. discriminate.
    - rewrite E4. intros tag r resp [].
    - rewrite E3. split; [constructor | intros t []].
    - exact E10.
    - rewrite E5. reflexivity.
    - rewrite E9. lia. }
  unfold cl_init. destruct (cl_settings_deserialize false first) as [st|]; apply A; try reflexivity.
  - discriminate.
  - intros e H. inversion H. reflexivity.
Qed.

Variable h0 : hstate.
Variable first : bytes.
Notation run := (cl_run dec_field enc_field enc_set_max cfg h0 first).

Definition cl_takens (evs : list cevent) : list sframe := takens_from (cl_init enc_set_max h0 first) evs.
Definition cl_ghost (evs : list cevent) : gst := fold_left gstep (cl_takens evs) (ginit h0).
Definition never_idle (evs : list cevent) : Prop := never_idle_from (cl_init enc_set_max h0 first) evs.

Theorem Inv_run evs : never_idle evs -> Inv (cl_ghost evs) (run evs) /\ Idle (cl_ghost evs) (run evs).
Proof. intro NI. destruct (Inv_init h0 first) as [I ID]. exact (Inv_run_from evs _ _ I ID NI). Qed.

End Run.
