(* Proofs/TeardownCliLive2a.v -- blocking-structure model (Impl/Teardown.v), client, S3 liveness (2a): a socket write of the write loop ends.
   Statements: Props/Teardown.v; overview: Proofs/TeardownProofs.v. *)
From Coq Require Import Arith Lia Bool List.
From RecordUpdate Require Import RecordSet.
Import RecordSetNotations.
Import ListNotations.
From H2V Require Import Impl.Teardown Proofs.TeardownGen Proofs.TeardownCliInv Proofs.TeardownCliInv1 Proofs.TeardownCliInv2 Proofs.TeardownCliInv3 Proofs.TeardownCliInv4 Proofs.TeardownCliLocks Proofs.TeardownCliInv5 Proofs.TeardownCliLive1.

Module CliL3a.
Import Cli CliP CliP2 CliL CliL2.

Ltac easy_fin ::= solve [auto | congruence | lia | tauto | (intuition congruence)
                         | (intuition (try congruence; try lia))
                         | (repeat split; eauto; try congruence; try lia)
                         | (left; repeat split; eauto; try congruence; try lia)
                         | (right; right; right; repeat split; eauto; try congruence; try lia) ].
Ltac solve_side ::= cbn; unf; rwk; rwx; cbn;
  first [ solve [repeat split; eauto; try congruence; try lia]
        | match goal with |- _ \/ _ => first [ solve [left; solve_side] | solve [right; solve_side] ] end
        | solve [timeout 10 fin] ].
Ltac wunf := unfold iterQ, wl_t, wl_iter, wm, pcw in *.

Section P.
Variable cap : nat.
Hypothesis cap_pos : 1 <= cap.
Notation guard := (Cli.guard cap).
Notation reachable := (Cli.reachable cap).
Notation inv := (CliP.inv cap).
Variable r : run guard eff.
Hypothesis F : fair_run cap r.
Hypothesis R0 : reachable (st r 0).
Hypothesis NS : forall i, stalled (st r i) = false \/ dead (st r i) = true.

Notation Inv_run := (CliL2.Inv_run cap cap_pos r R0 NS).
Notation "P ~> Q" := (leadsto r P Q) (at level 70).
Notation ensures := (lt_ensures guard eff r (Inv cap) Inv_run).
Notation ensures_s := (lt_ensures_s guard eff r (Inv cap) Inv_run).
Let Fwl : sfair g_wl r := proj1 (proj2 (proj2 (proj2 F))).
Let Fbody : sfair g_body r := proj1 (proj2 (proj2 (proj2 (proj2 (proj2 (proj2 (proj2 F))))))).
Let Wwl := sfair_fair guard eff r g_wl Fwl.
Let Wbody := sfair_fair guard eff r g_body Fbody.
Notation rl_release := (CliL2.rl_release cap cap_pos r F R0 NS).

Lemma it_LWrite : forall n,
  (fun s => (True /\ exists h, wl s = LWrite h) /\ wm s = n) ~> iterQ n.
Proof.
  intros n. apply (ensures g_wl); auto.
  - wunf; cens1_w1.
  - wunf; cens2.
  - intros s (_ & _ & Hs) ((Hd & h & Hw) & Hn).
    destruct (dead s) eqn:E.
    + exists (LWriteFail false); cbn; eauto.
    + destruct Hs as [Hs|Hs]; [|congruence]. exists LWriteOk; cbn; eauto.
Qed.

End P.
End CliL3a.
