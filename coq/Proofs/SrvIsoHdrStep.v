(* Proofs/SrvIsoHdrStep.v - C09 (a), the step: Theorem sl_frame_hdr.
   From a state where the ghost (cur, n, carry) describes the header block in progress (HG), the stream loop
   handles a HEADERS / CONTINUATION frame; unless it raises a connection error (GOAWAY, panic), the decoder
   state afterwards and the carry are the reference's, wherever the carry now lives, and whatever happened to
   the stream. *)
From H2V Require Import Base.Bytes Base.MachineInt Base.Result Gen.GenConsts Impl.ServerConn Proofs.SrvBase
  Proofs.SrvIsoRef Proofs.SrvIsoMoves Proofs.SrvIsoSteps Proofs.SrvIsoHdr.
From Coq Require Import ZArith Lia ZifyN ZifyNat ZifyBool.
Local Open Scope N_scope.

Section HdrStep.
Variable hstate : Type.
Variable dec_field : hstate -> N -> bytes -> dec_res hstate.
Variable enc_field : hstate -> bytes -> bytes -> bool -> bytes * hstate.
Variable enc_set_max : hstate -> N -> hstate.
Variable cfg : config.
Notation sconn := (sconn hstate).
Implicit Types c : sconn.

Definition next_cur (fr : sframe) : N := if eh_of fr then 0 else sf_sid fr.

(* the ghost: the block in progress (cur = 0: none), fields decoded so far, bytes carried over *)
Record HG c (cur n : N) (carry : bytes) : Prop := mkHG {
  hg_inv : HInv (eq cur) c;
  hg_carry : cur <> 0 -> carry_at c cur = Some (n, carry)
}.

(* what a fragment does to the decoder, and where the ghost is afterwards *)
Definition hdr_post (d0 : hstate) (n0 : N) (b0 : bytes) (fr : sframe) (c' : sconn) : Prop :=
  exists fs n' carry', ref_run dec_field (eh_of fr) d0 n0 b0 fs (sc_dec c') n' carry' /\
    (sc_sl_done c' = false -> HG c' (next_cur fr) n' carry').

Lemma P_weaken idp idp' s : P idp s -> st_headersFinished s = true -> P idp' s.
Proof. unfold P. intros (P1 & P2 & P3 & P4 & P5) Hf. repeat split; try tauto. intro H. congruence. Qed.

Lemma P_weaken_imp (idp idp' : N -> Prop) s : (idp (st_id s) -> idp' (st_id s)) -> P idp s -> P idp' s.
Proof. unfold P. intros I (P1 & P2 & P3 & P4 & P5). repeat split; try tauto. Qed.

Lemma all_hf_of_P0 l : (forall s, In s l -> st_id s <> 0) -> Forall (P (eq 0)) l -> forall s, In s l -> st_headersFinished s = true.
Proof.
  intros NZ F s I. rewrite Forall_forall in F. destruct (F s I) as (_ & _ & _ & P4 & _).
  destruct (st_headersFinished s); [reflexivity|]. specialize (P4 eq_refl). specialize (NZ s I). congruence.
Qed.

(* ---------- error outputs ---------- *)
Lemma gcount_brk c : gcount (sc_out (fst (brk c))) = gcount (sc_out c).
Proof. unfold brk, note. sc_cbn. rewrite gcount_cons. reflexivity. Qed.

Lemma dd_out c c1 : dd c c1 -> sc_out c1 = sc_out c /\ sc_wl_dead c1 = sc_wl_dead c /\ sc_sl_done c1 = sc_sl_done c.
Proof. intros (d & i & p & m & ->). repeat split. Qed.

(* a fatal error is visible: the count of error outputs grows (while the write loop lives) *)
Lemma fatal_discard_or_break c c1 e : dd c c1 -> fatal_err e -> sc_wl_dead c = false ->
  (gcount (sc_out c) < gcount (sc_out (fst (discard_or_break (c1, Some e)))))%nat.
Proof.
  intros D F W. destruct (dd_out _ _ D) as (EO & EW & _).
  destruct e as [code|code|]; cbn [discard_or_break]; [|destruct F|].
  - cbn [write_error fst]. rewrite gcount_brk. rewrite <- EO. apply gcount_write_goaway. congruence.
  - rewrite gcount_brk. unfold note. sc_cbn. rewrite gcount_cons, EO. cbn [conn_err_out]. lia.
Qed.

Lemma fatal_ftail_rest c c3 s3 e fr wc : dd c c3 -> fatal_err e -> sc_wl_dead c = false ->
  (gcount (sc_out c) < gcount (sc_out (fst (ftail_rest cfg c3 s3 (Some e) fr wc))))%nat.
Proof.
  intros D F W. destruct (dd_out _ _ D) as (EO & EW & _). unfold ftail_rest.
  destruct e as [code|code|]; [|destruct F|].
  - cbn [write_error]. cbn [fatal_err] in F. rewrite F. cbn [negb]. rewrite gcount_brk. unfold put. sc_cbn.
    rewrite <- EO. apply gcount_write_goaway. congruence.
  - cbn [write_error]. rewrite gcount_brk. unfold note. sc_cbn. rewrite gcount_cons, EO. cbn [conn_err_out]. lia.
Qed.

(* ---------- HInv for states that differ in the decoder / discard registers ---------- *)
Lemma HInv_dd idp idp' c d i p m : HInv idp c -> (forall s, In s (sc_strms c) -> st_headersFinished s = true) ->
  (i <> 0 -> ~ In i (map st_id (sc_strms c)) /\ i <= sc_highestID c) ->
  HInv idp' (upd_discard (upd_dec c d) i p m).
Proof.
  intros [] HF D. constructor; sc_cbn; auto.
  rewrite Forall_forall in *. intros s I. eapply P_weaken; eauto.
Qed.

(* ---------- the block nobody wants: refused stream, stream the server reset, rest of a failed block ---------- *)
Lemma discard_path idp c0 fr :
  HInv idp c0 -> (forall s, In s (sc_strms c0) -> st_headersFinished s = true) ->
  ~ In (sf_sid fr) (map st_id (sc_strms c0)) -> sf_sid fr <= sc_highestID c0 -> sf_sid fr <> 0 ->
  sc_wl_dead c0 = false ->
  (gcount (sc_out (fst (discard_or_break (discard_header_block dec_field cfg c0 fr)))) <= gcount (sc_out c0))%nat ->
  hdr_post (sc_dec c0) (if is_cont fr then sc_discardFields c0 else 0)
           ((if is_cont fr then sc_discardPrev c0 else []) ++ sf_payload fr) fr
           (fst (discard_or_break (discard_header_block dec_field cfg c0 fr))).
Proof.
  intros H HF NI LE NZ W G.
  pose proof (dd_discard_header_block _ dec_field cfg c0 fr) as DF.
  destruct (discard_header_block dec_field cfg c0 fr) as [c1 e]. cbn [fst snd] in DF.
  inversion DF as [c1' e' D F|fs d' n' carry' R]; subst.
  - exfalso.
    assert (D0 : dd c0 c1).
    { eapply dd_trans; [|exact D]. unfold is_cont. destruct (fkind_eqb _ _); [apply dd_refl | apply dd_upd_discard]. }
    pose proof (fatal_discard_or_break c0 c1 e' D0 F W). lia.
  - cbn [discard_or_break cont fst]. exists fs, n', carry'. split.
    + unfold is_cont. destruct (fkind_eqb (sf_kind fr) KCont); exact R.
    + intros _. fold (eh_of fr).
      assert (E : upd_discard (upd_dec (if fkind_eqb (sf_kind fr) KCont then c0 else upd_discard c0 (sc_discardID c0) [] 0) d')
                    (if eh_of fr then 0 else sf_sid fr) carry' n' =
                  upd_discard (upd_dec c0 d') (if eh_of fr then 0 else sf_sid fr) carry' n')
        by (destruct (fkind_eqb _ _); reflexivity).
      rewrite E. split.
      * eapply HInv_dd; [exact H | exact HF|]. destruct (eh_of fr); [congruence | auto].
      * unfold next_cur. destruct (eh_of fr); [congruence|]. intros _. unfold carry_at. sc_cbn.
        rewrite N.eqb_refl. reflexivity.
Qed.

(* ---------- helpers for the stream that gets the block ---------- *)
Lemma HInv_ext idp c c' : sc_strms c' = sc_strms c -> sc_lastID c' = sc_lastID c -> sc_highestID c' = sc_highestID c ->
  sc_discardID c' = sc_discardID c -> sc_ring c' = sc_ring c -> HInv idp c -> HInv idp c'.
Proof. intros E1 E2 E3 E4 E5 []. constructor; rewrite ?E1, ?E2, ?E3, ?E4, ?E5; assumption. Qed.

Lemma HInv_put idp c s x : HInv idp c -> strms_search (sc_strms c) (st_id x) = Some s -> P idp x -> HInv idp (put c x).
Proof.
  intros [] SS Px. destruct (strms_search_In _ _ _ SS) as [Is Ei].
  constructor; rewrite ?sc_strms_put; sc_rw; auto.
  - rewrite strms_put_ids. assumption.
  - apply strms_put_Forall; assumption.
  - intros y I. destruct (strms_put_In _ _ _ I) as [->|I']; [rewrite <- Ei|]; auto.
  - rewrite strms_put_ids. assumption.
Qed.

Lemma HInv_weaken (idp idp' : N -> Prop) c : (forall id, idp id -> idp' id) -> HInv idp c -> HInv idp' c.
Proof.
  intros I []. constructor; auto. rewrite Forall_forall in *. intros s Is. eapply P_weaken_imp; [apply I | auto].
Qed.

(* if the only stream allowed to be in the middle of a block is not, nobody is *)
Lemma HInv_none sid idp' c s : HInv (eq sid) c -> strms_search (sc_strms c) sid = Some s -> st_headersFinished s = true ->
  HInv idp' c.
Proof.
  intros H SS Hf. pose proof H as [ND FP _ _ _ _]. destruct H. constructor; auto.
  rewrite Forall_forall in *. intros y Iy. eapply P_weaken; [apply FP; exact Iy|].
  destruct (st_headersFinished y) eqn:Hy; [reflexivity|].
  destruct (FP y Iy) as (_ & _ & _ & P4 & _). specialize (P4 Hy).
  pose proof (iso_NoDup_search _ _ ND Iy) as Sy. rewrite <- P4, SS in Sy. inversion Sy; subst. congruence.
Qed.

Lemma validate_err s e : validate_request_pseudo_headers s = Some e -> e = EReset c_ProtocolError.
Proof.
  unfold validate_request_pseudo_headers. destruct (_ || _)%bool; [intro H; inversion H; reflexivity|].
  destruct (st_path s); intro H; inversion H; reflexivity.
Qed.

Lemma handle_state_not_rst fr s : fkind_eqb (sf_kind fr) KRst = false ->
  st_state (handle_state fr s) = SClosed -> st_state s = SClosed.
Proof.
  intros NR. unfold handle_state. rewrite NR.
  destruct (st_state s) eqn:E; repeat match goal with |- context [if ?b then _ else _] => destruct b end;
    cbn [set_state st_state]; rewrite ?E; congruence.
Qed.

Lemma handle_state_closed fr s : fkind_eqb (sf_kind fr) KRst = false -> st_state s = SClosed -> handle_state fr s = s.
Proof. intros NR E. unfold handle_state. rewrite NR, E. reflexivity. Qed.

(* after_frame on a stream that has just been closed without ever being answered *)
Lemma after_frame_closed c s fr wc : fkind_eqb (sf_kind fr) KRst = false -> st_state s = SClosed -> st_responded s = false ->
  after_frame cfg c s fr wc =
  (let c3 := close_stream (put c s) s in if wc && can_close_after_goaway c3 then brk c3 else cont c3).
Proof.
  intros NR E R. unfold after_frame. rewrite (handle_state_closed fr s NR E). unfold sstate_eqb. rewrite E, R. cbn [sstate_rank].
  change (4 =? 3) with false. cbn [andb negb]. rewrite E. cbn [sstate_rank]. change (4 =? 4) with true. reflexivity.
Qed.

Lemma hdr_kind_not_rst fr : is_hdr_kind (sf_kind fr) = true -> fkind_eqb (sf_kind fr) KRst = false.
Proof. unfold is_hdr_kind. destruct (sf_kind fr); cbn; congruence. Qed.

End HdrStep.
