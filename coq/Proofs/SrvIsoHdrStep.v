(* Proofs/SrvIsoHdrStep.v - C09 (a), the step: Theorem sl_frame_hdr.
   From a state where the ghost (cur, n, carry) describes the header block in progress (HG), the stream loop
   handles a HEADERS / CONTINUATION frame; unless it raises a connection error (GOAWAY, panic), the decoder
   state afterwards and the carry are the reference's, wherever the carry now lives, and whatever happened to
   the stream. *)
From H2V Require Import Base.Bytes Base.MachineInt Base.Result Gen.GenConsts Impl.ServerConn Proofs.SrvBase
  Proofs.SrvIsoRef Proofs.SrvIsoMoves Proofs.SrvIsoSteps Proofs.SrvIsoHdr.
From Coq Require Import ZArith Lia ZifyN ZifyNat ZifyBool.
Local Open Scope N_scope.

Section HdrStep.
Variable hstate : Type.
Variable dec_field : hstate -> N -> bytes -> dec_res hstate.
Variable enc_field : hstate -> bytes -> bytes -> bool -> bytes * hstate.
Variable enc_set_max : hstate -> N -> hstate.
Variable cfg : config.
Notation sconn := (sconn hstate).
Implicit Types c : sconn.

Definition next_cur (fr : sframe) : N := if eh_of fr then 0 else sf_sid fr.

(* the ghost: the block in progress (cur = 0: none), fields decoded so far, bytes carried over *)
Record HG c (cur n : N) (carry : bytes) : Prop := mkHG {
  hg_inv : HInv (eq cur) c;
  hg_carry : cur <> 0 -> carry_at c cur = Some (n, carry)
}.

(* what a fragment does to the decoder, and where the ghost is afterwards *)
(* the table entry of the frame's stream before the step (a new stream if there is none) *)
Definition entry_before (c0 : sconn) (fr : sframe) : stream :=
  match strms_search (sc_strms c0) (sf_sid fr) with
  | Some s => s
  | None => set_orig_started (new_stream (sf_sid fr) (sc_initWin c0)) KHeaders (sc_now c0)
  end.

Definition hd_set_fin (h : hdr) (b : bool) : hdr :=
  mkHdr b (hd_prev h) (hd_pMethod h) (hd_pScheme h) (hd_pPath h) (hd_pAuth h)
        (hd_regularSeen h) (hd_contentLength h) (hd_hasCL h) (hd_headerListSize h) (hd_blockFields h)
        (hd_path h) (hd_req h).

(* what the fragment did to its own stream, if the stream is (still) in the table: its header state is the
   field-by-field fold over the decoded fields, from where it was *)
Definition own_post (s0 : stream) (fr : sframe) (fs : list (bytes * bytes)) (carry' : bytes) (c' : sconn) : Prop :=
  forall x, In x (sc_strms c') -> st_id x = sf_sid fr ->
  exists hF, hfold cfg (hh1 s0 fr) fs = Some hF /\
    get_hdr x = (if eh_of fr then hd_set_fin (hd_set_prev hF []) true else hd_set_prev hF carry') /\
    st_recvBody x = st_recvBody s0.

(* a stream enters the table only as a new stream: its id is above every id seen so far *)
Definition ids_post (c0 : sconn) (fr : sframe) (c' : sconn) : Prop :=
  forall x, In x (sc_strms c') ->
  In (st_id x) (map st_id (sc_strms c0)) \/ (st_id x = sf_sid fr /\ sc_highestID c0 < sf_sid fr).

Definition hdr_post (c0 : sconn) (n0 : N) (b0 : bytes) (fr : sframe) (c' : sconn) : Prop :=
  exists fs n' carry', ref_run dec_field (eh_of fr) (sc_dec c0) n0 b0 fs (sc_dec c') n' carry' /\
    eff c0 c' /\
    (sc_sl_done c' = false -> HG c' (next_cur fr) n' carry' /\ oth (sf_sid fr) c0 c' /\
                              own_post (entry_before c0 fr) fr fs carry' c' /\ ids_post c0 fr c' /\
                              sc_highestID c0 <= sc_highestID c' /\ sf_sid fr <= sc_highestID c').

Lemma hdr_post_pre c1 c2 n0 b0 fr c' : eff c1 c2 -> sc_dec c2 = sc_dec c1 -> oth (sf_sid fr) c1 c2 ->
  entry_before c2 fr = entry_before c1 fr -> ids_post c1 fr c2 -> sc_highestID c1 <= sc_highestID c2 ->
  hdr_post c2 n0 b0 fr c' -> hdr_post c1 n0 b0 fr c'.
Proof.
  intros E D O EB IP HL (fs & n' & carry' & R & E2 & G). exists fs, n', carry'. rewrite <- D.
  split; [exact R|]. split; [eapply eff_trans; eassumption|].
  intro Hd. destruct (G Hd) as (G1 & G2 & G3 & G4 & G5 & G6). split; [exact G1|]. split; [eapply oth_trans; eassumption|].
  split; [rewrite <- EB; exact G3|]. split; [|split; [lia | exact G6]].
  intros x Ix. destruct (G4 x Ix) as [I2|[I2 I3]]; [|right; split; [exact I2 | lia]].
  apply in_map_iff in I2. destruct I2 as (y & Ey & Iy). rewrite <- Ey. apply IP. exact Iy.
Qed.

Lemma ids_post_same c0 fr c' : sc_strms c' = sc_strms c0 -> ids_post c0 fr c'.
Proof. intros E x Ix. left. rewrite E in Ix. apply in_map. exact Ix. Qed.

Lemma get_hdr_views x s : hv x = hv s -> rqv x = rqv s -> get_hdr x = get_hdr s /\ st_recvBody x = st_recvBody s.
Proof. unfold hv, rqv, get_hdr. intros H1 H2. inversion H1. inversion H2. split; congruence. Qed.

Lemma get_hdr_set_hdr s h : get_hdr (set_hdr s h) = h.
Proof. destruct h. reflexivity. Qed.
Lemma get_hdr_finished s h b : get_hdr (set_headers_finished (set_hdr s h) b) = hd_set_fin h b.
Proof. destruct h. reflexivity. Qed.

Lemma P_weaken idp idp' s : P idp s -> st_headersFinished s = true -> P idp' s.
Proof. unfold P. intros (P1 & P2 & P3 & P4 & P5) Hf. repeat split; try tauto. intro H. congruence. Qed.

Lemma P_weaken_imp (idp idp' : N -> Prop) s : (idp (st_id s) -> idp' (st_id s)) -> P idp s -> P idp' s.
Proof. unfold P. intros I (P1 & P2 & P3 & P4 & P5). repeat split; try tauto. Qed.

Lemma all_hf_of_P0 l : (forall s, In s l -> st_id s <> 0) -> Forall (P (eq 0)) l -> forall s, In s l -> st_headersFinished s = true.
Proof.
  intros NZ F s I. rewrite Forall_forall in F. destruct (F s I) as (_ & _ & _ & P4 & _).
  destruct (st_headersFinished s); [reflexivity|]. specialize (P4 eq_refl). specialize (NZ s I). congruence.
Qed.

(* ---------- error outputs ---------- *)
Lemma gcount_brk c : gcount (sc_out (fst (brk c))) = gcount (sc_out c).
Proof. unfold brk, note. sc_cbn. rewrite gcount_cons. reflexivity. Qed.

Lemma dd_out c c1 : dd c c1 -> sc_out c1 = sc_out c /\ sc_wl_dead c1 = sc_wl_dead c /\ sc_sl_done c1 = sc_sl_done c.
Proof. intros (d & i & p & m & ->). repeat split. Qed.

(* a fatal error is visible: the count of error outputs grows (while the write loop lives) *)
Lemma fatal_discard_or_break c c1 e : dd c c1 -> fatal_err e -> sc_wl_dead c = false ->
  (gcount (sc_out c) < gcount (sc_out (fst (discard_or_break (c1, Some e)))))%nat.
Proof.
  intros D F W. destruct (dd_out _ _ D) as (EO & EW & _).
  destruct e as [code|code|]; cbn [discard_or_break]; [|destruct F|].
  - cbn [write_error fst]. rewrite gcount_brk. rewrite <- EO. apply gcount_write_goaway. congruence.
  - rewrite gcount_brk. unfold note. sc_cbn. rewrite gcount_cons, EO. cbn [conn_err_out]. lia.
Qed.

Lemma fatal_ftail_rest c c3 s3 e fr wc : dd c c3 -> fatal_err e -> sc_wl_dead c = false ->
  (gcount (sc_out c) < gcount (sc_out (fst (ftail_rest cfg c3 s3 (Some e) fr wc))))%nat.
Proof.
  intros D F W. destruct (dd_out _ _ D) as (EO & EW & _). unfold ftail_rest.
  destruct e as [code|code|]; [|destruct F|].
  - cbn [write_error]. cbn [fatal_err] in F. rewrite F. cbn [negb]. rewrite gcount_brk. unfold put. sc_cbn.
    rewrite <- EO. apply gcount_write_goaway. congruence.
  - cbn [write_error]. rewrite gcount_brk. unfold note. sc_cbn. rewrite gcount_cons, EO. cbn [conn_err_out]. lia.
Qed.

(* ---------- HInv for states that differ in the decoder / discard registers ---------- *)
Lemma HInv_dd idp idp' c d i p m : HInv idp c -> (forall s, In s (sc_strms c) -> st_headersFinished s = true) ->
  (i <> 0 -> ~ In i (map st_id (sc_strms c)) /\ i <= sc_highestID c) ->
  HInv idp' (upd_discard (upd_dec c d) i p m).
Proof.
  intros [] HF D. constructor; sc_cbn; auto.
  rewrite Forall_forall in *. intros s I. eapply P_weaken; eauto.
Qed.

(* ---------- the block nobody wants: refused stream, stream the server reset, rest of a failed block ---------- *)
Lemma discard_path idp c0 fr :
  HInv idp c0 -> (forall s, In s (sc_strms c0) -> st_headersFinished s = true) ->
  ~ In (sf_sid fr) (map st_id (sc_strms c0)) -> sf_sid fr <= sc_highestID c0 -> sf_sid fr <> 0 ->
  sc_wl_dead c0 = false ->
  (gcount (sc_out (fst (discard_or_break (discard_header_block dec_field cfg c0 fr)))) <= gcount (sc_out c0))%nat ->
  hdr_post c0 (if is_cont fr then sc_discardFields c0 else 0)
           ((if is_cont fr then sc_discardPrev c0 else []) ++ sf_payload fr) fr
           (fst (discard_or_break (discard_header_block dec_field cfg c0 fr))).
Proof.
  intros H HF NI LE NZ W G.
  pose proof (dd_discard_header_block _ dec_field cfg c0 fr) as DF.
  destruct (discard_header_block dec_field cfg c0 fr) as [c1 e]. cbn [fst snd] in DF.
  inversion DF as [c1' e' D F|fs d' n' carry' R]; subst.
  - exfalso.
    assert (D0 : dd c0 c1).
    { eapply dd_trans; [|exact D]. unfold is_cont. destruct (fkind_eqb _ _); [apply dd_refl | apply dd_upd_discard]. }
    pose proof (fatal_discard_or_break c0 c1 e' D0 F W). lia.
  - cbn [discard_or_break cont fst]. exists fs, n', carry'. split; [|split].
    + unfold is_cont. destruct (fkind_eqb (sf_kind fr) KCont); exact R.
    + destruct (fkind_eqb (sf_kind fr) KCont); apply eff_quiet; reflexivity.
    + intros _. fold (eh_of fr).
      assert (E : upd_discard (upd_dec (if fkind_eqb (sf_kind fr) KCont then c0 else upd_discard c0 (sc_discardID c0) [] 0) d')
                    (if eh_of fr then 0 else sf_sid fr) carry' n' =
                  upd_discard (upd_dec c0 d') (if eh_of fr then 0 else sf_sid fr) carry' n')
        by (destruct (fkind_eqb _ _); reflexivity).
      rewrite E. split; [split|].
      * eapply HInv_dd; [exact H | exact HF|]. destruct (eh_of fr); [congruence | auto].
      * unfold next_cur. destruct (eh_of fr); [congruence|]. intros _. unfold carry_at. sc_cbn.
        rewrite N.eqb_refl. reflexivity.
      * split; [apply oth_same_strms; reflexivity|]. split; [|split; [apply ids_post_same; reflexivity | sc_cbn; split; [lia | exact LE]]].
        intros y Iy Ey. exfalso. apply NI. rewrite <- Ey. apply in_map. exact Iy.
Qed.

(* ---------- helpers for the stream that gets the block ---------- *)
Lemma HInv_ext idp c c' : sc_strms c' = sc_strms c -> sc_lastID c' = sc_lastID c -> sc_highestID c' = sc_highestID c ->
  sc_discardID c' = sc_discardID c -> sc_ring c' = sc_ring c -> HInv idp c -> HInv idp c'.
Proof. intros E1 E2 E3 E4 E5 []. constructor; rewrite ?E1, ?E2, ?E3, ?E4, ?E5; assumption. Qed.

Lemma HInv_put idp c s x : HInv idp c -> strms_search (sc_strms c) (st_id x) = Some s -> P idp x -> HInv idp (put c x).
Proof.
  intros [] SS Px. destruct (strms_search_In _ _ _ SS) as [Is Ei].
  constructor; rewrite ?sc_strms_put; sc_rw; auto.
  - rewrite strms_put_ids. assumption.
  - apply strms_put_Forall; assumption.
  - intros y I. destruct (strms_put_In _ _ _ I) as [->|I']; [rewrite <- Ei|]; auto.
  - rewrite strms_put_ids. assumption.
Qed.

Lemma HInv_weaken (idp idp' : N -> Prop) c : (forall id, idp id -> idp' id) -> HInv idp c -> HInv idp' c.
Proof.
  intros I []. constructor; auto. rewrite Forall_forall in *. intros s Is. eapply P_weaken_imp; [apply I | auto].
Qed.

(* if the only stream allowed to be in the middle of a block is not, nobody is *)
Lemma HInv_none sid idp' c s : HInv (eq sid) c -> strms_search (sc_strms c) sid = Some s -> st_headersFinished s = true ->
  HInv idp' c.
Proof.
  intros H SS Hf. pose proof H as [ND FP _ _ _ _]. destruct H. constructor; auto.
  rewrite Forall_forall in *. intros y Iy. eapply P_weaken; [apply FP; exact Iy|].
  destruct (st_headersFinished y) eqn:Hy; [reflexivity|].
  destruct (FP y Iy) as (_ & _ & _ & P4 & _). specialize (P4 Hy).
  pose proof (iso_NoDup_search _ _ ND Iy) as Sy. rewrite <- P4, SS in Sy. inversion Sy; subst. congruence.
Qed.

Lemma validate_err s e : validate_request_pseudo_headers s = Some e -> e = EReset c_ProtocolError.
Proof.
  unfold validate_request_pseudo_headers. destruct (_ || _)%bool; [intro H; inversion H; reflexivity|].
  destruct (st_path s); intro H; inversion H; reflexivity.
Qed.

Lemma handle_state_not_rst fr s : fkind_eqb (sf_kind fr) KRst = false ->
  st_state (handle_state fr s) = SClosed -> st_state s = SClosed.
Proof.
  intros NR. unfold handle_state. rewrite NR.
  destruct (st_state s) eqn:E; repeat match goal with |- context [if ?b then _ else _] => destruct b end;
    cbn [set_state st_state]; rewrite ?E; congruence.
Qed.

Lemma handle_state_closed fr s : fkind_eqb (sf_kind fr) KRst = false -> st_state s = SClosed -> handle_state fr s = s.
Proof. intros NR E. unfold handle_state. rewrite NR, E. reflexivity. Qed.

(* after_frame on a stream that has just been closed without ever being answered *)
Lemma after_frame_closed c s fr wc : fkind_eqb (sf_kind fr) KRst = false -> st_state s = SClosed -> st_responded s = false ->
  after_frame cfg c s fr wc =
  (let c3 := close_stream (put c s) s in if wc && can_close_after_goaway c3 then brk c3 else cont c3).
Proof.
  intros NR E R. unfold after_frame. rewrite (handle_state_closed fr s NR E). unfold sstate_eqb. rewrite E, R. cbn [sstate_rank].
  change (4 =? 3) with false. cbn [andb negb]. rewrite E. cbn [sstate_rank]. change (4 =? 4) with true. reflexivity.
Qed.

Lemma hdr_kind_not_rst fr : is_hdr_kind (sf_kind fr) = true -> fkind_eqb (sf_kind fr) KRst = false.
Proof. unfold is_hdr_kind. destruct (sf_kind fr); cbn; congruence. Qed.

Lemma rank_ok_unanswered idp s fr : P idp s -> rank_ok s fr -> st_responded s = false.
Proof.
  intros (_ & P2 & _) [RK _]. destruct (st_responded s); [|reflexivity]. destruct (P2 eq_refl) as [Hf Rk].
  replace (3 <=? sstate_rank (st_state s)) with true in RK by lia. cbn [andb] in RK.
  apply negb_false_iff in RK. unfold continuing_headers in RK. rewrite Hf in RK. cbn [negb] in RK.
  rewrite andb_false_r in RK. discriminate.
Qed.

Lemma rank_ok_closed idp s fr : P idp s -> rank_ok s fr -> st_state s = SClosed ->
  st_headersFinished s = false /\ close_ok true s.
Proof.
  intros (_ & _ & _ & _ & P5) [RK _] E. split; [|auto]. rewrite E in RK. cbn [sstate_rank] in RK.
  change (3 <=? 4) with true in RK. cbn [andb] in RK. apply negb_false_iff in RK. unfold continuing_headers in RK.
  apply andb_prop in RK. destruct RK as [_ RK]. apply negb_true_iff in RK. exact RK.
Qed.

Lemma P_set_hdr_open idp s h : P idp s -> st_responded s = false -> hd_headersFinished h = false -> idp (st_id s) ->
  (st_state s = SClosed -> st_headersFinished s = false /\ close_ok true s) -> P idp (set_hdr s h).
Proof.
  intros (P1 & P2 & P3 & P4 & P5) R Hf I C. unfold P. cbn [set_hdr st_headersFinished st_prev st_responded st_handlerRunning st_id st_state].
  repeat split; try congruence.
  - exact P3.
  - intro E. destruct (C E) as [Hs OK]. intros K _. apply (OK K Hs).
Qed.

Lemma P_set_hdr_done idp s h : P idp s -> st_responded s = false ->
  P idp (set_headers_finished (set_hdr s (hd_set_prev h [])) true).
Proof.
  intros (P1 & P2 & P3 & P4 & P5) R. unfold P.
  cbn [set_headers_finished set_hdr get_hdr hd_set_prev st_headersFinished st_prev st_responded st_handlerRunning st_id st_state
       hd_prev hd_headersFinished].
  repeat split; try congruence.
  - exact P3.
  - intros _ _ Hf. discriminate.
Qed.

Lemma HInv_upd_dec idp c d : HInv idp c -> HInv idp (upd_dec c d).
Proof. apply HInv_ext; reflexivity. Qed.

(* ---------- the fragment goes to a stream of the table ---------- *)
Lemma ftail_hdr c2 s fr wc :
  is_hdr_kind (sf_kind fr) = true -> st_id s = sf_sid fr ->
  HInv (eq (sf_sid fr)) c2 -> strms_search (sc_strms c2) (sf_sid fr) = Some s ->
  sc_wl_dead c2 = false -> (wc = true -> sc_closing c2 = true) ->
  (gcount (sc_out (fst (ftail dec_field cfg c2 s fr wc))) <= gcount (sc_out c2))%nat ->
  hdr_post c2 (hn0 s fr) (hb0 s fr) fr (fst (ftail dec_field cfg c2 s fr wc)).
Proof.
  intros HK Es H SS W WC G. unfold ftail in *.
  pose proof (handle_frame_hdr_spec _ dec_field cfg c2 s fr HK) as HS.
  destruct (handle_frame dec_field cfg c2 s fr) as [[c3 s3] e]. cbn [fst snd] in HS.
  destruct (strms_search_In _ _ _ SS) as [Is _].
  pose proof H as [ND FP IDS LAST DISC RING].
  assert (Ps : P (eq (sf_sid fr)) s) by (rewrite Forall_forall in FP; auto).
  assert (NZ : sf_sid fr <> 0) by (rewrite <- Es; apply IDS; exact Is).
  assert (DN : sc_discardID c2 <> sf_sid fr).
  { intro E. assert (N0 : sc_discardID c2 <> 0) by congruence. destruct (DISC N0) as [NI _]. apply NI.
    rewrite E, <- Es. apply in_map. exact Is. }
  assert (NR := hdr_kind_not_rst fr HK).
  assert (IT : forall d x, st_id x = st_id s -> inT (upd_dec c2 d) x).
  { intros d x Ex. exists s. sc_cbn. rewrite Ex, Es. exact SS. }
  inversion HS as [c1' s1' e' D I F|fs hF d' n' carry' RO EH R HF|fs hF d' n' RO EH R HF
                   |fs k v fs2 hF code d' n' carry' RO R HF FE]; subst.
  - (* a connection error *)
    exfalso. pose proof (fatal_ftail_rest c2 c3 s3 e' fr wc D F W). lia.
  - (* the block goes on *)
    set (s3 := set_hdr s (hd_set_prev hF carry')) in *. set (c3 := upd_dec c2 d') in *.
    destruct (hfold_frame cfg _ _ _ HF) as (_ & BF & HFF). cbn [hh1 hd_headersFinished] in HFF. rewrite hh1_bf in BF.
    pose proof (ref_run_count _ _ _ _ _ _ _ _ _ _ R) as CNT.
    assert (R0 := rank_ok_unanswered _ _ _ Ps RO).
    assert (P3 : P (eq (sf_sid fr)) s3).
    { apply P_set_hdr_open; [exact Ps | exact R0 | exact HFF | symmetry; exact Es | apply (rank_ok_closed _ _ _ Ps RO)]. }
    assert (HV : HInv (eq (sf_sid fr)) (put c3 s3)).
    { eapply HInv_put; [apply HInv_upd_dec; exact H | | exact P3]. sc_cbn. cbn [s3 set_hdr st_id]. rewrite Es. exact SS. }
    assert (CV : carry_at (put c3 s3) (sf_sid fr) = Some (n', carry')).
    { assert (SP : strms_search (sc_strms (put c3 s3)) (sf_sid fr) = Some s3).
      { rewrite sc_strms_put. rewrite <- Es. change (st_id s) with (st_id s3). eapply iso_search_put_same.
        cbn [s3 set_hdr st_id]. rewrite Es. exact SS. }
      unfold carry_at. rewrite SP. replace (sc_discardID (put c3 s3)) with (sc_discardID c2) by reflexivity.
      replace (sc_discardID c2 =? sf_sid fr) with false by lia.
      cbn [s3 set_hdr st_headersFinished hd_set_prev hd_headersFinished st_blockFields hd_blockFields st_prev hd_prev].
      rewrite HFF. f_equal. f_equal. lia. }
    assert (M : hmvs (sf_sid fr) true (put c3 s3) (fst (ftail_rest cfg c3 s3 None fr wc))).
    { apply (hmvs_ftail_rest _ dec_field enc_set_max cfg (sf_sid fr)).
      - apply IT. reflexivity.
      - exact WC.
      - intros _ CL. apply (handle_state_not_rst _ _ NR) in CL. cbn [s3 set_hdr st_state] in CL.
        destruct (rank_ok_closed _ _ _ Ps RO CL) as [Hs OK]. intros K _. apply (OK K Hs).
      - intros code Ec. discriminate Ec. }
    exists fs, n', carry'. split; [|split].
    + rewrite (hmvs_dec _ _ _ _ _ M). rewrite EH. exact R.
    + eapply eff_trans; [|eapply hmvs_eff; exact M]. apply eff_quiet; reflexivity.
    + intro Hd'. unfold next_cur. rewrite EH. split; [split|split; [|split; [|split]]].
      * eapply hmvs_HInv; [exact M | exact HV | exact Hd'].
      * intros _. eapply hmvs_carry; [exact M | exact HV | exact Hd' | exact CV].
      * eapply oth_trans; [|eapply hmvs_other; [exact M | exact Hd']].
        eapply oth_trans; [apply (oth_same_strms _ _ c2 c3); reflexivity | apply oth_put; exact Es].
      * (* its own entry: what handle_frame made of it, whatever after_frame did to its state and flags *)
        assert (M0 : hmvs 0 true (put c3 s3) (fst (ftail_rest cfg c3 s3 None fr wc))).
        { apply (hmvs_ftail_rest _ dec_field enc_set_max cfg 0).
          - apply IT. reflexivity.
          - exact WC.
          - intros _ CL. apply (handle_state_not_rst _ _ NR) in CL. cbn [s3 set_hdr st_state] in CL.
            destruct (rank_ok_closed _ _ _ Ps RO CL) as [Hs OK]. intros K _. apply (OK K Hs).
          - intros code Ec. discriminate Ec. }
        assert (ES0 : entry_before c2 fr = s) by (unfold entry_before; rewrite SS; reflexivity).
        rewrite ES0. intros x Ix Ex.
        assert (X0 : st_id x <> 0) by (rewrite Ex; exact NZ).
        destruct (hmvs_other _ 0 true _ _ M0 Hd' x Ix X0) as (s' & Is' & Ei' & Er' & Eh').
        assert (S' : s' = s3).
        { destruct HV as [NDv _ _ _ _ _]. pose proof (iso_NoDup_search _ _ NDv Is') as Sv.
          rewrite Ei', Ex in Sv. assert (SP : strms_search (sc_strms (put c3 s3)) (sf_sid fr) = Some s3).
          { rewrite sc_strms_put. rewrite <- Es. change (st_id s) with (st_id s3). eapply iso_search_put_same.
            cbn [s3 set_hdr st_id]. rewrite Es. exact SS. }
          congruence. }
        subst s'. destruct (get_hdr_views _ _ Eh' Er') as [GH GR]. exists hF. split; [exact HF|].
        rewrite GH, GR, EH. cbn [s3 set_hdr st_recvBody]. split; [apply get_hdr_set_hdr | reflexivity].
      * intros x Ix. left. pose proof (hmvs_ids _ _ _ _ _ M Hd' x Ix) as I2.
        rewrite sc_strms_put, strms_put_ids in I2. exact I2.
      * pose proof (hmvs_highest _ _ _ _ _ M Hd') as HM. replace (sc_highestID (put c3 s3)) with (sc_highestID c2) in HM by reflexivity.
        destruct (IDS s Is) as [LS _]. split; lia.
  - (* the block is complete *)
    set (s3 := set_headers_finished (set_hdr s (hd_set_prev hF [])) true) in *. set (c3 := upd_dec c2 d') in *.
    assert (R0 := rank_ok_unanswered _ _ _ Ps RO).
    assert (P3 : P (eq (sf_sid fr)) s3) by (apply P_set_hdr_done; assumption).
    assert (S3 : strms_search (sc_strms c3) (st_id s3) = Some s) by (cbn [s3 set_headers_finished set_hdr st_id]; rewrite Es; exact SS).
    assert (HV : HInv (eq 0) (put c3 s3)).
    { eapply (HInv_none (sf_sid fr) (eq 0) _ s3).
      - eapply HInv_put; [apply HInv_upd_dec; exact H | exact S3 | exact P3].
      - rewrite sc_strms_put. replace (sf_sid fr) with (st_id s3) by exact Es. eapply iso_search_put_same. exact S3.
      - reflexivity. }
    assert (M : hmvs (sf_sid fr) true (put c3 s3) (fst (ftail_rest cfg c3 s3 (validate_request_pseudo_headers s3) fr wc))).
    { apply (hmvs_ftail_rest _ dec_field enc_set_max cfg (sf_sid fr)).
      - apply IT. reflexivity.
      - exact WC.
      - intros _ _ _ Hf. discriminate Hf.
      - intros code Ec. apply validate_err in Ec. discriminate Ec. }
    exists fs, n', []. split; [|split].
    + rewrite (hmvs_dec _ _ _ _ _ M). rewrite EH. exact R.
    + eapply eff_trans; [|eapply hmvs_eff; exact M]. apply eff_quiet; reflexivity.
    + intro Hd'. unfold next_cur. rewrite EH. split; [split; [|congruence]|split; [|split; [|split]]].
      * eapply hmvs_HInv; [exact M | exact HV | exact Hd'].
      * eapply oth_trans; [|eapply hmvs_other; [exact M | exact Hd']].
        eapply oth_trans; [apply (oth_same_strms _ _ c2 c3); reflexivity | apply oth_put; exact Es].
      * (* its own entry: what handle_frame made of it, whatever after_frame did to its state and flags *)
        assert (M0 : hmvs 0 true (put c3 s3) (fst (ftail_rest cfg c3 s3 (validate_request_pseudo_headers s3) fr wc))).
        { apply (hmvs_ftail_rest _ dec_field enc_set_max cfg 0).
          - apply IT. reflexivity.
          - exact WC.
          - intros _ _ _ Hf. discriminate Hf.
          - intros code Ec. apply validate_err in Ec. discriminate Ec. }
        assert (ES0 : entry_before c2 fr = s) by (unfold entry_before; rewrite SS; reflexivity).
        rewrite ES0. intros x Ix Ex.
        assert (X0 : st_id x <> 0) by (rewrite Ex; exact NZ).
        destruct (hmvs_other _ 0 true _ _ M0 Hd' x Ix X0) as (s' & Is' & Ei' & Er' & Eh').
        assert (S' : s' = s3).
        { destruct HV as [NDv _ _ _ _ _]. pose proof (iso_NoDup_search _ _ NDv Is') as Sv.
          rewrite Ei', Ex in Sv. assert (SP : strms_search (sc_strms (put c3 s3)) (sf_sid fr) = Some s3).
          { rewrite sc_strms_put. replace (sf_sid fr) with (st_id s3) by exact Es. eapply iso_search_put_same. exact S3. }
          congruence. }
        subst s'. destruct (get_hdr_views _ _ Eh' Er') as [GH GR]. exists hF. split; [exact HF|].
        rewrite GH, GR, EH. split; [apply get_hdr_finished | reflexivity].
      * intros x Ix. left. pose proof (hmvs_ids _ _ _ _ _ M Hd' x Ix) as I2.
        rewrite sc_strms_put, strms_put_ids in I2. exact I2.
      * pose proof (hmvs_highest _ _ _ _ _ M Hd') as HM. replace (sc_highestID (put c3 s3)) with (sc_highestID c2) in HM by reflexivity.
        destruct (IDS s Is) as [LS _]. split; lia.
  - (* a stream error at a field: the stream is reset and closed, the rest of the block has been decoded *)
    set (s3 := set_hdr s hF) in *.
    set (c3 := upd_discard (upd_dec c2 d') (if eh_of fr then 0 else st_id s) carry' n') in *.
    destruct (hfold_frame cfg _ _ _ HF) as (PV & _ & HFF). cbn [hh1 hd_headersFinished hd_prev] in HFF, PV.
    assert (R0 := rank_ok_unanswered _ _ _ Ps RO).
    assert (EF : eff c2 (fst (ftail_rest cfg c3 s3 (Some (EReset code)) fr wc))).
    { eapply eff_trans; [|eapply hmvs_eff; apply (hmvs_ftail_rest _ dec_field enc_set_max cfg (sf_sid fr) false c3 s3)].
      - apply eff_quiet; reflexivity.
      - exists s. unfold c3. sc_cbn. cbn [s3 set_hdr st_id]. rewrite Es. exact SS.
      - exact WC.
      - intro Ec. discriminate Ec.
      - intros code0 Ec. discriminate Ec. }
    revert EF. unfold ftail_rest. cbn [write_error].
    set (s5 := set_state (set_state (set_weReset s3) SClosed) SClosed).
    set (c4 := write_reset c3 (st_id s3) code).
    rewrite (after_frame_closed c4 s5 fr wc NR eq_refl) by exact R0. cbv zeta.
    set (cc := close_stream (put c4 s5) s5). intro EF.
    exists (fs ++ (k, v) :: fs2), n', carry'.
    assert (DC : sc_dec cc = d') by (unfold cc, c4, c3; sc_rw; reflexivity).
    assert (HC : HG cc (next_cur fr) n' carry').
    { assert (S5 : strms_search (sc_strms c4) (st_id s5) = Some s) by (unfold c4, c3; sc_rw; sc_cbn; cbn [s5 s3 set_state set_weReset set_hdr st_id]; rewrite Es; exact SS).
      assert (ND5 : NoDup (map st_id (sc_strms (put c4 s5)))).
      { rewrite sc_strms_put, strms_put_ids. unfold c4, c3. sc_rw. sc_cbn. exact ND. }
      assert (I5 : st_id s5 = sf_sid fr) by exact Es.
      pose proof (close_stream_discard _ (put c4 s5) s5) as CD.
      replace (st_weReset s5) with true in CD by reflexivity.
      replace (st_headersFinished s5) with false in CD by (symmetry; exact HFF).
      replace (sc_discardID (put c4 s5)) with (if eh_of fr then 0 else st_id s) in CD by (unfold c4, c3; sc_rw; reflexivity).
      rewrite I5 in CD. cbn [andb negb] in CD.
      assert (PO : forall y, In y (sc_strms cc) -> P (eq (next_cur fr)) y /\ st_id y <= sc_lastID c2 /\ st_id y <> 0).
      { intros y Iy. unfold cc in Iy. rewrite sc_strms_close_stream in Iy.
        assert (Ny : st_id y <> st_id s5).
        { intro E. apply (iso_del_gone _ (st_id s5) ND5). apply (in_map st_id) in Iy. rewrite E in Iy. exact Iy. }
        apply strms_del_In in Iy. rewrite sc_strms_put in Iy. destruct (strms_put_In _ _ _ Iy) as [->|Iy']; [congruence|].
        unfold c4, c3 in Iy'. rewrite sc_strms_write_reset in Iy'. sc_cbn_in Iy'.
        rewrite Forall_forall in FP. pose proof (FP y Iy') as Py. split; [|apply IDS; exact Iy'].
        eapply P_weaken; [exact Py|]. destruct (st_headersFinished y) eqn:Hy; [reflexivity|].
        destruct Py as (_ & _ & _ & P4 & _). specialize (P4 Hy). congruence. }
      split.
      - constructor.
        + unfold cc. rewrite sc_strms_close_stream. apply iso_del_NoDup. exact ND5.
        + apply Forall_forall. intros y Iy. apply PO. exact Iy.
        + intros y Iy. unfold cc, c4, c3. sc_rw. sc_cbn. apply PO. exact Iy.
        + unfold cc, c4, c3. sc_rw. sc_cbn. exact LAST.
        + intros _. assert (ED : sc_discardID cc = sf_sid fr).
          { unfold cc. destruct (eh_of fr).
            - replace (0 =? sf_sid fr) with false in CD by lia. cbn [negb] in CD. injection CD as E1 E2 E3. exact E1.
            - replace (st_id s =? sf_sid fr) with true in CD by lia. cbn [negb] in CD. injection CD as E1 E2 E3.
              rewrite E1. exact Es. }
          rewrite ED. split.
          * unfold cc. rewrite sc_strms_close_stream. rewrite <- I5. apply iso_del_gone. exact ND5.
          * unfold cc, c4, c3. sc_rw. sc_cbn. rewrite <- Es. destruct (IDS s Is). lia.
        + intros e' Ie. unfold cc in Ie. rewrite sc_ring_close_stream in Ie.
          destruct (mark_closed_ring_In _ _ _ _ _ Ie) as [->|Ie'].
          * cbn [fst]. unfold cc, c4, c3. sc_rw. sc_cbn. rewrite I5, <- Es. destruct (IDS s Is). lia.
          * unfold c4, c3 in Ie'. rewrite sc_ring_put, sc_ring_write_reset in Ie'. sc_cbn_in Ie'.
            unfold cc, c4, c3. sc_rw. sc_cbn. apply RING. exact Ie'.
      - unfold next_cur. destruct (eh_of fr); [congruence|]. intros _.
        replace (st_id s =? sf_sid fr) with true in CD by lia. cbn [negb] in CD. injection CD as E1 E2 E3.
        unfold carry_at, cc. rewrite E1, E2, E3. unfold c4, c3. sc_rw. sc_cbn. rewrite Es, N.eqb_refl. reflexivity. }
    destruct (wc && can_close_after_goaway cc)%bool.
    + split; [rewrite sc_dec_brk, DC; exact R | split; [exact EF | intro Hd'; discriminate Hd']].
    + split; [cbn [cont fst]; rewrite DC; exact R | split; [exact EF | intros _; split; [exact HC|split; [|split; [|split]]]]].
      4:{ cbn [cont fst]. replace (sc_highestID cc) with (sc_highestID c2) by (unfold cc, c4, c3; sc_rw; reflexivity).
          destruct (IDS s Is) as [LS _]. split; lia. }
      3:{ cbn [cont fst]. intros y Iy. left. unfold cc in Iy. rewrite sc_strms_close_stream in Iy. apply strms_del_In in Iy.
          apply (in_map st_id) in Iy. rewrite sc_strms_put, strms_put_ids in Iy. unfold c4, c3 in Iy.
          rewrite sc_strms_write_reset in Iy. sc_cbn_in Iy. exact Iy. }
      2:{ (* the stream is gone *)
          cbn [cont fst]. intros y Iy Ey. exfalso. destruct HC as [[NDc _ _ _ _ _] _].
          unfold cc in Iy. rewrite sc_strms_close_stream in Iy.
          assert (ND5 : NoDup (map st_id (sc_strms (put c4 s5)))).
          { rewrite sc_strms_put, strms_put_ids. unfold c4, c3. sc_rw. sc_cbn. exact ND. }
          apply (iso_del_gone _ (st_id s5) ND5). apply (in_map st_id) in Iy. rewrite Ey in Iy. replace (st_id s5) with (sf_sid fr) at 1 by (symmetry; exact Es). exact Iy. }
      cbn [cont fst]. intros y Iy NO. unfold cc in Iy. rewrite sc_strms_close_stream in Iy. apply strms_del_In in Iy.
      rewrite sc_strms_put in Iy. destruct (strms_put_In _ _ _ Iy) as [->|Iy']; [exfalso; apply NO; exact Es|].
      unfold c4, c3 in Iy'. rewrite sc_strms_write_reset in Iy'. sc_cbn_in Iy'. exists y. auto.
Qed.

(* ---------- the HEADERS prelude, then the frame ---------- *)
Lemma sc_sl_done_implicit_close fuel : forall c sid, sc_sl_done (implicit_close fuel c sid) = sc_sl_done c.
Proof.
  induction fuel as [|fuel IH]; intros c sid; cbn [implicit_close]; [reflexivity|].
  destruct (sc_strms c) as [|n t]; [reflexivity|]. destruct (_ && _ && _)%bool; [|reflexivity].
  rewrite IH. sc_rw. reflexivity.
Qed.

Lemma sc_highestID_implicit_close fuel : forall c sid, sc_highestID (implicit_close fuel c sid) = sc_highestID c.
Proof.
  induction fuel as [|fuel IH]; intros c sid; cbn [implicit_close]; [reflexivity|].
  destruct (sc_strms c) as [|n t]; [reflexivity|]. destruct (_ && _ && _)%bool; [|reflexivity].
  rewrite IH. sc_rw. reflexivity.
Qed.

Lemma fwork_hdr c1 s fr wc :
  is_hdr_kind (sf_kind fr) = true -> st_id s = sf_sid fr ->
  HInv (eq (sf_sid fr)) c1 -> strms_search (sc_strms c1) (sf_sid fr) = Some s ->
  sc_sl_done c1 = false -> sc_wl_dead c1 = false -> (wc = true -> sc_closing c1 = true) ->
  (is_cont fr = false -> forall p, get_previous_headers (sc_strms c1) = Some p -> st_headersFinished p = true) ->
  (gcount (sc_out (fst (fwork dec_field cfg c1 s fr wc))) <= gcount (sc_out c1))%nat ->
  hdr_post c1 (hn0 s fr) (hb0 s fr) fr (fst (fwork dec_field cfg c1 s fr wc)).
Proof.
  intros HK Es H SS Hd W WC GP G. unfold fwork in *.
  destruct (fkind_eqb (sf_kind fr) KHeaders) eqn:KH.
  - assert (NC : is_cont fr = false) by (unfold is_cont; destruct (sf_kind fr); try discriminate KH; reflexivity).
    assert (IC : forall pre2 : (sconn * bool) + sconn,
               pre2 = inr (implicit_close (S (length (sc_strms c1))) c1 (st_id s)) ->
               (gcount (sc_out (fst (match pre2 with inl r => r | inr c2 => ftail dec_field cfg c2 s fr wc end))) <= gcount (sc_out c1))%nat ->
               hdr_post c1 (hn0 s fr) (hb0 s fr) fr
                        (fst (match pre2 with inl r => r | inr c2 => ftail dec_field cfg c2 s fr wc end))).
    { intros pre2 -> G2.
      destruct (hmvs_implicit_close _ dec_field enc_set_max (sf_sid fr) true (S (length (sc_strms c1))) c1 (st_id s)) as (M & SR & CL).
      set (c2 := implicit_close (S (length (sc_strms c1))) c1 (st_id s)) in *.
      assert (Hd2 : sc_sl_done c2 = false) by (unfold c2; rewrite sc_sl_done_implicit_close; exact Hd).
      pose proof (hmvs_base _ _ _ _ _ M) as (OX & W2 & _). apply oext_gcount in OX.
      apply (hdr_post_pre c1 c2); [eapply hmvs_eff; exact M | eapply hmvs_dec; exact M | eapply hmvs_other; [exact M | exact Hd2] | unfold entry_before; rewrite SS, SR by lia; rewrite SS; reflexivity | intros y Iy; left; eapply hmvs_ids; [exact M | exact Hd2 | exact Iy] | unfold c2; rewrite sc_highestID_implicit_close; lia|]. apply ftail_hdr.
      - exact HK.
      - exact Es.
      - eapply hmvs_HInv; [exact M | exact H | exact Hd2].
      - rewrite SR by lia. exact SS.
      - congruence.
      - rewrite CL. exact WC.
      - lia. }
    destruct (get_previous_headers (sc_strms c1)) as [p|] eqn:GPE;
      [|exact (IC (inr (implicit_close (S (length (sc_strms c1))) c1 (st_id s))) eq_refl G)].
    rewrite (GP NC p eq_refl) in *. cbn [negb] in *.
    exact (IC (inr (implicit_close (S (length (sc_strms c1))) c1 (st_id s))) eq_refl G).
  - apply ftail_hdr; assumption.
Qed.

(* ---------- sl_frame ---------- *)
Lemma get_previous_headers_In l p : get_previous_headers l = Some p -> In p l.
Proof.
  unfold get_previous_headers. intro H.
  destruct (filter (fun s => fkind_eqb (st_orig s) KHeaders) (rev l)) as [|a [|b t]] eqn:E; try discriminate.
  inversion H; subst. apply in_rev. assert (I : In p (filter (fun s => fkind_eqb (st_orig s) KHeaders) (rev l))) by (rewrite E; right; left; reflexivity).
  apply filter_In in I. tauto.
Qed.

Lemma get_previous_headers_new l s p : st_orig s = KHeaders -> get_previous_headers (l ++ [s]) = Some p -> In p l.
Proof.
  unfold get_previous_headers. intros O H. rewrite rev_app_distr in H. cbn [rev app filter] in H. rewrite O in H. cbn [fkind_eqb] in H.
  destruct (filter (fun s => fkind_eqb (st_orig s) KHeaders) (rev l)) as [|b t] eqn:E; try discriminate.
  inversion H; subst. apply in_rev. assert (I : In p (filter (fun s => fkind_eqb (st_orig s) KHeaders) (rev l))) by (rewrite E; left; reflexivity).
  apply filter_In in I. tauto.
Qed.

Lemma in_ring_In c id : in_ring c id = true -> exists e, In e (sc_ring c) /\ fst e = id.
Proof.
  unfold in_ring. intro H. apply existsb_exists in H. destruct H as (e & I & E). exists e. split; [exact I | lia].
Qed.

Lemma HInv_allhf idp idp' c : HInv idp c -> (forall s, In s (sc_strms c) -> st_headersFinished s = true) -> HInv idp' c.
Proof.
  intros [] HF. constructor; auto. rewrite Forall_forall in *. intros s I. eapply P_weaken; eauto.
Qed.

Lemma search_none_notin l id : strms_search l id = None -> ~ In id (map st_id l).
Proof.
  intros H I. apply in_map_iff in I. destruct I as (s & E & Is). eapply strms_search_None; eassumption.
Qed.

Lemma P_new id w k t (idp : N -> Prop) : idp id -> P idp (set_orig_started (new_stream id w) k t).
Proof. intro I. unfold P. cbn. repeat split; try congruence; auto. Qed.

Theorem sl_frame_hdr c fr cur n carry :
  is_hdr_frame fr = true -> sc_sl_done c = false -> sc_wl_dead c = false -> HG c cur n carry ->
  (is_cont fr = true -> cur = sf_sid fr) -> (is_cont fr = false -> cur = 0) ->
  (gcount (sc_out (fst (sl_frame dec_field enc_set_max cfg c fr))) <= gcount (sc_out c))%nat ->
  hdr_post c (if is_cont fr then n else 0) ((if is_cont fr then carry else []) ++ sf_payload fr) fr
           (fst (sl_frame dec_field enc_set_max cfg c fr)).
Proof.
  intros HF Hd W [H CA] KC KH G. unfold is_hdr_frame in HF. apply andb_prop in HF. destruct HF as [Z0 HK].
  apply negb_true_iff in Z0. assert (NZ : sf_sid fr <> 0) by lia.
  unfold sl_frame in *. rewrite Z0 in *.
  pose proof H as [ND FP IDS LAST DISC RING].
  assert (GA : forall sid code, (gcount (sc_out (write_goaway c sid code)) <= gcount (sc_out c))%nat -> False).
  { intros sid code L. pose proof (gcount_write_goaway _ c sid code W). lia. }
  destruct (is_cont fr) eqn:IC.
  - (* CONTINUATION: the block in progress is this stream's *)
    specialize (KC eq_refl). subst cur. specialize (CA NZ).
    assert (KCe : fkind_eqb (sf_kind fr) KCont = true) by exact IC.
    rewrite KCe in *. cbn [andb] in *. unfold carry_at in CA.
    destruct (sc_discardID c =? sf_sid fr) eqn:ED.
    + (* the block is being thrown away *)
      replace (sf_sid fr =? sc_discardID c) with true in * by lia.
      replace (negb (sc_discardID c =? 0)) with true in * by (symmetry; apply negb_true_iff; lia). cbn [andb] in *.
      inversion CA; subst n carry.
      assert (D0 : sc_discardID c <> 0) by lia. destruct (DISC D0) as [NI LE].
      replace (sc_discardID c) with (sf_sid fr) in NI, LE by lia.
      assert (AH : forall s, In s (sc_strms c) -> st_headersFinished s = true).
      { intros s Is. rewrite Forall_forall in FP. destruct (FP s Is) as (_ & _ & _ & P4 & _).
        destruct (st_headersFinished s); [reflexivity|]. exfalso. apply NI. rewrite (P4 eq_refl). apply in_map. exact Is. }
      pose proof (discard_path (eq (sf_sid fr)) c fr H AH NI LE NZ W G) as DP. rewrite IC in DP. exact DP.
    + (* the block belongs to a stream of the table *)
      replace (sf_sid fr =? sc_discardID c) with false in * by lia. rewrite andb_false_r in *.
      destruct (strms_search (sc_strms c) (sf_sid fr)) as [s|] eqn:SS; [|discriminate].
      destruct (st_headersFinished s) eqn:Hs; [discriminate|]. inversion CA; subst n carry.
      destruct (strms_search_In _ _ _ SS) as [Is Es].
      replace (sf_sid fr <=? sc_lastID c) with true in * by (symmetry; destruct (IDS s Is); lia).
      cbv zeta in *.
      change (hdr_post c (st_blockFields s) (st_prev s ++ sf_payload fr) fr (fst (fwork dec_field cfg c s fr (sc_closing c)))).
      change (gcount (sc_out (fst (fwork dec_field cfg c s fr (sc_closing c)))) <= gcount (sc_out c))%nat in G.
      pose proof (fwork_hdr c s fr (sc_closing c) HK Es H SS Hd W (fun x => x)) as FW.
      unfold hn0, hb0 in FW. rewrite IC in FW. apply FW; [intro; discriminate | exact G].
  - (* HEADERS: no block is in progress *)
    specialize (KH eq_refl). subst cur.
    assert (KCe : fkind_eqb (sf_kind fr) KCont = false) by exact IC.
    assert (KHe : fkind_eqb (sf_kind fr) KHeaders = true).
    { unfold is_hdr_kind in HK. rewrite KCe in HK. rewrite orb_false_r in HK. exact HK. }
    assert (KRe : fkind_eqb (sf_kind fr) KRst = false) by (apply hdr_kind_not_rst; exact HK).
    assert (KPe : fkind_eqb (sf_kind fr) KPriority = false) by (destruct (sf_kind fr); try discriminate KHe; reflexivity).
    assert (AH : forall s, In s (sc_strms c) -> st_headersFinished s = true).
    { apply all_hf_of_P0; [intros s Is; apply IDS; exact Is | exact FP]. }
    rewrite KCe in *. cbn [andb] in *. cbv zeta in *.
    change (match ?pre with inl r => r | inr (c1, s) => _ end) with
      (match pre with inl r => r | inr (c1, s) => fwork dec_field cfg c1 s fr (sc_closing c) end) in G |- *.
    destruct (if sf_sid fr <=? sc_lastID c then strms_search (sc_strms c) (sf_sid fr) else None) as [s|] eqn:Found.
    + (* trailers, or a second HEADERS, on a stream of the table *)
      assert (SS : strms_search (sc_strms c) (sf_sid fr) = Some s) by (destruct (_ <=? _); [exact Found | discriminate]).
      destruct (strms_search_In _ _ _ SS) as [Is Es].
      pose proof (fwork_hdr c s fr (sc_closing c) HK Es (HInv_allhf _ _ _ H AH) SS Hd W (fun x => x)) as FW.
      unfold hn0, hb0 in FW. rewrite IC in FW.
      assert (PV : st_prev s = []).
      { rewrite Forall_forall in FP. destruct (FP s Is) as (P1 & _). apply P1. apply AH. exact Is. }
      rewrite PV in FW. apply FW; [|exact G].
      intros _ p GP. apply AH. eapply get_previous_headers_In. exact GP.
    + assert (NF : strms_search (sc_strms c) (sf_sid fr) = None).
      { destruct (sf_sid fr <=? sc_lastID c) eqn:Le; [exact Found|].
        destruct (strms_search (sc_strms c) (sf_sid fr)) as [s|] eqn:SS; [|reflexivity].
        destruct (strms_search_In _ _ _ SS) as [Is Es]. destruct (IDS s Is). lia. }
      pose proof (search_none_notin _ _ NF) as NI.
      rewrite KRe, KPe, KHe in *. cbn [andb] in *.
      destruct (in_ring c (sf_sid fr)) eqn:IR.
      { (* a stream that was closed before *)
        assert (KHv : sf_kind fr = KHeaders) by (destruct (sf_kind fr); try discriminate KHe; reflexivity).
        rewrite KHv in *.
        destruct (match ring_find c (sf_sid fr) with Some b => b | None => false end).
        - destruct (in_ring_In _ _ IR) as (e & Ie & Ee). pose proof (RING e Ie) as LE. rewrite Ee in LE.
          pose proof (discard_path (eq 0) c fr H AH NI LE NZ W G) as DP. rewrite IC in DP. exact DP.
        - exfalso. cbn [cont fst] in G. eapply GA. exact G. }
      destruct (sf_sid fr <=? sc_highestID c) eqn:HI; [exfalso; cbn [cont fst] in G; eapply GA; exact G|].
      set (ch := upd_highestID c (sf_sid fr)) in *.
      assert (Hh : HInv (eq 0) ch).
      { eapply (hmv_HInv _ (sf_sid fr) (eq 0) c ch); [apply hm_highest; lia | exact H | exact Hd]. }
      (* the refusal *)
      assert (REF : (gcount (sc_out (fst (discard_or_break (discard_header_block dec_field cfg
                        (mark_closed (write_reset ch (sf_sid fr) c_RefusedStreamError) (sf_sid fr) true) fr)))) <= gcount (sc_out c))%nat ->
                    hdr_post c 0 ([] ++ sf_payload fr) fr
                      (fst (discard_or_break (discard_header_block dec_field cfg
                        (mark_closed (write_reset ch (sf_sid fr) c_RefusedStreamError) (sf_sid fr) true) fr)))).
      { intro G2. set (cr := mark_closed (write_reset ch (sf_sid fr) c_RefusedStreamError) (sf_sid fr) true) in *.
        assert (Mr : hmvs (sf_sid fr) true ch cr).
        { eapply hmvs_trans; [apply hmvs_same, (hsame_write_reset _ ch (sf_sid fr) c_RefusedStreamError)|].
          apply hmvs_one, hm_mark. sc_rw. unfold ch. sc_cbn. lia. }
        assert (Hr : HInv (eq 0) cr) by (eapply hmvs_HInv; [exact Mr | exact Hh | unfold cr; sc_rw; exact Hd]).
        assert (Or : sc_out cr = ORst (sf_sid fr) c_RefusedStreamError :: sc_out c).
        { unfold cr. sc_rw. rewrite sc_out_write_reset, sc_out_emit. unfold ch. sc_cbn. rewrite W, Hd. reflexivity. }
        assert (DP := discard_path (eq 0) cr fr Hr).
        rewrite IC in DP.
        apply (hdr_post_pre c cr).
        { eapply eff_trans; [eapply (hmv_eff _ (sf_sid fr) true c ch); apply hm_highest; lia | eapply hmvs_eff; exact Mr]. }
        { unfold cr, ch. sc_rw. reflexivity. }
        { apply oth_same_strms. unfold cr, ch. sc_rw. reflexivity. }
        { unfold entry_before, cr, ch. sc_rw. reflexivity. }
        { apply ids_post_same. unfold cr, ch. sc_rw. reflexivity. }
        { unfold cr, ch. sc_rw. sc_cbn. lia. }
        apply DP.
        - unfold cr, ch. sc_rw. sc_cbn. exact AH.
        - unfold cr, ch. sc_rw. sc_cbn. exact NI.
        - unfold cr, ch. sc_rw. sc_cbn. lia.
        - exact NZ.
        - unfold cr, ch. sc_rw. sc_cbn. exact W.
        - rewrite Or, gcount_cons. cbn [conn_err_out]. lia. }
      destruct ((cf_maxStreams cfg <=? sc_open ch)%Z || sc_closing c)%bool; [apply REF; exact G|].
      destruct (sf_sid fr <? sc_lastID ch) eqn:LT.
      { exfalso. cbn [cont fst] in G. pose proof (gcount_write_goaway _ ch (sf_sid fr) c_ProtocolError W) as GG.
        replace (sc_out ch) with (sc_out c) in GG by reflexivity. lia. }
      destruct (sc_closing ch) eqn:CL; [apply REF; exact G|].
      (* a new stream *)
      set (s := set_orig_started (new_stream (sf_sid fr) (sc_initWin (upd_lastID ch (sf_sid fr)))) (sf_kind fr)
                                 (sc_now (upd_lastID ch (sf_sid fr)))) in *.
      set (c3 := upd_open _ _) in *.
      assert (KHv : st_orig s = KHeaders) by (unfold s; cbn; destruct (sf_kind fr); try discriminate KHe; reflexivity).
      assert (S3 : strms_search (sc_strms c3) (sf_sid fr) = Some s).
      { unfold c3. sc_cbn. rewrite strms_search_app_None by exact NF. cbn [strms_search s set_orig_started new_stream st_id].
        rewrite N.eqb_refl. reflexivity. }
      assert (H3 : HInv (eq (sf_sid fr)) c3).
      { unfold c3, ch. constructor; sc_cbn.
        - rewrite map_app. cbn [map]. apply NoDup_app_one_iso; [exact ND | exact NI].
        - apply Forall_app. split.
          + rewrite Forall_forall in *. intros y Iy. eapply P_weaken; [apply FP; exact Iy | apply AH; exact Iy].
          + constructor; [|constructor]. apply P_new. reflexivity.
        - intros y Iy. apply in_app_or in Iy. destruct Iy as [Iy|[<-|[]]].
          + destruct (IDS y Iy). unfold ch in LT. sc_cbn_in LT. split; [lia | assumption].
          + cbn. split; [lia | exact NZ].
        - lia.
        - intro D0. destruct (DISC D0) as [NId LEd]. split; [|lia]. rewrite map_app. cbn [map]. intro I.
          apply in_app_or in I. destruct I as [I|[I|[]]]; [tauto|]. cbn in I. lia.
        - intros e Ie. specialize (RING e Ie). lia. }
      pose proof (fwork_hdr c3 s fr (sc_closing c) HK eq_refl H3 S3 Hd W) as FW.
      unfold hn0, hb0 in FW. rewrite IC in FW. cbn [s set_orig_started new_stream st_prev] in FW.
      apply (hdr_post_pre c c3); [apply eff_quiet; reflexivity | reflexivity | | | | unfold c3, ch; sc_cbn; lia|].
      { intros y Iy NO. unfold c3 in Iy. sc_cbn_in Iy. apply in_app_or in Iy. destruct Iy as [Iy|[<-|[]]]; [exists y; auto|].
        exfalso. apply NO. reflexivity. }
      { unfold entry_before. rewrite S3, NF. unfold s, ch. sc_cbn.
        replace (sf_kind fr) with KHeaders by (destruct (sf_kind fr); try discriminate KHe; reflexivity). reflexivity. }
      { intros y Iy. unfold c3 in Iy. sc_cbn_in Iy. apply in_app_or in Iy. destruct Iy as [Iy|[<-|[]]].
        - left. apply in_map. exact Iy.
        - right. split; [reflexivity | lia]. }
      apply FW.
      * intro Wc. unfold ch in CL. sc_cbn_in CL. congruence.
      * intros _ p GP. apply AH. unfold c3 in GP. sc_cbn_in GP. eapply get_previous_headers_new; [exact KHv | exact GP].
      * replace (sc_out c3) with (sc_out c) by reflexivity. exact G.
Qed.

End HdrStep.

Arguments HG {hstate}. Arguments hdr_post {hstate}.
