(* Proofs/CliFlowCExact.v - C07, "and finishes": while the write loop runs, the client's connection send window IS the
   server's ledger window.
   The only thing that takes the client's window below the ledger's is a critical section of sendPending whose bytes are
   debited and then neither written nor handed back: the DATA write failed, or the write loop parked for ever on a Ctx
   lock. Both end the write loop in the same select case. (A request taken back between the critical section and
   acquireFor hands its chunk back: MSendBack.) So a step after which the write loop still runs consists of lossless
   moves only (mvsL, DL: the decomposition of Proofs/CliFlowMoves.v once more for the two select cases that send), and
   lossless moves keep `cc_connWindow c = l_conn L`. With the deficit bound of Proofs/CliFlowCWin.v every pending body's
   window is then the ledger's too. *)
From H2V Require Import Base.Bytes Base.MachineInt Base.Result Gen.GenConsts Impl.ServerConn Impl.ClientConn
     Proofs.CliDefs Spec.FlowLedger Proofs.SrvFlowLedger Proofs.CliFlowMoves Proofs.CliFlowOut Proofs.CliFlowSettings Proofs.CliFlowSafe Proofs.CliFlowEs
     Proofs.CliFlowStall Proofs.CliFlowCInv Proofs.CliFlowCWin.
From Coq Require Import ZArith Lia ZifyN ZifyNat ZifyBool List Bool.
Import ListNotations.
Local Open Scope N_scope.

Section Exact.
Variable hstate : Type.
Variable enc_field : hstate -> bytes -> bytes -> bool -> bytes * hstate.
Variable enc_set_max : hstate -> N -> hstate.
Notation cconn := (cconn hstate).
Notation move := (move hstate).
Notation apply := (apply hstate enc_field enc_set_max).
Notation valid := (valid hstate).
Notation items := (items hstate).
Notation mvs := (mvs enc_field enc_set_max).
Notation Sim := (Sim hstate).
Notation lof := (lof hstate).
Notation mlof := (mlof hstate enc_field enc_set_max).

(* a critical section that writes nothing has debited nothing *)
Definition lossless (m : move) (c : cconn) : Prop :=
  match m with
  | MSend id false => forall pb, cl_pend_get (cc_pending c) id = Some pb -> cs_n c pb = 0%Z
  | _ => True
  end.

Lemma notes_cw l : forall (c : cconn), cc_connWindow (cl_notes c l) = cc_connWindow c.
Proof. intro c. apply (notes_flow hstate l c). Qed.

(* a lossless move keeps the connection window equal to the ledger's *)
Lemma mv_CW m (c : cconn) L :
  valid m c -> mv_pos hstate m -> Sim c L -> LB L -> LB (lrun L (grants_of m)) -> lossless m c ->
  cc_connWindow c = l_conn L -> cc_connWindow (apply m c) = l_conn (lrun L (lof m c)).
Proof.
  intros V P S B BG LS EQ. unfold CliFlowSafe.lof.
  destruct m; cbn [grants_of CliFlowOut.items app ledger_out flat_map];
    try (cbn [lrun fold_left CliFlowMoves.apply]; cc_cbn; exact EQ).
  - (* MNote *)
    cbn [CliFlowMoves.apply]. destruct (quietb o) eqn:Q; cbn [ledger_out flat_map app lrun fold_left]; [|exact EQ].
    destruct o; try discriminate; cbn [app lrun fold_left]; exact EQ.
  - (* MReqTake *)
    cbn [lrun fold_left CliFlowMoves.apply]. unfold cl_take_req_count. destruct (cl_req_find _ _); exact EQ.
  - (* MOutQPush *)
    cbn [lrun fold_left CliFlowMoves.apply]. destruct (pushb o); [|exact EQ]. unfold cl_write_out. destruct (cc_closed c); exact EQ.
  - (* MWlWrite *)
    cbn [CliFlowMoves.apply]. destruct (cc_outQ c) as [|o q] eqn:Q; cbn [ledger_out flat_map lrun fold_left]; [exact EQ|].
    pose proof (sim_q _ _ _ S) as QQ. rewrite Q in QQ. inversion QQ as [|? ? QO QT]; subst.
    destruct o; try (exfalso; exact QO); cbn [flat_map app lrun fold_left]; exact EQ.
  - (* MRecvData *)
    cbn [lrun fold_left CliFlowMoves.apply]. destruct (recv_data_fields hstate c fr has_res) as (_ & A2 & _). rewrite A2. exact EQ.
  - (* MSettings *)
    cbn [CliFlowMoves.apply grants_of] in *. destruct (cl_settings_deserialize false payload) as [st|] eqn:DS; [|cbn [app lrun fold_left]; exact EQ].
    rewrite app_nil_r. destruct (lrun_inits _ (inits_of_linit payload) L) as (_ & LC & _). rewrite LC.
    unfold cl_handle_settings, cl_apply_initial_window, cl_signal_window, cl_write_out.
    destruct (cl_settings_has st c_HeaderTableSize), (cs_hasWin st); cc_cbn; destruct (cc_closed c); cc_cbn; exact EQ.
  - (* MAddWindow *)
    cbn [mv_pos] in P. cbn [grants_of app lrun fold_left] in *. cbn [CliFlowMoves.apply].
    destruct S as [s1 s2 s3 s4 s5 s6 s7 s8]. destruct BG as [B1 B2].
    unfold cl_add_window, cl_signal_window. destruct (sid =? 0) eqn:S0.
    + cbn [lstep] in *. rewrite S0 in *. cbn [l_conn] in *. cc_cbn. rewrite cl_i32_id by (unfold MAXW in *; flia). rewrite EQ. reflexivity.
    + cbn [lstep]. rewrite S0. destruct (cl_pend_get (cc_pending c) sid); destruct (l_strm L sid); cc_cbn; cbn [l_conn]; exact EQ.
  - (* MRefill *)
    cbn [lrun fold_left CliFlowMoves.apply]. destruct (cl_pend_get _ _) as [pb|]; [|exact EQ]. destruct (cl_refill pb); exact EQ.
  - (* MSend *)
    destruct V as (pb & G & _). cbn [CliFlowMoves.apply CliFlowOut.items]. rewrite G.
    destruct S as [s1 s2 s3 s4 s5 s6 s7 s8]. destruct B as [B1 B2].
    destruct (pend_get_In _ _ _ G) as [HI EI]. destruct (s7 pb HI) as (w & W1 & W2 & W3). rewrite EI in W1.
    pose proof (cs_n_facts hstate c pb) as [N1 N2]. pose proof (cs_chunk_len hstate c pb) as CL.
    assert (IC : cl_i32 (cc_connWindow c - cs_n c pb) = (cc_connWindow c - cs_n c pb)%Z).
    { apply cl_i32_id. unfold MAXW in *. destruct (Z_lt_le_dec 0 (cs_n c pb)) as [P0|P0]; [destruct (N2 P0)|]; flia. }
    destruct wr; cbv iota.
    + assert (CC : 0 < len (cs_chunk c pb) -> (Z.of_N (len (cs_chunk c pb)) <= l_conn L)%Z /\ (Z.of_N (len (cs_chunk c pb)) <= w)%Z).
      { intro P0. rewrite CL. assert (P1 : (0 < cs_n c pb)%Z) by flia. destruct (N2 P1). flia. }
      destruct (write_data_led (cc_maxFrame c) id (cs_chunk c pb) (cs_end c pb) L w W1 CC) as (_ & A & _).
      rewrite notes_cw, (cs_conn_cw hstate), IC. cbn [app]. etransitivity; [|symmetry; exact A]. rewrite CL, EQ. reflexivity.
    + cbn [ledger_out flat_map app lrun fold_left]. rewrite (cs_conn_cw hstate), IC, (LS pb G), EQ. flia.
  - (* MSendBack *)
    destruct V as (pb & G & _). cbn [lrun fold_left CliFlowMoves.apply]. rewrite G. unfold send_back. cbv zeta.
    destruct S as [s1 s2 s3 s4 s5 s6 s7 s8]. destruct B as [B1 B2].
    pose proof (cs_n_facts hstate c pb) as [N1 N2]. set (n := cs_n c pb) in *.
    assert (IC : cl_i32 (cc_connWindow c - n) = (cc_connWindow c - n)%Z).
    { apply cl_i32_id. unfold MAXW in *. destruct (Z_lt_le_dec 0 n) as [P0|P0]; [destruct (N2 P0)|]; flia. }
    set (c3 := if (0 <? n)%Z then cl_add_window (cs_conn c pb id) 0 n else cs_conn c pb id).
    assert (CW3 : cc_connWindow c3 = cc_connWindow c).
    { subst c3. destruct (0 <? n)%Z eqn:NP; [apply Z.ltb_lt in NP | apply Z.ltb_ge in NP].
      - unfold cl_add_window, cl_signal_window. cbn [N.eqb]. cc_cbn. rewrite (cs_conn_cw hstate). fold n. rewrite IC.
        replace (cc_connWindow c - n + n)%Z with (cc_connWindow c) by flia. apply cl_i32_id. unfold MAXW in *. flia.
      - rewrite (cs_conn_cw hstate). fold n. rewrite IC. flia. }
    destruct (cl_pend_get (cc_pending c3) id); cc_cbn; rewrite CW3; exact EQ.
  - (* MEncSync *)
    cbn [lrun fold_left CliFlowMoves.apply]. destruct (negb _); exact EQ.
  - (* MHeaders *)
    destruct S as [s1 s2 s3 s4 s5 s6 s7 s8].
    assert (NS : l_strm L (cc_nextID c) = None).
    { destruct (l_strm L (cc_nextID c)) as [w|] eqn:E0; [|reflexivity]. apply s6 in E0. flia. }
    cbn [app lrun fold_left lstep]. rewrite NS. cbn [CliFlowMoves.apply l_conn]. destruct opb; cc_cbn; exact EQ.
Qed.

(* sequences of lossless moves *)
Inductive mvsL : cconn -> list move -> cconn -> Prop :=
| mvsL_nil c : mvsL c [] c
| mvsL_cons c m ms c' : valid m c -> lossless m c -> mvsL (apply m c) ms c' -> mvsL c (m :: ms) c'.

Lemma mvsL_mvs c ms c' : mvsL c ms c' -> mvs c ms c'.
Proof. induction 1; constructor; assumption. Qed.

Lemma mvsL_app a la b lb c : mvsL a la b -> mvsL b lb c -> mvsL a (la ++ lb) c.
Proof. induction 1; cbn [app]; [auto|]. intro. constructor; auto. Qed.

Lemma mvsL_CW (c : cconn) ms c' : mvsL c ms c' -> Forall (mv_pos hstate) ms ->
  forall L, Sim c L -> GOK L (mlof c ms) -> cc_connWindow c = l_conn L -> cc_connWindow c' = l_conn (lrun L (mlof c ms)).
Proof.
  induction 1 as [c|c m ms c' V LS M IH]; intros P L S G EQ; cbn [CliFlowSafe.mlof] in *; [exact EQ|].
  inversion P as [|? ? P1 P2]; subst.
  assert (B : LB L) by (eapply GOK_nil; exact G).
  assert (BG : LB (lrun L (grants_of m))).
  { unfold CliFlowSafe.lof in G. rewrite <- app_assoc in G. eapply GOK_pre. exact G. }
  destruct (mv_Sim hstate enc_field enc_set_max m c L V P1 S B BG) as [_ S1].
  pose proof (mv_CW m c L V P1 S B BG LS EQ) as E1.
  apply GOK_app in G. destruct G as [_ G2]. rewrite lrun_app. apply IH; assumption.
Qed.

(* DL: as DD of Proofs/CliFlowMoves.v, by lossless moves *)
Definition DL (P : move -> Prop) (g : list levent) (r : list sframe) (c c' : cconn) : Prop :=
  exists ms, mvsL c ms c' /\ Forall P ms /\ flat_map grants_of ms = g /\ flat_map rdatas_of ms = r.

Lemma DL_refl P c : DL P [] [] c c.
Proof. exists []. repeat split; constructor. Qed.

Lemma DL_trans P g1 g2 r1 r2 a b c : DL P g1 r1 a b -> DL P g2 r2 b c -> DL P (g1 ++ g2) (r1 ++ r2) a c.
Proof.
  intros (m1 & A1 & F1 & G1 & R1) (m2 & A2 & F2 & G2 & R2). exists (m1 ++ m2). split; [eapply mvsL_app; eassumption|].
  split; [apply Forall_app; auto|]. rewrite !flat_map_app. split; congruence.
Qed.

Lemma DL_trans0 P g r a b c : DL P [] [] a b -> DL P g r b c -> DL P g r a c.
Proof. intros X Y. exact (DL_trans P [] g [] r a b c X Y). Qed.

Lemma DL_step (P : move -> Prop) g r m (c c' : cconn) :
  valid m c -> lossless m c -> P m -> grants_of m = [] /\ rdatas_of m = [] -> DL P g r (apply m c) c' -> DL P g r c c'.
Proof.
  intros V LS H [G R] (ms & M & F & GG & RR). exists (m :: ms). split; [constructor; assumption|].
  split; [constructor; assumption|]. cbn [flat_map]. rewrite G, R. split; assumption.
Qed.

(* moves that are never a critical section without a write *)
Definition nolost (m : move) : Prop := match m with MSend _ false => False | _ => True end.

Lemma nolost_lossless m c : nolost m -> lossless m c.
Proof. destruct m; cbn; auto. destruct wr; [auto | intros []]. Qed.

Lemma DD_DL (P : move -> Prop) g r (c c' : cconn) : DD enc_field enc_set_max P g r c c' -> (forall m, P m -> nolost m) -> DL P g r c c'.
Proof.
  intros (ms & M & F & G & R) H. exists ms. split; [|repeat split; assumption].
  clear G R. induction M as [c|c m ms c' V M IH]; [constructor|]. inversion F; subst.
  constructor; [exact V | apply nolost_lossless, H; assumption | apply IH; assumption].
Qed.

Lemma anym_nolost (m : move) : anym m -> nolost m.
Proof. destruct m; cbn; auto. intros []. Qed.

Lemma DL_weaken (P Q : move -> Prop) g r c c' : (forall m, P m -> Q m) -> DL P g r c c' -> DL Q g r c c'.
Proof. intros I (ms & A & F & G). exists ms. split; [assumption|]. split; [|assumption]. eapply Forall_impl; eassumption. Qed.

End Exact.

(* ---------- the two select cases that send, by lossless moves when the write loop survives them ---------- *)

Lemma wlout_ev_ok {hstate} e (m : move hstate) : is_wlf e -> ev_ok CEvWLOut m -> ev_ok e m.
Proof.
  intros W H. destruct e; try contradiction; destruct m; cbn in *; auto; try discriminate; try contradiction;
    try (destruct H as (fr & X & _); discriminate); try (destruct H as [X _]; discriminate).
Qed.

Lemma wlout_nolost {hstate} (m : move hstate) : ev_ok CEvWLOut m -> nolost hstate m.
Proof. destruct m; cbn; auto. destruct wr; auto. Qed.

Section DecompL.
Variable hstate : Type.
Variable dec_field : hstate -> N -> bytes -> dec_res hstate.
Variable enc_field : hstate -> bytes -> bytes -> bool -> bytes * hstate.
Variable enc_set_max : hstate -> N -> hstate.
Variable cfg : cl_config.
Notation cconn := (cconn hstate).
Notation move := (move hstate).
Notation apply := (apply hstate enc_field enc_set_max).
Notation valid := (valid hstate).
Notation D := (D enc_field enc_set_max).
Notation DL := (DL hstate enc_field enc_set_max).
Notation step := (cl_step dec_field enc_field enc_set_max cfg).
Notation Lstep := (DL_step hstate enc_field enc_set_max).
Notation Ltrans0 := (DL_trans0 hstate enc_field enc_set_max).
Notation Lrefl := (DL_refl hstate enc_field enc_set_max).

(* what any goroutine does is lossless *)
Lemma Lany e (a b : cconn) : D anym [] a b -> DL (ev_ok e) [] [] a b.
Proof.
  intro X. apply (DL_weaken hstate enc_field enc_set_max anym); [apply anym_ev_ok|].
  apply (DD_DL hstate enc_field enc_set_max anym [] [] a b X). apply anym_nolost.
Qed.

(* the bottom of the loop, the loop's exit *)
Lemma Lout e (a b : cconn) : is_wlf e -> D (ev_ok CEvWLOut) [] a b -> DL (ev_ok e) [] [] a b.
Proof.
  intros W X. apply (DL_weaken hstate enc_field enc_set_max (ev_ok CEvWLOut)); [intro m; apply (wlout_ev_ok e m W)|].
  apply (DD_DL hstate enc_field enc_set_max _ [] [] a b X). apply wlout_nolost.
Qed.

Lemma send_pending_DL e fuel : is_wlf e -> forall (c : cconn) id,
  snd (cl_send_pending fuel c id) = CSPOk -> DL (ev_ok e) [] [] c (fst (cl_send_pending fuel c id)).
Proof.
  intro W. induction fuel as [|fuel IH]; intros c id R; [apply Lrefl|]. rewrite send_pending_S in R |- *.
  destruct (cl_pend_get (cc_pending c) id) as [pb|] eqn:G; [|apply Lrefl].
  destruct (refill_cond pb) eqn:RC.
  - destruct (cl_refill pb) as [pb'|] eqn:RF.
    + apply (Lstep _ _ _ (MRefill id)); [exists pb, pb'; auto | exact I | exact W | split; reflexivity |].
      cbn [CliFlowMoves.apply]. rewrite G, RF. apply IH. exact R.
    + destruct (cl_delete_pending 1 [] c id) as [c1 stuck] eqn:DP. apply (delete_pending_D' hstate enc_field enc_set_max) in DP.
      destruct stuck; cbn [fst snd] in *; [discriminate|].
      destruct (cl_req_find (cc_reqQueued c1) id) as [tg|]; cbn [fst snd] in *; [|apply Lany; exact DP]. cbv zeta in *.
      eapply Ltrans0; [apply Lany; exact DP|].
      eapply Ltrans0; [apply Lany, take_req_D|].
      eapply Ltrans0; [apply Lany, ctx_upd_D|].
      destruct (cl_can_write _) eqn:CW; cbn [fst snd] in *; [|discriminate].
      apply (Lstep _ _ _ (MWlReset id)); [exact CW | exact I | exact W | split; reflexivity |]. apply Lrefl.
  - cbv zeta in *.
    assert (V : forall wr, (wr = true -> cl_can_write c = true /\ ((cs_n c pb =? 0)%Z && negb (cs_end c pb)) = false) ->
                           valid (MSend id wr) c).
    { intros wr H. exists pb. auto. }
    assert (A : forall wr, apply (MSend id wr) c =
                           if wr then cl_notes (cs_conn c pb id) (cl_write_data (cc_maxFrame (cs_conn c pb id)) id (cs_chunk c pb) (cs_end c pb))
                           else cs_conn c pb id).
    { intro wr. cbn [CliFlowMoves.apply]. rewrite G. reflexivity. }
    destruct ((cs_n c pb =? 0)%Z && negb (cs_end c pb)) eqn:Z0.
    + apply (Lstep _ _ _ (MSend id false)); [apply V; discriminate | | exact W | split; reflexivity |].
      * cbn [lossless]. intros pb0 G0. rewrite G in G0. inversion G0. subst pb0.
        apply andb_prop in Z0. destruct Z0 as [Z0 _]. apply Z.eqb_eq in Z0. exact Z0.
      * rewrite A. apply Lrefl.
    + destruct (cl_acquire_for [] (cs_conn c pb id) (pb_tag pb) id).
      * destruct (cl_can_write (cs_conn c pb id)) eqn:CW; [|cbn [snd] in R; discriminate].
        apply (Lstep _ _ _ (MSend id true)); [apply V; intros _; split; [exact CW | reflexivity] | exact I | exact W | split; reflexivity |].
        rewrite A. destruct (cs_end c pb); cbn [fst snd] in *.
        -- apply Lany. apply close_body_D.
        -- apply IH. exact R.
      * apply (Lstep _ _ _ (MSendBack id)); [exists pb; auto | exact I | exact W | split; reflexivity |].
        cbn [CliFlowMoves.apply]. rewrite G. unfold send_back. cbv zeta.
        match goal with |- context [cl_delete_pending 1 [] ?cc id] =>
          pose proof (delete_pending_tail hstate enc_field enc_set_max 1 [] cc id) as DT; destruct (cl_delete_pending 1 [] cc id) as [c3 stuck] end.
        cbn [fst] in DT. apply Lany. exact DT.
      * cbn [snd] in R. discriminate.
      * cbn [snd] in R. discriminate.
Qed.

Lemma flush_pending_DL e ids : is_wlf e -> forall (c : cconn),
  snd (cl_flush_pending c ids) = CSPOk -> DL (ev_ok e) [] [] c (fst (cl_flush_pending c ids)).
Proof.
  intro W. induction ids as [|id t IH]; intros c R; cbn [cl_flush_pending] in *; [apply Lrefl|].
  pose proof (send_pending_DL e (cl_send_fuel c id) W c id) as H.
  destruct (cl_send_pending (cl_send_fuel c id) c id) as [c1 r]. cbn [fst snd] in *.
  destruct r; cbn [snd] in R; try discriminate. eapply Ltrans0; [apply H; reflexivity | apply IH; exact R].
Qed.

Lemma wl_win_DL (c : cconn) order : RNG hstate c -> cl_wl_live (cl_wl_win cfg c order) = true ->
  DL (ev_ok (CEvWLWin order)) [] [] c (cl_wl_win cfg c order).
Proof.
  intros R. unfold cl_wl_win. destruct (cc_winCh c); cbn [negb]; [|intros _; apply Lrefl].
  set (c1 := ccu_winCh c false) in *.
  assert (R1 : RNG hstate c1) by (destruct R as [r1 r2 r3 r4]; constructor; assumption).
  pose proof (flush_pending_post hstate (cl_pending_order c1 order) c1 R1) as FP.
  pose proof (flush_pending_DL (CEvWLWin order) (cl_pending_order c1 order) I c1) as FD.
  destruct (cl_flush_pending c1 (cl_pending_order c1 order)) as [c2 r]. cbn [fst snd] in *. destruct FP as [_ _ _ _ _ f6].
  destruct r; intro H.
  - apply (Lstep _ _ _ MWinCh); [exact I | exact I | exact I | split; reflexivity |]. cbn [CliFlowMoves.apply]. fold c1.
    eapply Ltrans0; [apply FD; reflexivity|]. apply (Lout (CEvWLWin order) _ _ I). apply wl_after_D. exact I.
  - rewrite wl_exit_dead in H. discriminate.
  - unfold cl_wl_live in H. rewrite f6, andb_false_r in H. discriminate.
Qed.

Definition wr_live (r : cl_wrres) : bool := match r with CWRNil => true | CWRErr CENoStreams => true | _ => false end.

Lemma write_request_DL e (c : cconn) tag : e = CEvWLIn ->
  wr_live (snd (cl_write_request enc_field enc_set_max c tag)) = true ->
  DL (ev_ok e) [] [] c (fst (cl_write_request enc_field enc_set_max c tag)).
Proof.
  intro W. assert (WL : is_wlf e) by (rewrite W; exact I). unfold cl_write_request.
  destruct (cl_can_open_stream c) eqn:CO; cbn [negb]; [|intros _; apply Lrefl].
  destruct (cl_ctx_get c tag) as [x|] eqn:GX; [|intros _; apply Lrefl].
  destruct (ct_lckStuck x); [cbn [snd wr_live]; discriminate|].
  destruct (ct_done x); [intros _; apply Lrefl|].
  intro X0. apply (Lstep _ _ _ MEncSync); [exact I | exact I | exact W | split; reflexivity |]. revert X0. cbn [CliFlowMoves.apply].
  set (c1 := if negb (cc_encTableSize c =? cc_encTableSeen c) then _ else c).
  assert (F1 : cl_can_open_stream c1 = true).
  { subst c1. destruct (negb (cc_encTableSize c =? cc_encTableSeen c)); assumption. }
  assert (SYN : cc_encTableSeen c1 = cc_encTableSize c1).
  { subst c1. destruct (cc_encTableSize c =? cc_encTableSeen c) eqn:E; cbn [negb]; [apply N.eqb_eq in E; symmetry; exact E | reflexivity]. }
  clearbody c1.
  destruct (cl_maxStreamID <? cc_nextID c1) eqn:IDS; [cbn [snd wr_live]; discriminate|]. apply N.ltb_ge in IDS.
  destruct (cl_request_block enc_field (cc_enc (ccu_nextID c1 (u32 (cc_nextID c1 + 2)))) (ct_req x)) as [blk e'] eqn:RB.
  unfold cl_ctx_put. cc_cbn. cc_cbn_in RB.
  intro X0. apply (Lstep _ _ _ (MEnc (ct_req x))); [exact SYN | exact I | exact W | split; reflexivity |]. revert X0. cbn [CliFlowMoves.apply]. rewrite RB. cbn [snd].
  intro X0. apply (Lstep _ _ _ (MCtxs (cl_ctxs_put (cc_ctxs c1) (ctu_sid (ctu_conn x true) (cc_nextID c1)))));
    [exact I | exact I | exact I | split; reflexivity |]. revert X0. cbn [CliFlowMoves.apply].
  intro X0. apply (Lstep _ _ _ (MReqAdd tag)); [split; assumption | exact I | exact W | split; reflexivity |]. revert X0. cbn [CliFlowMoves.apply]. cc_cbn.
  pose proof (can_open_goaway _ _ F1) as GA. rewrite GA.
  match goal with |- _ -> DL _ _ _ ?c0 _ => set (c5 := c0) end.
  assert (CO5 : (cc_open c5 <= Z.of_N (cc_maxStreams c5))%Z).
  { subst c5. cc_cbn. unfold cl_can_open_stream in F1. apply andb_prop in F1. destruct F1 as [_ F1].
    apply Z.ltb_lt in F1. flia. }
  assert (RQ5 : exists tag0, In (cc_nextID c5, tag0) (cc_reqQueued c5)).
  { exists tag. subst c5. cc_cbn. apply in_or_app. right. left. reflexivity. }
  assert (VH : forall opb, cl_can_write c1 = true ->
                 (forall pb, opb = Some pb -> pb_id pb = cc_nextID c1 /\ pb_window pb = cc_streamWindow c1) ->
                 valid (MHeaders blk opb) c5).
  { intros opb CWE H. split; [exact CWE|]. split; [exact IDS|]. split; [exact GA|]. split; [exact CO5|]. split; [exact RQ5|]. split; [exact H | exact SYN]. }
  destruct (cq_body (ct_req x)) as [b|reads size] eqn:BD; [destruct b as [|b0 bt]|]; cbn [cl_is_nil negb].
  - match goal with |- context [if cl_can_write ?cc then _ else _] => assert (EQW : cl_can_write cc = cl_can_write c1) by reflexivity; rewrite !EQW; clear EQW end.
    destruct (cl_can_write c1) eqn:CWE.
    + intros _. apply (Lstep _ _ _ (MHeaders blk None)); [apply VH; [reflexivity | discriminate] | exact I | exact W | split; reflexivity |]. apply Lrefl.
    + intro X. exfalso. match type of X with context [cl_delete_pending ?w ?h ?cc ?i] => destruct (cl_delete_pending w h cc i) as [c8 st] end.
      destruct st; cbn [snd wr_live] in X; discriminate X.
  - match goal with |- context [if cl_can_write ?cc then _ else _] => assert (EQW : cl_can_write cc = cl_can_write c1) by reflexivity; rewrite !EQW; clear EQW end.
    destruct (cl_can_write c1) eqn:CWE.
    + set (pb := mkCPB (cc_nextID c1) tag (b0 :: bt) (cc_streamWindow c1) None (-1) 0 false).
      intro X.
      apply (Lstep _ _ _ (MHeaders blk (Some pb))); [apply VH; [reflexivity|] | exact I | exact W | split; reflexivity |].
      { intros pb' E. inversion E. subst pb'. split; reflexivity. }
      revert X.
      match goal with |- _ -> DL _ _ _ ?a (fst (match cl_send_pending ?f ?b ?i with _ => _ end)) =>
        change a with b; pose proof (send_pending_DL e f WL b i) as H; destruct (cl_send_pending f b i) as [c8 r] end.
      cbn [fst snd] in *. destruct r; cbn [fst snd wr_live]; intro X; try discriminate X. apply H. reflexivity.
    + intro X. exfalso. match type of X with context [cl_delete_pending ?w ?h ?cc ?i] => destruct (cl_delete_pending w h cc i) as [c8 st] end.
      destruct st; cbn [snd wr_live] in X; discriminate X.
  - match goal with |- context [if cl_can_write ?cc then _ else _] => assert (EQW : cl_can_write cc = cl_can_write c1) by reflexivity; rewrite !EQW; clear EQW end.
    destruct (cl_can_write c1) eqn:CWE.
    + set (pb := mkCPB (cc_nextID c1) tag [] (cc_streamWindow c1) (Some reads) size 0 (size =? 0)%Z).
      intro X.
      apply (Lstep _ _ _ (MHeaders blk (Some pb))); [apply VH; [reflexivity|] | exact I | exact W | split; reflexivity |].
      { intros pb' E. inversion E. subst pb'. split; reflexivity. }
      revert X.
      match goal with |- _ -> DL _ _ _ ?a (fst (match cl_send_pending ?f ?b ?i with _ => _ end)) =>
        change a with b; pose proof (send_pending_DL e f WL b i) as H; destruct (cl_send_pending f b i) as [c8 r] end.
      cbn [fst snd] in *. destruct r; cbn [fst snd wr_live]; intro X; try discriminate X. apply H. reflexivity.
    + intro X. exfalso. match type of X with context [cl_delete_pending ?w ?h ?cc ?i] => destruct (cl_delete_pending w h cc i) as [c8 st] end.
      destruct st; cbn [snd wr_live] in X; discriminate X.
Qed.

Lemma wl_in_DL (c : cconn) : RNG hstate c -> ES hstate c -> NS hstate c -> cl_wl_live c = true ->
  cl_wl_live (cl_wl_in enc_field enc_set_max cfg c) = true -> DL (ev_ok CEvWLIn) [] [] c (cl_wl_in enc_field enc_set_max cfg c).
Proof.
  intros R E N LV. unfold cl_wl_in. destruct (cc_inQ c) as [|tag q] eqn:Q; [intros _; apply Lrefl|].
  set (cq := ccu_inQ c q).
  assert (Rq : RNG hstate cq) by (destruct R as [r1 r2 r3 r4]; constructor; assumption).
  assert (Eq : ES hstate cq) by (apply (ES_same hstate c); try reflexivity; auto).
  assert (Nq : NSb hstate cq) by (intros WC p HP; apply (N LV WC p HP)).
  pose proof (write_request_DL CEvWLIn cq tag eq_refl) as WD.
  destruct (cl_write_request enc_field enc_set_max cq tag) as [c1 r] eqn:WR. cbn [fst snd] in WD.
  pose proof (write_request_NS hstate enc_field enc_set_max cq tag c1 r Rq Eq Nq WR) as WP.
  assert (POP : forall c', DL (ev_ok CEvWLIn) [] [] cq c' -> DL (ev_ok CEvWLIn) [] [] c c').
  { intros c' X. apply (Lstep _ _ _ MInQPop); [exact I | exact I | reflexivity | split; reflexivity |]. cbn [CliFlowMoves.apply]. rewrite Q. exact X. }
  destruct r as [|er|]; intro H.
  - apply POP. eapply Ltrans0; [apply WD; reflexivity|]. apply (Lout CEvWLIn _ _ I). apply wl_after_D. exact I.
  - destruct er; try (rewrite wl_exit_dead in H; discriminate).
    apply POP. eapply Ltrans0; [apply WD; reflexivity|]. apply Lany. apply resolve_D.
  - exfalso. unfold cl_wl_live in H. cbn [wr_post] in WP. rewrite WP, andb_false_r in H. discriminate.
Qed.

(* every step after which the write loop still runs consists of lossless moves *)
Theorem step_DL (c : cconn) e : RNG hstate c -> ES hstate c -> NS hstate c -> cl_wl_live (step c e) = true ->
  DL (ev_ok e) (g_ledger_in hstate c e) (g_rdata_in hstate dec_field c e) c (step c e).
Proof.
  intros R E N LV'.
  assert (GEN : ~ is_wlf e -> DL (ev_ok e) (g_ledger_in hstate c e) (g_rdata_in hstate dec_field c e) c (step c e)).
  { intro NW. apply (DD_DL hstate enc_field enc_set_max); [apply step_D|].
    intros m EV. destruct m; cbn [nolost]; try exact I. destruct wr; [exact I|]. apply NW. exact EV. }
  destruct e; try (apply GEN; intros []; fail); cbn [cl_step g_ledger_in g_rdata_in] in *.
  - destruct (cl_wl_live c) eqn:LV; [apply wl_in_DL; assumption | apply Lrefl].
  - destruct (cl_wl_live c) eqn:LV; [apply wl_win_DL; assumption | apply Lrefl].
Qed.

End DecompL.

(* ---------- all runs ---------- *)

Section ExactRun.
Variable hstate : Type.
Variable dec_field : hstate -> N -> bytes -> dec_res hstate.
Variable enc_field : hstate -> bytes -> bytes -> bool -> bytes * hstate.
Variable enc_set_max : hstate -> N -> hstate.
Variable cfg : cl_config.
Variable h0 : hstate.
Variable first : bytes.
Notation cconn := (cconn hstate).
Notation step := (cl_step dec_field enc_field enc_set_max cfg).
Notation run := (cl_run dec_field enc_field enc_set_max cfg h0 first).
Notation g_tl_step := (g_tl_step hstate dec_field enc_field enc_set_max cfg).
Notation g_timeline_from := (g_timeline_from hstate dec_field enc_field enc_set_max cfg).
Notation g_ledger := (g_ledger hstate dec_field enc_field enc_set_max cfg h0).

Lemma timeline_app a : forall (c : cconn) b,
  g_timeline_from c (a ++ b) = g_timeline_from c a ++ g_timeline_from (fold_left step a c) b.
Proof.
  induction a as [|e t IH]; intros c b; cbn [app CliFlowSafe.g_timeline_from fold_left]; [reflexivity|].
  rewrite IH, app_assoc. reflexivity.
Qed.

Lemma ledger_snoc evs e : g_ledger first (evs ++ [e]) = g_ledger first evs ++ g_tl_step (run evs) e.
Proof.
  unfold CliFlowSafe.g_ledger. rewrite timeline_app. cbn [CliFlowSafe.g_timeline_from]. rewrite app_nil_r, app_assoc. reflexivity.
Qed.

Lemma run_Sim evs : cl_settings_deserialize false first <> None -> GOK ledger0 (g_ledger first evs) ->
  Sim hstate (run evs) (lrun ledger0 (g_ledger first evs)).
Proof.
  intros NN G. unfold CliFlowSafe.g_ledger in *. apply GOK_app in G. destruct G as [_ G]. rewrite lrun_app.
  pose proof (Sim_init hstate enc_set_max h0 first NN) as S0.
  assert (W0 : WEQ hstate (cl_init enc_set_max h0 first) (lrun ledger0 (inits_of first))).
  { intros pb HP. exfalso. revert HP. unfold cl_init. destruct (cl_settings_deserialize false first); cbn; auto. }
  apply (timeline_SW hstate dec_field enc_field enc_set_max cfg evs _ _ S0 W0 G).
Qed.

(* C07: while the write loop runs, the client's connection send window is exactly the server's ledger window *)
Theorem conn_window_exact evs : cl_settings_deserialize false first <> None -> GOK ledger0 (g_ledger first evs) ->
  cl_wl_live (run evs) = true -> cc_connWindow (run evs) = l_conn (lrun ledger0 (g_ledger first evs)).
Proof.
  intros NN. induction evs as [|e evs IH] using rev_ind; intros G LV.
  - unfold CliFlowSafe.g_ledger. cbn [CliFlowSafe.g_timeline_from]. rewrite app_nil_r.
    destruct (lrun_inits _ (inits_of_linit first) ledger0) as (_ & LC & _). rewrite LC.
    unfold cl_run, cl_init. cbn [fold_left]. destruct (cl_settings_deserialize false first); [reflexivity | congruence].
  - rewrite ledger_snoc in *. unfold cl_run in *. rewrite fold_left_app in *. cbn [fold_left] in *. fold (run evs) in *.
    set (c := run evs) in *. apply GOK_app in G. destruct G as [G1 G2].
    pose proof (ES_run hstate dec_field enc_field enc_set_max cfg h0 first evs) as E. fold c in E.
    destruct (NS_RNG_run hstate dec_field enc_field enc_set_max cfg h0 first evs) as [R NSc]. fold c in R, NSc.
    destruct (step_DL hstate dec_field enc_field enc_set_max cfg c e R E NSc LV) as (ms & ML & F & GR & _).
    pose proof (mvsL_mvs hstate enc_field enc_set_max _ _ _ ML) as M.
    assert (LVc : cl_wl_live c = true) by (apply (mvs_live hstate enc_field enc_set_max _ _ _ M); exact LV).
    assert (EQ : g_tl_step c e = mlof hstate enc_field enc_set_max c ms).
    { unfold CliFlowSafe.g_tl_step. rewrite (mlof_split hstate enc_field enc_set_max e ms F c), GR, (mvs_new _ _ _ _ _ _ M). reflexivity. }
    rewrite EQ in *. rewrite lrun_app.
    apply (mvsL_CW hstate enc_field enc_set_max c ms _ ML); [eapply Forall_impl; [|exact F]; apply ev_ok_pos | apply run_Sim; assumption | exact G2 | apply IH; assumption].
Qed.

(* and so is the window of every pending body *)
Theorem windows_exact evs : cl_settings_deserialize false first <> None -> GOK ledger0 (g_ledger first evs) ->
  cl_wl_live (run evs) = true ->
  cc_connWindow (run evs) = l_conn (lrun ledger0 (g_ledger first evs)) /\
  forall pb, In pb (cc_pending (run evs)) -> l_strm (lrun ledger0 (g_ledger first evs)) (pb_id pb) = Some (pb_window pb).
Proof.
  intros NN G LV. pose proof (conn_window_exact evs NN G LV) as CW. split; [exact CW|]. intros pb HP.
  destruct (windows_vs_ledger hstate dec_field enc_field enc_set_max cfg h0 first evs NN G) as [_ WV].
  destruct (WV pb HP) as (w & W1 & W2 & W3). rewrite W1. f_equal. rewrite CW in W3. clear - W2 W3. lia.
Qed.

End ExactRun.
