(* Proofs/SrvRfcSend.v - C08: what sending response data does: DATA frames on the stream,
   ending in END_STREAM or in RST_STREAM(INTERNAL_ERROR) exactly when the response is over. *)
From H2V Require Import Base.Bytes Base.MachineInt Base.Result Gen.GenConsts Impl.ServerConn.
From H2V Require Import Proofs.SrvBase Proofs.SrvRfcDefs Proofs.SrvRfcModel Proofs.SrvRfcEff.
From Coq Require Import ZArith Lia ZifyN ZifyNat ZifyBool.
Local Open Scope N_scope.

(* a response in progress that has run out of reader has its end marked *)
Definition Psnd (n : sendst) : Prop := sn_bodyStream n = None -> sn_pendingEnd n = true /\ sn_pending n <> [].

Lemma refill_pending_spec n n1 : refill_pending n = Some n1 ->
  (sn_bodyStream n = None -> n1 = n) /\
  (sn_bodyStream n <> None -> sn_bodyStream n1 <> None /\ (sn_pending n = [] -> sn_pending n1 = [] -> sn_pendingEnd n1 = true)).
Proof.
  unfold refill_pending. destruct (sn_bodyStream n) as [reads|] eqn:B.
  - intro H. split; [discriminate|]. intros _.
    destruct reads as [|[ch er] t].
    + inversion H; subst. cbn. split; [discriminate | auto].
    + destruct er.
      * destruct ch as [|c0 ch']; [discriminate|]. inversion H; subst. cbn. split; [discriminate|]. intros _ X; discriminate.
      * inversion H; subst. cbn. split; [discriminate | auto].
      * discriminate.
  - intro H. inversion H; subst. split; [reflexivity | congruence].
Qed.

(* what sendData queues: DATA frames and possibly one RST_STREAM *)
Definition data_or_rst (o : outev) : Prop := match o with OData _ _ _ | ORst _ _ => True | _ => False end.

Lemma data_or_rst_facts d : Forall data_or_rst d ->
  (forall sid rq, ~ In (ODispatch sid rq) d) /\ (forall o, In o d -> is_goaway o = None) /\ existsb is_exit d = false.
Proof.
  intro F. split; [|split].
  - intros sid rq H. rewrite Forall_forall in F. exact (F _ H).
  - intros o H. rewrite Forall_forall in F. specialize (F _ H). destruct o; try contradiction; reflexivity.
  - induction F as [|o t Ho _ IH]; [reflexivity|]. cbn [existsb]. rewrite IH. destruct o; try contradiction; reflexivity.
Qed.

Section Send.
Variable hstate : Type.
Notation sconn := (sconn hstate).
Implicit Types c : sconn.

(* only the output list and the connection send window change *)
Definition sd c c' (d : list outev) : Prop := c' = upd_clientWindow (upd_out c (d ++ sc_out c)) (sc_clientWindow c').

Lemma sd_refl c : sd c c [].
Proof. unfold sd. destruct c; reflexivity. Qed.
Lemma sd_trans a b c d1 d2 : sd a b d1 -> sd b c d2 -> sd a c (d2 ++ d1).
Proof.
  unfold sd. intros H1 H2. rewrite H2 at 1. rewrite H1 at 1 2. sc_cbn. rewrite app_assoc. reflexivity.
Qed.
Lemma sd_note_cw c o w : sd c (upd_clientWindow (note c o) w) [o].
Proof. unfold sd, note. reflexivity. Qed.
Lemma sd_note c o : sd c (note c o) [o].
Proof. unfold sd, note. destruct c; reflexivity. Qed.
Lemma sd_wr c c' d : sd c c' d -> wr hstate c -> wr hstate c'.
Proof. unfold sd, wr. intros -> [A B]. sc_cbn. auto. Qed.
Lemma sd_out c c' d : sd c c' d -> sc_out c' = d ++ sc_out c.
Proof. unfold sd. intros ->. reflexivity. Qed.

Lemma send_data_loop_spec fuel : forall c sid n c1 n1 done wres, wr hstate c -> Psnd n ->
  send_data_loop fuel c sid n = (c1, n1, done, wres) ->
  exists d, sd c c1 d /\ Forall data_or_rst d /\
    match done, wres with
    | false, _ => filter noisy d = [] /\ wres = false /\ (sn_bodyStream n1 = None -> sn_pendingEnd n1 = true)
    | true, false => exists chunk, filter noisy d = [OData sid true chunk]
    | true, true => filter noisy d = [ORst sid c_InternalError]
    end.
Proof.
  induction fuel as [|fuel IH]; intros c sid n c1 n1 done wres W P; cbn [send_data_loop].
  - intro H. inversion H; subst. exists []. split; [apply sd_refl|]. split; [constructor|]. split; [reflexivity|]. split; [reflexivity|]. intro B. apply P, B.
  - (* the common tail: queue one DATA frame *)
    assert (GO : forall n0, Psnd n0 -> sn_pending n0 <> [] ->
      (let avail := zmin (sn_window n0) (sc_clientWindow c) in
       if (avail <=? 0)%Z then (c, n0, false, false)
       else
         let step := zmin (zmin (Z.of_N maxDataFrameSize) avail) (Z.of_N (len (sn_pending n0))) in
         let chunk := takeN (Z.to_N step) (sn_pending n0) in
         let rest := dropN (Z.to_N step) (sn_pending n0) in
         let e := sn_pendingEnd n0 && match rest with [] => true | _ => false end in
         let c1 := emit c (OData sid e chunk) in
         let c2 := upd_clientWindow c1 (sc_clientWindow c1 - step) in
         let n' := mkSnd (sn_window n0 - step) rest (sn_pendingEnd n0) (sn_bodyStream n0) (sn_bodySize n0) (sn_bodyRead n0) in
         if e then (c2, n', true, false) else send_data_loop fuel c2 sid n') = (c1, n1, done, wres) ->
      exists d, sd c c1 d /\ Forall data_or_rst d /\
        match done, wres with
        | false, _ => filter noisy d = [] /\ wres = false /\ (sn_bodyStream n1 = None -> sn_pendingEnd n1 = true)
        | true, false => exists chunk, filter noisy d = [OData sid true chunk]
        | true, true => filter noisy d = [ORst sid c_InternalError]
        end).
    { intros n0 P0 NE. cbv zeta. destruct (_ <=? 0)%Z.
      - intro H. inversion H; subst. exists []. split; [apply sd_refl|]. split; [constructor|]. split; [reflexivity|]. split; [reflexivity|].
        intro B. apply P0, B.
      - rewrite (emit_wr hstate c _ W).
        match goal with |- context [note c (OData sid ?e ?ch)] => set (ee := e); set (chunk := ch) end.
        match goal with |- context [upd_clientWindow (note c _) ?w] => set (ww := w) end.
        pose proof (sd_note_cw c (OData sid ee chunk) ww) as S1.
        destruct ee eqn:EE.
        + intro H. inversion H; subst. exists [OData sid true chunk]. split; [exact S1|]. split; [repeat constructor|]. exists chunk. reflexivity.
        + intro H. apply IH in H.
          * destruct H as (d & S2 & FD & M). exists (d ++ [OData sid false chunk]). split; [eapply sd_trans; eassumption|].
            split; [apply Forall_app; split; [exact FD | repeat constructor]|].
            rewrite filter_app. cbn [filter noisy strip_late]. rewrite app_nil_r. exact M.
          * eapply sd_wr; eassumption.
          * intro B. cbn [sn_bodyStream sn_pendingEnd sn_pending] in *. destruct (P0 B) as [PE _]. split; [exact PE|].
            subst ee. rewrite PE in EE. cbn [andb] in EE. intro X. rewrite X in EE. discriminate. }
    destruct (sn_pending n) as [|p0 pt] eqn:EP.
    + destruct (sn_bodyStream n) as [reads|] eqn:EB.
      * destruct (refill_pending n) as [nr|] eqn:RF.
        -- destruct (refill_pending_spec n nr RF) as [_ R2]. destruct R2 as [R2 R3]; [congruence|].
           destruct (sn_pending nr) as [|q0 qt] eqn:EQ.
           ++ intro H. inversion H; subst. rewrite (R3 EP eq_refl). rewrite (emit_wr hstate c _ W).
              exists [OData sid true []]. split; [apply sd_note|]. split; [repeat constructor|]. exists []. reflexivity.
           ++ rewrite <- EQ. apply GO; [intro B; congruence | congruence].
        -- intro H. inversion H; subst. unfold write_reset. rewrite (emit_wr hstate c _ W).
           exists [ORst sid c_InternalError]. split; [apply sd_note|]. split; [repeat constructor | reflexivity].
      * destruct (P EB) as [_ X]. congruence.
    + rewrite <- EP. apply GO; [exact P | congruence].
Qed.

Definition send_ok (s : stream) : Prop := has_more_to_send s = true -> st_bodyStream s = None -> st_pendingEnd s = true.

(* sendData: c1 = c but for outputs and the send window; s1 = s but for its sending part and
   the reset mark; finished exactly with END_STREAM or RST_STREAM as the last frame *)
Lemma send_data_spec c s c1 s1 fin : wr hstate c -> has_more_to_send s = true -> send_ok s ->
  send_data c s = (c1, s1, fin) ->
  exists d, sd c c1 d /\ Forall data_or_rst d /\
    st_id s1 = st_id s /\ st_state s1 = st_state s /\ st_headersFinished s1 = st_headersFinished s /\
    st_responded s1 = st_responded s /\ st_handlerRunning s1 = st_handlerRunning s /\ st_orig s1 = st_orig s /\
    (if fin then
       (exists chunk, filter noisy d = [OData (st_id s) true chunk] /\ st_weReset s1 = st_weReset s) \/
       (filter noisy d = [ORst (st_id s) c_InternalError] /\ st_weReset s1 = true)
     else filter noisy d = [] /\ st_weReset s1 = st_weReset s /\ send_ok s1).
Proof.
  intros W HM SO. unfold send_data.
  destruct (send_data_loop _ c (st_id s) (get_snd s)) as [[[c1' n1] dn] wres] eqn:L.
  assert (P : Psnd (get_snd s)).
  { intro B. cbn in B. split; [apply SO; assumption|]. cbn. unfold has_more_to_send in HM. rewrite B in HM.
    destruct (st_pending s); [discriminate | congruence]. }
  destruct (send_data_loop_spec _ _ _ _ _ _ _ _ W P L) as (d & S & FD & M).
  intro H. inversion H; subst. exists d. split; [exact S|]. split; [exact FD|].
  destruct fin.
  - destruct wres; cbn; repeat split; auto.
    destruct M as [chunk M]. left. exists chunk. auto.
  - destruct M as (M1 & -> & M3). cbn. repeat split; auto.
    unfold send_ok. cbn. intros _ B. apply M3, B.
Qed.

(* nothing goes out while the windows are closed and read bytes are waiting *)
Lemma send_data_stalled c s : st_pending s <> [] -> (zmin (st_window s) (sc_clientWindow c) <= 0)%Z ->
  snd (send_data c s) = false.
Proof.
  intros NE Wd. unfold send_data. destruct (send_data_fuel (get_snd s)) as [|fuel]; [reflexivity|].
  cbn [send_data_loop]. change (sn_pending (get_snd s)) with (st_pending s). destruct (st_pending s) as [|p0 pt] eqn:EP; [congruence|].
  cbv zeta. change (sn_window (get_snd s)) with (st_window s).
  replace (zmin (st_window s) (sc_clientWindow c) <=? 0)%Z with true by (symmetry; apply Z.leb_le; exact Wd). reflexivity.
Qed.

End Send.
