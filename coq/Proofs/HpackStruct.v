(* C03: structural properties of one field and of the scan of size updates, valid for any input:
   progress, and what happens when more input is appended (the basis of split invariance). *)
From Coq Require Import List NArith ZArith Bool Lia.
From H2V Require Import Base.Bytes Base.MachineInt Base.Result Gen.GenConsts Gen.GenStatic
     Impl.Huffman Impl.Hpack Proofs.HpackDefs Proofs.HpackBytes Proofs.HpackInt Proofs.HpackStr
     Proofs.HpackTable Proofs.HpackNext.
Import ListNotations.
Local Open Scope N_scope.
Local Opaque huffman_root.

Arguments N.land : simpl never.
Arguments N.pow : simpl never.

Lemma bytes_len_ind (P : bytes -> Prop) :
  (forall b, (forall b', (length b' < length b)%nat -> P b') -> P b) -> forall b, P b.
Proof.
  intros H b. remember (length b) as n eqn:Hn. revert b Hn.
  induction n as [n IH] using lt_wf_ind. intros b ->. apply H. intros b' Hlt. eapply IH; [exact Hlt | reflexivity].
Qed.

(* ---- a literal ---- *)

Lemma rl_core_ok hp bi bits b k v rest : rl_core hp bi bits b = Ok (k, v, rest) ->
  exists pre, b = pre ++ rest /\ pre <> [] /\ forall y, rl_core hp bi bits (b ++ y) = Ok (k, v, rest ++ y).
Proof.
  unfold rl_core. destruct bi.
  - destruct (read_int bits b) as [[b1 n]|e|w] eqn:E1; try discriminate.
    destruct (peek hp n) as [hf2|] eqn:Ep; [|discriminate].
    destruct (read_string b1) as [[b2 v']|e|w] eqn:E2; try discriminate.
    intros H. injection H as <- <- <-.
    destruct (read_int_ok _ _ _ _ E1) as [p1 [Hb1 [Hn1 Hy1]]].
    destruct (read_string_ok _ _ _ E2) as [p2 [Hb2 [Hn2 Hy2]]].
    exists (p1 ++ p2). split; [rewrite <- app_assoc, <- Hb2; exact Hb1|].
    split; [destruct p1; [congruence | discriminate]|].
    intros y. rewrite Hy1, Ep, Hy2. reflexivity.
  - destruct b as [|c b1]; [discriminate|].
    destruct (read_string b1) as [[b2 k']|e|w] eqn:E1; try discriminate.
    destruct (read_string b2) as [[b3 v']|e|w] eqn:E2; try discriminate.
    intros H. injection H as <- <- <-.
    destruct (read_string_ok _ _ _ E1) as [p1 [Hb1 [Hn1 Hy1]]].
    destruct (read_string_ok _ _ _ E2) as [p2 [Hb2 [Hn2 Hy2]]].
    exists (c :: p1 ++ p2). split; [cbn [app]; rewrite <- app_assoc, <- Hb2, <- Hb1; reflexivity|].
    split; [discriminate|].
    intros y. cbn [app]. rewrite Hy1, Hy2. reflexivity.
Qed.

Lemma rl_core_err hp bi bits b e : rl_core hp bi bits b = Err e -> e <> E_unexpected_size ->
  forall y, rl_core hp bi bits (b ++ y) = Err e.
Proof.
  unfold rl_core. destruct bi.
  - destruct (read_int bits b) as [[b1 n]|e1|w] eqn:E1; try discriminate.
    + destruct (read_int_ok _ _ _ _ E1) as [p1 [Hb1 [Hn1 Hy1]]].
      destruct (peek hp n) as [hf2|] eqn:Ep.
      * destruct (read_string b1) as [[b2 v']|e2|w] eqn:E2; try discriminate.
        intros H Hne y. injection H as ->. rewrite Hy1, Ep.
        destruct (read_string_err _ _ E2) as [Hl | [_ Hy2]]; [contradiction|]. rewrite Hy2. reflexivity.
      * intros H Hne y. rewrite Hy1, Ep. exact H.
    + intros H Hne y. injection H as ->.
      destruct (read_int_err _ _ _ E1) as [Hl | [_ Hy1]]; [contradiction|]. rewrite Hy1. reflexivity.
  - destruct b as [|c b1]; [discriminate|].
    destruct (read_string b1) as [[b2 k']|e1|w] eqn:E1; try discriminate.
    + destruct (read_string_ok _ _ _ E1) as [p1 [Hb1 [Hn1 Hy1]]].
      destruct (read_string b2) as [[b3 v']|e2|w] eqn:E2; try discriminate.
      intros H Hne y. injection H as ->. cbn [app]. rewrite Hy1.
      destruct (read_string_err _ _ E2) as [Hl | [_ Hy2]]; [contradiction|]. rewrite Hy2. reflexivity.
    + intros H Hne y. injection H as ->. cbn [app].
      destruct (read_string_err _ _ E1) as [Hl | [_ Hy1]]; [contradiction|]. rewrite Hy1. reflexivity.
Qed.

Lemma lit_core_ok hp bi bits b sens store f rest st : lit_core hp bi bits b sens store = Ok (f, rest, st) ->
  exists pre, b = pre ++ rest /\ pre <> [] /\
    forall y, lit_core hp bi bits (b ++ y) sens store = Ok (f, rest ++ y, st).
Proof.
  unfold lit_core. destruct (rl_core hp bi bits b) as [[[k v] rest']|e|w] eqn:E; try discriminate.
  intros H. injection H as <- <- <-.
  destruct (rl_core_ok _ _ _ _ _ _ _ E) as [pre [Hb [Hne Hy]]]. exists pre. split; [exact Hb|].
  split; [exact Hne|]. intros y. rewrite Hy. reflexivity.
Qed.

Lemma lit_core_err hp bi bits b sens store e : lit_core hp bi bits b sens store = Err e ->
  e <> E_unexpected_size -> forall y, lit_core hp bi bits (b ++ y) sens store = Err e.
Proof.
  unfold lit_core. destruct (rl_core hp bi bits b) as [[[k v] rest']|e'|w] eqn:E; try discriminate.
  intros H Hne y. injection H as ->. rewrite (rl_core_err _ _ _ _ _ E Hne). reflexivity.
Qed.

(* ---- one field ---- *)

Theorem one_core_ok hp b f rest st : one_core hp b = Ok (f, rest, st) ->
  exists pre, b = pre ++ rest /\ pre <> [] /\ forall y, one_core hp (b ++ y) = Ok (f, rest ++ y, st).
Proof.
  destruct b as [|c r]; [discriminate|]. unfold one_core. cbn [app].
  change (c :: r ++ ?y) with ((c :: r) ++ y).
  destruct (N.land c 128 =? 128).
  - destruct (read_int 7 (c :: r)) as [[b1 n]|e|w] eqn:E1; try discriminate.
    destruct (peek hp n) as [hf2|] eqn:Ep; [|discriminate].
    intros H. injection H as <- <- <-.
    destruct (read_int_ok _ _ _ _ E1) as [p1 [Hb1 [Hn1 Hy1]]].
    exists p1. split; [exact Hb1|]. split; [exact Hn1|]. intros y.
    change (c :: r ++ y) with ((c :: r) ++ y). rewrite Hy1, Ep. reflexivity.
  - destruct (N.land c 64 =? 64); [|destruct (N.land c 240 =? 16)]; intros H;
      destruct (lit_core_ok _ _ _ _ _ _ _ _ _ H) as [pre [Hb [Hne Hy]]];
      exists pre; (split; [exact Hb|]); (split; [exact Hne|]); intros y;
      change (c :: r ++ y) with ((c :: r) ++ y); apply Hy.
Qed.

Theorem one_core_err hp b e : one_core hp b = Err e -> e <> E_unexpected_size ->
  forall y, one_core hp (b ++ y) = Err e.
Proof.
  destruct b as [|c r]; [discriminate|]. unfold one_core. cbn [app].
  destruct (N.land c 128 =? 128).
  - destruct (read_int 7 (c :: r)) as [[b1 n]|e1|w] eqn:E1; try discriminate.
    + destruct (read_int_ok _ _ _ _ E1) as [p1 [Hb1 [Hn1 Hy1]]].
      destruct (peek hp n) as [hf2|] eqn:Ep; [discriminate|].
      intros H Hne y. change (c :: r ++ y) with ((c :: r) ++ y). rewrite Hy1, Ep. exact H.
    + intros H Hne y. injection H as ->.
      destruct (read_int_err _ _ _ E1) as [Hl | [_ Hy1]]; [contradiction|].
      change (c :: r ++ y) with ((c :: r) ++ y). rewrite Hy1. reflexivity.
  - destruct (N.land c 64 =? 64); [|destruct (N.land c 240 =? 16)]; intros H Hne y;
      change (c :: r ++ y) with ((c :: r) ++ y); apply lit_core_err; assumption.
Qed.

(* ---- the scan with its fuel normalised ---- *)

Definition scanN (lim : N) (allowed : bool) (b : bytes) : list N * scan_end :=
  scan (S (length b)) lim allowed b.

Lemma scan_fuel : forall f1 f2 lim al b, (length b < f1)%nat -> (length b < f2)%nat ->
  scan f1 lim al b = scan f2 lim al b.
Proof.
  induction f1 as [|f1 IH]; intros f2 lim al b H1 H2; [lia|].
  destruct f2 as [|f2]; [lia|].
  destruct b as [|c r]; [reflexivity|]. cbn [scan].
  destruct (is_upd c); [|reflexivity].
  destruct (read_int 5 (c :: r)) as [[b1 n]|e|w] eqn:E; try reflexivity.
  apply read_int_ok_length in E. cbn [length] in *.
  destruct (negb al); [reflexivity|]. destruct (lim <? n); [reflexivity|].
  rewrite (IH f2) by lia. reflexivity.
Qed.

Lemma scanN_nil lim al : scanN lim al [] = ([], SEnd).
Proof. reflexivity. Qed.

Lemma scan_S f lim al c r :
  scan (S f) lim al (c :: r) =
  if is_upd c then
    match read_int 5 (c :: r) with
    | Err e => ([], SErr e)
    | Panic w => ([], SPanic w)
    | Ok (b1, n) =>
        if negb al then ([], SErr E_dynamic_update)
        else if lim <? n then ([], SErr E_dynamic_update_max)
        else let '(ns, e) := scan f lim al b1 in (u32 n :: ns, e)
    end
  else ([], SField (c :: r)).
Proof. reflexivity. Qed.

Lemma scanN_cons lim al c r :
  scanN lim al (c :: r) =
  if is_upd c then
    match read_int 5 (c :: r) with
    | Err e => ([], SErr e)
    | Panic w => ([], SPanic w)
    | Ok (b1, n) =>
        if negb al then ([], SErr E_dynamic_update)
        else if lim <? n then ([], SErr E_dynamic_update_max)
        else let '(ns, e) := scanN lim al b1 in (u32 n :: ns, e)
    end
  else ([], SField (c :: r)).
Proof.
  unfold scanN. rewrite scan_S.
  destruct (is_upd c); [|reflexivity].
  destruct (read_int 5 (c :: r)) as [[b1 n]|e|w] eqn:E; try reflexivity.
  apply read_int_ok_length in E.
  destruct (negb al); [reflexivity|]. destruct (lim <? n); [reflexivity|].
  rewrite (scan_fuel (length (c :: r)) (S (length b1))) by lia. reflexivity.
Qed.

Lemma next_field_scanN hp hf bs fp b :
  next_field hp hf bs fp b = nf_of_scan hp hf b (scanN (h_max_settings hp) (allowed_of bs fp) b).
Proof. apply next_field_scan. Qed.

Lemma scanN_no_panic lim al : forall b w, snd (scanN lim al b) <> SPanic w.
Proof.
  induction b as [b IH] using bytes_len_ind. intros w.
  destruct b as [|c r]; [rewrite scanN_nil; discriminate|]. rewrite scanN_cons.
  destruct (is_upd c); [|discriminate].
  pose proof (read_int_no_panic 5 (c :: r)) as Hnp.
  destruct (read_int 5 (c :: r)) as [[b1 n]|e|w'] eqn:E; try discriminate.
  destruct (negb al); [discriminate|]. destruct (lim <? n); [discriminate|].
  apply read_int_ok_length in E. specialize (IH b1 E w).
  destruct (scanN lim al b1) as [ns e]. exact IH.
Qed.

(* the field found after the updates is a suffix, starting with an octet that is not an update *)
Lemma scanN_field lim al : forall b ns b', scanN lim al b = (ns, SField b') ->
  (exists c r, b' = c :: r /\ is_upd c = false) /\
  exists pre, b = pre ++ b' /\ (ns <> [] -> pre <> []).
Proof.
  induction b as [b IH] using bytes_len_ind. intros ns b'.
  destruct b as [|c r]; [rewrite scanN_nil; discriminate|]. rewrite scanN_cons.
  destruct (is_upd c) eqn:Eu.
  - destruct (read_int 5 (c :: r)) as [[b1 n]|e|w'] eqn:E; try discriminate.
    destruct (negb al); [discriminate|]. destruct (lim <? n); [discriminate|].
    destruct (read_int_ok _ _ _ _ E) as [p1 [Hb1 [Hn1 _]]].
    apply read_int_ok_length in E. specialize (IH b1 E).
    destruct (scanN lim al b1) as [ns1 e1]. intros H. injection H as <- ->.
    destruct (IH ns1 b' eq_refl) as [Hc [pre [Hp _]]]. split; [exact Hc|].
    exists (p1 ++ pre). split; [rewrite <- app_assoc, <- Hp; exact Hb1|].
    intros _. destruct p1; [congruence | discriminate].
  - intros H. injection H as <- <-. split; [exists c, r; auto|]. exists []. split; [reflexivity | congruence].
Qed.

Lemma scanN_end_nonempty lim al : forall b ns, scanN lim al b = (ns, SEnd) -> b <> [] -> ns <> [].
Proof.
  intros b ns. destruct b as [|c r]; [congruence|]. rewrite scanN_cons.
  destruct (is_upd c); [|discriminate].
  destruct (read_int 5 (c :: r)) as [[b1 n]|e|w']; try discriminate.
  destruct (negb al); [discriminate|]. destruct (lim <? n); [discriminate|].
  destruct (scanN lim al b1) as [ns1 e1]. intros H _. injection H as <- _. discriminate.
Qed.

(* appending input: the scan of b is a prefix of the scan of b ++ y *)
Theorem scanN_ext lim al y : forall b,
  match scanN lim al b with
  | (ns, SField b') => scanN lim al (b ++ y) = (ns, SField (b' ++ y))
  | (ns, SEnd) => scanN lim al (b ++ y) = (ns ++ fst (scanN lim al y), snd (scanN lim al y))
  | (ns, SErr e) =>
      if e =? E_unexpected_size then exists ns' e', scanN lim al (b ++ y) = (ns ++ ns', e')
      else scanN lim al (b ++ y) = (ns, SErr e)
  | (ns, SPanic _) => True
  end.
Proof.
  induction b as [b IH] using bytes_len_ind.
  destruct b as [|c r].
  - rewrite scanN_nil. cbn [app]. destruct (scanN lim al y); reflexivity.
  - rewrite scanN_cons. cbn [app]. rewrite scanN_cons. change (c :: r ++ y) with ((c :: r) ++ y).
    destruct (is_upd c) eqn:Eu; [|reflexivity].
    destruct (read_int 5 (c :: r)) as [[b1 n]|e|w'] eqn:E; [| |exact I].
    + destruct (read_int_ok _ _ _ _ E) as [p1 [Hb1 [Hn1 Hy1]]]. rewrite Hy1.
      destruct (negb al); [reflexivity|]. destruct (lim <? n); [reflexivity|].
      apply read_int_ok_length in E. specialize (IH b1 E).
      destruct (scanN lim al b1) as [ns1 e1].
      destruct e1 as [|e1|w1|b1'].
      * rewrite IH. reflexivity.
      * destruct (e1 =? E_unexpected_size).
        -- destruct IH as [ns' [e' IH]]. rewrite IH. exists ns', e'. reflexivity.
        -- rewrite IH. reflexivity.
      * exact I.
      * rewrite IH. reflexivity.
    + destruct (read_int_err _ _ _ E) as [-> | [-> Hy1]].
      * change (E_unexpected_size =? E_unexpected_size) with true. cbv iota.
        match goal with |- exists ns' e', ?X = _ => destruct X as [ns' e']; exists ns', e'; reflexivity end.
      * rewrite Hy1. reflexivity.
Qed.

(* ---- applying the updates ---- *)

Lemma apply_upd_app hp a b : apply_upd hp (a ++ b) = apply_upd (apply_upd hp a) b.
Proof. unfold apply_upd. apply fold_left_app. Qed.

Lemma apply_upd_cons hp n ns : apply_upd hp (n :: ns) = apply_upd (upd hp n) ns.
Proof. reflexivity. Qed.

Lemma upd_fit hp n : fsum (h_dynamic hp) < 2 ^ 32 ->
  upd hp n = with_dynamic (with_max hp n) (fit n (h_dynamic hp)).
Proof. intros H. unfold upd. rewrite shrink_dynamic by exact H. reflexivity. Qed.

Lemma fsum_fit_mono mx dyn : fsum (fit mx dyn) <= fsum dyn.
Proof. destruct (fit_suffix mx dyn) as [pre Hp]. rewrite Hp at 2. rewrite fsum_app. lia. Qed.

Lemma fsum_upd hp n : fsum (h_dynamic hp) < 2 ^ 32 ->
  fsum (h_dynamic (upd hp n)) <= n /\ fsum (h_dynamic (upd hp n)) <= fsum (h_dynamic hp).
Proof.
  intros H. rewrite upd_fit by exact H. cbn [with_dynamic h_dynamic].
  split; [apply fsum_fit_le | apply fsum_fit_mono].
Qed.

Lemma fsum_apply_upd : forall ns hp, fsum (h_dynamic hp) < 2 ^ 32 ->
  fsum (h_dynamic (apply_upd hp ns)) <= fsum (h_dynamic hp) /\
  forall n, In n ns -> fsum (h_dynamic (apply_upd hp ns)) <= n.
Proof.
  induction ns as [|m ns IH]; intros hp H; [split; [cbn; lia | contradiction]|].
  rewrite apply_upd_cons. destruct (fsum_upd hp m H) as [U1 U2].
  destruct (IH (upd hp m) ltac:(lia)) as [I1 I2]. split; [lia|].
  intros n [->|Hin]; [lia | apply I2; exact Hin].
Qed.

Lemma with_max_same hp : with_max hp (h_max hp) = hp.
Proof. destruct hp; reflexivity. Qed.

Lemma last_cons_default {A} (x : A) l d d' : last (x :: l) d = last (x :: l) d'.
Proof.
  revert x. induction l as [|y l IH]; intros x; [reflexivity|].
  change (last (x :: y :: l) ?z) with (last (y :: l) z). apply IH.
Qed.

Lemma with_max_with_max hp a b : with_max (with_max hp a) b = with_max hp b.
Proof. reflexivity. Qed.

(* updates that the table already satisfies only set the maximum *)
Lemma apply_upd_stable : forall ns hp, fsum (h_dynamic hp) < 2 ^ 32 ->
  (forall n, In n ns -> fsum (h_dynamic hp) <= n) ->
  apply_upd hp ns = with_max hp (last ns (h_max hp)).
Proof.
  induction ns as [|m ns IH]; intros hp H Hall; [cbn [apply_upd fold_left last]; symmetry; apply with_max_same|].
  rewrite apply_upd_cons.
  assert (Hu : upd hp m = with_max hp m).
  { rewrite upd_fit by exact H. rewrite fit_all by (apply Hall; left; reflexivity). destruct hp; reflexivity. }
  rewrite Hu, IH.
  - rewrite with_max_with_max. f_equal. destruct ns as [|m' ns]; [reflexivity|].
    change (last (m :: m' :: ns) ?z) with (last (m' :: ns) z). apply last_cons_default.
  - exact H.
  - intros n Hin. apply Hall. right. exact Hin.
Qed.

Lemma apply_upd_max : forall ns hp, h_max (apply_upd hp ns) = last ns (h_max hp).
Proof.
  induction ns as [|m ns IH]; intros hp; [reflexivity|]. rewrite apply_upd_cons, IH.
  destruct ns as [|m' ns]; [reflexivity|].
  change (last (m :: m' :: ns) ?z) with (last (m' :: ns) z). apply last_cons_default.
Qed.

Theorem apply_upd_idem hp ns : fsum (h_dynamic hp) < 2 ^ 32 ->
  apply_upd (apply_upd hp ns) ns = apply_upd hp ns.
Proof.
  intros H. destruct (fsum_apply_upd ns hp H) as [F1 F2].
  rewrite (apply_upd_stable ns (apply_upd hp ns)) by (try lia; exact F2).
  destruct ns as [|m ns]; [apply with_max_same|].
  rewrite (last_cons_default m ns _ (h_max hp)), <- apply_upd_max. apply with_max_same.
Qed.
