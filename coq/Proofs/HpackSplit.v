(* C03 (c): HEADERS + CONTINUATION. Cutting a header block anywhere, into any number of
   fragments, changes nothing: same fields, same final HPACK state, same error. *)
From Coq Require Import List NArith ZArith Bool Lia.
From H2V Require Import Base.Bytes Base.MachineInt Base.Result Gen.GenConsts Gen.GenStatic
     Impl.Huffman Impl.Hpack Spec.Rfc7541Huffman Spec.Rfc7541
     Proofs.HpackDefs Proofs.HpackBytes Proofs.HpackStatic Proofs.HpackInt Proofs.HpackStr
     Proofs.HpackTable Proofs.HpackNext Proofs.HpackStruct Proofs.HpackField Proofs.HpackBlock
     Proofs.HpackTotal.
Import ListNotations.
Local Open Scope N_scope.
Local Opaque huffman_root.

Arguments N.land : simpl never.
Arguments N.pow : simpl never.

(* ---- invariants of one call ---- *)

Lemma scanN_ns_le lim al : forall b ns e, scanN lim al b = (ns, e) -> forall n, In n ns -> n <= lim.
Proof.
  induction b as [b IH] using bytes_len_ind. intros ns e.
  destruct b as [|c r]; [rewrite scanN_nil; intros H; injection H as <- _; contradiction|].
  rewrite scanN_cons. destruct (is_upd c); [|intros H; injection H as <- _; contradiction].
  destruct (read_int 5 (c :: r)) as [[b1 n0]|e0|w] eqn:E; try (intros H; injection H as <- _; contradiction).
  destruct (negb al); [intros H; injection H as <- _; contradiction|].
  destruct (N.ltb_spec lim n0) as [Hlt|Hge]; [intros H; injection H as <- _; contradiction|].
  apply read_int_ok_length in E. specialize (IH b1 E).
  destruct (scanN lim al b1) as [ns1 e1]. intros H. injection H as <- _.
  intros n [<-|Hin]; [|eapply IH; [reflexivity | exact Hin]].
  unfold u32, wrap. pose proof (N.mod_le n0 (2 ^ 32) ltac:(discriminate)). lia.
Qed.

Lemma table_ok_apply_upd : forall ns hp, table_ok hp -> (forall n, In n ns -> n <= h_max_settings hp) ->
  table_ok (apply_upd hp ns).
Proof.
  induction ns as [|m ns IH]; intros hp Hok Hall; [exact Hok|].
  rewrite apply_upd_cons. apply IH.
  - apply table_ok_upd; [exact Hok | apply Hall; left; reflexivity].
  - intros n Hin. rewrite upd_settings. apply Hall. right. exact Hin.
Qed.

Lemma one_core_ok_inv hp c r f rest st :
  bytes_ok (c :: r) = true -> is_upd c = false -> table_ok hp ->
  one_core hp (c :: r) = Ok (f, rest, st) ->
  bytes_ok rest = true /\ (st = true -> field_ok f = true) /\
  fsize f + 2 * len rest <= N.max (h_max_settings hp) 64 + 2 * len (c :: r).
Proof.
  intros Hok Hu Htab Hc. pose proof (one_core_spec hp c r true Hok Hu Htab) as HS. cbv zeta in HS.
  destruct (spec_dec_repr (c :: r)) as [[rp rest']|].
  2:{ destruct HS as [e HS]. rewrite Hc in HS. discriminate. }
  destruct (spec_step (abs hp) true rp) as [[[fld|] t']|]; [| contradiction |].
  2:{ destruct HS as [e HS]. rewrite Hc in HS. discriminate. }
  destruct HS as [f' [st' [Hc' [Q1 [Q2 [Q3 [Q4 [Q5 [Q6 Q7]]]]]]]]]. rewrite Hc in Hc'.
  injection Hc' as <- <- <-. split; [exact Q6|]. split; [|exact Q7].
  intros ->. unfold field_ok. rewrite Q4, Q5, (Q3 eq_refl). reflexivity.
Qed.

Theorem next_field_inv hp hf bs k b : bytes_ok b = true -> table_ok hp -> small hp b ->
  let o := next_field hp hf bs k b in
  table_ok (nf_hp o) /\ h_max_settings (nf_hp o) = h_max_settings hp /\
  (forall rest d, nf_res o = Ok (rest, d) -> bytes_ok rest = true).
Proof.
  intros Hok Htab Hsm. cbv zeta. rewrite next_field_scanN.
  destruct (scanN (h_max_settings hp) (allowed_of bs k) b) as [ns e] eqn:Es.
  pose proof (scanN_ns_le _ _ _ _ _ Es) as Hle.
  pose proof (table_ok_apply_upd ns hp Htab Hle) as Htab'.
  pose proof (apply_upd_settings ns hp) as Hset.
  unfold nf_of_scan. cbn [fst snd]. destruct e as [|e|w|b'].
  - cbn [nf_hp nf_res]. split; [exact Htab'|]. split; [exact Hset|]. intros rest d H. injection H as <- _. reflexivity.
  - cbn [nf_hp nf_res]. split; [exact Htab'|]. split; [exact Hset|]. discriminate.
  - cbn [nf_hp nf_res]. split; [exact Htab'|]. split; [exact Hset|]. discriminate.
  - destruct (scanN_field _ _ _ _ _ Es) as [[c [r [-> Hu]]] [pre [Hb _]]].
    assert (Hok' : bytes_ok (c :: r) = true) by (rewrite Hb in Hok; apply bytes_ok_app in Hok; tauto).
    assert (Hlen : len (c :: r) <= len b) by (rewrite Hb, len_app; lia).
    pose proof (one_field_core (apply_upd hp ns) (hf_after hf b) c r Hu) as C. unfold nf_of_core in C.
    destruct (one_core (apply_upd hp ns) (c :: r)) as [[[f rest] st]|e|w] eqn:Ec.
    + destruct (one_core_ok_inv _ _ _ _ _ _ Hok' Hu Htab' Ec) as [I1 [I2 I3]].
      rewrite C. cbn [nf_hp nf_res].
      split; [|split; [destruct st; [rewrite add_dynamic_settings|]; exact Hset|]].
      * destruct st; [|exact Htab'].
        apply table_ok_add; [exact Htab' | apply I2; reflexivity|].
        pose proof (table_ok_fsum _ Htab') as [F1 F2]. destruct Htab' as [_ [_ [T3 _]]].
        unfold small in Hsm. rewrite Hset in *. lia.
      * intros rest' d H. injection H as <- _. exact I1.
    + destruct C as [C1 C2]. rewrite C1, C2. split; [exact Htab'|]. split; [exact Hset|]. discriminate.
    + destruct C as [C1 C2]. rewrite C1, C2. split; [exact Htab'|]. split; [exact Hset|]. discriminate.
Qed.

(* ---- one call on a longer input ---- *)

Definition nf_equiv (o o' : nf_out) : Prop :=
  nf_res o = nf_res o' /\ nf_hp o = nf_hp o' /\ (forall rest, nf_res o = Ok (rest, true) -> nf_hf o = nf_hf o').

Lemma one_field_equiv hp hf hf' c r : is_upd c = false ->
  nf_equiv (one_field hp hf (c :: r)) (one_field hp hf' (c :: r)).
Proof.
  intros Hu. pose proof (one_field_core hp hf c r Hu) as C. pose proof (one_field_core hp hf' c r Hu) as C'.
  unfold nf_of_core in C, C'. unfold nf_equiv.
  destruct (one_core hp (c :: r)) as [[[f rest] st']|e|w].
  - rewrite C, C'. auto.
  - destruct C as [-> ->], C' as [-> ->]. split; [reflexivity|]. split; [reflexivity|]. discriminate.
  - destruct C as [-> ->], C' as [-> ->]. split; [reflexivity|]. split; [reflexivity|]. discriminate.
Qed.

(* a field was decoded: the same field is decoded from the longer input *)
Lemma next_field_ext_ok hp hf bs k b rest z :
  nf_res (next_field hp hf bs k b) = Ok (rest, true) ->
  next_field hp hf bs k (b ++ z) =
  mkNF (nf_hp (next_field hp hf bs k b)) (nf_hf (next_field hp hf bs k b)) (Ok (rest ++ z, true)).
Proof.
  rewrite !next_field_scanN. pose proof (scanN_ext (h_max_settings hp) (allowed_of bs k) z b) as X.
  destruct (scanN (h_max_settings hp) (allowed_of bs k) b) as [ns e] eqn:Es.
  unfold nf_of_scan at 1 2 3. cbn [fst snd]. destruct e as [|e|w|b']; try discriminate.
  destruct (scanN_field _ _ _ _ _ Es) as [[c [r [-> Hu]]] [pre [Hb _]]].
  intros H. destruct (one_field_ok _ _ _ _ _ _ Hu H) as [_ [f [st [Hc Ho]]]].
  rewrite Ho. cbn [nf_hp nf_hf]. rewrite X. unfold nf_of_scan. cbn [fst snd].
  destruct (one_core_ok _ _ _ _ _ Hc) as [_ [_ [_ Hy]]]. specialize (Hy z).
  change ((c :: r) ++ z) with (c :: (r ++ z)) in *.
  pose proof (one_field_core (apply_upd hp ns) (hf_after hf (b ++ z)) c (r ++ z) Hu) as C.
  unfold nf_of_core in C. rewrite Hy in C. rewrite ?Ho. cbn [nf_hp nf_hf]. exact C.
Qed.

(* an error other than "the input ends too early" stays *)
Lemma next_field_ext_err hp hf bs k b e z :
  nf_res (next_field hp hf bs k b) = Err e -> e <> E_unexpected_size ->
  nf_res (next_field hp hf bs k (b ++ z)) = Err e.
Proof.
  rewrite !next_field_scanN. pose proof (scanN_ext (h_max_settings hp) (allowed_of bs k) z b) as X.
  destruct (scanN (h_max_settings hp) (allowed_of bs k) b) as [ns e0] eqn:Es.
  unfold nf_of_scan at 1. cbn [fst snd]. destruct e0 as [|e0|w|b']; try discriminate.
  - cbn [nf_res]. intros H Hne. injection H as ->.
    replace (e =? E_unexpected_size) with false in X by (symmetry; apply N.eqb_neq; exact Hne).
    rewrite X. reflexivity.
  - destruct (scanN_field _ _ _ _ _ Es) as [[c [r [-> Hu]]] [pre [Hb _]]].
    intros H Hne. rewrite X. unfold nf_of_scan. cbn [fst snd].
    pose proof (one_field_core (apply_upd hp ns) (hf_after hf b) c r Hu) as C. unfold nf_of_core in C.
    destruct (one_core (apply_upd hp ns) (c :: r)) as [[[f rest] st]|e1|w] eqn:Ec.
    + rewrite C in H. discriminate.
    + destruct C as [C _]. rewrite C in H. injection H as ->.
      pose proof (one_core_err _ _ _ Ec Hne z) as Hy. change ((c :: r) ++ z) with (c :: (r ++ z)) in *.
      pose proof (one_field_core (apply_upd hp ns) (hf_after hf (b ++ z)) c (r ++ z) Hu) as C'.
      unfold nf_of_core in C'. rewrite Hy in C'. destruct C' as [C' _]. exact C'.
    + destruct C as [C _]. rewrite C in H. discriminate.
Qed.

(* the input held only size updates: they are applied, the call goes on with what follows *)
Lemma next_field_ext_end hp hf bs k b rest z : b <> [] ->
  nf_res (next_field hp hf bs k b) = Ok (rest, false) ->
  next_field hp hf bs k (b ++ z) = next_field (nf_hp (next_field hp hf bs k b)) (set_sens hf false) bs k z.
Proof.
  intros Hne H. pose proof (scanN_ext (h_max_settings hp) (allowed_of bs k) z b) as X.
  rewrite next_field_scanN in H.
  destruct (scanN (h_max_settings hp) (allowed_of bs k) b) as [ns e] eqn:Es.
  assert (He : e = SEnd).
  { unfold nf_of_scan in H. cbn [fst snd] in H. destruct e as [|e|w|b']; try discriminate; [reflexivity|].
    destruct (scanN_field _ _ _ _ _ Es) as [[c [r [-> Hu]]] _].
    destruct (one_field_ok _ _ _ _ _ _ Hu H) as [Hd _]. discriminate. }
  subst e.
  assert (Hhp : nf_hp (next_field hp hf bs k b) = apply_upd hp ns) by (rewrite next_field_scanN, Es; reflexivity).
  rewrite Hhp. rewrite !next_field_scanN. rewrite X, apply_upd_settings.
  destruct (scanN (h_max_settings hp) (allowed_of bs k) z) as [ns' e'].
  unfold nf_of_scan. cbn [fst snd]. rewrite apply_upd_app.
  destruct b as [|c r]; [congruence|]. cbn [app hf_after].
  destruct e'; destruct z; reflexivity.
Qed.

(* the input ended too early: the size updates read so far have been applied; reading them
   again, from the state they produced, leads to the same state *)
Lemma next_field_ext_us hp hf hf' bs k b z : fsum (h_dynamic hp) < 2 ^ 32 ->
  nf_res (next_field hp hf bs k b) = Err E_unexpected_size ->
  nf_equiv (next_field hp hf bs k (b ++ z)) (next_field (nf_hp (next_field hp hf bs k b)) hf' bs k (b ++ z)).
Proof.
  intros Hsum H. pose proof (scanN_ext (h_max_settings hp) (allowed_of bs k) z b) as X.
  assert (Hhp : exists ns ns' e', nf_hp (next_field hp hf bs k b) = apply_upd hp ns /\
            scanN (h_max_settings hp) (allowed_of bs k) (b ++ z) = (ns ++ ns', e')).
  { rewrite next_field_scanN in H |- *.
    destruct (scanN (h_max_settings hp) (allowed_of bs k) b) as [ns e] eqn:Es.
    unfold nf_of_scan in H |- *. cbn [fst snd] in H |- *. destruct e as [|e|w|b']; try discriminate.
    - cbn [nf_res nf_hp] in H |- *. injection H as ->.
      change (E_unexpected_size =? E_unexpected_size) with true in X. cbv iota in X.
      destruct X as [ns' [e' X]]. exists ns, ns', e'. split; [reflexivity | exact X].
    - destruct (scanN_field _ _ _ _ _ Es) as [[c [r [-> Hu]]] _].
      pose proof (one_field_core (apply_upd hp ns) (hf_after hf b) c r Hu) as C. unfold nf_of_core in C.
      exists ns, [], (SField ((c :: r) ++ z)). rewrite app_nil_r. split; [|exact X].
      destruct (one_core (apply_upd hp ns) (c :: r)) as [[[f rest] st]|e1|w].
      + rewrite C in H. discriminate.
      + tauto.
      + tauto. }
  destruct Hhp as [ns [ns' [e' [Hhp Hs']]]]. rewrite Hhp.
  rewrite !next_field_scanN. rewrite apply_upd_settings, Hs'.
  unfold nf_of_scan. cbn [fst snd].
  assert (Hst : apply_upd (apply_upd hp ns) (ns ++ ns') = apply_upd hp (ns ++ ns'))
    by (rewrite !apply_upd_app, apply_upd_idem by exact Hsum; reflexivity).
  rewrite Hst. destruct e' as [|e'|w'|b''].
  - split; [reflexivity|]. split; [reflexivity|]. discriminate.
  - split; [reflexivity|]. split; [reflexivity|]. discriminate.
  - split; [reflexivity|]. split; [reflexivity|]. discriminate.
  - destruct (scanN_field _ _ _ _ _ Hs') as [[c [r [-> Hu]]] _]. apply one_field_equiv. exact Hu.
Qed.

(* ---- the loop with END_HEADERS ---- *)

Definition body_true (k : N) (o : nf_out) : result (list field * hpack_state * strm_state) :=
  match nf_res o with
  | Panic w => Panic w
  | Ok (_, false) => Ok ([], nf_hp o, mkS [] k)
  | Err e => Err E_compression
  | Ok (rest, true) =>
      match frameN (nf_hp o) (nf_hf o) true (k + 1) rest with
      | Ok (fs, hp', st) => Ok (nf_hf o :: fs, hp', st)
      | Err e => Err e
      | Panic w => Panic w
      end
  end.

Lemma frameN_true_cons hp hf k c r : frameN hp hf true k (c :: r) = body_true k (next_field hp hf true k (c :: r)).
Proof.
  rewrite frameN_cons. cbv zeta. unfold body_true.
  destruct (nf_res (next_field hp hf true k (c :: r))) as [[rest [|]]|e|w]; try reflexivity.
  cbn [negb]. rewrite andb_false_r. reflexivity.
Qed.

Lemma body_true_equiv k o o' : nf_equiv o o' -> body_true k o = body_true k o'.
Proof.
  intros [E1 [E2 E3]]. unfold body_true. rewrite <- E1, <- E2.
  destruct (nf_res o) as [[rest [|]]|e|w]; try reflexivity.
  rewrite <- (E3 rest eq_refl). reflexivity.
Qed.

Lemma next_field_hf_equiv hp hf hf' bs k b : nf_equiv (next_field hp hf bs k b) (next_field hp hf' bs k b).
Proof. apply next_field_ignores_hf. Qed.

(* whatever the HeaderField holds, and also for the empty input *)
Lemma body_true_frameN hp hf hf' k z : body_true k (next_field hp hf true k z) = frameN hp hf' true k z.
Proof.
  destruct z as [|c r].
  - unfold next_field. rewrite nfl_nil. reflexivity.
  - rewrite frameN_true_cons. apply body_true_equiv. apply next_field_hf_equiv.
Qed.

Lemma frameN_true_hf hp hf hf' k b : frameN hp hf true k b = frameN hp hf' true k b.
Proof.
  destruct b as [|c r]; [reflexivity|]. rewrite !frameN_true_cons. apply body_true_equiv, next_field_hf_equiv.
Qed.

Definition prepend (fs1 : list field) (r : result (list field * hpack_state * strm_state))
  : result (list field * hpack_state * strm_state) :=
  match r with
  | Ok (fs, hp', st) => Ok (fs1 ++ fs, hp', st)
  | Err e => Err e
  | Panic w => Panic w
  end.

Lemma small_shorter hp hp' b b' : h_max_settings hp' = h_max_settings hp -> len b' <= len b ->
  small hp b -> small hp' b'.
Proof. unfold small. intros -> H. lia. Qed.

(* a frame without END_HEADERS, then the rest of the block: same as the whole block at once *)
Theorem frame_split (z : bytes) : forall (b : bytes) hp hf k,
  bytes_ok (b ++ z) = true -> table_ok hp -> small hp (b ++ z) ->
  match frameN hp hf false k b with
  | Ok (fs1, hp1, st1) =>
      frameN hp hf true k (b ++ z) =
        prepend fs1 (frameN hp1 empty_field true (s_block_fields st1) (s_prev st1 ++ z)) /\
      table_ok hp1 /\ h_max_settings hp1 = h_max_settings hp /\ (exists pre, b = pre ++ s_prev st1)
  | Err e => frameN hp hf true k (b ++ z) = Err E_compression /\ e = E_compression
  | Panic _ => True
  end.
Proof.
  induction b as [b IH] using bytes_len_ind. intros hp hf k Hok Htab Hsm.
  destruct b as [|c r].
  - rewrite frameN_nil. cbn [app s_block_fields s_prev].
    split; [|split; [exact Htab|split; [reflexivity | exists []; reflexivity]]].
    rewrite (frameN_true_hf hp hf empty_field). destruct (frameN hp empty_field true k z) as [[[fs hp'] st]|e|w]; reflexivity.
  - assert (Hokb : bytes_ok (c :: r) = true) by (apply bytes_ok_app in Hok; tauto).
    assert (Hokz : bytes_ok z = true) by (apply bytes_ok_app in Hok; tauto).
    assert (Hsmb : small hp (c :: r)) by (eapply small_shorter; [reflexivity | | exact Hsm]; rewrite len_app; lia).
    pose proof (next_field_inv hp hf true k (c :: r) Hokb Htab Hsmb) as Inv. cbv zeta in Inv.
    destruct Inv as [Itab [Iset Irest]].
    rewrite frameN_cons. cbv zeta. change ((c :: r) ++ z) with (c :: (r ++ z)). rewrite frameN_true_cons.
    change (c :: (r ++ z)) with ((c :: r) ++ z).
    set (o := next_field hp hf true k (c :: r)) in *.
    destruct (nf_res o) as [[rest [|]]|e|w] eqn:Eo.
    + (* a field *)
      unfold o in Eo. rewrite (next_field_ext_ok _ _ _ _ _ _ z Eo). fold o.
      unfold body_true. cbn [nf_res nf_hp nf_hf].
      destruct (next_field_ok _ _ _ _ _ _ _ Eo) as [pre [Hpre [Hpne _]]].
      assert (Hlen : (length rest < length (c :: r))%nat).
      { rewrite Hpre, app_length. specialize (Hpne ltac:(discriminate)). destruct pre; [congruence | cbn [length]; lia]. }
      assert (Hlr : len (rest ++ z) <= len ((c :: r) ++ z)) by (rewrite !len_app; unfold len; lia).
      specialize (IH rest Hlen (nf_hp o) (nf_hf o) (k + 1)
                     ltac:(apply bytes_ok_app; split; [eapply Irest; reflexivity | exact Hokz])
                     Itab ltac:(eapply small_shorter; [exact Iset | exact Hlr | exact Hsm])).
      destruct (frameN (nf_hp o) (nf_hf o) false (k + 1) rest) as [[[fs1 hp1] st1]|e|w].
      * destruct IH as [I1 [I2 [I3 [pre' I4]]]]. rewrite I1.
        split; [|split; [exact I2|split; [rewrite I3; exact Iset|]]].
        -- destruct (frameN hp1 empty_field true (s_block_fields st1) (s_prev st1 ++ z)) as [[[fs hp'] st]|e|w]; reflexivity.
        -- exists (pre ++ pre'). rewrite <- app_assoc, <- I4. exact Hpre.
      * destruct IH as [I1 I2]. rewrite I1. split; [reflexivity | exact I2].
      * exact I.
    + (* the fragment ended after size updates *)
      unfold o in Eo. rewrite (next_field_ext_end hp hf true k (c :: r) rest z ltac:(discriminate) Eo). fold o.
      cbn [s_block_fields s_prev app].
      rewrite (body_true_frameN (nf_hp o) (set_sens hf false) empty_field k z).
      split; [|split; [exact Itab|split; [exact Iset | exists (c :: r); rewrite app_nil_r; reflexivity]]].
      destruct (frameN (nf_hp o) empty_field true k z) as [[[fs hp'] st]|e|w]; reflexivity.
    + replace (0 <? len (c :: r)) with true by (symmetry; apply N.ltb_lt; rewrite len_cons; lia).
      cbn [negb]. rewrite !andb_true_r.
      destruct (N.eqb_spec e E_unexpected_size) as [->|Hne].
      * (* the fragment ended inside a representation *)
        cbn [s_block_fields s_prev].
        change ((c :: r) ++ z) with (c :: (r ++ z)). rewrite frameN_true_cons.
        change (c :: (r ++ z)) with ((c :: r) ++ z).
        pose proof (table_ok_fsum hp Htab) as [F1 F2].
        unfold o in Eo.
        rewrite (body_true_equiv k _ _ (next_field_ext_us hp hf empty_field true k (c :: r) z ltac:(lia) Eo)). fold o.
        split; [|split; [exact Itab|split; [exact Iset | exists []; reflexivity]]].
        destruct (body_true k (next_field (nf_hp o) empty_field true k ((c :: r) ++ z))) as [[[fs hp'] st]|e|w]; reflexivity.
      * unfold o in Eo. unfold body_true. rewrite (next_field_ext_err _ _ _ _ _ _ z Eo Hne). split; reflexivity.
    + exact I.
Qed.

(* ---- frames ---- *)

(* the whole block at once, from a stream that has decoded k fields *)
Definition cat_run (hp : hpack_state) (k : N) (b : bytes) : result (list field * hpack_state) :=
  match frameN hp empty_field true k b with
  | Ok (fs, hp', _) => Ok (fs, hp')
  | Err e => Err e
  | Panic w => Panic w
  end.

Lemma frameN_true_prev : forall b hp hf k fs hp' st', frameN hp hf true k b = Ok (fs, hp', st') -> s_prev st' = [].
Proof.
  induction b as [b IH] using bytes_len_ind. intros hp hf k fs hp' st'.
  destruct b as [|c r]; [rewrite frameN_nil; intros H; injection H as _ _ <-; reflexivity|].
  rewrite frameN_true_cons. unfold body_true.
  destruct (nf_res (next_field hp hf true k (c :: r))) as [[rest [|]]|e|w] eqn:E; try discriminate.
  - apply next_field_progress in E; [|discriminate]. destruct E as [E _].
    destruct (frameN _ _ true (k + 1) rest) as [[[fs1 hp1] st1]|e|w] eqn:E1; try discriminate.
    intros H. injection H as _ _ <-. eapply IH; [exact E | exact E1].
  - intros H. injection H as _ _ <-. reflexivity.
Qed.

Lemma frameN_true_err : forall b hp hf k e, frameN hp hf true k b = Err e -> e = E_compression.
Proof.
  induction b as [b IH] using bytes_len_ind. intros hp hf k e.
  destruct b as [|c r]; [rewrite frameN_nil; discriminate|].
  rewrite frameN_true_cons. unfold body_true.
  destruct (nf_res (next_field hp hf true k (c :: r))) as [[rest [|]]|e0|w] eqn:E; try discriminate.
  - apply next_field_progress in E; [|discriminate]. destruct E as [E _].
    destruct (frameN _ _ true (k + 1) rest) as [[[fs1 hp1] st1]|e1|w] eqn:E1; try discriminate.
    intros H. injection H as <-. eapply IH; [exact E | exact E1].
  - intros H. injection H as <-. reflexivity.
Qed.

Lemma frames_final hp p k x :
  frames_from hp (mkS p k) [(x, true, true)] = cat_run hp k (p ++ x).
Proof.
  cbn [frames_from]. rewrite handle_header_frame_frameN. cbn [s_block_fields s_prev]. unfold cat_run.
  destruct (frameN hp empty_field true k (p ++ x)) as [[[fs hp'] st']|e|w] eqn:E; try reflexivity.
  rewrite (frameN_true_prev _ _ _ _ _ _ _ E). cbn [len length N.of_nat N.eqb negb andb frames_from].
  rewrite app_nil_r. reflexivity.
Qed.

Theorem split_gen : forall frags x hp p k,
  bytes_ok (p ++ concat (x :: frags)) = true -> table_ok hp -> small hp (p ++ concat (x :: frags)) ->
  frames_from hp (mkS p k) (frames_of false (x :: frags)) = cat_run hp k (p ++ concat (x :: frags)).
Proof.
  induction frags as [|y frags IH]; intros x hp p k Hok Htab Hsm.
  - cbn [frames_of negb concat]. rewrite app_nil_r. apply frames_final.
  - change (frames_of false (x :: y :: frags)) with ((x, false, negb false) :: frames_of false (y :: frags)).
    cbn [negb frames_from]. rewrite handle_header_frame_frameN. cbn [s_block_fields s_prev andb].
    change (concat (x :: y :: frags)) with (x ++ concat (y :: frags)) in *.
    rewrite app_assoc in Hok, Hsm |- *.
    set (z := concat (y :: frags)) in *.
    pose proof (frame_split z (p ++ x) hp empty_field k Hok Htab Hsm) as FS.
    pose proof (frameN_no_panic (p ++ x) hp empty_field false k) as NP.
    unfold cat_run at 1.
    destruct (frameN hp empty_field false k (p ++ x)) as [[[fs1 hp1] [p1 k1]]|e|w]; [| |discriminate].
    + cbn [s_block_fields s_prev] in FS. destruct FS as [F1 [F2 [F3 [pre F4]]]]. rewrite F1.
      assert (Hok1 : bytes_ok (p1 ++ z) = true).
      { apply bytes_ok_app in Hok. destruct Hok as [Hpx Hz]. rewrite F4 in Hpx. apply bytes_ok_app in Hpx.
        apply bytes_ok_app. tauto. }
      assert (Hsm1 : small hp1 (p1 ++ z)).
      { eapply small_shorter; [exact F3 | | exact Hsm]. rewrite F4, !len_app. lia. }
      rewrite (IH y hp1 p1 k1 Hok1 F2 Hsm1). unfold cat_run. fold z.
      destruct (frameN hp1 empty_field true k1 (p1 ++ z)) as [[[fs hp'] st]|e|w]; reflexivity.
    + destruct FS as [F1 F2]. rewrite F1, F2. reflexivity.
Qed.

Lemma block_decode_cat_run hp b : block_decode hp b = cat_run hp 0 b.
Proof.
  rewrite block_decode_frameN. unfold cat_run.
  destruct (frameN hp empty_field true 0 b) as [[[fs hp'] st']|e|w] eqn:E; try reflexivity.
  rewrite (frameN_true_prev _ _ _ _ _ _ _ E), app_nil_r. reflexivity.
Qed.

(* the first frame is a HEADERS frame: on a new stream that makes no difference *)
Lemma frames_first hp x eh l :
  frames_from hp (mkS [] 0) ((x, eh, false) :: l) = frames_from hp (mkS [] 0) ((x, eh, true) :: l).
Proof. reflexivity. Qed.

Theorem split_invariance : forall st frags, frags <> [] -> forallb bytes_ok frags = true -> table_ok st ->
  block_small st (concat frags) ->
  block_decode_frames st (frames_of true frags) = block_decode st (concat frags).
Proof.
  intros st frags Hne Hok Htab Hsm. destruct frags as [|x frags]; [congruence|].
  assert (Hokc : bytes_ok (concat (x :: frags)) = true).
  { clear -Hok. induction (x :: frags) as [|a l IH]; [reflexivity|].
    cbn [forallb] in Hok. apply andb_prop in Hok. cbn [concat]. apply bytes_ok_app. split; [tauto | apply IH; tauto]. }
  rewrite block_decode_cat_run. unfold block_decode_frames.
  pose proof (split_gen frags x st [] 0 Hokc Htab Hsm) as SG. cbn [app] in SG. refine (eq_trans _ SG).
  destruct frags as [|y frags]; cbn [frames_of negb]; apply frames_first.
Qed.
