(* Definitions shared by the statements of C03 (HPACK decoder) and C04 (HPACK encoder):
   how the model's state and fields are read as the specification's. Definitions only. *)
From H2V Require Import Base.Bytes Base.MachineInt Base.Result Gen.GenConsts Gen.GenStatic
     Impl.Huffman Impl.Hpack Spec.Rfc7541Huffman Spec.Rfc7541.
Local Open Scope N_scope.

(* ---- relating the model's state to the specification's ---- *)

Definition entry_of (f : field) : entry := (f_key f, f_value f).

(* the model keeps hp.dynamic oldest first; the specification's table is newest first *)
Definition abs (st : hpack_state) : dtable :=
  mkDT (rev (map (fun f => (f_key f, f_value f)) (h_dynamic st))) (h_max st) (h_max_settings st).

Definition triple_of (f : field) : hfield := (f_key f, f_value f, f_sens f).

(* accept/reject, the ordered (name, value, sensitive) triples, the resulting table *)
Definition proj (r : result (list field * hpack_state)) : option (list hfield * dtable) :=
  match r with
  | Ok (fs, st) => Some (map triple_of fs, abs st)
  | _ => None
  end.

Definition proj_history (r : result (list (list field) * hpack_state)) : option (list (list hfield) * dtable) :=
  match r with
  | Ok (fss, st) => Some (map (map triple_of) fss, abs st)
  | _ => None
  end.

Definition field_ok (f : field) : bool := bytes_ok (f_key f) && bytes_ok (f_value f) && negb (f_sens f).

(* reachable decoder states: stored entries are byte strings and never carry the sensitive flag,
   the table fits its maximum, which is within the SETTINGS limit, which is a uint32 *)
Definition table_ok (st : hpack_state) : Prop :=
  forallb field_ok (h_dynamic st) = true /\
  table_size (dt_entries (abs st)) <= h_max st /\
  h_max st <= h_max_settings st /\
  h_max_settings st < 2 ^ 32.

(* Sizes are uint32 in the code. A block shorter than 2^32 can still Huffman-expand one string to
   more than 2^32 octets (5-bit codes: factor 8/5), and the size of a new entry (whose name may
   come from a table entry) is added to the table size before the comparison with the maximum.
   [block_small] keeps every such sum below 2^32: an entry created by the block is at most
   max + 2 * |b| + 32 octets, the table before it at most max. Blocks of real connections (frame
   payloads of at most 2^24-1 octets, a 4 kB or 64 kB table) are far inside. *)
Definition block_small (st : hpack_state) (b : bytes) : Prop :=
  2 * len b + 2 * h_max_settings st + 64 < 2 ^ 32.

(* the fragments of one block: the first travels in a HEADERS frame, the others in CONTINUATION
   frames, the last one carries END_HEADERS *)
Fixpoint frames_of (first : bool) (frags : list bytes) : list hdr_frame :=
  match frags with
  | [] => []
  | [x] => [(x, true, negb first)]
  | x :: rest => (x, false, negb first) :: frames_of false rest
  end.

(* what a conforming encoder may put in a representation *)
Definition nameref_ok (nr : nameref) : bool :=
  match nr with NameIdx i => (0 <? i) && (i <? 2 ^ 32) | NameLit n => bytes_ok n end.

Definition repr_ok (r : repr) : bool :=
  match r with
  | Indexed i => i <? 2 ^ 32
  | Literal _ nr _ _ v => nameref_ok nr && bytes_ok v
  | SizeUpdate n => n <? 2 ^ 32
  end.
