(* Proofs/SrvIsoHdr.v - C09 (a): what the stream loop does with ONE header-block fragment (HEADERS or
   CONTINUATION on a stream id <> 0), whatever becomes of the stream: the decoder state afterwards and the
   carry are those of the reference decoder of Proofs/SrvIsoRef.v.

   Layers: discard_fragment / discard_header_block; handle_header_frame; handle_frame on a header frame;
   then sl_frame (Theorem sl_frame_hdr). *)
From H2V Require Import Base.Bytes Base.MachineInt Base.Result Gen.GenConsts Impl.ServerConn Proofs.SrvBase
  Proofs.SrvIsoRef Proofs.SrvIsoMoves Proofs.SrvIsoSteps.
From Coq Require Import ZArith Lia ZifyN ZifyNat ZifyBool.
Local Open Scope N_scope.

Section Hdr.
Variable hstate : Type.
Variable dec_field : hstate -> N -> bytes -> dec_res hstate.
Variable enc_field : hstate -> bytes -> bytes -> bool -> bytes * hstate.
Variable enc_set_max : hstate -> N -> hstate.
Variable cfg : config.
Notation sconn := (sconn hstate).
Implicit Types c : sconn.

(* an error that ends the connection *)
Definition fatal_err (e : h2err) : Prop :=
  match e with EGoAway code => (code =? c_NoError) = false | EPanic => True | EReset _ => False end.

(* only the decoder and the discard registers differ *)
Definition dd c c1 : Prop := exists d i p m, c1 = upd_discard (upd_dec c d) i p m.
Lemma dd_refl c : dd c c.
Proof. exists (sc_dec c), (sc_discardID c), (sc_discardPrev c), (sc_discardFields c). destruct c; reflexivity. Qed.
Lemma dd_trans a b c : dd a b -> dd b c -> dd a c.
Proof. intros (d & i & p & m & ->) (d' & i' & p' & m' & ->). exists d', i', p', m'. reflexivity. Qed.
Lemma dd_upd_dec c d : dd c (upd_dec c d).
Proof. exists d, (sc_discardID c), (sc_discardPrev c), (sc_discardFields c). destruct c; reflexivity. Qed.
Lemma dd_upd_discard c i p m : dd c (upd_discard c i p m).
Proof. exists (sc_dec c), i, p, m. destruct c; reflexivity. Qed.

(* ---------- discard_fragment ---------- *)
Inductive df_out (c : sconn) (id : N) (frag : bytes) (eh : bool) : sconn -> option h2err -> Prop :=
| df_fatal c1 e : dd c c1 -> fatal_err e -> df_out c id frag eh c1 (Some e)
| df_ok fs d' n' carry' :
    ref_run dec_field eh (sc_dec c) (sc_discardFields c) (sc_discardPrev c ++ frag) fs d' n' carry' ->
    df_out c id frag eh (upd_discard (upd_dec c d') (if eh then 0 else id) carry' n') None.

Lemma discard_loop_err fuel : forall eh d n b d' n' carry e,
  discard_loop dec_field fuel eh d n b = (d', n', carry, Some e) -> fatal_err e.
Proof.
  induction fuel as [|fuel IH]; intros eh d n b d' n' carry e; cbn [discard_loop].
  - intro H; inversion H; subst. reflexivity.
  - destruct b as [|x b]; [discriminate|].
    destruct (dec_field d n (x :: b)) as [k v rest d1|d1|d1|d1|]; try (intro H; inversion H; subst; reflexivity).
    + apply IH.
    + destruct (negb eh); intro H; inversion H; subst; reflexivity.
Qed.

Lemma discard_fragment_spec c id frag eh :
  df_out c id frag eh (fst (discard_fragment dec_field cfg c id frag eh)) (snd (discard_fragment dec_field cfg c id frag eh)).
Proof.
  unfold discard_fragment.
  destruct (discard_loop dec_field (S (length (sc_discardPrev c ++ frag))) eh (sc_dec c) (sc_discardFields c)
              (sc_discardPrev c ++ frag)) as [[[d' n'] carry'] [e|]] eqn:DL; cbn [fst snd].
  - apply df_fatal; [eapply dd_trans; [apply dd_upd_dec | apply dd_upd_discard] | eapply discard_loop_err; exact DL].
  - destruct (discard_loop_ref _ dec_field _ _ _ _ _ _ _ _ DL) as [fs R].
    destruct eh.
    + pose proof (ref_run_eh_carry _ _ _ _ _ _ _ _ _ R) as ->. cbn [fst snd]. apply (df_ok c id frag true fs). exact R.
    + destruct (_ && _)%bool; cbn [fst snd].
      * apply df_fatal; [eapply dd_trans; [apply dd_upd_dec | apply dd_upd_discard] | reflexivity].
      * apply (df_ok c id frag false fs). exact R.
Qed.

Lemma dd_discard_header_block c fr :
  df_out (if fkind_eqb (sf_kind fr) KCont then c else upd_discard c (sc_discardID c) [] 0) (sf_sid fr) (sf_payload fr)
         (flag_has (sf_flags fr) FL_EH)
         (fst (discard_header_block dec_field cfg c fr)) (snd (discard_header_block dec_field cfg c fr)).
Proof. unfold discard_header_block. apply discard_fragment_spec. Qed.

(* ---------- handle_header_frame ---------- *)
Definition eh_of (fr : sframe) : bool := flag_has (sf_flags fr) FL_EH.
Definition is_cont (fr : sframe) : bool := fkind_eqb (sf_kind fr) KCont.

(* the decoding state the loop starts from *)
Definition hh1 (s : stream) (fr : sframe) : hdr :=
  let h0 := get_hdr s in
  mkHdr false [] (hd_pMethod h0) (hd_pScheme h0) (hd_pPath h0) (hd_pAuth h0)
        (hd_regularSeen h0 || hd_headersFinished h0) (hd_contentLength h0) (hd_hasCL h0) (hd_headerListSize h0)
        (if fkind_eqb (sf_kind fr) KCont then hd_blockFields h0 else 0) (hd_path h0) (hd_req h0).

Definition hn0 (s : stream) (fr : sframe) : N := if is_cont fr then st_blockFields s else 0.
Definition hb0 (s : stream) (fr : sframe) : bytes := st_prev s ++ sf_payload fr.

Lemma hh1_bf s fr : hd_blockFields (hh1 s fr) = hn0 s fr.
Proof. reflexivity. Qed.

(* a second block on a stream must be a trailer: HEADERS with END_STREAM *)
Definition trailer_ok (s : stream) (fr : sframe) : Prop :=
  st_headersFinished s && (negb (fkind_eqb (sf_kind fr) KHeaders) || negb (flag_has (sf_flags fr) FL_ES)) = false.

Inductive hhf_out (c : sconn) (s : stream) (fr : sframe) : sconn -> stream -> option h2err -> Prop :=
| hhf_fatal c1 s1 e : dd c c1 -> st_id s1 = st_id s -> fatal_err e -> hhf_out c s fr c1 s1 (Some e)
| hhf_ok fs hF d' n' carry' :
    trailer_ok s fr ->
    ref_run dec_field (eh_of fr) (sc_dec c) (hn0 s fr) (hb0 s fr) fs d' n' carry' ->
    hfold cfg (hh1 s fr) fs = Some hF ->
    hhf_out c s fr (upd_dec c d') (set_hdr s (hd_set_prev hF carry')) None
| hhf_reset fs k v fs2 hF code d' n' carry' :
    trailer_ok s fr ->
    ref_run dec_field (eh_of fr) (sc_dec c) (hn0 s fr) (hb0 s fr) (fs ++ (k, v) :: fs2) d' n' carry' ->
    hfold cfg (hh1 s fr) fs = Some hF ->
    header_field cfg hF k v = inl (EReset code) ->
    hhf_out c s fr (upd_discard (upd_dec c d') (if eh_of fr then 0 else st_id s) carry' n') (set_hdr s hF)
            (Some (EReset code)).

Lemma header_field_err h k v e : header_field cfg h k v = inl e -> fatal_err e \/ exists code, e = EReset code.
Proof.
  unfold header_field.
  repeat match goal with
         | |- context [if ?b then _ else _] => destruct b
         | |- context [match parse_uint ?v with _ => _ end] => destruct (parse_uint v)
         end; intro H; inversion H; subst; try (left; reflexivity); right; eexists; reflexivity.
Qed.

Lemma header_loop_err fuel : forall eh d h b d' h' e rest,
  header_loop dec_field fuel cfg eh d h b = (d', h', Some e, rest) -> fatal_err e \/ exists code, e = EReset code.
Proof.
  induction fuel as [|fuel IH]; intros eh d h b d' h' e rest; cbn [header_loop].
  - intro H; inversion H; subst. left. reflexivity.
  - destruct b as [|x b]; [discriminate|].
    destruct (dec_field d (hd_blockFields h) (x :: b)) as [k v rest1 d1|d1|d1|d1|];
      try (intro H; inversion H; subst; left; reflexivity).
    + destruct (header_field cfg h k v) as [e1|h1] eqn:HF; [|apply IH].
      intro H; inversion H; subst. eapply header_field_err; exact HF.
    + destruct (negb eh); intro H; inversion H; subst. left. reflexivity.
Qed.

Lemma handle_header_frame_spec c s fr :
  hhf_out c s fr (fst (fst (handle_header_frame dec_field cfg c s fr))) (snd (fst (handle_header_frame dec_field cfg c s fr)))
          (snd (handle_header_frame dec_field cfg c s fr)).
Proof.
  unfold handle_header_frame.
  destruct (st_headersFinished s && _)%bool eqn:TO; [cbn [fst snd]; apply hhf_fatal; [apply dd_refl | reflexivity | reflexivity]|].
  destruct (fkind_eqb (sf_kind fr) KHeaders && _)%bool;
    [cbn [fst snd]; apply hhf_fatal; [apply dd_refl | reflexivity | reflexivity]|].
  cbv zeta. fold (hh1 s fr). change (hd_prev (get_hdr s) ++ sf_payload fr) with (hb0 s fr).
  change (flag_has (sf_flags fr) FL_EH) with (eh_of fr).
  destruct (header_loop dec_field (S (length (hb0 s fr))) cfg (eh_of fr) (sc_dec c) (hh1 s fr) (hb0 s fr))
    as [[[d' h2] e0] rest] eqn:HL.
  pose proof (header_loop_ref _ dec_field cfg _ _ _ _ _ _ _ _ _ HL) as SP. unfold header_loop_spec in SP.
  destruct e0 as [e1|].
  - (* an error *)
    destruct (header_loop_err _ _ _ _ _ _ _ _ _ HL) as [FE|[code ->]].
    + assert (G : hhf_out c s fr (upd_dec c d') (set_hdr s h2) (Some e1))
        by (apply hhf_fatal; [apply dd_upd_dec | reflexivity | exact FE]).
      destruct e1 as [code|code|]; cbn [fst snd]; [exact G | destruct FE | exact G].
    + (* a stream error raised by a field: the rest of the block is decoded and dropped *)
      destruct SP as [(fs & k & v & RP & HF & FE)|[_ []]].
      pose proof (discard_fragment_spec
        (upd_discard (upd_dec c d') (sc_discardID (upd_dec c d')) [] (hd_blockFields h2 + 1)) (st_id s) rest (eh_of fr)) as DF.
      destruct (discard_fragment dec_field cfg _ (st_id s) rest (eh_of fr)) as [c3 [de|]]; cbn [fst snd] in *.
      * inversion DF as [c1' e' D F|]; subst. apply hhf_fatal; [|reflexivity | exact F].
        eapply dd_trans; [|exact D]. eapply dd_trans; [apply dd_upd_dec | apply dd_upd_discard].
      * inversion DF as [|fs2 d2 n2 carry2 R2]; subst. sc_cbn_in R2. cbn [app] in R2.
        rewrite hh1_bf in RP.
        pose proof (ref_pre_run _ dec_field _ _ _ _ _ _ _ _ _ _ _ _ RP R2) as R. rewrite <- app_assoc in R. cbn [app] in R.
        exact (hhf_reset c s fr fs k v fs2 h2 code d2 n2 carry2 TO R HF FE).
  - destruct SP as (fs & hF & carry' & R & HF & -> & _).
    destruct (hfold_frame cfg _ _ _ HF) as (PV & _ & _). cbn [hh1 hd_prev] in PV. rewrite PV. cbn [app].
    rewrite hh1_bf in R.
    destruct ((0 <? cf_maxHeaderList cfg)%Z && _)%bool; cbn [fst snd].
    + apply hhf_fatal; [apply dd_upd_dec | reflexivity | reflexivity].
    + replace (hd_blockFields (hd_set_prev hF carry')) with (hd_blockFields hF) in R by reflexivity.
      eapply hhf_ok; [exact TO | | exact HF]. exact R.
Qed.

(* ---------- handle_frame on HEADERS / CONTINUATION ---------- *)
(* the frame is acceptable in the stream's state: the stream is not (half-)closed, or the frame continues its block *)
Definition rank_ok (s : stream) (fr : sframe) : Prop :=
  (3 <=? sstate_rank (st_state s)) && negb (continuing_headers s fr) = false /\
  (st_headersFinished s = true -> sf_kind fr = KHeaders).

Inductive hf_out (c : sconn) (s : stream) (fr : sframe) : sconn -> stream -> option h2err -> Prop :=
| hfo_fatal c1 s1 e : dd c c1 -> st_id s1 = st_id s -> fatal_err e -> hf_out c s fr c1 s1 (Some e)
| hfo_more fs hF d' n' carry' :
    rank_ok s fr ->
    eh_of fr = false ->
    ref_run dec_field false (sc_dec c) (hn0 s fr) (hb0 s fr) fs d' n' carry' ->
    hfold cfg (hh1 s fr) fs = Some hF ->
    hf_out c s fr (upd_dec c d') (set_hdr s (hd_set_prev hF carry')) None
| hfo_done fs hF d' n' :
    rank_ok s fr ->
    eh_of fr = true ->
    ref_run dec_field true (sc_dec c) (hn0 s fr) (hb0 s fr) fs d' n' [] ->
    hfold cfg (hh1 s fr) fs = Some hF ->
    hf_out c s fr (upd_dec c d') (set_headers_finished (set_hdr s (hd_set_prev hF [])) true)
           (validate_request_pseudo_headers (set_headers_finished (set_hdr s (hd_set_prev hF [])) true))
| hfo_reset fs k v fs2 hF code d' n' carry' :
    rank_ok s fr ->
    ref_run dec_field (eh_of fr) (sc_dec c) (hn0 s fr) (hb0 s fr) (fs ++ (k, v) :: fs2) d' n' carry' ->
    hfold cfg (hh1 s fr) fs = Some hF ->
    header_field cfg hF k v = inl (EReset code) ->
    hf_out c s fr (upd_discard (upd_dec c d') (if eh_of fr then 0 else st_id s) carry' n') (set_hdr s hF)
           (Some (EReset code)).

Lemma verify_state_err s fr e : verify_state s fr = Some e -> fatal_err e.
Proof.
  unfold verify_state. destruct (st_state s); try discriminate;
  repeat match goal with |- context [if ?b then _ else _] => destruct b end; intro H; inversion H; reflexivity.
Qed.

Lemma handle_frame_hdr_spec c s fr : is_hdr_kind (sf_kind fr) = true ->
  hf_out c s fr (fst (fst (handle_frame dec_field cfg c s fr))) (snd (fst (handle_frame dec_field cfg c s fr)))
         (snd (handle_frame dec_field cfg c s fr)).
Proof.
  intro HK. unfold handle_frame.
  destruct (verify_state s fr) as [e|] eqn:V.
  { cbn [fst snd]. apply hfo_fatal; [apply dd_refl | reflexivity | eapply verify_state_err; exact V]. }
  assert (G : hf_out c s fr
    (fst (fst (if (3 <=? sstate_rank (st_state s)) && negb (continuing_headers s fr) then (c, s, Some (EGoAway c_ProtocolError))
      else
        let '(c1, s1, e) := handle_header_frame dec_field cfg c s fr in
        match e with
        | Some e => (c1, s1, Some e)
        | None =>
          if flag_has (sf_flags fr) FL_EH then
            let fin := match st_prev s1 with [] => true | _ => false end in
            let s2 := set_headers_finished s1 fin in
            if negb fin then (c1, s2, Some (EGoAway c_ProtocolError))
            else
              match validate_request_pseudo_headers s2 with
              | Some e => (c1, s2, Some e)
              | None => (c1, s2, None)
              end
          else (c1, s1, None)
        end)))
    (snd (fst (if (3 <=? sstate_rank (st_state s)) && negb (continuing_headers s fr) then (c, s, Some (EGoAway c_ProtocolError))
      else
        let '(c1, s1, e) := handle_header_frame dec_field cfg c s fr in
        match e with
        | Some e => (c1, s1, Some e)
        | None =>
          if flag_has (sf_flags fr) FL_EH then
            let fin := match st_prev s1 with [] => true | _ => false end in
            let s2 := set_headers_finished s1 fin in
            if negb fin then (c1, s2, Some (EGoAway c_ProtocolError))
            else
              match validate_request_pseudo_headers s2 with
              | Some e => (c1, s2, Some e)
              | None => (c1, s2, None)
              end
          else (c1, s1, None)
        end)))
    (snd (if (3 <=? sstate_rank (st_state s)) && negb (continuing_headers s fr) then (c, s, Some (EGoAway c_ProtocolError))
      else
        let '(c1, s1, e) := handle_header_frame dec_field cfg c s fr in
        match e with
        | Some e => (c1, s1, Some e)
        | None =>
          if flag_has (sf_flags fr) FL_EH then
            let fin := match st_prev s1 with [] => true | _ => false end in
            let s2 := set_headers_finished s1 fin in
            if negb fin then (c1, s2, Some (EGoAway c_ProtocolError))
            else
              match validate_request_pseudo_headers s2 with
              | Some e => (c1, s2, Some e)
              | None => (c1, s2, None)
              end
          else (c1, s1, None)
        end))).
  { destruct (_ && _)%bool eqn:RK; [cbn [fst snd]; apply hfo_fatal; [apply dd_refl | reflexivity | reflexivity]|].
    pose proof (handle_header_frame_spec c s fr) as HS.
    destruct (handle_header_frame dec_field cfg c s fr) as [[c1 s1] e]. cbn [fst snd] in HS.
    inversion HS as [c1' s1' e' D I F|fs hF d' n' carry' TO R HF|fs k v fs2 hF code d' n' carry' TO R HF FE]; subst;
      try (assert (RO : rank_ok s fr);
           [split; [exact RK|]; intro Hf; unfold trailer_ok in TO; rewrite Hf in TO; cbn [andb] in TO;
            apply orb_false_elim in TO; destruct TO as [TO _]; apply negb_false_iff in TO;
            destruct (sf_kind fr); try discriminate TO; reflexivity|]).
    - cbn [fst snd]. apply hfo_fatal; assumption.
    - fold (eh_of fr). destruct (eh_of fr) eqn:EH.
      + pose proof (ref_run_eh_carry _ _ _ _ _ _ _ _ _ R) as ->.
        cbn [set_hdr st_prev hd_set_prev hd_prev negb]. cbv zeta.
        destruct (validate_request_pseudo_headers _) eqn:VR; cbn [fst snd]; rewrite <- VR;
          apply (hfo_done c s fr fs hF d' n' RO EH R HF).
      + cbn [fst snd]. apply (hfo_more c s fr fs hF d' n' carry' RO EH R HF).
    - cbn [fst snd]. apply (hfo_reset c s fr fs k v fs2 hF code d' n' carry' RO R HF FE). }
  unfold is_hdr_kind in HK. destruct (sf_kind fr); try discriminate HK; exact G.
Qed.

End Hdr.

Arguments dd {hstate}. Arguments df_out {hstate}. Arguments hhf_out {hstate}. Arguments hf_out {hstate}.
