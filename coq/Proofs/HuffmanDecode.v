(* C15: HuffmanDecode accepts exactly the RFC 7541 encodings and inverts them.

   Structure:
   1. [parses V out res]: the greedy bit-level parse of the bit string V (a relation, so no
      fuel), ending with the RFC 7541 5.2 padding check [finish].
   2. parses <-> spec_encode, using prefix-freeness of the code (HuffmanTable).
   3. Simulation: the byte/table driven Go decoder, run on b, computes a parse of
      bytes_bits b.  The per-entry table invariant [entry_ok] was checked by vm_compute. *)
From Coq Require Import List NArith Bool Lia.
From H2V Require Import Base.Bytes Base.MachineInt Base.Result Gen.GenHuffman
  Spec.XNetTables Spec.Rfc7541Huffman Impl.Huffman Proofs.HuffmanBits Proofs.HuffmanTable
  Proofs.HuffmanEncode.
Import ListNotations.
Local Open Scope N_scope.

(* ====================== 1. greedy parse ====================== *)

Definition finish (V : list bool) (out : bytes) : option bytes :=
  if (length V <=? 7)%nat && forallb (fun b : bool => b) V then Some (rev out) else None.

Inductive parses : list bool -> bytes -> option bytes -> Prop :=
| parses_step a rest out res :
    a < 256 -> parses rest (a :: out) res -> parses (code_bits a ++ rest) out res
| parses_done V out :
    (forall a, a < 256 -> ~ is_prefix (code_bits a) V) -> parses V out (finish V out).

Definition same_ok (r : result bytes) (o : option bytes) : Prop :=
  match r, o with
  | Ok s, Some s' => s = s'
  | Err _, None => True
  | _, _ => False
  end.

(* ====================== 2. parses <-> spec ====================== *)

Lemma ones_prefix_30 r : (r <= 30)%nat -> is_prefix (ones r) (ones 30).
Proof.
  intros H. exists (ones (30 - r)). rewrite <- ones_app. f_equal. lia.
Qed.

Lemma parses_complete : forall s r out res,
  bytes_ok s = true -> (r <= 7)%nat ->
  parses (code_string s ++ ones r) out res -> res = Some (rev out ++ s).
Proof.
  induction s as [|b s IH]; intros r out res Hok Hr HP.
  - change (code_string []) with (@nil bool) in HP. cbn [app] in HP.
    inversion HP as [a rest out' res' Ha HP' EV | V out' Hno]; subst.
    + exfalso. apply (code_not_prefix_eos a Ha).
      apply is_prefix_trans with (ones r); [|apply ones_prefix_30; lia].
      exists rest. symmetry. exact EV.
    + unfold finish. rewrite ones_length, forallb_ones.
      replace (r <=? 7)%nat with true by (symmetry; apply Nat.leb_le; lia).
      simpl. now rewrite app_nil_r.
  - cbn [bytes_ok forallb] in Hok. apply andb_prop in Hok. destruct Hok as [Hb Hs].
    apply N.ltb_lt in Hb. fold (bytes_ok s) in Hs.
    rewrite code_string_cons, <- app_assoc in HP.
    inversion HP as [a rest out' res' Ha HP' EV | V out' Hno]; subst.
    + assert (a = b) as ->.
      { destruct (Nat.le_ge_cases (length (code_bits a)) (length (code_bits b))) as [L|L].
        - apply code_prefix_eq; try assumption.
          eapply is_prefix_comparable; [| |exact L].
          + exists rest. symmetry. exact EV.
          + apply is_prefix_app.
        - symmetry. apply code_prefix_eq; try assumption.
          eapply is_prefix_comparable; [| |exact L].
          + apply is_prefix_app.
          + exists rest. symmetry. exact EV. }
      apply app_inv_head in EV. subst rest.
      rewrite (IH r (b :: out) res Hs Hr HP'). simpl. now rewrite <- app_assoc.
    + exfalso. apply (Hno b Hb). apply is_prefix_app.
Qed.

Lemma parses_sound : forall V out res, parses V out res -> forall s, res = Some s ->
  exists t r, s = rev out ++ t /\ bytes_ok t = true /\ V = code_string t ++ ones r /\ (r <= 7)%nat.
Proof.
  induction 1 as [a rest out res Ha HP IH | V out Hno]; intros s Hs.
  - destruct (IH s Hs) as [t [r [E1 [E2 [E3 E4]]]]].
    exists (a :: t), r. split; [|split; [|split]].
    + rewrite E1. simpl. now rewrite <- app_assoc.
    + simpl. rewrite E2. replace (byte_ok a) with true; [reflexivity|].
      symmetry. apply N.ltb_lt. exact Ha.
    + rewrite code_string_cons, <- app_assoc, E3. reflexivity.
    + exact E4.
  - unfold finish in Hs.
    destruct (length V <=? 7)%nat eqn:L; [|discriminate].
    destruct (forallb (fun b : bool => b) V) eqn:F; [|discriminate].
    simpl in Hs. injection Hs as <-.
    exists [], (length V). split; [now rewrite app_nil_r|]. split; [reflexivity|].
    split; [now apply forallb_id_ones | now apply Nat.leb_le].
Qed.

Lemma code_string_length_ge t : bytes_ok t = true -> (5 * length t <= length (code_string t))%nat.
Proof.
  induction t as [|a t IH]; intros H; [simpl; lia|].
  cbn [bytes_ok forallb] in H. apply andb_prop in H. destruct H as [Ha Ht].
  apply N.ltb_lt in Ha. fold (bytes_ok t) in Ht.
  rewrite code_string_cons, app_length. pose proof (code_bits_len_bounds a Ha).
  specialize (IH Ht). simpl length. lia.
Qed.

(* ====================== 3. machine arithmetic ====================== *)

(* the table is a large constant: never let simpl/cbn unfold it *)
Local Opaque huffman_root.

(* the not yet consumed bits held in accBits *)
Definition pend (s : dstate) : list bool := bits_of (N.to_nat (d_bits s)) (d_acc s).

Lemma subw8_small a b : b <= a -> a < 256 -> subw 8 a b = a - b.
Proof.
  intros H1 H2. unfold subw. change (2 ^ 8) with 256.
  rewrite (N.mod_small b 256) by lia.
  replace (a + 256 - b) with ((a - b) + 1 * 256) by lia.
  rewrite N.mod_add by lia. apply N.mod_small. lia.
Qed.

Lemma u8_small x : x < 256 -> u8 x = x.
Proof. intros H. unfold u8, wrap. apply N.mod_small. exact H. Qed.

Lemma push_byte_bits acc bits b : b < 256 -> bits + 8 <= 32 ->
  bits_of (N.to_nat (bits + 8)) (N.lor (u32 (N.shiftl acc 8)) b) =
  bits_of (N.to_nat bits) acc ++ bits8 b.
Proof.
  intros Hb Hbits. replace (N.to_nat (bits + 8)) with (N.to_nat bits + 8)%nat by lia.
  apply (bits_of_lor_shift (N.to_nat bits) 8 32 acc b); [lia | exact Hb].
Qed.

Lemma top8_bits acc bits : 8 <= bits ->
  bits8 (u8 (N.shiftr acc (bits - 8))) = firstn 8 (bits_of (N.to_nat bits) acc).
Proof.
  intros H. rewrite bits8_u8, firstn_bits_of by lia. unfold bits8. do 2 f_equal. lia.
Qed.

Lemma drop_bits acc bits l : l <= bits ->
  bits_of (N.to_nat (bits - l)) acc = skipn (N.to_nat l) (bits_of (N.to_nat bits) acc).
Proof. intros H. rewrite skipn_bits_of by lia. f_equal. lia. Qed.

Lemma tail_idx_bits acc bits : bits < 8 ->
  bits8 (u8 (N.shiftl acc (8 - bits))) =
  bits_of (N.to_nat bits) acc ++ repeat false (N.to_nat (8 - bits)).
Proof.
  intros H. rewrite bits8_u8. unfold bits8.
  replace 8%nat with (N.to_nat bits + N.to_nat (8 - bits))%nat at 1 by lia.
  rewrite bits_of_app, N2Nat.id, N.shiftr_shiftl_l, N.sub_diag, N.shiftl_0_r by lia.
  f_equal.
  pose proof (bits_of_shiftl_low (N.to_nat (8 - bits)) (N.to_nat (8 - bits)) acc (le_n _)) as L.
  rewrite N2Nat.id in L. exact L.
Qed.

Lemma finish_match s p :
  d_left s = 8 * N.of_nat (length p) + d_bits s -> d_bits s < 8 ->
  same_ok (dec_finish s) (finish (bytes_bits p ++ pend s) (d_out s)).
Proof.
  intros HL HB. unfold dec_finish, finish.
  rewrite app_length, bytes_bits_length. unfold pend at 1. rewrite bits_of_length.
  destruct (7 <? d_left s) eqn:C.
  - apply N.ltb_lt in C.
    replace (8 * length p + N.to_nat (d_bits s) <=? 7)%nat with false
      by (symmetry; apply Nat.leb_gt; lia).
    exact I.
  - apply N.ltb_ge in C. assert (length p = 0%nat) as Lp by lia.
    destruct p; [|discriminate].
    replace (8 * length (@nil N) + N.to_nat (d_bits s) <=? 7)%nat with true
      by (symmetry; apply Nat.leb_le; simpl; lia).
    change (bytes_bits [] ++ pend s) with (pend s). cbv zeta. cbn [andb].
    assert (u32 (2 ^ d_bits s - 1) = 2 ^ d_bits s - 1) as ->.
    { unfold u32, wrap. apply N.mod_small.
      assert (2 ^ d_bits s <= 2 ^ 8) by (apply N.pow_le_mono_r; lia).
      change (2 ^ 8) with 256 in *. change (2 ^ 32) with 4294967296. lia. }
    pose proof (low_bits_all_ones (N.to_nat (d_bits s)) (d_acc s)) as L.
    rewrite N2Nat.id in L. rewrite L. unfold pend.
    destruct (forallb (fun b : bool => b) (bits_of (N.to_nat (d_bits s)) (d_acc s))); simpl; auto.
Qed.

(* ====================== 4. table invariant ====================== *)

Definition Inv (s : dstate) (p : list N) : Prop :=
  (exists f, node_okb f p (d_node s) = true) /\
  d_left s = 8 * N.of_nat (length p) + d_bits s /\ d_bits s < 16.

Lemma node_ok_extends f p node : node_okb f p node = true -> extends (bytes_bits p).
Proof.
  intros H. destruct (node_ok_inv _ _ _ H) as [f' [sub [_ [_ [He _]]]]]. exact He.
Qed.

Lemma path_len_bound f p node : node_okb f p node = true -> (length p <= 3)%nat.
Proof.
  intros H. destruct (node_ok_extends _ _ _ H) as [a [Ha [_ Hl]]].
  rewrite bytes_bits_length in Hl. pose proof (code_bits_len_bounds a Ha). lia.
Qed.

Lemma lookup f p node i : node_okb f p node = true -> i < 256 ->
  exists f' e, step_node node i = Ok e /\ entry_ok f' p i e.
Proof.
  intros H Hi. destruct (node_ok_inv _ _ _ H) as [f' [sub [_ [-> [_ Hall]]]]].
  destruct (Hall i Hi) as [e [He1 He2]]. exists f', e. simpl. rewrite He1. auto.
Qed.

(* N1: below a proper prefix of a code word no code word has ended *)
Lemma no_code_below q V : extends q -> is_prefix V q ->
  forall a, a < 256 -> ~ is_prefix (code_bits a) V.
Proof.
  intros [c [Hc [Hq Hl]]] HV a Ha HP.
  assert (a = c) as ->.
  { apply code_prefix_eq; try assumption.
    eapply is_prefix_trans; [exact HP|]. eapply is_prefix_trans; [exact HV|exact Hq]. }
  apply is_prefix_length in HP, HV. lia.
Qed.

(* N2: nor along EOS *)
Lemma no_code_eos Y : forall a, a < 256 -> ~ is_prefix (code_bits a) (ones 30 ++ Y).
Proof.
  intros a Ha HP. apply (code_not_prefix_eos a Ha).
  eapply is_prefix_comparable; [exact HP | apply is_prefix_app |].
  rewrite ones_length. pose proof (code_bits_len_bounds a Ha). lia.
Qed.

Lemma parses_eos Y out : parses (ones 30 ++ Y) out None.
Proof.
  replace (@None bytes) with (finish (ones 30 ++ Y) out).
  - apply parses_done, no_code_eos.
  - unfold finish. rewrite app_length, ones_length.
    replace (30 + length Y <=? 7)%nat with false by (symmetry; apply Nat.leb_gt; lia).
    reflexivity.
Qed.

Lemma split_at_leaf (pb P B X c : list bool) l :
  c = pb ++ firstn l B -> firstn l B = firstn l P ->
  pb ++ P ++ X = c ++ skipn l P ++ X.
Proof.
  intros -> E. rewrite E, <- app_assoc. f_equal. rewrite app_assoc. f_equal.
  symmetry. apply firstn_skipn.
Qed.

(* ====================== 5. simulation ====================== *)

Lemma dec_inner_S f root s : dec_inner (S f) root s =
    if 8 <=? d_bits s then
      let i := u8 (N.shiftr (d_acc s) (d_bits s - 8)) in
      match step_node (d_node s) i with
      | Panic w => Panic w
      | Err e => Err e
      | Ok None => Err E_huff_index
      | Ok (Some (HSub sub)) =>
          dec_inner f root (mkD (d_acc s) (u8 (d_bits s - 8)) (d_left s) (HSub sub) (d_out s))
      | Ok (Some (HLeaf sym cl)) =>
          let bits' := subw 8 (d_bits s) cl in
          dec_inner f root (mkD (d_acc s) bits' bits' root (sym :: d_out s))
      end
    else Ok s.
Proof. reflexivity. Qed.

Lemma dec_tail_S f root s : dec_tail (S f) root s =
    if 0 <? d_bits s then
      let i := u8 (N.shiftl (d_acc s) (8 - d_bits s)) in
      match step_node (d_node s) i with
      | Panic w => Panic w
      | Err e => Err e
      | Ok None => Err E_huff_index
      | Ok (Some (HSub sub)) => Ok (mkD (d_acc s) (d_bits s) (d_left s) (HSub sub) (d_out s))
      | Ok (Some (HLeaf sym cl)) =>
          if d_bits s <? cl then Ok (mkD (d_acc s) (d_bits s) (d_left s) (HLeaf sym cl) (d_out s))
          else
            let bits' := subw 8 (d_bits s) cl in
            dec_tail f root (mkD (d_acc s) bits' bits' root (sym :: d_out s))
      end
    else Ok s.
Proof. reflexivity. Qed.

Lemma dec_bytes_cons root b rest s : dec_bytes root (b :: rest) s =
    match dec_inner 40 root
            (mkD (N.lor (u32 (N.shiftl (d_acc s) 8)) b) (u8 (d_bits s + 8)) (u8 (d_left s + 8))
                 (d_node s) (d_out s)) with
    | Ok s2 => dec_bytes root rest s2
    | Err e => Err e
    | Panic w => Panic w
    end.
Proof. reflexivity. Qed.

Lemma root_inv acc bits out : bits < 16 -> Inv (mkD acc bits bits huffman_root out) [].
Proof.
  intros H. split; [exists 5%nat; exact root_ok_check|]. split; [simpl; lia | exact H].
Qed.

(* the  for bits >= 8  loop *)
Lemma dec_inner_sim : forall n s p, Inv s p -> d_bits s < 8 + N.of_nat n ->
  match dec_inner (S n) huffman_root s with
  | Ok s2 => exists p2, Inv s2 p2 /\ d_bits s2 < 8 /\
       forall X res, parses (bytes_bits p2 ++ pend s2 ++ X) (d_out s2) res ->
                     parses (bytes_bits p ++ pend s ++ X) (d_out s) res
  | Err _ => forall X, parses (bytes_bits p ++ pend s ++ X) (d_out s) None
  | Panic _ => False
  end.
Proof.
  induction n as [|n IH]; intros s p HI Hb; rewrite dec_inner_S;
    destruct (8 <=? d_bits s) eqn:C;
    try (apply N.leb_gt in C; exists p; split; [exact HI|]; split; [exact C|];
         intros X res HP; exact HP).
  - apply N.leb_le in C. lia.
  - apply N.leb_le in C. destruct HI as [[f Hf] [HL HB]]. cbv zeta.
    set (i := u8 (N.shiftr (d_acc s) (d_bits s - 8))).
    assert (bits8 i = firstn 8 (pend s)) as Hi8 by (apply top8_bits; exact C).
    destruct (lookup f p (d_node s) i Hf (u8_lt _)) as [f' [e [E1 E2]]]. rewrite E1.
    destruct e as [[sym l | sub'] | ]; cbn [entry_ok] in E2.
    + (* leaf: a symbol is complete *)
      destruct E2 as [Hsym [Hl Hcode]].
      rewrite subw8_small by lia.
      set (s' := mkD (d_acc s) (d_bits s - l) (d_bits s - l) huffman_root (sym :: d_out s)).
      assert (forall X, bytes_bits p ++ pend s ++ X = code_bits sym ++ (bytes_bits [] ++ pend s' ++ X)) as EQ.
      { intros X. change (bytes_bits [] ++ pend s' ++ X) with (pend s' ++ X).
        unfold pend at 2. cbn [d_bits d_acc s']. rewrite drop_bits by lia.
        apply split_at_leaf with (B := bits8 i); [exact Hcode|].
        rewrite Hi8, firstn_firstn. f_equal. lia. }
      assert (Inv s' []) as HI' by (apply root_inv; simpl; lia).
      assert (d_bits s' < 8 + N.of_nat n) as Hb' by (unfold s'; cbn [d_bits]; lia).
      specialize (IH s' [] HI' Hb').
      destruct (dec_inner (S n) huffman_root s') as [s2|e|w].
      * destruct IH as [p2 [I2 [B2 HP]]]. exists p2. split; [exact I2|]. split; [exact B2|].
        intros X res HP2. rewrite EQ. apply parses_step; [exact Hsym|]. apply HP, HP2.
      * intros X. rewrite EQ. apply parses_step; [exact Hsym|]. apply IH.
      * exact IH.
    + (* sub-table: descend *)
      rewrite u8_small by lia.
      set (s' := mkD (d_acc s) (d_bits s - 8) (d_left s) (HSub sub') (d_out s)).
      assert (forall X, bytes_bits (p ++ [i]) ++ pend s' ++ X = bytes_bits p ++ pend s ++ X) as EQ.
      { intros X. rewrite bytes_bits_app, <- app_assoc. f_equal.
        change (bytes_bits [i]) with (bits8 i ++ []). rewrite app_nil_r, Hi8.
        unfold pend at 2. cbn [d_bits d_acc s']. rewrite drop_bits by lia.
        change (N.to_nat 8) with 8%nat. rewrite app_assoc. f_equal. apply firstn_skipn. }
      assert (Inv s' (p ++ [i])) as HI'.
      { split; [exists f'; exact E2|]. cbn [d_left d_bits s']. rewrite app_length. simpl length. lia. }
      assert (d_bits s' < 8 + N.of_nat n) as Hb' by (unfold s'; cbn [d_bits]; lia).
      specialize (IH s' (p ++ [i]) HI' Hb').
      destruct (dec_inner (S n) huffman_root s') as [s2|e|w].
      * destruct IH as [p2 [I2 [B2 HP]]]. exists p2. split; [exact I2|]. split; [exact B2|].
        intros X res HP2. rewrite <- EQ. apply HP, HP2.
      * intros X. rewrite <- EQ. apply IH.
      * exact IH.
    + (* nil entry: only on the EOS path *)
      intros X.
      rewrite <- (firstn_skipn 8 (pend s)), <- Hi8, <- (firstn_skipn 6 (bits8 i)).
      rewrite <- !app_assoc. rewrite app_assoc, E2. apply parses_eos.
Qed.

(* the  for bits > 0  loop followed by the two final checks *)
Definition tail_result (s : dstate) (fuel : nat) : result bytes :=
  match dec_tail fuel huffman_root s with
  | Ok s2 => dec_finish s2
  | Err e => Err e
  | Panic w => Panic w
  end.

Lemma firstn_app_short {A} (P Z : list A) l : (l <= length P)%nat -> firstn l (P ++ Z) = firstn l P.
Proof.
  intros H. rewrite firstn_app. replace (l - length P)%nat with 0%nat by lia.
  simpl. apply app_nil_r.
Qed.

Lemma firstn_app_long {A} (P Z : list A) l : (length P <= l)%nat ->
  firstn l (P ++ Z) = P ++ firstn (l - length P) Z.
Proof. intros H. rewrite firstn_app, firstn_all2 by lia. reflexivity. Qed.

Lemma dec_tail_sim : forall n s p, Inv s p -> d_bits s < 8 -> d_bits s <= N.of_nat n ->
  exists res, parses (bytes_bits p ++ pend s) (d_out s) res /\ same_ok (tail_result s (S n)) res.
Proof.
  induction n as [|n IH]; intros s p HI Hb Hn; unfold tail_result; rewrite dec_tail_S;
    destruct (0 <? d_bits s) eqn:C;
    try (apply N.ltb_ge in C; destruct HI as [[f Hf] [HL HB]];
         exists (finish (bytes_bits p ++ pend s) (d_out s)); split;
         [ apply parses_done, (no_code_below (bytes_bits p)); [exact (node_ok_extends _ _ _ Hf)|];
           unfold pend; replace (d_bits s) with 0 by lia; rewrite app_nil_r; apply is_prefix_refl
         | apply finish_match; assumption ]).
  - apply N.ltb_lt in C. lia.
  - apply N.ltb_lt in C. destruct HI as [[f Hf] [HL HB]]. cbv zeta.
    set (i := u8 (N.shiftl (d_acc s) (8 - d_bits s))).
    assert (bits8 i = pend s ++ repeat false (N.to_nat (8 - d_bits s))) as Hi8
      by (apply tail_idx_bits; exact Hb).
    assert (length (pend s) = N.to_nat (d_bits s)) as LP by apply bits_of_length.
    destruct (lookup f p (d_node s) i Hf (u8_lt _)) as [f' [e [E1 E2]]]. rewrite E1.
    destruct e as [[sym l | sub'] | ]; cbn [entry_ok] in E2.
    + destruct E2 as [Hsym [Hl Hcode]].
      destruct (d_bits s <? l) eqn:CL.
      * (* the next symbol needs more bits than are left: stop *)
        apply N.ltb_lt in CL.
        exists (finish (bytes_bits p ++ pend s) (d_out s)). split.
        -- apply parses_done, (no_code_below (bytes_bits p ++ pend s)); [|apply is_prefix_refl].
           exists sym. split; [exact Hsym|].
           rewrite Hcode, Hi8, firstn_app_long by lia. split.
           ++ rewrite app_assoc. apply is_prefix_app.
           ++ rewrite !app_length, firstn_length, repeat_length. lia.
        -- apply (finish_match (mkD (d_acc s) (d_bits s) (d_left s) (HLeaf sym l) (d_out s)) p);
             assumption.
      * (* a symbol completes inside the last partial byte *)
        apply N.ltb_ge in CL. rewrite subw8_small by lia.
        set (s' := mkD (d_acc s) (d_bits s - l) (d_bits s - l) huffman_root (sym :: d_out s)).
        assert (bytes_bits p ++ pend s = code_bits sym ++ (bytes_bits [] ++ pend s')) as EQ.
        { change (bytes_bits [] ++ pend s') with (pend s').
          unfold pend at 2. cbn [d_bits d_acc s']. rewrite drop_bits by lia.
          rewrite <- (app_nil_r (pend s)), <- (app_nil_r (skipn _ _)).
          apply split_at_leaf with (B := bits8 i); [exact Hcode|].
          rewrite Hi8. apply firstn_app_short. unfold pend in *. rewrite bits_of_length. lia. }
        assert (Inv s' []) as HI' by (apply root_inv; simpl; lia).
        assert (d_bits s' < 8) as Hb' by (unfold s'; cbn [d_bits]; lia).
        assert (d_bits s' <= N.of_nat n) as Hn' by (unfold s'; cbn [d_bits]; lia).
        destruct (IH s' [] HI' Hb' Hn') as [res [HP HS]].
        exists res. split; [|exact HS].
        rewrite EQ. apply parses_step; [exact Hsym|]. exact HP.
    + (* inside a longer code: stop *)
      exists (finish (bytes_bits p ++ pend s) (d_out s)). split.
      * apply parses_done, (no_code_below (bytes_bits (p ++ [i]))).
        -- exact (node_ok_extends _ _ _ E2).
        -- rewrite bytes_bits_app. change (bytes_bits [i]) with (bits8 i ++ []).
           rewrite app_nil_r, Hi8, app_assoc. apply is_prefix_app.
      * apply (finish_match (mkD (d_acc s) (d_bits s) (d_left s) (HSub sub') (d_out s)) p);
          assumption.
    + (* nil entry: EOS *)
      exists None. split; [|exact I].
      assert (6 <= N.to_nat (d_bits s))%nat as L6.
      { destruct (Nat.le_gt_cases 6 (N.to_nat (d_bits s))) as [L|L]; [exact L|exfalso].
        assert (forallb (fun b : bool => b) (bytes_bits p ++ firstn 6 (bits8 i)) = true) as F
          by (rewrite E2; apply forallb_ones).
        rewrite forallb_app, Hi8, firstn_app_long, forallb_app in F by lia.
        rewrite !andb_true_iff in F. destruct F as [_ [_ F]].
        rewrite LP in F.
        destruct (6 - N.to_nat (d_bits s))%nat as [|k] eqn:K1; [lia|].
        destruct (N.to_nat (8 - d_bits s)) as [|m] eqn:K2; [lia|].
        simpl in F. discriminate. }
      rewrite <- (firstn_skipn 6 (pend s)).
      replace (firstn 6 (pend s)) with (firstn 6 (bits8 i))
        by (rewrite Hi8; apply firstn_app_short; lia).
      rewrite app_assoc, E2. apply parses_eos.
Qed.

Definition decode_from (src : bytes) (s : dstate) : result bytes :=
  match dec_bytes huffman_root src s with
  | Ok s1 => tail_result s1 16
  | Err e => Err e
  | Panic w => Panic w
  end.

Lemma dec_bytes_sim : forall src s p, bytes_ok src = true -> Inv s p -> d_bits s < 8 ->
  exists res, parses (bytes_bits p ++ pend s ++ bytes_bits src) (d_out s) res /\
              same_ok (decode_from src s) res.
Proof.
  induction src as [|b rest IH]; intros s p Hok HI Hb; unfold decode_from.
  - cbn [dec_bytes]. change (bytes_bits []) with (@nil bool). rewrite app_nil_r.
    apply (dec_tail_sim 15 s p HI Hb). simpl. lia.
  - cbn [bytes_ok forallb] in Hok. apply andb_prop in Hok. destruct Hok as [Hb256 Hrest].
    apply N.ltb_lt in Hb256. fold (bytes_ok rest) in Hrest.
    rewrite dec_bytes_cons. destruct HI as [[f Hf] [HL HB]].
    pose proof (path_len_bound _ _ _ Hf) as Lp.
    rewrite (u8_small (d_bits s + 8)), (u8_small (d_left s + 8)) by lia.
    set (s1 := mkD (N.lor (u32 (N.shiftl (d_acc s) 8)) b) (d_bits s + 8) (d_left s + 8)
                   (d_node s) (d_out s)).
    assert (pend s1 = pend s ++ bits8 b) as EP
      by (unfold pend, s1; cbn [d_bits d_acc]; apply push_byte_bits; lia).
    assert (Inv s1 p) as HI1.
    { split; [exists f; exact Hf|]. unfold s1; cbn [d_left d_bits]. lia. }
    assert (d_bits s1 < 8 + N.of_nat 39) as Hb1 by (unfold s1; cbn [d_bits]; simpl; lia).
    pose proof (dec_inner_sim 39 s1 p HI1 Hb1) as SIM.
    change (bytes_bits (b :: rest)) with (bits8 b ++ bytes_bits rest).
    change 40%nat with (S 39).
    destruct (dec_inner (S 39) huffman_root s1) as [s2|e|w].
    + destruct SIM as [p2 [I2 [B2 HP]]].
      destruct (IH s2 p2 Hrest I2 B2) as [res [HP2 HS]].
      exists res. split; [|exact HS].
      apply HP in HP2. rewrite EP, <- app_assoc in HP2. exact HP2.
    + exists None. split; [|exact I].
      specialize (SIM (bytes_bits rest)). rewrite EP, <- app_assoc in SIM. exact SIM.
    + contradiction.
Qed.

(* huffman_decode is decode_from the initial state. (Stated through an explicit middle term:
   asking the kernel to convert the two named functions directly makes it unfold the table.) *)
Lemma huffman_decode_explicit b : huffman_decode b =
  match dec_bytes huffman_root b (mkD 0 0 0 huffman_root []) with
  | Ok s1 => match dec_tail 16 huffman_root s1 with
             | Ok s2 => dec_finish s2 | Err e => Err e | Panic w => Panic w end
  | Err e => Err e
  | Panic w => Panic w
  end.
Proof. reflexivity. Qed.

Lemma decode_from_explicit b s : decode_from b s =
  match dec_bytes huffman_root b s with
  | Ok s1 => match dec_tail 16 huffman_root s1 with
             | Ok s2 => dec_finish s2 | Err e => Err e | Panic w => Panic w end
  | Err e => Err e
  | Panic w => Panic w
  end.
Proof. reflexivity. Qed.

Lemma huffman_decode_from b : huffman_decode b = decode_from b (mkD 0 0 0 huffman_root []).
Proof. rewrite huffman_decode_explicit, decode_from_explicit. reflexivity. Qed.

(* the Go decoder computes the greedy parse of its input bits *)
Theorem decode_sim b : bytes_ok b = true ->
  exists res, parses (bytes_bits b) [] res /\ same_ok (huffman_decode b) res.
Proof.
  intros Hb.
  destruct (dec_bytes_sim b (mkD 0 0 0 huffman_root []) [] Hb) as [res [HP HS]].
  - apply root_inv. lia.
  - cbn [d_bits]. lia.
  - exists res. split.
    + unfold pend in HP. cbn [d_bits d_acc d_out] in HP.
      change (bits_of (N.to_nat 0) 0) with (@nil bool) in HP.
      change (bytes_bits []) with (@nil bool) in HP. cbn [app] in HP. exact HP.
    + rewrite huffman_decode_from. exact HS.
Qed.

(* ====================== 6. the C15 decoder theorems ====================== *)

Lemma pad_len_unique n r : (r < 8)%nat -> ((n + r) mod 8 = 0)%nat -> r = pad_len n.
Proof.
  intros Hr Hm. destruct (pad_len_props n) as [P1 P2].
  apply Nat.mod_divides in Hm; [|lia]. apply Nat.mod_divides in P2; [|lia].
  destruct Hm as [c Hc], P2 as [c' Hc']. lia.
Qed.

Lemma spec_encode_packl s :
  spec_encode s = packl (code_string s ++ ones (pad_len (length (code_string s)))).
Proof. reflexivity. Qed.

Lemma spec_encode_bits s :
  bytes_bits (spec_encode s) = code_string s ++ ones (pad_len (length (code_string s))).
Proof.
  rewrite spec_encode_packl.
  destruct (pad_len_props (length (code_string s))) as [_ P2].
  apply Nat.mod_divides in P2; [|lia]. destruct P2 as [c Hc].
  apply bytes_bits_packl with (k := c). rewrite app_length, ones_length. exact Hc.
Qed.

Lemma spec_encode_ok s : bytes_ok (spec_encode s) = true.
Proof.
  rewrite spec_encode_packl.
  destruct (pad_len_props (length (code_string s))) as [_ P2].
  apply Nat.mod_divides in P2; [|lia]. destruct P2 as [c Hc].
  apply packl_bytes_ok with (k := c). rewrite app_length, ones_length. exact Hc.
Qed.

Lemma decode_ok_parses b s : bytes_ok b = true -> huffman_decode b = Ok s ->
  exists r, bytes_ok s = true /\ bytes_bits b = code_string s ++ ones r /\ (r <= 7)%nat.
Proof.
  intros Hb Hd. destruct (decode_sim b Hb) as [res [HP HS]]. rewrite Hd in HS.
  destruct res as [s'|]; [|contradiction]. simpl in HS. subst s'.
  destruct (parses_sound _ _ _ HP s eq_refl) as [t [r [E1 [E2 [E3 E4]]]]].
  simpl in E1. subst t. exists r. auto.
Qed.

Theorem decode_spec_encode s : bytes_ok s = true -> huffman_decode (spec_encode s) = Ok s.
Proof.
  intros Hs. destruct (decode_sim (spec_encode s) (spec_encode_ok s)) as [res [HP HS]].
  rewrite spec_encode_bits in HP.
  destruct (pad_len_props (length (code_string s))) as [P1 _].
  apply parses_complete in HP; [|exact Hs|lia]. subst res. simpl in HS.
  destruct (huffman_decode (spec_encode s)); simpl in HS; try contradiction. now subst.
Qed.

Theorem decode_exact : forall b s, bytes_ok b = true ->
  (huffman_decode b = Ok s <-> spec_valid b s).
Proof.
  intros b s Hb. split.
  - intros Hd. destruct (decode_ok_parses b s Hb Hd) as [r [Hs [HV Hr]]].
    split; [exact Hs|].
    rewrite spec_encode_packl. rewrite <- (pad_len_unique (length (code_string s)) r).
    + rewrite <- HV. apply packl_bytes_bits. exact Hb.
    + lia.
    + replace (length (code_string s) + r)%nat with (length (bytes_bits b))
        by (rewrite HV, app_length, ones_length; reflexivity).
      rewrite bytes_bits_length, Nat.mul_comm. apply Nat.mod_mul. lia.
  - intros [Hs <-]. apply decode_spec_encode. exact Hs.
Qed.

Theorem roundtrip : forall s, bytes_ok s = true -> huffman_decode (huffman_encode s) = Ok s.
Proof.
  intros s Hs. rewrite encode_is_spec by exact Hs. apply decode_spec_encode. exact Hs.
Qed.

Theorem decode_total : forall b, bytes_ok b = true -> is_panic (huffman_decode b) = false.
Proof.
  intros b Hb. destruct (decode_sim b Hb) as [res [_ HS]].
  destruct (huffman_decode b); try reflexivity. destruct res; contradiction.
Qed.

Theorem decode_output_bound : forall b s, bytes_ok b = true -> huffman_decode b = Ok s ->
  (5 * length s <= 8 * length b)%nat.
Proof.
  intros b s Hb Hd. destruct (decode_ok_parses b s Hb Hd) as [r [Hs [HV Hr]]].
  rewrite <- bytes_bits_length, HV, app_length.
  pose proof (code_string_length_ge s Hs). lia.
Qed.
