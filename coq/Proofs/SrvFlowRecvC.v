(* Proofs/SrvFlowRecvC.v - C14 (server), which DATA frames are debited from the connection receive window:
   exactly those on a stream of the table that can take DATA, and those on a stream the server itself reset
   and still remembers; every other DATA frame ends the connection (GOAWAY). *)
From H2V Require Import Base.Bytes Base.MachineInt Base.Result Gen.GenConsts Impl.ServerConn Proofs.SrvBase
  Spec.FlowLedger Proofs.SrvFlowLedger Proofs.SrvFlowDefs Proofs.SrvFlowSend Proofs.SrvFlowEff Proofs.SrvFlowRecv.
From Coq Require Import ZArith Lia ZifyN ZifyNat ZifyBool List.
Import ListNotations.
Local Open Scope N_scope.
Set Default Proof Using "Type".

Section Acct.
Variable hstate : Type.
Variable dec_field : hstate -> N -> bytes -> dec_res hstate.
Variable enc_field : hstate -> bytes -> bytes -> bool -> bytes * hstate.
Variable enc_set_max : hstate -> N -> hstate.
Variable cfg : config.
Notation sconn := (sconn hstate).
Implicit Types c : sconn.
Notation CStep := (CStep hstate cfg).
Notation NoCredit := (NoCredit hstate).
Notation step := (step dec_field enc_field enc_set_max cfg).

(* the stream can take DATA (open, header block finished), or the server reset it and still remembers *)
Definition data_creditable c (fr : sframe) : bool :=
  match (if sf_sid fr <=? sc_lastID c then strms_search (sc_strms c) (sf_sid fr) else None) with
  | Some s => data_accepts s
  | None => in_ring c (sf_sid fr) && match ring_find c (sf_sid fr) with Some b => b | None => false end
  end.

Lemma closing_put c x : sc_closing (put c x) = sc_closing c. Proof. reflexivity. Qed.

Lemma NoCredit_upd_strms c l : NoCredit c (upd_strms c l).
Proof. split; [apply Frame_upd_strms | apply out_ext_same; reflexivity]. Qed.

Lemma dead_end c0 c2 (sid code : N) x : NoCredit c0 c2 ->
  sc_closing (fst (brk (put (write_goaway c2 sid code) x))) = true /\
  CStep c0 (fst (brk (put (write_goaway c2 sid code) x))) 0.
Proof.
  intro N0. split; [unfold brk, note; cbn [fst]; sc_cbn; rewrite closing_put; apply sc_closing_write_goaway|].
  apply CStep_NoCredit. eapply NoCredit_trans; [exact N0|].
  eapply NoCredit_trans; [apply NoCredit_Quiet, Quiet_write_goaway|].
  eapply NoCredit_trans; [apply NoCredit_put | apply NoCredit_Quiet, Quiet_brk].
Qed.

Lemma goaway_cont c (sid code : N) :
  sc_closing (fst (cont (write_goaway c sid code))) = true /\ CStep c (fst (cont (write_goaway c sid code))) 0.
Proof.
  cbn [fst cont]. split; [apply sc_closing_write_goaway | apply CStep_NoCredit, NoCredit_Quiet, Quiet_write_goaway].
Qed.

Theorem data_accounting c fr : cfg_ok cfg -> sf_kind fr = KData -> sf_sid fr <> 0 -> wire_ok fr ->
  let c' := fst (sl_frame dec_field enc_set_max cfg c fr) in
  if data_creditable c fr then CStep c c' (Z.of_N (sf_len fr))
  else sc_closing c' = true /\ CStep c c' 0.
Proof.
  intros Cfg K NZ WO. cbv zeta.
  assert (Z0 : (sf_sid fr =? 0) = false) by flia.
  assert (DC : fkind_eqb (sf_kind fr) KCont && negb (sc_discardID c =? 0) && (sf_sid fr =? sc_discardID c) = false)
    by (rewrite K; reflexivity).
  assert (LN : (0 <= Z.of_N (sf_len fr))%Z) by flia.
  rewrite (sl_frame_stream _ dec_field enc_set_max cfg c fr Z0 DC).
  unfold data_creditable, sl_pre. cbv zeta.
  destruct (if sf_sid fr <=? sc_lastID c then strms_search (sc_strms c) (sf_sid fr) else None) as [s|] eqn:FD.
  - (* a stream of the table *)
    assert (Id : st_id s = sf_sid fr).
    { destruct (sf_sid fr <=? sc_lastID c); [|discriminate]. apply strms_search_In in FD. apply FD. }
    unfold sl_tail. rewrite K. cbn [fkind_eqb].
    pose proof (handle_frame_data _ dec_field cfg c s fr K) as HD. cbv zeta in HD.
    destruct (data_accepts s).
    + rewrite HD. match goal with |- context [if ?b then _ else _] => destruct b end; cbn [write_error].
      * eapply (CStep_eq _ _ _ _ (Z.of_N (sf_len fr) + (0 + 0))%Z); [flia|].
        eapply CStep_trans; [apply credit_cstep; assumption|].
        eapply CStep_trans; [apply CStep_NoCredit, NoCredit_Quiet, Quiet_write_reset | apply CStep_NoCredit, after_frame_NoCredit].
      * eapply (CStep_eq _ _ _ _ (Z.of_N (sf_len fr) + 0)%Z); [flia|].
        eapply CStep_trans; [apply consume_cstep; [exact Cfg | unfold wire_ok in WO; flia | cbn [st_id set_recv]; rewrite Id; exact NZ]|].
        apply CStep_NoCredit, after_frame_NoCredit.
    + destruct HD as (code & NE & ->). cbn [write_error].
      assert (NE' : negb (code =? c_NoError) = true) by flia. rewrite NE'.
      apply dead_end. apply NoCredit_refl.
  - (* no such stream *)
    rewrite K. cbn [fkind_eqb andb].
    destruct (in_ring c (sf_sid fr)) eqn:IR; cbn [andb].
    + destruct (match ring_find c (sf_sid fr) with Some b => b | None => false end).
      * cbn [fst cont]. apply credit_cstep; assumption.
      * apply goaway_cont.
    + destruct (sf_sid fr <? sc_lastID c); [apply goaway_cont|].
      unfold sl_tail. rewrite K. cbn [fkind_eqb].
      match goal with |- context [handle_frame dec_field cfg ?c2 ?s fr] =>
        assert (HF : handle_frame dec_field cfg c2 s fr = (c2, s, Some (EGoAway c_ProtocolError)))
          by (unfold handle_frame, verify_state; rewrite K; reflexivity);
        rewrite HF end.
      cbn [write_error]. change (negb (c_ProtocolError =? c_NoError)) with true. cbn iota.
      apply dead_end. apply NoCredit_upd_strms.
Qed.
End Acct.
