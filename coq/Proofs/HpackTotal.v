(* C03: totality for ANY input (no bytes_ok hypothesis): HuffmanDecode, readString, nextField
   and the header-block loop never panic and never run out of fuel; the result of nextField does
   not depend on what the caller's HeaderField held. *)
From Coq Require Import List NArith ZArith Bool Lia.
From H2V Require Import Base.Bytes Base.MachineInt Base.Result Gen.GenConsts Gen.GenStatic
     Impl.Huffman Impl.Hpack Proofs.HuffmanTable Proofs.HuffmanDecode
     Proofs.HpackDefs Proofs.HpackBytes Proofs.HpackInt Proofs.HpackStr
     Proofs.HpackTable Proofs.HpackNext Proofs.HpackStruct Proofs.HpackBlock.
Import ListNotations.
Local Open Scope N_scope.
Local Opaque huffman_root.

Arguments N.land : simpl never.
Arguments N.pow : simpl never.
Arguments N.shiftl : simpl never.
Arguments N.shiftr : simpl never.

(* ---- HuffmanDecode on any list of N: only the shape of the table matters ---- *)

Definition good (node : hnode) : Prop := exists f p, node_okb f p node = true.

Lemma good_root : good huffman_root.
Proof. exists 5%nat, []. exact root_ok_check. Qed.

Lemma u8_lt256 x : u8 x < 256.
Proof. unfold u8, wrap. apply N.mod_lt. discriminate. Qed.

(* one table look-up from a good node *)
Lemma step_good node i : good node -> i < 256 ->
  step_node node i = Ok None \/
  (exists sym cl, step_node node i = Ok (Some (HLeaf sym cl)) /\ 1 <= cl <= 8) \/
  (exists sub, step_node node i = Ok (Some (HSub sub)) /\ good (HSub sub)).
Proof.
  intros [f [p Hok]] Hi. destruct (node_ok_inv f p node Hok) as [f' [sub [-> [-> [_ Hall]]]]].
  destruct (Hall i Hi) as [e [He Hent]]. unfold step_node. rewrite He.
  destruct e as [[sym cl|sub']|].
  - right. left. exists sym, cl. split; [reflexivity|]. cbn [entry_ok] in Hent. tauto.
  - right. right. exists sub'. split; [reflexivity|]. exists f', (p ++ [i]). exact Hent.
  - left. reflexivity.
Qed.

Lemma subw8_exact a b : b <= a -> a < 256 -> subw 8 a b = a - b.
Proof. apply subw8_small. Qed.

Lemma dec_inner_total root : good root -> forall fuel s,
  good (d_node s) -> d_bits s < 7 + N.of_nat fuel -> (0 < fuel)%nat -> d_bits s < 256 ->
  match dec_inner fuel root s with
  | Ok s' => good (d_node s') /\ d_bits s' < 8
  | Err _ => True
  | Panic _ => False
  end.
Proof.
  intros Hroot. induction fuel as [|fuel IH]; intros s Hg Hb Hf Hb256; [lia|].
  rewrite dec_inner_S. destruct (N.leb_spec 8 (d_bits s)) as [H8|H8]; [|split; [exact Hg | exact H8]].
  cbv zeta.
  destruct (step_good (d_node s) (u8 (N.shiftr (d_acc s) (d_bits s - 8))) Hg (u8_lt256 _))
    as [E | [[sym [cl [E Hcl]]] | [sub [E Hsub]]]]; rewrite E.
  - exact I.
  - rewrite subw8_exact by lia. apply IH; cbn [d_node d_bits]; try assumption; lia.
  - assert (Hu : u8 (d_bits s - 8) = d_bits s - 8) by (apply u8_small; lia).
    apply IH; cbn [d_node d_bits]; rewrite ?Hu; try assumption; lia.
Qed.

Lemma dec_bytes_total root : good root -> forall src s,
  good (d_node s) -> d_bits s < 8 ->
  match dec_bytes root src s with
  | Ok s' => good (d_node s') /\ d_bits s' < 8
  | Err _ => True
  | Panic _ => False
  end.
Proof.
  intros Hroot. induction src as [|b rest IH]; intros s Hg Hb; [split; assumption|].
  rewrite dec_bytes_cons. remember 40%nat as f40 eqn:Hf.
  assert (Hu : u8 (d_bits s + 8) = d_bits s + 8) by (apply u8_small; lia).
  rewrite Hu.
  pose proof (dec_inner_total root Hroot f40
    (mkD (N.lor (u32 (N.shiftl (d_acc s) 8)) b) (u8 (d_bits s + 8)) (u8 (d_left s + 8)) (d_node s) (d_out s))) as T.
  cbn [d_node d_bits] in T. rewrite Hu in T. specialize (T Hg ltac:(subst f40; lia) ltac:(subst f40; lia) ltac:(lia)).
  clear Hf. destruct (dec_inner f40 root _) as [s2|e|w]; [|exact I|contradiction].
  destruct T as [T1 T2]. apply IH; assumption.
Qed.

Lemma dec_tail_total root : good root -> forall fuel s,
  good (d_node s) -> d_bits s < N.of_nat fuel -> d_bits s < 8 ->
  match dec_tail fuel root s with
  | Ok _ => True
  | Err _ => True
  | Panic _ => False
  end.
Proof.
  intros Hroot. induction fuel as [|fuel IH]; intros s Hg Hb Hb8; [lia|].
  rewrite dec_tail_S. destruct (N.ltb_spec 0 (d_bits s)) as [H0|H0]; [|exact I].
  cbv zeta.
  destruct (step_good (d_node s) (u8 (N.shiftl (d_acc s) (8 - d_bits s))) Hg (u8_lt256 _))
    as [E | [[sym [cl [E Hcl]]] | [sub [E Hsub]]]]; rewrite E.
  - exact I.
  - destruct (N.ltb_spec (d_bits s) cl) as [Hlt|Hge]; [exact I|].
    rewrite subw8_exact by lia. apply IH; cbn [d_node d_bits]; try assumption; lia.
  - exact I.
Qed.

Theorem huffman_decode_no_panic b : is_panic (huffman_decode b) = false.
Proof.
  unfold huffman_decode. rewrite huffman_decode_with_unfold. remember 16%nat as f16 eqn:Hf.
  pose proof (dec_bytes_total huffman_root good_root b (mkD 0 0 0 huffman_root [])) as T.
  cbn [d_node d_bits] in T. specialize (T good_root ltac:(lia)).
  destruct (dec_bytes huffman_root b _) as [s1|e|w]; [|reflexivity|contradiction].
  destruct T as [T1 T2].
  pose proof (dec_tail_total huffman_root good_root f16 s1 T1 ltac:(subst f16; lia) T2) as T'.
  clear Hf. destruct (dec_tail f16 huffman_root s1) as [s2|e|w]; [|reflexivity|contradiction].
  unfold dec_finish. destruct (7 <? d_left s2); [reflexivity|]. destruct (_ =? _); reflexivity.
Qed.

(* ---- readString, a literal, one field ---- *)

Lemma read_string_no_panic b : is_panic (read_string b) = false.
Proof.
  destruct b as [|c r]; [reflexivity|]. rewrite read_string_cons.
  pose proof (read_int_no_panic 7 (c :: r)) as HI.
  destruct (read_int 7 (c :: r)) as [[b1 n]|e|w]; [|reflexivity|discriminate].
  destruct (len b1 <? n); [reflexivity|]. destruct (N.land c 128 =? 128); [|reflexivity].
  pose proof (huffman_decode_no_panic (takeN n b1)) as HH.
  destruct (huffman_decode (takeN n b1)); [reflexivity | reflexivity | discriminate].
Qed.

Lemma rl_core_no_panic hp bi bits c r : is_panic (rl_core hp bi bits (c :: r)) = false.
Proof.
  unfold rl_core. destruct bi.
  - pose proof (read_int_no_panic bits (c :: r)) as HI.
    destruct (read_int bits (c :: r)) as [[b1 n]|e|w]; [|reflexivity|discriminate].
    destruct (peek hp n); [|reflexivity].
    pose proof (read_string_no_panic b1) as HS.
    destruct (read_string b1) as [[b2 v]|e|w]; [reflexivity|reflexivity|discriminate].
  - pose proof (read_string_no_panic r) as HS.
    destruct (read_string r) as [[b2 k]|e|w]; [|reflexivity|discriminate].
    pose proof (read_string_no_panic b2) as HS2.
    destruct (read_string b2) as [[b3 v]|e|w]; [reflexivity|reflexivity|discriminate].
Qed.

Lemma one_core_no_panic hp c r : is_panic (one_core hp (c :: r)) = false.
Proof.
  unfold one_core.
  destruct (N.land c 128 =? 128).
  - pose proof (read_int_no_panic 7 (c :: r)) as HI.
    destruct (read_int 7 (c :: r)) as [[b1 n]|e|w]; [|reflexivity|discriminate].
    destruct (peek hp n); reflexivity.
  - destruct (N.land c 64 =? 64); [|destruct (N.land c 240 =? 16)]; unfold lit_core;
      match goal with |- context [rl_core ?h ?bi ?bits (c :: r)] =>
        pose proof (rl_core_no_panic h bi bits c r) as HR;
        destruct (rl_core h bi bits (c :: r)) as [[[k v] rest]|e|w]; [reflexivity|reflexivity|discriminate]
      end.
Qed.

(* ---- nextField ---- *)

Theorem next_field_no_panic : forall st hf blockStart fp b,
  is_panic (nf_res (next_field st hf blockStart fp b)) = false.
Proof.
  intros st hf bs fp b. rewrite next_field_scanN.
  pose proof (scanN_no_panic (h_max_settings st) (allowed_of bs fp) b) as HS.
  destruct (scanN (h_max_settings st) (allowed_of bs fp) b) as [ns e] eqn:Es.
  unfold nf_of_scan. cbn [fst snd] in *. destruct e as [|e|w|b'].
  - reflexivity.
  - reflexivity.
  - exfalso. apply (HS w). reflexivity.
  - destruct (scanN_field _ _ _ _ _ Es) as [[c [r [-> Hu]]] _].
    pose proof (one_field_core (apply_upd st ns) (hf_after hf b) c r Hu) as C. unfold nf_of_core in C.
    pose proof (one_core_no_panic (apply_upd st ns) c r) as NP.
    destruct (one_core (apply_upd st ns) (c :: r)) as [[[f rest] st']|e|w].
    + rewrite C. reflexivity.
    + destruct C as [-> _]. reflexivity.
    + discriminate.
Qed.

Theorem next_field_ignores_hf : forall st hf hf' blockStart fp b,
  let o := next_field st hf blockStart fp b in
  let o' := next_field st hf' blockStart fp b in
  nf_res o = nf_res o' /\ nf_hp o = nf_hp o' /\
  (forall rest, nf_res o = Ok (rest, true) -> nf_hf o = nf_hf o').
Proof.
  intros st hf hf' bs fp b. cbv zeta. rewrite !next_field_scanN.
  destruct (scanN (h_max_settings st) (allowed_of bs fp) b) as [ns e] eqn:Es.
  unfold nf_of_scan. cbn [fst snd]. destruct e as [|e|w|b'].
  - cbn [nf_res nf_hp]. split; [reflexivity|]. split; [reflexivity|]. discriminate.
  - cbn [nf_res nf_hp]. split; [reflexivity|]. split; [reflexivity|]. discriminate.
  - cbn [nf_res nf_hp]. split; [reflexivity|]. split; [reflexivity|]. discriminate.
  - destruct (scanN_field _ _ _ _ _ Es) as [[c [r [-> Hu]]] _].
    pose proof (one_field_core (apply_upd st ns) (hf_after hf b) c r Hu) as C.
    pose proof (one_field_core (apply_upd st ns) (hf_after hf' b) c r Hu) as C'.
    unfold nf_of_core in C, C'.
    destruct (one_core (apply_upd st ns) (c :: r)) as [[[f rest] st']|e|w].
    + rewrite C, C'. auto.
    + destruct C as [-> ->], C' as [-> ->]. split; [reflexivity|]. split; [reflexivity|]. discriminate.
    + destruct C as [-> ->], C' as [-> ->]. split; [reflexivity|]. split; [reflexivity|]. discriminate.
Qed.

(* ---- the loop and the frames ---- *)

Lemma frameN_no_panic : forall b hp hf eh k, is_panic (frameN hp hf eh k b) = false.
Proof.
  induction b as [b IH] using bytes_len_ind. intros hp hf eh k.
  destruct b as [|c r]; [reflexivity|]. rewrite frameN_cons. cbv zeta.
  pose proof (next_field_no_panic hp hf true k (c :: r)) as NP.
  destruct (nf_res (next_field hp hf true k (c :: r))) as [[rest [|]]|e|w] eqn:E.
  - apply next_field_progress in E; [|discriminate]. destruct E as [E _].
    specialize (IH rest E (nf_hp (next_field hp hf true k (c :: r))) (nf_hf (next_field hp hf true k (c :: r))) eh (k + 1)).
    destruct (frameN _ _ eh (k + 1) rest) as [[[fs hp'] st]|e|w]; [reflexivity|reflexivity|discriminate].
  - reflexivity.
  - destruct (_ && _); reflexivity.
  - discriminate.
Qed.

Lemma handle_header_frame_frameN hp st payload eh cont :
  handle_header_frame hp st (payload, eh, cont) =
  match frameN hp empty_field eh (if cont then s_block_fields st else 0) (s_prev st ++ payload) with
  | Ok (fs, hp', st') =>
      if eh && negb (len (s_prev st') =? 0) then Err E_headers_incomplete else Ok (fs, hp', st')
  | Err e => Err e
  | Panic w => Panic w
  end.
Proof. unfold handle_header_frame. rewrite frame_loop_frameN by lia. reflexivity. Qed.

Theorem block_decode_frames_no_panic : forall st frs, is_panic (block_decode_frames st frs) = false.
Proof.
  intros st frs. unfold block_decode_frames. generalize (mkS [] 0) as ss. revert st.
  induction frs as [|[[payload eh] cont] frs IH]; intros st ss; [reflexivity|].
  cbn [frames_from]. rewrite handle_header_frame_frameN.
  pose proof (frameN_no_panic (s_prev ss ++ payload) st empty_field eh (if cont then s_block_fields ss else 0)) as NP.
  destruct (frameN st empty_field eh _ (s_prev ss ++ payload)) as [[[fs hp'] st']|e|w]; [|reflexivity|discriminate].
  destruct (eh && negb (len (s_prev st') =? 0)); [reflexivity|].
  specialize (IH hp' st'). destruct (frames_from hp' st' frs) as [[fs' hp'']|e|w]; [reflexivity|reflexivity|discriminate].
Qed.
