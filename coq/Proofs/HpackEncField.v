(* C04, part 5: one call of AppendHeader, seen by the decoder of the specification.

   For an encoder state whose table fits its maximum ([K]) and a field of byte strings, what
   AppendHeader appends (after the size updates, which HpackEncBlock.v handles) is the encoding of
   one representation [frepr], whose meaning on the encoder's own table, read as the peer's, is
   the field itself, and which leaves the peer's table equal to the encoder's new one. *)
From Coq Require Import List NArith ZArith Bool Lia.
From H2V Require Import Base.Bytes Base.MachineInt Base.Result Gen.GenConsts Gen.GenStatic
     Impl.Huffman Impl.Hpack Spec.Rfc7541Huffman Spec.Rfc7541
     Proofs.HpackDefs Proofs.HpackBytes Proofs.HpackStatic Proofs.HpackTable
     Proofs.HpackEncInt Proofs.HpackEncString Proofs.HpackEncHeader Proofs.HpackEncSearch
     Proofs.HpackEncSpecInt Proofs.HpackEncSpecRT.
Import ListNotations.
Local Open Scope N_scope.

(* the encoder state between calls: both sizes are the peer's setting, a uint32 with room to
   spare, and the table fits *)
Definition K (hp : hpack_state) : Prop :=
  h_max hp = h_max_settings hp /\ h_max hp < 2 ^ 31 /\ fsum (h_dynamic hp) <= h_max hp.

Definition fld_ok (hf : field) : Prop :=
  bytes_ok (f_key hf) = true /\ bytes_ok (f_value hf) = true /\ fsize hf < 2 ^ 31.

(* the representation AppendHeader chooses *)
Definition mode_of_pattern (pat : N) : mode :=
  if pat =? 16 then Never else if pat =? 64 then Incremental else Without.

Definition frepr (hp : hpack_state) (hf : field) (store : bool) : repr :=
  let '(index, fm) := search hp hf in
  let '(c, bits, pat, _) := achoice hp hf store index fm in
  if 0 <? index then
    if bits =? 7 then Indexed index
    else Literal (mode_of_pattern pat) (NameIdx index) false c (f_value hf)
  else Literal (mode_of_pattern pat) (NameLit (f_key hf)) c c (f_value hf).

Definition is_never (r : repr) : Prop := exists nr a b v, r = Literal Never nr a b v.
Definition is_update (r : repr) : bool := match r with SizeUpdate _ => true | _ => false end.

(* ---- octets ---- *)

Lemma pow31_32 x : x < 2 ^ 31 -> x < 2 ^ 32.
Proof. change (2 ^ 31) with 2147483648. change (2 ^ 32) with 4294967296. lia. Qed.

Lemma pow63_64 x : x < 2 ^ 63 -> x < 2 ^ 64.
Proof. change (2 ^ 63) with 9223372036854775808. change (2 ^ 64) with 18446744073709551616. lia. Qed.

Lemma fld_ok_strs hf : fld_ok hf -> str_wf (f_key hf) /\ str_wf (f_value hf).
Proof.
  intros [H1 [H2 H3]]. unfold fsize in H3. unfold str_wf.
  change (2 ^ 31) with 2147483648 in H3. change (2 ^ 32) with 4294967296.
  repeat split; try assumption; lia.
Qed.

Lemma enc_indexed index : index < 2 ^ 63 -> aint 128 7 index ++ [] = spec_enc_repr (Indexed index).
Proof.
  intros H. rewrite app_nil_r. cbn [spec_enc_repr].
  apply aint_is_spec; [lia | reflexivity | reflexivity | apply pow63_64; exact H].
Qed.

Lemma enc_lit_idx m index c value : index < 2 ^ 63 -> str_wf value ->
  aint (mode_pattern m) (mode_prefix m) index ++ astr value c
  = spec_enc_repr (Literal m (NameIdx index) false c value).
Proof.
  intros H [V1 V2]. cbn [spec_enc_repr]. rewrite (astr_is_spec value c V1 V2). f_equal.
  apply aint_is_spec; [destruct m; cbn; lia | destruct m; reflexivity | apply mode_pattern_mod | apply pow63_64; exact H].
Qed.

Lemma enc_lit_name m key c value : str_wf key -> str_wf value ->
  (mode_pattern m :: astr key c) ++ astr value c = spec_enc_repr (Literal m (NameLit key) c c value).
Proof.
  intros [K1 K2] [V1 V2]. cbn [spec_enc_repr].
  rewrite (astr_is_spec value c V1 V2), (astr_is_spec key c K1 K2). reflexivity.
Qed.

(* ---- meaning ---- *)

Definition mode_sens (m : mode) : bool := match m with Never => true | _ => false end.
Definition mode_table (m : mode) (t : dtable) (e : entry) : dtable :=
  match m with Incremental => add_entry t e | _ => t end.

Lemma step_lit_idx t a m i hn hv value key v0 : lookup t i = Some (key, v0) ->
  spec_step t a (Literal m (NameIdx i) hn hv value)
  = Some (Some (key, value, mode_sens m), mode_table m t (key, value)).
Proof. intros H. cbn [spec_step]. rewrite H. destruct m; reflexivity. Qed.

Lemma step_lit_name t a m hn hv value key :
  spec_step t a (Literal m (NameLit key) hn hv value)
  = Some (Some (key, value, mode_sens m), mode_table m t (key, value)).
Proof. destruct m; reflexivity. Qed.

Lemma step_indexed t a i key v0 : lookup t i = Some (key, v0) ->
  spec_step t a (Indexed i) = Some (Some (key, v0, false), t).
Proof. intros H. cbn [spec_step]. rewrite H. reflexivity. Qed.

(* ---- the state ---- *)

Lemma K_length hp : K hp -> N.of_nat (length (h_dynamic hp)) < 2 ^ 63.
Proof.
  intros [_ [H2 H3]]. pose proof (fsum_length (h_dynamic hp)).
  change (2 ^ 31) with 2147483648 in H2. change (2 ^ 63) with 9223372036854775808. lia.
Qed.

Lemma K_length_small hp : K hp -> N.of_nat (length (h_dynamic hp)) < 2 ^ 31.
Proof.
  intros [_ [H2 H3]]. pose proof (fsum_length (h_dynamic hp)).
  change (2 ^ 31) with 2147483648 in *. lia.
Qed.

Lemma K_add hp hf : K hp -> fld_ok hf ->
  K (add_dynamic hp hf) /\ abs (add_dynamic hp hf) = add_entry (abs hp) (f_key hf, f_value hf) /\
  h_max (add_dynamic hp hf) = h_max hp /\ h_pending (add_dynamic hp hf) = h_pending hp /\
  h_pending_min (add_dynamic hp hf) = h_pending_min hp /\
  h_no_compress (add_dynamic hp hf) = h_no_compress hp /\ h_no_dynamic (add_dynamic hp hf) = h_no_dynamic hp.
Proof.
  intros [K1 [K2 K3]] [_ [_ F]].
  assert (fsum (h_dynamic hp) + fsize hf < 2 ^ 32) as Hs.
  { change (2 ^ 31) with 2147483648 in *. change (2 ^ 32) with 4294967296. lia. }
  split; [|split; [exact (abs_add_dynamic hp hf Hs)|]].
  - rewrite (add_dynamic_fit hp hf Hs). unfold K. cbn [with_dynamic h_max h_max_settings h_dynamic].
    split; [exact K1|]. split; [exact K2|]. apply fsum_fit_le.
  - rewrite (add_dynamic_fit hp hf Hs). cbn. repeat split; reflexivity.
Qed.

(* ---- one field ---- *)

Record field_fact (hp : hpack_state) (hf : field) (store : bool) : Prop := mkFF {
  ff_bytes : fst (afield hp hf store) = spec_enc_repr (frepr hp hf store);
  ff_wf : repr_wf (frepr hp hf store);
  ff_canon : canon (frepr hp hf store) = frepr hp hf store;
  ff_step : forall a, spec_step (abs hp) a (frepr hp hf store)
                      = Some (Some (triple_of hf), abs (snd (afield hp hf store)));
  ff_K : K (snd (afield hp hf store));
  ff_max : h_max (snd (afield hp hf store)) = h_max hp;
  ff_pending : h_pending (snd (afield hp hf store)) = h_pending hp;
  ff_sens : f_sens hf = true -> is_never (frepr hp hf store);
  ff_update : is_update (frepr hp hf store) = false
}.

Lemma triple_eq hf s : f_sens hf = s -> (f_key hf, f_value hf, s) = triple_of hf.
Proof. intros <-. reflexivity. Qed.

Theorem field_step hp hf store : K hp -> fld_ok hf -> field_fact hp hf store.
Proof.
  intros HK Hf.
  pose proof (K_length hp HK) as Hlen.
  destruct (fld_ok_strs hf Hf) as [Hkey Hval].
  destruct (search hp hf) as [index fm] eqn:Es.
  pose proof (search_spec hp hf index fm Hlen Es) as Hhit.
  assert (index < 2 ^ 63) as Hidx.
  { destruct Hhit as [[_ [_ Hd]]|[Hs _]].
    - pose proof (dyn_hit_range _ _ _ Hlen Hd) as R. unfold c_maxIndex in R.
      pose proof (K_length_small hp HK) as Hsm.
      change (2 ^ 31) with 2147483648 in Hsm. change (2 ^ 63) with 9223372036854775808 in *. lia.
    - rewrite static_len_61 in Hs. change (2 ^ 63) with 9223372036854775808. lia. }
  assert (0 < index -> exists v, lookup (abs hp) index = Some (f_key hf, v) /\ (fm = true -> v = f_value hf)) as Hlook
    by (intros Hpos; exact (search_lookup hp hf index fm Hlen Es Hpos)).
  assert (fm = false -> index <? c_maxIndex = true) as Hstatic.
  { intros ->. pose proof (search_name_only_static hp hf index Hlen Es) as L.
    rewrite static_len_61 in L. apply N.ltb_lt. unfold c_maxIndex. lia. }
  destruct (K_add hp hf HK Hf) as [KA [AA [MA [PA _]]]].
  destruct (f_sens hf) eqn:Esens.
  { (* never indexed *)
    destruct (0 <? index) eqn:Epos.
    - pose proof (proj1 (N.ltb_lt _ _) Epos) as Hpos. destruct (Hlook Hpos) as [v0 [L _]].
      constructor; unfold afield, frepr, achoice; rewrite Es, Esens, Epos; cbn [fst snd N.eqb Pos.eqb negb mode_of_pattern].
      + apply (enc_lit_idx Never index false (f_value hf) Hidx Hval).
      + cbn [repr_wf]. split; [lia | exact Hval].
      + reflexivity.
      + intros a. rewrite (step_lit_idx _ a Never index false false (f_value hf) _ _ L).
        cbn [mode_sens mode_table]. rewrite (triple_eq hf true Esens). reflexivity.
      + exact HK.
      + reflexivity.
      + reflexivity.
      + intros _. eexists; eexists; eexists; eexists; reflexivity.
      + reflexivity.
    - constructor; unfold afield, frepr, achoice; rewrite Es, Esens, Epos; cbn [fst snd N.eqb Pos.eqb negb mode_of_pattern].
      + apply (enc_lit_name Never (f_key hf) false (f_value hf) Hkey Hval).
      + cbn [repr_wf]. split; assumption.
      + reflexivity.
      + intros a. rewrite step_lit_name. cbn [mode_sens mode_table]. rewrite (triple_eq hf true Esens). reflexivity.
      + exact HK.
      + reflexivity.
      + reflexivity.
      + intros _. eexists; eexists; eexists; eexists; reflexivity.
      + reflexivity. }
  destruct (0 <? index) eqn:Epos.
  - pose proof (proj1 (N.ltb_lt _ _) Epos) as Hpos. destruct (Hlook Hpos) as [v0 [L V]].
    destruct fm.
    + (* indexed *)
      rewrite (V eq_refl) in L.
      constructor; unfold afield, frepr, achoice; rewrite Es, Esens, Epos;
        cbn [fst snd N.eqb Pos.eqb negb mode_of_pattern].
      * apply (enc_indexed index Hidx).
      * exact Hidx.
      * reflexivity.
      * intros a. rewrite (step_indexed _ a index _ _ L). rewrite (triple_eq hf false Esens). reflexivity.
      * exact HK.
      * reflexivity.
      * reflexivity.
      * discriminate.
      * reflexivity.
    + destruct store.
      * (* incremental indexing, static name *)
        constructor; unfold afield, frepr, achoice; rewrite Es, Esens, (Hstatic eq_refl), Epos;
          cbn [fst snd N.eqb Pos.eqb negb mode_of_pattern].
        -- apply (enc_lit_idx Incremental index _ (f_value hf) Hidx Hval).
        -- cbn [repr_wf]. split; [lia | exact Hval].
        -- reflexivity.
        -- intros a. rewrite (step_lit_idx _ a Incremental index false _ (f_value hf) _ _ L).
           cbn [mode_sens mode_table]. rewrite (triple_eq hf false Esens), AA. reflexivity.
        -- exact KA.
        -- exact MA.
        -- exact PA.
        -- discriminate.
        -- reflexivity.
      * (* without indexing, static name *)
        constructor; unfold afield, frepr, achoice; rewrite Es, Esens, Epos;
          cbn [fst snd N.eqb Pos.eqb negb mode_of_pattern].
        -- apply (enc_lit_idx Without index _ (f_value hf) Hidx Hval).
        -- cbn [repr_wf]. split; [lia | exact Hval].
        -- reflexivity.
        -- intros a. rewrite (step_lit_idx _ a Without index false _ (f_value hf) _ _ L).
           cbn [mode_sens mode_table]. rewrite (triple_eq hf false Esens). reflexivity.
        -- exact HK.
        -- reflexivity.
        -- reflexivity.
        -- discriminate.
        -- reflexivity.
  - destruct (negb store || h_no_dynamic hp) eqn:Est.
    + (* without indexing, literal name *)
      constructor; unfold afield, frepr, achoice; rewrite Es, Esens, Epos, Est;
        cbn [fst snd N.eqb Pos.eqb negb mode_of_pattern].
      * apply (enc_lit_name Without (f_key hf) _ (f_value hf) Hkey Hval).
      * cbn [repr_wf]. split; assumption.
      * reflexivity.
      * intros a. rewrite step_lit_name. cbn [mode_sens mode_table]. rewrite (triple_eq hf false Esens). reflexivity.
      * exact HK.
      * reflexivity.
      * reflexivity.
      * discriminate.
      * reflexivity.
    + (* incremental indexing, literal name *)
      constructor; unfold afield, frepr, achoice; rewrite Es, Esens, Epos, Est;
        cbn [fst snd N.eqb Pos.eqb negb mode_of_pattern].
      * apply (enc_lit_name Incremental (f_key hf) _ (f_value hf) Hkey Hval).
      * cbn [repr_wf]. split; assumption.
      * reflexivity.
      * intros a. rewrite step_lit_name. cbn [mode_sens mode_table]. rewrite (triple_eq hf false Esens), AA. reflexivity.
      * exact KA.
      * exact MA.
      * exact PA.
      * discriminate.
      * reflexivity.
Qed.
