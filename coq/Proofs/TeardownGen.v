(* Proofs/TeardownGen.v -- blocking-structure model (Impl/Teardown.v), generic lemmas: wait cycles, leads-to under weak and strong fairness, concrete traces.
   Statements: Props/Teardown.v; overview: Proofs/TeardownProofs.v. *)
From Coq Require Import Arith Lia Bool List.
From RecordUpdate Require Import RecordSet.
Import RecordSetNotations.
Import ListNotations.
From H2V Require Import Impl.Teardown.

(* ---------------------------------------------------------------------------------------- *)
(** * Generic: ordered acquisition admits no wait cycle                                        *)
(* ---------------------------------------------------------------------------------------- *)
Section WaitCycleProofs.
  Context {Proc : Type}.
  Variable wants : Proc -> option nat.
  Variable holds : Proc -> nat -> Prop.

  Lemma chain_wants : forall l p q, wait_chain wants holds p l q -> exists m, wants p = Some m.
  Proof.
    intros l; destruct l as [|x l]; cbn; intros p q H.
    - destruct H as (m & H & _); eauto.
    - destruct H as ((m & H & _) & _); eauto.
  Qed.

  Lemma chain_increasing :
    ordered wants holds ->
    forall l p q m, wait_chain wants holds p l q -> wants p = Some m ->
      exists m', holds q m' /\ m <= m'.
  Proof.
    intros Ho; induction l as [|x l IH]; cbn; intros p q m H Hw.
    - destruct H as (m0 & H1 & H2). rewrite Hw in H1; inversion H1; subst. eauto.
    - destruct H as ((m0 & H1 & H2) & Hc). rewrite Hw in H1; inversion H1; subst m0.
      destruct (chain_wants _ _ _ Hc) as (mx & Hx).
      destruct (IH _ _ _ Hc Hx) as (m' & Hq & Hle).
      exists m'; split; auto. specialize (Ho _ _ _ Hx H2). lia.
  Qed.

  Theorem ordered_no_wait_cycle : ordered wants holds -> ~ wait_cycle wants holds.
  Proof.
    intros Ho (p & l & Hc).
    destruct (chain_wants _ _ _ Hc) as (m & Hw).
    destruct (chain_increasing Ho _ _ _ _ Hc Hw) as (m' & Hh & Hle).
    specialize (Ho _ _ _ Hw Hh). lia.
  Qed.
End WaitCycleProofs.

(* ---------------------------------------------------------------------------------------- *)
(** * Generic: leads-to under weak fairness                                                    *)
(* ---------------------------------------------------------------------------------------- *)
Section LeadsTo.
  Context {St Act : Type}.
  Variable guard : Act -> St -> Prop.
  Variable eff : Act -> St -> St.
  Variable r : run guard eff.
  Variable Inv : St -> Prop.
  Hypothesis Inv_run : forall i, Inv (st r i).

  Notation "P ~> Q" := (leadsto r P Q) (at level 70).

  Lemma run_step : forall i, st r (S i) = st r i \/ exists a, guard a (st r i) /\ st r (S i) = eff a (st r i).
  Proof.
    intros i. pose proof (run_ok _ _ r i) as H. destruct (lab r i); [right|left]; eauto.
  Qed.

  (* a set closed under every step (inside Inv) *)
  Definition stable (S : St -> Prop) : Prop :=
    forall s a, Inv s -> S s -> guard a s -> S (eff a s).

  Lemma stable_run : forall S, stable S -> forall i j, i <= j -> S (st r i) -> S (st r j).
  Proof.
    intros S HS i j Hij Hi. induction Hij; auto.
    destruct (run_step m) as [E|(a & G & E)]; rewrite E; auto.
  Qed.

  Lemma lt_refl : forall P, P ~> P.
  Proof. intros P i H; exists i; auto. Qed.

  Lemma lt_weaken : forall (P P' Q Q' : St -> Prop),
    P ~> Q -> (forall s, Inv s -> P' s -> P s) -> (forall s, Inv s -> Q s -> Q' s) -> P' ~> Q'.
  Proof.
    intros P P' Q Q' H HP HQ i Hi. destruct (H i (HP _ (Inv_run i) Hi)) as (j & Hj & Hq).
    exists j; split; auto.
  Qed.

  Lemma lt_trans : forall P Q R, P ~> Q -> Q ~> R -> P ~> R.
  Proof.
    intros P Q R H1 H2 i Hi. destruct (H1 i Hi) as (j & Hj & Hq).
    destruct (H2 j Hq) as (k & Hk & Hr). exists k; split; auto; lia.
  Qed.

  Lemma lt_or : forall P1 P2 Q, P1 ~> Q -> P2 ~> Q -> (fun s => P1 s \/ P2 s) ~> Q.
  Proof. intros P1 P2 Q H1 H2 i [H|H]; eauto. Qed.

  Lemma lt_stable : forall P Q S, P ~> Q -> stable S -> (fun s => P s /\ S s) ~> (fun s => Q s /\ S s).
  Proof.
    intros P Q S H HS i (Hp & Hs). destruct (H i Hp) as (j & Hj & Hq).
    exists j; repeat split; auto. eapply stable_run; eauto.
  Qed.

  (* well-founded induction on a variant *)
  Lemma lt_variant : forall (P Q : St -> Prop) (v : St -> nat),
    (forall n, (fun s => P s /\ v s = n) ~> (fun s => Q s \/ (P s /\ v s < n))) -> P ~> Q.
  Proof.
    intros P Q v H.
    assert (forall n i, P (st r i) -> v (st r i) < n -> exists j, i <= j /\ Q (st r j)) as K.
    { induction n; intros i Hp Hv; [lia|].
      destruct (H (v (st r i)) i (conj Hp eq_refl)) as (j & Hj & [Hq|(Hp' & Hv')]).
      - eauto.
      - destruct (IHn j Hp' ltac:(lia)) as (k & Hk & Hq). exists k; split; auto; lia. }
    intros i Hp. eapply K; eauto.
  Qed.

  (* the basic rule: while P holds the group G stays enabled, everybody's steps keep P or
     establish Q, and G's steps establish Q *)
  Lemma lt_ensures : forall (G : Act -> Prop) (P Q : St -> Prop),
    fair G r ->
    (forall s a, Inv s -> P s -> guard a s -> P (eff a s) \/ Q (eff a s)) ->
    (forall s a, Inv s -> P s -> G a -> guard a s -> Q (eff a s)) ->
    (forall s, Inv s -> P s -> exists a, G a /\ guard a s) ->
    P ~> Q.
  Proof.
    intros G P Q HF H1 H2 H3 i Hi.
    destruct (HF i) as (j & Hij & Hj).
    assert (forall k, i <= k -> k <= j -> (exists m, i <= m /\ Q (st r m)) \/ P (st r k)) as K.
    { intros k Hik. induction Hik; intros Hkj; auto.
      destruct IHHik as [?|Hp]; [lia|auto|].
      destruct (run_step m) as [E|(a & Ga & E)]; rewrite E; auto.
      destruct (H1 _ _ (Inv_run m) Hp Ga) as [?|Hq]; auto.
      left; exists (S m); split; [lia|]. rewrite E; auto. }
    destruct (K j Hij (le_n _)) as [?|Hp]; auto.
    destruct Hj as [Ht|Hd].
    - pose proof (run_ok _ _ r j) as Hr. unfold taken in Ht. destruct (lab r j) as [a|]; [|tauto].
      destruct Hr as (Ga & E). exists (S j); split; [lia|]. rewrite E. eapply H2; eauto.
    - destruct (H3 _ (Inv_run j) Hp) as (a & Ha & Ga). exfalso; eapply Hd; eauto.
  Qed.

  (* walking along the run while P holds "unless" Q *)
  Lemma walk_unless : forall (P Q : St -> Prop),
    (forall s a, Inv s -> P s -> guard a s -> P (eff a s) \/ Q (eff a s)) ->
    forall i j, i <= j -> P (st r i) -> (exists m, i <= m /\ m <= j /\ Q (st r m)) \/ P (st r j).
  Proof.
    intros P Q H1 i j Hij Hi. induction Hij; auto.
    destruct IHHij as [(m0 & ? & ? & ?)|Hp]; [left; exists m0; repeat split; auto|].
    destruct (run_step m) as [E|(a & Ga & E)]; rewrite E; auto.
    destruct (H1 _ _ (Inv_run m) Hp Ga) as [?|Hq]; auto.
    left; exists (S m); repeat split; auto. rewrite E; auto.
  Qed.

  (* P unless Q, and A leads to B: then from P /\ A either Q shows up or P is still there when B does *)
  Lemma lt_unless : forall (P Q A B : St -> Prop),
    (forall s a, Inv s -> P s -> guard a s -> P (eff a s) \/ Q (eff a s)) ->
    A ~> B -> (fun s => P s /\ A s) ~> (fun s => Q s \/ (P s /\ B s)).
  Proof.
    intros P Q A B H1 HAB i (Hp & Ha). destruct (HAB i Ha) as (j & Hj & Hb).
    destruct (walk_unless P Q H1 i j Hj Hp) as [(m & ? & ? & ?)|Hp'].
    - exists m; auto.
    - exists j; auto.
  Qed.

  Lemma sfair_fair : forall G, sfair G r -> fair G r.
  Proof.
    intros G H i. destruct (H i) as [(j & Hj & Ht)|(j & Hj & Hd)]; exists j; split; auto.
  Qed.

  (* the rule for strong fairness: the group need not stay enabled, it only has to become
     enabled again and again for as long as P lasts *)
  Lemma lt_ensures_s : forall (G : Act -> Prop) (P Q : St -> Prop),
    sfair G r ->
    (forall s a, Inv s -> P s -> guard a s -> P (eff a s) \/ Q (eff a s)) ->
    (forall s a, Inv s -> P s -> G a -> guard a s -> Q (eff a s)) ->
    P ~> (fun s => Q s \/ exists a, G a /\ guard a s) ->
    P ~> Q.
  Proof.
    intros G P Q HF H1 H2 H3 i Hi.
    destruct (HF i) as [(j & Hij & Ht)|(j & Hij & Hd)].
    - destruct (walk_unless P Q H1 i j Hij Hi) as [(m & ? & ? & ?)|Hp]; [exists m; auto|].
      pose proof (run_ok _ _ r j) as Hr. unfold taken in Ht. destruct (lab r j) as [a|]; [|tauto].
      destruct Hr as (Ga & E). exists (S j); split; [lia|]. rewrite E. eapply H2; eauto.
    - destruct (walk_unless P Q H1 i j Hij Hi) as [(m & ? & ? & ?)|Hp]; [exists m; auto|].
      destruct (H3 j Hp) as (k & Hk & [Hq|(a & Ga & Gd)]).
      + exists k; split; auto; lia.
      + exfalso. eapply (Hd k Hk); eauto.
  Qed.
End LeadsTo.

Lemma reach_run : forall {St Act} (guard : Act -> St -> Prop) eff init (r : run guard eff),
  reach guard eff init (st r 0) -> forall i, reach guard eff init (st r i).
Proof.
  intros. induction i; auto.
  destruct (run_step guard eff r i) as [E|(a & G & E)]; rewrite E; auto.
  apply reach_step; auto.
Qed.

Lemma path_length_rank : forall {St Act} (guard : Act -> St -> Prop) eff (ok : Act -> Prop)
  (P : St -> Prop) (rank : St -> nat),
  (forall s a, P s -> guard a s -> P (eff a s)) ->
  (forall s a, P s -> ok a -> guard a s -> rank (eff a s) < rank s) ->
  forall s l s', P s -> path guard eff ok s l s' -> length l + rank s' <= rank s.
Proof.
  intros St Act guard eff ok P rank HP Hr s l s' Hs Hp. induction Hp; cbn; [lia|].
  specialize (IHHp (HP _ _ Hs H0)). specialize (Hr _ _ Hs H H0). lia.
Qed.

Lemma path_reach : forall {St Act} (guard : Act -> St -> Prop) eff init ok s l s',
  reach guard eff init s -> path guard eff ok s l s' -> reach guard eff init s'.
Proof. intros. induction H0; auto. apply IHpath. apply reach_step; auto. Qed.

(* ---------------------------------------------------------------------------------------- *)
(** * Generic: concrete traces                                                                 *)
(* ---------------------------------------------------------------------------------------- *)
Section Traces.
  Context {St Act : Type}.
  Variable guard : Act -> St -> Prop.
  Variable eff : Act -> St -> St.
  Variable init : St -> Prop.

  Fixpoint run_acts (l : list Act) (s : St) : St :=
    match l with [] => s | a :: l' => run_acts l' (eff a s) end.
  Fixpoint guards (l : list Act) (s : St) : Prop :=
    match l with [] => True | a :: l' => guard a s /\ guards l' (eff a s) end.

  Lemma reach_acts : forall l s, reach guard eff init s -> guards l s ->
    reach guard eff init (run_acts l s).
  Proof.
    induction l; cbn; intros s R G; auto. destruct G. apply IHl; auto. apply reach_step; auto.
  Qed.

  Lemma guards_cons_intro : forall a l s s',
    guard a s -> s' = eff a s -> guards l s' -> guards (a :: l) s.
  Proof. intros; subst; split; auto. Qed.

  Definition const_run (s : St) : run guard eff.
  Proof. refine {| st := fun _ => s; lab := fun _ => None |}. intros; reflexivity. Defined.
End Traces.

Ltac norm_eq :=
  match goal with |- ?x = ?rhs => let v := eval cbv -[Init.Nat.pred Init.Nat.add] in rhs in unify x v; reflexivity end.
Ltac guards_tac :=
  repeat first [ exact I
               | eapply guards_cons_intro;
                 [solve [cbn; repeat split; eauto; try lia; try discriminate] | norm_eq | ] ].
