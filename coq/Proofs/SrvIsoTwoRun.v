(* Proofs/SrvIsoTwoRun.v - C09 (c): the two-run ("relational") invariant behind non-interference.

   sc_currentWindow (the connection receive window the server still has to announce) is read by ONE function of the
   model, credit_conn_window, and all it decides there is whether a connection-level WINDOW_UPDATE (OWinUpd 0 _) is
   queued now or later. sc_out is never read. So two states that agree on every field but these two, and whose outputs
   agree once the connection-level WINDOW_UPDATEs are struck out (relation R), are taken by every function of the
   model - hence by every step, with the same event - to two states in the same relation. *)
From H2V Require Import Base.Bytes Base.MachineInt Base.Result Gen.GenConsts Impl.ServerConn Proofs.SrvBase
  Proofs.SrvIsoMoves Proofs.SrvIsoSteps Proofs.SrvIsoRun Proofs.SrvIsoTwoRunOdd.
From Coq Require Import ZArith Lia ZifyN ZifyNat ZifyBool.
Local Open Scope N_scope.

(* connection-level WINDOW_UPDATE, sent or queued late *)
Definition conn_winupd (o : outev) : bool :=
  match o with
  | OWinUpd s _ => s =? 0
  | OLate (OWinUpd s _) => s =? 0
  | _ => false
  end.
Definition keep (o : outev) : bool := negb (conn_winupd o).
Definition filt (l : list outev) : list outev := filter keep l.

Lemma filt_cons_keep o l : keep o = true -> filt (o :: l) = o :: filt l.
Proof. intro K. unfold filt. cbn [filter]. rewrite K. reflexivity. Qed.
Lemma filt_cons_drop o l : keep o = false -> filt (o :: l) = filt l.
Proof. intro K. unfold filt. cbn [filter]. rewrite K. reflexivity. Qed.
Lemma filt_cons_congr o l l' : filt l = filt l' -> filt (o :: l) = filt (o :: l').
Proof. intro E. unfold filt in *. cbn [filter]. rewrite E. reflexivity. Qed.

(* `about_stream g o`: the output o is a frame, a dispatch or a release of stream g *)
Definition about_stream (g : N) (o : outev) : bool :=
  match o with
  | OHeaders s _ _ | OData s _ _ | ORst s _ | ODispatch s _ | ORelease s _ => s =? g
  | OWinUpd s _ => s =? g
  | _ => false
  end.

Lemma about_filt g l : g <> 0 -> filter (about_stream g) (filt l) = filter (about_stream g) l.
Proof.
  intro NZ. induction l as [|o l IH]; [reflexivity|].
  unfold filt in *. cbn [filter]. destruct (keep o) eqn:K.
  - cbn [filter]. rewrite IH. reflexivity.
  - rewrite IH. replace (about_stream g o) with false; [reflexivity|].
    unfold keep in K. destruct o as [| | | |s i| | | | | |o|]; try discriminate K.
    + cbn in K |- *. destruct (s =? 0) eqn:E; [|discriminate K]. apply N.eqb_eq in E. subst s. symmetry. apply N.eqb_neq. lia.
    + reflexivity.
Qed.

Lemma filter_rev_ni {A} (f : A -> bool) l : filter f (rev l) = rev (filter f l).
Proof.
  induction l as [|x l IH]; [reflexivity|]. cbn [rev filter]. rewrite filter_app, IH. cbn [filter].
  destruct (f x); [reflexivity | rewrite app_nil_r; reflexivity].
Qed.

Create HintDb rr.

Section TwoRun.
Variable hstate : Type.
Variable dec_field : hstate -> N -> bytes -> dec_res hstate.
Variable enc_field : hstate -> bytes -> bytes -> bool -> bytes * hstate.
Variable enc_set_max : hstate -> N -> hstate.
Variable cfg : config.
Notation sconn := (sconn hstate).
Implicit Types c : sconn.

Record R (c c' : sconn) : Prop := mkR {
  R_strms : sc_strms c = sc_strms c';
  R_gone : sc_gone c = sc_gone c';
  R_open : sc_open c = sc_open c';
  R_initWin : sc_initWin c = sc_initWin c';
  R_ring : sc_ring c = sc_ring c';
  R_oldest : sc_oldest c = sc_oldest c';
  R_lastID : sc_lastID c = sc_lastID c';
  R_highestID : sc_highestID c = sc_highestID c';
  R_clientWindow : sc_clientWindow c = sc_clientWindow c';
  R_enc : sc_enc c = sc_enc c';
  R_dec : sc_dec c = sc_dec c';
  R_closing : sc_closing c = sc_closing c';
  R_closeRef : sc_closeRef c = sc_closeRef c';
  R_expectCont : sc_expectCont c = sc_expectCont c';
  R_readerQ : sc_readerQ c = sc_readerQ c';
  R_rl_done : sc_rl_done c = sc_rl_done c';
  R_sl_done : sc_sl_done c = sc_sl_done c';
  R_closer : sc_closer c = sc_closer c';
  R_wl_dead : sc_wl_dead c = sc_wl_dead c';
  R_now : sc_now c = sc_now c';
  R_discardID : sc_discardID c = sc_discardID c';
  R_discardPrev : sc_discardPrev c = sc_discardPrev c';
  R_discardFields : sc_discardFields c = sc_discardFields c';
  R_out : filt (sc_out c) = filt (sc_out c') }.

Ltac Rrw H := rewrite <- ?(R_strms _ _ H), <- ?(R_gone _ _ H), <- ?(R_open _ _ H), <- ?(R_initWin _ _ H), <- ?(R_ring _ _ H), <- ?(R_oldest _ _ H), <- ?(R_lastID _ _ H), <- ?(R_highestID _ _ H), <- ?(R_clientWindow _ _ H), <- ?(R_enc _ _ H), <- ?(R_dec _ _ H), <- ?(R_closing _ _ H), <- ?(R_closeRef _ _ H), <- ?(R_expectCont _ _ H), <- ?(R_readerQ _ _ H), <- ?(R_rl_done _ _ H), <- ?(R_sl_done _ _ H), <- ?(R_closer _ _ H), <- ?(R_wl_dead _ _ H), <- ?(R_now _ _ H), <- ?(R_discardID _ _ H), <- ?(R_discardPrev _ _ H), <- ?(R_discardFields _ _ H).
Ltac Rrw_in H K := rewrite <- ?(R_strms _ _ H), <- ?(R_gone _ _ H), <- ?(R_open _ _ H), <- ?(R_initWin _ _ H), <- ?(R_ring _ _ H), <- ?(R_oldest _ _ H), <- ?(R_lastID _ _ H), <- ?(R_highestID _ _ H), <- ?(R_clientWindow _ _ H), <- ?(R_enc _ _ H), <- ?(R_dec _ _ H), <- ?(R_closing _ _ H), <- ?(R_closeRef _ _ H), <- ?(R_expectCont _ _ H), <- ?(R_readerQ _ _ H), <- ?(R_rl_done _ _ H), <- ?(R_sl_done _ _ H), <- ?(R_closer _ _ H), <- ?(R_wl_dead _ _ H), <- ?(R_now _ _ H), <- ?(R_discardID _ _ H), <- ?(R_discardPrev _ _ H), <- ?(R_discardFields _ _ H) in K.

Lemma R_refl c : R c c.
Proof. constructor; reflexivity. Qed.
Lemma R_sym c c' : R c c' -> R c' c.
Proof. intros []. constructor; congruence. Qed.
Lemma R_trans a b c : R a b -> R b c -> R a c.
Proof. intros [] []. constructor; congruence. Qed.

Ltac R_upd := intros H; destruct H; constructor; sc_cbn; congruence.
Lemma R_upd_strms c c' l : R c c' -> R (upd_strms c l) (upd_strms c' l). Proof. R_upd. Qed.
Lemma R_upd_gone c c' l : R c c' -> R (upd_gone c l) (upd_gone c' l). Proof. R_upd. Qed.
Lemma R_upd_open c c' n : R c c' -> R (upd_open c n) (upd_open c' n). Proof. R_upd. Qed.
Lemma R_upd_initWin c c' n : R c c' -> R (upd_initWin c n) (upd_initWin c' n). Proof. R_upd. Qed.
Lemma R_upd_lastID c c' n : R c c' -> R (upd_lastID c n) (upd_lastID c' n). Proof. R_upd. Qed.
Lemma R_upd_highestID c c' n : R c c' -> R (upd_highestID c n) (upd_highestID c' n). Proof. R_upd. Qed.
Lemma R_upd_clientWindow c c' n : R c c' -> R (upd_clientWindow c n) (upd_clientWindow c' n). Proof. R_upd. Qed.
Lemma R_upd_enc c c' h : R c c' -> R (upd_enc c h) (upd_enc c' h). Proof. R_upd. Qed.
Lemma R_upd_dec c c' h : R c c' -> R (upd_dec c h) (upd_dec c' h). Proof. R_upd. Qed.
Lemma R_upd_expectCont c c' n : R c c' -> R (upd_expectCont c n) (upd_expectCont c' n). Proof. R_upd. Qed.
Lemma R_upd_readerQ c c' q : R c c' -> R (upd_readerQ c q) (upd_readerQ c' q). Proof. R_upd. Qed.
Lemma R_upd_closer c c' b : R c c' -> R (upd_closer c b) (upd_closer c' b). Proof. R_upd. Qed.
Lemma R_upd_wl_dead c c' b : R c c' -> R (upd_wl_dead c b) (upd_wl_dead c' b). Proof. R_upd. Qed.
Lemma R_upd_now c c' t : R c c' -> R (upd_now c t) (upd_now c' t). Proof. R_upd. Qed.
Lemma R_upd_ring c c' r o : R c c' -> R (upd_ring c r o) (upd_ring c' r o). Proof. R_upd. Qed.
Lemma R_upd_closing c c' b r : R c c' -> R (upd_closing c b r) (upd_closing c' b r). Proof. R_upd. Qed.
Lemma R_upd_done c c' a b : R c c' -> R (upd_done c a b) (upd_done c' a b). Proof. R_upd. Qed.
Lemma R_upd_discard c c' i p n : R c c' -> R (upd_discard c i p n) (upd_discard c' i p n). Proof. R_upd. Qed.
Lemma R_upd_currentWindow c c' w w' : R c c' -> R (upd_currentWindow c w) (upd_currentWindow c' w'). Proof. R_upd. Qed.
Lemma R_upd_out c c' o o' : R c c' -> filt o = filt o' -> R (upd_out c o) (upd_out c' o'). Proof. intros H E; destruct H; constructor; sc_cbn; congruence. Qed.
Hint Resolve R_upd_strms R_upd_gone R_upd_open R_upd_initWin R_upd_lastID R_upd_highestID R_upd_clientWindow R_upd_enc R_upd_dec R_upd_expectCont R_upd_readerQ R_upd_closer R_upd_wl_dead R_upd_now R_upd_ring R_upd_closing R_upd_done R_upd_discard R_upd_currentWindow : rr.

(* ---------- results with a connection in front ---------- *)
Definition R2 {A : Type} (p p' : sconn * A) : Prop := R (fst p) (fst p') /\ snd p = snd p'.
Definition R3 {A B : Type} (p p' : sconn * A * B) : Prop :=
  R (fst (fst p)) (fst (fst p')) /\ snd (fst p) = snd (fst p') /\ snd p = snd p'.
Definition R4 {A B C : Type} (p p' : sconn * A * B * C) : Prop :=
  R (fst (fst (fst p))) (fst (fst (fst p'))) /\ snd (fst (fst p)) = snd (fst (fst p')) /\
  snd (fst p) = snd (fst p') /\ snd p = snd p'.

Lemma R2_mk {A : Type} c c' (a : A) : R c c' -> R2 (c, a) (c', a).
Proof. intro H. split; [exact H | reflexivity]. Qed.
Lemma R3_mk {A B : Type} c c' (a : A) (b : B) : R c c' -> R3 (c, a, b) (c', a, b).
Proof. intro H. split; [exact H | split; reflexivity]. Qed.
Lemma R4_mk {A B C : Type} c c' (a : A) (b : B) (d : C) : R c c' -> R4 (c, a, b, d) (c', a, b, d).
Proof. intro H. split; [exact H | repeat split; reflexivity]. Qed.
Hint Resolve R2_mk R3_mk R4_mk R_refl : rr.

(* ---------- emit / note ---------- *)
Lemma R_emit c c' o : R c c' -> R (emit c o) (emit c' o).
Proof.
  intro H. unfold emit. Rrw H. destruct (sc_wl_dead c); [exact H|].
  destruct (sc_sl_done c); apply R_upd_out; try exact H; apply filt_cons_congr, (R_out _ _ H).
Qed.
Lemma R_note c c' o : R c c' -> R (note c o) (note c' o).
Proof. intro H. unfold note. apply R_upd_out; [exact H|]. apply filt_cons_congr, (R_out _ _ H). Qed.

(* a connection-level WINDOW_UPDATE on one side only *)
Lemma R_emit_l c c' x : R c c' -> R (emit c (OWinUpd 0 x)) c'.
Proof.
  intro H. unfold emit. destruct (sc_wl_dead c); [exact H|].
  destruct (sc_sl_done c); (eapply R_trans; [|exact H]); (eapply R_trans; [apply R_upd_out; [apply R_refl|] | ]).
  - apply filt_cons_drop. reflexivity.
  - destruct c; constructor; reflexivity.
  - apply filt_cons_drop. reflexivity.
  - destruct c; constructor; reflexivity.
Qed.
Lemma R_emit_wu c c' x x' : R c c' -> R (emit c (OWinUpd 0 x)) (emit c' (OWinUpd 0 x')).
Proof. intro H. apply R_emit_l. apply R_sym. apply R_emit_l. apply R_sym. exact H. Qed.
Hint Resolve R_emit R_note : rr.

Lemma R_credit_conn_window c c' n : R c c' -> R (credit_conn_window cfg c n) (credit_conn_window cfg c' n).
Proof.
  intro H. unfold credit_conn_window, write_window_update. destruct (n <=? 0)%Z; [exact H|].
  destruct (_ <? _)%Z; destruct (_ <? _)%Z.
  - apply R_emit_wu. apply R_upd_currentWindow, H.
  - apply R_emit_l. apply R_upd_currentWindow, H.
  - apply R_sym. apply R_emit_l. apply R_upd_currentWindow, R_sym, H.
  - apply R_upd_currentWindow, H.
Qed.
Hint Resolve R_credit_conn_window : rr.

(* ---------- observers ---------- *)
Lemma R_in_ring c c' id : R c c' -> in_ring c' id = in_ring c id.
Proof. intro H. unfold in_ring. Rrw H. reflexivity. Qed.
Lemma R_ring_find c c' id : R c c' -> ring_find c' id = ring_find c id.
Proof. intro H. unfold ring_find. Rrw H. reflexivity. Qed.
Lemma R_can_close c c' : R c c' -> can_close_after_goaway c' = can_close_after_goaway c.
Proof. intro H. unfold can_close_after_goaway. Rrw H. reflexivity. Qed.

(* destructing related results *)
Ltac R2_destr L :=
  let P := fresh "P" in pose proof L as P;
  match type of P with
  | R2 ?a ?b => let H1 := fresh "H" in destruct a as [? ?], b as [? ?]; destruct P as [H1 P]; cbn [fst snd] in H1, P; subst
  | R3 ?a ?b => let H1 := fresh "H" in let P2 := fresh "P" in
                destruct a as [[? ?] ?], b as [[? ?] ?]; destruct P as (H1 & P & P2); cbn [fst snd] in H1, P, P2; subst
  | R4 ?a ?b => let H1 := fresh "H" in let P2 := fresh "P" in let P3 := fresh "P" in
                destruct a as [[[? ?] ?] ?], b as [[[? ?] ?] ?]; destruct P as (H1 & P & P2 & P3); cbn [fst snd] in H1, P, P2, P3; subst
  end.

(* ---------- small functions ---------- *)
Lemma R_mark_closed c c' id w : R c c' -> R (mark_closed c id w) (mark_closed c' id w).
Proof.
  intro H. unfold mark_closed. rewrite (R_in_ring _ _ id H). Rrw H. destruct (in_ring c id); [exact H|].
  destruct (_ <? _); auto with rr.
Qed.
Lemma R_release_stream c c' s : R c c' -> R (release_stream c s) (release_stream c' s).
Proof. intro H. unfold release_stream. Rrw H. destruct (fkind_eqb _ _); auto with rr. Qed.
Hint Resolve R_mark_closed R_release_stream : rr.

Lemma R_close_stream c c' s : R c c' -> R (close_stream c s) (close_stream c' s).
Proof.
  intro H. unfold close_stream.
  pose proof (R_mark_closed _ _ (st_id s) (st_weReset s) H) as H1.
  set (c1 := mark_closed c _ _) in *. set (c1' := mark_closed c' _ _) in *. cbv zeta. sc_cbn. Rrw H1.
  destruct (_ && _ && _)%bool; destruct (st_handlerRunning _); sc_cbn; Rrw H1; auto with rr.
Qed.
Lemma R_write_reset c c' sid code : R c c' -> R (write_reset c sid code) (write_reset c' sid code).
Proof. intro H. unfold write_reset. auto with rr. Qed.
Lemma R_write_window_update c c' sid inc : R c c' -> R (write_window_update c sid inc) (write_window_update c' sid inc).
Proof. intro H. unfold write_window_update. auto with rr. Qed.
Lemma R_write_goaway c c' sid code : R c c' -> R (write_goaway c sid code) (write_goaway c' sid code).
Proof. intro H. unfold write_goaway. Rrw H. auto with rr. Qed.
Hint Resolve R_close_stream R_write_reset R_write_window_update R_write_goaway : rr.
Lemma R_write_error c c' s e : R c c' -> R2 (write_error c s e) (write_error c' s e).
Proof. intro H. unfold write_error. destruct e, s; auto with rr. Qed.
Lemma R_consume_recv_window c c' s fr n : R c c' -> R (consume_recv_window cfg c s fr n) (consume_recv_window cfg c' s fr n).
Proof. intro H. unfold consume_recv_window. destruct (_ <=? _)%Z; [exact H|]. destruct (flag_has _ _); auto with rr. Qed.
Lemma R_put c c' x : R c c' -> R (put c x) (put c' x).
Proof. intro H. unfold put. Rrw H. auto with rr. Qed.
Hint Resolve R_write_error R_consume_recv_window R_put : rr.
Lemma R_brk c c' : R c c' -> R2 (brk c) (brk c').
Proof. intro H. unfold brk. Rrw H. auto with rr. Qed.
Lemma R_cont c c' : R c c' -> R2 (cont c) (cont c').
Proof. intro H. unfold cont. auto with rr. Qed.
Hint Resolve R_brk R_cont : rr.

(* ---------- header blocks ---------- *)
Lemma R_discard_fragment c c' id fragment eh :
  R c c' -> R2 (discard_fragment dec_field cfg c id fragment eh) (discard_fragment dec_field cfg c' id fragment eh).
Proof.
  intro H. unfold discard_fragment. Rrw H.
  destruct (discard_loop _ _ _ _ _ _) as [[[d' fields] carry] e].
  destruct e; [auto with rr|]. destruct eh; [auto with rr|]. destruct (_ && _)%bool; auto with rr.
Qed.
Hint Resolve R_discard_fragment : rr.
Lemma R_discard_header_block c c' fr :
  R c c' -> R2 (discard_header_block dec_field cfg c fr) (discard_header_block dec_field cfg c' fr).
Proof. intro H. unfold discard_header_block. Rrw H. destruct (fkind_eqb _ _); auto with rr. Qed.
Hint Resolve R_discard_header_block : rr.

Lemma R_handle_header_frame c c' s fr :
  R c c' -> R3 (handle_header_frame dec_field cfg c s fr) (handle_header_frame dec_field cfg c' s fr).
Proof.
  intro H. unfold handle_header_frame.
  destruct (_ && _)%bool; [auto with rr|]. destruct (_ && _)%bool; [auto with rr|].
  cbv zeta. Rrw H. destruct (header_loop _ _ _ _ _ _ _) as [[[d' h2] e] rest].
  destruct e as [[code|code|]|].
  - auto with rr.
  - sc_cbn. Rrw H.
    R2_destr (R_discard_fragment (upd_discard (upd_dec c d') (sc_discardID c) [] (hd_blockFields h2 + 1))
                (upd_discard (upd_dec c' d') (sc_discardID c) [] (hd_blockFields h2 + 1)) (st_id s) rest
                (flag_has (sf_flags fr) FL_EH) ltac:(auto with rr)).
    destruct o0; auto with rr.
  - auto with rr.
  - destruct (_ && _)%bool; auto with rr.
Qed.
Hint Resolve R_handle_header_frame : rr.

Lemma R_handle_frame c c' s fr :
  R c c' -> R3 (handle_frame dec_field cfg c s fr) (handle_frame dec_field cfg c' s fr).
Proof.
  intro H. unfold handle_frame. destruct (verify_state s fr); [auto with rr|].
  destruct (sf_kind fr); try solve [repeat (match goal with |- context [if ?b then _ else _] => destruct b end); auto with rr].
  - destruct (_ && _)%bool; [auto with rr|]. R2_destr (R_handle_header_frame _ _ s fr H).
    repeat (match goal with |- context [if ?b then _ else _] => destruct b | |- context [match ?b with Some _ => _ | None => _ end] => destruct b end); auto with rr.
  - destruct (_ && _)%bool; [auto with rr|]. R2_destr (R_handle_header_frame _ _ s fr H).
    repeat (match goal with |- context [if ?b then _ else _] => destruct b | |- context [match ?b with Some _ => _ | None => _ end] => destruct b end); auto with rr.
Qed.
Hint Resolve R_handle_frame : rr.

(* ---------- sending ---------- *)
Lemma R_send_data_loop fuel : forall c c' sid n, R c c' -> R4 (send_data_loop fuel c sid n) (send_data_loop fuel c' sid n).
Proof.
  induction fuel as [|fuel IH]; intros c c' sid n H; cbn [send_data_loop]; [auto with rr|].
  cbv zeta.
  assert (G : forall n1 : sendst, sn_pending n1 <> [] ->
    R4 (if (zmin (sn_window n1) (sc_clientWindow c) <=? 0)%Z then (c, n1, false, false)
        else
          let step := zmin (zmin (Z.of_N maxDataFrameSize) (zmin (sn_window n1) (sc_clientWindow c))) (Z.of_N (len (sn_pending n1))) in
          let chunk := takeN (Z.to_N step) (sn_pending n1) in
          let rest := dropN (Z.to_N step) (sn_pending n1) in
          let e := sn_pendingEnd n1 && match rest with [] => true | _ => false end in
          let c1 := emit c (OData sid e chunk) in
          let c2 := upd_clientWindow c1 (sc_clientWindow c1 - step) in
          let n' := mkSnd (sn_window n1 - step) rest (sn_pendingEnd n1) (sn_bodyStream n1) (sn_bodySize n1) (sn_bodyRead n1) in
          if e then (c2, n', true, false) else send_data_loop fuel c2 sid n')
       (if (zmin (sn_window n1) (sc_clientWindow c') <=? 0)%Z then (c', n1, false, false)
        else
          let step := zmin (zmin (Z.of_N maxDataFrameSize) (zmin (sn_window n1) (sc_clientWindow c'))) (Z.of_N (len (sn_pending n1))) in
          let chunk := takeN (Z.to_N step) (sn_pending n1) in
          let rest := dropN (Z.to_N step) (sn_pending n1) in
          let e := sn_pendingEnd n1 && match rest with [] => true | _ => false end in
          let c1 := emit c' (OData sid e chunk) in
          let c2 := upd_clientWindow c1 (sc_clientWindow c1 - step) in
          let n' := mkSnd (sn_window n1 - step) rest (sn_pendingEnd n1) (sn_bodyStream n1) (sn_bodySize n1) (sn_bodyRead n1) in
          if e then (c2, n', true, false) else send_data_loop fuel c2 sid n')).
  { intros n1 _. cbv zeta. rewrite !sc_clientWindow_emit. Rrw H.
    destruct (_ <=? 0)%Z; [auto with rr|]. destruct (_ && _)%bool; [auto with rr|]. apply IH. auto with rr. }
  destruct (sn_pending n) eqn:EP.
  - destruct (sn_bodyStream n); [|auto with rr]. destruct (refill_pending n) as [n1|]; [|auto with rr].
    destruct (sn_pending n1) eqn:EP1.
    + destruct (sn_pendingEnd n1); auto with rr.
    + rewrite <- EP1. apply G. congruence.
  - rewrite <- EP. apply G. congruence.
Qed.
Hint Resolve R_send_data_loop : rr.

Lemma R_send_data c c' s : R c c' -> R3 (send_data c s) (send_data c' s).
Proof.
  intro H. unfold send_data. R2_destr (R_send_data_loop (send_data_fuel (get_snd s)) c c' (st_id s) (get_snd s) H).
  auto with rr.
Qed.
Hint Resolve R_send_data : rr.

Lemma R_finish_request c c' s r : R c c' -> R3 (finish_request enc_field c s r) (finish_request enc_field c' s r).
Proof.
  intro H. unfold finish_request. Rrw H. destruct (response_block _ _ _) as [blk e'].
  destruct (negb _); auto with rr.
Qed.
Hint Resolve R_finish_request : rr.

Lemma R_flush_loop ids : forall c c' done, R c c' -> R2 (flush_loop c ids done) (flush_loop c' ids done).
Proof.
  induction ids as [|id t IH]; intros c c' done H; cbn [flush_loop]; [auto with rr|].
  Rrw H. destruct (strms_search _ _) as [s|]; [|auto]. destruct (_ && _ && _)%bool; [|auto].
  R2_destr (R_send_data c c' s H). apply IH. auto with rr.
Qed.
Lemma R_close_all ids : forall c c', R c c' -> R (close_all c ids) (close_all c' ids).
Proof.
  induction ids as [|id t IH]; intros c c' H; cbn [close_all]; [exact H|].
  Rrw H. destruct (strms_search _ _) as [s|]; auto with rr.
Qed.
Lemma R_flush_streams c c' : R c c' -> R (flush_streams c) (flush_streams c').
Proof.
  intro H. unfold flush_streams. Rrw H. R2_destr (R_flush_loop (map st_id (sc_strms c)) c c' [] H).
  apply R_close_all. assumption.
Qed.
Hint Resolve R_flush_streams R_close_all : rr.

Lemma R_implicit_close fuel : forall c c' sid, R c c' -> R (implicit_close fuel c sid) (implicit_close fuel c' sid).
Proof.
  induction fuel as [|fuel IH]; intros c c' sid H; cbn [implicit_close]; [exact H|].
  Rrw H. destruct (sc_strms c) as [|n t]; [exact H|]. destruct (_ && _ && _)%bool; [|exact H].
  apply IH. auto with rr.
Qed.
Hint Resolve R_implicit_close : rr.

Lemma R_brk_if (b : bool) c c' : R c c' -> R2 (if b then brk c else cont c) (if b then brk c' else cont c').
Proof. intro H. destruct b; auto with rr. Qed.

Lemma R_after_frame c c' s fr wc : R c c' -> R2 (after_frame cfg c s fr wc) (after_frame cfg c' s fr wc).
Proof.
  intro H. unfold after_frame. cbv zeta.
  assert (T : forall (p p' : sconn * stream), R2 p p' ->
    R2 (let '(c2, s2) := p in
        let c3 := if sstate_eqb (st_state s2) SClosed then close_stream (put c2 s2) s2 else put c2 s2 in
        if wc && can_close_after_goaway c3 then brk c3 else cont c3)
       (let '(c2, s2) := p' in
        let c3 := if sstate_eqb (st_state s2) SClosed then close_stream (put c2 s2) s2 else put c2 s2 in
        if wc && can_close_after_goaway c3 then brk c3 else cont c3)).
  { intros [c2 s2] [c2' s2'] [H2 E]. cbn [fst snd] in H2, E. subst s2'. cbv zeta.
    assert (H3 : R (if sstate_eqb (st_state s2) SClosed then close_stream (put c2 s2) s2 else put c2 s2)
                   (if sstate_eqb (st_state s2) SClosed then close_stream (put c2' s2) s2 else put c2' s2))
      by (destruct (sstate_eqb _ _); auto with rr).
    rewrite (R_can_close _ _ H3). apply R_brk_if, H3. }
  apply T.
  destruct (_ && _ && _)%bool.
  - destruct (_ && _)%bool; auto with rr.
  - destruct (_ && _ && _)%bool; [|auto with rr].
    R2_destr (R_send_data c c' (handle_state fr s) H). auto with rr.
Qed.
Hint Resolve R_after_frame : rr.

Lemma R_discard_or_break (p p' : sconn * option h2err) : R2 p p' -> R2 (discard_or_break p) (discard_or_break p').
Proof.
  intros H. destruct p as [c1 e], p' as [c1' e']. destruct H as [H E]. cbn [fst snd] in H, E. subst e'.
  unfold discard_or_break. destruct e as [[code|code|]|]; auto with rr.
  - apply R_brk. pose proof (R_write_error _ _ None (EGoAway code) H) as [K _]. exact K.
  - apply R_brk. pose proof (R_write_error _ _ None (EReset code) H) as [K _]. exact K.
Qed.
Hint Resolve R_discard_or_break : rr.

(* ---------- the stream loop ---------- *)
Lemma R_ftail_rest c c' s e fr wc : R c c' -> R2 (ftail_rest cfg c s e fr wc) (ftail_rest cfg c' s e fr wc).
Proof.
  intro H. unfold ftail_rest. destruct e as [e|]; [|auto with rr].
  R2_destr (R_write_error c c' (Some s) e H).
  destruct e as [code|code|]; [destruct (negb _)| |]; auto with rr.
Qed.
Lemma R_ftail c c' s fr wc : R c c' -> R2 (ftail dec_field cfg c s fr wc) (ftail dec_field cfg c' s fr wc).
Proof. intro H. unfold ftail. R2_destr (R_handle_frame c c' s fr H). apply R_ftail_rest. assumption. Qed.
Lemma R_fwork c c' s fr wc : R c c' -> R2 (fwork dec_field cfg c s fr wc) (fwork dec_field cfg c' s fr wc).
Proof.
  intro H. unfold fwork. cbv zeta. Rrw H. destruct (fkind_eqb _ _); [|apply R_ftail, H].
  destruct (get_previous_headers _) as [p|].
  - destruct (negb _).
    + R2_destr (R_write_error c c' (Some p) (EGoAway c_ProtocolError) H). destruct o0; auto with rr.
    + apply R_ftail. auto with rr.
  - apply R_ftail. auto with rr.
Qed.
Hint Resolve R_fwork : rr.

Lemma R_sl_frame c c' fr :
  R c c' -> R2 (sl_frame dec_field enc_set_max cfg c fr) (sl_frame dec_field enc_set_max cfg c' fr).
Proof.
  intro H. unfold sl_frame.
  destruct (sf_sid fr =? 0).
  { destruct (sf_kind fr); auto with rr.
    - (* SETTINGS *)
      assert (H0 : R (if sf_set_hastable fr then upd_enc c (enc_set_max (sc_enc c) (sf_set_table fr)) else c)
                     (if sf_set_hastable fr then upd_enc c' (enc_set_max (sc_enc c') (sf_set_table fr)) else c'))
        by (Rrw H; destruct (sf_set_hastable fr); auto with rr).
      set (c0 := if sf_set_hastable fr then upd_enc c _ else c) in *.
      set (c0' := if sf_set_hastable fr then upd_enc c' _ else c') in *.
      cbv zeta. destruct (sf_set_haswin fr); [|auto with rr].
      sc_cbn. Rrw H0.
      match goal with |- context [let '(aa, bb) := ?B in _] => destruct B as [lB over] end.
      destruct over; auto 7 with rr.
    - (* WINDOW_UPDATE *)
      cbv zeta. Rrw H. destruct (_ <? _)%Z; auto 6 with rr. }
  Rrw H. destruct (_ && _ && _)%bool; [auto with rr|].
  cbv zeta.
  change (match ?pre with inl r => r | inr (c1, s) => _ end) with
    (match pre with inl r => r | inr (c1, s) => fwork dec_field cfg c1 s fr (sc_closing c) end).
  Rrw H. rewrite (R_in_ring _ _ (sf_sid fr) H), (R_ring_find _ _ (sf_sid fr) H).
  destruct (if sf_sid fr <=? sc_lastID c then strms_search (sc_strms c) (sf_sid fr) else None) as [s|]; [auto with rr|].
  destruct (fkind_eqb (sf_kind fr) KRst).
  { destruct (_ && _)%bool; auto with rr. }
  destruct (in_ring c (sf_sid fr)).
  { destruct (sf_kind fr); auto with rr;
      destruct (match ring_find c (sf_sid fr) with Some b => b | None => false end); auto with rr. }
  destruct (fkind_eqb (sf_kind fr) KPriority).
  { destruct (sf_dep fr =? sf_sid fr); auto with rr. }
  destruct (_ && _)%bool; [auto with rr|].
  assert (H0 : R (if fkind_eqb (sf_kind fr) KHeaders then upd_highestID c (sf_sid fr) else c)
                 (if fkind_eqb (sf_kind fr) KHeaders then upd_highestID c' (sf_sid fr) else c'))
    by (destruct (fkind_eqb _ _); auto with rr).
  set (c0 := if fkind_eqb (sf_kind fr) KHeaders then upd_highestID c _ else c) in *.
  set (c0' := if fkind_eqb (sf_kind fr) KHeaders then upd_highestID c' _ else c') in *.
  Rrw H0.
  destruct (_ && _)%bool; [auto 6 with rr|].
  destruct (_ <? _); [auto with rr|].
  destruct (_ && _)%bool; [auto 6 with rr|].
  assert (H1 : R (if fkind_eqb (sf_kind fr) KHeaders then upd_lastID c0 (sf_sid fr) else c0)
                 (if fkind_eqb (sf_kind fr) KHeaders then upd_lastID c0' (sf_sid fr) else c0'))
    by (destruct (fkind_eqb _ _); auto with rr).
  set (c1 := if fkind_eqb (sf_kind fr) KHeaders then upd_lastID c0 _ else c0) in *.
  set (c1' := if fkind_eqb (sf_kind fr) KHeaders then upd_lastID c0' _ else c0') in *.
  sc_cbn. Rrw H1.
  apply R_fwork. destruct (fkind_eqb _ _); sc_cbn; Rrw H1; auto with rr.
Qed.
Hint Resolve R_sl_frame : rr.

Lemma R_sl_done_fn c c' sid r : R c c' -> R2 (sl_done enc_field cfg c sid r) (sl_done enc_field cfg c' sid r).
Proof.
  intro H. unfold sl_done. Rrw H. destruct (take_stream _ _) as [[s rest]|]; [auto with rr|].
  destruct (strms_search _ _) as [s|]; [|auto with rr]. destruct (negb _); [auto with rr|].
  R2_destr (R_finish_request c c' (set_flags s (st_responded s) false (st_abandoned s)) r H).
  cbv zeta.
  match goal with |- R2 (if sc_closing ?a && _ then _ else _) (if sc_closing ?a' && _ then _ else _) =>
    assert (H2 : R a a') by (match goal with |- R (if ?b then _ else _) _ => destruct b end; auto with rr) end.
  Rrw H2. rewrite (R_can_close _ _ H2). apply R_brk_if, H2.
Qed.
Hint Resolve R_sl_done_fn : rr.

Lemma R_close_heads n : forall c c', R c c' -> R (close_heads n c) (close_heads n c').
Proof.
  induction n as [|n IH]; intros c c' H; cbn [close_heads]; [exact H|].
  Rrw H. destruct (sc_strms c) as [|s t]; [exact H|]. apply IH. auto with rr.
Qed.
Lemma R_sl_timer c c' : R c c' -> R2 (sl_timer cfg c) (sl_timer cfg c').
Proof. intro H. unfold sl_timer. Rrw H. destruct (_ <=? _)%Z; auto using R_close_heads with rr. Qed.
Hint Resolve R_sl_timer : rr.

(* ---------- the read loop ---------- *)
Lemma R_rl_exit c c' why : R c c' -> R (rl_exit c why) (rl_exit c' why).
Proof. intro H. unfold rl_exit. Rrw H. auto with rr. Qed.
Hint Resolve R_rl_exit : rr.
Lemma R_forward c c' fr : R c c' -> R (forward c fr) (forward c' fr).
Proof. intro H. unfold forward. Rrw H. destruct (sc_sl_done c); auto with rr. Qed.
Hint Resolve R_forward : rr.

Lemma R_rl_step c c' i : R c c' -> R (rl_step cfg c i) (rl_step cfg c' i).
Proof.
  intro H. unfold rl_step. destruct i as [fr| |[code|]|]; Rrw H; auto with rr.
  - assert (T : forall c1 c1', R c1 c1' ->
      R (if negb (sf_sid fr =? 0)
         then match check_frame_with_stream fr with
              | Some e => rl_exit (fst (write_error c1 None e)) 1
              | None => forward c1 fr
              end
         else match sf_kind fr with
              | KSettings => if negb (flag_has (sf_flags fr) FL_ES) then forward c1 fr else c1
              | KWinUpd => if sf_inc fr =? 0 then rl_exit (write_goaway c1 0 c_ProtocolError) 1 else forward c1 fr
              | KPing => if negb (flag_has (sf_flags fr) FL_ES) then emit c1 (OPingAck (sf_payload fr)) else c1
              | KGoAway => rl_exit c1 (if sf_code fr =? c_NoError then 0 else 4)
              | _ => rl_exit (write_goaway c1 0 c_ProtocolError) 1
              end)
        (if negb (sf_sid fr =? 0)
         then match check_frame_with_stream fr with
              | Some e => rl_exit (fst (write_error c1' None e)) 1
              | None => forward c1' fr
              end
         else match sf_kind fr with
              | KSettings => if negb (flag_has (sf_flags fr) FL_ES) then forward c1' fr else c1'
              | KWinUpd => if sf_inc fr =? 0 then rl_exit (write_goaway c1' 0 c_ProtocolError) 1 else forward c1' fr
              | KPing => if negb (flag_has (sf_flags fr) FL_ES) then emit c1' (OPingAck (sf_payload fr)) else c1'
              | KGoAway => rl_exit c1' (if sf_code fr =? c_NoError then 0 else 4)
              | _ => rl_exit (write_goaway c1' 0 c_ProtocolError) 1
              end)).
    { intros c1 c1' H1. destruct (negb _).
      - destruct (check_frame_with_stream fr) as [e|]; [|auto with rr].
        apply R_rl_exit. pose proof (R_write_error c1 c1' None e H1) as [K _]. exact K.
      - destruct (sf_kind fr); auto with rr; match goal with |- context [if ?b then _ else _] => destruct b end; auto with rr. }
    destruct (negb (sc_expectCont c =? 0)).
    + destruct (_ || _)%bool; [auto with rr|]. destruct (flag_has (sf_flags fr) FL_EH); apply T; auto with rr.
    + destruct (fkind_eqb (sf_kind fr) KCont); [auto with rr|]. destruct (fkind_eqb (sf_kind fr) KHeaders && negb (flag_has (sf_flags fr) FL_EH))%bool; apply T; auto with rr.
  - destruct (negb _); auto with rr.
Qed.
Hint Resolve R_rl_step : rr.

(* ---------- every step, every run ---------- *)
Notation step := (step dec_field enc_field enc_set_max cfg).
Theorem R_step c c' e : R c c' -> R (step c e) (step c' e).
Proof.
  intro H. destruct e as [i| |sid r|t| | | |].
  - rewrite !step_EvRL. Rrw H. destruct (sc_rl_done c); auto with rr.
  - rewrite !step_EvSL. Rrw H. destruct (sc_sl_done c); [exact H|].
    destruct (sc_readerQ c) as [|fr q].
    + destruct (sc_rl_done c); auto with rr.
    + apply R_sl_frame. auto with rr.
  - rewrite !step_EvDone. Rrw H. destruct (sc_sl_done c); [exact H|]. apply R_sl_done_fn, H.
  - rewrite !step_EvClock. Rrw H. destruct (_ <? _)%Z; auto with rr.
  - rewrite !step_EvTimer. Rrw H. destruct (sc_sl_done c); [exact H|]. apply R_sl_timer, H.
  - rewrite !step_EvIdle. auto with rr.
  - rewrite !step_EvCloser. Rrw H. destruct (_ && _)%bool; [|exact H]. apply R_brk, H.
  - rewrite !step_EvWriteFail. auto with rr.
Qed.

Theorem R_run_from evs : forall c c', R c c' ->
  R (run_from dec_field enc_field enc_set_max cfg c evs) (run_from dec_field enc_field enc_set_max cfg c' evs).
Proof.
  induction evs as [|e evs IH]; intros c c' H; [exact H|]. rewrite !run_from_cons. apply IH, R_step, H.
Qed.

(* ---------- once the stream loop has ended nothing is said about any stream ---------- *)
Definition quiet c c' : Prop :=
  sc_sl_done c' = sc_sl_done c /\ forall g, filter (about_stream g) (sc_out c') = filter (about_stream g) (sc_out c).
Lemma quiet_refl c : quiet c c. Proof. split; reflexivity. Qed.
Lemma quiet_trans a b c : quiet a b -> quiet b c -> quiet a c.
Proof. intros [A1 A2] [B1 B2]. split; [congruence|]. intro g. rewrite B2. apply A2. Qed.
Lemma quiet_same c c' : sc_sl_done c' = sc_sl_done c -> sc_out c' = sc_out c -> quiet c c'.
Proof. intros A B. split; [exact A|]. intro g. rewrite B. reflexivity. Qed.
Lemma quiet_emit c o : (forall g, about_stream g o = false) -> quiet c (emit c o).
Proof.
  intro NA. unfold emit. destruct (sc_wl_dead c); [apply quiet_refl|].
  destruct (sc_sl_done c) eqn:D; (split; [sc_cbn; congruence|]); intro g; sc_cbn; cbn [filter about_stream]; rewrite ?NA; reflexivity.
Qed.
Lemma quiet_note c o : (forall g, about_stream g o = false) -> quiet c (note c o).
Proof. intro NA. unfold note. split; [reflexivity|]. intro g. sc_cbn. cbn [filter]. rewrite NA. reflexivity. Qed.
Lemma quiet_write_goaway c sid code : quiet c (write_goaway c sid code).
Proof.
  unfold write_goaway. eapply quiet_trans; [|apply quiet_emit; reflexivity]. apply quiet_same; reflexivity.
Qed.
Lemma quiet_rl_exit c why : quiet c (rl_exit c why).
Proof. unfold rl_exit. eapply quiet_trans; [|apply quiet_note; reflexivity]. apply quiet_same; reflexivity. Qed.
Lemma quiet_forward c fr : quiet c (forward c fr).
Proof. unfold forward. destruct (sc_sl_done c); [apply quiet_rl_exit | apply quiet_same; reflexivity]. Qed.
Lemma quiet_goaway_exit c sid code why : quiet c (rl_exit (write_goaway c sid code) why).
Proof. eapply quiet_trans; [apply quiet_write_goaway | apply quiet_rl_exit]. Qed.

Lemma quiet_rl_step c i : quiet c (rl_step cfg c i).
Proof.
  unfold rl_step. destruct i as [fr| |[code|]|].
  - set (r := if negb (sc_expectCont c =? 0) then _ else _).
    assert (Q : match r with inl c' => quiet c c' | inr c1 => quiet c c1 end).
    { subst r. repeat match goal with |- context [if ?b then _ else _] => destruct b end;
      try apply quiet_refl; try apply quiet_goaway_exit; apply quiet_same; reflexivity. }
    destruct r as [c'|c1]; [exact Q|].
    destruct (negb (sf_sid fr =? 0)).
    + destruct (check_frame_with_stream fr) as [e|].
      * eapply quiet_trans; [exact Q|]. rewrite write_error_fst. destruct e; try apply quiet_rl_exit; apply quiet_goaway_exit.
      * eapply quiet_trans; [exact Q | apply quiet_forward].
    + destruct (sf_kind fr); repeat match goal with |- context [if ?b then _ else _] => destruct b end;
        try exact Q; (eapply quiet_trans; [exact Q|]);
        try apply quiet_forward; try (apply quiet_emit; reflexivity); try apply quiet_rl_exit; apply quiet_goaway_exit.
  - destruct (negb _); [apply quiet_goaway_exit | apply quiet_refl].
  - apply quiet_goaway_exit.
  - apply quiet_rl_exit.
  - apply quiet_rl_exit.
Qed.

Lemma quiet_step c e : sc_sl_done c = true -> quiet c (step c e).
Proof.
  intro D. destruct e as [i| |sid r|t| | | |].
  - rewrite step_EvRL. destruct (sc_rl_done c); [apply quiet_refl | apply quiet_rl_step].
  - rewrite step_EvSL, D. apply quiet_refl.
  - rewrite step_EvDone, D. apply quiet_refl.
  - rewrite step_EvClock. destruct (_ <? _)%Z; [apply quiet_same; reflexivity | apply quiet_refl].
  - rewrite step_EvTimer, D. apply quiet_refl.
  - rewrite step_EvIdle. eapply quiet_trans; [apply quiet_write_goaway | apply quiet_same; reflexivity].
  - rewrite step_EvCloser, D. rewrite Bool.andb_false_r. apply quiet_refl.
  - rewrite step_EvWriteFail. apply quiet_same; reflexivity.
Qed.

Lemma quiet_run_from evs : forall c, sc_sl_done c = true -> quiet c (run_from dec_field enc_field enc_set_max cfg c evs).
Proof.
  induction evs as [|e evs IH]; intros c D; [apply quiet_refl|]. rewrite run_from_cons.
  pose proof (quiet_step c e D) as Q. eapply quiet_trans; [exact Q|]. apply IH. destruct Q as [Q _]. congruence.
Qed.

(* ---------- the cut: a DATA frame in flight for a stream the server has reset ---------- *)
Lemma ring_find_in_ring c id b : ring_find c id = Some b -> in_ring c id = true.
Proof.
  unfold ring_find, in_ring. induction (sc_ring c) as [|e l IH]; cbn [find existsb]; [discriminate|].
  destruct (id =? fst e); [reflexivity|]. exact IH.
Qed.

Lemma R_credit_l c c' n : R c c' -> R (credit_conn_window cfg c n) c'.
Proof.
  intro H. unfold credit_conn_window, write_window_update. destruct (n <=? 0)%Z; [exact H|].
  destruct (_ <? _)%Z.
  - apply R_emit_l. eapply R_trans; [|exact H]. constructor; reflexivity.
  - eapply R_trans; [|exact H]. constructor; reflexivity.
Qed.

(* what the read loop does with the frame: it is forwarded (or, the stream loop gone, the read loop stops) *)
Lemma cut_rl c fr :
  sf_kind fr = KData -> sf_sid fr <> 0 -> N.land (sf_sid fr) 1 = 1 -> sc_rl_done c = false -> sc_expectCont c = 0 ->
  step c (EvRL (RFrame fr)) = forward c fr.
Proof.
  intros KD NZ ODD RD EC. rewrite step_EvRL, RD. unfold rl_step. rewrite EC, KD. cbn [N.eqb negb fkind_eqb andb].
  replace (sf_sid fr =? 0) with false by lia. cbn [negb]. unfold check_frame_with_stream. rewrite ODD, KD. reflexivity.
Qed.

(* ... and the stream loop: nothing but the credit of the connection window *)
Lemma cut_steps c fr :
  sf_kind fr = KData -> sf_sid fr <> 0 -> N.land (sf_sid fr) 1 = 1 ->
  strms_search (sc_strms c) (sf_sid fr) = None -> ring_find c (sf_sid fr) = Some true ->
  sc_readerQ c = [] -> sc_rl_done c = false -> sc_expectCont c = 0 -> sc_sl_done c = false ->
  step (step c (EvRL (RFrame fr))) EvSL = credit_conn_window cfg (upd_readerQ c []) (Z.of_N (sf_len fr)).
Proof.
  intros KD NZ ODD NS RF RQ RD EC SD. rewrite cut_rl by assumption. unfold forward. rewrite SD, RQ. cbn [app].
  rewrite step_EvSL. sc_cbn. rewrite SD. unfold sl_frame. replace (sf_sid fr =? 0) with false by lia. rewrite KD.
  cbn [fkind_eqb andb]. cbv zeta. sc_cbn. rewrite NS.
  replace (in_ring (upd_readerQ (upd_readerQ c [fr]) []) (sf_sid fr)) with (in_ring c (sf_sid fr)) by reflexivity.
  replace (ring_find (upd_readerQ (upd_readerQ c [fr]) []) (sf_sid fr)) with (ring_find c (sf_sid fr)) by reflexivity.
  rewrite (ring_find_in_ring _ _ _ RF), RF. destruct (sf_sid fr <=? sc_lastID c); reflexivity.
Qed.

Lemma cut_R c fr :
  sf_kind fr = KData -> sf_sid fr <> 0 -> N.land (sf_sid fr) 1 = 1 ->
  strms_search (sc_strms c) (sf_sid fr) = None -> ring_find c (sf_sid fr) = Some true ->
  sc_readerQ c = [] -> sc_rl_done c = false -> sc_expectCont c = 0 -> sc_sl_done c = false ->
  R (step (step c (EvRL (RFrame fr))) EvSL) c.
Proof.
  intros KD NZ ODD NS RF RQ RD EC SD. rewrite cut_steps by assumption. apply R_credit_l.
  constructor; sc_cbn; congruence.
Qed.

Variable h0 : hstate.
Notation run := (run dec_field enc_field enc_set_max cfg h0).

(* THE TWO RUNS, strong form (stream loop alive at the cut): after any continuation evs2 the two connections are in
   the same state - stream table, ring, HPACK coders, flags, queues, clock, everything - except for the receive
   window still to be announced, and have produced the same outputs in the same order except for connection-level
   WINDOW_UPDATEs. *)
Theorem two_runs_related evs1 fr evs2 :
  let c1 := run evs1 in
  sf_kind fr = KData -> sf_sid fr <> 0 ->
  strms_search (sc_strms c1) (sf_sid fr) = None -> ring_find c1 (sf_sid fr) = Some true ->
  sc_readerQ c1 = [] -> sc_rl_done c1 = false -> sc_expectCont c1 = 0 -> sc_sl_done c1 = false ->
  R (run (evs1 ++ [EvRL (RFrame fr); EvSL] ++ evs2)) (run (evs1 ++ evs2)).
Proof.
  intros c1 KD NZ NS RF RQ RD EC SD. rewrite !run_app, run_from_app.
  apply R_run_from. cbn [run_from fold_left]. apply cut_R; try assumption.
  exact (ring_ids_odd _ dec_field enc_field enc_set_max cfg h0 evs1 _ _ RF).
Qed.

(* THE TWO RUNS, as seen from any stream g (the reset stream itself included): same frames, dispatches and
   releases, in the same order. No hypothesis on the rest of the run: any frames, handler completions, timers,
   errors, a dead write loop, a stream loop that has already ended at the cut. *)
Theorem noninterference evs1 fr evs2 g :
  let c1 := run evs1 in
  sf_kind fr = KData -> sf_sid fr <> 0 -> g <> 0 ->
  strms_search (sc_strms c1) (sf_sid fr) = None -> ring_find c1 (sf_sid fr) = Some true ->
  sc_readerQ c1 = [] -> sc_rl_done c1 = false -> sc_expectCont c1 = 0 ->
  filter (about_stream g) (trace (run (evs1 ++ [EvRL (RFrame fr); EvSL] ++ evs2))) =
  filter (about_stream g) (trace (run (evs1 ++ evs2))).
Proof.
  intros c1 KD NZ GZ NS RF RQ RD EC. unfold trace. rewrite !filter_rev_ni. f_equal.
  pose proof (ring_ids_odd _ dec_field enc_field enc_set_max cfg h0 evs1 _ _ RF) as ODD. unfold oddN in ODD.
  destruct (sc_sl_done c1) eqn:SD.
  - (* the stream loop has ended: the read loop stops at the frame; nothing more is said about any stream *)
    rewrite !run_app, run_from_app. fold c1. cbn [run_from fold_left].
    rewrite cut_rl by assumption. unfold forward. rewrite SD.
    assert (D2 : sc_sl_done (rl_exit c1 2) = true) by (rewrite <- SD; apply quiet_rl_exit).
    rewrite step_EvSL, D2.
    destruct (quiet_run_from evs2 _ D2) as [_ Q1]. destruct (quiet_run_from evs2 _ SD) as [_ Q2].
    rewrite Q1, Q2. apply quiet_rl_exit.
  - pose proof (two_runs_related evs1 fr evs2 KD NZ NS RF RQ RD EC SD) as H.
    rewrite <- (about_filt g _ GZ), (R_out _ _ H). apply about_filt, GZ.
Qed.

(* the statement as it stands in Props/C09.v: `clean` and `sf_sid fr <> g` are not needed *)
Theorem noninterference_as_stated evs1 fr evs2 g :
  let c1 := run evs1 in
  sf_kind fr = KData -> sf_sid fr <> 0 -> sf_sid fr <> g -> g <> 0 ->
  strms_search (sc_strms c1) (sf_sid fr) = None -> ring_find c1 (sf_sid fr) = Some true ->
  sc_readerQ c1 = [] -> sc_rl_done c1 = false -> sc_expectCont c1 = 0 ->
  clean dec_field enc_field enc_set_max cfg h0 (evs1 ++ [EvRL (RFrame fr); EvSL] ++ evs2) ->
  filter (about_stream g) (trace (run (evs1 ++ [EvRL (RFrame fr); EvSL] ++ evs2))) =
  filter (about_stream g) (trace (run (evs1 ++ evs2))).
Proof. intros c1 KD NZ _ GZ NS RF RQ RD EC _. apply noninterference; assumption. Qed.

End TwoRun.

Arguments R {hstate}.
Arguments quiet {hstate}.
