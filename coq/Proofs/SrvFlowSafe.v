(* Proofs/SrvFlowSafe.v - C06 safety: the server's send windows never exceed the peer's ledger, and every DATA frame
   fits the ledger's windows at the moment it is queued. *)
From H2V Require Import Base.Bytes Base.MachineInt Base.Result Gen.GenConsts Impl.ServerConn Proofs.SrvBase
  Spec.FlowLedger Proofs.SrvFlowLedger Proofs.SrvFlowDefs Proofs.SrvFlowSend Proofs.SrvFlowEff.
From Coq Require Import ZArith Lia ZifyN ZifyNat ZifyBool List.
Import ListNotations.
Local Open Scope N_scope.
Set Default Proof Using "Type".

(* ---------- stream table ids ---------- *)

Lemma strms_del_ids_incl l id x : In x (map st_id (strms_del l id)) -> In x (map st_id l).
Proof.
  induction l as [|y t IH]; cbn [strms_del map]; [intros []|].
  destruct (st_id y =? id); cbn [map In]; intros H; [right; assumption|]. destruct H; auto.
Qed.

Lemma strms_del_NoDup l id : NoDup (map st_id l) -> NoDup (map st_id (strms_del l id)).
Proof.
  induction l as [|y t IH]; cbn [strms_del map]; intro H; [constructor|].
  inversion H; subst. destruct (st_id y =? id); [assumption|]. cbn [map]. constructor; [|auto].
  intro Hin. apply strms_del_ids_incl in Hin. contradiction.
Qed.

Lemma strms_del_not_In l id s : NoDup (map st_id l) -> In s (strms_del l id) -> st_id s <> id.
Proof.
  induction l as [|y t IH]; cbn [strms_del map]; intros H Hin; [destruct Hin|].
  inversion H; subst. destruct (st_id y =? id) eqn:E.
  - intro Hs. apply H2. replace (st_id y) with (st_id s) by lia. apply in_map. assumption.
  - destruct Hin as [->|Hin]; [lia | auto].
Qed.

Lemma strms_put_In_strong l x s : NoDup (map st_id l) -> In s (strms_put l x) ->
  s = x \/ (In s l /\ st_id s <> st_id x).
Proof.
  induction l as [|y t IH]; cbn [strms_put map]; intros ND Hin; [destruct Hin|].
  inversion ND; subst. destruct (st_id y =? st_id x) eqn:E; cbn [In] in Hin.
  - destruct Hin as [<-|Hin]; [left; reflexivity|]. right. split; [right; assumption|].
    intro F. apply H1. replace (st_id y) with (st_id s) by lia. apply in_map. assumption.
  - destruct Hin as [<-|Hin]; [right; split; [left; reflexivity | lia]|].
    destruct (IH H2 Hin) as [->|[A B]]; [left; reflexivity | right; split; [right; assumption | assumption]].
Qed.

Lemma ldatas_quiet new : Forall quiet_out new -> ldatas new = [].
Proof.
  induction 1 as [|o l Ho _ IH]; [reflexivity|]. rewrite ldatas_cons, IH, app_nil_r.
  unfold ldata_of. unfold quiet_out in Ho. destruct (strip o); try reflexivity; contradiction.
Qed.

Lemma quiet_rev new : Forall quiet_out new -> Forall quiet_out (rev new).
Proof. intro H. apply Forall_forall. intros o Ho. rewrite Forall_forall in H. apply H. apply in_rev. assumption. Qed.

Section Safe.
Variable hstate : Type.
Variable dec_field : hstate -> N -> bytes -> dec_res hstate.
Variable enc_field : hstate -> bytes -> bytes -> bool -> bytes * hstate.
Variable enc_set_max : hstate -> N -> hstate.
Variable cfg : config.
Notation sconn := (sconn hstate).
Implicit Types c : sconn.

(* ---------- a piece of a step: the trace grows, its DATA frames are valid for the ledger ---------- *)

(* every DATA frame in the list is on a stream satisfying P, and no longer than the smallest SETTINGS_MAX_FRAME_SIZE *)
Definition data_on (P : N -> Prop) (new : list outev) : Prop :=
  forall o sid es pl, In o new -> strip o = OData sid es pl -> P sid /\ len pl <= 16384.

Definition LedOn (P : N -> Prop) c (L : ledger) c' (L' : ledger) : Prop :=
  exists new, sc_out c' = new ++ sc_out c /\ data_on P new /\
              lvalid L (ldatas (rev new)) /\ L' = lrun L (ldatas (rev new)).

Lemma data_on_nil P : data_on P [].
Proof. intros o sid es pl []. Qed.
Lemma data_on_app P a b : data_on P a -> data_on P b -> data_on P (a ++ b).
Proof. intros Ha Hb o sid es pl Hin. apply in_app_or in Hin. destruct Hin; eauto. Qed.
Lemma data_on_quiet P new : Forall quiet_out new -> data_on P new.
Proof.
  intros H o sid es pl Hin E. rewrite Forall_forall in H. specialize (H o Hin). unfold quiet_out in H.
  rewrite E in H. contradiction.
Qed.

Lemma LedOn_refl P c L : LedOn P c L c L.
Proof. exists []. split; [reflexivity | split; [apply data_on_nil | split; [exact I | reflexivity]]]. Qed.

Lemma LedOn_trans P a La b Lb c Lc : LedOn P a La b Lb -> LedOn P b Lb c Lc -> LedOn P a La c Lc.
Proof.
  intros (n1 & E1 & D1 & V1 & ->) (n2 & E2 & D2 & V2 & ->). exists (n2 ++ n1).
  rewrite rev_app_distr, ldatas_app. split; [|split; [|split]].
  - rewrite E2, E1, app_assoc. reflexivity.
  - apply data_on_app; assumption.
  - apply lvalid_app. split; assumption.
  - rewrite lrun_app. reflexivity.
Qed.

Lemma LedOn_weaken (P Q : N -> Prop) a La b Lb : (forall x, P x -> Q x) -> LedOn P a La b Lb -> LedOn Q a La b Lb.
Proof.
  intros H (n & E & D & V & ->). exists n. split; [assumption | split; [|split; [assumption | reflexivity]]].
  intros o sid es pl Hin Ho. destruct (D _ _ _ _ Hin Ho). auto.
Qed.

Lemma LedOn_quiet P c c' L : out_ext quiet_out c c' -> LedOn P c L c' L.
Proof.
  intros (new & E & F). exists new. rewrite (ldatas_quiet (rev new)) by (apply quiet_rev; assumption).
  split; [assumption | split; [apply data_on_quiet; assumption | split; [exact I | reflexivity]]].
Qed.

(* a trace extension without DATA *)
Definition nodata_out (o : outev) : Prop := match strip o with OData _ _ _ => False | _ => True end.
Lemma ldatas_nodata new : Forall nodata_out new -> ldatas new = [].
Proof.
  induction 1 as [|o l Ho _ IH]; [reflexivity|]. rewrite ldatas_cons, IH, app_nil_r.
  unfold ldata_of. unfold nodata_out in Ho. destruct (strip o); try reflexivity; contradiction.
Qed.
Lemma LedOn_nodata P c c' L : out_ext nodata_out c c' -> LedOn P c L c' L.
Proof.
  intros (new & E & F). exists new.
  assert (F' : Forall nodata_out (rev new)).
  { apply Forall_forall. intros o Ho. rewrite Forall_forall in F. apply F, in_rev. assumption. }
  rewrite (ldatas_nodata _ F'). split; [assumption | split; [|split; [exact I | reflexivity]]].
  intros o sid es pl Hin Ho. rewrite Forall_forall in F. specialize (F o Hin). unfold nodata_out in F. rewrite Ho in F.
  contradiction.
Qed.

Lemma data_on_ldatas P new : data_on P new ->
  Forall (fun e => match e with LData s _ => P s | _ => False end) (ldatas new).
Proof.
  induction new as [|o l IH]; intro D; [constructor|]. rewrite ldatas_cons. apply Forall_app. split.
  - unfold ldata_of. destruct (strip o) eqn:E; try constructor; [|constructor].
    eapply D; [left; reflexivity | exact E].
  - apply IH. intros o' sid es pl Hin. apply D. right. assumption.
Qed.

Lemma data_on_rev P new : data_on P new -> data_on P (rev new).
Proof. intros D o sid es pl Hin. apply D. apply in_rev. assumption. Qed.

Lemma LedOn_init P c L c' L' : LedOn P c L c' L' -> l_init L' = l_init L.
Proof. intros (n & _ & _ & _ & ->). apply l_init_lrun_data, ldatas_is_ldata. Qed.

Lemma LedOn_other P c L c' L' sid : LedOn P c L c' L' -> ~ P sid -> l_strm L' sid = l_strm L sid.
Proof.
  intros (n & _ & D & _ & ->) NP. apply l_strm_lrun_data_other.
  eapply Forall_impl; [|apply data_on_ldatas, data_on_rev, D].
  intros [] H; try contradiction. intro; subst. contradiction.
Qed.

(* ---------- the invariant ---------- *)

Definition held (L : ledger) (s : stream) : Prop :=
  exists w, l_strm L (st_id s) = Some w /\ (st_window s <= w)%Z.

(* ex: the id of the stream the stream loop is working on, whose table entry may be stale *)
Record SimX (ex : option N) c (L : ledger) : Prop := mkSim {
  sim_init : sc_initWin c = l_init L;
  sim_conn : (sc_clientWindow c <= l_conn L)%Z;
  sim_strm : forall s, In s (sc_strms c) -> Some (st_id s) <> ex -> held L s;
  sim_nodup : NoDup (map st_id (sc_strms c));
  sim_le : forall s, In s (sc_strms c) -> st_id s <= sc_lastID c;
  sim_hi : sc_lastID c <= sc_highestID c;
  sim_fresh : forall sid w, sc_highestID c < sid -> l_strm L sid = Some w -> (l_init L <= w)%Z
}.
Notation Sim := (SimX None).

Lemma Sim_SimX ex c L : Sim c L -> SimX ex c L.
Proof. intros []. constructor; auto. intros s Hs _. apply sim_strm0; [assumption | discriminate]. Qed.

Lemma SimX_Quiet ex c c' L : Quiet c c' -> SimX ex c L -> SimX ex c' L.
Proof.
  intros Q []. destruct Q. constructor.
  - congruence.
  - rewrite q_clientWindow. assumption.
  - rewrite q_strms. assumption.
  - rewrite q_strms. assumption.
  - rewrite q_strms, q_lastID. assumption.
  - rewrite q_lastID. flia.
  - intros sid w H. apply sim_fresh0. flia.
Qed.

(* write-back of the stream being worked on *)
Lemma SimX_put ex c L x : SimX ex c L -> (ex = None \/ ex = Some (st_id x)) -> held L x -> st_id x <= sc_lastID c ->
  Sim (put c x) L.
Proof.
  intros [] Hex Hx Hle. constructor; unfold put; sc_cbn; auto.
  - intros s Hs _. apply strms_put_In_strong in Hs; [|assumption]. destruct Hs as [->|[Hs E]]; [assumption|].
    apply sim_strm0; [assumption|]. destruct Hex as [->| ->]; [discriminate | congruence].
  - rewrite strms_put_ids. assumption.
  - intros s Hs. apply strms_put_In in Hs. destruct Hs as [->|Hs]; auto.
Qed.

Lemma SimX_close ex c L s : SimX ex c L -> (ex = None \/ ex = Some (st_id s)) -> Sim (close_stream c s) L.
Proof.
  intros [] Hex. pose proof (Frame_close_stream _ c s) as [].
  constructor.
  - rewrite sc_initWin_close_stream. assumption.
  - rewrite sc_clientWindow_close_stream. assumption.
  - rewrite sc_strms_close_stream. intros s0 Hs _.
    pose proof (strms_del_not_In _ _ _ sim_nodup0 Hs) as Hne. apply strms_del_In in Hs.
    apply sim_strm0; [assumption|]. destruct Hex as [->| ->]; [discriminate | congruence].
  - rewrite sc_strms_close_stream. apply strms_del_NoDup. assumption.
  - rewrite sc_strms_close_stream, sc_lastID_close_stream. intros s0 Hs. apply strms_del_In in Hs. auto.
  - rewrite sc_lastID_close_stream. flia.
  - intros sid w H. apply sim_fresh0. flia.
Qed.

(* ---------- sendData against the ledger ---------- *)

Lemma emit_cases c o :
  exists pre, sc_out (emit c o) = pre ++ sc_out c /\ (pre = [] \/ pre = [o] \/ pre = [OLate o]).
Proof.
  rewrite sc_out_emit. destruct (sc_wl_dead c); [exists []; auto|].
  destruct (sc_sl_done c); [exists [OLate o] | exists [o]]; auto.
Qed.

(* one chunk of z bytes on sid, queued (pre = [frame]) or dropped because the write loop is gone (pre = []) *)
Lemma led_chunk (L : ledger) sid w z es pl pre :
  l_strm L sid = Some w -> Z.of_N (len pl) = z -> (z <= 16384)%Z ->
  (pre = [] \/ pre = [OData sid es pl] \/ pre = [OLate (OData sid es pl)]) ->
  (z = 0 \/ (0 < z /\ z <= l_conn L /\ z <= w))%Z ->
  lvalid L (ldatas pre) /\ data_on (eq sid) pre /\
  (l_conn L - z <= l_conn (lrun L (ldatas pre)))%Z /\
  exists w', l_strm (lrun L (ldatas pre)) sid = Some w' /\ (w - z <= w')%Z.
Proof.
  intros Hw Hz Hmax Hpre Hok.
  assert (Z0 : (0 <= z)%Z) by flia.
  destruct Hpre as [->|Hpre].
  - cbn. split; [exact I|]. split; [apply data_on_nil|]. split; [flia|]. exists w. split; [assumption | flia].
  - assert (E : ldatas pre = [LData sid z]) by (destruct Hpre as [->| ->]; cbn; rewrite Hz; reflexivity).
    rewrite E. cbn [lvalid lallowed lrun fold_left lstep l_conn l_strm]. rewrite Hw.
    split; [split; [exists w; split; [reflexivity | exact Hok] | exact I]|].
    split.
    { intros o s0 es0 pl0 Hin Ho. destruct Hpre as [->| ->]; destruct Hin as [<-|[]]; cbn in Ho;
        inversion Ho; subst; (split; [reflexivity | flia]). }
    split; [flia|]. exists (w - z)%Z. rewrite strm_upd_same. split; [reflexivity | flia].
Qed.

Lemma SDL_led sid c n r k : SDL sid c n r k -> forall (L : ledger) w,
  (sc_clientWindow c <= l_conn L)%Z -> l_strm L sid = Some w -> (sn_window n <= w)%Z ->
  exists L', LedOn (eq sid) c L (fst (fst (fst r))) L' /\
    (sc_clientWindow (fst (fst (fst r))) <= l_conn L')%Z /\
    exists w', l_strm L' sid = Some w' /\ (sn_window (snd (fst (fst r))) <= w')%Z.
Proof.
  induction 1; intros L w Hc Hw Hn; cbn [fst snd].
  - exists L. split; [apply LedOn_refl|]. eauto.
  - exists L. split; [apply LedOn_refl|]. eauto.
  - exists L. split; [apply LedOn_quiet; unfold write_reset; apply out_ext_emit; exact I|].
    unfold write_reset. rewrite sc_clientWindow_emit. cbn [sd_closed sn_window]. eauto.
  - (* end of a streamed body: an empty END_STREAM frame *)
    assert (W1 : sn_window n1 = sn_window n) by eauto using refill_window.
    destruct (sn_pendingEnd n1).
    + destruct (emit_cases c (OData sid true [])) as (pre & E & Hpre).
      destruct (led_chunk L sid w 0%Z true [] pre Hw eq_refl ltac:(flia) Hpre (or_introl eq_refl)) as (V & D & C & w' & Hw' & Hle).
      exists (lrun L (ldatas pre)). split.
      * exists pre. assert (R : rev pre = pre) by (destruct Hpre as [->|[->| ->]]; reflexivity). rewrite R. auto.
      * rewrite sc_clientWindow_emit. split; [flia|]. exists w'. split; [assumption | flia].
    + exists L. split; [apply LedOn_refl|]. split; [assumption|]. exists w. split; [assumption | flia].
  - exists L. split; [apply LedOn_refl|]. split; [assumption|]. exists w. split; [assumption|].
    rewrite (sd_src_window _ _ H). assumption.
  - (* the last chunk *)
    pose proof (sd_src_window _ _ H) as W1. pose proof (sd_src_pending _ _ H) as P1.
    destruct (sd_step_bounds _ c n1 P1 H0) as (B1 & B2 & B3 & B4 & B5).
    pose proof (sd_chunk_len _ c n1 P1 H0) as CL.
    destruct (emit_cases c (OData sid (sd_es c n1) (sd_chunk c n1))) as (pre & E & Hpre).
    destruct (led_chunk L sid w (sd_step c n1) _ _ pre Hw CL B2 Hpre) as (V & D & C & w' & Hw' & Hle); [right; flia|].
    exists (lrun L (ldatas pre)). split.
    + exists pre. assert (R : rev pre = pre) by (destruct Hpre as [->|[->| ->]]; reflexivity). rewrite R.
      unfold sd_c2. sc_cbn. auto.
    + unfold sd_c2, sd_n'. sc_cbn. cbn [sn_window]. split; [flia|]. exists w'. split; [assumption | flia].
  - (* a chunk, and on *)
    pose proof (sd_src_window _ _ H) as W1. pose proof (sd_src_pending _ _ H) as P1.
    destruct (sd_step_bounds _ c n1 P1 H0) as (B1 & B2 & B3 & B4 & B5).
    pose proof (sd_chunk_len _ c n1 P1 H0) as CL.
    destruct (emit_cases c (OData sid (sd_es c n1) (sd_chunk c n1))) as (pre & E & Hpre).
    destruct (led_chunk L sid w (sd_step c n1) _ _ pre Hw CL B2 Hpre) as (V & D & C & w' & Hw' & Hle); [right; flia|].
    destruct (IHSDL (lrun L (ldatas pre)) w') as (L' & Led & C' & w'' & Hw'' & Hle'').
    + unfold sd_c2. sc_cbn. flia.
    + assumption.
    + unfold sd_n'. cbn [sn_window]. flia.
    + exists L'. split; [|eauto].
      eapply LedOn_trans; [|exact Led]. exists pre.
      assert (R : rev pre = pre) by (destruct Hpre as [->|[->| ->]]; reflexivity). rewrite R.
      unfold sd_c2. sc_cbn. auto.
Qed.

End Safe.
