(* Proofs/CliFlowCInv.v - C07, "and finishes": the bookkeeping of one request body.
   Bk ex B ok id c: on stream id, whose request body is B (ok: its reader ends well), the DATA payloads in the
   trace are a prefix of B; END_STREAM has been written at most once, and only after all of B; and (when ex
   holds: the write loop is alive) what is left in the pending body is exactly the rest of B.
   Closed under every move that is not a critical section / a refill of that very stream. *)
From H2V Require Import Base.Bytes Base.MachineInt Base.Result Gen.GenConsts Impl.ServerConn Impl.ClientConn
     Proofs.CliDefs Spec.FlowLedger Proofs.CliFlowMoves Proofs.CliFlowOut Proofs.CliFlowSettings Proofs.CliFlowSafe Proofs.CliFlowEs
     Proofs.CliFlowStall Proofs.CliFlowCBody.
From Coq Require Import ZArith Lia ZifyN ZifyNat ZifyBool List Bool.
Import ListNotations.
Local Open Scope N_scope.
Set Default Proof Using "Type".

Lemma pend_get_map (f : cpending -> cpending) l id : (forall p, pb_id (f p) = pb_id p) ->
  cl_pend_get (map f l) id = option_map f (cl_pend_get l id).
Proof.
  intro H. induction l as [|q t IH]; cbn [map cl_pend_get option_map]; [reflexivity|].
  rewrite H. destruct (pb_id q =? id); [reflexivity | exact IH].
Qed.

Lemma pb_all_window pb w : pb_all (pbu_window pb w) = pb_all pb /\ pb_ok (pbu_window pb w) = pb_ok pb.
Proof. split; reflexivity. Qed.

Section Bk.
Variable hstate : Type.
Variable enc_field : hstate -> bytes -> bytes -> bool -> bytes * hstate.
Variable enc_set_max : hstate -> N -> hstate.
Notation cconn := (cconn hstate).
Notation move := (move hstate).
Notation apply := (apply hstate enc_field enc_set_max).
Notation valid := (valid hstate).
Notation items := (items hstate).
Notation mvs := (mvs enc_field enc_set_max).
Notation D := (D enc_field enc_set_max).

Definition pget (c : cconn) (id : N) : option cpending := cl_pend_get (cc_pending c) id.

Record Bk (ex : Prop) (B : bytes) (ok : bool) (id : N) (c : cconn) : Prop := mkBk {
  bk_open : id < cc_nextID c;
  bk_prefix : exists rest, dbytes id (cc_out c) ++ rest = B;
  bk_es : esn id (cc_out c) = 0%nat \/
          (esn id (cc_out c) = 1%nat /\ dbytes id (cc_out c) = B /\ ok = true /\ pget c id = None);
  bk_exact : ex -> forall pb, pget c id = Some pb -> dbytes id (cc_out c) ++ pb_all pb = B /\ pb_ok pb = ok
}.

Definition same_pb (pb' pb : cpending) : Prop := pb_all pb' = pb_all pb /\ pb_ok pb' = pb_ok pb.

Lemma Bk_frame (ex ex' : Prop) B ok id (c c' : cconn) :
  cc_nextID c <= cc_nextID c' -> dbytes id (cc_out c') = dbytes id (cc_out c) -> esn id (cc_out c') = esn id (cc_out c) ->
  (forall pb', pget c' id = Some pb' -> exists pb, pget c id = Some pb /\ same_pb pb' pb) ->
  (ex' -> ex) -> Bk ex B ok id c -> Bk ex' B ok id c'.
Proof.
  intros NX DB EN PG EX [b1 b2 b3 b4]. constructor.
  - clear - NX b1. lia.
  - rewrite DB. exact b2.
  - rewrite DB, EN. destruct b3 as [b3|(b3 & b5 & b6 & b7)]; [left; exact b3|]. right. repeat split; auto.
    destruct (pget c' id) as [pb'|] eqn:G; [|reflexivity]. destruct (PG pb' eq_refl) as (pb & X & _). congruence.
  - intros E pb' G. destruct (PG pb' G) as (pb & X & S1 & S2). rewrite DB, S1, S2. apply b4; auto.
Qed.

Lemma Bk_weaken (ex ex' : Prop) B ok id (c : cconn) : (ex' -> ex) -> Bk ex B ok id c -> Bk ex' B ok id c.
Proof. intros H K. apply (Bk_frame ex ex' B ok id c c); auto; [apply N.le_refl|]. intros pb' G. exists pb'. split; [exact G | split; reflexivity]. Qed.

(* the moves that are not a critical section of stream id (MSend: written or not; MSendBack: handed back) *)
Definition untouched (id : N) (m : move) : Prop :=
  match m with MSend i _ | MSendBack i => i <> id | _ => True end.

Lemma notes_out l : forall (c : cconn), cc_out (cl_notes c l) = rev l ++ cc_out c.
Proof. intro c. apply (out_notes hstate). Qed.

(* what a move that leaves the stream alone adds to the trace says nothing about it *)
Lemma items_other id m (c : cconn) : valid m c -> ES hstate c -> id < cc_nextID c -> untouched id m ->
  dbl id (items m c) = [] /\ esl id (items m c) = 0%nat.
Proof.
  intros V E OP U. destruct m; cbn [items]; try (split; reflexivity).
  - destruct (quietb o) eqn:Q; [|split; reflexivity]. apply dbl_nostream. constructor; [|constructor]. destruct o; try discriminate; exact I.
  - destruct (cc_outQ c) as [|o q] eqn:Q; [split; reflexivity|]. apply dbl_nostream. constructor; [|constructor].
    pose proof (es_q _ _ E) as QQ. rewrite Q in QQ. inversion QQ as [|? ? QO QT]. destruct o; try contradiction; exact I.
  - cbn [untouched] in U. destruct (cl_pend_get (cc_pending c) id0) as [pb|]; [|split; reflexivity].
    destruct wr; [|split; reflexivity]. rewrite dbl_write_data, esl_write_data.
    replace (id0 =? id) with false by (symmetry; apply N.eqb_neq; exact U). split; reflexivity.
  - unfold dbl, esl. cbn [map concat list_sum fold_right o_data o_es app].
    replace (cc_nextID c =? id) with false by (symmetry; apply N.eqb_neq; clear - OP; lia). split; reflexivity.
Qed.

Lemma notes_pending l : forall (c : cconn), cc_pending (cl_notes c l) = cc_pending c.
Proof. intro c. apply (notes_fields hstate l c). Qed.

(* a move that leaves the stream alone keeps its pending body, or drops it, or changes its window *)
Lemma pget_other id m (c : cconn) : valid m c -> ES hstate c -> id < cc_nextID c -> untouched id m ->
  forall pb', pget (apply m c) id = Some pb' -> exists pb, pget c id = Some pb /\ same_pb pb' pb.
Proof.
  intros V E OP U pb'. unfold pget.
  assert (SAME : cc_pending (apply m c) = cc_pending c ->
                 cl_pend_get (cc_pending (apply m c)) id = Some pb' -> exists pb, cl_pend_get (cc_pending c) id = Some pb /\ same_pb pb' pb).
  { intros -> G. exists pb'. split; [exact G | split; reflexivity]. }
  pose proof (es_nodup _ _ E) as ND.
  destruct m; try (apply SAME; reflexivity).
  - apply SAME. cbn [apply]. destruct (quietb o); reflexivity.
  - apply SAME. cbn [apply]. unfold cl_take_req_count. destruct (cl_req_find _ _); reflexivity.
  - apply SAME. cbn [apply]. destruct (pushb o); [|reflexivity]. unfold cl_write_out. destruct (cc_closed c); reflexivity.
  - apply SAME. cbn [apply]. destruct (cc_outQ c); reflexivity.
  - apply SAME. cbn [apply]. apply (recv_data_fields hstate c fr has_res).
  - (* MSettings *)
    cbn [apply]. destruct (cl_settings_deserialize false payload) as [st|]; [|intro G; exists pb'; split; [exact G | split; reflexivity]].
    unfold cl_handle_settings, cl_apply_initial_window, cl_signal_window, cl_write_out.
    destruct (cl_settings_has st c_HeaderTableSize), (cs_hasWin st); cc_cbn; destruct (cc_closed c); cc_cbn;
      try (intro G; exists pb'; split; [exact G | split; reflexivity]);
      (rewrite pend_get_map by reflexivity; destruct (cl_pend_get (cc_pending c) id) as [pb|]; cbn [option_map]; [|discriminate];
       intro G; inversion G; exists pb; split; [reflexivity | apply pb_all_window]).
  - (* MAddWindow *)
    cbn [apply]. unfold cl_add_window, cl_signal_window. destruct (sid =? 0); cc_cbn; [intro G; exists pb'; split; [exact G | split; reflexivity]|].
    destruct (cl_pend_get (cc_pending c) sid) as [pb|] eqn:GS; cc_cbn; [|intro G; exists pb'; split; [exact G | split; reflexivity]].
    destruct (pend_get_In _ _ _ GS) as [HI EI].
    destruct (N.eq_dec id sid) as [->|NE].
    + rewrite <- EI. change (pb_id pb) with (pb_id (pbu_window pb (cl_i32 (pb_window pb + inc)))) at 1.
      rewrite pend_get_put_same by (cbn [pb_id pbu_window]; rewrite EI, GS; discriminate).
      intro G. inversion G. exists pb. split; [rewrite EI; exact GS | apply pb_all_window].
    + rewrite pend_get_put_other by (cbn [pb_id pbu_window]; rewrite EI; exact NE).
      intro G. exists pb'. split; [exact G | split; reflexivity].
  - (* MPendDel *)
    cbn [apply]. cc_cbn. destruct (N.eq_dec id id0) as [->|NE].
    + rewrite pend_get_del_same by exact ND. discriminate.
    + rewrite pend_get_del_other by exact NE. intro G. exists pb'. split; [exact G | split; reflexivity].
  - (* MPendAddDel *)
    apply SAME. destruct V as [PI _]. cbn [apply]. cc_cbn. apply pend_del_app_last.
    intros p HP. pose proof (es_fresh _ _ E p HP). clear - H PI. lia.
  - (* MRefill *)
    destruct V as (pb & pb1 & G & RC & RF). cbn [apply]. rewrite G, RF. cc_cbn.
    destruct (refill_same _ _ RF) as [RI _]. destruct (pend_get_In _ _ _ G) as [_ EI].
    destruct (N.eq_dec id id0) as [->|NE].
    + rewrite <- EI, <- RI. rewrite pend_get_put_same by (rewrite RI, EI, G; discriminate).
      intro G'. inversion G'. subst pb'. exists pb. split; [rewrite RI, EI; exact G | apply refill_all; assumption].
    + rewrite pend_get_put_other by (rewrite RI, EI; exact NE).
      intro G'. exists pb'. split; [exact G' | split; reflexivity].
  - (* MSend *)
    cbn [untouched] in U. destruct V as (pb & G & _). cbn [apply]. rewrite G. destruct (pend_get_In _ _ _ G) as [_ EI].
    assert (X : cl_pend_get (cc_pending (cs_conn c pb id0)) id = cl_pend_get (cc_pending c) id).
    { unfold cs_conn. destruct (cs_end c pb); cc_cbn.
      - apply pend_get_del_other. intro Y. apply U. symmetry. exact Y.
      - apply pend_get_put_other. unfold cs_pb. cbn [pb_id pbu_body pbu_window]. rewrite EI. intro Y. apply U. symmetry. exact Y. }
    destruct wr; [rewrite notes_pending|]; rewrite X; intro G'; exists pb'; (split; [exact G' | split; reflexivity]).
  - (* MSendBack *)
    cbn [untouched] in U. destruct V as (pb & G & _). cbn [apply]. rewrite G. unfold send_back. cbv zeta. destruct (pend_get_In _ _ _ G) as [_ EI].
    assert (X : cl_pend_get (cc_pending (cs_conn c pb id0)) id = cl_pend_get (cc_pending c) id).
    { unfold cs_conn. destruct (cs_end c pb); cc_cbn.
      - apply pend_get_del_other. intro Y. apply U. symmetry. exact Y.
      - apply pend_get_put_other. unfold cs_pb. cbn [pb_id pbu_body pbu_window]. rewrite EI. intro Y. apply U. symmetry. exact Y. }
    assert (Y : cc_pending (if (0 <? cs_n c pb)%Z then cl_add_window (cs_conn c pb id0) 0 (cs_n c pb) else cs_conn c pb id0) = cc_pending (cs_conn c pb id0))
      by (destruct (0 <? cs_n c pb)%Z; reflexivity).
    set (c3 := if (0 <? cs_n c pb)%Z then _ else _) in *.
    destruct (cl_pend_get (cc_pending c3) id0); cc_cbn; [rewrite pend_get_del_other by (intro Z; apply U; symmetry; exact Z)|];
      rewrite Y, X; intro G'; exists pb'; (split; [exact G' | split; reflexivity]).
  - apply SAME. cbn [apply]. destruct (negb _); reflexivity.
  - (* MHeaders *)
    destruct V as (_ & _ & _ & _ & _ & PB & _). cbn [apply]. destruct opb as [pb|]; cc_cbn; [|intro G; exists pb'; split; [exact G | split; reflexivity]].
    destruct (PB pb eq_refl) as [PI _]. rewrite pend_get_app_other by (rewrite PI; clear - OP; lia).
    intro G. exists pb'. split; [exact G | split; reflexivity].
Qed.

Lemma notes_wl l : forall (c : cconn), cc_wl_done (cl_notes c l) = cc_wl_done c /\ cc_wl_stuck (cl_notes c l) = cc_wl_stuck c.
Proof. induction l as [|o t IH]; intro c; cbn [cl_notes]; [split; reflexivity|]. destruct (IH (cl_note c o)) as [A B]. rewrite A, B. split; reflexivity. Qed.

(* no move revives the write loop *)
Lemma apply_live m (c : cconn) : cl_wl_live (apply m c) = true -> cl_wl_live c = true.
Proof.
  unfold cl_wl_live.
  assert (SAME : cc_wl_done (apply m c) = cc_wl_done c -> cc_wl_stuck (apply m c) = cc_wl_stuck c ->
                 negb (cc_wl_done (apply m c)) && negb (cc_wl_stuck (apply m c)) = true -> negb (cc_wl_done c) && negb (cc_wl_stuck c) = true).
  { intros -> ->. auto. }
  destruct m; try (apply SAME; reflexivity).
  - apply SAME; cbn [apply]; destruct (quietb o); reflexivity.
  - cbn [apply]. cc_cbn. discriminate.
  - cbn [apply]. cc_cbn. rewrite andb_false_r. discriminate.
  - apply SAME; cbn [apply]; unfold cl_take_req_count; destruct (cl_req_find _ _); reflexivity.
  - apply SAME; cbn [apply]; (destruct (pushb o); [|reflexivity]); unfold cl_write_out; destruct (cc_closed c); reflexivity.
  - apply SAME; cbn [apply]; destruct (cc_outQ c); reflexivity.
  - apply SAME; cbn [apply]; unfold recv_data, cl_update_window, cl_write_out; cc_cbn;
      repeat match goal with |- context [if ?b then _ else _] => destruct b end; reflexivity.
  - apply SAME; cbn [apply]; (destruct (cl_settings_deserialize false payload) as [st|]; [|reflexivity]);
      unfold cl_handle_settings, cl_apply_initial_window, cl_signal_window, cl_write_out; cc_cbn;
      destruct (cl_settings_has st c_HeaderTableSize), (cs_hasWin st); cc_cbn;
      match goal with |- context [if ?b then _ else _] => destruct b end; reflexivity.
  - apply SAME; cbn [apply]; unfold cl_add_window, cl_signal_window; (destruct (sid =? 0); [reflexivity|]);
      destruct (cl_pend_get _ _); reflexivity.
  - apply SAME; cbn [apply]; (destruct (cl_pend_get _ _) as [pb|]; [|reflexivity]); destruct (cl_refill pb); reflexivity.
  - apply SAME; cbn [apply]; (destruct (cl_pend_get _ _) as [pb|]; [|reflexivity]);
      (destruct wr; [destruct (notes_wl (cl_write_data (cc_maxFrame (cs_conn c pb id)) id (cs_chunk c pb) (cs_end c pb)) (cs_conn c pb id)) as [A B]; rewrite ?A, ?B|]);
      unfold cs_conn; destruct (cs_end c pb); reflexivity.
  - apply SAME; cbn [apply]; (destruct (cl_pend_get _ _) as [pb|]; [|reflexivity]); sb_cases c pb; reflexivity.
  - apply SAME; cbn [apply]; destruct (negb (cc_encTableSize c =? cc_encTableSeen c)); reflexivity.
  - apply SAME; cbn [apply]; destruct opb; reflexivity.
Qed.

Lemma mv_Bk (ex : Prop) B ok id m (c : cconn) : valid m c -> ES hstate c -> untouched id m ->
  Bk ex B ok id c -> Bk ex B ok id (apply m c).
Proof.
  intros V E U K. pose proof (bk_open _ _ _ _ _ K) as OP.
  destruct (items_other id m c V E OP U) as [I1 I2].
  apply (Bk_frame ex ex B ok id c); auto.
  - apply (apply_ids hstate enc_field enc_set_max m c V).
  - rewrite (out_apply hstate enc_field enc_set_max), dbytes_app, I1, app_nil_r. reflexivity.
  - rewrite (out_apply hstate enc_field enc_set_max), esn_app, I2, Nat.add_0_r. reflexivity.
  - apply pget_other; assumption.
Qed.

Lemma mvs_Bk (ex : Prop) B ok id (c : cconn) ms c' : mvs c ms c' -> Forall (untouched id) ms -> ES hstate c ->
  Bk ex B ok id c -> Bk ex B ok id c' /\ ES hstate c'.
Proof.
  induction 1 as [c|c m ms c' V M IH]; intros F E K; [split; assumption|]. inversion F; subst.
  apply IH; [assumption | apply mv_ES; assumption | apply mv_Bk; assumption].
Qed.

Lemma mvs_ES (c : cconn) ms c' : mvs c ms c' -> ES hstate c -> ES hstate c'.
Proof. induction 1 as [c|c m ms c' V M IH]; intro E; [exact E|]. apply IH. apply mv_ES; assumption. Qed.

Lemma mvs_live (c : cconn) ms c' : mvs c ms c' -> cl_wl_live c' = true -> cl_wl_live c = true.
Proof. induction 1 as [c|c m ms c' V M IH]; intro L; [exact L|]. eapply apply_live. apply IH. exact L. Qed.

Lemma D_Bk (P : move -> Prop) g (ex : Prop) B ok id (c c' : cconn) : D P g c c' -> (forall m, P m -> untouched id m) -> ES hstate c ->
  Bk ex B ok id c -> Bk ex B ok id c'.
Proof.
  intros (ms & M & F & _) H E K. apply (mvs_Bk ex B ok id c ms c' M); [|exact E | exact K].
  eapply Forall_impl; [|exact F]. exact H.
Qed.

Lemma D_ES (P : move -> Prop) g (c c' : cconn) : D P g c c' -> ES hstate c -> ES hstate c'.
Proof. intros (ms & M & _) E. eapply mvs_ES; eassumption. Qed.

Lemma D_live (P : move -> Prop) g (c c' : cconn) : D P g c c' -> cl_wl_live c' = true -> cl_wl_live c = true.
Proof. intros (ms & M & _). eapply mvs_live. exact M. Qed.

Lemma anym_untouched id (m : move) : anym m -> untouched id m.
Proof. destruct m; cbn; auto; intros []. Qed.

End Bk.
