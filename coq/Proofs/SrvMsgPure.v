(* Proofs/SrvMsgPure.v - C20, the pure part: what `header_field`, folded over a decoded field list, accepts.
   No decoder, no connection state.
     header_field_vstep   header_field = size check, then the eight-flag automaton vstep
     fields_loop_inr/inl  the fold
     parse_uint_decimal   parseUint = 1*DIGIT, at most 2^63-1 *)
From H2V Require Import Base.Bytes Base.MachineInt Base.Result Gen.GenConsts Impl.ServerConn Spec.Http2Messages
     Proofs.SrvBase Proofs.SrvMsgDefs.
From Coq Require Import ZArith Lia ZifyN ZifyNat ZifyBool.
Local Open Scope N_scope.

Lemma bytes_eqb_eq a : forall b, bytes_eqb a b = true <-> a = b.
Proof.
  induction a as [|x a IH]; intros [|y b]; cbn [bytes_eqb]; split; try reflexivity; try discriminate.
  - intro H. apply andb_true_iff in H. destruct H as [H1 H2]. apply IH in H2. f_equal; [lia | assumption].
  - intro H. inversion H; subst. apply andb_true_iff. split; [lia | apply IH; reflexivity].
Qed.
Lemma bytes_eqb_refl a : bytes_eqb a a = true.
Proof. apply bytes_eqb_eq. reflexivity. Qed.
Lemma bytes_eqb_neq a b : a <> b -> bytes_eqb a b = false.
Proof. intro H. destruct (bytes_eqb a b) eqn:E; [|reflexivity]. apply bytes_eqb_eq in E. contradiction. Qed.

(* ---------- header_field is the size check followed by vstep ---------- *)
Lemma header_field_vstep cfg h k v :
  header_field cfg h k v =
  let size := (hd_headerListSize h + Z.of_N (len k) + Z.of_N (len v) + 32)%Z in
  if list_over cfg size then inl (EGoAway c_EnhanceYourCalm)
  else match vstep cfg (vabs h) (classify k) v with
       | inl code => inl (EReset code)
       | inr st' => inr (hdr_of h st' size (hd_blockFields h + 1) (req_step (hd_req h) (k, v)))
       end.
Proof.
  unfold header_field, list_over, classify, req_step, classify. cbv zeta. cbn [fst snd].
  destruct ((0 <? cf_maxHeaderList cfg)%Z && _)%bool; [reflexivity|].
  destruct (has_upper_case k); [reflexivity|].
  destruct (ServerConn.is_pseudo k).
  - cbn [hd_regularSeen hd_pMethod hd_pPath hd_pScheme hd_pAuth].
    destruct (bytes_eqb k S_method).
    { unfold vstep, vabs; cbn [v_r v_m]. destruct (hd_regularSeen h); [reflexivity|]. destruct (hd_pMethod h); reflexivity. }
    destruct (bytes_eqb k S_path).
    { unfold vstep, vabs; cbn [v_r v_p]. destruct (hd_regularSeen h); [reflexivity|]. destruct (hd_pPath h); reflexivity. }
    destruct (bytes_eqb k S_scheme).
    { unfold vstep, vabs; cbn [v_r v_s]. destruct (hd_regularSeen h); [reflexivity|]. destruct (hd_pScheme h); reflexivity. }
    destruct (bytes_eqb k S_authority).
    { unfold vstep, vabs; cbn [v_r v_a]. destruct (hd_regularSeen h); [reflexivity|]. destruct (hd_pAuth h); reflexivity. }
    unfold vstep. destruct (hd_regularSeen h); reflexivity.
  - destruct (is_connection_specific k); [reflexivity|].
    destruct (bytes_eqb k S_te) eqn:T.
    { apply bytes_eqb_eq in T. subst k. cbn [andb]. unfold vstep.
      destruct (bytes_eqb v S_trailers); cbn [negb]; reflexivity. }
    cbn [andb]. destruct (bytes_eqb k S_content_length).
    { unfold vstep, body_over. destruct (parse_uint v) as [n|]; [|reflexivity].
      destruct ((0 <? cf_maxBody cfg)%Z && _)%bool; [reflexivity|].
      unfold vabs; cbn [v_has v_cl hd_hasCL hd_contentLength].
      destruct (hd_hasCL h && negb (n =? hd_contentLength h)%Z)%bool; reflexivity. }
    reflexivity.
Qed.

(* ---------- the fold ---------- *)
Lemma fsize_nonneg fs : (0 <= fsize fs)%Z.
Proof. induction fs as [|f t IH]; cbn [fsize fold_right]; [lia|]. fold (fsize t). lia. Qed.

Lemma fsize_cons f t : fsize (f :: t) = (Z.of_N (len (fst f)) + Z.of_N (len (snd f)) + 32 + fsize t)%Z.
Proof. reflexivity. Qed.

Lemma fsize_app a b : fsize (a ++ b) = (fsize a + fsize b)%Z.
Proof. induction a as [|f t IH]; [reflexivity|]. rewrite <- app_comm_cons, !fsize_cons, IH. lia. Qed.

Lemma list_over_mono cfg a b : (a <= b)%Z -> list_over cfg b = false -> list_over cfg a = false.
Proof. unfold list_over. lia. Qed.

Lemma len_cons {A} (x : A) (l : list A) : N.of_nat (length (x :: l)) = 1 + N.of_nat (length l).
Proof. cbn [length]. lia. Qed.

Lemma vabs_hdr_of h st size nf rq : vabs (hdr_of h st size nf rq) = st.
Proof. destruct st; reflexivity. Qed.

Lemma req_fold_cons r f t : req_fold r (f :: t) = req_fold (req_step r f) t.
Proof. reflexivity. Qed.

Lemma fields_loop_inr cfg : forall fs h st',
  list_over cfg (hd_headerListSize h + fsize fs) = false ->
  vrun cfg (vabs h) fs = inr st' ->
  fields_loop cfg h fs =
  inr (hdr_of h st' (hd_headerListSize h + fsize fs) (hd_blockFields h + N.of_nat (length fs)) (req_fold (hd_req h) fs)).
Proof.
  induction fs as [|[k v] t IH]; intros h st' Hs Hv.
  - cbn [vrun] in Hv. inversion Hv; subst. cbn [fields_loop fsize fold_right length req_fold fold_left].
    destruct h; unfold hdr_of, vabs; cbn. f_equal. f_equal; lia.
  - cbn [vrun] in Hv. cbn [fields_loop]. rewrite header_field_vstep. cbv zeta.
    rewrite fsize_cons in Hs. cbn [fst snd] in Hs. pose proof (fsize_nonneg t) as Ht.
    assert (Hs1 : list_over cfg (hd_headerListSize h + Z.of_N (len k) + Z.of_N (len v) + 32) = false)
      by (eapply list_over_mono; [|exact Hs]; lia).
    rewrite Hs1.
    destruct (vstep cfg (vabs h) (classify k) v) as [code|st1] eqn:E; [discriminate|].
    rewrite (IH _ st'); [| | rewrite vabs_hdr_of; exact Hv ].
    + f_equal. unfold hdr_of. cbn [hd_headersFinished hd_prev hd_headerListSize hd_blockFields hd_req].
      rewrite fsize_cons, req_fold_cons, len_cons. cbn [fst snd]. f_equal; lia.
    + unfold hdr_of. cbn [hd_headerListSize]. eapply list_over_mono; [|exact Hs]. lia.
Qed.

Lemma fields_loop_inl cfg : forall fs h code,
  list_over cfg (hd_headerListSize h + fsize fs) = false ->
  vrun cfg (vabs h) fs = inl code ->
  fields_loop cfg h fs = inl (EReset code).
Proof.
  induction fs as [|[k v] t IH]; intros h code Hs Hv; [discriminate|].
  cbn [vrun] in Hv. cbn [fields_loop]. rewrite header_field_vstep. cbv zeta.
  rewrite fsize_cons in Hs. cbn [fst snd] in Hs. pose proof (fsize_nonneg t) as Ht.
  assert (Hs1 : list_over cfg (hd_headerListSize h + Z.of_N (len k) + Z.of_N (len v) + 32) = false)
    by (eapply list_over_mono; [|exact Hs]; lia).
  rewrite Hs1.
  destruct (vstep cfg (vabs h) (classify k) v) as [c|st1] eqn:E.
  - inversion Hv; subst. reflexivity.
  - apply IH; [| rewrite vabs_hdr_of; exact Hv]. unfold hdr_of. cbn [hd_headerListSize].
    eapply list_over_mono; [|exact Hs]. lia.
Qed.

(* within the header-list limit the fold is the automaton *)
Lemma fields_loop_vrun cfg fs h :
  list_over cfg (hd_headerListSize h + fsize fs) = false ->
  fields_loop cfg h fs =
  match vrun cfg (vabs h) fs with
  | inl code => inl (EReset code)
  | inr st' => inr (hdr_of h st' (hd_headerListSize h + fsize fs) (hd_blockFields h + N.of_nat (length fs)) (req_fold (hd_req h) fs))
  end.
Proof.
  intro H. destruct (vrun cfg (vabs h) fs) as [code|st'] eqn:V;
    [apply fields_loop_inl | apply fields_loop_inr]; assumption.
Qed.

(* over the header-list limit: some field is refused (with GOAWAY(ENHANCE_YOUR_CALM) if it is the one that
   crosses the limit, with the stream error of an earlier invalid field otherwise) *)
Lemma fields_loop_over cfg : forall fs h,
  list_over cfg (hd_headerListSize h) = false ->
  list_over cfg (hd_headerListSize h + fsize fs) = true -> exists e, fields_loop cfg h fs = inl e.
Proof.
  induction fs as [|[k v] t IH]; intros h H0 Hs.
  - exfalso. cbn [fsize fold_right] in Hs. rewrite Z.add_0_r in Hs. congruence.
  - cbn [fields_loop]. rewrite header_field_vstep. cbv zeta.
    destruct (list_over cfg (hd_headerListSize h + Z.of_N (len k) + Z.of_N (len v) + 32)) eqn:E1; [eauto|].
    destruct (vstep cfg (vabs h) (classify k) v) as [c|st1] eqn:E; [eauto|].
    apply IH; unfold hdr_of; cbn [hd_headerListSize]; [exact E1|].
    rewrite fsize_cons in Hs. cbn [fst snd] in Hs. rewrite <- Hs. f_equal. lia.
Qed.

(* ---------- parseUint is 1*DIGIT up to 2^63-1 ---------- *)
Definition dec_fold (b : bytes) (acc : N) : N := fold_left (fun acc c => 10 * acc + (c - 48)) b acc.

Lemma dec_fold_ge b : forall acc, acc <= dec_fold b acc.
Proof.
  induction b as [|c r IH]; intro acc; cbn [dec_fold fold_left]; [lia|].
  fold (dec_fold r (10 * acc + (c - 48))). specialize (IH (10 * acc + (c - 48))). lia.
Qed.

Lemma parse_uint_loop_spec : forall b acc, (Z.of_N acc <= MAXINT)%Z ->
  parse_uint_loop b (Z.of_N acc) =
  if forallb digit b
  then (if (Z.of_N (dec_fold b acc) <=? MAXINT)%Z then Some (Z.of_N (dec_fold b acc)) else None)
  else None.
Proof.
  induction b as [|c r IH]; intros acc Ha.
  - cbn [parse_uint_loop forallb dec_fold fold_left]. destruct (Z.leb_spec (Z.of_N acc) MAXINT); [reflexivity | lia].
  - cbn [parse_uint_loop forallb dec_fold fold_left]. fold (dec_fold r (10 * acc + (c - 48))).
    unfold digit at 1.
    destruct ((c <? 48) || (57 <? c))%bool eqn:Ed.
    { replace ((48 <=? c) && (c <=? 57))%bool with false by lia. reflexivity. }
    replace ((48 <=? c) && (c <=? 57))%bool with true by lia. cbn [andb].
    set (d := Z.of_N (c - 48)).
    assert (Hd : (0 <= d <= 9)%Z) by (subst d; lia).
    pose proof (Z.div_mod (MAXINT - d) 10 ltac:(lia)) as Hdm.
    pose proof (Z.mod_pos_bound (MAXINT - d) 10 ltac:(lia)) as Hmb.
    destruct (Z.ltb_spec ((MAXINT - d) / 10) (Z.of_N acc)) as [Hov|Hok].
    + (* overflow: the value is above MAXINT whatever follows *)
      pose proof (dec_fold_ge r (10 * acc + (c - 48))) as Hge.
      assert (Hbig : (MAXINT < Z.of_N (dec_fold r (10 * acc + (c - 48))))%Z) by (subst d; lia).
      destruct (forallb digit r); [|reflexivity].
      destruct (Z.leb_spec (Z.of_N (dec_fold r (10 * acc + (c - 48)))) MAXINT); [lia | reflexivity].
    + replace (Z.of_N acc * 10 + d)%Z with (Z.of_N (10 * acc + (c - 48))) by (subst d; lia).
      apply IH. subst d. lia.
Qed.

Lemma parse_uint_decimal v :
  parse_uint v = match decimal v with
                 | Some n => if (Z.of_N n <=? MAXINT)%Z then Some (Z.of_N n) else None
                 | None => None
                 end.
Proof.
  unfold parse_uint, decimal. destruct v as [|c r]; [reflexivity|].
  change 0%Z with (Z.of_N 0). rewrite parse_uint_loop_spec by (unfold MAXINT; lia).
  fold (dec_fold (c :: r) 0). destruct (forallb digit (c :: r)); reflexivity.
Qed.

(* ---------- names: the specification's tests through classify ---------- *)
Definition cls_eqb (a b : cls) : bool :=
  match a, b with
  | KUpper, KUpper | KMethod, KMethod | KPath, KPath | KScheme, KScheme | KAuth, KAuth | KBadPseudo, KBadPseudo
  | KConn, KConn | KTe, KTe | KCL, KCL | KPlain, KPlain => true
  | _, _ => false
  end.
Definition cls_pseudo (c : cls) : bool :=
  match c with KMethod | KPath | KScheme | KAuth | KBadPseudo => true | _ => false end.

Definition consts : list bytes :=
  [S_method; S_path; S_scheme; S_authority; S_connection; S_keep_alive; S_proxy_connection; S_transfer_encoding;
   S_upgrade; S_te; S_content_length].

Lemma consts_dec k : In k consts \/ forallb (fun c => negb (bytes_eqb k c)) consts = true.
Proof.
  destruct (forallb (fun c => negb (bytes_eqb k c)) consts) eqn:E; [right; reflexivity | left].
  apply not_true_iff_false in E. rewrite forallb_forall in E.
  destruct (in_dec (list_eq_dec N.eq_dec) k consts) as [I|NI]; [assumption|].
  exfalso. apply E. intros c Hc. rewrite bytes_eqb_neq; [reflexivity|]. intro; subst. contradiction.
Qed.

Lemma lower_upper k : lower_case k = negb (has_upper_case k).
Proof. reflexivity. Qed.

Record name_view (k v : bytes) : Prop := mkNV {
  nv_up : classify k <> KUpper;
  nv_pseudo : Http2Messages.is_pseudo (k, v) = cls_pseudo (classify k);
  nv_m : has_name P_method (k, v) = cls_eqb (classify k) KMethod;
  nv_p : has_name P_path (k, v) = cls_eqb (classify k) KPath;
  nv_s : has_name P_scheme (k, v) = cls_eqb (classify k) KScheme;
  nv_a : has_name P_authority (k, v) = cls_eqb (classify k) KAuth;
  nv_conn : name_in connection_specific (k, v) = cls_eqb (classify k) KConn;
  nv_te : has_name H_te (k, v) = cls_eqb (classify k) KTe;
  nv_cl : has_name H_content_length (k, v) = cls_eqb (classify k) KCL
}.

Lemma is_pseudo_eqb y k' : ServerConn.is_pseudo (y :: k') = (y =? 58).
Proof.
  unfold ServerConn.is_pseudo. destruct y as [|p]; [reflexivity|].
  do 6 (destruct p as [p|p|]; try reflexivity).
Qed.
Lemma not_pseudo_neq k r : ServerConn.is_pseudo k = false -> bytes_eqb k (58 :: r) = false.
Proof.
  destruct k as [|x k']; [reflexivity|]. rewrite is_pseudo_eqb. cbn [bytes_eqb]. intro H. rewrite H. reflexivity.
Qed.
Lemma pseudo_neq k x r : ServerConn.is_pseudo k = true -> x <> 58 -> bytes_eqb k (x :: r) = false.
Proof.
  destruct k as [|y k']; [reflexivity|]. rewrite is_pseudo_eqb. cbn [bytes_eqb]. intros H Hx.
  apply N.eqb_eq in H. subst y. destruct (N.eqb_spec 58 x); [congruence | reflexivity].
Qed.

Lemma view k v : lower_case k = true -> name_view k v.
Proof.
  intro L. rewrite lower_upper in L. apply negb_true_iff in L.
  destruct (consts_dec k) as [I|NI].
  - cbn [consts In] in I.
    repeat (destruct I as [I|I]; [subst k; constructor; vm_compute; congruence|]). destruct I.
  - cbn [consts forallb] in NI. repeat (apply andb_true_iff in NI; destruct NI as [? NI]).
    repeat match goal with H : negb _ = true |- _ => apply negb_true_iff in H end.
    assert (C : classify k = if ServerConn.is_pseudo k then KBadPseudo else KPlain).
    { unfold classify, is_connection_specific. rewrite L.
      repeat match goal with H : bytes_eqb k _ = false |- _ => rewrite H; clear H end. reflexivity. }
    assert (P : Http2Messages.is_pseudo (k, v) = ServerConn.is_pseudo k) by reflexivity.
    destruct (ServerConn.is_pseudo k) eqn:Ps; constructor; rewrite ?P, C; try discriminate; try assumption;
      cbn [cls_eqb cls_pseudo]; unfold name_in, connection_specific; cbn [existsb]; unfold has_name; cbn [fst];
      repeat match goal with
             | H : bytes_eqb k ?c = false |- context [bytes_eqb k ?d] => change d with c; rewrite H
             end; reflexivity.
Qed.

(* ---------- the automaton's verdict is wf_request ---------- *)
Definition lowerf (f : field) : bool := lower_case (fst f).
Definition none (n : bytes) (fs : list field) : bool := negb (existsb (has_name n) fs).
Definition upto (seen : bool) (n : bytes) (fs : list field) : bool := if seen then none n fs else at_most_once n fs.

Lemma filter_none {A} (p : A -> bool) l : Nat.leb (length (filter p l)) 0 = negb (existsb p l).
Proof. induction l as [|x t IH]; [reflexivity|]. cbn [filter existsb]. destruct (p x); [reflexivity | exact IH]. Qed.

Lemma none_cons n f t : none n (f :: t) = negb (has_name n f) && none n t.
Proof. unfold none. cbn [existsb]. apply negb_orb. Qed.
Lemma amo_cons n f t : at_most_once n (f :: t) = if has_name n f then none n t else at_most_once n t.
Proof.
  unfold at_most_once, occurrences, none. cbn [filter]. destruct (has_name n f); [|reflexivity].
  cbn [length Nat.leb]. apply filter_none.
Qed.
Lemma once_split n fs : once n fs = existsb (has_name n) fs && at_most_once n fs.
Proof.
  unfold once, at_most_once, occurrences. induction fs as [|f t IH]; [reflexivity|].
  cbn [filter existsb]. destruct (has_name n f); [|exact IH].
  cbn [length orb andb]. destruct (length (filter (has_name n) t)) as [|[|m]]; reflexivity.
Qed.
Lemma pne_none t : existsb (has_name P_path) t = false -> path_not_empty t = true.
Proof.
  unfold path_not_empty. induction t as [|f t IH]; [reflexivity|]. cbn [existsb forallb]. intro H.
  apply orb_false_iff in H. destruct H as [H1 H2]. rewrite H1, (IH H2). reflexivity.
Qed.
Lemma bytes_eqb_nil v : bytes_eqb v [] = is_nil v.
Proof. destruct v; reflexivity. Qed.

Section Verdict.
Variable cfg : config.
Variable n : N.
Hypothesis Hbody : body_over cfg (Z.of_N n) = false.
Hypothesis Hn : (Z.of_N n <= MAXINT)%Z.

Definition TR (tr : list field) : bool :=
  forallb lowerf tr && no_pseudo tr && no_connection_fields tr && te_ok tr && content_length_ok n tr.

Lemma vacc_cons st k v t :
  vacc cfg st ((k, v) :: t) n = match vstep cfg st (classify k) v with inl _ => false | inr st1 => vacc cfg st1 t n end.
Proof. unfold vacc. cbn [vrun]. destruct (vstep cfg st (classify k) v); reflexivity. Qed.

Ltac bsplit := rewrite ?andb_true_iff, ?negb_true_iff, ?orb_false_iff, ?negb_false_iff in *.

Lemma TR_cons k v t :
  TR ((k, v) :: t) = true <->
  lower_case k = true /\ Http2Messages.is_pseudo (k, v) = false /\ name_in connection_specific (k, v) = false /\
  (if has_name H_te (k, v) then bytes_eqb v V_trailers else true) = true /\
  (if has_name H_content_length (k, v) then match decimal v with Some m => m =? n | None => false end else true) = true /\
  TR t = true.
Proof.
  unfold TR, no_pseudo, no_connection_fields, te_ok, content_length_ok, lowerf. cbn [forallb existsb fst snd].
  bsplit. tauto.
Qed.

Lemma upper_rejected st k v : lower_case k = false -> vstep cfg st (classify k) v = inl c_ProtocolError.
Proof.
  rewrite lower_upper. intro H. apply negb_false_iff in H. unfold classify. rewrite H. reflexivity.
Qed.

(* content-length: one step *)
Definition cl_field_ok (v : bytes) : bool := match decimal v with Some m => m =? n | None => false end.

Lemma cl_step st v :
  match vstep cfg st KCL v with
  | inl _ => v_cl_ok st n = true -> cl_field_ok v = false
  | inr st1 => st1 = mkV (v_m st) (v_s st) (v_p st) (v_a st) true (v_cl st1) true (v_path st) /\
               (v_cl_ok st1 n = true <-> v_cl_ok st n = true /\ cl_field_ok v = true)
  end.
Proof.
  unfold vstep, cl_field_ok. rewrite parse_uint_decimal. destruct (decimal v) as [m|]; [|reflexivity].
  destruct (Z.leb_spec (Z.of_N m) MAXINT) as [Hm|Hm].
  2:{ intros _. lia. }
  destruct (body_over cfg (Z.of_N m)) eqn:Bo.
  { intros _. destruct (N.eqb_spec m n); [subst; congruence | reflexivity]. }
  unfold v_cl_ok. destruct (v_has st); cbn [andb].
  - destruct (Z.eqb_spec (Z.of_N m) (v_cl st)) as [E|E]; cbn [negb v_has v_cl].
    + split; [reflexivity|]. lia.
    + lia.
  - cbn [v_has v_cl]. split; [reflexivity|]. lia.
Qed.

(* after a regular field only regular fields may follow *)
Lemma vacc_regular : forall fs st, v_r st = true -> (vacc cfg st fs n = true <-> v_cl_ok st n = true /\ TR fs = true).
Proof.
  induction fs as [|[k v] t IH]; intros st Hr.
  - unfold vacc, TR. cbn. tauto.
  - rewrite vacc_cons, TR_cons. destruct (lower_case k) eqn:L.
    2:{ rewrite upper_rejected by assumption. split; [discriminate | intros (_ & ? & _); discriminate]. }
    destruct (view k v L) as [Vu Vp Vm Vpa Vs Va Vc Vt Vl]. rewrite Vp, Vc, Vt, Vl.
    destruct (classify k) eqn:C; try congruence; cbn [cls_pseudo cls_eqb].
    1-5,6: (unfold vstep; rewrite ?Hr; cbn [orb]; split; [discriminate | intros (_ & _ & ? & ? & _); discriminate]).
    + (* te *) unfold vstep. change V_trailers with S_trailers. destruct (bytes_eqb v S_trailers).
      * rewrite IH by reflexivity. unfold v_cl_ok; cbn [v_has v_cl]. tauto.
      * split; [discriminate | intros (_ & _ & _ & _ & ? & _); discriminate].
    + (* content-length *)
      pose proof (cl_step st v) as S. fold (cl_field_ok v). destruct (vstep cfg st KCL v) as [c|st1].
      * split; [discriminate|]. intros (A & _ & _ & _ & _ & B & _). rewrite (S A) in B. discriminate.
      * destruct S as [E S]. rewrite IH by (rewrite E; reflexivity). rewrite S. tauto.
    + (* plain *) unfold vstep. rewrite IH by reflexivity. unfold v_cl_ok; cbn [v_has v_cl]. tauto.
Qed.

(* the first block, from any state of the flags *)
Definition ex (nm : bytes) (fs : list field) : bool := existsb (has_name nm) fs.

Definition G (st : vst) (fs : list field) : Prop :=
  forallb lowerf fs = true /\ pseudo_defined fs = true /\
  (if v_r st then no_pseudo fs else pseudo_first fs) = true /\
  no_connection_fields fs = true /\ te_ok fs = true /\
  upto (v_m st) P_method fs = true /\ upto (v_s st) P_scheme fs = true /\
  upto (v_p st) P_path fs = true /\ upto (v_a st) P_authority fs = true /\
  (v_m st || ex P_method fs) = true /\ (v_s st || ex P_scheme fs) = true /\ (v_p st || ex P_path fs) = true /\
  (if ex P_path fs then path_not_empty fs else negb (is_nil (v_path st))) = true /\
  v_cl_ok st n = true /\ content_length_ok n fs = true.

Definition accepted (st : vst) (fs : list field) : Prop :=
  exists st1, vrun cfg st fs = inr st1 /\ v_valid st1 = true /\ v_cl_ok st1 n = true.

Lemma upto_cons seen nm f t :
  upto seen nm (f :: t) = if has_name nm f then negb seen && none nm t else upto seen nm t.
Proof. unfold upto. rewrite none_cons, amo_cons. destruct seen, (has_name nm f); reflexivity. Qed.

Lemma G_cons st k v t :
  G st ((k, v) :: t) <->
  lower_case k = true /\ forallb lowerf t = true /\
  (if Http2Messages.is_pseudo (k, v) then name_in request_pseudo (k, v) else true) = true /\ pseudo_defined t = true /\
  (if Http2Messages.is_pseudo (k, v) then (if v_r st then false else pseudo_first t) else no_pseudo t) = true /\
  name_in connection_specific (k, v) = false /\ no_connection_fields t = true /\
  (if has_name H_te (k, v) then bytes_eqb v V_trailers else true) = true /\ te_ok t = true /\
  (if has_name P_method (k, v) then negb (v_m st) && none P_method t else upto (v_m st) P_method t) = true /\
  (if has_name P_scheme (k, v) then negb (v_s st) && none P_scheme t else upto (v_s st) P_scheme t) = true /\
  (if has_name P_path (k, v) then negb (v_p st) && none P_path t else upto (v_p st) P_path t) = true /\
  (if has_name P_authority (k, v) then negb (v_a st) && none P_authority t else upto (v_a st) P_authority t) = true /\
  (v_m st || (has_name P_method (k, v) || ex P_method t)) = true /\
  (v_s st || (has_name P_scheme (k, v) || ex P_scheme t)) = true /\
  (v_p st || (has_name P_path (k, v) || ex P_path t)) = true /\
  (if has_name P_path (k, v) || ex P_path t
   then (if has_name P_path (k, v) then negb (bytes_eqb v []) else true) && path_not_empty t
   else negb (is_nil (v_path st))) = true /\
  v_cl_ok st n = true /\
  (if has_name H_content_length (k, v) then cl_field_ok v else true) = true /\ content_length_ok n t = true.
Proof.
  unfold G. rewrite !upto_cons.
  unfold pseudo_defined, no_connection_fields, te_ok, content_length_ok, path_not_empty, ex, lowerf, no_pseudo, cl_field_ok.
  cbn [forallb existsb pseudo_first fst snd].
  destruct (Http2Messages.is_pseudo (k, v)), (v_r st); cbn [negb orb]; bsplit; (split; intros HH; decompose [and] HH; clear HH; repeat split; assumption).
Qed.

Lemma accepted_cons st k v t :
  accepted st ((k, v) :: t) <-> exists st1, vstep cfg st (classify k) v = inr st1 /\ accepted st1 t.
Proof.
  unfold accepted. cbn [vrun]. destruct (vstep cfg st (classify k) v) as [c|st1].
  - split; [intros (? & ? & _); discriminate | intros (? & ? & _); discriminate].
  - split; [intros H; exists st1; auto | intros (? & E & H); inversion E; subst; assumption].
Qed.

Lemma ex_inr st' (P : vst -> Prop) : (exists st1 : vst, @inr N vst st' = inr st1 /\ P st1) <-> P st'.
Proof. split; [intros (? & E & H); inversion E; subst; assumption | intro H; exists st'; auto]. Qed.
Lemma ex_inl c (P : vst -> Prop) : (exists st1 : vst, @inl N vst c = inr st1 /\ P st1) <-> False.
Proof. split; [intros (? & E & _); discriminate | intros []]. Qed.

Ltac absurd_hyp :=
  match goal with
  | H : false = true |- _ => discriminate H
  | H : true = false |- _ => discriminate H
  | H : False |- _ => destruct H
  end.
Ltac fin := bsplit; split; intros HH; try (exfalso; exact HH); decompose [and] HH; clear HH;
            try absurd_hyp; repeat split; auto; try (rewrite ?orb_true_r; reflexivity).
Ltac gstep IH := cbn [orb negb andb]; rewrite ?ex_inr, ?ex_inl, ?IH; unfold G, v_cl_ok; cbn [v_m v_s v_p v_a v_r v_cl v_has v_path upto orb negb andb].

Lemma V_trailers_eq : V_trailers = S_trailers.
Proof. reflexivity. Qed.

Lemma accepted_G : forall fs st, accepted st fs <-> G st fs.
Proof.
  induction fs as [|[k v] t IH]; intros st.
  - unfold accepted, G, v_valid, ex. cbn [vrun forallb pseudo_defined existsb]. unfold upto, none, at_most_once, no_pseudo.
    cbn. rewrite !orb_false_r. split.
    + intros (st1 & E & V & C). inversion E; subst. bsplit. destruct V as [[[-> ->] ->] ?].
      destruct (v_r st1), (v_a st1); repeat split; auto.
    + intros H. exists st. bsplit. decompose [and] H. repeat split; auto.
  - rewrite accepted_cons, G_cons. destruct (lower_case k) eqn:L.
    2:{ rewrite upper_rejected by assumption. split; [intros (? & ? & _); discriminate | intros (? & _); discriminate]. }
    destruct (view k v L) as [Vu Vp Vm Vpa Vs Va Vc Vt Vl]. rewrite Vp, Vm, Vpa, Vs, Va, Vc, Vt, Vl.
    unfold name_in, request_pseudo. cbn [existsb]. rewrite Vm, Vpa, Vs, Va.
    destruct (classify k) eqn:C; try congruence; cbn [cls_pseudo cls_eqb orb andb]; unfold vstep.
    + abstract (destruct (v_r st) eqn:Er, (v_m st) eqn:Em; gstep IH; rewrite ?Er, ?Em; cbn [negb andb orb]; fin).
    + destruct (v_r st) eqn:Er, (v_p st) eqn:Em; gstep IH; rewrite ?Er, ?Em; cbn [negb andb orb]; try solve [abstract fin].
      unfold none, ex. rewrite bytes_eqb_nil. destruct (existsb (has_name P_path) t) eqn:X; cbn [negb]; [abstract fin|].
      rewrite (pne_none _ X). abstract fin.
    + abstract (destruct (v_r st) eqn:Er, (v_s st) eqn:Em; gstep IH; rewrite ?Er, ?Em; cbn [negb andb orb]; fin).
    + abstract (destruct (v_r st) eqn:Er, (v_a st) eqn:Em; gstep IH; rewrite ?Er, ?Em; cbn [negb andb orb]; fin).
    + destruct (v_r st).
      * abstract (gstep IH; fin).
      * abstract (gstep IH; fin).
    + abstract (gstep IH; fin).
    + rewrite V_trailers_eq. destruct (bytes_eqb v S_trailers).
      * gstep IH. destruct (v_r st). { abstract fin. } { abstract fin. }
      * gstep IH. abstract fin.
    + 
      pose proof (cl_step st v) as S. unfold vstep in S. 
      destruct (match parse_uint v with Some z => _ | None => _ end) as [c|st1].
      * gstep IH. split; [intros [] | intros HH; decompose [and] HH; clear HH]. 
        match goal with A : (if v_has st then _ else _) = true |- _ => fold (v_cl_ok st n) in A; rewrite (S A) in *; discriminate end.
      * destruct S as [E S]. gstep IH. fold (v_cl_ok st1 n) (v_cl_ok st n). rewrite S. rewrite E.
        cbn [v_m v_s v_p v_a v_r v_cl v_has v_path upto]. destruct (v_r st); abstract fin.
    + gstep IH; destruct (v_r st); abstract fin.
Qed.

Lemma vacc2_iff st fs tr : vacc2 cfg st fs tr n = true <-> G st fs /\ TR tr = true.
Proof.
  rewrite <- accepted_G. unfold vacc2, accepted. destruct (vrun cfg st fs) as [c|st1].
  - split; [discriminate | intros [(? & ? & _) _]; discriminate].
  - rewrite andb_true_iff, vacc_regular by reflexivity.
    assert (E : v_cl_ok (v_setr st1) n = v_cl_ok st1 n) by reflexivity. rewrite E. split.
    + intros (V & C & T). split; [exists st1; auto | assumption].
    + intros [(x & X & V & C) T]. inversion X; subst. auto.
Qed.

Theorem vacc2_wf fs tr : vacc2 cfg v0 fs tr n = wf_request fs tr n.
Proof.
  apply eq_true_iff_eq. rewrite vacc2_iff. unfold G, TR, wf_request, v0, v_cl_ok.
  cbn [v_m v_s v_p v_a v_r v_cl v_has v_path upto orb is_nil negb].
  rewrite !once_split. fold (ex P_method fs) (ex P_scheme fs) (ex P_path fs).
  unfold no_connection_fields, te_ok, content_length_ok, lowerf.
  rewrite !forallb_app, !existsb_app. destruct (ex P_path fs); bsplit;
    (split; intros HH; decompose [and] HH; clear HH; try absurd_hyp; repeat split; auto).
Qed.
End Verdict.
