(* Proofs/CliFlowStall.v - C07 (c), (d): no stall and completion. After any step of the write loop that ran
   sendPending to the end, a body still pending is blocked by a window that is not positive; every step that opens a
   window leaves the winCh token set, so the write loop will run flushPending; one buffered body goes out as the
   grants come in. *)
From H2V Require Import Base.Bytes Base.MachineInt Base.Result Gen.GenConsts Impl.ServerConn Impl.ClientConn
     Proofs.CliDefs Spec.FlowLedger Proofs.CliFlowMoves Proofs.CliFlowOut Proofs.CliFlowSettings Proofs.CliFlowSafe Proofs.CliFlowEs.
From Coq Require Import ZArith Lia ZifyN ZifyNat ZifyBool List Bool.
Import ListNotations.
Local Open Scope N_scope.
Set Default Proof Using "Type".

Definition I32 (z : Z) : Prop := (-2147483648 <= z <= 2147483647)%Z.

(* a pending body that cannot go on: it has bytes to send and one of its two windows is not positive *)
Definition blockedw (cw : Z) (pb : cpending) : Prop := pb_body pb <> [] /\ (cl_zmin (pb_window pb) cw <= 0)%Z.

(* an upper bound on the iterations sendPending needs for the body *)
Definition mu (pb : cpending) : nat :=
  match pb_stream pb with
  | None => 2
  | Some r => if pb_drained pb then 2 else 2 * length r + (if cl_is_nil (pb_body pb) then 3 else 4)
  end.

Lemma refill_mu pb pb' : refill_cond pb = true -> cl_refill pb = Some pb' ->
  (mu pb' < mu pb)%nat /\ pb_id pb' = pb_id pb /\ pb_window pb' = pb_window pb.
Proof.
  unfold refill_cond, cl_refill, mu. destruct (pb_stream pb) as [reads|] eqn:S; [|rewrite andb_false_r; discriminate].
  intro RC. apply andb_prop in RC. destruct RC as [RC D0]. apply andb_prop in RC. destruct RC as [B0 _].
  apply negb_true_iff in D0. rewrite D0, B0.
  destruct reads as [|[ch e] t].
  - cbn [cl_is_nil]. intro H. inversion H. clear H.
    destruct ((0 <=? pb_size _) && _)%Z; cbn [pb_stream pb_drained pb_body pb_id pb_window pbu_drained pbu_stream pbu_read pbu_body length];
      repeat split; lia.
  - destruct e.
    + destruct (cl_is_nil ch) eqn:CN; [discriminate|]. intro H. inversion H. clear H.
      destruct ((0 <=? pb_size _) && _)%Z; cbn [pb_stream pb_drained pb_body pb_id pb_window pbu_drained pbu_stream pbu_read pbu_body length];
        rewrite ?D0, ?CN; repeat split; cbn [length]; lia.
    + intro H. inversion H. clear H.
      destruct (cl_is_nil ch); destruct ((0 <=? pb_size _) && _)%Z;
        cbn [pb_stream pb_drained pb_body pb_id pb_window pbu_drained pbu_stream pbu_read pbu_body length]; repeat split; cbn [length]; lia.
    + discriminate.
Qed.

Lemma zmin_le a b : (cl_zmin a b <= a)%Z /\ (cl_zmin a b <= b)%Z /\ (cl_zmin a b = a \/ cl_zmin a b = b).
Proof. unfold cl_zmin. destruct (a <? b)%Z eqn:E; [apply Z.ltb_lt in E | apply Z.ltb_ge in E]; lia. Qed.

Definition nclamp (z : Z) : Z := if (z <? 0)%Z then 0%Z else z.

Lemma zmin_min a b : cl_zmin a b = Z.min a b.
Proof. unfold cl_zmin. destruct (a <? b)%Z eqn:E; [apply Z.ltb_lt in E | apply Z.ltb_ge in E]; lia. Qed.
Lemma nclamp_max z : nclamp z = Z.max 0 z.
Proof. unfold nclamp. destruct (z <? 0)%Z eqn:E; [apply Z.ltb_lt in E | apply Z.ltb_ge in E]; lia. Qed.

Lemma blocked_arith (l w cw : Z) : (0 < l)%Z -> nclamp (cl_zmin (cl_zmin l w) cw) = 0%Z -> (cl_zmin w cw <= 0)%Z.
Proof. rewrite nclamp_max, !zmin_min. lia. Qed.

Lemma after_send_arith (l w cw n : Z) : n = nclamp (cl_zmin (cl_zmin l w) cw) -> (0 < n)%Z -> (n < l)%Z ->
  (cl_zmin (w - n) (cw - n) <= 0)%Z /\ nclamp (cl_zmin (cl_zmin (l - n) (w - n)) (cw - n)) = 0%Z.
Proof. rewrite !nclamp_max, !zmin_min. lia. Qed.

Lemma mu_ge2 pb : (2 <= mu pb)%nat.
Proof. unfold mu. destruct (pb_stream pb); [destruct (pb_drained pb); [|destruct (cl_is_nil (pb_body pb))]|]; lia. Qed.


Section Stall.
Variable hstate : Type.
Variable dec_field : hstate -> N -> bytes -> dec_res hstate.
Variable enc_field : hstate -> bytes -> bytes -> bool -> bytes * hstate.
Variable enc_set_max : hstate -> N -> hstate.
Variable cfg : cl_config.
Variable h0 : hstate.
Variable first : bytes.
Notation cconn := (cconn hstate).
Notation move := (move hstate).
Notation apply := (apply hstate enc_field enc_set_max).
Notation valid := (valid hstate).
Notation step := (cl_step dec_field enc_field enc_set_max cfg).
Notation run := (cl_run dec_field enc_field enc_set_max cfg h0 first).
Notation init := (cl_init enc_set_max h0 first).

(* the send windows are int32 values, the pending ids distinct *)
Record RNG (c : cconn) : Prop := mkRNG {
  r_cw : I32 (cc_connWindow c);
  r_sw : I32 (cc_streamWindow c);
  r_pb : forall pb, In pb (cc_pending c) -> I32 (pb_window pb);
  r_nd : NoDup (map pb_id (cc_pending c))
}.

Definition blocked (c : cconn) (pb : cpending) : Prop := blockedw (cc_connWindow c) pb.

(* the fields sendPending's helpers leave alone *)
Definition SF (c c' : cconn) : Prop :=
  cc_pending c' = cc_pending c /\ cc_connWindow c' = cc_connWindow c /\ cc_streamWindow c' = cc_streamWindow c /\
  cc_winCh c' = cc_winCh c /\ (cc_wl_stuck c = true -> cc_wl_stuck c' = true).

Lemma SF_refl c : SF c c. Proof. repeat split; auto. Qed.
Lemma SF_trans a b c : SF a b -> SF b c -> SF a c.
Proof. intros (A1 & A2 & A3 & A4 & A5) (B1 & B2 & B3 & B4 & B5). repeat split; try congruence. auto. Qed.

Lemma SF_ctx_upd (c : cconn) tag f : SF c (cl_ctx_upd c tag f).
Proof. unfold cl_ctx_upd. destruct (cl_ctx_get c tag); repeat split; auto. Qed.

Lemma SF_go_stuck who held (c : cconn) self tag : SF c (cl_go_stuck who held c self tag) /\ (who = 1 -> cc_wl_stuck (cl_go_stuck who held c self tag) = true).
Proof.
  unfold cl_go_stuck.
  assert (F : forall (c0 : cconn), SF c0 (fold_left (fun c t => cl_ctx_upd c t (fun x => ctu_lckStuck x true)) held c0)).
  { induction held as [|t r IH]; intro c0; cbn [fold_left]; [apply SF_refl|]. eapply SF_trans; [apply SF_ctx_upd | apply IH]. }
  specialize (F c). set (c1 := fold_left _ held c) in *. destruct F as (F1 & F2 & F3 & F4 & F5).
  split.
  - destruct (who =? 0); [|destruct (who =? 1)]; repeat split; cc_cbn; auto.
  - intros ->. reflexivity.
Qed.

Lemma SF_close_body (c : cconn) pb : SF c (cl_close_body c pb).
Proof.
  unfold cl_close_body. destruct (pb_stream pb); [|apply SF_refl].
  destruct (SF_ctx_upd c (pb_tag pb) (fun x => ctu_bodyClosed x true)) as (A1 & A2 & A3 & A4 & A5). repeat split; cc_cbn; auto.
Qed.

(* deletePending by the write loop *)
Lemma delete_pending_flow (c c1 : cconn) id stuck : cl_delete_pending 1 [] c id = (c1, stuck) ->
  cc_pending c1 = cl_pend_del (cc_pending c) id /\ cc_connWindow c1 = cc_connWindow c /\ cc_streamWindow c1 = cc_streamWindow c /\
  cc_winCh c1 = cc_winCh c /\ (stuck = true -> cc_wl_stuck c1 = true).
Proof.
  unfold cl_delete_pending. destruct (cl_pend_get (cc_pending c) id) as [pb|] eqn:G.
  - destruct (pb_stream pb).
    + destruct (cl_acquire_for _ _ _ _); intro H; inversion H; subst; clear H.
      * destruct (SF_close_body (ccu_pending c (cl_pend_del (cc_pending c) id)) pb) as (A1 & A2 & A3 & A4 & A5).
        rewrite A1, A2, A3, A4. repeat split; try discriminate.
      * repeat split; try discriminate.
      * destruct (SF_go_stuck 1 [] (ccu_pending c (cl_pend_del (cc_pending c) id)) true (pb_tag pb)) as ((A1 & A2 & A3 & A4 & A5) & B).
        rewrite A1, A2, A3, A4. repeat split; try (intros _; apply B; reflexivity).
      * destruct (SF_go_stuck 1 [] (ccu_pending c (cl_pend_del (cc_pending c) id)) false (pb_tag pb)) as ((A1 & A2 & A3 & A4 & A5) & B).
        rewrite A1, A2, A3, A4. repeat split; try (intros _; apply B; reflexivity).
    + intro H; inversion H; subst. repeat split; try discriminate.
  - intro H; inversion H; subst. repeat split; try discriminate.
    symmetry. apply pend_del_absent. apply pend_get_None. exact G.
Qed.

Lemma SF_notes l : forall (c : cconn), SF c (cl_notes c l).
Proof. induction l as [|o t IH]; intro c; cbn [cl_notes]; [apply SF_refl|]. eapply SF_trans; [|apply IH]. repeat split; auto. Qed.

(* what one call of sendPending leaves behind *)
Record SPost (c : cconn) (id : N) (c' : cconn) (r : cl_spres) : Prop := mkSPost {
  sp_win : cc_winCh c' = false -> cc_winCh c = false;   (* a chunk handed back to the connection window sets the token *)
  sp_sw : cc_streamWindow c' = cc_streamWindow c;
  sp_cw : (cc_connWindow c' <= cc_connWindow c)%Z;
  sp_other : forall x, x <> id -> cl_pend_get (cc_pending c') x = cl_pend_get (cc_pending c) x;
  sp_ids : forall x, In x (map pb_id (cc_pending c')) -> In x (map pb_id (cc_pending c));
  sp_rng : RNG c';
  sp_res : match r with
           | CSPOk => cl_pend_get (cc_pending c') id = None \/ exists pb', cl_pend_get (cc_pending c') id = Some pb' /\ blocked c' pb'
           | CSPStuck => cc_wl_stuck c' = true
           | CSPWriteErr => True
           end
}.

Lemma RNG_del (c c' : cconn) id :
  cc_pending c' = cl_pend_del (cc_pending c) id -> cc_connWindow c' = cc_connWindow c -> cc_streamWindow c' = cc_streamWindow c ->
  RNG c -> RNG c'.
Proof.
  intros A B C [r1 r2 r3 r4]. constructor; rewrite ?A, ?B, ?C; auto.
  - intros pb HP. apply r3. eapply pend_del_In. exact HP.
  - apply pend_del_NoDup. exact r4.
Qed.

Lemma SPost_deleted (c c' : cconn) id r :
  cc_pending c' = cl_pend_del (cc_pending c) id -> cc_connWindow c' = cc_connWindow c -> cc_streamWindow c' = cc_streamWindow c ->
  cc_winCh c' = cc_winCh c -> RNG c ->
  match r with CSPOk => True | CSPStuck => cc_wl_stuck c' = true | CSPWriteErr => True end ->
  SPost c id c' r.
Proof.
  intros A B C W R X. constructor; auto.
  - rewrite W. auto.
  - rewrite B. apply Z.le_refl.
  - intros x NE. rewrite A. apply pend_get_del_other. exact NE.
  - intros x. rewrite A. apply pend_del_ids_incl.
  - eapply RNG_del; eassumption.
  - destruct r; auto. left. rewrite A. apply pend_get_del_same. apply (r_nd _ R).
Qed.

Lemma SPost_trans (c c1 c' : cconn) id r : SPost c id c1 CSPWriteErr -> SPost c1 id c' r -> SPost c id c' r.
Proof.
  intros [a1 a2 a3 a4 a5 a6 _] [b1 b2 b3 b4 b5 b6 b7]. constructor; try congruence; auto.
  - flia.
  - intros x NE. rewrite b4, a4 by exact NE. reflexivity.
Qed.

Lemma i32_sub (z n : Z) : I32 z -> (0 <= n)%Z -> ((0 < n)%Z -> (n <= z)%Z) -> cl_i32 (z - n) = (z - n)%Z.
Proof. unfold I32. intros A B C. apply cl_i32_id. destruct (Z_lt_le_dec 0 n) as [P|P]; [specialize (C P)|]; flia. Qed.

(* the state after one critical section *)
Lemma cs_conn_facts (c : cconn) pb id : cl_pend_get (cc_pending c) id = Some pb -> RNG c ->
  let c2 := cs_conn c pb id in
  let n := cs_n c pb in
  cc_winCh c2 = cc_winCh c /\ cc_streamWindow c2 = cc_streamWindow c /\ cc_connWindow c2 = (cc_connWindow c - n)%Z /\
  (forall x, x <> id -> cl_pend_get (cc_pending c2) x = cl_pend_get (cc_pending c) x) /\
  (forall x, In x (map pb_id (cc_pending c2)) -> In x (map pb_id (cc_pending c))) /\
  RNG c2 /\ cc_wl_stuck c2 = cc_wl_stuck c /\
  (if cs_end c pb then cl_pend_get (cc_pending c2) id = None
   else cl_pend_get (cc_pending c2) id = Some (cs_pb c pb) /\ pb_window (cs_pb c pb) = (pb_window pb - n)%Z).
Proof.
  intros G [r1 r2 r3 r4]. cbv zeta. destruct (pend_get_In _ _ _ G) as [HI EI].
  pose proof (cs_n_facts hstate c pb) as [N1 N2]. pose proof (r3 pb HI) as RW.
  assert (IC : cl_i32 (cc_connWindow c - cs_n c pb) = (cc_connWindow c - cs_n c pb)%Z) by (apply i32_sub; [exact r1 | flia | intro P; apply N2; exact P]).
  assert (IW : cl_i32 (pb_window pb - cs_n c pb) = (pb_window pb - cs_n c pb)%Z) by (apply i32_sub; [exact RW | flia | intro P; apply N2; exact P]).
  assert (I1 : I32 (cc_connWindow c - cs_n c pb)) by (rewrite <- IC; apply cl_i32_range).
  assert (I2 : I32 (pb_window pb - cs_n c pb)) by (rewrite <- IW; apply cl_i32_range).
  unfold cs_conn. rewrite IC. destruct (cs_end c pb); cc_cbn.
  - split; [reflexivity|]. split; [reflexivity|]. split; [reflexivity|].
    split; [intros x NE; apply pend_get_del_other; exact NE|].
    split; [intro x; apply pend_del_ids_incl|].
    split; [constructor; cc_cbn; auto; [intros p HP; apply r3; eapply pend_del_In; exact HP | apply pend_del_NoDup; exact r4]|].
    split; [reflexivity|]. apply pend_get_del_same. exact r4.
  - assert (PI : pb_id (cs_pb c pb) = id) by (unfold cs_pb; cbn [pb_id pbu_body pbu_window]; exact EI).
    assert (PW : pb_window (cs_pb c pb) = (pb_window pb - cs_n c pb)%Z) by (unfold cs_pb; cbn [pb_window pbu_body pbu_window]; exact IW).
    split; [reflexivity|]. split; [reflexivity|]. split; [reflexivity|].
    split; [intros x NE; apply pend_get_put_other; rewrite PI; exact NE|].
    split; [intro x; rewrite pend_put_ids; auto|].
    split.
    { constructor; cc_cbn; auto; [|rewrite pend_put_ids; exact r4].
      intros p HP. apply (pend_put_In _ _ _ r4) in HP. destruct HP as [->|[HP _]]; [rewrite PW; exact I2 | apply r3; exact HP]. }
    split; [reflexivity|]. split; [|exact PW].
    rewrite <- PI. apply pend_get_put_same. rewrite PI, G. discriminate.
Qed.

Lemma not_end_body (c : cconn) pb : refill_cond pb = false -> cs_end c pb = false ->
  (cs_n c pb = 0%Z -> pb_body pb <> []) /\
  (pb_body (cs_pb c pb) = [] -> exists r, pb_stream pb = Some r /\ pb_drained pb = false).
Proof.
  unfold refill_cond, cs_end, cl_has_more, cs_pb. cbn [pb_body pb_stream pb_drained pbu_body pbu_window].
  intros RC E. apply negb_false_iff in E. split.
  - intros N0 B. rewrite N0 in E. cbn [Z.to_N dropN skipn N.to_nat] in E. rewrite B in *. cbn [cl_is_nil negb orb andb] in *.
    destruct (pb_stream pb); cbn [andb] in *; [rewrite E in RC; discriminate | discriminate].
  - intro B. rewrite B in E. cbn [cl_is_nil negb orb] in E. destruct (pb_stream pb) as [r|]; [|discriminate].
    cbn [andb] in E. apply negb_true_iff in E. exists r. split; [reflexivity | exact E].
Qed.

Lemma cs_n_clamp (c : cconn) pb :
  cs_n c pb = nclamp (cl_zmin (cl_zmin (Z.of_N (len (pb_body pb))) (pb_window pb)) (cc_connWindow c)).
Proof. reflexivity. Qed.

Lemma send_pending_post fuel : forall (c : cconn) id, RNG c ->
  (forall pb, cl_pend_get (cc_pending c) id = Some pb -> (mu pb <= fuel)%nat) ->
  SPost c id (fst (cl_send_pending fuel c id)) (snd (cl_send_pending fuel c id)).
Proof.
  induction fuel as [|fuel IH]; intros c id R MU.
  - cbn [cl_send_pending fst snd]. constructor; auto; try apply Z.le_refl.
    destruct (cl_pend_get (cc_pending c) id) as [pb|] eqn:G; [|left; reflexivity].
    specialize (MU pb eq_refl). pose proof (mu_ge2 pb) as M2. exfalso. clear - MU M2. lia.
  - rewrite send_pending_S. destruct (cl_pend_get (cc_pending c) id) as [pb|] eqn:G.
    2:{ cbn [fst snd]. constructor; auto; try apply Z.le_refl; try (left; exact G). }
    specialize (MU pb eq_refl). destruct (pend_get_In _ _ _ G) as [HI EI].
    destruct (refill_cond pb) eqn:RC.
    + (* the reader is asked for the next chunk *)
      destruct (cl_refill pb) as [pb'|] eqn:RF.
      * destruct (refill_mu pb pb' RC RF) as (M1 & PI & PW).
        set (c1 := ccu_pending c (cl_pend_put (cc_pending c) pb')).
        assert (G1 : cl_pend_get (cc_pending c1) id = Some pb').
        { subst c1. cc_cbn. rewrite <- EI, <- PI. apply pend_get_put_same. rewrite PI, EI, G. discriminate. }
        assert (R1 : RNG c1).
        { destruct R as [r1 r2 r3 r4]. subst c1. constructor; cc_cbn; auto; [|rewrite pend_put_ids; exact r4].
          intros p HP. apply (pend_put_In _ _ _ r4) in HP. destruct HP as [->|[HP _]]; [rewrite PW; apply r3; exact HI | apply r3; exact HP]. }
        assert (P1 : SPost c id c1 CSPWriteErr).
        { subst c1. constructor; cc_cbn; auto; [apply Z.le_refl | | intro x; rewrite pend_put_ids; auto].
          intros x NE. apply pend_get_put_other. rewrite PI, EI. exact NE. }
        eapply SPost_trans; [exact P1|]. apply IH; [exact R1|]. intros p Gp. rewrite G1 in Gp. inversion Gp; subst p. clear - M1 MU. lia.
      * destruct (cl_delete_pending 1 [] c id) as [c1 stuck] eqn:DP.
        destruct (delete_pending_flow _ _ _ _ DP) as (A1 & A2 & A3 & A4 & A5).
        destruct stuck; cbn [fst snd].
        -- apply SPost_deleted; auto.
        -- (* the request is ended by whoever takes it off the table; the write loop writes RST_STREAM itself *)
           destruct (cl_req_find (cc_reqQueued c1) id) as [tg|] eqn:RQ; cbn [fst snd]; [|apply SPost_deleted; auto].
           cbv zeta. set (c2 := cl_take_req_count c1 id).
           assert (S2 : SF c1 c2).
           { subst c2. unfold cl_take_req_count, cl_req_del. rewrite RQ. repeat split; auto. }
           pose proof (SF_trans _ _ _ S2 (SF_ctx_upd c2 (pb_tag pb) (fun x => cl_ctx_resolve (ctu_finished x true) CEBody))) as (B1 & B2 & B3 & B4 & B5).
           destruct (cl_can_write _); cbn [fst snd]; apply SPost_deleted; cc_cbn; try congruence; exact I.
    + (* a critical section *)
      cbv zeta. destruct (cs_conn_facts c pb id G R) as (W2 & SW2 & CW2 & O2 & ID2 & R2 & ST2 & E2). cbv zeta in *.
      pose proof (cs_n_facts hstate c pb) as [N1 N2]. pose proof (cs_n_clamp c pb) as NCL.
      set (c2 := cs_conn c pb id) in *. set (n := cs_n c pb) in *.
      assert (CWLE : (cc_connWindow c2 <= cc_connWindow c)%Z) by (rewrite CW2; clear - N1; lia).
      assert (P2 : forall r, match r with
                             | CSPOk => cl_pend_get (cc_pending c2) id = None \/ exists pb', cl_pend_get (cc_pending c2) id = Some pb' /\ blocked c2 pb'
                             | CSPStuck => cc_wl_stuck c2 = true
                             | CSPWriteErr => True
                             end -> SPost c id c2 r).
      { intros r X. constructor; auto; try (rewrite W2; auto). }
      destruct ((n =? 0)%Z && negb (cs_end c pb)) eqn:Z0.
      * (* nothing can be sent *)
        cbn [fst snd]. apply P2. right. apply andb_prop in Z0. destruct Z0 as [Z0 NE]. apply Z.eqb_eq in Z0. apply negb_true_iff in NE.
        rewrite NE in E2. destruct E2 as [E2 PW]. exists (cs_pb c pb). split; [exact E2|].
        destruct (not_end_body c pb RC NE) as [NB _]. fold n in NB. specialize (NB Z0).
        unfold blocked, blockedw. rewrite PW, CW2, Z0, !Z.sub_0_r. unfold cs_pb. fold n. rewrite Z0. cbn [pb_body pbu_body pbu_window Z.to_N dropN N.to_nat skipn].
        split; [exact NB|].
        assert (LP : (0 < Z.of_N (len (pb_body pb)))%Z) by (unfold len; destruct (pb_body pb); [congruence | cbn [length]; clear; lia]).
        apply (blocked_arith _ _ _ LP). rewrite <- NCL. exact Z0.
      * destruct (cl_acquire_for [] c2 (pb_tag pb) id).
        -- (* the Ctx is ours *)
           destruct (cl_can_write c2) eqn:CW; [|cbn [fst snd]; apply P2; exact I].
           set (c3 := cl_notes c2 (cl_write_data (cc_maxFrame c2) id (cs_chunk c pb) (cs_end c pb))).
           destruct (SF_notes (cl_write_data (cc_maxFrame c2) id (cs_chunk c pb) (cs_end c pb)) c2) as (F1 & F2 & F3 & F4 & F5). fold c3 in F1, F2, F3, F4, F5.
           assert (R3 : RNG c3) by (destruct R2 as [r1 r2 r3 r4]; constructor; rewrite ?F1, ?F2, ?F3; auto).
           assert (P3 : SPost c id c3 CSPWriteErr).
           { constructor; rewrite ?F1, ?F2, ?F3, ?F4, ?W2; auto. }
           destruct (cs_end c pb) eqn:EN.
           ++ cbn [fst snd]. destruct (SF_close_body c3 (cs_pb c pb)) as (C1 & C2 & C3 & C4 & C5).
              constructor.
              ** rewrite C4, F4, W2. auto.
              ** rewrite C3, F3. exact SW2.
              ** rewrite C2, F2. exact CWLE.
              ** intros x NE. rewrite C1, F1. apply O2. exact NE.
              ** intros x. rewrite C1, F1. apply ID2.
              ** destruct R3 as [r1 r2 r3 r4]. constructor; rewrite ?C1, ?C2, ?C3; auto.
              ** left. rewrite C1, F1. exact E2.
           ++ (* more to come: the next iteration *)
              destruct E2 as [E2 PW]. eapply SPost_trans; [exact P3|].
              assert (NP : (0 < n)%Z).
              { apply andb_false_iff in Z0. destruct Z0 as [Z0|Z0]; [apply Z.eqb_neq in Z0; clear - Z0 N1; lia | discriminate]. }
              destruct (pb_body (cs_pb c pb)) as [|b0 bt] eqn:BODY.
              ** (* the buffer is empty: the reader is asked again, with less fuel needed *)
                 destruct (not_end_body c pb RC EN) as [_ NB]. destruct (NB BODY) as (r & SR & DR).
                 apply IH; [exact R3|]. intros p Gp. rewrite F1, E2 in Gp. inversion Gp; subst p.
                 assert (BN : pb_body pb <> []).
                 { intro X. assert (L0 : Z.of_N (len (pb_body pb)) = 0%Z) by (rewrite X; reflexivity). clear - L0 NP N1. lia. }
                 unfold mu in *. unfold cs_pb at 1 2. cbn [pb_stream pb_drained pbu_body pbu_window]. rewrite SR, DR in *. rewrite BODY.
                 destruct (pb_body pb); [congruence|]. cbn [cl_is_nil] in *. clear - MU. lia.
              ** (* a window ran out: the next iteration sends nothing and stops *)
                 assert (F1' : (1 <= fuel)%nat) by (pose proof (mu_ge2 pb) as M2; clear - M2 MU; lia).
                 destruct fuel as [|fuel']; [exfalso; clear - F1'; lia|]. rewrite send_pending_S. rewrite F1, E2.
                 assert (RC' : refill_cond (cs_pb c pb) = false) by (unfold refill_cond; rewrite BODY; reflexivity).
                 rewrite RC'. cbv zeta.
                 assert (G3 : cl_pend_get (cc_pending c3) id = Some (cs_pb c pb)) by (rewrite F1; exact E2).
                 destruct (cs_conn_facts c3 (cs_pb c pb) id G3 R3) as (W4 & SW4 & CW4 & O4 & ID4 & R4 & ST4 & E4). cbv zeta in *.
                 assert (LEN : (Z.of_N (len (pb_body (cs_pb c pb))) = Z.of_N (len (pb_body pb)) - n)%Z).
                 { unfold cs_pb. fold n. cbn [pb_body pbu_body pbu_window]. rewrite len_dropN. clear - N1. lia. }
                 assert (LPOS : (0 < Z.of_N (len (pb_body (cs_pb c pb))))%Z) by (rewrite BODY; unfold len; cbn [length]; clear; lia).
                 assert (NL : (n < Z.of_N (len (pb_body pb)))%Z) by (clear - LEN LPOS; lia).
                 destruct (after_send_arith _ _ _ n NCL NP NL) as [AS1 AS2].
                 assert (N0 : cs_n c3 (cs_pb c pb) = 0%Z).
                 { rewrite cs_n_clamp, F2, CW2, PW, LEN. exact AS2. }
                 assert (EN' : cs_end c3 (cs_pb c pb) = false).
                 { unfold cs_end, cl_has_more, cs_pb at 1. rewrite N0. cbn [pb_body pbu_body pbu_window Z.to_N dropN N.to_nat skipn]. rewrite BODY. reflexivity. }
                 rewrite N0, EN'. cbn [Z.eqb negb andb fst snd]. rewrite EN' in E4. destruct E4 as [E4 PW4].
                 constructor; auto; [rewrite CW4, N0, Z.sub_0_r; apply Z.le_refl|].
                 right. eexists. split; [exact E4|]. unfold blocked, blockedw. rewrite PW4, CW4, N0, !Z.sub_0_r.
                 unfold cs_pb at 1. rewrite N0. cbn [pb_body pbu_body pbu_window Z.to_N dropN N.to_nat skipn]. split; [rewrite BODY; discriminate|].
                 rewrite F2, CW2, PW. exact AS1.
        -- (* the request has been taken back: the chunk goes back to the connection window *)
           set (c2' := if (0 <? n)%Z then cl_add_window c2 0 n else c2).
           assert (P2' : SPost c id c2' CSPWriteErr).
           { subst c2'. destruct (0 <? n)%Z eqn:NP0; [|apply (P2 CSPWriteErr); exact I].
             unfold cl_add_window, cl_signal_window. cbn [N.eqb].
             assert (CWB : cl_i32 (cc_connWindow c2 + n) = cc_connWindow c).
             { rewrite CW2. replace (cc_connWindow c - n + n)%Z with (cc_connWindow c) by (clear; lia). apply cl_i32_id. apply (r_cw _ R). }
             constructor; cc_cbn; auto.
             - discriminate.
             - rewrite CWB. apply Z.le_refl.
             - destruct R2 as [q1 q2 q3 q4]. constructor; cc_cbn; auto. rewrite CWB. apply (r_cw _ R). }
           destruct (cl_delete_pending 1 [] c2' id) as [c3 stuck] eqn:DP.
           destruct (delete_pending_flow _ _ _ _ DP) as (A1 & A2 & A3 & A4 & A5). cbn [fst snd].
           eapply SPost_trans; [exact P2'|].
           apply SPost_deleted; auto; [apply (sp_rng _ _ _ _ P2') | destruct stuck; [apply A5; reflexivity | exact I]].
        -- destruct (SF_go_stuck 1 [] c2 false (pb_tag pb)) as ((A1 & A2 & A3 & A4 & A5) & B). cbn [fst snd].
           eapply SPost_trans; [apply (P2 CSPWriteErr); exact I|].
           constructor; [rewrite A4; auto | exact A3 | rewrite A2; apply Z.le_refl | intros x NE; rewrite A1; reflexivity | intros x; rewrite A1; auto | | apply B; reflexivity].
           destruct R2 as [r1 r2 r3 r4]. constructor; rewrite ?A1, ?A2, ?A3; auto.
        -- destruct (SF_go_stuck 1 [] c2 false (pb_tag pb)) as ((A1 & A2 & A3 & A4 & A5) & B). cbn [fst snd].
           eapply SPost_trans; [apply (P2 CSPWriteErr); exact I|].
           constructor; [rewrite A4; auto | exact A3 | rewrite A2; apply Z.le_refl | intros x NE; rewrite A1; reflexivity | intros x; rewrite A1; auto | | apply B; reflexivity].
           destruct R2 as [r1 r2 r3 r4]. constructor; rewrite ?A1, ?A2, ?A3; auto.
Qed.

Lemma blockedw_mono cw cw' pb : blockedw cw pb -> (cw' <= cw)%Z -> blockedw cw' pb.
Proof. unfold blockedw. rewrite !zmin_min. intros [A B] L. split; [exact A | clear - B L; lia]. Qed.

Lemma send_fuel_mu (c : cconn) id pb : cl_pend_get (cc_pending c) id = Some pb -> (mu pb <= cl_send_fuel c id)%nat.
Proof.
  intro G. unfold cl_send_fuel, mu. rewrite G. destruct (pb_stream pb) as [r|]; [|clear; lia].
  destruct (pb_drained pb); [clear; lia|]. destruct (cl_is_nil (pb_body pb)); clear; lia.
Qed.

Lemma send_pending_fueled (c : cconn) id : RNG c ->
  SPost c id (fst (cl_send_pending (cl_send_fuel c id) c id)) (snd (cl_send_pending (cl_send_fuel c id) c id)).
Proof. intro R. apply send_pending_post; [exact R|]. intros pb G. apply send_fuel_mu. exact G. Qed.

Lemma pend_get_member l p : NoDup (map pb_id l) -> In p l -> cl_pend_get l (pb_id p) = Some p.
Proof.
  induction l as [|q t IH]; cbn [map cl_pend_get]; intros ND HI; [destruct HI|]. inversion ND; subst.
  destruct HI as [->|HI]; [rewrite N.eqb_refl; reflexivity|].
  destruct (pb_id q =? pb_id p) eqn:E; [|apply IH; assumption].
  apply N.eqb_eq in E. exfalso. apply H1. rewrite E. apply in_map. exact HI.
Qed.

(* flushPending *)
Record FPost (c : cconn) (ids : list N) (c' : cconn) (r : cl_spres) : Prop := mkFPost {
  fp_win : cc_winCh c' = false -> cc_winCh c = false;
  fp_cw : (cc_connWindow c' <= cc_connWindow c)%Z;
  fp_ids : forall x, In x (map pb_id (cc_pending c')) -> In x (map pb_id (cc_pending c));
  fp_other : forall x, ~ In x ids -> cl_pend_get (cc_pending c') x = cl_pend_get (cc_pending c) x;
  fp_rng : RNG c';
  fp_res : match r with
           | CSPOk => forall x, In x ids -> cl_pend_get (cc_pending c') x = None \/ exists pb', cl_pend_get (cc_pending c') x = Some pb' /\ blocked c' pb'
           | CSPStuck => cc_wl_stuck c' = true
           | CSPWriteErr => True
           end
}.

Lemma flush_pending_post ids : forall (c : cconn), RNG c ->
  FPost c ids (fst (cl_flush_pending c ids)) (snd (cl_flush_pending c ids)).
Proof.
  induction ids as [|id t IH]; intros c R; cbn [cl_flush_pending].
  - cbn [fst snd]. constructor; auto; [apply Z.le_refl | intros x []].
  - pose proof (send_pending_fueled c id R) as SP.
    destruct (cl_send_pending (cl_send_fuel c id) c id) as [c1 r1]. cbn [fst snd] in SP.
    destruct SP as [s1 s2 s3 s4 s5 s6 s7].
    destruct r1; cbn [fst snd].
    + specialize (IH c1 s6). destruct (cl_flush_pending c1 t) as [c' r]. cbn [fst snd] in IH.
      destruct IH as [f1 f2 f3 f4 f5 f6]. cbn [fst snd]. constructor.
      * intro X. apply s1, f1, X.
      * clear - f2 s3. lia.
      * intros x HX. apply s5, f3, HX.
      * intros x NI. rewrite f4 by (intro X; apply NI; right; exact X). apply s4. intro X. apply NI. left. symmetry. exact X.
      * exact f5.
      * destruct r; auto. intros x [<-|HI]; [|apply f6; exact HI].
        destruct (in_dec N.eq_dec id t) as [IT|NT]; [apply f6; exact IT|].
        rewrite (f4 id NT). destruct s7 as [s7|(pb' & G & B)]; [left; exact s7|]. right. exists pb'. split; [exact G|].
        eapply blockedw_mono; [exact B | exact f2].
    + constructor; auto. intros x NI. apply s4. intro X. apply NI. left. symmetry. exact X.
    + constructor; auto. intros x NI. apply s4. intro X. apply NI. left. symmetry. exact X.
Qed.

Lemma pending_order_complete (c : cconn) order p : In p (cc_pending c) -> In (pb_id p) (cl_pending_order c order).
Proof.
  intro HI. unfold cl_pending_order. apply in_or_app.
  assert (IDS : In (pb_id p) (map pb_id (cc_pending c))) by (apply in_map; exact HI).
  destruct (existsb (N.eqb (pb_id p)) order) eqn:E.
  - left. apply filter_In. apply existsb_exists in E. destruct E as (x & HX & EQ). apply N.eqb_eq in EQ. subst x.
    split; [exact HX|]. apply existsb_exists. exists (pb_id p). split; [exact IDS | apply N.eqb_refl].
  - right. apply filter_In. split; [exact IDS|]. rewrite E. reflexivity.
Qed.

(* the no-stall invariant: while the write loop runs and holds no winCh token, every pending body is blocked *)
Definition NS (c : cconn) : Prop :=
  cl_wl_live c = true -> cc_winCh c = false -> forall pb, In pb (cc_pending c) -> blocked c pb.

Lemma wl_exit_dead (c : cconn) le why : cl_wl_live (cl_wl_exit c le why) = false.
Proof. reflexivity. Qed.

Lemma wl_after_NS (c : cconn) : NS c -> RNG c -> NS (cl_wl_after cfg c) /\ RNG (cl_wl_after cfg c) \/ cl_wl_live (cl_wl_after cfg c) = false.
Proof. intros N R. unfold cl_wl_after. destruct (_ && _); [right; apply wl_exit_dead | left; split; assumption]. Qed.

Lemma wl_win_NS (c : cconn) order : RNG c -> NS c -> NS (cl_wl_win cfg c order).
Proof.
  intros R N0. unfold cl_wl_win. destruct (cc_winCh c) eqn:WC; cbn [negb]; [|exact N0].
  set (c1 := ccu_winCh c false).
  assert (R1 : RNG c1) by (destruct R as [r1 r2 r3 r4]; constructor; assumption).
  pose proof (flush_pending_post (cl_pending_order c1 order) c1 R1) as FP.
  destruct (cl_flush_pending c1 (cl_pending_order c1 order)) as [c2 r]. cbn [fst snd] in FP. destruct FP as [f1 f2 f3 f4 f5 f6].
  destruct r.
  - assert (N2 : NS c2).
    { intros _ _ pb HP. assert (IDS : In (pb_id pb) (map pb_id (cc_pending c1))) by (apply f3, in_map; exact HP).
      apply in_map_iff in IDS. destruct IDS as (p0 & E0 & H0).
      pose proof (pending_order_complete c1 order p0 H0) as IO. rewrite E0 in IO.
      destruct (f6 _ IO) as [X|(pb' & G & B)].
      - rewrite (pend_get_member _ _ (r_nd _ f5) HP) in X. discriminate.
      - rewrite (pend_get_member _ _ (r_nd _ f5) HP) in G. inversion G; subst pb'. exact B. }
    destruct (wl_after_NS c2 N2 f5) as [[X _]|X]; [exact X | intros Y; congruence].
  - intros Y. rewrite wl_exit_dead in Y. discriminate.
  - intros Y. unfold cl_wl_live in Y. rewrite f6, andb_false_r in Y. discriminate.
Qed.

(* ---------- the windows stay int32 values ---------- *)

Lemma mv_RNG m (c : cconn) : valid m c -> ES hstate c -> RNG c -> RNG (apply m c).
Proof.
  intros V E R. pose proof (es_nodup _ _ (mv_ES hstate enc_field enc_set_max m c V E)) as ND.
  destruct R as [r1 r2 r3 r4].
  assert (SAME : cc_connWindow (apply m c) = cc_connWindow c -> cc_streamWindow (apply m c) = cc_streamWindow c ->
                 (forall p, In p (cc_pending (apply m c)) -> In p (cc_pending c)) -> RNG (apply m c)).
  { intros A B C. constructor; rewrite ?A, ?B; auto. }
  destruct m; try (apply SAME; try reflexivity; auto; fail).
  - apply SAME; cbn [apply]; destruct (quietb o); auto.
  - apply SAME; cbn [apply]; unfold cl_take_req_count; destruct (cl_req_find _ _); auto.
  - apply SAME; cbn [apply]; destruct (pushb o); auto; unfold cl_write_out; destruct (cc_closed c); auto.
  - apply SAME; cbn [apply]; destruct (cc_outQ c); auto.
  - destruct (recv_data_fields hstate c fr has_res) as (A1 & A2 & A3 & _). apply SAME; cbn [apply]; rewrite ?A1, ?A2, ?A3; auto.
  - (* MSettings *)
    cbn [apply] in *. destruct (cl_settings_deserialize false payload) as [st|]; [|constructor; assumption].
    constructor; [| | |exact ND]; unfold cl_handle_settings, cl_apply_initial_window, cl_signal_window, cl_write_out; cc_cbn;
      destruct (cl_settings_has st c_HeaderTableSize), (cs_hasWin st); cc_cbn;
      match goal with |- context [if ?b then _ else _] => destruct b end; cc_cbn; auto; try apply cl_i32_range;
      intros p HP; apply in_map_iff in HP; destruct HP as (q & <- & HQ); cbn [pb_window pbu_window]; apply cl_i32_range.
  - (* MAddWindow *)
    cbn [apply] in *. constructor; [| | |exact ND]; unfold cl_add_window, cl_signal_window; destruct (sid =? 0); cc_cbn; auto; try apply cl_i32_range;
      destruct (cl_pend_get (cc_pending c) sid) as [pb|]; cc_cbn; auto.
    intros p HP. apply (pend_put_In _ _ _ r4) in HP. destruct HP as [->|[HP _]]; [cbn [pb_window pbu_window]; apply cl_i32_range | auto].
  - apply SAME; try reflexivity. cbn [apply]. cc_cbn. intros p. apply pend_del_In.
  - apply SAME; try reflexivity. destruct V as [PI _]. cbn [apply]. cc_cbn.
    rewrite pend_del_app_last; [auto|]. intros p HP. pose proof (es_fresh _ _ E p HP). flia.
  - (* MRefill *)
    destruct V as (pb & pb' & G & RC & RF). cbn [apply] in *. rewrite G, RF in *. destruct (refill_same _ _ RF) as [RI RW].
    destruct (pend_get_In _ _ _ G) as [HI EI].
    constructor; cc_cbn; auto. intros p HP. apply (pend_put_In _ _ _ r4) in HP. destruct HP as [->|[HP _]]; [rewrite RW; auto | auto].
  - (* MSend *)
    destruct V as (pb & G & _). cbn [apply] in *. rewrite G in *.
    destruct (cs_conn_facts c pb id G (mkRNG c r1 r2 r3 r4)) as (_ & _ & _ & _ & _ & R2 & _).
    destruct wr; [|exact R2].
    destruct (SF_notes (cl_write_data (cc_maxFrame (cs_conn c pb id)) id (cs_chunk c pb) (cs_end c pb)) (cs_conn c pb id)) as (F1 & F2 & F3 & _).
    destruct R2 as [q1 q2 q3 q4]. constructor; rewrite ?F1, ?F2, ?F3; auto.
  - (* MSendBack *)
    destruct V as (pb & G & _). cbn [apply] in *. rewrite G in *. unfold send_back in *. cbv zeta in *.
    destruct (cs_conn_facts c pb id G (mkRNG c r1 r2 r3 r4)) as (_ & _ & _ & _ & _ & R2 & _).
    assert (R3 : RNG (if (0 <? cs_n c pb)%Z then cl_add_window (cs_conn c pb id) 0 (cs_n c pb) else cs_conn c pb id)).
    { destruct (0 <? cs_n c pb)%Z; [|exact R2]. destruct R2 as [q1 q2 q3 q4].
      unfold cl_add_window, cl_signal_window. cbn [N.eqb]. constructor; cc_cbn; auto. apply cl_i32_range. }
    set (c3 := if (0 <? cs_n c pb)%Z then _ else _) in *.
    destruct (cl_pend_get (cc_pending c3) id); [|exact R3].
    apply (RNG_del c3 _ id); try reflexivity. exact R3.
  - apply SAME; cbn [apply]; destruct (negb _); auto.
  - (* MHeaders *)
    destruct V as (_ & _ & _ & _ & _ & PB & _). cbn [apply] in *. destruct opb as [pb|]; constructor; cc_cbn; auto.
    intros p HP. apply in_app_or in HP. destruct HP as [HP|[<-|[]]]; [auto|]. rewrite (proj2 (PB pb eq_refl)). exact r2.
Qed.

Lemma RNG_init : RNG init.
Proof.
  unfold cl_init. destruct (cl_settings_deserialize false first); constructor; cc_cbn; try apply cl_i32_range; try (intros p []); try constructor;
    unfold I32, c_defaultWindowSize; cbn; clear; lia.
Qed.

(* ---------- no stall: the steps that do not send bodies ---------- *)

Lemma NS_same (c c' : cconn) :
  (forall p, In p (cc_pending c') -> In p (cc_pending c)) -> cc_connWindow c' = cc_connWindow c ->
  (cl_wl_live c' = true -> cl_wl_live c = true) -> (cc_winCh c' = false -> cc_winCh c = false) -> NS c -> NS c'.
Proof. intros A B C Dd N LV WC pb HP. unfold blocked. rewrite B. apply N; auto. Qed.

Definition quiet_flow (m : move) : Prop :=
  match m with MSend _ _ | MSendBack _ | MRefill _ | MHeaders _ _ | MPendAddDel _ | MWinCh => False | _ => True end.

Lemma mv_NS m (c : cconn) : valid m c -> quiet_flow m -> NS c -> NS (apply m c).
Proof.
  intros V Q N.
  destruct m; try destruct Q; try (apply (NS_same c); try reflexivity; auto; fail).
  - cbn [apply]. destruct (quietb o); [apply (NS_same c); try reflexivity; auto | exact N].
  - apply (NS_same c); try reflexivity; auto. unfold cl_wl_live. cbn [apply]. cc_cbn. discriminate.
  - apply (NS_same c); try reflexivity; auto. unfold cl_wl_live. cbn [apply]. cc_cbn. rewrite andb_false_r. discriminate.
  - cbn [apply]. unfold cl_take_req_count. destruct (cl_req_find _ _); [apply (NS_same c); try reflexivity; auto | exact N].
  - cbn [apply]. destruct (pushb o); [|exact N]. unfold cl_write_out. destruct (cc_closed c); [exact N | apply (NS_same c); try reflexivity; auto].
  - cbn [apply]. destruct (cc_outQ c); [exact N | apply (NS_same c); try reflexivity; auto].
  - destruct (recv_data_fields hstate c fr has_res) as (_ & A2 & A3 & _). cbn [apply].
    apply (NS_same c); rewrite ?A2, ?A3; auto; unfold recv_data, cl_update_window, cl_write_out, cl_wl_live; cc_cbn;
      repeat match goal with |- context [if ?b then _ else _] => destruct b end; auto.
  - (* MSettings *)
    cbn [apply]. destruct (cl_settings_deserialize false payload) as [st|]; [|exact N].
    unfold cl_handle_settings, cl_apply_initial_window, cl_signal_window, cl_write_out.
    destruct (cl_settings_has st c_HeaderTableSize), (cs_hasWin st); cc_cbn; destruct (cc_closed c); cc_cbn;
      try (intros _ X; cc_cbn_in X; discriminate); apply (NS_same c); try reflexivity; auto.
  - (* MAddWindow *)
    cbn [apply]. unfold cl_add_window, cl_signal_window. intros _ X. cc_cbn_in X. discriminate.
  - apply (NS_same c); try reflexivity; auto. cbn [apply]. cc_cbn. intros p. apply pend_del_In.
  - cbn [apply]. destruct (negb _); [apply (NS_same c); try reflexivity; auto | exact N].
Qed.

Lemma pend_get_app_other l pb x : x <> pb_id pb -> cl_pend_get (l ++ [pb]) x = cl_pend_get l x.
Proof.
  intro NE. induction l as [|q t IH]; cbn [app cl_pend_get].
  - destruct (pb_id pb =? x) eqn:E; [apply N.eqb_eq in E; congruence | reflexivity].
  - destruct (pb_id q =? x); [reflexivity | exact IH].
Qed.

Lemma pend_get_app_new l pb : (forall p, In p l -> pb_id p <> pb_id pb) -> cl_pend_get (l ++ [pb]) (pb_id pb) = Some pb.
Proof.
  induction l as [|q t IH]; cbn [app cl_pend_get]; intro H.
  - rewrite N.eqb_refl. reflexivity.
  - destruct (pb_id q =? pb_id pb) eqn:E; [apply N.eqb_eq in E; exfalso; exact (H q (or_introl eq_refl) E)|].
    apply IH. intros p HP. apply H. right. exact HP.
Qed.

(* the windows-blocked part of NS, without the premise about the write loop *)
Definition NSb (c : cconn) : Prop := cc_winCh c = false -> forall pb, In pb (cc_pending c) -> blocked c pb.

Lemma NSb_NS (c : cconn) : NSb c -> NS c.
Proof. intros H _. exact H. Qed.

(* a new body has been put on c.pending and sendPending has run on it *)
Lemma open_body_NS (c c7 : cconn) pb : RNG c -> ES hstate c -> NSb c ->
  pb_id pb = cc_nextID c -> I32 (pb_window pb) ->
  cc_pending c7 = cc_pending c ++ [pb] -> cc_connWindow c7 = cc_connWindow c -> cc_streamWindow c7 = cc_streamWindow c ->
  cc_winCh c7 = cc_winCh c ->
  let res := cl_send_pending (cl_send_fuel c7 (pb_id pb)) c7 (pb_id pb) in
  match snd res with
  | CSPOk => NSb (fst res)
  | CSPStuck => cc_wl_stuck (fst res) = true
  | CSPWriteErr => True
  end.
Proof.
  intros R E N PI PW P7 C7 S7 W7. cbv zeta.
  assert (FR : forall p, In p (cc_pending c) -> pb_id p <> pb_id pb) by (intros p HP; pose proof (es_fresh _ _ E p HP); flia).
  assert (R7 : RNG c7).
  { destruct R as [r1 r2 r3 r4]. constructor; rewrite ?P7, ?C7, ?S7; auto.
    - intros p HP. apply in_app_or in HP. destruct HP as [HP|[<-|[]]]; auto.
    - rewrite map_app. cbn [map]. apply NoDup_app_snoc; [exact r4|]. intro X. apply in_map_iff in X. destruct X as (p & EQ & HP). exact (FR p HP EQ). }
  pose proof (send_pending_fueled c7 (pb_id pb) R7) as SP.
  destruct (cl_send_pending (cl_send_fuel c7 (pb_id pb)) c7 (pb_id pb)) as [c8 r]. cbn [fst snd] in *.
  destruct SP as [s1 s2 s3 s4 s5 s6 s7]. destruct r; [|exact I | exact s7].
  intros WC p HP. apply s1 in WC. rewrite W7 in WC.
  destruct (N.eq_dec (pb_id p) (pb_id pb)) as [EQ|NE].
  - pose proof (pend_get_member _ _ (r_nd _ s6) HP) as G. rewrite EQ in G.
    destruct s7 as [X|(pb' & X & B)]; rewrite G in X; [discriminate|]. inversion X; subst pb'. exact B.
  - pose proof (pend_get_member _ _ (r_nd _ s6) HP) as G. rewrite (s4 _ NE), P7, (pend_get_app_other _ _ _ NE) in G.
    apply pend_get_In in G. destruct G as [HI _]. eapply blockedw_mono; [apply (N WC p HI)|]. rewrite <- C7. exact s3.
Qed.

Definition wr_post (c1 : cconn) (r : cl_wrres) : Prop :=
  match r with
  | CWRNil => NSb c1
  | CWRErr e => match e with CENoStreams => NSb c1 | _ => True end
  | CWRStuck => cc_wl_stuck c1 = true
  end.

Lemma write_request_NS (c : cconn) tag c1' r : RNG c -> ES hstate c -> NSb c ->
  cl_write_request enc_field enc_set_max c tag = (c1', r) -> wr_post c1' r.
Proof.
  intros R E N. unfold cl_write_request.
  destruct (cl_can_open_stream c) eqn:CO; cbn [negb]; [|intro H; inversion H; subst; exact N].
  destruct (cl_ctx_get c tag) as [x|] eqn:GX; [|intro H; inversion H; subst; exact N].
  destruct (ct_lckStuck x); [intro H; inversion H; subst; apply (proj2 (SF_go_stuck 1 [] c false tag)); reflexivity|].
  destruct (ct_done x); [intro H; inversion H; subst; exact N|].
  set (c1 := if negb (cc_encTableSize c =? cc_encTableSeen c) then _ else c).
  assert (F1 : cc_pending c1 = cc_pending c /\ cc_connWindow c1 = cc_connWindow c /\ cc_streamWindow c1 = cc_streamWindow c /\
               cc_winCh c1 = cc_winCh c /\ cc_nextID c1 = cc_nextID c /\ cc_goAway c1 = cc_goAway c).
  { subst c1. destruct (negb _); repeat split. }
  destruct F1 as (P1 & C1 & S1 & W1 & N1 & G1). clearbody c1.
  destruct (cl_maxStreamID <? cc_nextID c1) eqn:IDS; [intro H; inversion H; subst; exact I|].
  destruct (cl_request_block enc_field (cc_enc (ccu_nextID c1 (u32 (cc_nextID c1 + 2)))) (ct_req x)) as [blk e'] eqn:RB.
  unfold cl_ctx_put. cc_cbn. rewrite G1, (can_open_goaway _ _ CO).
  assert (SWI : I32 (cc_streamWindow c1)) by (rewrite S1; apply (r_sw _ R)).
  assert (FAIL : forall (cx : cconn) id (c8 : cconn) st,
            cl_delete_pending 1 [] cx id = (c8, st) -> wr_post c8 (if st then CWRStuck else CWRErr CEWrite)).
  { intros cx id c8 st DP. destruct (delete_pending_flow _ _ _ _ DP) as (_ & _ & _ & _ & A5). destruct st; [apply A5; reflexivity | exact I]. }
  destruct (cq_body (ct_req x)) as [b|reads size] eqn:BD; [destruct b as [|b0 bt]|]; cbn [cl_is_nil negb].
  - (* no body *)
    unfold cl_can_write at 1. cc_cbn. fold (cl_can_write c1). destruct (cl_can_write c1) eqn:CWE.
    + intro H; inversion H; subst. intros WC p HP. cc_cbn_in WC. cc_cbn_in HP. unfold blocked. cc_cbn.
      rewrite C1. rewrite P1 in HP. rewrite W1 in WC. apply (N WC p HP).
    + match goal with |- context [cl_delete_pending ?w ?h ?cc ?i] => destruct (cl_delete_pending w h cc i) as [c8 st] eqn:DP end.
      pose proof (FAIL _ _ _ _ DP) as X. destruct st; intro H; inversion H; subst; exact X.
  - (* a buffered body *)
    unfold cl_can_write at 1. cc_cbn. fold (cl_can_write c1). destruct (cl_can_write c1) eqn:CWE.
    + set (pb := mkCPB (cc_nextID c1) tag (b0 :: bt) (cc_streamWindow c1) None (-1) 0 false).
      match goal with |- context [cl_send_pending (cl_send_fuel ?c7 ?i) ?c7 ?i] =>
        pose proof (open_body_NS c c7 pb R E N (eq_trans eq_refl N1) SWI) as OB end.
      cbv zeta in OB. cc_cbn_in OB. rewrite P1 in OB. specialize (OB eq_refl C1 S1 W1).
      cbn [pb_id pb] in OB. rewrite P1.
      match goal with |- context [cl_send_pending ?f ?c7 ?i] => destruct (cl_send_pending f c7 i) as [c8 r8] end.
      cbn [fst snd] in OB. destruct r8; intro H; inversion H; subst; exact OB.
    + match goal with |- context [cl_delete_pending ?w ?h ?cc ?i] => destruct (cl_delete_pending w h cc i) as [c8 st] eqn:DP end.
      pose proof (FAIL _ _ _ _ DP) as X. destruct st; intro H; inversion H; subst; exact X.
  - (* a streamed body *)
    unfold cl_can_write at 1. cc_cbn. fold (cl_can_write c1). destruct (cl_can_write c1) eqn:CWE.
    + set (pb := mkCPB (cc_nextID c1) tag [] (cc_streamWindow c1) (Some reads) size 0 (size =? 0)%Z).
      match goal with |- context [cl_send_pending (cl_send_fuel ?c7 ?i) ?c7 ?i] =>
        pose proof (open_body_NS c c7 pb R E N (eq_trans eq_refl N1) SWI) as OB end.
      cbv zeta in OB. cc_cbn_in OB. rewrite P1 in OB. specialize (OB eq_refl C1 S1 W1).
      cbn [pb_id pb] in OB. rewrite P1.
      match goal with |- context [cl_send_pending ?f ?c7 ?i] => destruct (cl_send_pending f c7 i) as [c8 r8] end.
      cbn [fst snd] in OB. destruct r8; intro H; inversion H; subst; exact OB.
    + match goal with |- context [cl_delete_pending ?w ?h ?cc ?i] => destruct (cl_delete_pending w h cc i) as [c8 st] eqn:DP end.
      pose proof (FAIL _ _ _ _ DP) as X. destruct st; intro H; inversion H; subst; exact X.
Qed.

Lemma wl_after_NS2 (c : cconn) : NS c -> NS (cl_wl_after cfg c).
Proof. intro N. unfold cl_wl_after. destruct (_ && _); [intro X; rewrite wl_exit_dead in X; discriminate | exact N]. Qed.

Lemma NS_ctx_upd (c : cconn) tag f : NS c -> NS (cl_ctx_upd c tag f).
Proof. intro N. unfold cl_ctx_upd. destruct (cl_ctx_get c tag); [apply (NS_same c); try reflexivity; auto | exact N]. Qed.

Lemma wl_in_NS (c : cconn) : RNG c -> ES hstate c -> NS c -> cl_wl_live c = true -> NS (cl_wl_in enc_field enc_set_max cfg c).
Proof.
  intros R E N LV. unfold cl_wl_in. destruct (cc_inQ c) as [|tag q] eqn:Q; [exact N|].
  set (cq := ccu_inQ c q).
  assert (Rq : RNG cq) by (destruct R as [r1 r2 r3 r4]; constructor; assumption).
  assert (Eq : ES hstate cq) by (apply (ES_same hstate c); try reflexivity; auto).
  assert (Nq : NSb cq) by (intros WC p HP; apply (N LV WC p HP)).
  destruct (cl_write_request enc_field enc_set_max cq tag) as [c1 r] eqn:WR.
  pose proof (write_request_NS cq tag c1 r Rq Eq Nq WR) as X. unfold wr_post in X.
  destruct r as [|e|].
  - apply wl_after_NS2, NSb_NS, X.
  - destruct e; try (intro Y; rewrite wl_exit_dead in Y; discriminate).
    apply NS_ctx_upd, NSb_NS, X.
  - intro Y. unfold cl_wl_live in Y. rewrite X, andb_false_r in Y. discriminate.
Qed.

Lemma mvs_NS (c : cconn) ms c' : mvs enc_field enc_set_max c ms c' -> Forall quiet_flow ms -> NS c -> NS c'.
Proof. induction 1 as [c|c m ms c' V M IH]; intros F N; [exact N|]. inversion F; subst. apply IH; [assumption | apply mv_NS; assumption]. Qed.

Lemma step_NS (c : cconn) e : RNG c -> ES hstate c -> NS c -> NS (step c e).
Proof.
  intros R E N.
  assert (GEN : ~ is_wlf e -> NS (step c e)).
  { intro NW. destruct (step_D hstate dec_field enc_field enc_set_max cfg c e) as (ms & M & F & _).
    apply (mvs_NS c ms _ M); [|exact N]. eapply Forall_impl; [|exact F].
    intros m EV. destruct m; cbn [quiet_flow]; try exact I; cbn in EV; try (apply NW; exact EV); try (apply NW; rewrite EV; exact I).
    all: try (destruct e; try contradiction; apply NW; exact I). }
  destruct e; try (apply GEN; intros []; fail).
  - cbn [cl_step]. destruct (cl_wl_live c) eqn:LV; [apply wl_in_NS; assumption | exact N].
  - cbn [cl_step]. destruct (cl_wl_live c) eqn:LV; [apply wl_win_NS; assumption | exact N].
Qed.

Lemma step_RNG (c : cconn) e : ES hstate c -> RNG c -> RNG (step c e).
Proof.
  intros E R. destruct (step_D hstate dec_field enc_field enc_set_max cfg c e) as (ms & M & _).
  revert E R. generalize dependent (step c e). intros cf M.
  induction M as [c|c m ms c' V M IH]; intros E R; [exact R|]. apply IH; [apply mv_ES | apply mv_RNG]; assumption.
Qed.

Lemma NS_RNG_run evs : RNG (run evs) /\ NS (run evs).
Proof.
  unfold cl_run. pose proof (ES_run hstate dec_field enc_field enc_set_max cfg h0 first) as ER. unfold cl_run in ER.
  assert (G : forall evs (c : cconn), (forall evs', ES hstate (fold_left step evs' c)) -> RNG c -> NS c ->
                RNG (fold_left step evs c) /\ NS (fold_left step evs c)).
  { clear evs. induction evs as [|e t IH]; intros c EA R N; cbn [fold_left]; [split; assumption|].
    apply IH; [intros evs'; apply (EA (e :: evs')) | apply step_RNG; [apply (EA []) | exact R] | apply step_NS; [exact R | apply (EA []) | exact N]]. }
  apply G; [intros evs'; apply ER | apply RNG_init|].
  intros _ _ pb HP. exfalso. revert HP. unfold cl_init. destruct (cl_settings_deserialize false first); cc_cbn; intros [].
Qed.

(* C07 (c), no stall: after any events, while the write loop is running and there is no winCh token waiting for
   it, every body still pending has bytes buffered and is blocked by a window that is not positive: whenever a
   pending body could go on, either the token is set (the write loop will run flushPending) or the write loop has
   ended with the connection *)
Theorem no_stall evs pb :
  let c := run evs in
  cl_wl_live c = true -> cc_winCh c = false -> In pb (cc_pending c) ->
  pb_body pb <> [] /\ (cl_zmin (pb_window pb) (cc_connWindow c) <= 0)%Z.
Proof. cbv zeta. intros LV WC HP. destruct (NS_RNG_run evs) as [_ N]. exact (N LV WC pb HP). Qed.

(* sendPending, run to its end by the write loop, leaves the body it was called for gone or blocked, touches no other
   body, never raises the connection window and never takes the winCh token away (it sets it when it hands a chunk of
   a request that was taken back to the connection window again) *)
Theorem send_pending_runs_dry evs id :
  let c := run evs in
  let res := cl_send_pending (cl_send_fuel c id) c id in
  snd res = CSPOk ->
  (cl_pend_get (cc_pending (fst res)) id = None \/
   exists pb', cl_pend_get (cc_pending (fst res)) id = Some pb' /\ pb_body pb' <> [] /\ (cl_zmin (pb_window pb') (cc_connWindow (fst res)) <= 0)%Z) /\
  (forall x, x <> id -> cl_pend_get (cc_pending (fst res)) x = cl_pend_get (cc_pending c) x) /\
  (cc_connWindow (fst res) <= cc_connWindow c)%Z /\ (cc_winCh c = true -> cc_winCh (fst res) = true).
Proof.
  cbv zeta. intro OK. destruct (NS_RNG_run evs) as [R _]. destruct (send_pending_fueled (run evs) id R) as [s1 s2 s3 s4 s5 s6 s7].
  rewrite OK in s7. split; [exact s7|]. split; [exact s4|]. split; [exact s3|].
  intro T. destruct (cc_winCh (fst _)) eqn:W; [reflexivity|]. rewrite (s1 eq_refl) in T. discriminate.
Qed.

(* ---------- every step that opens a window leaves the winCh token set ---------- *)

Lemma winch_keep m (c : cconn) : m <> MWinCh -> cc_winCh c = true -> cc_winCh (apply m c) = true.
Proof.
  intros NW W. destruct m; cbn [apply]; try exact W; try congruence.
  - destruct (quietb o); exact W.
  - unfold cl_take_req_count. destruct (cl_req_find _ _); exact W.
  - destruct (pushb o); [|exact W]. unfold cl_write_out. destruct (cc_closed c); exact W.
  - destruct (cc_outQ c); exact W.
  - unfold recv_data, cl_update_window, cl_write_out. cc_cbn. repeat match goal with |- context [if ?b then _ else _] => destruct b end; exact W.
  - destruct (cl_settings_deserialize false payload) as [st|]; [|exact W].
    unfold cl_handle_settings, cl_apply_initial_window, cl_signal_window, cl_write_out. cc_cbn.
    destruct (cl_settings_has st c_HeaderTableSize), (cs_hasWin st); cc_cbn; match goal with |- context [if ?b then _ else _] => destruct b end; cc_cbn; auto.
  - unfold cl_add_window, cl_signal_window. reflexivity.
  - destruct (cl_pend_get _ _) as [pb|]; [|exact W]. destruct (cl_refill pb); exact W.
  - destruct (cl_pend_get _ _) as [pb|]; [|exact W].
    assert (X : cc_winCh (cs_conn c pb id) = true) by (unfold cs_conn; destruct (cs_end c pb); exact W).
    destruct wr; [|exact X]. destruct (SF_notes (cl_write_data (cc_maxFrame (cs_conn c pb id)) id (cs_chunk c pb) (cs_end c pb)) (cs_conn c pb id)) as (_ & _ & _ & F4 & _).
    rewrite F4. exact X.
  - destruct (cl_pend_get _ _) as [pb|]; [|exact W]. sb_cases c pb; cc_cbn; auto.
  - destruct (negb _); exact W.
  - destruct opb; exact W.
Qed.

Lemma winch_grant m (c : cconn) : grants_of m <> [] -> cc_winCh (apply m c) = true.
Proof.
  destruct m; cbn [grants_of]; try congruence; intro G; cbn [apply].
  - destruct (cl_settings_deserialize false payload) as [st|] eqn:DS; [|congruence].
    destruct (deserialize_win _ _ DS) as [WO _]. unfold win_of in WO.
    destruct (cs_hasWin st) eqn:HW.
    + unfold cl_handle_settings, cl_apply_initial_window, cl_signal_window, cl_write_out. rewrite HW.
      destruct (cl_settings_has st c_HeaderTableSize); cc_cbn; match goal with |- context [if ?b then _ else _] => destruct b end; reflexivity.
    + exfalso. apply G. apply last_init_opt_none; [apply inits_of_linit | symmetry; exact WO].
  - unfold cl_add_window, cl_signal_window. reflexivity.
Qed.

Lemma mvs_winch (c : cconn) ms c' : mvs enc_field enc_set_max c ms c' -> Forall (fun m => m <> MWinCh) ms ->
  cc_winCh c = true \/ flat_map grants_of ms <> [] -> cc_winCh c' = true.
Proof.
  induction 1 as [c|c m ms c' V M IH]; intros F H; [destruct H as [H|H]; [exact H | exfalso; apply H; reflexivity]|].
  inversion F; subst. apply IH; [assumption|]. cbn [flat_map] in H.
  destruct H as [H|H]; [left; apply winch_keep; assumption|].
  destruct (grants_of m) eqn:G; [right; exact H | left; apply winch_grant; rewrite G; discriminate].
Qed.

(* a step in which the read loop applies a grant (WINDOW_UPDATE, or SETTINGS with INITIAL_WINDOW_SIZE) ends with the
   winCh token set: signalWindow. So a body that the grant has made sendable is never left without the write loop
   being told (no_stall: a token or nothing sendable) *)
Theorem window_opening_signals (c : cconn) e : g_ledger_in hstate c e <> [] -> cc_winCh (step c e) = true.
Proof.
  intro G. destruct (step_D hstate dec_field enc_field enc_set_max cfg c e) as (ms & M & F & GR & _).
  apply (mvs_winch c ms _ M); [|right; rewrite GR; exact G].
  assert (RL : is_rl e) by (destruct e; try (exfalso; apply G; reflexivity); exact I).
  eapply Forall_impl; [|exact F]. intros m EV ->. cbn in EV. destruct e; try contradiction.
Qed.

(* ---------- completion, for a buffered body ---------- *)

Lemma dropN_nil_iff (n : N) (b : bytes) : n <= len b -> (dropN n b = [] <-> n = len b).
Proof.
  intro L. unfold dropN, len in *. split; intro H.
  - assert (X : length (skipn (N.to_nat n) b) = 0%nat) by (rewrite H; reflexivity). rewrite skipn_length in X. clear - X L. lia.
  - apply length_zero_iff_nil. rewrite skipn_length. clear - H. lia.
Qed.

(* C07 (d): one call of sendPending for a buffered body whose request is still the caller's to send: exactly the next
   q = min(bytes left, stream window, connection window) bytes go out (none if that is not positive), in one run of
   DATA frames, both windows are debited by q; if that was all of it END_STREAM is on the last frame and the body leaves
   c.pending, otherwise it stays with the rest, blocked *)
Theorem send_pending_buffered (c : cconn) id pb fuel :
  RNG c -> cl_pend_get (cc_pending c) id = Some pb -> pb_stream pb = None -> pb_body pb <> [] ->
  cl_acquire_for [] (cs_conn c pb id) (pb_tag pb) id = CLOk -> cl_can_write c = true ->
  let q := cs_n c pb in
  let done := (q =? Z.of_N (len (pb_body pb)))%Z in
  let res := cl_send_pending (S (S fuel)) c id in
  snd res = CSPOk /\
  cc_out (fst res) = rev (cl_write_data (cc_maxFrame c) id (takeN (Z.to_N q) (pb_body pb)) done) ++ cc_out c /\
  cc_connWindow (fst res) = (cc_connWindow c - q)%Z /\
  (if done then cl_pend_get (cc_pending (fst res)) id = None
   else exists pb', cl_pend_get (cc_pending (fst res)) id = Some pb' /\ pb_body pb' = dropN (Z.to_N q) (pb_body pb) /\
                    pb_window pb' = (pb_window pb - q)%Z /\ pb_stream pb' = None /\ blocked (fst res) pb').
Proof.
  intros R G SN BN ACQ CW. cbv zeta.
  pose proof (cs_n_facts hstate c pb) as [N1 N2]. pose proof (cs_n_clamp c pb) as NCL.
  destruct (cs_conn_facts c pb id G R) as (W2 & SW2 & CW2 & O2 & ID2 & R2 & ST2 & E2). cbv zeta in *.
  assert (RC : refill_cond pb = false) by (unfold refill_cond; rewrite SN, andb_false_r; reflexivity).
  assert (LP : (0 < Z.of_N (len (pb_body pb)))%Z) by (unfold len; destruct (pb_body pb); [congruence | cbn [length]; clear; lia]).
  assert (ENDQ : cs_end c pb = (cs_n c pb =? Z.of_N (len (pb_body pb)))%Z).
  { unfold cs_end, cl_has_more, cs_pb. cbn [pb_body pb_stream pbu_body pbu_window]. rewrite SN. cbn [andb]. rewrite orb_false_r, negb_involutive.
    assert (LE : Z.to_N (cs_n c pb) <= len (pb_body pb)) by (clear - N1; lia).
    pose proof (dropN_nil_iff _ _ LE) as DI.
    destruct (cs_n c pb =? Z.of_N (len (pb_body pb)))%Z eqn:Q; [apply Z.eqb_eq in Q | apply Z.eqb_neq in Q].
    - assert (X : dropN (Z.to_N (cs_n c pb)) (pb_body pb) = []) by (apply DI; clear - Q; lia). rewrite X. reflexivity.
    - assert (NN : dropN (Z.to_N (cs_n c pb)) (pb_body pb) <> []) by (intro X; apply Q; apply (proj1 DI) in X; clear - X N1; lia).
      destruct (dropN (Z.to_N (cs_n c pb)) (pb_body pb)); [congruence | reflexivity]. }
  rewrite send_pending_S, G, RC. cbv zeta. rewrite ENDQ in *.
  set (q := cs_n c pb) in *. set (c2 := cs_conn c pb id) in *.
  assert (CW2' : cl_can_write c2 = true) by (subst c2; unfold cs_conn, cl_can_write in *; destruct (q =? _)%Z; exact CW).
  assert (MF2 : cc_maxFrame c2 = cc_maxFrame c) by (subst c2; unfold cs_conn; destruct (q =? _)%Z; reflexivity).
  assert (OUT2 : cc_out c2 = cc_out c) by (subst c2; unfold cs_conn; destruct (q =? _)%Z; reflexivity).
  destruct (q =? 0)%Z eqn:Q0.
  - (* nothing can be sent: a window is not positive *)
    apply Z.eqb_eq in Q0.
    assert (ND : (q =? Z.of_N (len (pb_body pb)))%Z = false) by (apply Z.eqb_neq; clear - Q0 LP; lia).
    rewrite ND in *. cbn [negb andb fst snd]. destruct E2 as [E2 PW].
    split; [reflexivity|]. split; [rewrite Q0; cbn [Z.to_N takeN firstn N.to_nat cl_write_data rev app]; exact OUT2|].
    split; [exact CW2|]. exists (cs_pb c pb). split; [exact E2|]. split; [reflexivity|]. split; [exact PW|]. split; [exact SN|].
    unfold blocked, blockedw. rewrite PW, CW2. fold q. rewrite Q0, !Z.sub_0_r. unfold cs_pb. fold q. rewrite Q0.
    cbn [pb_body pbu_body pbu_window Z.to_N dropN N.to_nat skipn]. split; [exact BN|].
    apply (blocked_arith _ _ _ LP). rewrite <- NCL. exact Q0.
  - apply Z.eqb_neq in Q0. assert (QP : (0 < q)%Z) by (clear - Q0 N1; lia). cbn [andb]. rewrite ACQ, CW2', MF2.
    set (c3 := cl_notes c2 _).
    destruct (SF_notes (cl_write_data (cc_maxFrame c) id (cs_chunk c pb) (q =? Z.of_N (len (pb_body pb)))%Z) c2) as (F1 & F2 & F3 & F4 & F5). fold c3 in F1, F2, F3, F4, F5.
    assert (OUT3 : cc_out c3 = rev (cl_write_data (cc_maxFrame c) id (cs_chunk c pb) (q =? Z.of_N (len (pb_body pb)))%Z) ++ cc_out c).
    { subst c3. rewrite (out_notes hstate), OUT2. reflexivity. }
    destruct (q =? Z.of_N (len (pb_body pb)))%Z eqn:DN.
    + (* the whole rest: END_STREAM *)
      cbn [fst snd]. unfold cl_close_body.
      assert (PS : pb_stream (cs_pb c pb) = None) by (unfold cs_pb; cbn [pb_stream pbu_body pbu_window]; exact SN). rewrite PS.
      split; [reflexivity|]. split; [exact OUT3|]. split; [rewrite F2; exact CW2 | rewrite F1; exact E2].
    + (* a window ran out: the next iteration stops *)
      destruct E2 as [E2 PW]. apply Z.eqb_neq in DN.
      assert (R3 : RNG c3) by (destruct R2 as [r1 r2 r3 r4]; constructor; rewrite ?F1, ?F2, ?F3; auto).
      assert (G3 : cl_pend_get (cc_pending c3) id = Some (cs_pb c pb)) by (rewrite F1; exact E2).
      assert (BODY : pb_body (cs_pb c pb) <> []).
      { unfold cs_pb. fold q. cbn [pb_body pbu_body pbu_window]. intro X. apply dropN_nil_iff in X; [|clear - N1; lia]. apply DN. clear - X N1. lia. }
      rewrite send_pending_S, G3.
      assert (RC' : refill_cond (cs_pb c pb) = false) by (unfold refill_cond, cs_pb; cbn [pb_stream pbu_body pbu_window]; rewrite SN, andb_false_r; reflexivity).
      rewrite RC'. cbv zeta.
      destruct (cs_conn_facts c3 (cs_pb c pb) id G3 R3) as (W4 & SW4 & CW4 & O4 & ID4 & R4 & ST4 & E4). cbv zeta in *.
      assert (LEN : (Z.of_N (len (pb_body (cs_pb c pb))) = Z.of_N (len (pb_body pb)) - q)%Z).
      { unfold cs_pb. fold q. cbn [pb_body pbu_body pbu_window]. rewrite len_dropN. clear - N1. lia. }
      assert (NL : (q < Z.of_N (len (pb_body pb)))%Z) by (clear - DN N1; lia).
      destruct (after_send_arith _ _ _ q NCL QP NL) as [AS1 AS2].
      assert (N0 : cs_n c3 (cs_pb c pb) = 0%Z) by (rewrite cs_n_clamp, F2, CW2, PW, LEN; exact AS2).
      assert (EN' : cs_end c3 (cs_pb c pb) = false).
      { unfold cs_end, cl_has_more, cs_pb at 1. rewrite N0. cbn [pb_body pbu_body pbu_window Z.to_N dropN N.to_nat skipn].
        destruct (pb_body (cs_pb c pb)); [congruence | reflexivity]. }
      rewrite N0, EN'. cbn [Z.eqb negb andb fst snd]. rewrite EN' in E4. destruct E4 as [E4 PW4].
      assert (OUT4 : cc_out (cs_conn c3 (cs_pb c pb) id) = cc_out c3) by (unfold cs_conn; rewrite EN'; reflexivity).
      split; [reflexivity|]. split; [rewrite OUT4; exact OUT3|]. split; [rewrite CW4, N0, Z.sub_0_r, F2; exact CW2|].
      eexists. split; [exact E4|].
      split; [unfold cs_pb at 1; rewrite N0; cbn [pb_body pbu_body pbu_window Z.to_N dropN N.to_nat skipn]; reflexivity|].
      split; [rewrite PW4, N0, Z.sub_0_r; exact PW|].
      split; [unfold cs_pb; cbn [pb_stream pbu_body pbu_window]; exact SN|].
      unfold blocked, blockedw. rewrite PW4, CW4, N0, !Z.sub_0_r. unfold cs_pb at 1. rewrite N0. cbn [pb_body pbu_body pbu_window Z.to_N dropN N.to_nat skipn].
      split; [exact BODY|]. rewrite F2, CW2, PW. exact AS1.
Qed.

(* completion, one grant at a time: WINDOW_UPDATE for a stream whose buffered body is waiting raises its window and
   sets the winCh token (addWindow); the call of sendPending the write loop then makes sends the next
   q = min(bytes left, window + increment, connection window) bytes. By induction on the server's grants one buffered
   body is therefore sent completely, with one END_STREAM, as soon as the grants cover it *)
Theorem stream_grant_resumes (c : cconn) id pb inc fuel :
  RNG c -> cl_pend_get (cc_pending c) id = Some pb -> pb_stream pb = None -> pb_body pb <> [] -> id <> 0 ->
  (0 <= inc)%Z -> (pb_window pb + inc <= 2147483647)%Z ->
  let c1 := cl_add_window c id inc in
  let pb1 := pbu_window pb (pb_window pb + inc)%Z in
  cl_acquire_for [] (cs_conn c1 pb1 id) (pb_tag pb) id = CLOk -> cl_can_write c = true ->
  cc_winCh c1 = true /\ cl_pend_get (cc_pending c1) id = Some pb1 /\
  let q := cs_n c1 pb1 in
  let done := (q =? Z.of_N (len (pb_body pb)))%Z in
  let res := cl_send_pending (S (S fuel)) c1 id in
  snd res = CSPOk /\
  cc_out (fst res) = rev (cl_write_data (cc_maxFrame c) id (takeN (Z.to_N q) (pb_body pb)) done) ++ cc_out c /\
  cc_connWindow (fst res) = (cc_connWindow c - q)%Z /\
  (if done then cl_pend_get (cc_pending (fst res)) id = None
   else exists pb', cl_pend_get (cc_pending (fst res)) id = Some pb' /\ pb_body pb' = dropN (Z.to_N q) (pb_body pb) /\
                    pb_window pb' = (pb_window pb + inc - q)%Z /\ pb_stream pb' = None /\ blocked (fst res) pb').
Proof.
  intros R G SN BN NZ IP IB. cbv zeta. intros ACQ CW.
  destruct (pend_get_In _ _ _ G) as [HI EI]. destruct R as [r1 r2 r3 r4].
  assert (I32W : cl_i32 (pb_window pb + inc) = (pb_window pb + inc)%Z).
  { apply cl_i32_id. pose proof (r3 pb HI) as X. unfold I32 in X. clear - X IP IB. lia. }
  assert (C1 : cl_add_window c id inc = ccu_winCh (ccu_pending c (cl_pend_put (cc_pending c) (pbu_window pb (pb_window pb + inc)%Z))) true).
  { unfold cl_add_window, cl_signal_window. apply N.eqb_neq in NZ. rewrite NZ, G, I32W. reflexivity. }
  rewrite C1 in *. set (pb1 := pbu_window pb (pb_window pb + inc)%Z) in *.
  set (c1 := ccu_winCh (ccu_pending c (cl_pend_put (cc_pending c) pb1)) true) in *.
  assert (G1 : cl_pend_get (cc_pending c1) id = Some pb1).
  { subst c1. cc_cbn. rewrite <- EI. change (pb_id pb) with (pb_id pb1). apply pend_get_put_same. cbn [pb1 pb_id pbu_window]. rewrite EI, G. discriminate. }
  assert (R1 : RNG c1).
  { subst c1. constructor; cc_cbn; auto; [|rewrite pend_put_ids; exact r4].
    intros p HP. apply (pend_put_In _ _ _ r4) in HP. destruct HP as [->|[HP _]]; [|auto].
    cbn [pb1 pb_window pbu_window]. rewrite <- I32W. apply cl_i32_range. }
  split; [reflexivity|]. split; [exact G1|].
  pose proof (send_pending_buffered c1 id pb1 fuel R1 G1 SN BN ACQ CW) as SPB. cbv zeta in SPB.
  exact SPB.
Qed.

End Stall.
