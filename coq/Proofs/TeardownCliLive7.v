(* Proofs/TeardownCliLive7.v -- blocking-structure model (Impl/Teardown.v), client, S3 liveness (7): both loops exit, X is delivered.
   Statements: Props/Teardown.v; overview: Proofs/TeardownProofs.v. *)
From Coq Require Import Arith Lia Bool List.
From RecordUpdate Require Import RecordSet.
Import RecordSetNotations.
Import ListNotations.
From H2V Require Import Impl.Teardown Proofs.TeardownGen Proofs.TeardownCliInv Proofs.TeardownCliInv1 Proofs.TeardownCliInv2 Proofs.TeardownCliInv3 Proofs.TeardownCliInv4 Proofs.TeardownCliLocks Proofs.TeardownCliInv5 Proofs.TeardownCliLive1 Proofs.TeardownCliLive2a Proofs.TeardownCliLive2b Proofs.TeardownCliLive2c Proofs.TeardownCliLive2d Proofs.TeardownCliLive3 Proofs.TeardownCliLive4 Proofs.TeardownCliLive5 Proofs.TeardownCliLive6.

Module CliL8.
Import Cli CliP CliP2 CliL CliL2 CliL3a CliL3b CliL3c CliL3d CliL4 CliL5 CliL6 CliL7.

Ltac easy_fin ::= solve [auto | congruence | lia | tauto | (intuition congruence)
                         | (intuition (try congruence; try lia))
                         | (repeat split; eauto; try congruence; try lia)
                         | (left; repeat split; eauto; try congruence; try lia)
                         | (right; right; right; repeat split; eauto; try congruence; try lia) ].
Ltac solve_side ::= cbn; unf; rwk; rwx; cbn;
  first [ solve [repeat split; eauto; try congruence; try lia]
        | match goal with |- _ \/ _ => first [ solve [left; solve_side] | solve [right; solve_side] ] end
        | solve [timeout 10 fin] ].
Ltac stab := let s := fresh "s" in let a := fresh "a" in let I := fresh "I" in
  let H := fresh "H" in let G := fresh "G" in
  intros s a I H G; clear I; act_cases a; cbn in G; break; try lia; params; unf; rwk; cbn in *;
  try congruence; try solve [solve_side].
Ltac wunf := unfold iterQ, wl_t, wl_iter, wm, pcw in *.

Section P.
Variable cap : nat.
Hypothesis cap_pos : 1 <= cap.
Notation guard := (Cli.guard cap).
Notation reachable := (Cli.reachable cap).
Notation inv := (CliP.inv cap).
Variable r : run guard eff.
Hypothesis F : fair_run cap r.
Hypothesis R0 : reachable (st r 0).
Hypothesis NS : forall i, stalled (st r i) = false \/ dead (st r i) = true.

Notation Inv_run := (CliL2.Inv_run cap cap_pos r R0 NS).
Notation "P ~> Q" := (leadsto r P Q) (at level 70).
Notation ensures := (lt_ensures guard eff r (Inv cap) Inv_run).
Notation ensures_s := (lt_ensures_s guard eff r (Inv cap) Inv_run).
Let Fwl : sfair g_wl r := proj1 (proj2 (proj2 (proj2 F))).
Let Fbody : sfair g_body r := proj1 (proj2 (proj2 (proj2 (proj2 (proj2 (proj2 (proj2 F))))))).
Let Wwl := sfair_fair guard eff r g_wl Fwl.
Let Wbody := sfair_fair guard eff r g_body Fbody.
Notation rl_release := (CliL2.rl_release cap cap_pos r F R0 NS).

Notation done_stable := (CliL2.done_stable cap cap_pos r NS).
Notation closed_stable := (CliL2.closed_stable cap cap_pos r NS).
Notation sclosed_stable := (CliL2.sclosed_stable cap cap_pos r NS).
Notation wl_t_stable := (CliL6.wl_t_stable cap cap_pos r NS).
Notation rl_done_stable := (CliL7.rl_done_stable cap cap_pos r NS).
Notation srun := (stable_run guard eff r (Inv cap) Inv_run).
Let Fx : sfair g_x r := proj1 F.
Let Wx := sfair_fair guard eff r g_x Fx.

Lemma wl_done_stable : stable guard eff (Inv cap) (fun s => wl s = LDone).
Proof. stab. Qed.

(* -- after Close has been entered, by anyone, both loops exit -- *)
Theorem both_loops_exit :
  (fun s => closed s = true) ~> (fun s => loops_exited s /\ done s = true).
Proof.
  intros i Hc.
  destruct (CliL2.closed_to_done cap cap_pos r F R0 NS i Hc) as (j1 & L1 & Hd).
  destruct (CliL4.wl_to_t cap cap_pos r F R0 NS j1 Hd) as (j2 & L2 & Ht).
  pose proof (srun _ done_stable j1 j2 L2 Hd) as Hd2.
  destruct (CliL5.done_to_sclosed cap cap_pos r F R0 NS j2 Hd2) as (j3 & L3 & Hs).
  pose proof (srun _ done_stable j2 j3 L3 Hd2) as Hd3.
  pose proof (srun _ wl_t_stable j2 j3 L3 Ht) as Ht3.
  destruct (CliL6.rl_finishes cap cap_pos r F R0 NS j3) as (j4 & L4 & Hr); [repeat split; auto|].
  pose proof (srun _ done_stable j3 j4 L4 Hd3) as Hd4.
  pose proof (srun _ wl_t_stable j3 j4 L4 Ht3) as Ht4.
  assert (closed (st r j4) = true) as Hc4.
  { apply (srun _ closed_stable i j4); auto; lia. }
  destruct (CliL7.wl_finishes cap cap_pos r F R0 NS j4) as (j5 & L5 & Hw); [repeat split; auto|].
  exists j5. split; [lia|]. repeat split; auto.
  - apply (srun _ rl_done_stable j4 j5); auto.
  - apply (srun _ done_stable j4 j5); auto.
Qed.

(* -- and X's caller gets its delivery, unless the write loop's own Close returned while c.done
      was still open (finding F4) -- *)
Definition LE (s : state) : Prop := wl s = LDone /\ rl s = RDone /\ done s = true.
Lemma LE_stable : stable guard eff (Inv cap) LE.
Proof.
  intros s a I (H1 & H2 & H3) G; split; [eapply wl_done_stable | split; [eapply rl_done_stable | eapply done_stable]]; eauto.
Qed.

Lemma kerr_resolved : forall s, Inv cap s -> wl s = LDone -> xc s = KErr ->
  raced s = true \/ xerr s = true.
Proof.
  intros s ((_ & _ & _ & I4) & _) Hw Hx. destruct I4.
  destruct (xloc s) eqn:E.
  - right; auto.
  - auto.
  - rewrite Hw in *; cbn in *. destruct i_drained0; auto; congruence.
  - rewrite Hw in *; cbn in *. destruct i_drained0; auto; congruence.
  - right. apply i_gone0; auto. rewrite Hx; auto.
Qed.

Lemma xW1 : (fun s => LE s /\ xc s = KW1) ~> (fun s => LE s /\ (xc s = KW2 \/ xc s = KSelf)).
Proof.
  apply (ensures g_x); auto.
  - intros s a I (HP & Hx) G. pose proof (LE_stable s a I HP G) as HP'.
    revert HP'. generalize (LE (eff a s)). intros LE' HP'. destruct HP as (Hw & Hrl & Hd).
    clear I; act_cases a; cbn in G; break; try lia; params; unf; rwk; cbn in *; unf; xr;
      try congruence; first [ left; solve [solve_side] | right; solve [solve_side] | idtac ].
  - intros s a I (HP & Hx) Ga G. pose proof (LE_stable s a I HP G) as HP'.
    revert HP'. generalize (LE (eff a s)). intros LE' HP'. destruct HP as (Hw & Hrl & Hd).
    clear I; act_cases a; cbn in Ga; try contradiction; cbn in G; break; try lia; params; unf; rwk;
      cbn in *; unf; xr; try congruence; try solve [solve_side].
  - intros s I ((Hw & Hrl & Hd) & Hx). exists KSeeDone; cbn; auto.
Qed.

Ltac xob1 :=
  let s := fresh "s" in let a := fresh "a" in let I := fresh "I" in let HP := fresh "HP" in
  let Hx := fresh "Hx" in let G := fresh "G" in let HP' := fresh "HP'" in let LE' := fresh "LE'" in
  intros s a I (HP & Hx) G; pose proof (LE_stable s a I HP G) as HP';
  revert HP'; generalize (LE (eff a s)); intros LE' HP'; destruct HP as (? & ? & ?);
  clear I; act_cases a; cbn in G; break; try lia; params; unf; rwk; cbn in *; unf; xr;
  try congruence; first [ left; solve [solve_side] | right; solve [solve_side] | idtac ].
Ltac xob2 :=
  let s := fresh "s" in let a := fresh "a" in let I := fresh "I" in let HP := fresh "HP" in
  let Hx := fresh "Hx" in let G := fresh "G" in let Ga := fresh "Ga" in
  let HP' := fresh "HP'" in let LE' := fresh "LE'" in
  intros s a I (HP & Hx) Ga G; pose proof (LE_stable s a I HP G) as HP';
  revert HP'; generalize (LE (eff a s)); intros LE' HP'; destruct HP as (? & ? & ?);
  clear I; act_cases a; cbn in Ga; try contradiction; cbn in G; break; try lia; params; unf; rwk;
  cbn in *; unf; xr; try congruence; try solve [solve_side].

Lemma xW2 : (fun s => LE s /\ xc s = KW2) ~> (fun s => LE s /\ xc s = KLck).
Proof.
  apply (ensures g_x); auto; [xob1 | xob2 | ].
  intros s I ((Hw & Hrl & Hd) & Hx). exists KCheckDone; cbn; auto.
Qed.
Lemma xLck : (fun s => LE s /\ xc s = KLck) ~> (fun s => LE s /\ xc s = KErr).
Proof.
  apply (ensures g_x); auto; [xob1 | xob2 | ].
  intros s ((I1 & _ & _ & _) & _ & _) ((Hw & Hrl & Hd) & Hx). exists KLockChk; cbn; repeat split; auto.
  pose proof (i_lx _ I1) as Hl. unfold wl_hold, rl_hold in Hl. rewrite Hw, Hrl in Hl. auto.
Qed.
Lemma xSelf : (fun s => LE s /\ xc s = KSelf) ~> (fun s => LE s /\ xc s = KErr).
Proof.
  apply (ensures g_x); auto; [xob1 | xob2 | ].
  intros s I ((Hw & Hrl & Hd) & Hx). exists KResolve; cbn; auto.
Qed.
Lemma xErr : (fun s => LE s /\ (xc s = KErr /\ xerr s = true)) ~> delivered.
Proof.
  unfold delivered. apply (ensures g_x); auto; [xob1 | xob2 | ].
  intros s I ((Hw & Hrl & Hd) & Hx & He). exists KRecv; cbn; auto.
Qed.

Theorem x_delivered : LE ~> (fun s => delivered s \/ raced s = true).
Proof.
  assert ((fun s => LE s /\ xc s = KErr) ~> (fun s => delivered s \/ raced s = true)) as K1.
  { intros i (HL & Hx). destruct (kerr_resolved _ (Inv_run i) (proj1 HL) Hx) as [Hr|He].
    - exists i; auto.
    - destruct (xErr i) as (j & Hj & Hd); [repeat split; auto; apply HL|]. exists j; auto. }
  assert ((fun s => LE s /\ xc s = KSelf) ~> (fun s => delivered s \/ raced s = true)) as K2
    by (eapply lt_trans; [apply xSelf | apply K1]).
  assert ((fun s => LE s /\ xc s = KLck) ~> (fun s => delivered s \/ raced s = true)) as K2'
    by (eapply lt_trans; [apply xLck | apply K1]).
  assert ((fun s => LE s /\ xc s = KW2) ~> (fun s => delivered s \/ raced s = true)) as K3
    by (eapply lt_trans; [apply xW2 | apply K2']).
  intros i HL. destruct (xc (st r i)) eqn:E.
  - destruct (xW1 i (conj HL E)) as (j & Hj & HL' & [E'|E']).
    + destruct (K3 j (conj HL' E')) as (k & Hk & Hq). exists k; split; auto; lia.
    + destruct (K2 j (conj HL' E')) as (k & Hk & Hq). exists k; split; auto; lia.
  - apply K3; auto.
  - apply K2'; auto.
  - apply K2; auto.
  - apply K1; auto.
  - exists i; split; auto. left; left; auto.
  - exists i; split; auto. left; right; auto.
Qed.

(* S3, liveness: once Close has been entered -- by Client.Close, or by a loop that saw the
   connection die -- both loops exit and X's caller receives from ctx.Err, unless the write
   loop's own Close returned while c.done was still open. *)
Theorem no_stranding :
  (fun s => closed s = true) ~>
  (fun s => loops_exited s /\ (delivered s \/ raced s = true)).
Proof.
  intros i Hc. destruct (both_loops_exit i Hc) as (j & Hj & (Hw & Hr) & Hd).
  destruct (x_delivered j (conj Hw (conj Hr Hd))) as (k & Hk & Hq).
  exists k; split; [lia|]. split; auto. split.
  - apply (srun _ wl_done_stable j k); auto.
  - apply (srun _ rl_done_stable j k); auto.
Qed.
End P.
End CliL8.
