(* Proofs/CliMsgInv.v - C02 (c) / C20 (client): the reference receiver (ghost) and the invariant that ties the
   client connection to it.

   gst / gstep      the reference receiver of a connection: the reference HPACK decoder (ref_loop of
                    Proofs/SrvIsoRef.v over dec_field) threaded over EVERY header-block fragment the read loop takes
                    in, in arrival order, whoever the block was for; complete header blocks (field lists of the
                    fragments concatenated) and DATA frames are logged per stream as items (Spec/Http2Responses.v).
   Inv g c          the model state c agrees with the ghost g: decoder state and carry, and for every request on
                    the table the Response under construction is what the automaton of Proofs/CliMsgAuto.v makes
                    of the items of ITS stream. *)
From H2V Require Import Base.Bytes Base.MachineInt Base.Result Gen.GenConsts Impl.ServerConn Impl.ClientConn
  Spec.Http2Messages Spec.Http2Responses Proofs.CliBase Proofs.SrvIsoRef Proofs.CliMsgRef Proofs.CliMsgAuto Proofs.CliMsgMoves Proofs.CliMsgDisp Proofs.CliMsgStep.
From Coq Require Import ZArith Lia ZifyN ZifyNat ZifyBool List.
Import ListNotations.
Local Open Scope N_scope.

Section Ghost.
Context {hstate : Type}.
Variable dec_field : hstate -> N -> bytes -> dec_res hstate.
Implicit Types c : cconn hstate.

Record gst : Type := mkG {
  g_d : hstate;                                   (* the reference decoder *)
  g_n : N;                                        (* fields of the open block decoded so far *)
  g_carry : bytes;                                (* the bytes of a field cut by the last frame boundary *)
  g_open : option (N * bool * list field);        (* the open block: stream, END_STREAM of its HEADERS, fields so far *)
  g_items : list (N * ritem)                      (* what has been received, oldest first *)
}.

Definition ginit (h0 : hstate) : gst := mkG h0 0 [] None [].

(* one fragment: b = carry ++ fragment *)
Definition gfrag (g : gst) (sid : N) (es0 : bool) (fs0 : list field) (n : N) (b : bytes) (eh : bool) : gst :=
  match ref_loop dec_field (S (length b)) eh (g_d g) n b with
  | ROk fs d' n' carry =>
    if eh then mkG d' n' [] None (g_items g ++ [(sid, RBlock (fs0 ++ fs) es0)])
    else if cl_maxHeaderPrev <? len carry then g
    else mkG d' n' carry (Some (sid, es0, fs0 ++ fs)) (g_items g)
  | _ => g              (* the bytes do not decode: the connection ends here *)
  end.

Definition gstep (g : gst) (fr : sframe) : gst :=
  match sf_kind fr with
  | KHeaders => gfrag g (sf_sid fr) (flag_has (sf_flags fr) FL_ES) [] 0 (sf_payload fr) (flag_has (sf_flags fr) FL_EH)
  | KCont =>
    match g_open g with
    | Some (sid, es0, fs0) => gfrag g sid es0 fs0 (g_n g) (g_carry g ++ sf_payload fr) (flag_has (sf_flags fr) FL_EH)
    | None => g
    end
  | KData => mkG (g_d g) (g_n g) (g_carry g) (g_open g)
                 (g_items g ++ [(sf_sid fr, RData (sf_payload fr) (flag_has (sf_flags fr) FL_ES))])
  | _ => g
  end.

Definition own (id : N) (items : list (N * ritem)) : list ritem :=
  map snd (filter (fun p => fst p =? id) items).

Lemma own_app id l1 l2 : own id (l1 ++ l2) = own id l1 ++ own id l2.
Proof. unfold own. rewrite filter_app, map_app. reflexivity. Qed.

(* ---------- the invariant ---------- *)
Definition TabRel (g : gst) (c : cconn hstate) (id : N) (x : cctx) : Prop :=
  exists r0 got,
    run_items rinit (own id (g_items g)) = ICont (r0, got) /\ ct_gotStatus x = got /\
    match g_open g with
    | Some (s, es, fs) =>
      if s =? id
      then hf_fold (false, 0%Z, None, Some r0) fs = (cc_hdrRegularSeen c, cc_hdrStatus c, cc_hdrErr c, Some (ct_resp x))
      else ct_resp x = r0
    | None => ct_resp x = r0
    end.

Record Inv (g : gst) (c : cconn hstate) : Prop := mkInv {
  i_dec : cl_rl_live c = true ->
          g_d g = cc_dec c /\
          match g_open g with
          | None => cc_hdrStream c = 0
          | Some (s, es, fs) => cc_hdrStream c = s /\ s <> 0 /\ cc_hdrEndStream c = es /\ g_n g = cc_hdrFields c /\ g_carry g = cc_hdrPrev c
          end;
  i_herr : forall e, cc_hdrErr c = Some e -> e = CEMalformed;
  i_tab : forall id tag, In (id, tag) (cc_reqQueued c) ->
          exists x, cl_ctx_get c tag = Some x /\ ct_sid x = id /\ id <> 0 /\ id < cc_nextID c /\ ct_err x <> Some CENil /\ TabRel g c id x;
  i_nodup : NoDup (map fst (cc_reqQueued c));
  i_fresh : forall tag x, cl_ctx_get c tag = Some x -> ct_sid x = 0 ->
            ct_resp x = cl_empty_resp /\ ct_gotStatus x = false /\ ct_err x <> Some CENil;
  i_nil : forall tag x, cl_ctx_get c tag = Some x -> ct_err x = Some CENil ->
          ct_sid x <> 0 /\ run_items rinit (own (ct_sid x) (g_items g)) = IDone (ct_resp x);
  i_res : forall tag r resp, In (COResult tag r CENil resp) (cc_out c) ->
          exists x, cl_ctx_get c tag = Some x /\ ct_sid x <> 0 /\ run_items rinit (own (ct_sid x) (g_items g)) = IDone resp;
  i_inq : NoDup (cc_inQ c) /\ forall t, In t (cc_inQ c) -> exists x, cl_ctx_get c t = Some x /\ ct_sid x = 0;
  i_le : forall e, cc_lastErr c = Some e -> err_special e = false;
  i_outq : forallb q2 (cc_outQ c) = true;
  i_next : 1 <= cc_nextID c
}.

(* the server never sends on a stream the client has not opened (RFC 7540 5.1.1: such a frame is a connection
   error; a conforming server does not do it): every item received so far is on a stream below nextID *)
Definition Idle (g : gst) (c : cconn hstate) : Prop :=
  (forall s i, In (s, i) (g_items g) -> s < cc_nextID c) /\
  match g_open g with Some (s, _, _) => s < cc_nextID c | None => True end.

(* ---------- quiet moves keep the invariant, with the same ghost ---------- *)
Lemma ctxs_q_get (c c' : cconn hstate) tag x' : ctxs_q c c' -> cl_ctx_get c' tag = Some x' -> exists x, cl_ctx_get c tag = Some x /\ ctx_q x x'.
Proof. intros Q G. specialize (Q tag). rewrite G in Q. destruct (cl_ctx_get c tag) as [x|]; [eauto | contradiction]. Qed.
Lemma ctxs_q_get_rev (c c' : cconn hstate) tag x : ctxs_q c c' -> cl_ctx_get c tag = Some x -> exists x', cl_ctx_get c' tag = Some x' /\ ctx_q x x'.
Proof. intros Q G. specialize (Q tag). rewrite G in Q. destruct (cl_ctx_get c' tag) as [x'|]; [eauto | contradiction]. Qed.

Lemma ctx_q_view x x' : ctx_q x x' -> ct_sid x' = ct_sid x /\ ct_resp x' = ct_resp x /\ ct_gotStatus x' = ct_gotStatus x /\ ct_req x' = ct_req x.
Proof. intros (_ & V & _). unfold cvw in V. inversion V. auto. Qed.
Lemma ctx_q_nil x x' : ctx_q x x' -> ct_err x' = Some CENil -> ct_err x = Some CENil.
Proof. intros (_ & _ & E) H. apply E; [exact H | reflexivity]. Qed.

Lemma Inv_qm0 g (c c' : cconn hstate) : Inv g c -> qm q0 c c' -> Inv g c'.
Proof.
  intros I Q. destruct Q. constructor.
  - intro L. destruct (i_dec _ _ I (qm_rl L)) as [A B]. split; [congruence|].
    destruct (g_open g) as [[[s es] fs]|]; [|congruence]. destruct B as (B1 & B2 & B3 & B4 & B5). repeat split; congruence.
  - intros e H. rewrite qm_herr in H. exact (i_herr _ _ I e H).
  - intros id tag H. destruct qm_rq as [R1 _]. destruct (i_tab _ _ I id tag (R1 _ H)) as (x & G & S & N0 & LT & NE & T).
    destruct (ctxs_q_get_rev _ _ _ _ qm_ctx G) as (x' & G' & QX). destruct (ctx_q_view _ _ QX) as (V1 & V2 & V3 & V4).
    exists x'. repeat split; try congruence.
    + intro E. apply NE. exact (ctx_q_nil _ _ QX E).
    + destruct T as (r0 & got & T1 & T2 & T3). exists r0, got. repeat split; [exact T1 | congruence|].
      destruct (g_open g) as [[[s es] fs]|]; [|congruence]. destruct (s =? id); [|congruence].
      rewrite qm_hr, qm_hst, qm_herr, V2. exact T3.
  - destruct qm_rq as [_ R2]. exact (R2 (i_nodup _ _ I)).
  - intros tag x' G S. destruct (ctxs_q_get _ _ _ _ qm_ctx G) as (x & G0 & QX). destruct (ctx_q_view _ _ QX) as (V1 & V2 & V3 & V4).
    destruct (i_fresh _ _ I tag x G0 ltac:(congruence)) as (A & B & C). repeat split; try congruence.
    intro E. apply C. exact (ctx_q_nil _ _ QX E).
  - intros tag x' G E. destruct (ctxs_q_get _ _ _ _ qm_ctx G) as (x & G0 & QX). destruct (ctx_q_view _ _ QX) as (V1 & V2 & V3 & V4).
    destruct (i_nil _ _ I tag x G0 (ctx_q_nil _ _ QX E)) as [A B]. rewrite V1, V2. split; assumption.
  - intros tag r resp H. destruct qm_out as (new & E & F). rewrite E in H. apply in_app_or in H. destruct H as [H|H].
    + exfalso. rewrite forallb_forall in F. specialize (F _ H). discriminate.
    + destruct (i_res _ _ I tag r resp H) as (x & G & S & R). destruct (ctxs_q_get_rev _ _ _ _ qm_ctx G) as (x' & G' & QX).
      destruct (ctx_q_view _ _ QX) as (V1 & V2 & V3 & V4). exists x'. rewrite V1. repeat split; assumption.
  - destruct qm_inq as [Q1 Q2]. destruct (i_inq _ _ I) as [N1 N2]. split; [exact (Q2 N1)|].
    intros t H. destruct (N2 t (Q1 t H)) as (x & G & S). destruct (ctxs_q_get_rev _ _ _ _ qm_ctx G) as (x' & G' & QX).
    destruct (ctx_q_view _ _ QX) as (V1 & _). exists x'. split; [exact G' | congruence].
  - intros e H. destruct (err_special e) eqn:S; [|reflexivity]. rewrite <- S. exact (i_le _ _ I e (qm_le e H S)).
  - exact (qm_outq (i_outq _ _ I)).
  - rewrite qm_next. exact (i_next _ _ I).
Qed.

Lemma Inv_qm g (c c' : cconn hstate) : Inv g c -> qm q1 c c' -> Inv g c'.
Proof. intros I Q. apply (Inv_qm0 g c); [exact I | apply qm_weaken0, Q]. Qed.

Lemma Idle_qm P g (c c' : cconn hstate) : Idle g c -> qm P c c' -> Idle g c'.
Proof. intros [A B] Q. destruct Q. unfold Idle. rewrite qm_next. split; assumption. Qed.


(* ---------- the moves that are not quiet ---------- *)
Variable enc_field : hstate -> bytes -> bytes -> bool -> bytes * hstate.
Variable enc_set_max : hstate -> N -> hstate.

Lemma NoDup_snoc {A} (l : list A) a : NoDup l -> ~ In a l -> NoDup (l ++ [a]).
Proof.
  induction l as [|b l IH]; intros H NI; cbn; [constructor; [intros []|constructor]|]. inversion H; subst. constructor.
  - intro I. apply in_app_or in I. destruct I as [I|[I|[]]]; [contradiction|]. subst. apply NI. left; reflexivity.
  - apply IH; [assumption|]. intro; apply NI; right; assumption.
Qed.

Lemma own_nil id (items : list (N * ritem)) : (forall s i, In (s, i) items -> s < id) -> own id items = [].
Proof.
  unfold own. induction items as [|[s it] l IH]; intro H; [reflexivity|]. cbn [filter fst].
  assert (s < id) by (apply (H s it); left; reflexivity). replace (s =? id) with false by lia. apply IH.
  intros s' i' H'. apply (H s' i'). right. exact H'.
Qed.

Lemma Inv_Pre g c : Inv g c -> Pre c.
Proof. intro I. constructor; [exact (i_inq _ _ I) | exact (i_le _ _ I) | exact (i_outq _ _ I) | exact (i_herr _ _ I)]. Qed.

(* the encoder is not the invariant's business *)
Lemma Inv_encsize g c v1 v2 : Inv g c -> Inv g (ccu_enc (ccu_encTableSeen c v1) v2).
Proof. intros []. constructor; assumption. Qed.

Lemma Inv_addctx g c tag rq armed : Inv g c -> cl_ctx_get c tag = None -> Inv g (ccu_ctxs c (cc_ctxs c ++ [cl_new_ctx tag rq armed])).
Proof.
  intros I G0. set (c1 := ccu_ctxs c (cc_ctxs c ++ [cl_new_ctx tag rq armed])).
  assert (GET : forall t, cl_ctx_get c1 t = match cl_ctx_get c t with Some x => Some x | None => if t =? tag then Some (cl_new_ctx tag rq armed) else None end).
  { intro t. unfold cl_ctx_get, c1. cbn. rewrite cl_ctxs_get_app. destruct (cl_ctxs_get (cc_ctxs c) t); [reflexivity|]. cbn.
    rewrite (N.eqb_sym tag t). destruct (t =? tag); reflexivity. }
  assert (KEEP : forall t x, cl_ctx_get c t = Some x -> cl_ctx_get c1 t = Some x) by (intros t x H; rewrite GET, H; reflexivity).
  assert (BACK : forall t x, cl_ctx_get c1 t = Some x -> cl_ctx_get c t = Some x \/ (t = tag /\ x = cl_new_ctx tag rq armed)).
  { intros t x H. rewrite GET in H. destruct (cl_ctx_get c t); [left; exact H|]. destruct (t =? tag) eqn:E; [|discriminate]. right. split; [lia | congruence]. }
  destruct I. constructor; try assumption.
  - intros id t H. destruct (i_tab0 id t H) as (x & G & R). exists x. split; [apply KEEP, G | exact R].
  - intros t x G S. destruct (BACK _ _ G) as [G'|[-> ->]]; [exact (i_fresh0 t x G' S)|]. repeat split. discriminate.
  - intros t x G E. destruct (BACK _ _ G) as [G'|[-> ->]]; [exact (i_nil0 t x G' E) | discriminate].
  - intros t r resp H. destruct (i_res0 t r resp H) as (x & G & R). exists x. split; [apply KEEP, G | exact R].
  - destruct i_inq0 as [N1 N2]. split; [exact N1|]. intros t H. destruct (N2 t H) as (x & G & R). exists x. split; [apply KEEP, G | exact R].
Qed.

Lemma Inv_inq g c tag x : Inv g c -> cl_ctx_get c tag = Some x -> ct_sid x = 0 -> ~ In tag (cc_inQ c) -> Inv g (ccu_inQ c (cc_inQ c ++ [tag])).
Proof.
  intros I G S NI. destruct I. constructor; try assumption. destruct i_inq0 as [N1 N2]. cbn. split.
  - apply NoDup_snoc; assumption.
  - intros t H. apply in_app_or in H. destruct H as [H|[<-|[]]]; [exact (N2 t H)|]. exists x. split; assumption.
Qed.

(* writeRequest's registration: the request is on the table under a fresh stream id, its Response empty *)
Lemma reg_Inv g c tag x :
  Inv g c -> Idle g c -> cl_ctx_get c tag = Some x -> ct_sid x = 0 -> ~ In tag (cc_inQ c) -> cc_nextID c <= cl_maxStreamID ->
  let R := open_pending (fst (reg_state enc_field c tag x)) (cc_nextID c) tag (ct_req x) in
  Inv g R /\ Idle g R /\ cc_nextID R = cc_nextID c + 2 /\ cc_out R = cc_out c /\ cl_wl_live R = cl_wl_live c.
Proof.
  intros I ID G S0 NI LE R. subst R. unfold reg_state.
  destruct (cl_request_block enc_field (cc_enc (ccu_nextID c (u32 (cc_nextID c + 2)))) (ct_req x)) as [blk e']. cbn [fst].
  set (id := cc_nextID c). set (x' := ctu_sid (ctu_conn x true) id).
  match goal with |- Inv g ?r /\ _ => set (R := r) end.
  assert (T : ct_tag x = tag) by (destruct (cl_ctxs_get_In _ _ _ G); assumption).
  assert (U : u32 (id + 2) = id + 2).
  { unfold u32, wrap. unfold cl_maxStreamID in LE. subst id. apply N.mod_small. change (2 ^ 32) with 4294967296. lia. }
  assert (EQS : cc_dec R = cc_dec c /\ cc_hdrStream R = cc_hdrStream c /\ cc_hdrPrev R = cc_hdrPrev c /\ cc_hdrFields R = cc_hdrFields c /\
                cc_hdrEndStream R = cc_hdrEndStream c /\ cc_hdrRegularSeen R = cc_hdrRegularSeen c /\ cc_hdrStatus R = cc_hdrStatus c /\
                cc_hdrErr R = cc_hdrErr c /\ cc_nextID R = id + 2 /\ cc_reqQueued R = cc_reqQueued c ++ [(id, tag)] /\
                cc_inQ R = cc_inQ c /\ cc_lastErr R = cc_lastErr c /\ cc_out R = cc_out c /\ cc_outQ R = cc_outQ c /\
                cl_rl_live R = cl_rl_live c /\ cl_wl_live R = cl_wl_live c /\ cc_ctxs R = cl_ctxs_put (cc_ctxs c) x').
  { subst R. unfold open_pending. destruct (rq_has_body (ct_req x)); [destruct (cq_body (ct_req x))|]; cbn; rewrite U; repeat split; reflexivity. }
  destruct EQS as (E1 & E2 & E3 & E4 & E5 & E6 & E7 & E8 & E9 & E10 & E11 & E12 & E13 & E14 & E15 & E16 & E17).
  assert (GET : forall t, cl_ctx_get R t = if t =? tag then Some x' else cl_ctx_get c t).
  { intro t. unfold cl_ctx_get. rewrite E17, cl_ctxs_get_put. change (ct_tag x') with (ct_tag x). rewrite T.
    destruct (t =? tag) eqn:E; [|reflexivity]. replace t with tag by lia. unfold cl_ctx_get in G. rewrite G. reflexivity. }
  destruct ID as [ID1 ID2].
  split; [|split; [|split; [exact E9 | split; [exact E13 | exact E16]]]].
  - destruct I. constructor.
    + rewrite E15, E1, E2, E3, E4, E5. exact i_dec0.
    + rewrite E8. exact i_herr0.
    + intros i t H. rewrite E10 in H. apply in_app_or in H. destruct H as [H|[H|[]]].
      * destruct (i_tab0 i t H) as (y & Gy & Sy & N0 & LT & NE & TR). 
        assert (t <> tag) by (intro; subst t; rewrite G in Gy; inversion Gy; subst y; congruence).
        exists y. rewrite GET. replace (t =? tag) with false by lia. repeat split; try assumption; [rewrite E9; fold id; lia|].
        destruct TR as (r0 & got & T1 & T2 & T3). exists r0, got. repeat split; try assumption. rewrite E6, E7, E8. exact T3.
      * inversion H; subst i t. exists x'. rewrite GET, N.eqb_refl. destruct (i_fresh0 tag x G S0) as (F1 & F2 & F3).
        assert (POS : id <> 0) by (subst id; lia).
        repeat split; try assumption; [rewrite E9; lia|].
        exists cl_empty_resp, false.
        rewrite (own_nil id (g_items g) ID1). repeat split; [exact F2|].
        destruct (g_open g) as [[[s es] fs]|]; [|exact F1]. replace (s =? id) with false by lia. exact F1.
    + rewrite E10, map_app. cbn [map fst]. apply NoDup_snoc; [exact i_nodup0|].
      intro H. apply in_map_iff in H. destruct H as ([i t] & Ei & Hi). cbn in Ei. subst i.
      destruct (i_tab0 id t Hi) as (y & _ & _ & _ & LT & _). subst id. lia.
    + intros t y Gy Sy. rewrite GET in Gy. destruct (t =? tag); [inversion Gy; subst y; cbn in Sy|exact (i_fresh0 t y Gy Sy)].
      exfalso. subst id. lia.
    + intros t y Gy Ey. rewrite GET in Gy. destruct (t =? tag) eqn:Et; [|exact (i_nil0 t y Gy Ey)].
      inversion Gy; subst y. cbn in Ey. destruct (i_fresh0 tag x G S0) as (_ & _ & F3). contradiction.
    + intros t r resp H. rewrite E13 in H. destruct (i_res0 t r resp H) as (y & Gy & Sy & Ry).
      assert (t <> tag) by (intro; subst t; rewrite G in Gy; inversion Gy; subst y; congruence).
      exists y. rewrite GET. replace (t =? tag) with false by lia. repeat split; assumption.
    + rewrite E11. destruct i_inq0 as [N1 N2]. split; [exact N1|]. intros t H. destruct (N2 t H) as (y & Gy & Sy).
      assert (t <> tag) by (intro; subst t; contradiction).
      exists y. rewrite GET. replace (t =? tag) with false by lia. split; assumption.
    + rewrite E12. exact i_le0.
    + rewrite E14. exact i_outq0.
    + rewrite E9. lia.
  - unfold Idle. rewrite E9. split; [intros s i H; specialize (ID1 s i H); fold id in ID1; lia|].
    destruct (g_open g) as [[[s es] fs]|]; [fold id in ID2; lia | trivial].
Qed.

End Ghost.
