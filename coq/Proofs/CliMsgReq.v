(* Proofs/CliMsgReq.v - C02 (b): the HEADERS frames of a run, against the requests the callers gave.

   enc_chain e0 l e   the encoder, started in state e0, has produced the header blocks of the list l = [(rq1, blk1); ...]
                      in this order - each one cl_request_block applied to the request: :authority, :method, :path,
                      :scheme, user-agent (stored in the table), then every other field, name in lower case, except
                      user-agent and the connection-specific ones (not stored) - with SetMaxTableSize calls in between,
                      and is now in state e.
   ReqInv             the HEADERS frames written so far are exactly those blocks, each on the stream its request's Ctx
                      carries, END_STREAM set iff the request has no body; while the write loop lives the encoder is at
                      the end of the chain (every block produced has been written). *)
From H2V Require Import Base.Bytes Base.MachineInt Base.Result Gen.GenConsts Impl.ServerConn Impl.ClientConn
  Spec.Http2Messages Spec.Http2Responses Proofs.CliBase Proofs.SrvIsoRef Proofs.CliMsgRef Proofs.CliMsgAuto Proofs.CliMsgMoves
  Proofs.CliMsgDisp Proofs.CliMsgStep Proofs.CliMsgInv Proofs.CliMsgFeed Proofs.CliMsgIds.
From Coq Require Import ZArith Lia ZifyN ZifyNat ZifyBool List.
Import ListNotations.
Local Open Scope N_scope.

(* encoder operations: inl n = SetMaxTableSize(n); inr = a header block (eop), with its stream and Ctx (rop) *)
Notation eop := (N + crequest * bytes)%type.
Notation rop := (N + (N * N * crequest * bytes))%type.

Section Req.
Context {hstate : Type}.
Variable dec_field : hstate -> N -> bytes -> dec_res hstate.
Variable enc_field : hstate -> bytes -> bytes -> bool -> bytes * hstate.
Variable enc_set_max : hstate -> N -> hstate.
Variable cfg : cl_config.
Implicit Types c : cconn hstate.

(* The micro-moves are those of the model run with an encoder whose SetMaxTableSize does nothing (smid): a step of the
   real model is a step of that model, preceded - when the write loop takes a request in and the table size the server
   asked for is not the one the encoder has seen - by the one SetMaxTableSize call of writeRequest (step_split). That
   way the size applied is known to be the cc_encTableSize of the state the step starts in. *)
Notation smid := (fun (e : hstate) (_ : N) => e).
Notation step := (cl_step dec_field enc_field enc_set_max cfg).
Notation stepi := (cl_step dec_field enc_field smid cfg).
Notation mvs := (mvs dec_field enc_field smid).
Notation mv1 := (mv1 enc_field smid).
Notation feedmove := (feedmove dec_field).

(* ---------- a Ctx keeps its request, and its stream once it has one ---------- *)
Definition srk c c' : Prop :=
  forall t x, cl_ctx_get c t = Some x ->
    exists x', cl_ctx_get c' t = Some x' /\ ct_req x' = ct_req x /\ (ct_sid x <> 0 -> ct_sid x' = ct_sid x).

Lemma srk_refl c : srk c c. Proof. intros t x G. exists x. auto. Qed.
Lemma srk_same c c' : cc_ctxs c' = cc_ctxs c -> srk c c'.
Proof. intros E t x G. exists x. unfold cl_ctx_get in *. rewrite E. auto. Qed.
Lemma srk_trans a b c : srk a b -> srk b c -> srk a c.
Proof.
  intros H1 H2 t x G. destruct (H1 t x G) as (y & Gy & Ry & Sy). destruct (H2 t y Gy) as (z & Gz & Rz & Sz).
  exists z. split; [exact Gz|]. split; [congruence|]. intro N0. rewrite Sz; [exact (Sy N0) | rewrite (Sy N0); exact N0].
Qed.

Lemma srk_ctxs_q c c' : ctxs_q c c' -> srk c c'.
Proof.
  intros Q t x G. destruct (ctxs_q_get_rev _ _ _ _ Q G) as (x' & G' & QX). destruct (ctx_q_view _ _ QX) as (V1 & _ & _ & V4).
  exists x'. repeat split; auto.
Qed.
Lemma srk_qm P c c' : qm P c c' -> srk c c'.
Proof. intro Q. apply srk_ctxs_q. exact (qm_ctx _ _ _ Q). Qed.

(* one Ctx replaced by a version of itself *)
Lemma srk_put c x x2 : cl_ctx_get c (ct_tag x2) = Some x -> ct_req x2 = ct_req x -> (ct_sid x <> 0 -> ct_sid x2 = ct_sid x) -> srk c (cl_ctx_put c x2).
Proof.
  intros G R S t y Gy. rewrite cl_ctx_get_put. destruct (t =? ct_tag x2) eqn:E.
  - replace t with (ct_tag x2) in * by lia. rewrite G in Gy. inversion Gy; subst y. rewrite G. exists x2. auto.
  - exists y. auto.
Qed.

Lemma srk_ctx_upd c tag f : (forall x, ct_tag (f x) = ct_tag x /\ ct_req (f x) = ct_req x /\ ct_sid (f x) = ct_sid x) -> srk c (cl_ctx_upd c tag f).
Proof.
  intro F. unfold cl_ctx_upd. destruct (cl_ctx_get c tag) as [x|] eqn:G; [|apply srk_refl].
  destruct (F x) as (T & R & S). apply (srk_put c x (f x)); [|exact R | intros _; exact S].
  rewrite T. destruct (cl_ctxs_get_In _ _ _ G) as [_ E]. rewrite E. exact G.
Qed.

Lemma srk_finish c tag id e : srk c (cl_finish c tag id e).
Proof.
  unfold cl_finish. eapply srk_trans; [|apply srk_ctx_upd].
  - apply (srk_qm q2). eapply qm_trans; [apply qm_take_req_count|].
    destruct (cl_pend_get _ id); [|apply qm_refl]. eapply qm_trans; [apply qm_pending | apply qm_close_body].
  - intro x. rewrite ct_tag_cl_ctx_resolve. rewrite cl_ctx_resolve_eq.
    destruct (negb (ct_resolved (ctu_finished x true)) && match ct_err (ctu_finished x true) with None => true | Some _ => false end); repeat split.
Qed.

(* a frame through dispatch *)
Lemma disp_feed_sr c fr ok :
  match disp_feed dec_field c fr ok with
  | (c2, ok2, ended, err2) =>
    match ok, ok2 with Some x, Some x2 => ct_req x2 = ct_req x /\ ct_sid x2 = ct_sid x | _, _ => True end
  end.
Proof.
  unfold disp_feed.
  destruct (cl_read_stream dec_field c fr (match ok with Some x => Some (ct_resp x) | None => None end)) as [[[c1 res'] ended] err].
  destruct ok as [x|], res' as [r|], err; cbn [ct_gotStatus ctu_resp ctu_gotStatus];
    repeat match goal with |- context [if ?b then _ else _] => destruct b end; cbn; auto.
Qed.

Lemma srk_tail c2 id ok2 ended err2 :
  (forall e, err2 = CRSConn e -> err_special e = false) -> srk c2 (rl_after (disp_tail c2 id ok2 ended err2)).
Proof.
  intro HC. unfold disp_tail. destruct err2 as [|e|e|].
  - rewrite rl_after_ga. eapply srk_trans; [|apply (srk_qm q2), after_ga_qm].
    destruct ok2 as [x2|]; [destruct ended; [apply srk_finish | apply srk_refl] | apply srk_refl].
  - rewrite rl_after_ga. eapply srk_trans; [|apply (srk_qm q2), after_ga_qm]. destruct ok2; [apply srk_finish | apply srk_refl].
  - cbn [rl_after]. eapply srk_trans; [|apply (srk_qm q2), qm_rl_exit].
    eapply srk_trans; [apply (srk_qm q2), qm_set_last_err, HC; reflexivity|]. destruct ok2; [apply srk_finish | apply srk_refl].
  - cbn [rl_after]. apply (srk_qm q2), qm_rl_panic.
Qed.

Lemma srk_feedmove c fr c3 : herr_ok c -> feedmove fr c c3 -> srk c c3.
Proof.
  intros HE (L & S0 & FS & ok & OK & ->).
  pose proof (disp_feed_shape dec_field c fr ok) as DS. pose proof (disp_feed_sr c fr ok) as SR.
  pose proof (read_stream_shape dec_field c fr (match ok with Some x => Some (ct_resp x) | None => None end) HE) as RS.
  destruct (disp_feed dec_field c fr ok) as [[[c2 ok2] ended] err2].
  destruct (cl_read_stream dec_field c fr (match ok with Some x => Some (ct_resp x) | None => None end)) as [[[c1 res'] ended'] err].
  destruct DS as (-> & -> & LK & ER). destruct RS as (F1 & H1 & EC & ES).
  assert (HC : forall e, err2 = CRSConn e -> err_special e = false).
  { intros e H. destruct ER as [->|[_ ->]]; [rewrite (EC e H); reflexivity | discriminate]. }
  assert (S1 : srk c c1).
  { intros t x G. pose proof (fm_ctx _ _ _ (F1 None) t ltac:(discriminate)) as CX. rewrite G in CX.
    destruct (cl_ctx_get c1 t) as [x1|]; [|contradiction]. destruct (ctx_q_view _ _ CX) as (V1 & _ & _ & V4). exists x1. repeat split; auto. }
  eapply srk_trans; [exact S1|]. eapply srk_trans; [|apply srk_tail, HC].
  destruct ok as [x|], ok2 as [x2|]; try contradiction; [|apply srk_refl].
  destruct OK as (F & G & SX). destruct SR as [R2 S2].
  destruct (S1 _ _ G) as (x1 & G1 & R1 & SS1).
  apply (srk_put c1 x1 x2); [rewrite LK; exact G1 | congruence | intros _; rewrite S2; symmetry; apply SS1; lia].
Qed.

(* ---------- the chain of header blocks ---------- *)
Inductive enc_chain (e0 : hstate) : list (crequest * bytes) -> hstate -> Prop :=
| ec_nil : enc_chain e0 [] e0
| ec_size l e n : enc_chain e0 l e -> enc_chain e0 l (enc_set_max e n)
| ec_req l e rq blk e' : enc_chain e0 l e -> cl_request_block enc_field e rq = (blk, e') -> enc_chain e0 (l ++ [(rq, blk)]) e'.

(* ... with the SetMaxTableSize calls: inl n = SetMaxTableSize(n), inr (rq, blk) = the block blk encoded for rq *)
Inductive enc_chain_s (e0 : hstate) : list eop -> hstate -> Prop :=
| ecs_nil : enc_chain_s e0 [] e0
| ecs_size l e n : enc_chain_s e0 l e -> enc_chain_s e0 (l ++ [inl n]) (enc_set_max e n)
| ecs_req l e rq blk e' : enc_chain_s e0 l e -> cl_request_block enc_field e rq = (blk, e') -> enc_chain_s e0 (l ++ [inr (rq, blk)]) e'.

Definition rights_of {A B} (l : list (A + B)) : list B := flat_map (fun o => match o with inr b => [b] | inl _ => [] end) l.
Definition sizes_of {A B} (l : list (A + B)) : list A := flat_map (fun o => match o with inl n => [n] | inr _ => [] end) l.

Lemma rights_of_app {A B} (a b : list (A + B)) : rights_of (a ++ b) = rights_of a ++ rights_of b.
Proof. apply flat_map_app. Qed.
Lemma sizes_of_app {A B} (a b : list (A + B)) : sizes_of (a ++ b) = sizes_of a ++ sizes_of b.
Proof. apply flat_map_app. Qed.

Lemma enc_chain_s_forget e0 l e : enc_chain_s e0 l e -> enc_chain e0 (rights_of l) e.
Proof.
  induction 1 as [|l e n H IH|l e rq blk e' H IH RB]; [apply ec_nil | |]; rewrite rights_of_app; cbn [rights_of flat_map app].
  - rewrite app_nil_r. apply ec_size, IH.
  - eapply ec_req; [exact IH | exact RB].
Qed.

Definition hdrs_of (tr : list coutev) : list (N * bool * bytes) :=
  flat_map (fun o => match o with COHeaders sid es b => [(sid, es, b)] | _ => [] end) tr.

Lemma hdrs_of_app a b : hdrs_of (a ++ b) = hdrs_of a ++ hdrs_of b.
Proof. apply flat_map_app. Qed.

Lemma hdrs_of_q1 l : forallb q1 l = true -> hdrs_of (rev l) = [].
Proof.
  intro F. rewrite forallb_forall in F.
  assert (G : forall o, In o (rev l) -> q1 o = true) by (intros o H; apply in_rev in H; exact (F o H)).
  induction (rev l) as [|o t IH]; [reflexivity|]. unfold hdrs_of. cbn [flat_map]. fold (hdrs_of t).
  rewrite IH by (intros o' H; apply G; right; exact H). pose proof (G o (or_introl eq_refl)) as Q. destruct o; try reflexivity. discriminate.
Qed.

(* entries: stream, tag, request, block *)
Definition rentry : Type := (N * N * crequest * bytes)%type.
Definition re_hdr (r : rentry) : N * bool * bytes := let '(id, tag, rq, blk) := r in (id, negb (rq_has_body rq), blk).
Definition re_rb (r : rentry) : crequest * bytes := let '(id, tag, rq, blk) := r in (rq, blk).
(* what the encoder did, with the stream and the Ctx of each block *)
Definition rop_eop (o : rop) : eop := match o with inl n => inl n | inr r => inr (re_rb r) end.

Lemma rights_of_rop l : rights_of (map rop_eop l) = map re_rb (rights_of l).
Proof. induction l as [|[n|r] l IH]; [reflexivity | exact IH|]. cbn [map rop_eop rights_of flat_map app]. f_equal. exact IH. Qed.
Lemma sizes_of_rop l : sizes_of (map rop_eop l) = sizes_of l.
Proof. induction l as [|[n|r] l IH]; [reflexivity | | exact IH]. cbn [map rop_eop sizes_of flat_map app]. f_equal. exact IH. Qed.

Definition ReqInv (e0 : hstate) c : Prop :=
  exists l : list rentry,
    hdrs_of (rev (cc_out c)) = map re_hdr l /\
    (forall id tag rq blk, In (id, tag, rq, blk) l -> id <> 0 /\ exists x, cl_ctx_get c tag = Some x /\ ct_sid x = id /\ ct_req x = rq) /\
    exists e, enc_chain e0 (map re_rb l) e /\ (cl_wl_live c = true -> e = cc_enc c).

(* the same with the sizes: every size applied satisfies Psz *)
Definition ReqInvS (Psz : N -> Prop) (e0 : hstate) c : Prop :=
  exists ops : list rop,
    hdrs_of (rev (cc_out c)) = map re_hdr (rights_of ops) /\
    (forall id tag rq blk, In (id, tag, rq, blk) (rights_of ops) ->
       id <> 0 /\ exists x, cl_ctx_get c tag = Some x /\ ct_sid x = id /\ ct_req x = rq) /\
    Forall Psz (sizes_of ops) /\
    exists e, enc_chain_s e0 (map rop_eop ops) e /\ (cl_wl_live c = true -> e = cc_enc c).

Lemma ReqInvS_ReqInv Psz e0 c : ReqInvS Psz e0 c -> ReqInv e0 c.
Proof.
  intros (ops & H1 & H2 & _ & e & H3 & H4). exists (rights_of ops). split; [exact H1|]. split; [exact H2|].
  exists e. split; [|exact H4]. rewrite <- rights_of_rop. apply enc_chain_s_forget, H3.
Qed.

Section WithP.
Variable Psz : N -> Prop.
Notation ReqInvS := (ReqInvS Psz).

Lemma ReqInv_keep e0 c c' :
  srk c c' -> (exists new, cc_out c' = new ++ cc_out c /\ hdrs_of (rev new) = []) -> cc_enc c' = cc_enc c ->
  (cl_wl_live c' = true -> cl_wl_live c = true) -> ReqInvS e0 c -> ReqInvS e0 c'.
Proof.
  intros SR (new & EO & FO) EN WL (l & H1 & H2 & HP & e & H3 & H4). exists l. split; [|split; [|split]].
  - rewrite EO, rev_app_distr, hdrs_of_app, H1, FO, app_nil_r. reflexivity.
  - intros id tag rq blk I. destruct (H2 id tag rq blk I) as (N0 & x & G & S & R). split; [exact N0|].
    destruct (SR tag x G) as (x' & G' & R' & S'). exists x'. split; [exact G'|]. split; [rewrite S'; [exact S | rewrite S; exact N0] | congruence].
  - exact HP.
  - exists e. split; [exact H3|]. intro L. rewrite EN. exact (H4 (WL L)).
Qed.

Lemma ReqInv_mv1 e0 c c' : Pre c -> IdInv c -> ReqInvS e0 c -> mv1 c c' -> ReqInvS e0 c'.
Proof.
  intros P II RI M. destruct M as [c c' Q|c tag rq armed G|c tag x G S0 NI|c|c tag x G S0 NI LE L|c tag x c' G S0 NI LE Q L F|c tag x e G E].
  - apply (ReqInv_keep e0 c c'); [exact (srk_qm _ _ _ Q) | | exact (qm_enc _ _ _ Q) | exact (qm_wl _ _ _ Q) | exact RI].
    destruct (qm_out _ _ _ Q) as (new & EO & FO). exists new. split; [exact EO | exact (hdrs_of_q1 _ FO)].
  - apply (ReqInv_keep e0 c); try reflexivity; [|exists []; split; reflexivity | auto | exact RI].
    intros t y Gy. exists y. split; [|auto]. unfold cl_ctx_get in *. cbn. rewrite cl_ctxs_get_app, Gy. reflexivity.
  - apply (ReqInv_keep e0 c); try reflexivity; [apply srk_same; reflexivity | exists []; split; reflexivity | auto | exact RI].
  - (* the size move of the model whose SetMaxTableSize does nothing: the encoder stays *)
    apply (ReqInv_keep e0 c); try reflexivity; [apply srk_same; reflexivity | exists []; split; reflexivity | auto | exact RI].
  - (* the request goes out *)
    destruct (reg_state_facts dec_field enc_field smid c tag x G LE) as (E1 & E2 & E3 & _ & _ & _ & _ & E8). unfold reg_state in *.
    change (cc_enc (ccu_nextID c (u32 (cc_nextID c + 2)))) with (cc_enc c) in *.
    destruct (cl_request_block enc_field (cc_enc c) (ct_req x)) as [blk e'] eqn:RB. cbn [fst] in *.
    destruct RI as (l & H1 & H2 & HP & e & H3 & H4). specialize (H4 L). subst e.
    destruct II as (k & _ & NXT & _). specialize (NXT L).
    exists (l ++ [inr (cc_nextID c, tag, ct_req x, blk)]). rewrite rights_of_app, sizes_of_app. cbn [rights_of sizes_of flat_map app]. rewrite app_nil_r.
    split; [|split; [|split]].
    + cbn [cl_note cc_out ccu_out rev]. rewrite E2, hdrs_of_app, H1, map_app. reflexivity.
    + intros id t rq b I. apply in_app_or in I. destruct I as [I|[I|[]]].
      * destruct (H2 id t rq b I) as (N0 & y & Gy & Sy & Ry). split; [exact N0|].
        assert (t <> tag) by (intro; subst t; rewrite G in Gy; inversion Gy; subst y; congruence).
        exists y. change (cl_ctx_get (cl_note ?a ?o) t) with (cl_ctx_get a t). rewrite E8. replace (t =? tag) with false by lia. repeat split; assumption.
      * inversion I; subst id t rq b. split; [lia|]. eexists. change (cl_ctx_get (cl_note ?a ?o) tag) with (cl_ctx_get a tag).
        rewrite E8, N.eqb_refl. split; [reflexivity|]. split; reflexivity.
    + exact HP.
    + exists e'. split.
      * rewrite map_app. cbn [map rop_eop re_rb]. eapply ecs_req; [exact H3 | exact RB].
      * intros _. cbn [cl_note cc_enc ccu_out]. unfold open_pending. destruct (rq_has_body (ct_req x)); [destruct (cq_body (ct_req x))|]; reflexivity.
  - (* the HEADERS write failed: the write loop is over *)
    destruct (reg_state_facts dec_field enc_field smid c tag x G LE) as (E1 & E2 & E3 & _ & _ & _ & _ & E8).
    destruct RI as (l & H1 & H2 & HP & e & H3 & H4). exists l. split; [|split; [|split]].
    + destruct (qm_out _ _ _ Q) as (new & EO & FO). rewrite EO, rev_app_distr, hdrs_of_app, E2, H1, (hdrs_of_q1 new FO), app_nil_r. reflexivity.
    + intros id t rq b I. destruct (H2 id t rq b I) as (N0 & y & Gy & Sy & Ry). split; [exact N0|].
      assert (t <> tag) by (intro; subst t; rewrite G in Gy; inversion Gy; subst y; congruence).
      assert (GR : cl_ctx_get (open_pending (fst (reg_state enc_field c tag x)) (cc_nextID c) tag (ct_req x)) t = Some y).
      { rewrite E8. replace (t =? tag) with false by lia. exact Gy. }
      destruct (srk_qm _ _ _ Q t y GR) as (y' & Gy' & Ry' & Sy'). exists y'. split; [exact Gy'|]. split; [rewrite Sy'; [exact Sy | rewrite Sy; exact N0] | congruence].
    + exact HP.
    + exists e. split; [exact H3|]. intro L'. rewrite L in L'. discriminate.
  - apply (ReqInv_keep e0 c); try reflexivity; [|exists [COResult tag (cl_retryable e) e (ct_resp x)]; split; reflexivity | auto | exact RI].
    cbv zeta. change (srk c (cl_ctx_put c (ctu_pooled (ctu_returned (ctu_resolved (ctu_done (ctu_armed (ctu_err x None) false) true) true) true) ((if ct_armed x then negb (ct_fired x) else true) && ct_finished x)))).
    apply (srk_put c x); [cbn; destruct (cl_ctxs_get_In _ _ _ G) as [_ T]; rewrite T; exact G | reflexivity | reflexivity].
Qed.

Lemma hdrs_of_q2 l : forallb q2 l = true -> hdrs_of (rev l) = [].
Proof. intro F. apply hdrs_of_q1. exact (q2_q1_all _ F). Qed.

Lemma ReqInv_feed e0 c fr c3 : Pre c -> feedmove fr c c3 -> ReqInvS e0 c -> ReqInvS e0 c3.
Proof.
  intros P F RI. destruct (feedmove_fm dec_field c fr c3 (p_herr _ P) F) as (tg & FM & _ & _).
  apply (ReqInv_keep e0 c c3); [exact (srk_feedmove c fr c3 (p_herr _ P) F) | | exact (fm_enc _ _ _ FM) | exact (fm_wl _ _ _ FM) | exact RI].
  destruct (fm_out _ _ _ FM) as (new & EO & FO). exists new. split; [exact EO | exact (hdrs_of_q2 _ FO)].
Qed.

Lemma PreIdReq_mvs e0 tk c c' : mvs tk c c' -> Pre c -> IdInv c -> ReqInvS e0 c -> Pre c' /\ IdInv c' /\ ReqInvS e0 c'.
Proof.
  intro M. induction M as [c|tk c c1 c2 M1 M IH|fr c c1 c2 F M IH]; intros P I R.
  - split; [assumption | split; assumption].
  - assert (PI : Pre c1 /\ IdInv c1) by (eapply (PreId_mvs dec_field enc_field smid); [eapply ms_step; [exact M1 | apply ms_refl] | exact P | exact I]).
    destruct PI as [P1 I1]. apply IH; [exact P1 | exact I1 | exact (ReqInv_mv1 e0 c c1 P I R M1)].
  - assert (PI : Pre c1 /\ IdInv c1) by (eapply (PreId_mvs dec_field enc_field smid); [eapply ms_feed; [exact F | apply ms_refl] | exact P | exact I]).
    destruct PI as [P1 I1]. apply IH; [exact P1 | exact I1 | exact (ReqInv_feed e0 c fr c1 P F R)].
Qed.

(* ---------- the one SetMaxTableSize call of writeRequest ---------- *)
Definition setsz c : cconn hstate :=
  ccu_enc (ccu_encTableSeen c (cc_encTableSize c)) (enc_set_max (cc_enc c) (cc_encTableSize c)).

Lemma ReqInv_setsz e0 c : Psz (cc_encTableSize c) -> ReqInvS e0 c -> ReqInvS e0 (setsz c).
Proof.
  intros PS (l & H1 & H2 & HP & e & H3 & H4). exists (l ++ [inl (cc_encTableSize c)]).
  rewrite rights_of_app, sizes_of_app. cbn [rights_of sizes_of flat_map app]. rewrite app_nil_r.
  split; [exact H1|]. split; [exact H2|]. split; [apply Forall_app; split; [exact HP | constructor; [exact PS | constructor]]|].
  exists (enc_set_max e (cc_encTableSize c)). split; [rewrite map_app; apply ecs_size, H3|].
  intro L. change (cl_wl_live (setsz c)) with (cl_wl_live c) in L. rewrite (H4 L). reflexivity.
Qed.

End WithP.

Lemma write_request_split c tag :
  cl_write_request enc_field enc_set_max c tag = cl_write_request enc_field smid c tag \/
  cl_write_request enc_field enc_set_max c tag = cl_write_request enc_field smid (setsz c) tag.
Proof.
  unfold cl_write_request.
  change (cl_can_open_stream (setsz c)) with (cl_can_open_stream c). change (cl_ctx_get (setsz c) tag) with (cl_ctx_get c tag).
  destruct (negb (cl_can_open_stream c)); [left; reflexivity|].
  destruct (cl_ctx_get c tag) as [x|]; [|left; reflexivity].
  destruct (ct_lckStuck x); [left; reflexivity|]. destruct (ct_done x); [left; reflexivity|].
  destruct (cc_encTableSize c =? cc_encTableSeen c) eqn:E; cbn [negb].
  - left. reflexivity.
  - right. change (cc_encTableSize (setsz c)) with (cc_encTableSize c). change (cc_encTableSeen (setsz c)) with (cc_encTableSize c).
    rewrite N.eqb_refl. cbn [negb]. reflexivity.
Qed.

Lemma wl_in_split c :
  cl_wl_in enc_field enc_set_max cfg c = cl_wl_in enc_field smid cfg c \/
  cl_wl_in enc_field enc_set_max cfg c = cl_wl_in enc_field smid cfg (setsz c).
Proof.
  unfold cl_wl_in. change (cc_inQ (setsz c)) with (cc_inQ c). destruct (cc_inQ c) as [|tag q]; [left; reflexivity|].
  destruct (write_request_split (ccu_inQ c q) tag) as [E|E]; rewrite E; [left; reflexivity | right; reflexivity].
Qed.

Lemma step_split c e :
  step c e = stepi c e \/ (e = CEvWLIn /\ step c e = stepi (setsz c) e).
Proof.
  destruct e; try (left; reflexivity). cbn [cl_step]. change (cl_wl_live (setsz c)) with (cl_wl_live c).
  destruct (cl_wl_live c); [|left; reflexivity]. destruct (wl_in_split c) as [E|E]; rewrite E; [left; reflexivity | right; split; reflexivity].
Qed.

Variable h0 : hstate.
Variable first : bytes.
Notation run := (cl_run dec_field enc_field enc_set_max cfg h0 first).
Notation init := (cl_init enc_set_max h0 first).

Lemma ReqInv_init Psz : ReqInvS Psz (cc_enc init) init.
Proof.
  exists []. split; [|split; [|split]].
  - unfold cl_init. destruct (cl_settings_deserialize false first); reflexivity.
  - intros id tag rq blk [].
  - constructor.
  - exists (cc_enc init). split; [constructor | reflexivity].
Qed.

(* every size the encoder is given is the cc_encTableSize of a state the run went through *)
Theorem ReqInvS_run (Psz : N -> Prop) evs :
  (forall pre post, evs = pre ++ post -> Psz (cc_encTableSize (run pre))) ->
  Pre (run evs) /\ IdInv (run evs) /\ ReqInvS Psz (cc_enc init) (run evs).
Proof.
  induction evs as [|e evs IH] using rev_ind; intro HP.
  - rewrite (cl_run_nil hstate). split; [eapply (Pre_init dec_field enc_field) | split; [eapply (Pre_init dec_field enc_field) | apply ReqInv_init]].
  - destruct IH as (P & I & R). { intros pre post E. apply (HP pre (post ++ [e])). rewrite E, app_assoc. reflexivity. }
    pose proof (HP evs [e] eq_refl) as PS. rewrite (cl_run_snoc hstate). set (c := run evs) in *.
    destruct (step_split c e) as [E|[-> E]]; rewrite E.
    + exact (PreIdReq_mvs Psz _ _ _ _ (step_mvs dec_field enc_field smid cfg c e P) P I R).
    + destruct (PreId_mvs dec_field enc_field enc_set_max None c (setsz c) (mvs_one _ _ _ _ _ (m_encsize enc_field enc_set_max c)) P I) as [P1 I1].
      exact (PreIdReq_mvs Psz _ _ _ _ (step_mvs dec_field enc_field smid cfg (setsz c) CEvWLIn P1) P1 I1 (ReqInv_setsz Psz _ c PS R)).
Qed.

Theorem ReqInv_run evs : Pre (run evs) /\ IdInv (run evs) /\ ReqInv (cc_enc init) (run evs).
Proof.
  destruct (ReqInvS_run (fun _ => True) evs (fun _ _ _ => I)) as (P & I1 & R). split; [exact P|]. split; [exact I1|]. exact (ReqInvS_ReqInv _ _ _ R).
Qed.

(* C02 (b), the header blocks: the HEADERS frames written in a run are, in order, the encoder's blocks for the requests of
   the Ctx that went out on those streams; END_STREAM is on the frame iff the request has no body *)
Theorem request_blocks evs :
  exists l : list rentry,
    hdrs_of (cl_trace (run evs)) = map re_hdr l /\
    (forall id tag rq blk, In (id, tag, rq, blk) l ->
       id <> 0 /\ exists x, cl_ctx_get (run evs) tag = Some x /\ ct_sid x = id /\ ct_req x = rq) /\
    exists e, enc_chain (cc_enc init) (map re_rb l) e /\ (cl_wl_live (run evs) = true -> e = cc_enc (run evs)).
Proof. destruct (ReqInv_run evs) as (_ & _ & R). exact R. Qed.

(* ... with the SetMaxTableSize calls in between, each with a value cc_encTableSize had at the start of a step *)
Theorem request_blocks_sizes (Psz : N -> Prop) evs :
  (forall pre post, evs = pre ++ post -> Psz (cc_encTableSize (run pre))) ->
  exists ops : list rop,
    hdrs_of (cl_trace (run evs)) = map re_hdr (rights_of ops) /\
    (forall id tag rq blk, In (id, tag, rq, blk) (rights_of ops) ->
       id <> 0 /\ exists x, cl_ctx_get (run evs) tag = Some x /\ ct_sid x = id /\ ct_req x = rq) /\
    Forall Psz (sizes_of ops) /\
    exists e, enc_chain_s (cc_enc init) (map rop_eop ops) e /\ (cl_wl_live (run evs) = true -> e = cc_enc (run evs)).
Proof. intro HP. destruct (ReqInvS_run Psz evs HP) as (_ & _ & R). exact R. Qed.

(* END_STREAM is on the HEADERS frame exactly when the request has no body *)
Theorem end_stream_on_headers evs id es blk :
  In (COHeaders id es blk) (cl_trace (run evs)) ->
  exists tag x, cl_ctx_get (run evs) tag = Some x /\ ct_sid x = id /\ es = negb (rq_has_body (ct_req x)).
Proof.
  intro H. destruct (request_blocks evs) as (l & H1 & H2 & _).
  assert (I : In (id, es, blk) (hdrs_of (cl_trace (run evs)))).
  { unfold hdrs_of. apply in_flat_map. exists (COHeaders id es blk). split; [exact H | left; reflexivity]. }
  rewrite H1 in I. apply in_map_iff in I. destruct I as ([[[i t] rq] b] & E & I). cbn in E. inversion E; subst i es b.
  destruct (H2 id t rq blk I) as (_ & x & G & S & R). exists t, x. repeat split; try assumption. rewrite R. reflexivity.
Qed.

End Req.
