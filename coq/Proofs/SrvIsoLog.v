(* Proofs/SrvIsoLog.v - C01 (a)+(c), multiplexed: in any clean run, whatever the interleaving of streams, handler
   completions and timers, every stream in the table has collected exactly what its OWN frames brought:
   its header state is the field-by-field fold (hfold) over the reference-decoded fields of its own header-block
   fragments, in order; its body the concatenation of the payloads of its own DATA frames.

   The log of a run (ghost): one item per header-block fragment handled (with the fields and the carry the reference
   decoder gives it, from the decoder state at that moment) and per DATA frame taken. `asm` replays the items of one
   stream from a fresh stream. *)
From H2V Require Import Base.Bytes Base.MachineInt Base.Result Gen.GenConsts Impl.ServerConn Proofs.SrvBase
  Proofs.SrvIsoRef Proofs.SrvIsoMoves Proofs.SrvIsoSteps Proofs.SrvIsoHdr Proofs.SrvIsoHdrStep Proofs.SrvIsoRun
  Proofs.SrvIsoOwn.
From Coq Require Import ZArith Lia ZifyN ZifyNat ZifyBool.
Local Open Scope N_scope.

Inductive litem : Type :=
| LH (fr : sframe) (fs : list (bytes * bytes)) (carry : bytes)   (* a fragment, the fields it decodes to, the carry it leaves *)
| LD (fr : sframe).                                               (* a DATA frame *)
Definition lsid (i : litem) : N := match i with LH fr _ _ | LD fr => sf_sid fr end.
Definition own_items (g : N) (L : list litem) : list litem := filter (fun i => lsid i =? g) L.

Lemma own_items_app g a b : own_items g (a ++ b) = own_items g a ++ own_items g b.
Proof. apply filter_app. Qed.

(* the header state of a stream nothing has happened to *)
Definition hdr0 : hdr := mkHdr false [] false false false false false 0 false 0 0 [] empty_req.
(* hh1 (Proofs/SrvIsoHdr.v) on the header state alone *)
Definition hh1h (h0 : hdr) (fr : sframe) : hdr :=
  mkHdr false [] (hd_pMethod h0) (hd_pScheme h0) (hd_pPath h0) (hd_pAuth h0)
        (hd_regularSeen h0 || hd_headersFinished h0) (hd_contentLength h0) (hd_hasCL h0) (hd_headerListSize h0)
        (if fkind_eqb (sf_kind fr) KCont then hd_blockFields h0 else 0) (hd_path h0) (hd_req h0).
Definition hdr_append_body (h : hdr) (d : bytes) : hdr :=
  mkHdr (hd_headersFinished h) (hd_prev h) (hd_pMethod h) (hd_pScheme h) (hd_pPath h) (hd_pAuth h)
        (hd_regularSeen h) (hd_contentLength h) (hd_hasCL h) (hd_headerListSize h) (hd_blockFields h)
        (hd_path h) (rq_append_body (hd_req h) d).

Section Log.
Variable hstate : Type.
Variable dec_field : hstate -> N -> bytes -> dec_res hstate.
Variable enc_field : hstate -> bytes -> bytes -> bool -> bytes * hstate.
Variable enc_set_max : hstate -> N -> hstate.
Variable cfg : config.
Variable h0 : hstate.
Notation sconn := (sconn hstate).
Notation step := (step dec_field enc_field enc_set_max cfg).
Notation run := (run dec_field enc_field enc_set_max cfg h0).
Implicit Types c : sconn.

(* one item replayed: (header state, body bytes received) *)
Definition asm_item (a : hdr * Z) (i : litem) : hdr * Z :=
  match i with
  | LH fr fs carry =>
    match hfold cfg (hh1h (fst a) fr) fs with
    | Some hF => (if eh_of fr then hd_set_fin (hd_set_prev hF []) true else hd_set_prev hF carry, snd a)
    | None => a
    end
  | LD fr => (hdr_append_body (fst a) (sf_payload fr), (snd a + Z.of_N (len (sf_payload fr)))%Z)
  end.
Definition asm (L : list litem) : hdr * Z := fold_left asm_item L (hdr0, 0%Z).

(* the DATA frame (stream id <> 0) the stream loop takes in this step *)
Definition data_taken c (e : event) : option sframe :=
  match sl_takes c e with
  | Some fr => if fkind_eqb (sf_kind fr) KData && negb (sf_sid fr =? 0) then Some fr else None
  | None => None
  end.

(* the log of a run, with the reference decoder state it ends in *)
Inductive logged : list event -> list litem -> hst hstate -> Prop :=
| lg_nil : logged [] [] (h0, 0, [])
| lg_hdr evs L st e fr fs st' : logged evs L st -> hdr_taken (run evs) e = [fr] ->
    ref_run dec_field (eh_of fr) (fst (fst st)) (if is_cont fr then snd (fst st) else 0)
            ((if is_cont fr then snd st else []) ++ sf_payload fr) fs (fst (fst st')) (snd (fst st')) (snd st') ->
    logged (evs ++ [e]) (L ++ [LH fr fs (snd st')]) st'
| lg_data evs L st e fr : logged evs L st -> data_taken (run evs) e = Some fr -> logged (evs ++ [e]) (L ++ [LD fr]) st
| lg_other evs L st e : logged evs L st -> hdr_taken (run evs) e = [] -> data_taken (run evs) e = None ->
    logged (evs ++ [e]) L st.

Lemma data_not_hdr c e fr : data_taken c e = Some fr -> hdr_taken c e = [].
Proof.
  unfold data_taken, hdr_taken. destruct (sl_takes c e) as [f|]; [|discriminate].
  destruct (fkind_eqb (sf_kind f) KData && negb (sf_sid f =? 0))%bool eqn:E; [|discriminate]. intros _.
  apply andb_prop in E. destruct E as [K _]. unfold is_hdr_frame, is_hdr_kind.
  destruct (sf_kind f); try discriminate K. rewrite andb_false_r. reflexivity.
Qed.

Lemma logged_ref_frames evs L st : logged evs L st -> ref_frames dec_field (h0, 0, []) (hframes dec_field enc_field enc_set_max cfg h0 evs) st.
Proof.
  induction 1 as [|evs L st e fr fs st' LG IH HT R|evs L st e fr LG IH DT|evs L st e LG IH HT DT]; [constructor| | |].
  - rewrite hframes_snoc, HT. eapply rf_snoc; [exact IH|]. exists fs. exact R.
  - rewrite hframes_snoc, (data_not_hdr _ _ _ DT), app_nil_r. exact IH.
  - rewrite hframes_snoc, HT, app_nil_r. exact IH.
Qed.

(* a step that takes neither a header-block fragment nor a DATA frame keeps every stream's request state *)
Lemma step_kept c e : hdr_taken c e = [] -> data_taken c e = None -> sc_sl_done (step c e) = false ->
  oth 0 c (step c e) /\ sc_highestID c <= sc_highestID (step c e).
Proof.
  intros HT DT Hd'. destruct e as [i| |sid r|t| | | |].
  - rewrite step_EvRL in *. destruct (sc_rl_done c); [split; [apply oth_refl | lia]|].
    destruct (rsame_rl_step _ cfg c i) as (_ & _ & _ & _ & E & _ & _ & E8 & _). split; [apply oth_same_strms; exact E | lia].
  - rewrite step_EvSL in *. unfold hdr_taken, data_taken, sl_takes in HT, DT.
    destruct (sc_sl_done c) eqn:Hd; [split; [apply oth_refl | lia]|].
    destruct (sc_readerQ c) as [|fr q] eqn:RQ.
    { destruct (sc_rl_done c); [discriminate Hd' | split; [apply oth_refl | lia]]. }
    cbn [hd_error] in HT, DT. destruct (is_hdr_frame fr) eqn:IHF; [discriminate|].
    assert (KD : sf_kind fr = KData -> sf_sid fr = 0).
    { intro K. rewrite K in DT. cbn [fkind_eqb andb] in DT. destruct (sf_sid fr =? 0) eqn:Z; [lia | discriminate]. }
    pose proof (hmvs_sl_frame_other _ dec_field enc_set_max cfg 0 false (upd_readerQ c q) fr IHF KD (no_open_block_false _ _)) as M.
    split; [|apply (hmvs_highest _ _ _ _ _ M Hd')].
    eapply oth_trans; [apply (oth_same_strms _ _ c (upd_readerQ c q)); reflexivity | eapply hmvs_other; [exact M | exact Hd']].
  - rewrite step_EvDone in *. destruct (sc_sl_done c) eqn:Hd; [split; [apply oth_refl | lia]|].
    assert (M : hmvs 0 false c (fst (sl_done enc_field cfg c sid r))) by (apply hmvs_sl_done; intro K; discriminate K).
    split; [eapply hmvs_other; [exact M | exact Hd'] | apply (hmvs_highest _ _ _ _ _ M Hd')].
  - rewrite step_EvClock. destruct (_ <? _)%Z; (split; [apply oth_same_strms; reflexivity | sc_cbn; lia]).
  - rewrite step_EvTimer in *. destruct (sc_sl_done c) eqn:Hd; [split; [apply oth_refl | lia]|].
    pose proof (hmvs_sl_timer _ cfg 0 false c) as M.
    split; [eapply hmvs_other; [exact M | exact Hd'] | apply (hmvs_highest _ _ _ _ _ M Hd')].
  - rewrite step_EvIdle. split; [apply oth_same_strms; sc_rw; reflexivity | sc_rw; lia].
  - rewrite step_EvCloser in *. destruct (_ && _)%bool; [discriminate Hd' | split; [apply oth_refl | lia]].
  - rewrite step_EvWriteFail. split; [apply oth_same_strms; reflexivity | sc_cbn; lia].
Qed.

(* ---------- the invariant ---------- *)
Definition table_assembled c (L : list litem) : Prop :=
  (forall x, In x (sc_strms c) -> (get_hdr x, st_recvBody x) = asm (own_items (st_id x) L)) /\
  (forall i, In i L -> lsid i <= sc_highestID c).

Lemma get_hdr_data_applied s fr :
  get_hdr (data_applied s fr) = hdr_append_body (get_hdr s) (sf_payload fr) /\
  st_recvBody (data_applied s fr) = (st_recvBody s + Z.of_N (len (sf_payload fr)))%Z.
Proof. split; reflexivity. Qed.

Lemma own_items_none g L m : (forall i, In i L -> lsid i <= m) -> m < g -> own_items g L = [].
Proof.
  intros B Lt. induction L as [|i t IH]; [reflexivity|]. cbn [own_items filter].
  replace (lsid i =? g) with false by (specialize (B i (or_introl eq_refl)); lia).
  apply IH. intros j Ij. apply B. right. exact Ij.
Qed.

Lemma asm_snoc L i : asm (L ++ [i]) = asm_item (asm L) i.
Proof. unfold asm. rewrite fold_left_app. reflexivity. Qed.

(* streams other than the one the step is about: nothing changes, their own items are the same *)
Lemma kept_transfer c c' L g :
  oth g c c' -> table_assembled c L ->
  forall x, In x (sc_strms c') -> st_id x <> g -> (get_hdr x, st_recvBody x) = asm (own_items (st_id x) L).
Proof.
  intros O [TA _] x Ix NG. destruct (O x Ix NG) as (s & Is & Ei & Er & Eh).
  destruct (get_hdr_views _ _ Eh Er) as [GH GR]. rewrite GH, GR, <- Ei. apply TA. exact Is.
Qed.

Theorem log_inv evs : clean dec_field enc_field enc_set_max cfg h0 evs ->
  exists L st, logged evs L st /\ fst (fst st) = sc_dec (run evs) /\
    (sc_sl_done (run evs) = false -> table_assembled (run evs) L).
Proof.
  induction evs as [|e evs IH] using rev_ind.
  - intros _. exists [], (h0, 0, []). split; [constructor|]. split; [reflexivity|]. intros _. split; [intros x []|intros i []].
  - intro CL. pose proof CL as CL2. apply clean_snoc in CL. destruct CL as [CL CS].
    destruct (IH CL) as (L & st & LG & ED & TA). rewrite run_snoc.
    set (c := run evs) in *.
    pose proof (run_inv _ dec_field enc_field enc_set_max cfg h0 evs CL) as (n & carry & RF & RI).
    pose proof (ref_frames_det _ dec_field _ _ _ (logged_ref_frames _ _ _ LG) _ RF) as ES. subst st. cbn [fst snd] in *.
    (* ids of the streams of the next state are not 0 *)
    assert (NZ' : sc_sl_done (step c e) = false -> forall x, In x (sc_strms (step c e)) -> st_id x <> 0).
    { intros Hd' x Ix. pose proof (run_inv _ dec_field enc_field enc_set_max cfg h0 (evs ++ [e]) CL2) as (n2 & k2 & _ & RI2).
      rewrite run_snoc in RI2. destruct (RI2 Hd') as [[[_ _ IDS _ _ _] _] _]. apply IDS. exact Ix. }
    assert (HdM : sc_sl_done (step c e) = false -> sc_sl_done c = false).
    { intro Hd'. destruct (sc_sl_done c) eqn:E; [|reflexivity]. rewrite (sl_done_mono _ dec_field enc_field enc_set_max cfg c e E) in Hd'. discriminate. }
    destruct (hdr_taken c e) as [|fr [|fr2 t]] eqn:HT.
    + destruct (data_taken c e) as [fr|] eqn:DT.
      * (* a DATA frame *)
        exists (L ++ [LD fr]), (sc_dec c, n, carry). split; [eapply lg_data; eassumption|].
        split; [cbn [fst]; symmetry; apply dec_frame_condition; exact HT|].
        intro Hd'. specialize (HdM Hd'). destruct (RI HdM) as [[HI _] _]. specialize (TA HdM).
        unfold data_taken, sl_takes in DT. destruct e; try discriminate DT. rewrite HdM in DT.
        destruct (sc_readerQ c) as [|f q] eqn:RQ; [discriminate|]. cbn [hd_error] in DT.
        destruct (fkind_eqb (sf_kind f) KData && negb (sf_sid f =? 0))%bool eqn:KD; [|discriminate]. inversion DT; subst f.
        apply andb_prop in KD. destruct KD as [K Z]. apply negb_true_iff in Z.
        assert (Kd : sf_kind fr = KData) by (destruct (sf_kind fr); try discriminate K; reflexivity).
        assert (Zn : sf_sid fr <> 0) by lia.
        rewrite step_EvSL in *. rewrite HdM, RQ in *.
        set (c0 := upd_readerQ c q) in *.
        assert (HI0 : HInv (eq (cur_of (hframes dec_field enc_field enc_set_max cfg h0 evs))) c0) by (eapply HInv_ext; [..|exact HI]; reflexivity).
        assert (TA0 : table_assembled c0 L) by exact TA.
        assert (IHF : is_hdr_frame fr = false) by (unfold is_hdr_frame, is_hdr_kind; rewrite Kd; cbn; rewrite andb_false_r; reflexivity).
        pose proof (hmvs_sl_frame_other _ dec_field enc_set_max cfg (sf_sid fr) false c0 fr IHF (fun _ => eq_refl) (no_open_block_false _ _)) as M.
        split.
        -- intros x Ix. destruct (N.eq_dec (st_id x) (sf_sid fr)) as [Ex|Nx].
           ++ destruct (data_step_own _ dec_field enc_set_max cfg _ c0 fr Kd Zn HI0 HdM Hd' x Ix Ex) as (s & SS & Eh & Er).
              assert (Eh' : hv x = hv (data_applied s fr)) by (rewrite Eh; reflexivity).
              destruct (get_hdr_views _ _ Eh' Er) as [GH GR].
              rewrite Ex, own_items_app. cbn [own_items filter lsid]. rewrite N.eqb_refl. rewrite asm_snoc.
              destruct TA0 as [TA1 _]. destruct (strms_search_In _ _ _ SS) as [Is Es].
              rewrite <- Es, <- (TA1 s Is). cbn [asm_item fst snd]. rewrite GH, GR.
              destruct (get_hdr_data_applied s fr) as [-> ->]. reflexivity.
           ++ rewrite own_items_app. cbn [own_items filter lsid]. replace (sf_sid fr =? st_id x) with false by lia. rewrite app_nil_r.
              eapply (kept_transfer c0); [eapply hmvs_other; [exact M | exact Hd'] | exact TA0 | exact Ix | exact Nx].
        -- intros i Ii. pose proof (hmvs_highest _ _ _ _ _ M Hd') as HM. replace (sc_highestID c0) with (sc_highestID c) in HM by reflexivity.
           apply in_app_or in Ii. destruct Ii as [Ii|[<-|[]]].
           ++ destruct TA as [_ TB]. specialize (TB i Ii). lia.
           ++ cbn [lsid]. pose proof (data_step_bound _ dec_field enc_set_max cfg _ c0 fr Kd Zn HI0 Hd'). replace (sc_highestID c0) with (sc_highestID c) in * by reflexivity. lia.
      * (* nothing for any stream's request *)
        exists L, (sc_dec c, n, carry). split; [eapply lg_other; eassumption|].
        split; [cbn [fst]; symmetry; apply dec_frame_condition; exact HT|].
        intro Hd'. specialize (HdM Hd'). specialize (TA HdM).
        destruct (step_kept c e HT DT Hd') as [O HM]. split.
        -- intros x Ix. eapply (kept_transfer c); [exact O | exact TA | exact Ix | apply NZ'; assumption].
        -- intros i Ii. destruct TA as [_ TB]. specialize (TB i Ii). lia.
    + (* a header-block fragment *)
      destruct (CS fr HT) as [W GC].
      unfold hdr_taken, sl_takes in HT. destruct e; try discriminate HT.
      assert (Hd : sc_sl_done c = false) by (destruct (sc_sl_done c); [discriminate HT | reflexivity]). rewrite Hd in HT.
      destruct (sc_readerQ c) as [|fr' q] eqn:RQ; [discriminate HT|].
      cbn [hd_error] in HT. destruct (is_hdr_frame fr') eqn:IHF; [|discriminate HT]. inversion HT; subst fr'.
      destruct (hdr_step_reference _ dec_field enc_field enc_set_max cfg h0 evs fr q CL Hd RQ IHF W GC)
        as (n1 & carry1 & RF1 & (fs & n' & carry' & R & _ & GP)).
      pose proof (ref_frames_det _ dec_field _ _ _ RF1 _ RF) as E1. inversion E1; subst n1 carry1.
      exists (L ++ [LH fr fs carry']), (sc_dec (step c EvSL), n', carry').
      split.
      * eapply (lg_hdr evs L (sc_dec c, n, carry) EvSL fr fs (sc_dec (step c EvSL), n', carry')); [exact LG | | exact R].
        fold c. unfold hdr_taken, sl_takes. rewrite Hd, RQ. cbn [hd_error]. rewrite IHF. reflexivity.
      * split; [reflexivity|]. intro Hd'. specialize (TA Hd).
        destruct (GP Hd') as (_ & O & OP & IP & HM & HS).
        set (c0 := upd_readerQ c q) in *.
        assert (TA0 : table_assembled c0 L) by exact TA.
        split.
        -- intros x Ix. destruct (N.eq_dec (st_id x) (sf_sid fr)) as [Ex|Nx].
           ++ destruct (OP x Ix Ex) as (hF & HF & GH & GR).
              rewrite Ex, own_items_app. cbn [own_items filter lsid]. rewrite N.eqb_refl. rewrite asm_snoc.
              assert (EB : (get_hdr (entry_before _ c0 fr), st_recvBody (entry_before _ c0 fr)) = asm (own_items (sf_sid fr) L)).
              { unfold entry_before. destruct (strms_search (sc_strms c0) (sf_sid fr)) as [s|] eqn:SS.
                - destruct (strms_search_In _ _ _ SS) as [Is Es]. destruct TA0 as [TA1 _]. rewrite <- Es. apply TA1. exact Is.
                - destruct (IP x Ix) as [I2|[_ I3]].
                  + exfalso. rewrite Ex in I2. apply in_map_iff in I2. destruct I2 as (y & Ey & Iy).
                    eapply strms_search_None; [exact SS | exact Iy | exact Ey].
                  + destruct TA0 as [_ TB]. rewrite (own_items_none _ _ _ TB I3). reflexivity. }
              cbn [asm_item]. rewrite <- EB. cbn [fst snd].
              replace (hh1h (get_hdr (entry_before _ c0 fr)) fr) with (hh1 (entry_before _ c0 fr) fr) by reflexivity.
              unfold c0, c. rewrite HF, GH, GR. reflexivity.
           ++ rewrite own_items_app. cbn [own_items filter lsid]. replace (sf_sid fr =? st_id x) with false by lia. rewrite app_nil_r.
              eapply (kept_transfer c0); [exact O | exact TA0 | exact Ix | exact Nx].
        -- intros i Ii. change (sc_highestID c <= sc_highestID (step c EvSL)) in HM.
           apply in_app_or in Ii. destruct Ii as [Ii|[<-|[]]].
           ++ destruct TA as [_ TB]. specialize (TB i Ii). lia.
           ++ cbn [lsid]. exact HS.
    + unfold hdr_taken in HT. destruct (sl_takes c e); [destruct (is_hdr_frame s)|]; discriminate.
Qed.

End Log.

(* ---------- reading asm ---------- *)
From H2V Require Import Proofs.SrvIsoReq.

Section Asm.
Variable cfg : config.

Definition data_payloads (L : list litem) : list bytes :=
  flat_map (fun i => match i with LD fr => [sf_payload fr] | LH _ _ _ => [] end) L.

Lemma len_app_iso (a b : bytes) : len (a ++ b) = len a + len b.
Proof. unfold len. rewrite app_length. lia. Qed.

(* the body collected is the concatenation of the DATA payloads, whatever header blocks came in between *)
Lemma asm_body_gen L : forall a,
  rq_body (hd_req (fst (fold_left (asm_item cfg) L a))) = rq_body (hd_req (fst a)) ++ concat (data_payloads L) /\
  snd (fold_left (asm_item cfg) L a) = (snd a + Z.of_N (len (concat (data_payloads L))))%Z.
Proof.
  induction L as [|i t IH]; intro a; cbn [fold_left data_payloads flat_map concat].
  - rewrite app_nil_r. split; [reflexivity | unfold len; cbn; lia].
  - destruct (IH (asm_item cfg a i)) as [E1 E2]. fold (data_payloads t) in *. rewrite E1, E2.
    destruct i as [fr fs carry|fr]; cbn [asm_item app concat].
    + destruct (hfold cfg (hh1h (fst a) fr) fs) as [hF|] eqn:HF; [|split; reflexivity].
      destruct (hfold_fields cfg _ _ _ HF) as [_ EB]. cbn [hh1h hd_req] in EB.
      cbn [fst snd]. split; [|reflexivity]. f_equal.
      destruct (eh_of fr); cbn [hd_set_fin hd_set_prev hd_req]; exact EB.
    + cbn [fst snd hdr_append_body hd_req rq_append_body rq_body]. rewrite <- app_assoc. split; [reflexivity|].
      rewrite len_app_iso. lia.
Qed.

Theorem asm_body L :
  rq_body (hd_req (fst (asm cfg L))) = concat (data_payloads L) /\ snd (asm cfg L) = Z.of_N (len (concat (data_payloads L))).
Proof. destruct (asm_body_gen L (hdr0, 0%Z)) as [E1 E2]. unfold asm. rewrite E1, E2. cbn [fst snd hdr0 hd_req empty_req rq_body app]. split; [reflexivity | lia]. Qed.

(* header_field does not look at the carried bytes *)
Lemma header_field_set_prev h p k v :
  header_field cfg (hd_set_prev h p) k v =
  match header_field cfg h k v with inl e => inl e | inr h' => inr (hd_set_prev h' p) end.
Proof.
  unfold header_field, hd_set_prev. cbv zeta.
  cbn [hd_pMethod hd_pPath hd_pScheme hd_pAuth hd_regularSeen hd_contentLength hd_hasCL hd_blockFields hd_path hd_req
       hd_headersFinished hd_prev hd_headerListSize].
  repeat match goal with
         | |- context [if ?b then _ else _] => destruct b
         | |- context [match parse_uint ?v with _ => _ end] => destruct (parse_uint v)
         end; reflexivity.
Qed.

Lemma hfold_set_prev fs : forall h p,
  hfold cfg (hd_set_prev h p) fs = match hfold cfg h fs with Some x => Some (hd_set_prev x p) | None => None end.
Proof.
  induction fs as [|[k v] t IH]; intros h p; cbn [hfold]; [reflexivity|].
  rewrite header_field_set_prev. destruct (header_field cfg h k v); [reflexivity | apply IH].
Qed.

Lemma hd_set_prev_twice h p q : hd_set_prev (hd_set_prev h p) q = hd_set_prev h q.
Proof. reflexivity. Qed.

(* the fragments of one block: a HEADERS frame, then CONTINUATION frames; END_HEADERS on the last only *)
Fixpoint block_items (first : bool) (frs : list (sframe * list (bytes * bytes) * bytes)) : Prop :=
  match frs with
  | [] => False
  | [(fr, _, _)] => is_cont fr = negb first /\ eh_of fr = true
  | (fr, _, _) :: t => is_cont fr = negb first /\ eh_of fr = false /\ block_items false t
  end.
Definition items_of (frs : list (sframe * list (bytes * bytes) * bytes)) : list litem :=
  map (fun x => LH (fst (fst x)) (snd (fst x)) (snd x)) frs.
Definition fields_of (frs : list (sframe * list (bytes * bytes) * bytes)) : list (bytes * bytes) :=
  flat_map (fun x => snd (fst x)) frs.

Lemma hh1h_cont h carry fr : is_cont fr = true -> hd_headersFinished h = false ->
  hh1h (hd_set_prev h carry) fr = hd_set_prev h [].
Proof.
  unfold is_cont. intros IC HF. unfold hh1h, hd_set_prev. rewrite IC. cbn. rewrite HF, orb_false_r. reflexivity.
Qed.

(* a block cut into fragments is folded as a whole *)
Lemma asm_block_conts frs : forall hA carry r, block_items false frs -> hd_headersFinished hA = false ->
  forall hF, hfold cfg (hd_set_prev hA []) (fields_of frs) = Some hF ->
  fold_left (asm_item cfg) (items_of frs) (hd_set_prev hA carry, r) = (hd_set_fin hF true, r).
Proof.
  induction frs as [|[[fr fs] cr] t IH]; intros hA carry r BI HA hF HF; [destruct BI|].
  cbn [items_of map fold_left fst snd asm_item]. cbn [fields_of flat_map fst snd] in HF.
  rewrite hfold_app in HF.
  destruct t as [|y t'].
  - destruct BI as [IC EH]. rewrite (hh1h_cont _ _ _ IC HA). cbn [flat_map] in HF.
    destruct (hfold cfg (hd_set_prev hA []) fs) as [h1|] eqn:H1; [|discriminate]. cbn [hfold] in HF. inversion HF; subst.
    rewrite EH. cbn [fold_left fst snd]. destruct (hfold_frame cfg _ _ _ H1) as (PV & _ & _). cbn [hd_set_prev hd_prev] in PV.
    unfold hd_set_fin, hd_set_prev. cbn. rewrite PV. reflexivity.
  - destruct BI as (IC & EH & BI'). rewrite (hh1h_cont _ _ _ IC HA).
    destruct (hfold cfg (hd_set_prev hA []) fs) as [h1|] eqn:H1; [|discriminate].
    rewrite EH. cbn [fst snd].
    destruct (hfold_frame cfg _ _ _ H1) as (PV & _ & HF1). cbn [hd_set_prev hd_prev hd_headersFinished] in PV, HF1.
    apply (IH h1 cr r BI'); [congruence|].
    replace (hd_set_prev h1 []) with h1; [exact HF|]. destruct h1. cbn in *. subst. reflexivity.
Qed.

Lemma hh1h_first fr : is_cont fr = false -> hh1h hdr0 fr = hdr0.
Proof. unfold is_cont. intro IC. unfold hh1h, hdr0. rewrite IC. reflexivity. Qed.

Lemma hdr_append_nil h : hdr_append_body h [] = h.
Proof. destruct h as [a b c d e f g i j k l m rq]. destruct rq. unfold hdr_append_body, rq_append_body. cbn. rewrite app_nil_r. reflexivity. Qed.
Lemma hdr_append_app h a b : hdr_append_body (hdr_append_body h a) b = hdr_append_body h (a ++ b).
Proof. unfold hdr_append_body, rq_append_body. cbn. rewrite app_assoc. reflexivity. Qed.

Lemma asm_datas ds : forall h r,
  fold_left (asm_item cfg) (map LD ds) (h, r) =
  (hdr_append_body h (concat (map sf_payload ds)), (r + Z.of_N (len (concat (map sf_payload ds))))%Z).
Proof.
  induction ds as [|d t IH]; intros h r; cbn [map fold_left concat].
  - rewrite hdr_append_nil. f_equal. unfold len. cbn. lia.
  - cbn [asm_item fst snd]. rewrite IH, hdr_append_app, len_app_iso. f_equal. lia.
Qed.

(* C01 (a), for one stream, read off its own items: a block (HEADERS CONTINUATION*, cut anywhere) whose fields the
   model accepts, then DATA frames: the stream holds the request the fields spell, with the DATA payloads as body *)
Theorem asm_request frs ds hF :
  block_items true frs -> hfold cfg hdr0 (fields_of frs) = Some hF ->
  let a := asm cfg (items_of frs ++ map LD ds) in
  hd_req (fst a) = rq_append_body (request_of empty_req (fields_of frs)) (concat (map sf_payload ds)) /\
  hd_headersFinished (fst a) = true /\
  snd a = Z.of_N (len (concat (map sf_payload ds))) /\
  hd_pMethod (fst a) = is_some (field_val S_method (fields_of frs)) /\
  hd_pPath (fst a) = is_some (field_val S_path (fields_of frs)) /\
  hd_pScheme (fst a) = is_some (field_val S_scheme (fields_of frs)) /\
  hd_path (fst a) = opt_or (field_val S_path (fields_of frs)) [].
Proof.
  intros BI HF. cbv zeta. unfold asm. rewrite fold_left_app.
  assert (B : fold_left (asm_item cfg) (items_of frs) (hdr0, 0%Z) = (hd_set_fin hF true, 0%Z)).
  { destruct frs as [|[[fr fs] cr] t]; [destruct BI|].
    cbn [items_of map fold_left fst snd asm_item]. cbn [fields_of flat_map fst snd] in HF. rewrite hfold_app in HF.
    destruct t as [|y t'].
    - destruct BI as [IC EH]. cbn [negb] in IC. rewrite (hh1h_first _ IC). cbn [flat_map] in HF.
      destruct (hfold cfg hdr0 fs) as [h1|] eqn:H1; [|discriminate]. cbn [hfold] in HF. inversion HF; subst.
      rewrite EH. cbn [fold_left fst snd]. destruct (hfold_frame cfg _ _ _ H1) as (PV & _ & _). cbn [hdr0 hd_prev] in PV.
      unfold hd_set_fin, hd_set_prev. cbn. rewrite PV. reflexivity.
    - destruct BI as (IC & EH & BI'). cbn [negb] in IC. rewrite (hh1h_first _ IC).
      destruct (hfold cfg hdr0 fs) as [h1|] eqn:H1; [|discriminate]. rewrite EH. cbn [fst snd].
      destruct (hfold_frame cfg _ _ _ H1) as (PV & _ & HF1). cbn [hdr0 hd_prev hd_headersFinished] in PV, HF1.
      apply (asm_block_conts (y :: t') h1 cr 0%Z BI' HF1).
      replace (hd_set_prev h1 []) with h1; [exact HF|]. destruct h1. cbn in *. subst. reflexivity. }
  rewrite B, asm_datas. cbn [fst snd].
  destruct (hfold_request cfg hdr0 _ _ HF eq_refl eq_refl eq_refl eq_refl) as (RQ & PM & PP & PS & _ & PH).
  cbn [hdr_append_body hd_set_fin hd_req hd_headersFinished hd_pMethod hd_pPath hd_pScheme hd_path].
  rewrite RQ. repeat split; auto.
Qed.

End Asm.
