(* C04: the hypotheses of the theorems are satisfiable, on inputs that exercise the corners:
   computations only. *)
From Coq Require Import List NArith Bool.
From H2V Require Import Base.Bytes Base.MachineInt Base.Result Gen.GenConsts Gen.GenStatic
     Impl.Huffman Impl.Hpack Spec.Rfc7541Huffman Spec.Rfc7541 Proofs.HpackDefs Proofs.HpackEncDefs.
Import ListNotations.
Local Open Scope N_scope.

Definition F (k v : bytes) : field := mkF k v false.
Definition Fs (k v : bytes) : field := mkF k v true.
Definition method : bytes := [58;109;101;116;104;111;100].                                   (* :method *)
Definition authz : bytes := [97;117;116;104;111;114;105;122;97;116;105;111;110].            (* authorization, static 23 *)
Definition accept_charset : bytes := [97;99;99;101;112;116;45;99;104;97;114;115;101;116].   (* static 15 *)

(* RFC C.3.1-like request, a repeat (dynamic full match), a sensitive field with a name index >= 16,
   names that are empty / end in a zero octet / whose Huffman form ends in a zero octet *)
Definition ex_basic : list enc_op :=
  [ Block [(F method [71;69;84], true); (F [120] [121], true); (Fs authz [115], true); (F [120] [121], true)];
    Block [(F [] [97], true); (F [97;0] [98], true); (F [48;48;48;48;48;48;48;48] [99], true); (F [] [], false)];
    Block [(F [120] [121], false); (F [97;0] [98], true)] ].

Lemma example_basic :
  forallb enc_op_ok ex_basic = true /\
  forallb (fun fl => c04_check (fst fl) (snd fl) ex_basic)
          [(false, false); (true, false); (false, true); (true, true)] = true.
Proof. vm_compute. split; reflexivity. Qed.

(* table size changes: set to 0 and back to 4096 between two blocks (both are announced), lowered
   twice, raised above the default, an empty block in between, changed before the first block and
   after the last, 31 (the 5-bit prefix maximum) *)
Definition ex_sizes : list enc_op :=
  [ SetMax 31; Block [(F [120] [121], true)]; SetMax 0; SetMax 4096; Block [(F [120] [121], true)];
    SetMax 100; SetMax 50; Block [(F [122] [121], true)]; SetMax 65536; Block []; Block [(F [122] [121], true)];
    SetMax 64; Block [(F [120] [121], true); (Fs authz [115], true); (F [122] [121], true)]; SetMax 0 ].

Lemma example_sizes : forallb enc_op_ok ex_sizes = true /\ c04_check false false ex_sizes = true.
Proof. vm_compute. split; reflexivity. Qed.

(* what the encoder writes after SetMaxTableSize(0); SetMaxTableSize(4096): both updates, then the field *)
Lemma example_two_updates :
  encode_block (set_max_table_size (set_max_table_size (hpack_init true false) 0) 4096) [(F [120] [121], true)]
  = Ok ([32; 63; 225; 31; 64; 1; 120; 1; 121],
        mkH true false [F [120] [121]] 4096 4096 false 0) /\
  spec_parse_block [32; 63; 225; 31; 64; 1; 120; 1; 121]
  = Some [SizeUpdate 0; SizeUpdate 4096; Literal Incremental (NameLit [120]) false false [121]].
Proof. vm_compute. split; reflexivity. Qed.

(* a value equal to the prefix maximum 2^bits - 1 is the prefix and a zero octet (RFC 7541 5.1):
   table size 31 on the 5-bit prefix, name index 15 on the 4-bit prefix, a 127-octet string *)
Lemma example_prefix_max :
  (1 <= 5 <= 8 /\ 32 < 256 /\ 32 mod 2 ^ 5 = 0 /\ 31 < 2 ^ 64) /\
  append_int [32] 5 31 = Ok [63; 0] /\ spec_enc_int 5 32 31 = [63; 0] /\
  append_int [1; 2; 16] 4 15 = Ok [1; 2; 31; 0] /\
  append_int [128] 7 1337 = Ok [255; 186; 9] /\
  c04_check false false [SetMax 31; Block [(F [97] [98], false)]] = true /\
  c04_check false false [Block [(F accept_charset [120], false); (Fs accept_charset [120], false)]] = true /\
  c04_check true false [Block [(F [120] (repeat 97 127), false)]] = true.
Proof. vm_compute. repeat split; try reflexivity; discriminate. Qed.

(* strings: raw and Huffman, a name ending in 0x00, one whose Huffman form is all zero octets, the empty string *)
Lemma example_strings :
  (bytes_ok [97; 0] = true /\ len [97; 0] < 2 ^ 32) /\
  append_string [7] [97; 0] false = Ok [7; 2; 97; 0] /\
  append_string [7] [97; 0] true = Ok [7; 131; 31; 254; 63] /\
  append_string [] [48;48;48;48;48;48;48;48] true = Ok [133; 0; 0; 0; 0; 0] /\
  append_string [7; 0] [] true = Ok [7; 0; 128] /\
  spec_enc_str true [97; 0] = [131; 31; 254; 63] /\
  spec_dec_str [131; 31; 254; 63; 5] = Some (true, [97; 0], [5]).
Proof. vm_compute. repeat split; try reflexivity; discriminate. Qed.

(* search: a dynamic full match (newest first: the second of three entries is index 63), a static
   full match, a static name-only match, no match *)
Definition ex_state : hpack_state :=
  mkH false false [F [97] [98]; F [120] [121]; F [99] [100]] 4096 4096 false 0.

Lemma example_search :
  N.of_nat (length (h_dynamic ex_state)) < 2 ^ 63 /\
  search ex_state (F [120] [121]) = (63, true) /\ lookup (abs ex_state) 63 = Some ([120], [121]) /\
  search ex_state (F method [71;69;84]) = (2, true) /\
  search ex_state (F method [72]) = (2, false) /\ lookup (abs ex_state) 2 = Some (method, [71;69;84]) /\
  search ex_state (F [120] [122]) = (0, false).
Proof. vm_compute. repeat split; try reflexivity; discriminate. Qed.

(* AppendHeader only ever extends dst *)
Lemma example_prefix :
  append_header ex_state [] (Fs authz [115]) true = Ok ([31; 8; 1; 115], ex_state) /\
  append_header ex_state [9; 9] (Fs authz [115]) true = Ok ([9; 9] ++ [31; 8; 1; 115], ex_state).
Proof. vm_compute. split; reflexivity. Qed.
