(* Proofs/SrvFlowAck.v - the SETTINGS acknowledgement is the first thing the step that applies the settings puts
   on the wire: DATA queued before it was sent under the old INITIAL_WINDOW_SIZE, DATA queued after it under the new
   one. This is what makes "the moment the stream loop handles the frame" (Proofs/SrvFlowDefs.v, tl_step) the moment
   the peer itself can observe (RFC 7540 6.5.3). *)
From H2V Require Import Base.Bytes Base.MachineInt Base.Result Gen.GenConsts Impl.ServerConn Proofs.SrvBase
  Proofs.SrvFlowDefs Proofs.SrvFlowSend Proofs.SrvFlowEff Proofs.SrvFlowRecv.
From Coq Require Import ZArith Lia ZifyN ZifyNat ZifyBool List.
Import ListNotations.
Local Open Scope N_scope.
Set Default Proof Using "Type".

Section Ack.
Variable hstate : Type.
Variable dec_field : hstate -> N -> bytes -> dec_res hstate.
Variable enc_field : hstate -> bytes -> bytes -> bool -> bytes * hstate.
Variable enc_set_max : hstate -> N -> hstate.
Variable cfg : config.
Notation sconn := (sconn hstate).
Implicit Types c : sconn.
Notation step := (step dec_field enc_field enc_set_max cfg).

Theorem settings_ack_first c fr q :
  sc_sl_done c = false -> sc_wl_dead c = false -> sc_readerQ c = fr :: q ->
  sf_sid fr = 0 -> sf_kind fr = KSettings ->
  sc_sl_done (step c EvSL) = false ->
  exists rest, new_out hstate c (step c EvSL) = OSettingsAck :: rest.
Proof.
  intros SD WD EQ Z K SD'. revert SD'. rewrite step_EvSL, SD, EQ.
  assert (Z0 : (sf_sid fr =? 0) = true) by flia.
  rewrite (sl_frame_settings _ dec_field enc_set_max cfg (upd_readerQ c q) fr Z0 K). cbv zeta.
  set (c0 := settings_c0 enc_set_max (upd_readerQ c q) fr).
  assert (E0 : sc_out c0 = sc_out c /\ sc_wl_dead c0 = false /\ sc_sl_done c0 = false).
  { subst c0. unfold settings_c0. destruct (sf_set_hastable fr); sc_cbn; auto. }
  destruct E0 as (O0 & W0 & S0).
  assert (EM : forall c1 : sconn, sc_out c1 = sc_out c -> sc_wl_dead c1 = false -> sc_sl_done c1 = false ->
               sc_out (emit c1 OSettingsAck) = OSettingsAck :: sc_out c).
  { intros c1 A B C. rewrite sc_out_emit, B, C, A. reflexivity. }
  destruct (sf_set_haswin fr).
  - destruct (bumpall _ [] _) as [l' over]. destruct over; [cbn [fst brk]; unfold note; sc_cbn; discriminate|].
    cbn [fst cont]. intros _.
    match goal with |- context [flush_streams ?x] =>
      destruct (flush_streams_NoCredit _ x) as [_ (new & E & _)];
      assert (EX : sc_out x = OSettingsAck :: sc_out c) by (apply EM; sc_cbn; assumption) end.
    exists (rev new). rewrite (new_out_ext _ _ _ (new ++ [OSettingsAck])); [|rewrite E, EX, <- app_assoc; reflexivity].
    rewrite rev_app_distr. reflexivity.
  - cbn [fst cont]. intros _. exists []. rewrite (new_out_ext _ _ _ [OSettingsAck]); [reflexivity|].
    apply EM; assumption.
Qed.

End Ack.
