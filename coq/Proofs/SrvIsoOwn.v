(* Proofs/SrvIsoOwn.v - C01 (a)/(c): what a frame does to its OWN stream's request state, in any clean run:
   - a header-block fragment: the stream's header state is the field-by-field fold over the reference-decoded
     fields, from where it was (own_post in Proofs/SrvIsoHdrStep.v; hdr_step_own below);
   - a DATA frame: the payload is appended to the body (data_step_own);
   - anything else: untouched (other_step_keeps).
   Then the ghost log of a run and the invariant that ties every table stream to its own frames (SrvIsoLog.v). *)
From H2V Require Import Base.Bytes Base.MachineInt Base.Result Gen.GenConsts Impl.ServerConn Proofs.SrvBase
  Proofs.SrvIsoRef Proofs.SrvIsoMoves Proofs.SrvIsoSteps Proofs.SrvIsoHdr Proofs.SrvIsoHdrStep Proofs.SrvIsoRun.
From Coq Require Import ZArith Lia ZifyN ZifyNat ZifyBool.
Local Open Scope N_scope.

Section Own.
Variable hstate : Type.
Variable dec_field : hstate -> N -> bytes -> dec_res hstate.
Variable enc_field : hstate -> bytes -> bytes -> bool -> bytes * hstate.
Variable enc_set_max : hstate -> N -> hstate.
Variable cfg : config.
Notation sconn := (sconn hstate).
Implicit Types c : sconn.

(* the table entry after DATA has been accepted *)
Definition data_applied (s : stream) (fr : sframe) : stream :=
  set_recv s (st_recvBody s + Z.of_N (len (sf_payload fr)))%Z (rq_append_body (st_req s) (sf_payload fr)).

(* every stream is as it was in the table before, up to state / flags / windows *)
Definition all_kept c c' : Prop := oth 0 c c'.

(* DATA: if its stream is in the table afterwards, it was there before and the payload has been appended *)
Theorem data_step_own idp c fr :
  sf_kind fr = KData -> sf_sid fr <> 0 -> HInv idp c -> sc_sl_done c = false ->
  sc_sl_done (fst (sl_frame dec_field enc_set_max cfg c fr)) = false ->
  forall x, In x (sc_strms (fst (sl_frame dec_field enc_set_max cfg c fr))) -> st_id x = sf_sid fr ->
  exists s, strms_search (sc_strms c) (sf_sid fr) = Some s /\ hv x = hv s /\ rqv x = rqv (data_applied s fr).
Proof.
  intros K NZ H Hd Hd' x Ix Ex. pose proof H as [ND FP IDS LAST DISC RING].
  assert (NOX : strms_search (sc_strms c) (sf_sid fr) = None -> forall c1, sc_strms c1 = sc_strms c -> ~ In x (sc_strms c1)).
  { intros NF c1 E I. rewrite E in I. eapply strms_search_None; [exact NF | exact I | exact Ex]. }
  unfold sl_frame in *. replace (sf_sid fr =? 0) with false in * by lia. rewrite K in *. cbn [fkind_eqb andb] in *. cbv zeta in *.
  destruct (if sf_sid fr <=? sc_lastID c then strms_search (sc_strms c) (sf_sid fr) else None) as [s|] eqn:Found.
  - assert (SS : strms_search (sc_strms c) (sf_sid fr) = Some s) by (destruct (_ <=? _); [exact Found | discriminate]).
    destruct (strms_search_In _ _ _ SS) as [Is Es]. exists s. split; [exact SS|].
    (* handle_frame on DATA *)
    change (fst (ftail dec_field cfg c s fr (sc_closing c))) with (fst (ftail dec_field cfg c s fr (sc_closing c))) in *.
    assert (FT : forall c3 s3 e, handle_frame dec_field cfg c s fr = (c3, s3, e) ->
              In x (sc_strms (fst (ftail_rest cfg c3 s3 e fr (sc_closing c)))) ->
              sc_sl_done (fst (ftail_rest cfg c3 s3 e fr (sc_closing c))) = false ->
              hv x = hv s /\ rqv x = rqv (data_applied s fr)).
    { intros c3 s3 e HFr Ix3 Hd3.
      assert (Ps : P idp s) by (rewrite Forall_forall in FP; auto).
      unfold handle_frame in HFr. rewrite K in HFr.
      destruct (verify_state s fr) as [e0|] eqn:V.
      { inversion HFr; subst. exfalso. apply verify_state_err in V. unfold ftail_rest in Hd3. cbn [write_error] in Hd3.
        destruct e0 as [code|code|]; cbn [fatal_err] in V; [rewrite V in Hd3; cbn in Hd3; discriminate | destruct V | cbn in Hd3; discriminate]. }
      destruct (negb (st_headersFinished s)) eqn:HF.
      { inversion HFr; subst. exfalso. unfold ftail_rest in Hd3. cbn in Hd3. discriminate. }
      destruct (3 <=? sstate_rank (st_state s)) eqn:RK.
      { inversion HFr; subst. exfalso. unfold ftail_rest in Hd3. cbn in Hd3. discriminate. }
      cbv zeta in HFr.
      assert (R0 : st_responded s = false).
      { destruct Ps as (_ & P2 & _). destruct (st_responded s); [|reflexivity]. destruct (P2 eq_refl). lia. }
      destruct (_ && _)%bool eqn:LIM.
      - (* over the limit: the stream is reset and closed *)
        inversion HFr; subst. exfalso. unfold ftail_rest in Ix3. cbn [write_error] in Ix3.
        rewrite (after_frame_closed _ cfg _ _ fr (sc_closing c)) in Ix3; [| rewrite K; reflexivity | reflexivity | exact R0].
        cbv zeta in Ix3.
        set (s5 := set_state (set_state (set_weReset (set_recv s _ (st_req s))) SClosed) SClosed) in *.
        set (c4 := write_reset _ _ _) in *.
        assert (I5 : In x (sc_strms (close_stream (put c4 s5) s5))) by (destruct (sc_closing c && can_close_after_goaway (close_stream (put c4 s5) s5))%bool; exact Ix3).
        rewrite sc_strms_close_stream in I5.
        assert (ND5 : NoDup (map st_id (sc_strms (put c4 s5)))).
        { rewrite sc_strms_put, strms_put_ids. unfold c4. rewrite sc_strms_write_reset.
          destruct (hsame_credit_conn_window _ cfg c (Z.of_N (sf_len fr))) as (_ & _ & _ & _ & E & _). rewrite E. exact ND. }
        apply (iso_del_gone _ (st_id s5) ND5). apply (in_map st_id) in I5. rewrite Ex in I5.
        replace (st_id s5) with (sf_sid fr) at 1 by (symmetry; exact Es). exact I5.
      - inversion HFr; subst. fold (data_applied s fr) in *. set (s1 := data_applied s fr) in *.
        set (c3 := consume_recv_window cfg c s1 fr (Z.of_N (sf_len fr))) in *.
        assert (L : hsame c c3) by apply hsame_consume_recv_window.
        assert (IT : inT c3 s1) by (exists s; rewrite (hsame_strms _ _ _ L); cbn [s1 data_applied set_recv st_id]; rewrite Es; exact SS).
        assert (M0 : hmvs 0 false (put c3 s1) (fst (ftail_rest cfg c3 s1 None fr (sc_closing c)))).
        { apply (hmvs_ftail_rest _ dec_field enc_set_max cfg 0); [exact IT | | intros _ _ Kf; discriminate Kf | intros code Ec; discriminate Ec].
          rewrite (hsame_closing _ _ _ L). auto. }
        assert (X0 : st_id x <> 0) by (rewrite Ex; exact NZ).
        destruct (hmvs_other _ 0 false _ _ M0 Hd3 x Ix3 X0) as (s' & Is' & Ei' & Er' & Eh').
        assert (S' : s' = s1).
        { assert (NDv : NoDup (map st_id (sc_strms (put c3 s1)))) by (rewrite sc_strms_put, strms_put_ids, (hsame_strms _ _ _ L); exact ND).
          pose proof (iso_NoDup_search _ _ NDv Is') as Sv. rewrite Ei', Ex in Sv.
          assert (SP : strms_search (sc_strms (put c3 s1)) (sf_sid fr) = Some s1).
          { rewrite sc_strms_put. replace (sf_sid fr) with (st_id s1) by exact Es. eapply iso_search_put_same.
            rewrite (hsame_strms _ _ _ L). cbn [s1 data_applied set_recv st_id]. rewrite Es. exact SS. }
          congruence. }
        subst s'. split; [rewrite Eh'; reflexivity | exact Er']. }
    unfold ftail in *. destruct (handle_frame dec_field cfg c s fr) as [[c3 s3] e] eqn:HFr.
    apply (FT c3 s3 e eq_refl Ix Hd').
  - (* the stream is not in the table, and the step does not put it there *)
    exfalso.
    assert (NF : strms_search (sc_strms c) (sf_sid fr) = None).
    { destruct (sf_sid fr <=? sc_lastID c) eqn:Le; [exact Found|].
      destruct (strms_search (sc_strms c) (sf_sid fr)) as [s|] eqn:SS; [|reflexivity].
      destruct (strms_search_In _ _ _ SS) as [Is Es]. destruct (IDS s Is). lia. }
    destruct (in_ring c (sf_sid fr)).
    { destruct (match ring_find c (sf_sid fr) with Some b => b | None => false end); cbn [cont fst] in Ix.
      - apply (NOX NF (credit_conn_window cfg c (Z.of_N (sf_len fr)))); [|exact Ix].
        destruct (hsame_credit_conn_window _ cfg c (Z.of_N (sf_len fr))) as (_ & _ & _ & _ & E & _). exact E.
      - apply (NOX NF (write_goaway c (sf_sid fr) c_StreamClosedError)); [sc_rw; reflexivity | exact Ix]. }
    destruct (sf_sid fr <? sc_lastID c).
    { cbn [cont fst] in Ix. apply (NOX NF (write_goaway c (sf_sid fr) c_ProtocolError)); [sc_rw; reflexivity | exact Ix]. }
    (* a stream is made for the frame, the frame is refused, the loop ends *)
    set (s := set_orig_started (new_stream (sf_sid fr) (sc_initWin c)) KData (sc_now c)) in *.
    unfold handle_frame in Hd'.
    replace (verify_state s fr) with (Some (EGoAway c_ProtocolError)) in Hd' by (unfold verify_state; cbn [s set_orig_started new_stream st_state]; rewrite K; reflexivity).
    cbn in Hd'. discriminate.
Qed.

(* a DATA frame that does not end the stream loop is for a stream id the connection has seen *)
Lemma data_step_bound idp c fr :
  sf_kind fr = KData -> sf_sid fr <> 0 -> HInv idp c ->
  sc_sl_done (fst (sl_frame dec_field enc_set_max cfg c fr)) = false -> sf_sid fr <= sc_highestID c.
Proof.
  intros K NZ H Hd'. pose proof H as [ND FP IDS LAST DISC RING].
  unfold sl_frame in *. replace (sf_sid fr =? 0) with false in * by lia. rewrite K in *. cbn [fkind_eqb andb] in *. cbv zeta in *.
  destruct (if sf_sid fr <=? sc_lastID c then strms_search (sc_strms c) (sf_sid fr) else None) as [s|] eqn:Found.
  - assert (SS : strms_search (sc_strms c) (sf_sid fr) = Some s) by (destruct (_ <=? _); [exact Found | discriminate]).
    destruct (strms_search_In _ _ _ SS) as [Is Es]. destruct (IDS s Is). lia.
  - destruct (in_ring c (sf_sid fr)) eqn:IR.
    { destruct (in_ring_In _ dec_field enc_set_max _ _ IR) as (e & Ie & Ee). specialize (RING e Ie). lia. }
    destruct (sf_sid fr <? sc_lastID c) eqn:LT; [lia|].
    exfalso. set (s := set_orig_started (new_stream (sf_sid fr) (sc_initWin c)) KData (sc_now c)) in *.
    unfold handle_frame in Hd'.
    replace (verify_state s fr) with (Some (EGoAway c_ProtocolError)) in Hd' by (unfold verify_state; cbn [s set_orig_started new_stream st_state]; rewrite K; reflexivity).
    cbn in Hd'. discriminate.
Qed.

End Own.
