(* C03/C04: the generated static table is RFC 7541 Appendix A; finite facts by computation. *)
From H2V Require Import Base.Bytes Base.MachineInt Base.Result Gen.GenConsts Gen.GenStatic
     Impl.Huffman Impl.Hpack Spec.Rfc7541Huffman Spec.Rfc7541 Proofs.HpackDefs.
Local Open Scope N_scope.

Lemma static_table_is_rfc : static_table = rfc_static_table.
Proof. vm_compute. reflexivity. Qed.

Lemma max_index_eq : c_maxIndex = static_len + 1.
Proof. vm_compute. reflexivity. Qed.

Lemma static_len_61 : static_len = 61.
Proof. vm_compute. reflexivity. Qed.

Lemma static_fields_length : length static_fields = 61%nat.
Proof. vm_compute. reflexivity. Qed.

Lemma rfc_static_length : length rfc_static_table = 61%nat.
Proof. vm_compute. reflexivity. Qed.

Lemma static_fields_map : map entry_of static_fields = rfc_static_table.
Proof. vm_compute. reflexivity. Qed.

(* every static field is a byte string pair, not sensitive, of size at most 64 *)
Definition static_field_okb (f : field) : bool :=
  field_ok f && (len (f_key f) + len (f_value f) + 32 <=? 64).

Lemma static_fields_ok : forallb static_field_okb static_fields = true.
Proof. vm_compute. reflexivity. Qed.

Lemma static_field_in f : In f static_fields ->
  field_ok f = true /\ len (f_key f) + len (f_value f) + 32 <= 64.
Proof.
  intros Hin. pose proof static_fields_ok as H. rewrite forallb_forall in H.
  specialize (H f Hin). unfold static_field_okb in H. apply andb_prop in H. destruct H as [H1 H2].
  split; [exact H1 | apply N.leb_le; exact H2].
Qed.
