(* Theorems about what a client connection says first (Impl/ClientSetup.v). Closed terms: computation is a proof. *)
From Coq Require Import List NArith ZArith Bool Lia.
From H2V Require Import Base.Bytes Base.MachineInt Base.Result Gen.GenConsts Gen.GenSetup Impl.Frames Impl.ClientSetup Impl.ServerConn Impl.ClientConn.
Import ListNotations.
Local Open Scope Z_scope.

Definition entries (l : list (N * N)) : bytes := flat_map (fun kv => setting_entry (fst kv) (snd kv)) l.

(* SETTINGS (no flags, stream 0) carrying exactly the announced entries, then WINDOW_UPDATE(0, maxWindow - 65535) *)
Lemma handshake_frames : cli_handshake_frames =
  Ok (uint24_to_bytes (len (entries cli_announced)) ++ [4%N; 0%N; 0%N; 0%N; 0%N; 0%N] ++ entries cli_announced
      ++ [0%N; 0%N; 4%N; 8%N; 0%N; 0%N; 0%N; 0%N; 0%N] ++ uint32_to_bytes (Z.to_N (cli_max_window - 65535))).
Proof. vm_compute. reflexivity. Qed.

(* advertised = enforced: ENABLE_PUSH = 0 is announced; the announced INITIAL_WINDOW_SIZE is the window the client model
   keeps for every stream and the connection (cl_maxWindow), and 65535 + the handshake's WINDOW_UPDATE is that too *)
Lemma announced_values :
  cli_announced = [(c_EnablePush, 0%N); (c_MaxConcurrentStreams, c_defaultConcurrentStreams); (c_MaxWindowSize, Z.to_N cl_maxWindow)] /\
  65535 + (cli_max_window - 65535) = cl_maxWindow /\ 0 < cli_max_window - 65535 <= 2147483647.
Proof. vm_compute. repeat split; try reflexivity; discriminate. Qed.

(* the preface is the one RFC 7540 3.5 prescribes: "PRI * HTTP/2.0\r\n\r\nSM\r\n\r\n" *)
Lemma preface_rfc : cli_preface =
  [80; 82; 73; 32; 42; 32; 72; 84; 84; 80; 47; 50; 46; 48; 13; 10; 13; 10; 83; 77; 13; 10; 13; 10]%N.
Proof. vm_compute. reflexivity. Qed.
