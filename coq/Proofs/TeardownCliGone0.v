(* Proofs/TeardownCliGone0.v -- blocking-structure model (Impl/Teardown.v), client, S3 with the peer gone (0): vocabulary.
   Statements: Props/Teardown.v; overview: Proofs/TeardownProofs.v. *)
From Coq Require Import Arith Lia Bool List.
From RecordUpdate Require Import RecordSet.
Import RecordSetNotations.
Import ListNotations.
From H2V Require Import Impl.Teardown Proofs.TeardownGen Proofs.TeardownCliInv Proofs.TeardownCliInv1 Proofs.TeardownCliInv2 Proofs.TeardownCliInv3 Proofs.TeardownCliInv4 Proofs.TeardownCliLocks Proofs.TeardownCliInv5 Proofs.TeardownCliLive1.

Module CliGd.
Import Cli CliP CliP2 CliL CliL2.
Definition rlr (p : rl_pc) : nat :=
  match p with
  | RDone => 0 | RClose CWrite => 1 | RClose CLock => 2 | RClose CDone => 3 | RClose CCas => 4
  | RExit => 5 | RRead => 6 | RIter false => 7 | ROut => 8 | RPost k _ => 9 + 2 * k
  | RPostW k _ => 10 + 2 * k | RHold _ => 14 | RAcq => 15 | RIter true => 16
  end.
Definition rm (s : state) : nat := (if rdy s then 20 else 0) + rlr (rl s).
Definition OB (s : state) : Prop :=
  wl s = LT0 \/ wl s = LClose CCas \/ rl s = RExit \/ rl s = RClose CCas.
Definition PG (s : state) : Prop := gone s = true /\ closed s = false.
Definition QG (n : nat) (s : state) : Prop :=
  closed s = true \/ OB s \/ (PG s /\ rm s < n).
Definition rl_free (s : state) : Prop :=
  match rl s with RRead | RIter _ | RHold _ | RPost _ _ => True | _ => False end.
Definition rl_outp (s : state) : Prop := rl s = ROut \/ exists k st, rl s = RPostW k st.

Section D.
Variable cap : nat.
Definition P3 (s : state) : Prop :=
  (closed s = false /\ cap <= outq s /\ outq s <= cap) /\ (wl s = LSel \/ wl_iter s).
Definition Q3 (s : state) : Prop := closed s = true \/ wl_t s \/ outq s < cap.
End D.
End CliGd.
