(* Proofs/SrvRfcRl.v - C08: the read loop's half of a lockstep pair: the frames it answers
   itself (sequencing errors, stream-0 frames, PING), and what it forwards. *)
From H2V Require Import Base.Bytes Base.MachineInt Base.Result Gen.GenConsts Impl.ServerConn.
From H2V Require Import Proofs.SrvBase Proofs.SrvRfcDefs Proofs.SrvRfcSpec Proofs.SrvRfcModel Proofs.SrvRfcSim Proofs.SrvRfcEff Proofs.SrvRfcStep Proofs.SrvRfcKit.
From Coq Require Import ZArith Lia ZifyN ZifyNat ZifyBool.
Local Open Scope N_scope.

Section Rl.
Variable hstate : Type.
Variable dec_field : hstate -> N -> bytes -> dec_res hstate.
Variable enc_field : hstate -> bytes -> bytes -> bool -> bytes * hstate.
Variable enc_set_max : hstate -> N -> hstate.
Variable cfg : config.
Notation sconn := (sconn hstate).
Notation step := (step dec_field enc_field enc_set_max cfg).
Notation feed := (feed hstate dec_field enc_field enc_set_max cfg).
Notation G := (G hstate).
Notation view := (view hstate).
Notation tbl := (tbl hstate).
Notation Sim := (Sim hstate).
Implicit Types c : sconn.

Lemma dead_spec_next_conn s i r : conn_err r = true -> RS.dead (RS.spec_next s i r) = true.
Proof.
  intro H. destruct i as [f| |code|].
  - rewrite dead_spec_next, H. apply orb_true_r.
  - destruct r; try discriminate; reflexivity.
  - destruct r; try discriminate; reflexivity.
  - destruct r; try discriminate; reflexivity.
Qed.

Lemma dead_after_outs s1 d : RS.dead s1 = true -> RS.dead (after_outs s1 d) = true.
Proof. intro H. unfold after_outs. rewrite dead_fold_sent, H. reflexivity. Qed.

(* the read loop answers with GOAWAY(code) and leaves; the stream loop follows *)
Lemma G_rl_goaway c s ph i code why :
  sc_sl_done c = false -> sc_wl_dead c = false ->
  feed c (IIn i) = note (upd_done (rl_exit (write_goaway c 0 code) why) true true) (OExit 1 1) ->
  RS.allowed s (abs_input i) (RS.ConnErr code) = true \/ known_deviation hstate c s i = true ->
  G c s ph i (feed c (IIn i)).
Proof.
  intros Hsl Hwl E Ha. rewrite E.
  exists [OExit 1 1; OExit 0 why; OGoAway (sc_lastID c) code]. split.
  { cbn [sc_out note upd_out upd_done]. sc_cbn. rewrite sc_out_rl_exit, sc_out_write_goaway, Hwl, Hsl. reflexivity. }
  cbn [filter noisy strip_late rev app classify first_some is_goaway]. cbn [resolve].
  split; [exact Ha|]. split.
  - cbn [sc_sl_done note upd_out upd_done]. apply dead_after_outs, dead_spec_next_conn. reflexivity.
  - intros sid rq [H|[H|[H|[]]]]; discriminate.
Qed.

(* the read loop leaves without GOAWAY *)
Lemma G_rl_close c s ph i why :
  sc_sl_done c = false ->
  feed c (IIn i) = note (upd_done (rl_exit c why) true true) (OExit 1 1) ->
  RS.allowed s (abs_input i) RS.ConnClose = true \/ known_deviation hstate c s i = true ->
  G c s ph i (feed c (IIn i)).
Proof.
  intros Hsl E Ha. rewrite E.
  exists [OExit 1 1; OExit 0 why]. split; [reflexivity|].
  cbn [filter noisy strip_late rev app classify first_some is_goaway existsb is_exit orb]. cbn [resolve].
  split; [exact Ha|]. split.
  - cbn [sc_sl_done note upd_out upd_done]. apply dead_after_outs, dead_spec_next_conn. reflexivity.
  - intros sid rq [H|[H|[]]]; discriminate.
Qed.

(* computing feed when the read loop exits *)
Lemma feed_rl_exit c i c0 why : sc_sl_done c = false -> sc_rl_done c = false -> sc_readerQ c = [] ->
  rl_step cfg c i = rl_exit c0 why -> sc_sl_done c0 = false -> sc_readerQ c0 = [] ->
  feed c (IIn i) = note (upd_done (rl_exit c0 why) true true) (OExit 1 1).
Proof.
  intros A B C E A0 C0. unfold feed. rewrite step_EvRL, B, E. apply sl_after_exit; sc_rw; auto.
Qed.

Lemma upd_expectCont_same c : upd_expectCont c (sc_expectCont c) = c.
Proof. destruct c; reflexivity. Qed.

Lemma upd_expectCont_id c n : sc_expectCont c = n -> upd_expectCont c n = c.
Proof. intros <-. apply upd_expectCont_same. Qed.

Lemma block_of_ec c s : R_block hstate c s -> RS.block s = if sc_expectCont c =? 0 then None else Some (sc_expectCont c).
Proof. exact (fun H => H). Qed.

(* ph_next on a frame of stream 0 does not touch odd ids *)
Lemma ph_next_odd ph fr id : N.odd id = true -> N.odd (sf_sid fr) = false -> ph_next ph (IIn (RFrame fr)) id = ph id.
Proof.
  intros O E. cbn [ph_next]. destruct (id =? sf_sid fr) eqn:X; [|reflexivity].
  apply N.eqb_eq in X. subst id. congruence.
Qed.

(* a frame of stream 0 that the read loop deals with by itself, without any error *)
Lemma G_rl_static c s ph fr c' d :
  Sim c s ph -> sc_sl_done c = false -> sc_expectCont c = 0 ->
  feed c (IIn (RFrame fr)) = c' -> static hstate c c' -> sc_sl_done c' = false ->
  sc_expectCont c' = 0 -> sc_discardID c' = sc_discardID c -> sc_closing c' = sc_closing c ->
  sc_out c' = d ++ sc_out c -> filter noisy d = [] -> (forall sid rq, ~ In (ODispatch sid rq) d) ->
  sf_sid fr = 0 -> (sf_kind fr = KSettings \/ sf_kind fr = KPing) ->
  G c s ph (RFrame fr) (feed c (IIn (RFrame fr))).
Proof.
  intros HS Hsl Hec E St Hsl' Hec' Hdi Hcl Ho Hq Hnd Hz Hk. rewrite E. exists d. split; [exact Ho|].
  rewrite Hq. cbn [rev classify first_some existsb input_sid]. rewrite Hz. cbn [N.eqb].
  assert (B : RS.block s = None) by (rewrite (block_of_ec c s (S_blk _ _ _ _ HS)), Hec; reflexivity).
  assert (MP : RS.may_process s (abs_input (RFrame fr)) = true).
  { unfold RS.may_process, RS.verdicts, abs_input, abs_frame. cbn [RS.f_kind RS.f_sid]. rewrite B, Hz.
    destruct Hk as [-> | ->]; reflexivity. }
  cbn [resolve]. rewrite MP.
  split.
  { left. unfold RS.allowed. fold (RS.may_process s (abs_input (RFrame fr))). rewrite MP. reflexivity. }
  assert (S1 : RS.spec_next s (abs_input (RFrame fr)) RS.Process = s).
  { cbn [abs_input]. rewrite spec_next_frame. cbn [conn_err]. unfold abs_frame at 1. cbn [RS.f_sid]. rewrite Hz. cbn [N.eqb orb].
    unfold pre_next, RS.in_sequence, abs_frame. cbn [RS.f_kind]. destruct Hk as [-> | ->]; reflexivity. }
  rewrite S1. rewrite Hsl'. unfold after_outs. rewrite Hq. cbn [rev flat_map fold_left].
  split; [|intros sid rq H; exfalso; exact (Hnd sid rq H)].
  pose proof (S_aux _ _ _ _ HS) as [AT AH].
  apply (live_tuple_static hstate c c' s s ph).
  - exact HS.
  - exact St.
  - (* AuxH *)
    pose proof St as (A1 & _). destruct AH as [F1 F2 F3 F4]. constructor.
    + intros st H. rewrite A1 in H. rewrite Hec', <- Hec. apply F1, H.
    + intros st H. exfalso. apply H. exact Hec'.
    + intros H. exfalso. apply H. exact Hec'.
    + rewrite Hdi. intro H. rewrite (tbl_static hstate c c' _ St). destruct St as (_ & _ & _ & _ & A5 & _). rewrite A5. apply F4, H.
  - reflexivity.
  - reflexivity.
  - unfold R_block. rewrite Hec'. exact B.
  - rewrite Hcl. exact (S_ga _ _ _ _ HS).
  - intros H. exfalso. apply H. exact Hec'.
  - intros st H. apply ph_next_odd; [apply (A_ids _ _ AT st H) | rewrite Hz; reflexivity].
  - intros Hc id O L. rewrite ph_next_odd; [|exact O | rewrite Hz; reflexivity].
    apply (S_new _ _ _ _ HS); [congruence | exact O | exact L].
Qed.

(* what the read loop lets through *)
Definition seq_ok c (fr : sframe) (ec' : N) : Prop :=
  (sc_expectCont c = 0 /\ sf_kind fr <> KCont /\
   ec' = if fkind_eqb (sf_kind fr) KHeaders && negb (flag_has (sf_flags fr) FL_EH) then sf_sid fr else 0) \/
  (sc_expectCont c <> 0 /\ sf_kind fr = KCont /\ sf_sid fr = sc_expectCont c /\
   ec' = if flag_has (sf_flags fr) FL_EH then 0 else sf_sid fr).

Definition forwarded c (fr : sframe) (c' : sconn) : Prop :=
  exists ec', seq_ok c fr ec' /\ c' = fst (sl_frame dec_field enc_set_max cfg (upd_expectCont c ec') fr) /\
  ((N.odd (sf_sid fr) = true /\ match sf_kind fr with KPing | KPush => False | _ => True end) \/
   (sf_sid fr = 0 /\ ((sf_kind fr = KSettings /\ flag_has (sf_flags fr) FL_ES = false) \/
                       (sf_kind fr = KWinUpd /\ sf_inc fr <> 0)))).

Lemma fkind_eqb_eq a b : fkind_eqb a b = true <-> a = b.
Proof. destruct a, b; cbn; split; intro H; try reflexivity; try discriminate. Qed.
Lemma fkind_eqb_neq a b : fkind_eqb a b = false <-> a <> b.
Proof. destruct a, b; cbn; split; intro H; try reflexivity; try discriminate; try congruence. Qed.

Lemma land1_even n : (N.land n 1 =? 0) = N.even n.
Proof. destruct n as [|[p|p|]]; reflexivity. Qed.

Lemma rl_frame c s ph fr : Sim c s ph -> sc_sl_done c = false ->
  G c s ph (RFrame fr) (feed c (IIn (RFrame fr))) \/ forwarded c fr (feed c (IIn (RFrame fr))).
Proof.
  intros HS Hsl. pose proof (S_aux _ _ _ _ HS) as [AT AH].
  pose proof (A_rl _ _ AT) as Hrl. pose proof (A_wl _ _ AT) as Hwl. pose proof (A_q _ _ AT) as Hq.
  pose proof (block_of_ec c s (S_blk _ _ _ _ HS)) as B.
  (* the read loop leaving with GOAWAY(PROTOCOL_ERROR) *)
  assert (EXIT : forall c1, sc_out c1 = sc_out c -> sc_sl_done c1 = false -> sc_wl_dead c1 = false -> sc_readerQ c1 = [] ->
            sc_lastID c1 = sc_lastID c ->
            rl_step cfg c (RFrame fr) = rl_exit (write_goaway c1 0 c_ProtocolError) 1 ->
            (RS.allowed s (abs_input (RFrame fr)) (RS.ConnErr c_ProtocolError) = true \/ known_deviation hstate c s (RFrame fr) = true) ->
            G c s ph (RFrame fr) (feed c (IIn (RFrame fr)))).
  { intros c1 Ho A1 A2 A3 A4 E Ha.
    assert (F : feed c (IIn (RFrame fr)) = note (upd_done (rl_exit (write_goaway c1 0 c_ProtocolError) 1) true true) (OExit 1 1)).
    { eapply feed_rl_exit; eauto; sc_rw; assumption. }
    rewrite F. exists [OExit 1 1; OExit 0 1; OGoAway (sc_lastID c) c_ProtocolError]. split.
    { cbn [sc_out note upd_out upd_done]. sc_cbn. rewrite sc_out_rl_exit, sc_out_write_goaway, A2, A1, Ho, A4. reflexivity. }
    cbn [filter noisy strip_late rev app classify first_some is_goaway]. cbn [resolve].
    split; [exact Ha|]. split.
    - cbn [sc_sl_done note upd_out upd_done]. apply dead_after_outs, dead_spec_next_conn. reflexivity.
    - intros sid rq [H|[H|[H|[]]]]; discriminate. }
  assert (FWD : forall ec', seq_ok c fr ec' ->
            rl_step cfg c (RFrame fr) =
              (let c1 := upd_expectCont c ec' in
               if negb (sf_sid fr =? 0) then
                 match check_frame_with_stream fr with
                 | Some e => rl_exit (fst (write_error c1 None e)) 1
                 | None => forward c1 fr
                 end
               else
                 match sf_kind fr with
                 | KSettings => if negb (flag_has (sf_flags fr) FL_ES) then forward c1 fr else c1
                 | KWinUpd => if sf_inc fr =? 0 then rl_exit (write_goaway c1 0 c_ProtocolError) 1 else forward c1 fr
                 | KPing => if negb (flag_has (sf_flags fr) FL_ES) then emit c1 (OPingAck (sf_payload fr)) else c1
                 | KGoAway => rl_exit c1 (if sf_code fr =? c_NoError then 0 else 4)
                 | _ => rl_exit (write_goaway c1 0 c_ProtocolError) 1
                 end)).
  { intros ec' [(E0 & K & ->)|(E0 & K & Sd & ->)]; unfold rl_step.
    - rewrite E0. cbn [N.eqb negb]. apply fkind_eqb_neq in K. rewrite K.
      destruct (fkind_eqb (sf_kind fr) KHeaders && negb (flag_has (sf_flags fr) FL_EH))%bool; [reflexivity|].
      rewrite (upd_expectCont_id c 0 E0). reflexivity.
    - replace (sc_expectCont c =? 0) with false by lia. cbn [negb]. rewrite K. cbn [fkind_eqb negb orb].
      replace (sf_sid fr =? sc_expectCont c) with true by lia. cbn [negb].
      destruct (flag_has (sf_flags fr) FL_EH); [reflexivity|].
      rewrite (upd_expectCont_id c (sf_sid fr) (eq_sym Sd)). reflexivity. }
  (* what happens once the sequencing check is passed *)
  assert (REST : forall ec', seq_ok c fr ec' ->
            G c s ph (RFrame fr) (feed c (IIn (RFrame fr))) \/ forwarded c fr (feed c (IIn (RFrame fr)))).
  { intros ec' SQ. pose proof (FWD ec' SQ) as E. cbv zeta in E.
    set (c1 := upd_expectCont c ec') in *.
    assert (C1sl : sc_sl_done c1 = false) by exact Hsl.
    assert (C1q : sc_readerQ c1 = []) by exact Hq.
    assert (FW : rl_step cfg c (RFrame fr) = forward c1 fr -> feed c (IIn (RFrame fr)) = fst (sl_frame dec_field enc_set_max cfg c1 fr)).
    { intro E'. unfold feed. rewrite step_EvRL, Hrl, E'. apply sl_after_forward; assumption. }
    (* block s as seq_ok tells *)
    assert (BK : (sf_kind fr <> KCont /\ RS.block s = None) \/ (sf_kind fr = KCont /\ RS.block s = Some (sf_sid fr) /\ N.odd (sf_sid fr) = true)).
    { destruct SQ as [(E0 & K & _)|(E0 & K & Sd & _)].
      - left. split; [exact K|]. rewrite B, E0. reflexivity.
      - right. split; [exact K|]. split; [rewrite B; replace (sc_expectCont c =? 0) with false by lia; congruence|].
        rewrite Sd. apply (A_ec_odd _ _ AH E0). }
    destruct (sf_sid fr =? 0) eqn:Z; cbn [negb] in E.
    - (* stream 0 *)
      apply N.eqb_eq in Z.
      destruct BK as [[K BN]|[K [BS O]]]; [|rewrite Z in O; discriminate].
      assert (V : RS.verdicts s (RS.Frame (abs_frame fr)) = RS.on_connection (abs_frame fr)) by (apply verdicts_conn; assumption).
      assert (EC0 : sc_expectCont c = 0 /\ ec' = 0).
      { destruct SQ as [(E0 & _ & ->)|(E0 & K' & _)]; [|congruence]. split; [exact E0|].
        destruct (_ && _)%bool; [exact Z | reflexivity]. }
      destruct EC0 as [EC0 EC0']. assert (C1c : c1 = c) by (unfold c1; rewrite EC0'; apply upd_expectCont_id, EC0).
      destruct (sf_kind fr) eqn:KK; try congruence;
        try (left; apply (EXIT c1); try assumption; try reflexivity; try exact E;
             left; apply allowed_table; cbn [abs_input]; rewrite V; unfold RS.on_connection, abs_frame; cbn [RS.f_kind]; rewrite KK; reflexivity).
      + (* SETTINGS *)
        destruct (flag_has (sf_flags fr) FL_ES) eqn:ACK; cbn [negb] in E.
        * left. rewrite C1c in E.
          assert (F : feed c (IIn (RFrame fr)) = c) by (unfold feed; rewrite step_EvRL, Hrl, E; apply sl_after_stay; assumption).
          apply (G_rl_static c s ph fr c []); rewrite ?F; auto using static_refl; try reflexivity;
            try (rewrite KK; auto); try (intros sid rq []).
        * right. exists ec'. split; [exact SQ|]. split; [apply FW, E|]. right. split; [exact Z|]. left. split; [exact KK | exact ACK].
      + (* PING *)
        left. rewrite C1c in E.
        destruct (flag_has (sf_flags fr) FL_ES) eqn:ACK; cbn [negb] in E.
        * assert (F : feed c (IIn (RFrame fr)) = c) by (unfold feed; rewrite step_EvRL, Hrl, E; apply sl_after_stay; assumption).
          apply (G_rl_static c s ph fr c []); rewrite ?F; auto using static_refl; try reflexivity;
            try (rewrite KK; auto); try (intros sid rq []).
        * assert (F : feed c (IIn (RFrame fr)) = emit c (OPingAck (sf_payload fr))).
          { unfold feed. rewrite step_EvRL, Hrl, E. apply sl_after_stay; sc_rw; assumption. }
          apply (G_rl_static c s ph fr (emit c (OPingAck (sf_payload fr))) [OPingAck (sf_payload fr)]); rewrite ?F; sc_rw; auto;
            try reflexivity; try (rewrite KK; auto).
          -- repeat split; sc_rw; reflexivity.
          -- rewrite sc_out_emit, Hwl, Hsl. reflexivity.
          -- intros sid rq [H|[]]; discriminate.
      + (* GOAWAY from the peer: the read loop ends *)
        left. rewrite C1c in E.
        assert (F : feed c (IIn (RFrame fr)) = note (upd_done (rl_exit c (if sf_code fr =? c_NoError then 0 else 4)) true true) (OExit 1 1)).
        { eapply feed_rl_exit; eauto. }
        apply (G_rl_close c s ph (RFrame fr) _ Hsl F). left. apply allowed_table. cbn [abs_input]. rewrite V.
        unfold RS.on_connection, abs_frame. cbn [RS.f_kind]. rewrite KK. reflexivity.
      + (* WINDOW_UPDATE *)
        destruct (sf_inc fr =? 0) eqn:I0.
        * left. apply (EXIT c1); try assumption; try reflexivity; try exact E.
          left. apply allowed_table. cbn [abs_input]. rewrite V. unfold RS.on_connection, abs_frame. cbn [RS.f_kind RS.f_inc]. rewrite KK, I0. reflexivity.
        * right. exists ec'. split; [exact SQ|]. split; [apply FW, E|]. right. split; [exact Z|]. right. split; [exact KK | lia].
    - (* a stream *)
      assert (Zn : sf_sid fr <> 0) by lia.
      unfold check_frame_with_stream in E.
      destruct (N.land (sf_sid fr) 1 =? 0) eqn:EV.
      + (* even id *)
        assert (Ev : N.even (sf_sid fr) = true) by (rewrite <- land1_even; exact EV).
        left. apply (EXIT c1); try assumption; try reflexivity; try exact E.
        destruct BK as [[K BN]|[K [BS O]]]; [|rewrite <- N.negb_odd, O in Ev; discriminate].
        destruct (sf_kind fr) eqn:KK; try congruence;
          try (left; apply allowed_table; cbn [abs_input]; rewrite verdicts_stream_bad by (try assumption; rewrite KK; exact I); reflexivity);
          try (left; apply allowed_table; cbn [abs_input]; rewrite verdicts_stream by (try assumption; rewrite KK; exact I);
               unfold RS.on_stream, RS.by_state, abs_frame; cbn [RS.f_kind RS.f_sid]; rewrite (st_of_even s _ Ev), KK, ?Ev; reflexivity).
        right. unfold known_deviation. rewrite KK, Ev. replace (sf_sid fr =? 0) with false by lia. reflexivity.
      + assert (Od : N.odd (sf_sid fr) = true) by (rewrite <- N.negb_even, <- land1_even, EV; reflexivity).
        destruct BK as [[K BN]|[K [BS O]]].
        * revert E. destruct (sf_kind fr) eqn:KK; intro E; try congruence;
            try (right; exists ec'; split; [exact SQ|]; split; [apply FW, E|]; left; split; [exact Od | rewrite KK; exact I]);
            (left; apply (EXIT c1); try assumption; try reflexivity; try exact E;
             left; apply allowed_table; cbn [abs_input]; rewrite verdicts_stream_bad by (try assumption; rewrite KK; exact I); reflexivity).
        * rewrite K in E. right. exists ec'. split; [exact SQ|]. split; [apply FW, E|]. left. split; [exact Od|]. rewrite K. exact I. }
  destruct (sc_expectCont c =? 0) eqn:E0.
  - apply N.eqb_eq in E0. destruct (fkind_eqb (sf_kind fr) KCont) eqn:KC.
    + left. apply (EXIT c); try assumption; try reflexivity.
      * unfold rl_step. rewrite E0. cbn [N.eqb negb]. rewrite KC. reflexivity.
      * left. apply allowed_table. cbn [abs_input]. rewrite verdicts_cont_noblock; [reflexivity | rewrite B, ?E0; reflexivity | apply fkind_eqb_eq, KC].
    + eapply REST. left. split; [exact E0|]. split; [apply fkind_eqb_neq, KC | reflexivity].
  - apply N.eqb_neq in E0. destruct (negb (fkind_eqb (sf_kind fr) KCont) || negb (sf_sid fr =? sc_expectCont c))%bool eqn:X.
    + left. apply (EXIT c); try assumption; try reflexivity.
      * unfold rl_step. replace (sc_expectCont c =? 0) with false by lia. cbn [negb]. rewrite X. reflexivity.
      * left. apply allowed_table. cbn [abs_input]. rewrite (verdicts_block_other s fr (sc_expectCont c)); [reflexivity | |].
        -- rewrite B. try replace (sc_expectCont c =? 0) with false by lia. reflexivity.
        -- apply orb_true_iff in X. destruct X as [X|X]; [left | right].
           ++ apply fkind_eqb_neq. destruct (fkind_eqb _ _); [discriminate | reflexivity].
           ++ destruct (sf_sid fr =? sc_expectCont c) eqn:Y; [discriminate | lia].
    + apply orb_false_iff in X. destruct X as [X1 X2].
      eapply REST. right. split; [exact E0|]. split; [apply fkind_eqb_eq; destruct (fkind_eqb _ _); [reflexivity | discriminate]|].
      split; [destruct (sf_sid fr =? sc_expectCont c) eqn:Y; [lia | discriminate] | reflexivity].
Qed.

End Rl.
