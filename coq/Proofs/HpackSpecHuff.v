(* C03: the executable Huffman decoder of the specification (Spec/Rfc7541.v, spec_huff_decode)
   decides exactly spec_valid, and agrees with the model of HuffmanDecode.
   Depends only on the specification and the C15 proofs. *)
From Coq Require Import List NArith Bool Lia.
From H2V Require Import Base.Bytes Base.MachineInt Base.Result Gen.GenHuffman
  Spec.XNetTables Spec.Rfc7541Huffman Spec.Rfc7541 Impl.Huffman
  Proofs.HuffmanBits Proofs.HuffmanTable Proofs.HuffmanEncode Proofs.HuffmanDecode.
Import ListNotations.
Local Open Scope N_scope.
Local Opaque huffman_root.

Lemma strip_prefix_some : forall p l r, strip_prefix p l = Some r -> l = p ++ r.
Proof.
  induction p as [|x p IH]; intros l r H.
  - simpl in H. injection H as <-. reflexivity.
  - destruct l as [|y l]; simpl in H; [discriminate|].
    destruct (Bool.eqb x y) eqn:E; [|discriminate].
    apply Bool.eqb_prop in E. subst y. simpl. f_equal. apply IH. exact H.
Qed.

Lemma strip_prefix_none : forall p l, strip_prefix p l = None -> ~ is_prefix p l.
Proof.
  induction p as [|x p IH]; intros l H [r Hr].
  - simpl in H. discriminate.
  - destruct l as [|y l]; simpl in Hr; [discriminate|].
    injection Hr as -> ->. simpl in H. rewrite Bool.eqb_reflx in H.
    apply (IH _ H). exists r. reflexivity.
Qed.

Lemma first_symbol_some : forall tbl bits sym rest,
  first_symbol tbl bits = Some (sym, rest) -> exists w, In (sym, w) tbl /\ bits = w ++ rest.
Proof.
  induction tbl as [|[s w] tbl IH]; intros bits sym rest H; simpl in H; [discriminate|].
  destruct (strip_prefix w bits) as [r|] eqn:E.
  - injection H as -> ->. exists w. split; [left; reflexivity | apply strip_prefix_some; exact E].
  - destruct (IH _ _ _ H) as [w' [Hin Hb]]. exists w'. split; [right; exact Hin | exact Hb].
Qed.

Lemma first_symbol_none : forall tbl bits,
  first_symbol tbl bits = None -> forall s w, In (s, w) tbl -> ~ is_prefix w bits.
Proof.
  induction tbl as [|[s0 w0] tbl IH]; intros bits H s w Hin; simpl in Hin; [contradiction|].
  simpl in H. destruct (strip_prefix w0 bits) as [r|] eqn:E; [discriminate|].
  destruct Hin as [Heq | Hin].
  - injection Heq as <- <-. apply strip_prefix_none. exact E.
  - eapply IH; eassumption.
Qed.

Lemma in_code_words_by_symbol s w : In (s, w) code_words_by_symbol -> s < 256 /\ w = code_bits s.
Proof.
  unfold code_words_by_symbol. rewrite in_map_iff. intros [i [Heq Hin]].
  injection Heq as <- <-. apply in_seq in Hin. split; [lia | reflexivity].
Qed.

Lemma code_words_by_symbol_in a : a < 256 -> In (a, code_bits a) code_words_by_symbol.
Proof.
  intros Ha. unfold code_words_by_symbol. rewrite in_map_iff. exists (N.to_nat a).
  rewrite N2Nat.id. split; [reflexivity|]. apply in_seq. lia.
Qed.

Definition lift_out (out : bytes) (r : option bytes) : option bytes :=
  match r with Some s => Some (rev out ++ s) | None => None end.

Lemma huff_dec_bits_parses : forall fuel bits out, (length bits < fuel)%nat ->
  parses bits out (lift_out out (huff_dec_bits fuel bits)).
Proof.
  induction fuel as [|fuel IH]; intros bits out Hlen; [lia|].
  cbn [huff_dec_bits].
  destruct (first_symbol code_words_by_symbol bits) as [[sym rest]|] eqn:E.
  - destruct (first_symbol_some _ _ _ _ E) as [w [Hin Hb]].
    destruct (in_code_words_by_symbol _ _ Hin) as [Hs ->]. subst bits.
    pose proof (code_bits_len_bounds sym Hs) as Hcl.
    rewrite app_length in Hlen.
    assert (Hr : (length rest < fuel)%nat) by lia.
    pose proof (IH rest (sym :: out) Hr) as HP.
    replace (lift_out out match huff_dec_bits fuel rest with Some s => Some (sym :: s) | None => None end)
      with (lift_out (sym :: out) (huff_dec_bits fuel rest)).
    + apply parses_step; assumption.
    + destruct (huff_dec_bits fuel rest) as [s|]; [|reflexivity].
      unfold lift_out. cbn [rev]. rewrite <- app_assoc. reflexivity.
  - replace (lift_out out (if (length bits <? 8)%nat && forallb (fun x : bool => x) bits then Some [] else None))
      with (finish bits out).
    + apply parses_done. intros a Ha Hp.
      apply (first_symbol_none _ _ E a (code_bits a)); [apply code_words_by_symbol_in; exact Ha | exact Hp].
    + unfold finish.
      replace (length bits <=? 7)%nat with (length bits <? 8)%nat.
      * destruct ((length bits <? 8)%nat && forallb (fun b : bool => b) bits); [|reflexivity].
        unfold lift_out. rewrite app_nil_r. reflexivity.
      * destruct (Nat.ltb_spec (length bits) 8), (Nat.leb_spec (length bits) 7); try reflexivity; lia.
Qed.

Lemma spec_huff_decode_parses b : parses (bytes_bits b) [] (spec_huff_decode b).
Proof.
  pose proof (huff_dec_bits_parses (S (length (bytes_bits b))) (bytes_bits b) [] (Nat.lt_succ_diag_r _)) as H.
  unfold spec_huff_decode. change (flat_map byte_bits b) with (bytes_bits b).
  destruct (huff_dec_bits (S (length (bytes_bits b))) (bytes_bits b)); exact H.
Qed.

(* a byte string whose bits are the code string of s and at most 7 ones is the encoding of s *)
Lemma valid_of_bits b s r : bytes_ok b = true -> bytes_ok s = true ->
  bytes_bits b = code_string s ++ ones r -> (r <= 7)%nat -> spec_valid b s.
Proof.
  intros Hb Hs HV Hr. split; [exact Hs|].
  rewrite spec_encode_packl. rewrite <- (pad_len_unique (length (code_string s)) r).
  - rewrite <- HV. apply packl_bytes_bits. exact Hb.
  - lia.
  - replace (length (code_string s) + r)%nat with (length (bytes_bits b))
      by (rewrite HV, app_length, ones_length; reflexivity).
    rewrite bytes_bits_length, Nat.mul_comm. apply Nat.mod_mul. lia.
Qed.

Theorem spec_huff_decode_encode : forall s, bytes_ok s = true -> spec_huff_decode (spec_encode s) = Some s.
Proof.
  intros s Hs. pose proof (spec_huff_decode_parses (spec_encode s)) as HP.
  rewrite spec_encode_bits in HP.
  destruct (pad_len_props (length (code_string s))) as [P1 _].
  apply parses_complete in HP; [|exact Hs|lia]. exact HP.
Qed.

Theorem spec_huff_decode_exact : forall b s, bytes_ok b = true ->
  (spec_huff_decode b = Some s <-> spec_valid b s).
Proof.
  intros b s Hb. split.
  - intros Hd. pose proof (spec_huff_decode_parses b) as HP. rewrite Hd in HP.
    destruct (parses_sound _ _ _ HP s eq_refl) as [t [r [E1 [E2 [E3 E4]]]]].
    simpl in E1. subst t. eapply valid_of_bits; eassumption.
  - intros [Hs <-]. apply spec_huff_decode_encode. exact Hs.
Qed.

(* the model of HuffmanDecode and the specification's decoder accept the same strings with the
   same result *)
Theorem spec_huff_agrees : forall b, bytes_ok b = true ->
  match huffman_decode b with Ok s => Some s | _ => None end = spec_huff_decode b.
Proof.
  intros b Hb. pose proof (decode_total b Hb) as Htot.
  destruct (huffman_decode b) as [s|e|w] eqn:E.
  - symmetry. apply spec_huff_decode_exact; [exact Hb|]. apply decode_exact; assumption.
  - destruct (spec_huff_decode b) as [s|] eqn:E2; [|reflexivity].
    apply spec_huff_decode_exact in E2; [|exact Hb]. apply decode_exact in E2; [|exact Hb].
    rewrite E in E2. discriminate.
  - simpl in Htot. discriminate.
Qed.

Lemma spec_huff_decode_ok b s : bytes_ok b = true -> spec_huff_decode b = Some s ->
  bytes_ok s = true /\ (5 * length s <= 8 * length b)%nat.
Proof.
  intros Hb Hd. pose proof (spec_huff_agrees b Hb) as HA. rewrite Hd in HA.
  destruct (huffman_decode b) as [s'|e|w] eqn:E; try discriminate.
  injection HA as ->. split.
  - apply decode_exact in E; [|exact Hb]. exact (proj1 E).
  - apply decode_output_bound; assumption.
Qed.
