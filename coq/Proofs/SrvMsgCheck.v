(* Proofs/SrvMsgCheck.v - C20: a computable check of the hypothesis "the decoder, run over these fragments, yields these
   fields" (frag_dec / block_dec / request_decodes), sound for any dec_field: it discharges the hypothesis for concrete
   blocks by computation (used by the examples). *)
From H2V Require Import Base.Bytes Base.MachineInt Base.Result Gen.GenConsts Impl.ServerConn Spec.Http2Messages
     Proofs.SrvBase Proofs.SrvMsgDefs.
From Coq Require Import ZArith Lia.
Local Open Scope N_scope.

Section Check.
Variable hstate : Type.
Variable dec_field : hstate -> N -> bytes -> dec_res hstate.

Fixpoint frag_run (fuel : nat) (eh : bool) (d : hstate) (n : N) (b : bytes) : option (list field * hstate * N * bytes) :=
  match fuel with
  | O => None
  | S fuel' =>
    match b with
    | [] => Some ([], d, n, [])
    | _ =>
      match dec_field d n b with
      | DNone _ d' => Some ([], d', n, [])
      | DShort _ d' => if eh then None else Some ([], d', n, b)
      | DField _ k v rest d1 =>
        if Nat.ltb (length rest) (length b) then
          match frag_run fuel' eh d1 (n + 1) rest with
          | Some (fs, d', n', carry) => Some ((k, v) :: fs, d', n', carry)
          | None => None
          end
        else None
      | _ => None
      end
    end
  end.

Lemma frag_run_sound fuel : forall eh d n b fs d' n' carry,
  frag_run fuel eh d n b = Some (fs, d', n', carry) -> frag_dec dec_field eh d n b fs d' n' carry.
Proof.
  induction fuel as [|fuel IH]; intros eh d n b fs d' n' carry; cbn [frag_run]; [discriminate|].
  destruct b as [|x b]; [intro H; inversion H; subst; constructor|].
  destruct (dec_field d n (x :: b)) as [k v rest d1|d1|d1|d1|] eqn:E; try discriminate.
  - destruct (Nat.ltb (length rest) (length (x :: b))) eqn:L; [|discriminate]. apply Nat.ltb_lt in L.
    destruct (frag_run fuel eh d1 (n + 1) rest) as [[[[fs1 d2] n2] c2]|] eqn:F; [|discriminate].
    intro H; inversion H; subst. eapply fd_field; [discriminate | exact E | exact L | apply IH; exact F].
  - intro H; inversion H; subst. apply fd_none; [discriminate | exact E].
  - destruct eh eqn:EH; [discriminate|]. intro H; inversion H; subst. apply fd_short; [discriminate | reflexivity | exact E].
Qed.

(* block_run_f d n prev frags: fields, final state, carries *)
Fixpoint block_run_f (d : hstate) (n : N) (prev : bytes) (frags : list bytes) : option (list field * hstate * list bytes) :=
  match frags with
  | [] => None
  | [frag] =>
    match frag_run (S (length (prev ++ frag))) true d n (prev ++ frag) with
    | Some (fs, d', _, []) => Some (fs, d', [])
    | _ => None
    end
  | frag :: rest =>
    match frag_run (S (length (prev ++ frag))) false d n (prev ++ frag) with
    | Some (fs1, d1, n1, carry) =>
      match block_run_f d1 n1 carry rest with
      | Some (fs2, d', carries) => Some (fs1 ++ fs2, d', carry :: carries)
      | None => None
      end
    | None => None
    end
  end.

Lemma block_run_f_sound : forall frags d n prev fs d' carries,
  block_run_f d n prev frags = Some (fs, d', carries) -> block_dec dec_field d n prev frags fs d' carries.
Proof.
  induction frags as [|frag rest IH]; intros d n prev fs d' carries; [discriminate|].
  destruct rest as [|frag2 rest2].
  - cbn [block_run_f].
    destruct (frag_run _ true d n (prev ++ frag)) as [[[[fs1 d1] n1] [|? ?]]|] eqn:F; try discriminate.
    intro H; inversion H; subst. eapply bd_last. apply (frag_run_sound _ _ _ _ _ _ _ _ _ F).
  - change (block_run_f d n prev (frag :: frag2 :: rest2)) with
      (match frag_run (S (length (prev ++ frag))) false d n (prev ++ frag) with
       | Some (fs1, d1, n1, carry) =>
         match block_run_f d1 n1 carry (frag2 :: rest2) with
         | Some (fs2, d', carries) => Some (fs1 ++ fs2, d', carry :: carries)
         | None => None
         end
       | None => None
       end).
    destruct (frag_run _ false d n (prev ++ frag)) as [[[[fs1 d1] n1] carry]|] eqn:F; [|discriminate].
    destruct (block_run_f d1 n1 carry (frag2 :: rest2)) as [[[fs2 d2] cs]|] eqn:B; [|discriminate].
    intro H; inversion H; subst. eapply bd_more; [discriminate | apply (frag_run_sound _ _ _ _ _ _ _ _ _ F) | apply IH; exact B].
Qed.

End Check.
