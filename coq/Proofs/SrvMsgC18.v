(* Proofs/SrvMsgC18.v - C18, server half: the tie between the frame parser's verdict on a SETTINGS frame and the
   read loop's reaction; the refutation of "no HEADERS frame larger than the peer's MAX_FRAME_SIZE"; examples. *)
From H2V Require Import Base.Bytes Base.MachineInt Base.Result Gen.GenConsts Spec.Rfc7540Frames
     Impl.Pools Impl.Frames Impl.FrameView Impl.Hpack Impl.ServerConn Impl.ServerInst Spec.Http2Messages
     Proofs.FramesC16 Proofs.SrvBase Proofs.SrvMsgDefs Proofs.SrvMsgStream Proofs.SrvMsgC20 Proofs.SrvMsgExamples
     Proofs.SrvMsgAck Proofs.SrvMsgSettings.
From Coq Require Import ZArith Lia String.
Local Open Scope N_scope.
Import ListNotations.

(* ---------- (b) the parser's error classes and the h2 codes they carry ---------- *)
(* Impl/Frames.v: E_settings_proto is NewGoAwayError(ProtocolError), E_settings_flow NewGoAwayError(FlowControlError) from
   Settings.Read, E_frame_size NewGoAwayError(FrameSizeError); the read loop sends the code of such an error in GOAWAY
   (errors.As(err, &h2err) && h2err.frameType == FrameGoAway) and ends *)
Definition class_code (e : N) : option N :=
  if e =? E_settings_proto then Some c_ProtocolError
  else if e =? E_settings_flow then Some c_FlowControlError
  else if e =? E_frame_size then Some c_FrameSizeError
  else None.

Definition rl_input_of_error (e : N) : rl_input :=
  if e =? E_unknown_type then RUnknownType
  else if e =? E_eof then RLEof
  else RBadFrame (class_code e).

(* a SETTINGS frame announcing a value RFC 7540 6.5.2 forbids: the parser refuses it with PROTOCOL_ERROR or
   FLOW_CONTROL_ERROR, and the read loop that gets this verdict sends GOAWAY with that code and ends *)
Theorem invalid_settings_goaway :
  forall f rest max, wf f -> settings_valid (f_body f) = false -> payload_len f <= effective_limit max -> bytes_ok rest = true ->
  exists e code,
    ro_res (read_frame_with_size max (spec_write f ++ rest)) = Err e /\
    rl_input_of_error e = RBadFrame (Some code) /\ (code = c_ProtocolError \/ code = c_FlowControlError) /\
    forall (hstate : Type) dec_field enc_field enc_set_max cfg (c : sconn hstate),
      sc_rl_done c = false -> sc_wl_dead c = false -> sc_sl_done c = false ->
      let c' := step dec_field enc_field enc_set_max cfg c (EvRL (rl_input_of_error e)) in
      sc_out c' = OExit 0 1 :: OGoAway (sc_lastID c) code :: sc_out c /\ sc_rl_done c' = true /\ sc_closing c' = true /\
      sc_readerQ c' = sc_readerQ c.
Proof.
  intros f rest max W V L B.
  destruct (read_written_bad_settings f rest max W V L B) as [(e & E & K) _].
  assert (X : exists code, rl_input_of_error e = RBadFrame (Some code) /\ (code = c_ProtocolError \/ code = c_FlowControlError)).
  { destruct K as [-> | ->]; [exists c_ProtocolError | exists c_FlowControlError]; split; auto. }
  destruct X as (code & RI & CK). exists e, code. repeat split; try assumption.
  all: intros; rewrite RI;
    destruct (bad_frame_goaway hstate dec_field enc_field enc_set_max cfg c code H) as (A1 & A2 & A3 & A4);
    rewrite ?H0, ?H1 in A4; assumption.
Qed.

(* ---------- (c) "no HEADERS frame larger than the peer's MAX_FRAME_SIZE": false ---------- *)
(* the peer of these runs never announces a MAX_FRAME_SIZE, so its limit is the initial 16384 (RFC 7540 6.5.2) *)
Definition headers_fit_statement : Prop :=
  forall cfg evs sid es blk, In (OHeaders sid es blk) (srv_trace (srv_run cfg evs)) -> len blk <= 16384.

Definition big_resp : response := mkResp 200 [(octets "x-big", repeat 97 40000)] (BBuffered []).
Definition evs_big : list event := lockstep (req_frames 1 [blk fs2] [] None) ++ [EvDone 1 big_resp].

Definition hdr_lens (l : list outev) : list (N * N) :=
  flat_map (fun o => match o with OHeaders s _ b => [(s, len b)] | _ => [] end) l.

Lemma hdr_lens_In l s n : In (s, n) (hdr_lens l) -> exists es b, In (OHeaders s es b) l /\ len b = n.
Proof.
  unfold hdr_lens. intro H. apply in_flat_map in H. destruct H as (o & Io & H).
  destruct o; cbn [In] in H; try contradiction. destruct H as [H|[]]. inversion H; subst. eauto.
Qed.

Example big_headers_one_frame : hdr_lens (srv_trace (srv_run cfgE evs_big)) = [(1, 25011)].
Proof. vm_compute. reflexivity. Qed.

Theorem headers_frame_size_refuted : ~ headers_fit_statement.
Proof.
  intro H. destruct (hdr_lens_In (srv_trace (srv_run cfgE evs_big)) 1 25011) as (es & b & I & L).
  - rewrite big_headers_one_frame. left. reflexivity.
  - specialize (H cfgE evs_big 1 es b I). rewrite L in H. vm_compute in H. apply H. reflexivity.
Qed.

(* ---------- examples ---------- *)
Definition fSettings (ack hastable : bool) (table : N) (haswin : bool) (win : N) : sframe :=
  mkSFrame KSettings (if ack then 1 else 0) 0 0 [] 0 0 0 hastable table haswin win.

(* two SETTINGS frames read before the stream loop looks at the first one, an ACK of ours in between (ignored):
   two acknowledgements, in the steps that take the frames, table size then initial window applied *)
Definition evs_set : list event :=
  [EvRL (RFrame (fSettings false true 100 false 0)); EvRL (RFrame (fSettings true false 0 false 0));
   EvRL (RFrame (fSettings false false 0 true 1000)); EvSL; EvSL].

Example ex_settings_acks :
  srv_trace (srv_run cfgE evs_set) = [OSettingsAck; OSettingsAck] /\
  h_max_settings (sc_enc (srv_run cfgE evs_set)) = 100 /\ sc_initWin (srv_run cfgE evs_set) = 1000%Z /\
  forwarded srv_dec_field srv_enc_field set_max_table_size cfgE c_init evs_set =
    [fSettings false true 100 false 0; fSettings false false 0 true 1000] /\
  taken srv_dec_field srv_enc_field set_max_table_size cfgE c_init evs_set =
    [fSettings false true 100 false 0; fSettings false false 0 true 1000] /\
  applied srv_dec_field srv_enc_field set_max_table_size cfgE c_init evs_set = 2%nat.
Proof. repeat split; vm_compute; reflexivity. Qed.

(* a SETTINGS frame still in the queue is not acknowledged yet *)
Example ex_settings_pending :
  let evs := [EvRL (RFrame (fSettings false true 100 false 0)); EvRL (RFrame (fSettings false false 0 true 1000)); EvSL] in
  srv_trace (srv_run cfgE evs) = [OSettingsAck] /\
  sc_readerQ (srv_run cfgE evs) = [fSettings false false 0 true 1000].
Proof. split; vm_compute; reflexivity. Qed.

(* a response is encoded after the new table size is in force: HEADER_TABLE_SIZE=0 is applied to the encoder in the
   acknowledging step *)
Example ex_table_size_before_headers :
  let evs := lockstep (req_frames 1 [blk fs2] [] None) ++
             [EvRL (RFrame (fSettings false true 0 false 0)); EvSL; EvDone 1 (mkResp 200 [] (BBuffered []))] in
  map (fun o => match o with OHeaders s e _ => OHeaders s e [] | ODispatch s _ => ODispatch s empty_req | o => o end)
      (srv_trace (srv_run cfgE evs)) =
  [ODispatch 1 empty_req; OSettingsAck; OHeaders 1 true []; ORelease 1 true] /\
  h_max_settings (sc_enc (srv_run cfgE evs)) = 0.
Proof. split; vm_compute; reflexivity. Qed.

(* the parser's verdict PROTOCOL_ERROR at the read loop: GOAWAY(last stream, PROTOCOL_ERROR), then the loop ends *)
Example ex_bad_settings_goaway :
  srv_trace (srv_run cfgE (lockstep (req_frames 1 [blk fs2] [] None) ++ [EvRL (rl_input_of_error E_settings_proto)])) =
  [ODispatch 1 (the_request fs2 [] []); OGoAway 1 c_ProtocolError; OExit 0 1].
Proof. vm_compute. reflexivity. Qed.

(* INITIAL_WINDOW_SIZE pushing a stream window over 2^31-1: GOAWAY(FLOW_CONTROL_ERROR), no acknowledgement *)
Example ex_settings_overflow :
  let evs := lockstep (req_frames 1 [blk fs2] [] None) ++
             [EvRL (RFrame (mkSFrame KWinUpd 0 1 4 [] 0 0 2147418112 false 0 false 0)); EvSL;
              EvRL (RFrame (fSettings false false 0 true 131070)); EvSL] in
  srv_trace (srv_run cfgE evs) =
  [ODispatch 1 (the_request fs2 [] []); OGoAway 1 c_FlowControlError; OExit 1 0] /\
  applied srv_dec_field srv_enc_field set_max_table_size cfgE c_init evs = 0%nat.
Proof. split; vm_compute; reflexivity. Qed.
