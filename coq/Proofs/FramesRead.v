(* The read side of the frame codec: Deserialize of each type against the RFC payload
   parser, and ReadFrameFromWithSize against the RFC reader. *)
From Coq Require Import List NArith ZArith Bool Lia.
From Coq Require Import ZifyN ZifyNat ZifyBool.
From H2V Require Import Base.Bytes Base.MachineInt Base.Result Gen.GenConsts Spec.Rfc7540Frames
  Impl.Pools Impl.Frames Impl.FrameView Proofs.FramesBits Proofs.FramesSpec.
Import ListNotations.
Local Open Scope N_scope.
Ltac Zify.zify_post_hook ::= Z.div_mod_to_equations.

(* ---- Go slices ---- *)
Lemma go_slice_from l k : k <= len l -> go_slice l k (len l) = Ok (dropN k l).
Proof.
  intros H. unfold go_slice.
  assert ((k <=? len l) && (len l <=? len l) = true) as ->.
  { apply andb_true_intro. split; apply N.leb_le; lia. }
  f_equal. rewrite <- len_dropN. apply takeN_all.
Qed.

(* CutPadding(payload, len(payload)) is the RFC's padding rule *)
Lemma cut_padding_spec p :
  cut_padding p (Z.of_N (len p)) =
  match p with
  | [] => Err E_padding
  | pl :: q => if pl <=? len q then Ok (takeN (len q - pl) q) else Err E_padding
  end.
Proof.
  unfold cut_padding. destruct p as [|pl q]; [reflexivity|].
  rewrite len_cons.
  assert (((Z.of_N (1 + len q) =? 0) || (Z.of_N (1 + len q) <? 1) || (Z.of_N (1 + len q) <? Z.of_N (1 + len q)))%Z = false) as ->.
  { apply orb_false_intro; [apply orb_false_intro|]; lia. }
  change (go_index (pl :: q) 0) with (Ok pl). cbn [bind].
  destruct (pl <=? len q) eqn:L.
  - apply N.leb_le in L.
    assert (((Z.of_N (1 + len q) <? Z.of_N (1 + len q) - Z.of_N pl - 1) || (Z.of_N (1 + len q) - Z.of_N pl <? 1))%Z = false) as ->.
    { apply orb_false_intro; lia. }
    unfold go_slice. rewrite len_cons.
    replace (Z.to_N (Z.of_N (1 + len q) - Z.of_N pl)) with (1 + (len q - pl)) by lia.
    assert ((1 <=? 1 + (len q - pl)) && (1 + (len q - pl) <=? 1 + len q) = true) as ->.
    { apply andb_true_intro. split; apply N.leb_le; lia. }
    replace (1 + (len q - pl) - 1) with (len q - pl) by lia. reflexivity.
  - apply N.leb_gt in L.
    assert (((Z.of_N (1 + len q) <? Z.of_N (1 + len q) - Z.of_N pl - 1) || (Z.of_N (1 + len q) - Z.of_N pl <? 1))%Z = true) as ->.
    { apply orb_true_intro. right. lia. }
    reflexivity.
Qed.

(* the "if padded, cut" step of Data / Headers / PushPromise against unpad *)
Lemma cut_if_padded fl p : fl < 256 ->
  (if has fl c_FlagPadded then cut_padding p (Z.of_N (len p)) else Ok p) =
  match unpad fl p with
  | Some (_, c) => Ok c
  | None => Err E_padding
  end.
Proof.
  intros H. destruct (has_flag fl H) as (_ & _ & HP & _).
  change c_FlagPadded with 8. rewrite HP. unfold unpad. change PADDED with 3.
  destruct (flag fl 3); [|reflexivity].
  rewrite cut_padding_spec. destruct p as [|pl q]; [reflexivity|].
  destruct (pl <=? len q); reflexivity.
Qed.

(* ---- SETTINGS ---- *)

Lemma other_setting k : k <> 1 -> k <> 2 -> k <> 3 -> k <> 4 -> k <> 5 -> k <> 6 ->
  forall st v, setting_valid (k, v) = true /\ view_value st (k, v) = st.
Proof.
  intros. unfold setting_valid, view_value. cbn [fst snd].
  destruct k as [|[[[q|q|]|[q|q|]|]|[[q|q|]|[q|q|]|]|]]; try (split; reflexivity); congruence.
Qed.

Lemma settings_switch_spec st k v :
  settings_switch st k v =
  if setting_valid (k, v) then Ok (view_value st (k, v))
  else Err (if k =? 4 then E_settings_flow else E_settings_proto).
Proof.
  destruct (N.eq_dec k 1) as [->|N1]; [reflexivity|].
  destruct (N.eq_dec k 2) as [->|N2].
  { change (settings_switch st 2 v) with
      (if negb (v =? 0) && negb (v =? 1) then @Err settings_v E_settings_proto else Ok (st_set_enablePush st (negb (v =? 0)))).
    change (setting_valid (2, v)) with (v <=? 1).
    change (view_value st (2, v)) with (st_set_enablePush st (negb (v =? 0))).
    destruct (v <=? 1) eqn:A; destruct (v =? 0) eqn:B; destruct (v =? 1) eqn:C; try reflexivity;
      try apply N.leb_le in A; try apply N.leb_gt in A; try apply N.eqb_eq in B; try apply N.eqb_neq in B;
      try apply N.eqb_eq in C; try apply N.eqb_neq in C; lia. }
  destruct (N.eq_dec k 3) as [->|N3]; [reflexivity|].
  destruct (N.eq_dec k 4) as [->|N4].
  { change (settings_switch st 4 v) with
      (if 2 ^ 31 - 1 <? v then @Err settings_v E_settings_flow else Ok (st_set_windowSize st v)).
    change (setting_valid (4, v)) with (v <=? 2 ^ 31 - 1).
    change (view_value st (4, v)) with (st_set_windowSize st v).
    change (4 =? 4) with true. cbv iota.
    destruct (v <=? 2 ^ 31 - 1) eqn:A; destruct (2 ^ 31 - 1 <? v) eqn:B; try reflexivity;
      try apply N.leb_le in A; try apply N.leb_gt in A; try apply N.ltb_lt in B; try apply N.ltb_ge in B; lia. }
  destruct (N.eq_dec k 5) as [->|N5].
  { change (settings_switch st 5 v) with
      (if (v <? 2 ^ 14) || (2 ^ 24 - 1 <? v) then @Err settings_v E_settings_proto else Ok (st_set_frameSize st v)).
    change (setting_valid (5, v)) with ((2 ^ 14 <=? v) && (v <=? 2 ^ 24 - 1)).
    change (view_value st (5, v)) with (st_set_frameSize st v).
    destruct (2 ^ 14 <=? v) eqn:A; destruct (v <=? 2 ^ 24 - 1) eqn:B; destruct (v <? 2 ^ 14) eqn:C;
      destruct (2 ^ 24 - 1 <? v) eqn:D; try reflexivity;
      try apply N.leb_le in A; try apply N.leb_gt in A; try apply N.leb_le in B; try apply N.leb_gt in B;
      try apply N.ltb_lt in C; try apply N.ltb_ge in C; try apply N.ltb_lt in D; try apply N.ltb_ge in D; lia. }
  destruct (N.eq_dec k 6) as [->|N6]; [reflexivity|].
  destruct (other_setting k N1 N2 N3 N4 N5 N6 st v) as [V W]. rewrite V, W.
  unfold settings_switch.
  replace (k =? c_HeaderTableSize) with false by (symmetry; apply N.eqb_neq; exact N1).
  replace (k =? c_EnablePush) with false by (symmetry; apply N.eqb_neq; exact N2).
  replace (k =? c_MaxConcurrentStreams) with false by (symmetry; apply N.eqb_neq; exact N3).
  replace (k =? c_MaxWindowSize) with false by (symmetry; apply N.eqb_neq; exact N4).
  replace (k =? c_MaxFrameSize) with false by (symmetry; apply N.eqb_neq; exact N5).
  replace (k =? c_MaxHeaderListSize) with false by (symmetry; apply N.eqb_neq; exact N6).
  reflexivity.
Qed.

Lemma mark_present_view st k : mark_present st k = view_mark st k.
Proof.
  unfold mark_present, view_mark. change c_HeaderTableSize with 1. change c_MaxHeaderListSize with 6.
  destruct ((1 <=? k) && (k <=? 6)) eqn:E; [|reflexivity].
  apply andb_prop in E. destruct E as [A%N.leb_le B%N.leb_le].
  assert (k = 1 \/ k = 2 \/ k = 3 \/ k = 4 \/ k = 5 \/ k = 6) as C by lia.
  destruct C as [->|[->|[->|[->|[->| ->]]]]]; reflexivity.
Qed.

Lemma settings_apply_spec st k v :
  settings_apply st k v =
  if setting_valid (k, v) then Ok (view_setting st (k, v))
  else Err (if k =? 4 then E_settings_flow else E_settings_proto).
Proof.
  unfold settings_apply, view_setting. cbn [fst]. rewrite mark_present_view. apply settings_switch_spec.
Qed.

(* the class of the first invalid parameter *)
Fixpoint first_invalid (items : list (N * N)) : N :=
  match items with
  | [] => 0
  | kv :: rest => if setting_valid kv then first_invalid rest
                  else if fst kv =? 4 then E_settings_flow else E_settings_proto
  end.

Lemma settings_read_spec p : bytes_ok p = true ->
  forall items st, parse_settings p = Some items ->
  settings_read p st =
  if forallb setting_valid items then Ok (fold_left view_setting items st) else Err (first_invalid items).
Proof.
  induction p as [| | | | | |a b c d e f rest IH] using list6_ind; intros B items st; cbn [parse_settings]; try discriminate.
  - intros [= <-]. reflexivity.
  - destruct (parse_settings rest) as [its|] eqn:E; [|discriminate]. intros [= <-].
    rewrite !bytes_ok_cons in B.
    repeat (apply andb_prop in B; destruct B as [?%N.ltb_lt B]).
    cbn [settings_read]. rewrite key16_unbe, value32_unbe by assumption.
    rewrite settings_apply_spec. cbn [forallb first_invalid fold_left fst].
    destruct (setting_valid (unbe [a; b], unbe [c; d; e; f])); [|reflexivity].
    cbn [andb]. apply IH; [assumption|reflexivity].
Qed.

Lemma parse_settings_len p items : parse_settings p = Some items -> len p mod 6 = 0.
Proof.
  revert items. induction p as [| | | | | |a b c d e f rest IH] using list6_ind; intros items; cbn [parse_settings]; try discriminate.
  - reflexivity.
  - destruct (parse_settings rest) as [its|] eqn:E; [|discriminate]. intros _.
    specialize (IH its eq_refl). rewrite !len_cons. lia.
Qed.

Lemma parse_settings_none p : parse_settings p = None -> len p mod 6 <> 0.
Proof.
  induction p as [| | | | | |a b c d e f rest IH] using list6_ind; cbn [parse_settings]; try discriminate;
    try (intros _; unfold len; cbn; discriminate).
  destruct (parse_settings rest) as [its|] eqn:E; [discriminate|]. intros _.
  specialize (IH eq_refl). rewrite !len_cons. lia.
Qed.

(* ---- Deserialize against the RFC payload parser ---- *)

Definition deser_expect (fl : N) (o : option payload) (r : result body) : Prop :=
  match o with
  | Some b =>
      if settings_valid b then r = Ok (view_body fl b)
      else exists e, r = Err e /\ (e = E_settings_proto \/ e = E_settings_flow)
  | None => exists e, r = Err e
  end.

Ltac flags_of H fl :=
  let a := fresh "F1" in let b := fresh "F4" in let c := fresh "F8" in let d := fresh "F32" in
  destruct (has_flag fl H) as (a & b & c & d);
  change c_FlagEndStream with 1; change c_FlagAck with 1; change c_FlagEndHeaders with 4;
  change c_FlagPadded with 8; change c_FlagPriority with 32;
  change END_STREAM with 0; change ACK with 0; change END_HEADERS with 2; change PADDED with 3;
  change PRIORITY_FLAG with 5.

Lemma deser_data fl p : fl < 256 -> bytes_ok p = true ->
  deser_expect fl (parse_payload 0 fl p) (deserialize (BData false false []) fl p (len p)).
Proof.
  intros H B. unfold deserialize. rewrite (cut_if_padded fl p H).
  change (parse_payload 0 fl p) with (match unpad fl p with Some (pad, d) => Some (Data pad d) | None => None end).
  destruct (unpad fl p) as [[pad d]|]; cbn [bind deser_expect settings_valid view_body].
  - flags_of H fl. rewrite F1. reflexivity.
  - eexists. reflexivity.
Qed.

Lemma len5 {A} (a b c d e : A) r : length (a :: b :: c :: d :: e :: r) = (5 + length r)%nat.
Proof. reflexivity. Qed.

Lemma deser_headers fl p : fl < 256 -> bytes_ok p = true ->
  deser_expect fl (parse_payload 1 fl p) (deserialize (BHeaders false 0 0 false false false []) fl p (len p)).
Proof.
  intros H B. unfold deserialize. rewrite (cut_if_padded fl p H).
  change (parse_payload 1 fl p) with
    (match unpad fl p with
     | None => None
     | Some (pad, c) =>
         if flag fl PRIORITY_FLAG then
           match c with
           | a :: b :: c' :: d :: w :: frag => Some (Headers pad (Some (parse_prio a b c' d w)) frag)
           | _ => None
           end
         else Some (Headers pad None c)
     end).
  destruct (unpad fl p) as [[pad c]|] eqn:U; cbn [bind]; [|eexists; reflexivity].
  destruct (with_pad_unpad fl p pad c B U) as (_ & _ & Bc).
  flags_of H fl. rewrite F32, F1, F4.
  destruct (flag fl 5).
  - destruct c as [|a [|b [|c' [|d [|w frag]]]]]; try (eexists; reflexivity).
    apply bytes_ok_4 in Bc. destruct Bc as (Ha & Hb & Hc & Hd & Bf).
    assert (len (a :: b :: c' :: d :: w :: frag) <? 5 = false) as ->.
    { apply N.ltb_ge. unfold len. rewrite len5. lia. }
    rewrite bytes_to_uint32_unbe by assumption.
    change (go_index (a :: b :: c' :: d :: w :: frag) 4) with (Ok w).
    rewrite go_slice_from by (unfold len; rewrite len5; lia).
    cbn [bind deser_expect settings_valid view_body parse_prio p_dep p_weight app].
    rewrite mask31_low31. reflexivity.
  - cbn [deser_expect settings_valid view_body app]. reflexivity.
Qed.

Lemma len_lt_false (l : bytes) k : (N.to_nat k <= length l)%nat -> (len l <? k) = false.
Proof. intros. apply N.ltb_ge. unfold len. lia. Qed.
Lemma len_lt_true (l : bytes) k : (length l < N.to_nat k)%nat -> (len l <? k) = true.
Proof. intros. apply N.ltb_lt. unfold len. lia. Qed.
Lemma len_eq_false (l : bytes) k : length l <> N.to_nat k -> (len l =? k) = false.
Proof. intros. apply N.eqb_neq. unfold len. lia. Qed.
Lemma len_eq_true (l : bytes) k : length l = N.to_nat k -> (len l =? k) = true.
Proof. intros. apply N.eqb_eq. unfold len. lia. Qed.

Ltac len_tests :=
  repeat first
    [ rewrite len_lt_false by (cbn [length]; lia)
    | rewrite len_lt_true by (cbn [length]; lia)
    | rewrite len_eq_false by (cbn [length]; lia)
    | rewrite len_eq_true by (cbn [length]; lia) ].

Lemma deser_priority fl p : bytes_ok p = true ->
  deser_expect fl (parse_payload 2 fl p) (deserialize (BPriority 0 0) fl p (len p)).
Proof.
  intros B. unfold deserialize.
  change (parse_payload 2 fl p) with
    (match p with [a; b; c; d; w] => Some (Priority (parse_prio a b c d w)) | _ => None end).
  destruct p as [|a [|b [|c [|d [|w [|x r]]]]]]; len_tests; cbn [negb]; try (eexists; reflexivity).
  apply bytes_ok_4 in B. destruct B as (Ha & Hb & Hc & Hd & _).
  rewrite bytes_to_uint32_unbe by assumption.
  change (go_index [a; b; c; d; w] 4) with (Ok w).
  cbn [bind deser_expect settings_valid view_body parse_prio p_dep p_weight]. rewrite mask31_low31. reflexivity.
Qed.

Lemma deser_rst fl p : bytes_ok p = true ->
  deser_expect fl (parse_payload 3 fl p) (deserialize (BRstStream 0) fl p (len p)).
Proof.
  intros B. unfold deserialize.
  change (parse_payload 3 fl p) with
    (match p with [a; b; c; d] => Some (RstStream (unbe [a; b; c; d])) | _ => None end).
  destruct p as [|a [|b [|c [|d [|x r]]]]]; len_tests; cbn [negb]; try (eexists; reflexivity).
  apply bytes_ok_4 in B. destruct B as (Ha & Hb & Hc & Hd & _).
  rewrite bytes_to_uint32_unbe by assumption. reflexivity.
Qed.

Lemma deser_wu fl p : bytes_ok p = true ->
  deser_expect fl (parse_payload 8 fl p) (deserialize (BWindowUpdate 0%Z) fl p (len p)).
Proof.
  intros B. unfold deserialize.
  change (parse_payload 8 fl p) with
    (match p with [a; b; c; d] => let x := unbe [a; b; c; d] in Some (WindowUpdate (top_bit x) (low31 x)) | _ => None end).
  destruct p as [|a [|b [|c [|d [|x r]]]]]; len_tests; cbn [negb]; try (eexists; reflexivity).
  apply bytes_ok_4 in B. destruct B as (Ha & Hb & Hc & Hd & _).
  rewrite bytes_to_uint32_unbe by assumption.
  cbn [bind deser_expect settings_valid view_body]. rewrite mask31_low31. reflexivity.
Qed.

Lemma deser_cont fl p : fl < 256 ->
  deser_expect fl (parse_payload 9 fl p) (deserialize (BContinuation false []) fl p (len p)).
Proof.
  intros H. unfold deserialize. flags_of H fl. rewrite F4. reflexivity.
Qed.

Lemma deser_ping fl p : fl < 256 ->
  deser_expect fl (parse_payload 6 fl p) (deserialize (BPing false zeros8) fl p (len p)).
Proof.
  intros H. unfold deserialize.
  change (parse_payload 6 fl p) with (if len p =? 8 then Some (Ping p) else None).
  destruct (len p =? 8) eqn:L; cbn [negb]; [|eexists; reflexivity].
  apply N.eqb_eq in L. flags_of H fl. rewrite F1.
  cbn [deser_expect settings_valid view_body]. f_equal. f_equal.
  unfold ping_set_data.
  assert (length p = 8%nat) as E by (unfold len in L; lia).
  rewrite (firstn_all2 p) by lia. rewrite E. cbn. apply app_nil_r.
Qed.

Lemma deser_goaway fl p : bytes_ok p = true ->
  deser_expect fl (parse_payload 7 fl p) (deserialize (BGoAway 0 0 []) fl p (len p)).
Proof.
  intros B. unfold deserialize.
  change (parse_payload 7 fl p) with
    (match p with
     | a :: b :: c :: d :: e :: f :: g :: h :: debug =>
         let x := unbe [a; b; c; d] in Some (GoAway (top_bit x) (low31 x) (unbe [e; f; g; h]) debug)
     | _ => None
     end).
  destruct p as [|a [|b [|c [|d [|e [|f [|g [|h debug]]]]]]]]; len_tests; try (eexists; reflexivity).
  apply bytes_ok_4 in B. destruct B as (Ha & Hb & Hc & Hd & B).
  apply bytes_ok_4 in B. destruct B as (He & Hf & Hg & Hh & B).
  rewrite bytes_to_uint32_unbe by assumption.
  rewrite (go_slice_from _ 4) by (unfold len; cbn [length]; lia).
  change (dropN 4 (a :: b :: c :: d :: e :: f :: g :: h :: debug)) with (e :: f :: g :: h :: debug).
  rewrite (go_slice_from _ 8) by (unfold len; cbn [length]; lia).
  change (dropN 8 (a :: b :: c :: d :: e :: f :: g :: h :: debug)) with debug.
  cbn [bind]. rewrite bytes_to_uint32_unbe by assumption.
  cbn [bind deser_expect settings_valid view_body]. rewrite mask31_low31.
  destruct debug; reflexivity.
Qed.

Lemma deser_pp fl p : fl < 256 -> bytes_ok p = true ->
  deser_expect fl (parse_payload 5 fl p) (deserialize (BPushPromise false false 0 []) fl p (len p)).
Proof.
  intros H B. unfold deserialize. rewrite (cut_if_padded fl p H).
  change (parse_payload 5 fl p) with
    (match unpad fl p with
     | Some (pad, a :: b :: c :: d :: frag) =>
         let x := unbe [a; b; c; d] in Some (PushPromise pad (top_bit x) (low31 x) frag)
     | _ => None
     end).
  destruct (unpad fl p) as [[pad c]|] eqn:U; cbn [bind]; [|eexists; reflexivity].
  destruct (with_pad_unpad fl p pad c B U) as (_ & _ & Bc).
  destruct c as [|a [|b [|c' [|d frag]]]]; len_tests; try (eexists; reflexivity).
  apply bytes_ok_4 in Bc. destruct Bc as (Ha & Hb & Hc & Hd & Bf).
  rewrite bytes_to_uint32_unbe by assumption.
  rewrite (go_slice_from _ 4) by (unfold len; cbn [length]; lia).
  change (dropN 4 (a :: b :: c' :: d :: frag)) with frag.
  flags_of H fl. rewrite F4.
  cbn [bind deser_expect settings_valid view_body app]. rewrite mask31_low31. reflexivity.
Qed.

Lemma deser_settings fl p : fl < 256 -> bytes_ok p = true ->
  deser_expect fl (parse_payload 4 fl p) (deserialize (BSettings settings_reset) fl p (len p)).
Proof.
  intros H B. unfold deserialize.
  change (parse_payload 4 fl p) with
    (if flag fl ACK && negb (len p =? 0) then None
     else match parse_settings p with Some items => Some (Settings items) | None => None end).
  flags_of H fl. rewrite F1.
  destruct (parse_settings p) as [items|] eqn:S.
  - rewrite (parse_settings_len p items S). cbn [N.eqb negb].
    change (st_ack (st_set_ack settings_reset (flag fl 0))) with (flag fl 0).
    replace (0 <? len p) with (negb (len p =? 0))
      by (destruct (len p =? 0) eqn:Z; [apply N.eqb_eq in Z; rewrite Z; reflexivity|apply N.eqb_neq in Z; symmetry; apply N.ltb_lt; lia]).
    destruct (flag fl 0 && negb (len p =? 0)); [eexists; reflexivity|].
    rewrite (settings_read_spec p B items _ S).
    cbn [deser_expect settings_valid view_body].
    destruct (forallb setting_valid items) eqn:V; cbn [bind]; [reflexivity|].
    eexists. split; [reflexivity|].
    clear -V. induction items as [|kv items IH]; [discriminate|]. cbn [forallb first_invalid] in *.
    destruct (setting_valid kv); [apply IH; exact V|]. destruct (fst kv =? 4); auto.
  - pose proof (parse_settings_none p S) as Z.
    assert (negb (len p mod 6 =? 0) = true) as -> by (apply negb_true_iff, N.eqb_neq; exact Z).
    destruct (flag fl 0 && negb (len p =? 0)); eexists; reflexivity.
Qed.

Lemma deserialize_spec ty fl p bd :
  ty <= 9 -> fl < 256 -> bytes_ok p = true -> acquire_frame (Z.of_N ty) = Ok bd ->
  deser_expect fl (parse_payload ty fl p) (deserialize bd fl p (len p)).
Proof.
  intros L H B A.
  assert (ty = 0 \/ ty = 1 \/ ty = 2 \/ ty = 3 \/ ty = 4 \/ ty = 5 \/ ty = 6 \/ ty = 7 \/ ty = 8 \/ ty = 9) as C by lia.
  destruct C as [->|[->|[->|[->|[->|[->|[->|[->|[->| ->]]]]]]]]]; vm_compute in A; injection A as <-.
  - apply deser_data; assumption.
  - apply deser_headers; assumption.
  - apply deser_priority; assumption.
  - apply deser_rst; assumption.
  - apply deser_settings; assumption.
  - apply deser_pp; assumption.
  - apply deser_ping; assumption.
  - apply deser_goaway; assumption.
  - apply deser_wu; assumption.
  - apply deser_cont; assumption.
Qed.

(* ---- readFrom / ReadFrameFromWithSize against the RFC reader ---- *)

Lemma parse_values_spec l2 l1 l0 ty fl s3 s2 s1 s0 :
  l2 < 256 -> l1 < 256 -> l0 < 256 -> s3 < 256 -> s2 < 256 -> s1 < 256 -> s0 < 256 ->
  parse_values [l2; l1; l0; ty; fl; s3; s2; s1; s0] =
  Ok (unbe [l2; l1; l0], signed 8 ty, fl, low31 (unbe [s3; s2; s1; s0])).
Proof.
  intros. unfold parse_values.
  change (go_slice [l2; l1; l0; ty; fl; s3; s2; s1; s0] 0 3) with (Ok [l2; l1; l0]).
  cbn [bind]. rewrite bytes_to_uint24_unbe by assumption.
  change (go_index [l2; l1; l0; ty; fl; s3; s2; s1; s0] 3) with (Ok ty).
  change (go_index [l2; l1; l0; ty; fl; s3; s2; s1; s0] 4) with (Ok fl).
  change (go_slice [l2; l1; l0; ty; fl; s3; s2; s1; s0] 5 (len [l2; l1; l0; ty; fl; s3; s2; s1; s0])) with (Ok [s3; s2; s1; s0]).
  cbn [bind]. rewrite bytes_to_uint32_unbe by assumption. cbn [bind]. rewrite mask31_low31. reflexivity.
Qed.

Lemma kind_unknown ty : ty < 256 ->
  ((signed 8 ty <? Z.of_N c_FrameData) || (Z.of_N c_FrameContinuation <? signed 8 ty))%Z = (9 <? ty).
Proof.
  intros H. unfold signed. change (2 ^ 8) with 256. change (2 ^ (8 - 1)) with 128.
  rewrite N.mod_small by assumption. change (Z.of_N c_FrameData) with 0%Z. change (Z.of_N c_FrameContinuation) with 9%Z.
  destruct (ty <? 128) eqn:A; [apply N.ltb_lt in A|apply N.ltb_ge in A];
  destruct (9 <? ty) eqn:C; [apply N.ltb_lt in C|apply N.ltb_ge in C|apply N.ltb_lt in C|apply N.ltb_ge in C]; lia.
Qed.

Lemma signed8_small ty : ty <= 9 -> signed 8 ty = Z.of_N ty.
Proof.
  intros H. unfold signed. change (2 ^ 8) with 256. change (2 ^ (8 - 1)) with 128.
  rewrite N.mod_small by lia. assert (ty <? 128 = true) as -> by (apply N.ltb_lt; lia). reflexivity.
Qed.

Lemma acquire_frame_total ty : ty <= 9 -> exists bd, acquire_frame (Z.of_N ty) = Ok bd.
Proof.
  intros L.
  assert (ty = 0 \/ ty = 1 \/ ty = 2 \/ ty = 3 \/ ty = 4 \/ ty = 5 \/ ty = 6 \/ ty = 7 \/ ty = 8 \/ ty = 9) as C by lia.
  destruct C as [->|[->|[->|[->|[->|[->|[->|[->|[->| ->]]]]]]]]]; eexists; vm_compute; reflexivity.
Qed.


Lemma check_len_eff n max : n < 2 ^ 24 -> check_len n max = (effective_limit max <? n).
Proof.
  intros H. unfold check_len, effective_limit. destruct (max =? 0); cbn [negb andb]; [|reflexivity].
  symmetry. apply N.ltb_ge. change (2 ^ 24) with 16777216 in *. lia.
Qed.

(* what the RFC reader's outcome demands of one ReadFrameFromWithSize call *)
Definition read_expect (max : N) (o : outcome) (r : read_out) : Prop :=
  match o with
  | Short => exists e, ro_res r = Err e
  | TooLarge => ro_res r = Err E_too_large /\ ro_used r = 9 /\ ro_alloc r = 0
  | UnknownType k => ro_res r = Err E_unknown_type /\ ro_used r = k /\ ro_alloc r = 0
  | Malformed k => (exists e, ro_res r = Err e) /\ ro_used r = k
  | Frame f k =>
      ro_used r = k /\
      if settings_valid (f_body f) then ro_res r = Ok (view max f)
      else exists e, ro_res r = Err e /\ (e = E_settings_proto \/ e = E_settings_flow)
  end.

Theorem read_refines_spec max b :
  bytes_ok b = true ->
  read_expect max (spec_read (effective_limit max) b) (read_frame_with_size max b).
Proof.
  intros B.
  destruct b as [|l2 [|l1 [|l0 [|ty [|fl [|s3 [|s2 [|s1 [|s0 rest]]]]]]]]];
    try (eexists; reflexivity).
  apply bytes_ok_4 in B. destruct B as (Hl2 & Hl1 & Hl0 & Hty & B).
  apply bytes_ok_1 in B. destruct B as (Hfl & B).
  apply bytes_ok_4 in B. destruct B as (Hs3 & Hs2 & Hs1 & Hs0 & B).
  unfold spec_read, parse_header, read_frame_with_size, finish_read, read_from, read_from_gen.
  rewrite (len_lt_false (l2 :: l1 :: l0 :: ty :: fl :: s3 :: s2 :: s1 :: s0 :: rest) c_DefaultFrameSize)
    by (cbn [length]; change (N.to_nat c_DefaultFrameSize) with 9%nat; lia).
  change (takeN c_DefaultFrameSize (l2 :: l1 :: l0 :: ty :: fl :: s3 :: s2 :: s1 :: s0 :: rest)) with [l2; l1; l0; ty; fl; s3; s2; s1; s0].
  change (dropN c_DefaultFrameSize (l2 :: l1 :: l0 :: ty :: fl :: s3 :: s2 :: s1 :: s0 :: rest)) with rest.
  rewrite parse_values_spec by assumption.
  set (n := unbe [l2; l1; l0]). set (x := unbe [s3; s2; s1; s0]).
  assert (Hn : n < 2 ^ 24) by (apply unbe3_lt; assumption).
  change (fh_maxLen (set_maxlen acquire_header max)) with max.
  change (fh_payload (set_maxlen acquire_header max)) with (@nil N).
  change (fh_body (set_maxlen acquire_header max)) with (@None body).
  cbv iota beta.
  rewrite (check_len_eff n max Hn).
  destruct (effective_limit max <? n) eqn:TL.
  { cbn. auto. }
  rewrite (kind_unknown ty Hty).
  destruct (9 <? ty) eqn:UK.
  { destruct (len rest <? n) eqn:SH.
    - eexists. reflexivity.
    - apply N.ltb_ge in SH. cbn [read_expect ro_res ro_used ro_alloc rf_err rf_used rf_alloc].
      split; [reflexivity|]. split; [|reflexivity]. rewrite N.min_l by assumption. reflexivity. }
  apply N.ltb_ge in UK. rewrite (signed8_small ty UK).
  destruct (acquire_frame_total ty UK) as [bd A]. rewrite A.
  destruct (0 <? n) eqn:Z.
  - destruct (len rest <? n) eqn:SH.
    { eexists. reflexivity. }
    apply N.ltb_ge in SH.
    change (fh_payload (set_payload _ (takeN n rest))) with (takeN n rest).
    pose proof (bytes_ok_takeN n rest B) as Bp.
    pose proof (deserialize_spec ty fl (takeN n rest) bd UK Hfl Bp A) as D.
    rewrite len_takeN in D by assumption.
    destruct (parse_payload ty fl (takeN n rest)) as [body|] eqn:P; cbn [deser_expect] in D.
    + destruct (payload_bytes_parse ty fl _ body Bp P) as (E & T & _).
      cbn [read_expect f_body]. destruct (settings_valid body).
      * rewrite D. cbn [rf_err ro_res ro_used rf_used]. split; [reflexivity|]. f_equal.
        unfold view, payload_len. cbn [f_body f_flags f_stream]. rewrite E, T, len_takeN by assumption. reflexivity.
      * destruct D as (e & -> & He). cbn [rf_err ro_res ro_used rf_used]. split; [reflexivity|]. eauto.
    + destruct D as (e & ->). cbn. split; [eauto|reflexivity].
  - apply N.ltb_ge in Z. assert (n = 0) as N0 by lia.
    assert (len rest <? n = false) as -> by (apply N.ltb_ge; lia).
    change (fh_payload (put_body _ (Some bd))) with (@nil N).
    rewrite N0. change (takeN 0 rest) with (@nil N).
    pose proof (deserialize_spec ty fl [] bd UK Hfl eq_refl A) as D. change (len []) with 0 in D.
    destruct (parse_payload ty fl []) as [body|] eqn:P; cbn [deser_expect] in D.
    + destruct (payload_bytes_parse ty fl [] body eq_refl P) as (E & T & _).
      cbn [read_expect f_body]. destruct (settings_valid body).
      * rewrite D. cbn [rf_err ro_res ro_used rf_used]. split; [reflexivity|]. f_equal.
        unfold view, payload_len. cbn [f_body f_flags f_stream]. rewrite E, T. reflexivity.
      * destruct D as (e & -> & He). cbn [rf_err ro_res ro_used rf_used]. split; [reflexivity|]. eauto.
    + destruct D as (e & ->). cbn. split; [eauto|reflexivity].
Qed.
