(* Proofs/CliMsgAuto.v - C20 (client) / C02 (c), the pure part: what the client makes of the items of ONE stream.

   item_step / run_items   the receiver of one request at the grain of complete header blocks and DATA frames:
                           what dispatch + readStream + readHeaderFragment + readHeaderField do to
                           (Response, gotStatus), written as a function of the decoded field lists.
                           (Proofs/CliMsgDisp.v proves that this IS what the model does, fragment by fragment.)
   lax_response            the exact set of item lists it answers with nil: wf_response of
                           Spec/Http2Responses.v, except that (D3) an informational block may carry END_STREAM
                           and is then delivered as the response, and content-length values must fit an int64.
   asm                     the Response it delivers.
   No decoder, no connection state. *)
From H2V Require Import Base.Bytes Base.MachineInt Base.Result Gen.GenConsts Impl.ServerConn Impl.ClientConn
  Spec.Http2Messages Spec.Http2Responses Proofs.CliMsgRef.
From Coq Require Import ZArith Lia ZifyN ZifyNat ZifyBool.
Local Open Scope N_scope.

(* ---------- small facts shared with the server half (copied from Proofs/SrvMsgPure.v to keep the two halves independent) ---------- *)
Lemma bytes_eqb_eq a : forall b, bytes_eqb a b = true <-> a = b.
Proof.
  induction a as [|x a IH]; intros [|y b]; cbn [bytes_eqb]; split; try reflexivity; try discriminate.
  - intro H. apply andb_true_iff in H. destruct H as [H1 H2]. apply IH in H2. f_equal; [lia | assumption].
  - intro H. inversion H; subst. apply andb_true_iff. split; [lia | apply IH; reflexivity].
Qed.
Lemma bytes_eqb_refl a : bytes_eqb a a = true.
Proof. apply bytes_eqb_eq. reflexivity. Qed.
Lemma bytes_eqb_neq a b : a <> b -> bytes_eqb a b = false.
Proof. intro H. destruct (bytes_eqb a b) eqn:E; [|reflexivity]. apply bytes_eqb_eq in E. contradiction. Qed.

(* ---------- parseUint is 1*DIGIT up to 2^63-1 ---------- *)
Definition dec_fold (b : bytes) (acc : N) : N := fold_left (fun acc c => 10 * acc + (c - 48)) b acc.

Lemma dec_fold_ge b : forall acc, acc <= dec_fold b acc.
Proof.
  induction b as [|c r IH]; intro acc; cbn [dec_fold fold_left]; [lia|].
  fold (dec_fold r (10 * acc + (c - 48))). specialize (IH (10 * acc + (c - 48))). lia.
Qed.

Lemma parse_uint_loop_spec : forall b acc, (Z.of_N acc <= MAXINT)%Z ->
  parse_uint_loop b (Z.of_N acc) =
  if forallb digit b
  then (if (Z.of_N (dec_fold b acc) <=? MAXINT)%Z then Some (Z.of_N (dec_fold b acc)) else None)
  else None.
Proof.
  induction b as [|c r IH]; intros acc Ha.
  - cbn [parse_uint_loop forallb dec_fold fold_left]. destruct (Z.leb_spec (Z.of_N acc) MAXINT); [reflexivity | lia].
  - cbn [parse_uint_loop forallb dec_fold fold_left]. fold (dec_fold r (10 * acc + (c - 48))).
    unfold digit at 1.
    destruct ((c <? 48) || (57 <? c))%bool eqn:Ed.
    { replace ((48 <=? c) && (c <=? 57))%bool with false by lia. reflexivity. }
    replace ((48 <=? c) && (c <=? 57))%bool with true by lia. cbn [andb].
    set (d := Z.of_N (c - 48)).
    assert (Hd : (0 <= d <= 9)%Z) by (subst d; lia).
    pose proof (Z.div_mod (MAXINT - d) 10 ltac:(lia)) as Hdm.
    pose proof (Z.mod_pos_bound (MAXINT - d) 10 ltac:(lia)) as Hmb.
    destruct (Z.ltb_spec ((MAXINT - d) / 10) (Z.of_N acc)) as [Hov|Hok].
    + (* overflow: the value is above MAXINT whatever follows *)
      pose proof (dec_fold_ge r (10 * acc + (c - 48))) as Hge.
      assert (Hbig : (MAXINT < Z.of_N (dec_fold r (10 * acc + (c - 48))))%Z) by (subst d; lia).
      destruct (forallb digit r); [|reflexivity].
      destruct (Z.leb_spec (Z.of_N (dec_fold r (10 * acc + (c - 48)))) MAXINT); [lia | reflexivity].
    + replace (Z.of_N acc * 10 + d)%Z with (Z.of_N (10 * acc + (c - 48))) by (subst d; lia).
      apply IH. subst d. lia.
Qed.

Lemma parse_uint_decimal v :
  parse_uint v = match decimal v with
                 | Some n => if (Z.of_N n <=? MAXINT)%Z then Some (Z.of_N n) else None
                 | None => None
                 end.
Proof.
  unfold parse_uint, decimal. destruct v as [|c r]; [reflexivity|].
  change 0%Z with (Z.of_N 0). rewrite parse_uint_loop_spec by (unfold MAXINT; lia).
  fold (dec_fold (c :: r) 0). destruct (forallb digit (c :: r)); reflexivity.
Qed.

Lemma lower_upper k : lower_case k = negb (has_upper_case k).
Proof. reflexivity. Qed.

Definition lowerf (f : field) : bool := lower_case (fst f).
Definition none (n : bytes) (fs : list field) : bool := negb (existsb (has_name n) fs).
Lemma filter_none {A} (p : A -> bool) l : Nat.leb (length (filter p l)) 0 = negb (existsb p l).
Proof. induction l as [|x t IH]; [reflexivity|]. cbn [filter existsb]. destruct (p x); [reflexivity | exact IH]. Qed.

Lemma none_cons n f t : none n (f :: t) = negb (has_name n f) && none n t.
Proof. unfold none. cbn [existsb]. apply negb_orb. Qed.
Lemma amo_cons n f t : at_most_once n (f :: t) = if has_name n f then none n t else at_most_once n t.
Proof.
  unfold at_most_once, occurrences, none. cbn [filter]. destruct (has_name n f); [|reflexivity].
  cbn [length Nat.leb]. apply filter_none.
Qed.
Lemma once_split n fs : once n fs = existsb (has_name n) fs && at_most_once n fs.
Proof.
  unfold once, at_most_once, occurrences. induction fs as [|f t IH]; [reflexivity|].
  cbn [filter existsb]. destruct (has_name n f); [|exact IH].
  cbn [length orb andb]. destruct (length (filter (has_name n) t)) as [|[|m]]; reflexivity.
Qed.

(* ---------- the receiver of one request ---------- *)
Definition rprog : Type := (cresponse * bool)%type.     (* Response so far, gotStatus *)
Inductive iout : Type :=
| ICont (p : rprog)        (* the request goes on waiting *)
| IDone (r : cresponse)    (* finish(r, id, nil) *)
| IFail (e : cerr).        (* finish(r, id, e) *)

Definition block_step (p : rprog) (fs : list field) (es : bool) : iout :=
  match hf_fold (false, 0%Z, None, Some (fst p)) fs with
  | (_, _, Some e, _) => IFail e
  | (_, status, None, Some r') =>
    if (status =? 0)%Z then (if negb (snd p) || negb es then IFail CEMalformed else IDone r')
    else if snd p then IFail CEMalformed
    else if es then (if (200 <=? status)%Z then IDone r' else IFail CEMalformed)    (* an interim block cannot end the stream *)
    else ICont (r', (200 <=? status)%Z)
  | (_, _, None, None) => IFail CEMalformed
  end.

Definition data_step (p : rprog) (d : bytes) (es : bool) : iout :=
  if negb (snd p) then IFail CEMalformed
  else
    let r' := if cl_is_nil d then fst p else cl_resp_append_body (fst p) d in
    if es then IDone r' else ICont (r', snd p).

Definition item_step (p : rprog) (i : ritem) : iout :=
  match i with
  | RBlock fs es => block_step p fs es
  | RData d es => data_step p d es
  end.

Fixpoint run_items (p : rprog) (l : list ritem) : iout :=
  match l with
  | [] => ICont p
  | i :: t => match item_step p i with ICont p' => run_items p' t | o => o end
  end.

Definition rinit : rprog := (cl_empty_resp, false).

Lemma run_items_app p l1 l2 :
  run_items p (l1 ++ l2) = match run_items p l1 with ICont p' => run_items p' l2 | o => o end.
Proof.
  revert p. induction l1 as [|i t IH]; intro p; [reflexivity|]. cbn [app run_items].
  destruct (item_step p i); [apply IH | reflexivity | reflexivity].
Qed.

Lemma run_items_done_stable p l1 l2 r : run_items p l1 = IDone r -> run_items p (l1 ++ l2) = IDone r.
Proof. intro H. rewrite run_items_app, H. reflexivity. Qed.
Lemma run_items_fail_stable p l1 l2 e : run_items p l1 = IFail e -> run_items p (l1 ++ l2) = IFail e.
Proof. intro H. rewrite run_items_app, H. reflexivity. Qed.

(* ---------- the Response a field list / an item list builds ---------- *)
Definition lax_status (v : bytes) : option Z :=
  match parse_uint v with
  | Some n => if negb (len v =? 3) || ((n <? 100) || (999 <? n))%Z then None else Some n
  | None => None
  end.

Definition app_field (r : cresponse) (f : field) : cresponse :=
  if Http2Messages.is_pseudo f then match lax_status (snd f) with Some n => cl_resp_set_status r n | None => r end
  else if has_name H_content_length f then match parse_uint (snd f) with Some n => cl_resp_set_cl r n | None => r end
  else cl_resp_add_field r (fst f) (snd f).
Definition app_fields (r : cresponse) (fs : list field) : cresponse := fold_left app_field fs r.

Definition app_item (r : cresponse) (i : ritem) : cresponse :=
  match i with
  | RBlock fs _ => app_fields r fs
  | RData d _ => if cl_is_nil d then r else cl_resp_append_body r d
  end.
Definition asm (r : cresponse) (l : list ritem) : cresponse := fold_left app_item l r.

(* ---------- what it accepts, in the vocabulary of the specification ---------- *)
Definition statuses_lax (fs : list field) : bool :=
  forallb (fun f => if has_name P_status f then match lax_status (snd f) with Some _ => true | None => false end else true) fs.
Definition cl_small (fs : list field) : bool :=
  forallb (fun f => if has_name H_content_length f then match parse_uint (snd f) with Some _ => true | None => false end else true) fs.
Definition lax_common (fs : list field) : bool :=
  forallb lowerf fs && response_pseudo_defined fs && no_connection_fields fs && cl_small fs && statuses_lax fs.
Definition lax_head (fs : list field) : bool := lax_common fs && pseudo_first fs && once P_status fs.
Definition lax_trailers (fs : list field) : bool := lax_common fs && no_pseudo fs.
Definition lax_status_of (fs : list field) : Z :=
  match filter (has_name P_status) fs with
  | f :: _ => match lax_status (snd f) with Some n => n | None => 0%Z end
  | [] => 0%Z
  end.

Fixpoint lax_after_final (items : list ritem) : bool :=
  match items with
  | [] => false
  | RData _ true :: rest => match rest with [] => true | _ => false end
  | RData _ false :: rest => lax_after_final rest
  | RBlock fs true :: rest => lax_trailers fs && match rest with [] => true | _ => false end
  | RBlock _ false :: _ => false
  end.

Fixpoint lax_response (items : list ritem) : bool :=
  match items with
  | RBlock fs es :: rest =>
    lax_head fs &&
    (if (lax_status_of fs <? 200)%Z
     then negb es && lax_response rest
     else if es then match rest with [] => true | _ => false end
     else lax_after_final rest)
  | _ => false
  end.

(* ---------- one field ---------- *)
Ltac bsplit := rewrite ?andb_true_iff, ?negb_true_iff, ?orb_false_iff, ?negb_false_iff in *.

Lemma P_status_eq : P_status = S_status. Proof. reflexivity. Qed.
Lemma H_cl_eq : H_content_length = S_content_length. Proof. reflexivity. Qed.

Lemma is_conn_name_in k v : name_in connection_specific (k, v) = is_connection_specific k.
Proof.
  unfold name_in, connection_specific, is_connection_specific, has_name. cbn [existsb fst].
  rewrite orb_false_r, !orb_assoc. reflexivity.
Qed.

(* the accumulated conditions: rs = a regular field has been seen, st = the status so far *)
Definition facc (rs : bool) (st : Z) (fs : list field) : bool :=
  lax_common fs && (if rs then no_pseudo fs else pseudo_first fs)
  && (if (st =? 0)%Z then at_most_once P_status fs else none P_status fs).

Lemma lax_common_cons f t :
  lax_common (f :: t) =
  lowerf f && (if Http2Messages.is_pseudo f then has_name P_status f else true) && negb (name_in connection_specific f)
  && (if has_name H_content_length f then match parse_uint (snd f) with Some _ => true | None => false end else true)
  && (if has_name P_status f then match lax_status (snd f) with Some _ => true | None => false end else true)
  && lax_common t.
Proof.
  unfold lax_common, response_pseudo_defined, no_connection_fields, cl_small, statuses_lax. cbn [forallb existsb].
  rewrite negb_orb.
  repeat match goal with |- context [forallb ?p t] => generalize (forallb p t); intro end.
  repeat match goal with |- context [existsb ?p t] => generalize (existsb p t); intro end.
  destruct (lowerf f), (if Http2Messages.is_pseudo f then has_name P_status f else true), (name_in connection_specific f),
    (if has_name H_content_length f then match parse_uint (snd f) with Some _ => true | None => false end else true),
    (if has_name P_status f then match lax_status (snd f) with Some _ => true | None => false end else true);
    cbn [andb negb]; repeat match goal with b : bool |- _ => destruct b end; reflexivity.
Qed.

Lemma lax_status_pos v n : lax_status v = Some n -> (100 <= n <= 999)%Z.
Proof. unfold lax_status. destruct (parse_uint v) as [m|]; [|discriminate]. destruct (negb (len v =? 3) || ((m <? 100) || (999 <? m))%Z) eqn:E; [discriminate|]. intro H; inversion H; subst. lia. Qed.

(* a pseudo-header name is not content-length, not connection-specific; a regular name is not :status *)
Lemma pseudo_not_cl k v : Http2Messages.is_pseudo (k, v) = true -> has_name H_content_length (k, v) = false.
Proof. unfold Http2Messages.is_pseudo, has_name. cbn [fst]. destruct k as [|x k]; [discriminate|]. intro H. assert (x = 58) by (destruct x as [|p]; [discriminate|]; do 6 (destruct p as [p|p|]; try discriminate); reflexivity). subst x. reflexivity. Qed.
Lemma regular_not_status k v : Http2Messages.is_pseudo (k, v) = false -> has_name P_status (k, v) = false.
Proof. unfold Http2Messages.is_pseudo, has_name. cbn [fst]. destruct k as [|x k]; [reflexivity|]. intro H. change P_status with (58 :: tl P_status). cbn [bytes_eqb]. destruct (N.eqb_spec x 58) as [->|]; [discriminate | reflexivity]. Qed.

(* the step of the fold, by cases *)
Lemma rhf_pseudo rs st r k v : Http2Messages.is_pseudo (k, v) = true ->
  cl_read_header_field rs st r k v =
  if rs then (rs, st, r, Some CEMalformed)
  else if negb (has_name P_status (k, v)) then (rs, st, r, Some CEMalformed)
  else match lax_status v with
       | Some n => if negb (st =? 0)%Z then (rs, st, r, Some CEMalformed) else (rs, n, cl_resp_set_status r n, None)
       | None => (rs, st, r, Some CEMalformed)
       end.
Proof.
  intro P. unfold cl_read_header_field. change (ServerConn.is_pseudo k) with (Http2Messages.is_pseudo (k, v)). rewrite P.
  destruct rs; [reflexivity|]. unfold has_name. cbn [fst]. rewrite P_status_eq.
  destruct (bytes_eqb k S_status); cbn [negb]; [|reflexivity].
  unfold lax_status. destruct (parse_uint v) as [n|]; [|reflexivity].
  destruct (negb (len v =? 3)); cbn [orb]; [reflexivity|].
  destruct ((n <? 100) || (999 <? n))%Z; cbn [orb]; [reflexivity|].
  destruct (negb (st =? 0)%Z); reflexivity.
Qed.

Lemma rhf_regular rs st r k v : Http2Messages.is_pseudo (k, v) = false ->
  cl_read_header_field rs st r k v =
  if negb (lower_case k) || name_in connection_specific (k, v) then (true, st, r, Some CEMalformed)
  else if has_name H_content_length (k, v)
       then match parse_uint v with Some n => (true, st, cl_resp_set_cl r n, None) | None => (true, st, r, Some CEMalformed) end
       else (true, st, cl_resp_add_field r k v, None).
Proof.
  intro P. unfold cl_read_header_field. change (ServerConn.is_pseudo k) with (Http2Messages.is_pseudo (k, v)). rewrite P.
  rewrite lower_upper, negb_involutive, is_conn_name_in.
  destruct (has_upper_case k); [reflexivity|]. destruct (is_connection_specific k); [reflexivity|]. cbn [orb].
  unfold has_name. cbn [fst]. rewrite H_cl_eq. reflexivity.
Qed.

(* ---------- the fold over a field list: verdict and Response ---------- *)
Lemma hf_fold_verdict : forall fs rs st r rs' st' he r',
  hf_fold (rs, st, None, Some r) fs = (rs', st', he, Some r') ->
  (he = None <-> facc rs st fs = true) /\
  (he = None -> r' = app_fields r fs /\ st' = (if (st =? 0)%Z then lax_status_of fs else st)) /\
  (forall e, he = Some e -> e = CEMalformed).
Proof.
  induction fs as [|[k v] t IH]; intros rs st r rs' st' he r' H.
  - cbn in H. inversion H; subst. split; [|split].
    + split; [intros _|reflexivity]. unfold facc, lax_common. cbn. destruct rs', (st' =? 0)%Z; reflexivity.
    + intros _. split; [reflexivity|]. unfold lax_status_of. cbn. destruct (st' =? 0)%Z eqn:E; [lia|reflexivity].
    + discriminate.
  - cbn [hf_fold fold_left hf_step fst snd] in H.
    unfold facc. rewrite lax_common_cons. cbn [snd].
    destruct (Http2Messages.is_pseudo (k, v)) eqn:P.
    + rewrite (rhf_pseudo _ _ _ _ _ P) in H. rewrite (pseudo_not_cl _ _ P).
      assert (LOW : has_name P_status (k, v) = true -> lowerf (k, v) = true).
      { unfold has_name, lowerf. cbn [fst]. intro E. apply bytes_eqb_eq in E. subst k. reflexivity. }
      assert (NC : has_name P_status (k, v) = true -> name_in connection_specific (k, v) = false).
      { unfold has_name. cbn [fst]. intro E. apply bytes_eqb_eq in E. subst k. reflexivity. }
      unfold no_pseudo. cbn [existsb pseudo_first]. rewrite P. cbn [orb negb].
      destruct rs.
      { fold (hf_fold (true, st, Some CEMalformed, Some r) t) in H. rewrite hf_fold_err in H. inversion H; subst.
        split; [split; [discriminate|]|split; [discriminate | intros e E; inversion E; reflexivity]].
        intro F. bsplit. destruct F as [[_ F] _]. discriminate. }
      destruct (has_name P_status (k, v)) eqn:S; cbn [negb] in H.
      2:{ fold (hf_fold (false, st, Some CEMalformed, Some r) t) in H. rewrite hf_fold_err in H. inversion H; subst.
          split; [split; [discriminate|]|split; [discriminate | intros e E; inversion E; reflexivity]].
          intro F. bsplit. destruct F as [[F _] _]. destruct F as [[[[[_ F] _] _] _] _]. discriminate. }
      rewrite (LOW eq_refl), (NC eq_refl). cbn [negb andb].
      rewrite amo_cons, none_cons, S. cbn [negb andb].
      destruct (lax_status v) as [n|] eqn:LS.
      2:{ fold (hf_fold (false, st, Some CEMalformed, Some r) t) in H. rewrite hf_fold_err in H. inversion H; subst.
          split; [split; [discriminate|]|split; [discriminate | intros e E; inversion E; reflexivity]].
          intro F. discriminate. }
      destruct (st =? 0)%Z eqn:Z0; cbn [negb] in H.
      2:{ fold (hf_fold (false, st, Some CEMalformed, Some r) t) in H. rewrite hf_fold_err in H. inversion H; subst.
          split; [split; [discriminate|]|split; [discriminate | intros e E; inversion E; reflexivity]].
          intro F. bsplit. destruct F as [_ F]. discriminate. }
      fold (hf_fold (false, n, None, Some (cl_resp_set_status r n)) t) in H.
      destruct (IH _ _ _ _ _ _ _ H) as (A & B & C).
      pose proof (lax_status_pos _ _ LS) as Hn.
      unfold facc in A. assert (N0 : (n =? 0)%Z = false) by lia. rewrite N0 in A, B.
      split; [|split; [|exact C]].
      * rewrite A. cbn [andb]. reflexivity.
      * intro E. destruct (B E) as [B1 B2]. split.
        -- rewrite B1. unfold app_fields. cbn [fold_left]. f_equal. unfold app_field. rewrite P. cbn [snd]. rewrite LS. reflexivity.
        -- rewrite B2. unfold lax_status_of. cbn [filter]. rewrite S. cbn [snd]. rewrite LS. reflexivity.
    + rewrite (rhf_regular _ _ _ _ _ P) in H. rewrite (regular_not_status _ _ P).
      unfold no_pseudo. cbn [existsb pseudo_first]. rewrite P. cbn [orb].
      rewrite amo_cons, none_cons, (regular_not_status _ _ P). cbn [negb andb].
      unfold lowerf at 1. cbn [fst].
      destruct (lower_case k) eqn:L; cbn [negb orb andb] in *.
      2:{ fold (hf_fold (true, st, Some CEMalformed, Some r) t) in H. rewrite hf_fold_err in H. inversion H; subst.
          split; [split; [discriminate|]|split; [discriminate | intros e E; inversion E; reflexivity]]. discriminate. }
      destruct (name_in connection_specific (k, v)) eqn:CS; cbn [negb andb] in *.
      { fold (hf_fold (true, st, Some CEMalformed, Some r) t) in H. rewrite hf_fold_err in H. inversion H; subst.
        split; [split; [discriminate|]|split; [discriminate | intros e E; inversion E; reflexivity]]. discriminate. }
      assert (PF : (if rs then negb (existsb Http2Messages.is_pseudo t) else negb (existsb Http2Messages.is_pseudo t)) = no_pseudo t)
        by (destruct rs; reflexivity).
      destruct (has_name H_content_length (k, v)) eqn:CL.
      * destruct (parse_uint v) as [n|] eqn:PU.
        2:{ fold (hf_fold (true, st, Some CEMalformed, Some r) t) in H. rewrite hf_fold_err in H. inversion H; subst.
            split; [split; [discriminate|]|split; [discriminate | intros e E; inversion E; reflexivity]]. discriminate. }
        fold (hf_fold (true, st, None, Some (cl_resp_set_cl r n)) t) in H.
        destruct (IH _ _ _ _ _ _ _ H) as (A & B & C). split; [|split; [|exact C]].
        -- rewrite A. unfold facc. rewrite PF. cbn [andb]. reflexivity.
        -- intro E. destruct (B E) as [B1 B2]. split.
           ++ rewrite B1. unfold app_fields. cbn [fold_left]. f_equal. unfold app_field. rewrite P, CL. cbn [snd]. rewrite PU. reflexivity.
           ++ rewrite B2. unfold lax_status_of. cbn [filter]. rewrite (regular_not_status _ _ P). reflexivity.
      * fold (hf_fold (true, st, None, Some (cl_resp_add_field r k v)) t) in H.
        destruct (IH _ _ _ _ _ _ _ H) as (A & B & C). split; [|split; [|exact C]].
        -- rewrite A. unfold facc. rewrite PF. cbn [andb]. reflexivity.
        -- intro E. destruct (B E) as [B1 B2]. split.
           ++ rewrite B1. unfold app_fields. cbn [fold_left]. f_equal. unfold app_field. rewrite P, CL. reflexivity.
           ++ rewrite B2. unfold lax_status_of. cbn [filter]. rewrite (regular_not_status _ _ P). reflexivity.
Qed.

(* ---------- one block ---------- *)
Lemma no_pseudo_first fs : no_pseudo fs = true -> pseudo_first fs = true.
Proof.
  unfold no_pseudo. induction fs as [|f t IH]; [reflexivity|]. cbn [existsb pseudo_first]. rewrite negb_orb.
  intro H. apply andb_true_iff in H. destruct H as [H1 H2]. apply negb_true_iff in H1. rewrite H1. exact H2.
Qed.

Lemma lax_status_of_none fs : none P_status fs = true -> lax_status_of fs = 0%Z.
Proof.
  unfold none, lax_status_of. induction fs as [|f t IH]; [reflexivity|]. cbn [existsb filter]. rewrite negb_orb.
  intro H. apply andb_true_iff in H. destruct H as [H1 H2]. apply negb_true_iff in H1. rewrite H1. exact (IH H2).
Qed.

Lemma lax_status_of_some fs : statuses_lax fs = true -> none P_status fs = false -> (100 <= lax_status_of fs <= 999)%Z.
Proof.
  unfold none, lax_status_of, statuses_lax. induction fs as [|f t IH]; [discriminate|]. cbn [existsb filter forallb]. rewrite negb_orb.
  intros H1 H2. apply andb_true_iff in H1. destruct H1 as [H1 H1'].
  destruct (has_name P_status f) eqn:S.
  - cbn [snd]. destruct (lax_status (snd f)) as [n|] eqn:L; [|discriminate]. exact (lax_status_pos _ _ L).
  - cbn [negb andb] in H2. exact (IH H1' H2).
Qed.

Lemma none_no_pseudo fs : response_pseudo_defined fs = true -> none P_status fs = no_pseudo fs.
Proof.
  unfold response_pseudo_defined, none, no_pseudo. induction fs as [|[k v] t IH]; [reflexivity|]. cbn [forallb existsb].
  intro H. apply andb_true_iff in H. destruct H as [H1 H2]. rewrite !negb_orb, (IH H2). f_equal.
  destruct (Http2Messages.is_pseudo (k, v)) eqn:P; [rewrite H1; reflexivity | rewrite (regular_not_status _ _ P); reflexivity].
Qed.

Lemma lax_common_parts fs : lax_common fs = true -> response_pseudo_defined fs = true /\ statuses_lax fs = true.
Proof. unfold lax_common. intro H. bsplit. tauto. Qed.

Lemma block_step_spec r got fs es :
  block_step (r, got) fs es =
  if got then (if lax_trailers fs && es then IDone (app_fields r fs) else IFail CEMalformed)
  else if lax_head fs then (if es then (if (200 <=? lax_status_of fs)%Z then IDone (app_fields r fs) else IFail CEMalformed)
                            else ICont (app_fields r fs, (200 <=? lax_status_of fs)%Z))
       else IFail CEMalformed.
Proof.
  unfold block_step. cbn [fst snd].
  destruct (hf_fold_some false 0%Z None r fs) as (rs' & st' & he & r' & E). rewrite E.
  destruct (hf_fold_verdict _ _ _ _ _ _ _ _ E) as (A & B & C). unfold facc in A. cbn [Z.eqb] in A, B.
  destruct he as [e|].
  - rewrite (C e eq_refl).
    assert (F : lax_common fs && pseudo_first fs && at_most_once P_status fs = false).
    { destruct (lax_common fs && pseudo_first fs && at_most_once P_status fs) eqn:F; [|reflexivity].
      destruct A as [_ A]. specialize (A eq_refl). discriminate. }
    destruct got.
    + replace (lax_trailers fs) with false; [reflexivity|]. symmetry. unfold lax_trailers.
      destruct (lax_common fs) eqn:LC; [|reflexivity]. cbn [andb] in *.
      destruct (no_pseudo fs) eqn:NP; [|reflexivity]. rewrite (no_pseudo_first _ NP) in F. cbn [andb] in F.
      destruct (lax_common_parts _ LC) as [RP _]. rewrite <- (none_no_pseudo _ RP) in NP.
      unfold at_most_once, occurrences in F. unfold none in NP. rewrite <- filter_none in NP.
      destruct (length (filter (has_name P_status) fs)); [discriminate F | discriminate NP].
    + replace (lax_head fs) with false; [reflexivity|]. symmetry. unfold lax_head. rewrite once_split.
      destruct (lax_common fs), (pseudo_first fs), (at_most_once P_status fs), (existsb (has_name P_status) fs); try reflexivity; discriminate F.
  - destruct A as [A _]. specialize (A eq_refl). destruct (B eq_refl) as [-> ->]. bsplit. destruct A as [[LC PF] AM].
    destruct (lax_common_parts _ LC) as [RP SL].
    destruct (none P_status fs) eqn:NS.
    + rewrite (lax_status_of_none _ NS). cbn [Z.eqb].
      assert (NP : no_pseudo fs = true) by (rewrite <- (none_no_pseudo _ RP); exact NS).
      unfold lax_trailers, lax_head. rewrite LC, NP, PF, once_split. unfold none in NS. apply negb_true_iff in NS. rewrite NS.
      cbn [andb]. destruct got; cbn [negb orb]; [destruct es; reflexivity | reflexivity].
    + pose proof (lax_status_of_some _ SL NS) as R.
      replace (lax_status_of fs =? 0)%Z with false by lia.
      assert (NP : no_pseudo fs = false) by (rewrite <- (none_no_pseudo _ RP); exact NS).
      unfold lax_trailers, lax_head. rewrite LC, NP, PF, once_split, AM. unfold none in NS. apply negb_false_iff in NS. rewrite NS.
      cbn [andb]. destruct got; reflexivity.
Qed.

(* every failure of the automaton is errInvalidStatus & co: the request's own *)
Lemma item_step_fail p i e : item_step p i = IFail e -> e = CEMalformed.
Proof.
  destruct p as [r got]. destruct i as [fs es|d es]; cbn [item_step].
  - rewrite block_step_spec. destruct got; [destruct (lax_trailers fs && es)|destruct (lax_head fs); [destruct es; [destruct (200 <=? lax_status_of fs)%Z|]|]];
      intro H; inversion H; reflexivity.
  - unfold data_step. cbn [fst snd]. destruct got; cbn [negb]; [destruct es|]; intro H; inversion H; reflexivity.
Qed.
Lemma run_items_fail p l e : run_items p l = IFail e -> e = CEMalformed.
Proof.
  revert p. induction l as [|i t IH]; intro p; cbn [run_items]; [discriminate|].
  destruct (item_step p i) eqn:E; [apply IH | discriminate | intro H; inversion H; subst; exact (item_step_fail _ _ _ E)].
Qed.

(* an item with END_STREAM ends the request, one way or the other *)
Definition item_es (i : ritem) : bool := match i with RBlock _ es => es | RData _ es => es end.
Lemma item_step_es p i : item_es i = true -> forall p', item_step p i <> ICont p'.
Proof.
  destruct p as [r got]. destruct i as [fs es|d es]; cbn [item_es item_step]; intros -> p'.
  - rewrite block_step_spec. destruct got; [destruct (lax_trailers fs && true)|destruct (lax_head fs); [destruct (200 <=? lax_status_of fs)%Z|]]; discriminate.
  - unfold data_step. cbn [fst snd]. destruct got; discriminate.
Qed.
Lemma run_items_es p l : existsb item_es l = true -> forall p', run_items p l <> ICont p'.
Proof.
  revert p. induction l as [|i t IH]; intros p H p'; [discriminate|]. cbn [existsb run_items] in *.
  destruct (item_es i) eqn:E.
  - destruct (item_step p i) eqn:S; [exfalso; exact (item_step_es p i E _ S) | discriminate | discriminate].
  - cbn [orb] in H. destruct (item_step p i); [apply IH; exact H | discriminate | discriminate].
Qed.
(* ... and a request that goes on waiting has seen none *)
Lemma run_items_cont_no_es p l p' : run_items p l = ICont p' -> existsb item_es l = false.
Proof. intro H. destruct (existsb item_es l) eqn:E; [|reflexivity]. exfalso. exact (run_items_es p l E _ H). Qed.

(* ---------- the whole response ---------- *)
(* the items up to and including the first one with END_STREAM *)
Fixpoint first_end (l : list ritem) : list ritem :=
  match l with
  | [] => []
  | i :: t => if item_es i then [i] else i :: first_end t
  end.

Lemma first_end_prefix l : exists post, l = first_end l ++ post.
Proof.
  induction l as [|i t [post IH]]; [exists []; reflexivity|]. cbn [first_end].
  destruct (item_es i); [exists t; reflexivity | exists post; cbn [app]; f_equal; exact IH].
Qed.

Lemma asm_cons r i t : asm r (i :: t) = asm (app_item r i) t.
Proof. reflexivity. Qed.

Lemma run_got_sound : forall items r r', run_items (r, true) items = IDone r' ->
  lax_after_final (first_end items) = true /\ r' = asm r (first_end items).
Proof.
  induction items as [|i t IH]; intros r r'; cbn [run_items]; [discriminate|].
  destruct i as [fs es|d es]; cbn [item_step first_end item_es].
  - rewrite block_step_spec. destruct (lax_trailers fs) eqn:LT; cbn [andb]; [|discriminate].
    destruct es; [|discriminate]. intro H; inversion H; subst. cbn [lax_after_final]. rewrite LT. split; reflexivity.
  - unfold data_step. cbn [fst snd negb]. destruct es.
    + intro H; inversion H; subst. split; reflexivity.
    + intro H. destruct (IH _ _ H) as [A B]. cbn [lax_after_final]. split; [exact A|]. rewrite asm_cons. exact B.
Qed.

Lemma run_got_complete : forall items r, lax_after_final items = true -> run_items (r, true) items = IDone (asm r items).
Proof.
  induction items as [|i t IH]; intros r; cbn [lax_after_final]; [discriminate|].
  destruct i as [fs es|d es]; cbn [run_items item_step].
  - destruct es; [|discriminate]. intro H. apply andb_true_iff in H. destruct H as [H1 H2]. destruct t; [|discriminate].
    rewrite block_step_spec, H1. reflexivity.
  - unfold data_step. cbn [fst snd negb]. destruct es.
    + destruct t; [|discriminate]. reflexivity.
    + intro H. rewrite (IH _ H). reflexivity.
Qed.

Lemma run_sound : forall items r r', run_items (r, false) items = IDone r' ->
  lax_response (first_end items) = true /\ r' = asm r (first_end items).
Proof.
  induction items as [|i t IH]; intros r r'; cbn [run_items]; [discriminate|].
  destruct i as [fs es|d es]; cbn [item_step first_end item_es].
  - rewrite block_step_spec. destruct (lax_head fs) eqn:LH; [|discriminate].
    destruct es.
    + destruct (200 <=? lax_status_of fs)%Z eqn:F; [|discriminate].
      intro H; inversion H; subst. cbn [lax_response]. rewrite LH. replace (lax_status_of fs <? 200)%Z with false by lia. split; reflexivity.
    + destruct (200 <=? lax_status_of fs)%Z eqn:F.
      * intro H. destruct (run_got_sound _ _ _ H) as [A B]. cbn [lax_response]. rewrite LH.
        replace (lax_status_of fs <? 200)%Z with false by lia. cbn [andb]. split; [exact A | rewrite asm_cons; exact B].
      * intro H. destruct (IH _ _ H) as [A B]. cbn [lax_response]. rewrite LH.
        replace (lax_status_of fs <? 200)%Z with true by lia. cbn [andb]. split; [exact A | rewrite asm_cons; exact B].
  - unfold data_step. cbn [fst snd negb]. discriminate.
Qed.

Lemma run_complete : forall items r, lax_response items = true -> run_items (r, false) items = IDone (asm r items).
Proof.
  induction items as [|i t IH]; intros r; cbn [lax_response]; [discriminate|].
  destruct i as [fs es|d es]; [|discriminate]. cbn [run_items item_step]. intro H. apply andb_true_iff in H. destruct H as [LH H].
  rewrite block_step_spec, LH. destruct es.
  - destruct (lax_status_of fs <? 200)%Z eqn:F; [discriminate|]. replace (200 <=? lax_status_of fs)%Z with true by lia.
    destruct t; [reflexivity | discriminate].
  - destruct (lax_status_of fs <? 200)%Z eqn:F.
    + replace (200 <=? lax_status_of fs)%Z with false by lia. rewrite (IH _ H). reflexivity.
    + replace (200 <=? lax_status_of fs)%Z with true by lia. rewrite (run_got_complete _ _ H). reflexivity.
Qed.

(* a complete stream (its last item, and no other, has END_STREAM) gets nil iff it is lax_response, else the
   request fails with a malformed-response error *)
Lemma first_end_id l : existsb item_es (removelast l) = false -> first_end l = l.
Proof.
  induction l as [|i t IH]; [reflexivity|]. cbn [first_end]. destruct t as [|j t'].
  - intros _. destruct (item_es i); reflexivity.
  - change (removelast (i :: j :: t')) with (i :: removelast (j :: t')). cbn [existsb]. intro H.
    apply orb_false_iff in H. destruct H as [H1 H2]. rewrite H1, (IH H2). reflexivity.
Qed.

Theorem run_items_verdict items r :
  existsb item_es items = true -> existsb item_es (removelast items) = false ->
  run_items (r, false) items = if lax_response items then IDone (asm r items) else IFail CEMalformed.
Proof.
  intros E1 E2. destruct (lax_response items) eqn:L; [exact (run_complete _ _ L)|].
  destruct (run_items (r, false) items) as [p'|r'|e] eqn:R.
  - exfalso. exact (run_items_es _ _ E1 _ R).
  - destruct (run_sound _ _ _ R) as [A _]. rewrite (first_end_id _ E2) in A. congruence.
  - rewrite (run_items_fail _ _ _ R). reflexivity.
Qed.

(* ---------- lax_response against wf_response ---------- *)
Lemma forallb_filter {A} (p q : A -> bool) l : forallb (fun x => if p x then q x else true) l = forallb q (filter p l).
Proof. induction l as [|x t IH]; [reflexivity|]. cbn [forallb filter]. destruct (p x); cbn [forallb]; rewrite IH; reflexivity. Qed.

Lemma three_digits_lax v n : three_digits v = Some n -> lax_status v = Some (Z.of_N n).
Proof.
  unfold three_digits. destruct v as [|a [|b [|c [|d v]]]]; try discriminate.
  destruct (digit a && digit b && digit c && negb (a =? 48)) eqn:D; [|discriminate]. intro H; inversion H; subst n.
  unfold lax_status. rewrite parse_uint_decimal. unfold decimal. unfold digit in *. cbn [forallb].
  replace ((48 <=? a) && (a <=? 57) && ((48 <=? b) && (b <=? 57) && ((48 <=? c) && (c <=? 57) && true))) with true by lia.
  cbn [fold_left]. unfold MAXINT.
  replace (Z.of_N (10 * (10 * (10 * 0 + (a - 48)) + (b - 48)) + (c - 48)) <=? 9223372036854775807)%Z with true by lia.
  replace ((Z.of_N (10 * (10 * (10 * 0 + (a - 48)) + (b - 48)) + (c - 48)) <? 100) || (999 <? Z.of_N (10 * (10 * (10 * 0 + (a - 48)) + (b - 48)) + (c - 48))))%Z with false by lia.
  cbn [len length N.of_nat Pos.of_succ_nat Pos.succ N.eqb Pos.eqb negb orb]. f_equal. lia.
Qed.

(* and conversely: what the client takes for a status IS three digits, the first one not 0 *)
Lemma lax_three_digits v z : lax_status v = Some z -> three_digits v = Some (Z.to_N z).
Proof.
  unfold lax_status. destruct (parse_uint v) as [n|] eqn:PU; [|discriminate].
  destruct (negb (len v =? 3)) eqn:L3; [discriminate|]. cbn [orb].
  destruct ((n <? 100) || (999 <? n))%Z eqn:R; [discriminate|]. intro H; inversion H; subst z.
  apply negb_false_iff in L3.
  destruct v as [|a [|b [|c [|d v]]]]; try (unfold len in L3; cbn [length] in L3; lia).
  rewrite parse_uint_decimal in PU. unfold decimal in PU. destruct (forallb digit [a; b; c]) eqn:D; [|discriminate].
  change (fold_left (fun acc c0 : N => 10 * acc + (c0 - 48)) [a; b; c] 0) with (10 * (10 * (10 * 0 + (a - 48)) + (b - 48)) + (c - 48)) in PU.
  set (m := 10 * (10 * (10 * 0 + (a - 48)) + (b - 48)) + (c - 48)) in *.
  cbn [forallb] in D. unfold digit in D.
  destruct (Z.of_N m <=? MAXINT)%Z; [|discriminate].
  assert (EN : n = Z.of_N m) by congruence. subst n. clear PU. subst m.
  assert (F : 48 <= a <= 57 /\ 48 <= b <= 57 /\ 48 <= c <= 57) by lia.
  assert (A0 : 100 <= (a - 48) * 100 + (b - 48) * 10 + (c - 48)) by lia.
  unfold three_digits, digit.
  destruct ((48 <=? a) && (a <=? 57) && ((48 <=? b) && (b <=? 57)) && ((48 <=? c) && (c <=? 57)) && negb (a =? 48)) eqn:E; [f_equal; lia|].
  exfalso. lia.
Qed.

(* content-length values that fit Go's int64 (parseUint refuses the others) *)
Definition cl_fits_fields (fs : list field) : bool :=
  forallb (fun f => if has_name H_content_length f
                    then match decimal (snd f) with Some n => (Z.of_N n <=? MAXINT)%Z | None => true end else true) fs.
Definition cl_fits (items : list ritem) : bool :=
  forallb (fun i => match i with RBlock fs _ => cl_fits_fields fs | RData _ _ => true end) items.

Lemma cl_small_numeric fs : cl_small fs = true -> content_lengths_numeric fs = true.
Proof.
  unfold cl_small, content_lengths_numeric. induction fs as [|f t IH]; [reflexivity|]. cbn [forallb]. intro H.
  apply andb_true_iff in H. destruct H as [H1 H2]. rewrite (IH H2), andb_true_r.
  destruct (has_name H_content_length f); [|reflexivity]. rewrite parse_uint_decimal in H1. destruct (decimal (snd f)); [reflexivity | discriminate].
Qed.
Lemma numeric_cl_small fs : content_lengths_numeric fs = true -> cl_fits_fields fs = true -> cl_small fs = true.
Proof.
  unfold cl_small, content_lengths_numeric, cl_fits_fields. induction fs as [|f t IH]; [reflexivity|]. cbn [forallb]. intros H G.
  apply andb_true_iff in H. destruct H as [H1 H2]. apply andb_true_iff in G. destruct G as [G1 G2]. rewrite (IH H2 G2), andb_true_r.
  destruct (has_name H_content_length f); [|reflexivity]. rewrite parse_uint_decimal. destruct (decimal (snd f)); [rewrite G1; reflexivity | discriminate].
Qed.

Lemma once_filter n fs : once n fs = true -> exists f, filter (has_name n) fs = [f].
Proof. unfold once, occurrences. destruct (filter (has_name n) fs) as [|f [|g l]]; try discriminate. eauto. Qed.

Lemma wf_head_lax fs n : wf_head fs = true -> cl_fits_fields fs = true -> status_of fs = Some n ->
  lax_head fs = true /\ lax_status_of fs = Z.of_N n.
Proof.
  unfold wf_head. intros H F S. bsplit. destruct H as [[[[[[H1 H2] H3] H4] H5] H6] H7].
  destruct (once_filter _ _ H5) as [f E]. unfold status_of in S. rewrite E in S. pose proof (three_digits_lax _ _ S) as L.
  assert (SL : statuses_lax fs = true).
  { unfold statuses_lax. rewrite (forallb_filter (has_name P_status) (fun f => match lax_status (snd f) with Some _ => true | None => false end)).
    rewrite E. cbn [forallb]. rewrite L. reflexivity. }
  split.
  - assert (H1' : forallb lowerf fs = true) by exact H1.
    unfold lax_head, lax_common. rewrite H1', H2, H3, H4, H5, SL, (numeric_cl_small _ H7 F). reflexivity.
  - unfold lax_status_of. rewrite E, L. reflexivity.
Qed.

Lemma wf_trailers_lax fs : wf_trailers fs = true -> cl_fits_fields fs = true -> lax_trailers fs = true.
Proof.
  unfold wf_trailers. intros H F. bsplit. destruct H as [[[H1 H2] H3] H4].
  assert (H1' : forallb lowerf fs = true) by exact H1.
  unfold lax_trailers, lax_common. rewrite H1', H3, (numeric_cl_small _ H4 F).
  pose proof H2 as NP. rewrite NP. unfold no_pseudo in H2. apply negb_true_iff in H2.
  assert (RP : response_pseudo_defined fs = true).
  { unfold response_pseudo_defined. clear -H2. induction fs as [|f t IH]; [reflexivity|]. cbn [existsb forallb] in *.
    apply orb_false_iff in H2. destruct H2 as [A B]. rewrite A, (IH B). reflexivity. }
  rewrite RP. cbn [andb].
  unfold statuses_lax. rewrite (forallb_filter (has_name P_status) (fun f => match lax_status (snd f) with Some _ => true | None => false end)).
  pose proof (none_no_pseudo _ RP) as E. rewrite NP in E. unfold none in E. rewrite <- filter_none in E.
  destruct (filter (has_name P_status) fs); [reflexivity | discriminate].
Qed.

Lemma wf_after_final_lax items : wf_after_final items = true -> cl_fits items = true -> lax_after_final items = true.
Proof.
  induction items as [|i t IH]; [discriminate|]. cbn [wf_after_final lax_after_final cl_fits forallb].
  destruct i as [fs es|d es]; intros H F; apply andb_true_iff in F; destruct F as [F1 F2].
  - destruct es; [|discriminate]. apply andb_true_iff in H. destruct H as [H1 H2]. rewrite (wf_trailers_lax _ H1 F1). exact H2.
  - destruct es; [exact H | exact (IH H F2)].
Qed.

(* every well-formed response (with content-length values below 2^63) is one the client answers with nil *)
Theorem wf_response_lax items : wf_response items = true -> cl_fits items = true -> lax_response items = true.
Proof.
  induction items as [|i t IH]; [discriminate|]. cbn [wf_response lax_response cl_fits forallb].
  destruct i as [fs es|d es]; [|discriminate]. intros H F. apply andb_true_iff in F. destruct F as [F1 F2].
  apply andb_true_iff in H. destruct H as [H1 H2]. destruct (status_of fs) as [n|] eqn:S; [|discriminate].
  destruct (wf_head_lax _ _ H1 F1 S) as [LH LS]. rewrite LH, LS. cbn [andb]. unfold informational in H2.
  destruct (n <? 200) eqn:I.
  - replace (Z.of_N n <? 200)%Z with true by lia. apply andb_true_iff in H2. destruct H2 as [A B]. rewrite A. exact (IH B F2).
  - replace (Z.of_N n <? 200)%Z with false by lia. destruct es; [exact H2 | exact (wf_after_final_lax _ H2 F2)].
Qed.

(* the other way round: what the client answers with nil is well formed.
   [Two deviations were found here and repaired in /repo: (D1) ":status: 0200", a decimal in 100..999 that is not three
   digits, was accepted (03dd30d: len(value) = 3; lax_three_digits); (D3) an informational (1xx) block with END_STREAM
   was delivered as the response, nil with status 100 (aaab76f).] *)
Lemma lax_head_wf fs n : lax_head fs = true -> status_of fs = Some n -> wf_head fs = true /\ lax_status_of fs = Z.of_N n.
Proof.
  unfold lax_head, lax_common. intros H S. bsplit. destruct H as [[[[[[H1 H2] H3] H4] H5] H6] H7].
  split.
  - unfold wf_head. rewrite H2, H3, H6, H7, S, (cl_small_numeric _ H4), !andb_true_r. exact H1.
  - destruct (once_filter _ _ H7) as [f E]. unfold status_of in S. rewrite E in S. unfold lax_status_of. rewrite E, (three_digits_lax _ _ S). reflexivity.
Qed.

Lemma lax_trailers_wf fs : lax_trailers fs = true -> wf_trailers fs = true.
Proof.
  unfold lax_trailers, lax_common, wf_trailers. intro H. bsplit. destruct H as [[[[[H1 H2] H3] H4] H5] H6].
  rewrite H3, (cl_small_numeric _ H4), H6. repeat split. exact H1.
Qed.

Lemma lax_after_final_wf items : lax_after_final items = true -> wf_after_final items = true.
Proof.
  induction items as [|i t IH]; [discriminate|]. cbn [wf_after_final lax_after_final].
  destruct i as [fs es|d es]; intro H.
  - destruct es; [|discriminate]. apply andb_true_iff in H. destruct H as [H1 H2]. rewrite (lax_trailers_wf _ H1). exact H2.
  - destruct es; [exact H | exact (IH H)].
Qed.

Lemma lax_head_status fs : lax_head fs = true -> exists n, status_of fs = Some n.
Proof.
  unfold lax_head, lax_common. intro H. bsplit. destruct H as [[[[[[H1 H2] H3] H4] H5] H6] H7].
  destruct (once_filter _ _ H7) as [f E]. unfold status_of. rewrite E.
  unfold statuses_lax in H5. rewrite (forallb_filter (has_name P_status) (fun f => match lax_status (snd f) with Some _ => true | None => false end)), E in H5.
  cbn [forallb] in H5. destruct (lax_status (snd f)) as [z|] eqn:L; [|discriminate]. exists (Z.to_N z). exact (lax_three_digits _ _ L).
Qed.

Theorem lax_response_wf items : lax_response items = true -> wf_response items = true.
Proof.
  induction items as [|i t IH]; [discriminate|]. cbn [wf_response lax_response].
  destruct i as [fs es|d es]; [|discriminate]. intros H.
  apply andb_true_iff in H. destruct H as [LH H2].
  destruct (lax_head_status _ LH) as [n S]. rewrite S.
  destruct (lax_head_wf _ _ LH S) as [WH LS]. rewrite WH. rewrite LS in H2. cbn [andb]. unfold informational in *.
  destruct (n <? 200) eqn:I.
  - replace (Z.of_N n <? 200)%Z with true in H2 by lia. apply andb_true_iff in H2. destruct H2 as [A B]. rewrite A. exact (IH B).
  - replace (Z.of_N n <? 200)%Z with false in H2 by lia. destruct es; [exact H2 | exact (lax_after_final_wf _ H2)].
Qed.

(* the accepted set IS the specification's, for content-length values below 2^63 *)
Theorem lax_response_is_wf items : cl_fits items = true -> lax_response items = wf_response items.
Proof.
  intro F. destruct (wf_response items) eqn:W; [exact (wf_response_lax _ W F)|].
  destruct (lax_response items) eqn:L; [|reflexivity]. rewrite (lax_response_wf _ L) in W. discriminate.
Qed.

(* ---------- what is delivered ---------- *)
Definition kept (fs : list field) : list field :=
  filter (fun f => negb (Http2Messages.is_pseudo f) && negb (has_name H_content_length f)) fs.

Lemma app_field_fields r f :
  cr_fields (app_field r f) = cr_fields r ++ kept [f] /\ cr_body (app_field r f) = cr_body r.
Proof.
  unfold app_field, kept. cbn [filter]. destruct (Http2Messages.is_pseudo f); cbn [negb andb].
  - rewrite app_nil_r. destruct (lax_status (snd f)); split; reflexivity.
  - destruct (has_name H_content_length f); cbn [negb].
    + rewrite app_nil_r. destruct (parse_uint (snd f)); [|split; reflexivity]. unfold cl_resp_set_cl.
      destruct (negb (cr_status r =? 0)%Z && ((cr_status r <? 200)%Z || (cr_status r =? 204)%Z || (cr_status r =? 304)%Z)); split; reflexivity.
    + destruct f; split; reflexivity.
Qed.

Lemma app_fields_fields : forall fs r,
  cr_fields (app_fields r fs) = cr_fields r ++ kept fs /\ cr_body (app_fields r fs) = cr_body r.
Proof.
  induction fs as [|f t IH]; intro r; [cbn; rewrite app_nil_r; split; reflexivity|].
  unfold app_fields. cbn [fold_left]. fold (app_fields (app_field r f) t). destruct (IH (app_field r f)) as [A B].
  destruct (app_field_fields r f) as [C D]. rewrite A, B, C, D, <- app_assoc. split; [|reflexivity]. f_equal.
  unfold kept. cbn [filter]. destruct (negb (Http2Messages.is_pseudo f) && negb (has_name H_content_length f)); reflexivity.
Qed.

Lemma app_fields_status : forall fs r,
  response_pseudo_defined fs = true -> statuses_lax fs = true -> at_most_once P_status fs = true ->
  cr_status (app_fields r fs) = if none P_status fs then cr_status r else lax_status_of fs.
Proof.
  induction fs as [|[k v] t IH]; intros r RP SL AM; [reflexivity|].
  unfold app_fields. cbn [fold_left]. fold (app_fields (app_field r (k, v)) t).
  unfold response_pseudo_defined, statuses_lax in RP, SL. cbn [forallb] in RP, SL.
  apply andb_true_iff in RP. destruct RP as [RP1 RP2]. apply andb_true_iff in SL. destruct SL as [SL1 SL2].
  rewrite amo_cons in AM. rewrite none_cons. unfold lax_status_of. cbn [filter].
  destruct (Http2Messages.is_pseudo (k, v)) eqn:P.
  - rewrite RP1 in *. cbn [negb andb snd] in *. destruct (lax_status v) as [n|] eqn:L; [|discriminate].
    assert (AM' : at_most_once P_status t = true).
    { unfold at_most_once, occurrences. unfold none in AM. rewrite <- filter_none in AM. destruct (length (filter (has_name P_status) t)); [reflexivity | discriminate]. }
    rewrite (IH _ RP2 SL2 AM'), AM. unfold app_field. rewrite P. cbn [snd]. rewrite L. reflexivity.
  - rewrite (regular_not_status _ _ P) in *. cbn [negb andb]. rewrite (IH _ RP2 SL2 AM). fold (lax_status_of t).
    destruct (none P_status t); [|reflexivity]. unfold app_field. rewrite P.
    destruct (has_name H_content_length (k, v)); [|reflexivity]. cbn [snd]. destruct (parse_uint v); [|reflexivity].
    unfold cl_resp_set_cl. destruct (negb (cr_status r =? 0)%Z && ((cr_status r <? 200)%Z || (cr_status r =? 204)%Z || (cr_status r =? 304)%Z)); reflexivity.
Qed.

Definition kept_items (items : list ritem) : list field :=
  flat_map (fun i => match i with RBlock fs _ => kept fs | RData _ _ => [] end) items.

(* fields (all blocks: informational, final, trailers - content-length apart, it goes to Header.SetContentLength)
   and body of what is delivered *)
Theorem asm_fields_body : forall items r,
  cr_fields (asm r items) = cr_fields r ++ kept_items items /\
  cl_resp_body (asm r items) = cl_resp_body r ++ body_of items.
Proof.
  induction items as [|i t IH]; intro r; [cbn; rewrite !app_nil_r; split; reflexivity|].
  rewrite asm_cons. destruct (IH (app_item r i)) as [A B]. rewrite A, B. unfold kept_items, body_of. cbn [flat_map].
  rewrite !app_assoc. destruct i as [fs es|d es]; cbn [app_item].
  - destruct (app_fields_fields fs r) as [C D]. unfold cl_resp_body. rewrite C, D, app_nil_r. split; reflexivity.
  - rewrite app_nil_r. unfold cl_resp_body. destruct d as [|x d]; cbn [cl_is_nil]; [rewrite app_nil_r; split; reflexivity|].
    cbn [cl_resp_append_body cr_fields cr_body]. rewrite concat_app. cbn [concat]. rewrite app_nil_r. split; reflexivity.
Qed.

Lemma asm_after_final_status : forall items r, lax_after_final items = true -> cr_status (asm r items) = cr_status r.
Proof.
  induction items as [|i t IH]; intros r; [discriminate|]. cbn [lax_after_final]. rewrite asm_cons.
  destruct i as [fs es|d es]; cbn [app_item].
  - destruct es; [|discriminate]. intro H. apply andb_true_iff in H. destruct H as [H1 H2]. destruct t; [|discriminate]. cbn [asm fold_left].
    unfold lax_trailers in H1. apply andb_true_iff in H1. destruct H1 as [LC NP]. destruct (lax_common_parts _ LC) as [RP SL].
    assert (NS : none P_status fs = true) by (rewrite (none_no_pseudo _ RP); exact NP).
    rewrite (app_fields_status _ _ RP SL), NS; [reflexivity|].
    unfold at_most_once, occurrences. unfold none in NS. rewrite <- filter_none in NS. destruct (length (filter (has_name P_status) fs)); [reflexivity | discriminate].
  - assert (E : cr_status (if cl_is_nil d then r else cl_resp_append_body r d) = cr_status r) by (destruct (cl_is_nil d); reflexivity).
    destruct es; [destruct t; [intros _; exact E | discriminate]|]. intro H. rewrite (IH _ H). exact E.
Qed.

(* the status delivered is the status of the final header list *)
Theorem asm_status : forall items r n fs, wf_response items = true -> cl_fits items = true -> final_head items = Some (n, fs) ->
  cr_status (asm r items) = Z.of_N n.
Proof.
  induction items as [|i t IH]; intros r n fsn; [discriminate|]. cbn [wf_response final_head cl_fits forallb].
  destruct i as [fs es|d es]; [|discriminate]. intros H F FH. apply andb_true_iff in F. destruct F as [F1 F2].
  apply andb_true_iff in H. destruct H as [H1 H2]. destruct (status_of fs) as [m|] eqn:S; [|discriminate].
  destruct (wf_head_lax _ _ H1 F1 S) as [LH LS]. rewrite asm_cons. cbn [app_item].
  destruct (informational m) eqn:I.
  - apply andb_true_iff in H2. destruct H2 as [_ H2]. exact (IH _ _ _ H2 F2 FH).
  - inversion FH; subst m fsn.
    assert (ST : cr_status (app_fields r fs) = Z.of_N n).
    { unfold lax_head in LH. bsplit. destruct LH as [[LC PF] O]. destruct (lax_common_parts _ LC) as [RP SL]. rewrite once_split in O. bsplit.
      destruct O as [EX AM]. rewrite (app_fields_status _ _ RP SL AM). unfold none. rewrite EX. exact LS. }
    destruct es.
    + destruct t; [exact ST | discriminate].
    + rewrite (asm_after_final_status _ _ (wf_after_final_lax _ H2 F2)). exact ST.
Qed.
