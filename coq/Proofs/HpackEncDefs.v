(* C04: the vocabulary of the encoder statements. Definitions only.

   A connection is a list of [enc_op]; [c04_run] executes the encoder model on it against the
   decoder of the specification (Spec/Rfc7541.v) and checks every clause of C04 after every step. *)
From H2V Require Import Base.Bytes Base.MachineInt Base.Result Gen.GenConsts Gen.GenStatic
     Impl.Huffman Impl.Hpack Spec.Rfc7541Huffman Spec.Rfc7541.
From H2V Require Export Proofs.HpackDefs.
Local Open Scope N_scope.

(* ---- what a connection does to an encoder ---- *)
Inductive enc_op : Type :=
| SetMax (n : N)                        (* the peer's SETTINGS_HEADER_TABLE_SIZE arrived: SetMaxTableSize(n) *)
| Block (fs : list (field * bool)).     (* one header block: AppendHeader(dst, hf, store) for each element *)

(* ---- decidable ingredients of the statement ---- *)

Definition entry_eqb (a b : entry) : bool := bytes_eqb (fst a) (fst b) && bytes_eqb (snd a) (snd b).
Fixpoint entries_eqb (a b : list entry) : bool :=
  match a, b with
  | [], [] => true
  | x :: a', y :: b' => entry_eqb x y && entries_eqb a' b'
  | _, _ => false
  end.
Definition hfield_eqb (a b : hfield) : bool :=
  entry_eqb (fst a) (fst b) && Bool.eqb (snd a) (snd b).
Fixpoint hfields_eqb (a b : list hfield) : bool :=
  match a, b with
  | [], [] => true
  | x :: a', y :: b' => hfield_eqb x y && hfields_eqb a' b'
  | _, _ => false
  end.

(* the decoder's table is the encoder's *)
Definition in_sync (enc : hpack_state) (dec : dtable) : bool :=
  entries_eqb (dt_entries dec) (dt_entries (abs enc)) && (dt_max dec =? h_max enc) && (dt_limit dec =? h_max_settings enc).

Fixpoint leading_updates (rs : list repr) : list N :=
  match rs with SizeUpdate n :: rs' => n :: leading_updates rs' | _ => [] end.
Fixpoint drop_updates (rs : list repr) : list repr :=
  match rs with SizeUpdate _ :: rs' => drop_updates rs' | _ => rs end.

(* RFC 7541 4.2. m0: the maximum size the decoder has; pend: the sizes set since the last block
   (oldest first); us: the size updates the block starts with. When the size really changed, the
   block must start with size updates, the last one is the final size, and the smallest size of
   the interval has been signalled (unless the table was never smaller than where it started);
   there are never more than two. *)
Definition updates_ok (m0 : N) (pend us : list N) : bool :=
  (Nat.leb (length us) 2) &&
  (if existsb (fun n => negb (n =? m0)) pend
   then negb (Nat.eqb (length us) 0) && (last us 0 =? last pend 0) && (fold_left N.min us m0 =? fold_left N.min pend m0)
   else true).

(* a sensitive field travels as a never-indexed literal (and is therefore never inserted) *)
Fixpoint sens_ok (rs : list repr) (fs : list (field * bool)) : bool :=
  match rs, fs with
  | [], [] => true
  | r :: rs', (f, _) :: fs' =>
      (if f_sens f then match r with Literal Never _ _ _ _ => true | _ => false end else true) && sens_ok rs' fs'
  | _, _ => false
  end.

Definition is_nil {A} (l : list A) : bool := match l with [] => true | _ => false end.

(* One run: the encoder model against the specification's decoder.
     enc   the encoder;  dec  the peer's decoder table per the specification;
     pend  table sizes set since the last block that emitted anything. *)
Fixpoint c04_run (enc : hpack_state) (dec : dtable) (pend : list N) (ops : list enc_op) : bool :=
  match ops with
  | [] => true
  | SetMax n :: ops' =>
      let enc' := set_max_table_size enc n in
      (table_size (dt_entries (abs enc')) <=? n) &&                (* size <= the peer's limit, at once *)
      c04_run enc' (spec_set_limit dec n) (pend ++ [n]) ops'
  | Block fs :: ops' =>
      match encode_block enc fs with
      | Ok (out, enc') =>
          match spec_decode_block dec out, spec_parse_block out with
          | Some (got, dec'), Some rs =>
              hfields_eqb got (map (fun p => triple_of (fst p)) fs) &&    (* the same fields, in order *)
              (is_nil fs || in_sync enc' dec') &&                          (* decoder table = encoder table *)
              (table_size (dt_entries (abs enc')) <=? dt_limit dec) &&     (* size <= the peer's limit *)
              (is_nil fs || updates_ok (dt_max dec) pend (leading_updates rs)) &&   (* 4.2 *)
              sens_ok (drop_updates rs) fs &&                               (* 6.2.3 *)
              c04_run enc' dec' (if is_nil fs then pend else []) ops'
          | _, _ => false
          end
      | _ => false                                                         (* error or panic *)
      end
  end.

Definition c04_check (no_compress no_dynamic : bool) (ops : list enc_op) : bool :=
  c04_run (hpack_init no_compress no_dynamic) (dtable_init c_defaultHeaderTableSize) [] ops.

(* inputs a caller can produce: byte strings, sizes that are uint32 and leave room for the
   uint32 sums (a name + value + 32 + the table it joins must stay below 2^32) *)
Definition enc_field_ok (p : field * bool) : bool :=
  bytes_ok (f_key (fst p)) && bytes_ok (f_value (fst p)) && (len (f_key (fst p)) + len (f_value (fst p)) + 32 <? 2 ^ 31).
Definition enc_op_ok (op : enc_op) : bool :=
  match op with SetMax n => n <? 2 ^ 31 | Block fs => forallb enc_field_ok fs end.
