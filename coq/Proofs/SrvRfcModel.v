(* Proofs/SrvRfcModel.v - C08: model-side lemmas: the stream table and the closed ring as
   finite maps, the components the abstraction relation looks at ("core"), and how the
   small helpers extend the output list. *)
From H2V Require Import Base.Bytes Base.MachineInt Base.Result Gen.GenConsts Impl.ServerConn Proofs.SrvBase Proofs.SrvRfcDefs.
From Coq Require Import ZArith Lia ZifyN ZifyNat ZifyBool.
Local Open Scope N_scope.

(* ---------- the stream table ---------- *)

Lemma search_id l id s : strms_search l id = Some s -> st_id s = id.
Proof.
  induction l as [|h t IH]; cbn [strms_search]; [discriminate|].
  destruct (st_id h =? id) eqn:E; [intro H; inversion H; subst; lia | exact IH].
Qed.

Lemma search_notin l id : ~ In id (map st_id l) -> strms_search l id = None.
Proof.
  induction l as [|h t IH]; cbn [strms_search map In]; [reflexivity|]. intro H.
  destruct (st_id h =? id) eqn:E; [exfalso; apply H; left; lia | apply IH; tauto].
Qed.

Lemma search_in l id : In id (map st_id l) -> exists s, strms_search l id = Some s.
Proof.
  induction l as [|h t IH]; cbn [strms_search map In]; [tauto|]. intros [H|H].
  - subst id. rewrite N.eqb_refl. eauto.
  - destruct (st_id h =? id); eauto.
Qed.

Lemma search_In l id s : strms_search l id = Some s -> In s l.
Proof.
  induction l as [|h t IH]; cbn [strms_search]; [discriminate|].
  destruct (st_id h =? id); [intro H; inversion H; left; reflexivity | right; auto].
Qed.

Lemma In_search l s : NoDup (map st_id l) -> In s l -> strms_search l (st_id s) = Some s.
Proof.
  induction l as [|h t IH]; cbn [strms_search map In]; [tauto|]. intros ND [H|H].
  - subst h. rewrite N.eqb_refl. reflexivity.
  - inversion ND as [|? ? NI ND']; subst. destruct (st_id h =? st_id s) eqn:E.
    + exfalso. apply NI. apply N.eqb_eq in E. rewrite E. apply in_map. exact H.
    + apply IH; assumption.
Qed.

Lemma put_ids l x : map st_id (strms_put l x) = map st_id l.
Proof.
  induction l as [|h t IH]; cbn [strms_put map]; [reflexivity|].
  destruct (st_id h =? st_id x) eqn:E; cbn [map]; [f_equal; lia | f_equal; exact IH].
Qed.

Lemma search_put_same l x old : strms_search l (st_id x) = Some old -> strms_search (strms_put l x) (st_id x) = Some x.
Proof.
  induction l as [|h t IH]; cbn [strms_search strms_put]; [discriminate|].
  destruct (st_id h =? st_id x) eqn:E; cbn [strms_search].
  - intros _. rewrite N.eqb_refl. reflexivity.
  - rewrite E. exact IH.
Qed.

Lemma search_put_other l x id : id <> st_id x -> strms_search (strms_put l x) id = strms_search l id.
Proof.
  intro Hne. induction l as [|h t IH]; cbn [strms_search strms_put]; [reflexivity|].
  destruct (st_id h =? st_id x) eqn:E; cbn [strms_search].
  - replace (st_id x =? id) with false by lia. replace (st_id h =? id) with false by lia. reflexivity.
  - destruct (st_id h =? id); [reflexivity | exact IH].
Qed.

Lemma search_put_none l x : strms_search l (st_id x) = None -> strms_put l x = l.
Proof.
  induction l as [|h t IH]; cbn [strms_search strms_put]; [reflexivity|].
  destruct (st_id h =? st_id x); [discriminate|]. intro H. f_equal. exact (IH H).
Qed.

Lemma del_ids_incl l id x : In x (map st_id (strms_del l id)) -> In x (map st_id l).
Proof.
  induction l as [|h t IH]; cbn [strms_del map In]; [tauto|].
  destruct (st_id h =? id); cbn [map In]; [tauto | intros [H|H]; [left; exact H | right; exact (IH H)]].
Qed.

Lemma del_nodup l id : NoDup (map st_id l) -> NoDup (map st_id (strms_del l id)).
Proof.
  induction l as [|h t IH]; cbn [strms_del map]; [auto|]. intro ND. inversion ND as [|? ? NI ND']; subst.
  destruct (st_id h =? id); [assumption|]. cbn [map]. constructor; [|auto].
  intro H. apply NI. eapply del_ids_incl; eassumption.
Qed.

Lemma search_del_same l id : NoDup (map st_id l) -> strms_search (strms_del l id) id = None.
Proof.
  induction l as [|h t IH]; cbn [strms_del map strms_search]; [reflexivity|]. intro ND.
  inversion ND as [|? ? NI ND']; subst. destruct (st_id h =? id) eqn:E.
  - apply search_notin. apply N.eqb_eq in E. rewrite <- E. exact NI.
  - cbn [strms_search]. rewrite E. auto.
Qed.

Lemma search_del_other l id id' : id <> id' -> strms_search (strms_del l id') id = strms_search l id.
Proof.
  intro Hne. induction l as [|h t IH]; cbn [strms_del strms_search]; [reflexivity|].
  destruct (st_id h =? id') eqn:E.
  - replace (st_id h =? id) with false by lia. reflexivity.
  - cbn [strms_search]. destruct (st_id h =? id); [reflexivity | exact IH].
Qed.

Lemma search_app l x id :
  strms_search (l ++ [x]) id = match strms_search l id with Some y => Some y | None => if st_id x =? id then Some x else None end.
Proof.
  induction l as [|h t IH]; cbn [app strms_search]; [reflexivity|].
  destruct (st_id h =? id); [reflexivity | exact IH].
Qed.

Lemma put_In l x st : NoDup (map st_id l) -> In st (strms_put l x) -> st = x \/ (In st l /\ st_id st <> st_id x).
Proof.
  induction l as [|h t IH]; cbn [strms_put map In]; [tauto|]. intros ND H. inversion ND as [|? ? NI ND']; subst.
  destruct (st_id h =? st_id x) eqn:E.
  - destruct H as [H|H]; [left; auto|]. right. split; [right; exact H|].
    intro X. apply NI. apply N.eqb_eq in E. rewrite E, <- X. apply in_map, H.
  - destruct H as [H|H]; [subst st; right; split; [left; reflexivity | lia]|].
    destruct (IH ND' H) as [X|[X Y]]; [left; exact X | right; split; [right; exact X | exact Y]].
Qed.

Lemma del_In l id st : NoDup (map st_id l) -> In st (strms_del l id) -> In st l /\ st_id st <> id.
Proof.
  induction l as [|h t IH]; cbn [strms_del map In]; [tauto|]. intros ND H. inversion ND as [|? ? NI ND']; subst.
  destruct (st_id h =? id) eqn:E.
  - split; [right; exact H|]. intro X. apply NI. apply N.eqb_eq in E. rewrite E, <- X. apply in_map, H.
  - destruct H as [H|H]; [subst st; split; [left; reflexivity | lia]|].
    destruct (IH ND' H) as [X Y]. split; [right; exact X | exact Y].
Qed.

Lemma put_nodup l x : NoDup (map st_id l) -> NoDup (map st_id (strms_put l x)).
Proof. rewrite put_ids. auto. Qed.

Lemma del_put l x : strms_del (strms_put l x) (st_id x) = strms_del l (st_id x).
Proof.
  induction l as [|h t IH]; cbn [strms_put strms_del]; [reflexivity|].
  destruct (st_id h =? st_id x) eqn:E; cbn [strms_del].
  - rewrite N.eqb_refl. reflexivity.
  - rewrite E. f_equal. exact IH.
Qed.

Lemma app_nodup l x : NoDup (map st_id l) -> ~ In (st_id x) (map st_id l) -> NoDup (map st_id (l ++ [x])).
Proof.
  intros ND NI. rewrite map_app. cbn [map]. induction (map st_id l) as [|a t IH]; cbn [app].
  - constructor; [tauto | constructor].
  - inversion ND; subst. constructor.
    + rewrite in_app_iff. cbn [In]. intros [H|[H|[]]]; [tauto | subst; apply NI; left; reflexivity].
    + apply IH; [assumption | intro H; apply NI; right; exact H].
Qed.

(* ---------- the ring ---------- *)

Lemma NoDup_snoc {A} (l : list A) x : NoDup l -> ~ In x l -> NoDup (l ++ [x]).
Proof.
  induction l as [|h t IH]; cbn [app In]; intros ND NI; [constructor; [tauto | constructor]|].
  inversion ND; subst. constructor; [|apply IH; tauto].
  rewrite in_app_iff. cbn [In]. intros [H|[H|[]]]; [tauto | subst; tauto].
Qed.

Definition rfind (l : list (N * bool)) (id : N) : option bool :=
  match find (fun e => N.eqb id (fst e)) l with Some e => Some (snd e) | None => None end.

Lemma rfind_cons h t id : rfind (h :: t) id = if id =? fst h then Some (snd h) else rfind t id.
Proof. unfold rfind. cbn [find]. destruct (id =? fst h); reflexivity. Qed.

Lemma rfind_notin l id : ~ In id (map fst l) -> rfind l id = None.
Proof.
  induction l as [|h t IH]; [reflexivity|]. cbn [map In]. intro H. rewrite rfind_cons.
  destruct (id =? fst h) eqn:E; [exfalso; apply H; left; lia | apply IH; tauto].
Qed.

Lemma rfind_in l id : In id (map fst l) -> exists b, rfind l id = Some b.
Proof.
  induction l as [|h t IH]; cbn [map In]; [tauto|]. intros [H|H]; rewrite rfind_cons.
  - subst id. rewrite N.eqb_refl. eauto.
  - destruct (id =? fst h); eauto.
Qed.

Lemma rfind_app l x id : rfind (l ++ [x]) id = match rfind l id with Some b => Some b | None => if id =? fst x then Some (snd x) else None end.
Proof.
  induction l as [|h t IH]; cbn [app]; rewrite ?rfind_cons; [reflexivity|].
  destruct (id =? fst h); [reflexivity | exact IH].
Qed.

Lemma set_nth_fst l k x : (k < length l)%nat -> forall y, In y (map fst (set_nth_N l k x)) -> y = fst x \/ In y (map fst l).
Proof.
  revert k. induction l as [|h t IH]; intros [|k] Hk y; cbn [set_nth_N map In length] in *; try lia.
  - intros [H|H]; [left; symmetry; exact H | right; right; exact H].
  - intros [H|H]; [right; left; exact H|]. destruct (IH k ltac:(lia) y H); tauto.
Qed.

Lemma set_nth_nodup l k x : NoDup (map fst l) -> ~ In (fst x) (map fst l) -> NoDup (map fst (set_nth_N l k x)).
Proof.
  revert k. induction l as [|h t IH]; intros [|k] ND NI; cbn [set_nth_N map In] in *; try assumption.
  - inversion ND; subst. constructor; [tauto | assumption].
  - inversion ND as [|? ? NI' ND']; subst. constructor.
    + intro H. destruct (Nat.lt_ge_cases k (length t)) as [Hk|Hk].
      * destruct (set_nth_fst t k x Hk _ H) as [E|E]; [apply NI; left; exact E | tauto].
      * assert (set_nth_N t k x = t) as Eq.
        { clear -Hk. revert k Hk. induction t as [|a t IH]; intros [|k] Hk; cbn [set_nth_N length] in *; try reflexivity; try lia.
          f_equal. apply IH. lia. }
        rewrite Eq in H. tauto.
    + apply IH; [assumption | tauto].
Qed.

Lemma rfind_set_nth_same l k x : (k < length l)%nat -> ~ In (fst x) (map fst l) -> rfind (set_nth_N l k x) (fst x) = Some (snd x).
Proof.
  revert k. induction l as [|h t IH]; intros [|k] Hk NI; cbn [set_nth_N length map In] in *; try lia; rewrite rfind_cons.
  - rewrite N.eqb_refl. reflexivity.
  - destruct (fst x =? fst h) eqn:E; [exfalso; apply NI; left; lia|]. apply IH; [lia | tauto].
Qed.

Lemma rfind_set_nth_other l k x id : NoDup (map fst l) -> id <> fst x ->
  rfind (set_nth_N l k x) id = rfind l id \/ rfind (set_nth_N l k x) id = None.
Proof.
  revert k. induction l as [|h t IH]; intros [|k] ND Hne; cbn [set_nth_N map] in *; auto; rewrite !rfind_cons.
  - replace (id =? fst x) with false by lia. inversion ND as [|? ? NI ND']; subst.
    destruct (id =? fst h) eqn:E; [|left; reflexivity].
    right. apply rfind_notin. apply N.eqb_eq in E. rewrite E. exact NI.
  - inversion ND as [|? ? NI ND']; subst. destruct (id =? fst h); [left; reflexivity | apply IH; assumption].
Qed.

(* ---------- outputs that matter to the specification ---------- *)

Definition noisy (o : outev) : bool :=
  match strip_late o with
  | OGoAway _ _ | OExit _ _ | OPanic _ _ | ORst _ _ => true
  | OHeaders _ true _ | OData _ true _ => true
  | _ => false
  end.

Lemma first_some_filter {A} (f : outev -> option A) l :
  (forall o, noisy o = false -> f o = None) -> first_some f l = first_some f (filter noisy l).
Proof.
  intro H. induction l as [|o t IH]; cbn [first_some filter]; [reflexivity|].
  destruct (noisy o) eqn:E; cbn [first_some]; [rewrite IH; reflexivity|]. rewrite (H o E). exact IH.
Qed.

Lemma classify_filter sid l : classify sid l = classify sid (filter noisy l).
Proof.
  unfold classify.
  rewrite (first_some_filter is_goaway l), (first_some_filter (is_rst sid) l).
  - assert (E : existsb is_exit l = existsb is_exit (filter noisy l)).
    { induction l as [|o t IH]; cbn [existsb filter]; [reflexivity|].
      destruct (noisy o) eqn:N; cbn [existsb]; [rewrite IH; reflexivity|].
      rewrite IH. unfold noisy, is_exit in *. destruct (strip_late o); try discriminate; reflexivity. }
    rewrite E. reflexivity.
  - intros o N. unfold noisy, is_rst in *. destruct (strip_late o); try discriminate; reflexivity.
  - intros o N. unfold noisy, is_goaway in *. destruct (strip_late o); try discriminate; reflexivity.
Qed.

Lemma sents_filter l : flat_map sent_of l = flat_map sent_of (filter noisy l).
Proof.
  induction l as [|o t IH]; cbn [flat_map filter]; [reflexivity|].
  destruct (noisy o) eqn:N; cbn [flat_map]; [rewrite IH; reflexivity|].
  rewrite IH. unfold noisy, sent_of in *. destruct (strip_late o) as [? es ?|? es ?| | | | | | | | | |]; try discriminate; try reflexivity;
    destruct es; try discriminate; reflexivity.
Qed.

Lemma filter_rev {A} (f : A -> bool) l : filter f (rev l) = rev (filter f l).
Proof.
  induction l as [|a t IH]; [reflexivity|]. cbn [rev filter]. rewrite filter_app, IH. cbn [filter].
  destruct (f a); cbn [rev]; [reflexivity | rewrite app_nil_r; reflexivity].
Qed.

Section Model.
Variable hstate : Type.
Notation sconn := (sconn hstate).
Implicit Types c : sconn.

Lemma ring_find_rfind c id : ring_find c id = rfind (sc_ring c) id.
Proof. reflexivity. Qed.

Lemma in_ring_rfind c id : in_ring c id = match rfind (sc_ring c) id with Some _ => true | None => false end.
Proof.
  unfold in_ring, rfind. induction (sc_ring c) as [|h t IH]; cbn [existsb find]; [reflexivity|].
  destruct (id =? fst h); [reflexivity | exact IH].
Qed.

Definition ring_ok c : Prop :=
  NoDup (map fst (sc_ring c)) /\ (length (sc_ring c) <= 256)%nat /\ sc_oldest c < 256.

Lemma ring_ok_mark c j w : ring_ok c -> ring_ok (mark_closed c j w).
Proof.
  intros (ND & Len & Old). unfold mark_closed. rewrite in_ring_rfind.
  destruct (rfind (sc_ring c) j) eqn:F; [repeat split; assumption|].
  assert (NI : ~ In j (map fst (sc_ring c))).
  { intro H. destruct (rfind_in _ _ H) as [b Hb]. congruence. }
  destruct (N.of_nat (length (sc_ring c)) <? closedStrmsCap) eqn:E; unfold ring_ok; sc_cbn.
  - split; [|split].
    + rewrite map_app. cbn [map fst]. apply NoDup_snoc; assumption.
    + rewrite app_length. cbn [length]. unfold closedStrmsCap in E. lia.
    + assumption.
  - split; [|split].
    + apply set_nth_nodup; assumption.
    + assert (L : forall l i x, length (set_nth_N l i x) = length l).
      { induction l as [|h t IH]; intros [|i] x; cbn [set_nth_N length]; auto. }
      rewrite L. assumption.
    + unfold closedStrmsCap. apply N.mod_lt. lia.
Qed.

Lemma ring_find_mark_same c j w : ring_ok c ->
  ring_find (mark_closed c j w) j = Some (match ring_find c j with Some b => b | None => w end).
Proof.
  intros (ND & Len & Old). rewrite !ring_find_rfind. unfold mark_closed. rewrite in_ring_rfind.
  destruct (rfind (sc_ring c) j) eqn:F; [exact F|].
  assert (NI : ~ In j (map fst (sc_ring c))).
  { intro H. destruct (rfind_in _ _ H) as [b Hb]. congruence. }
  destruct (N.of_nat (length (sc_ring c)) <? closedStrmsCap) eqn:E; sc_cbn.
  - rewrite rfind_app, F. cbn [fst snd]. rewrite N.eqb_refl. reflexivity.
  - apply (rfind_set_nth_same (sc_ring c) (N.to_nat (sc_oldest c)) (j, w)); [|exact NI].
    unfold closedStrmsCap in E. lia.
Qed.

Lemma ring_find_mark_other c j w id : ring_ok c -> id <> j ->
  ring_find (mark_closed c j w) id = ring_find c id \/ ring_find (mark_closed c j w) id = None.
Proof.
  intros (ND & Len & Old) Hne. rewrite !ring_find_rfind. unfold mark_closed. destruct (in_ring c j); [left; reflexivity|].
  destruct (N.of_nat (length (sc_ring c)) <? closedStrmsCap) eqn:E; sc_cbn.
  - left. rewrite rfind_app. cbn [fst snd]. destruct (rfind (sc_ring c) id); [reflexivity|].
    replace (id =? j) with false by lia. reflexivity.
  - apply (rfind_set_nth_other (sc_ring c) (N.to_nat (sc_oldest c)) (j, w)); [exact ND | exact Hne].
Qed.

Lemma in_ring_mark_same c j w : ring_ok c -> in_ring (mark_closed c j w) j = true.
Proof. intro H. rewrite in_ring_rfind, <- ring_find_rfind, ring_find_mark_same by assumption. reflexivity. Qed.

Lemma in_ring_find c id : in_ring c id = match ring_find c id with Some _ => true | None => false end.
Proof. apply in_ring_rfind. Qed.

(* ---------- what the relation looks at ---------- *)

Lemma view_eq c c' id :
  sc_strms c' = sc_strms c -> sc_ring c' = sc_ring c -> sc_highestID c' = sc_highestID c -> view hstate c' id = view hstate c id.
Proof. intros A B C. unfold view, tbl, ring_find. rewrite A, B, C. reflexivity. Qed.

(* writes reach the peer: the stream loop runs and the write loop is alive *)
Definition wr c : Prop := sc_sl_done c = false /\ sc_wl_dead c = false.

Lemma emit_wr c o : wr c -> emit c o = note c o.
Proof. intros [A B]. unfold emit. rewrite B, A. reflexivity. Qed.

Lemma wr_note c o : wr c -> wr (note c o).
Proof. intros [A B]. split; sc_rw; assumption. Qed.

Lemma wr_emit c o : wr c -> wr (emit c o).
Proof. intros [A B]. split; sc_rw; assumption. Qed.

Lemma sc_oldest_close_stream c s : sc_oldest (close_stream c s) = sc_oldest (mark_closed c (st_id s) (st_weReset s)).
Proof.
  rewrite close_stream_eq. cbv zeta. unfold close_discard, release_stream, note. 
  repeat match goal with |- context [if ?b then _ else _] => destruct b end; sc_cbn; reflexivity.
Qed.

Lemma sc_discardID_close_stream c s :
  sc_discardID (close_stream c s) =
  if st_weReset s && negb (st_headersFinished s) && negb (sc_discardID c =? st_id s) then st_id s else sc_discardID c.
Proof.
  rewrite close_stream_eq. cbv zeta. unfold close_discard, release_stream, note.
  assert (D : sc_discardID (upd_strms (mark_closed c (st_id s) (st_weReset s)) (strms_del (sc_strms c) (st_id s))) = sc_discardID c).
  { sc_cbn. unfold mark_closed. repeat match goal with |- context [if ?b then _ else _] => destruct b end; reflexivity. }
  rewrite D.
  destruct (st_weReset s && negb (st_headersFinished s) && negb (sc_discardID c =? st_id s))%bool;
    repeat match goal with |- context [if ?b then _ else _] => destruct b end; sc_cbn; try reflexivity; exact D.
Qed.

Lemma new_out_ext c c' d : sc_out c' = d ++ sc_out c -> new_out hstate c c' = rev d.
Proof.
  intro H. unfold new_out. rewrite H, app_length.
  replace (length d + length (sc_out c) - length (sc_out c))%nat with (length d) by lia.
  rewrite firstn_app, Nat.sub_diag, firstn_all. cbn [firstn]. rewrite app_nil_r. reflexivity.
Qed.

End Model.
