(* Concrete, non-trivial inputs that meet the hypotheses of each C05 / C16 theorem
   (so that none of them holds vacuously), and the refutation of the one statement
   that is false of the current code. *)
From Coq Require Import List NArith ZArith Bool Lia.
From H2V Require Import Base.Bytes Base.MachineInt Base.Result Gen.GenConsts Spec.Rfc7540Frames
  Impl.Pools Impl.Frames Impl.FrameView Proofs.FramesBits Proofs.FramesSpec Proofs.FramesRead
  Proofs.FramesC16 Proofs.FramesWrite Proofs.FramesForward Proofs.FramesPooled.
Import ListNotations.
Local Open Scope N_scope.

Ltac conc := repeat split; vm_compute; try reflexivity; try discriminate; repeat constructor.

(* a HEADERS frame with END_STREAM|END_HEADERS|PADDED|PRIORITY and an undefined flag bit,
   reserved bit set, 3 octets of non-zero padding, exclusive dependency on stream 3 *)
Definition ex_headers : frame :=
  mkFrame (64 + 32 + 8 + 4 + 1) true 5
          (Headers (Some [7; 7; 7]) (Some (mkPrio true 3 200)) [130; 134; 132]).

Example ex_headers_wf : wf ex_headers.
Proof. conc. Qed.

Example ex_spec_roundtrip :
  spec_parse (spec_write ex_headers ++ [9; 9]) = Some (ex_headers, [9; 9]).
Proof. apply spec_parse_write. exact ex_headers_wf. Qed.

(* C05 read *)
Example ex_read_written :
  let r := read_frame_with_size 16384 (spec_write ex_headers ++ [0; 0; 4; 8]) in
  ro_res r = Ok (view 16384 ex_headers) /\ ro_used r = 9 + payload_len ex_headers.
Proof. apply read_written_frame; [exact ex_headers_wf|reflexivity|vm_compute; discriminate|reflexivity]. Qed.

(* what that is, computed: reserved bit gone, E bit gone, padding stripped *)
Example ex_read_written_value :
  ro_res (read_frame_with_size 16384 (spec_write ex_headers ++ [0; 0; 4; 8])) =
  Ok (mkFH 12 1%Z 109 5 16384 [3; 128; 0; 0; 3; 200; 130; 134; 132; 7; 7; 7]
           (Some (BHeaders false 3 200 true true true [130; 134; 132]))).
Proof. vm_compute. reflexivity. Qed.

Definition ex_settings : frame := mkFrame 0 false 0 (Settings [(3, 250); (4, 1048576); (99, 1)]).
Example ex_settings_wf : wf ex_settings.
Proof.
  unfold wf. split; [reflexivity|]. split; [reflexivity|]. split; [reflexivity|].
  cbn [wf_body f_body ex_settings f_flags]. split; [repeat constructor|intros H; discriminate H].
Qed.

Example ex_read_settings :
  ro_res (read_frame_with_size 0 (spec_write ex_settings)) = Ok (view 0 ex_settings).
Proof.
  rewrite <- (app_nil_r (spec_write ex_settings)).
  apply read_written_frame; [exact ex_settings_wf|reflexivity|vm_compute; discriminate|reflexivity].
Qed.

Definition ex_bad_settings : frame := mkFrame 0 false 0 (Settings [(5, 100)]).   (* MAX_FRAME_SIZE below 2^14 *)
Example ex_read_bad_settings :
  exists e, ro_res (read_frame_with_size 16384 (spec_write ex_bad_settings ++ [])) = Err e /\
            (e = E_settings_proto \/ e = E_settings_flow).
Proof.
  apply read_written_bad_settings; [|reflexivity|vm_compute; discriminate|reflexivity].
  unfold wf. split; [reflexivity|]. split; [reflexivity|]. split; [reflexivity|].
  cbn [wf_body f_body ex_bad_settings f_flags]. split; [repeat constructor|intros H; discriminate H].
Qed.

(* C05 write *)
Definition ex_body : body := BHeaders true (2 ^ 31 + 3) 200 true false true [130; 134; 132].

Example ex_write :
  exists out f',
    write_to (build 64 (2 ^ 31 + 5) ex_body) 10 = Ok (out, f') /\
    spec_parse out = Some (frame_of 64 (2 ^ 31 + 5) ex_body 10, []).
Proof.
  destruct (write_frame_parses 64 (2 ^ 31 + 5) ex_body 10) as (out & f' & E & P & _); try (vm_compute; reflexivity).
  - conc.
  - vm_compute. discriminate.
  - eauto.
Qed.

Example ex_write_value :
  match write_to (build 64 (2 ^ 31 + 5) ex_body) 10 with
  | Ok (out, _) => out = [0; 0; 19; 1; 64 + 32 + 8 + 1; 128; 0; 0; 5;
                          10; 0; 0; 0; 3; 200; 130; 134; 132; 0; 0; 0; 0; 0; 0; 0; 0; 0; 0]
  | _ => False
  end.
Proof. vm_compute. reflexivity. Qed.

Example ex_write_twice :
  exists out1 f1 out2 f2,
    write_to (build 0 1 (BData true true [1; 2; 3])) 9 = Ok (out1, f1) /\ write_to f1 200 = Ok (out2, f2) /\
    out1 = spec_write (frame_of 0 1 (BData true true [1; 2; 3]) 9) /\
    out2 = spec_write (frame_of 9 1 (BData true true [1; 2; 3]) 200).
Proof. apply write_twice; vm_compute; try reflexivity; discriminate. Qed.

Definition ex_st : settings_v := mkSt false [] 0 false 0 0 16384 0 false 0.
Example ex_settings_meaning :
  apply_settings initial_params (sent_settings ex_st) = params_of ex_st /\
  sent_settings ex_st = [(1, 0); (2, 0); (3, 0); (4, 0)].
Proof. split; [apply settings_meaning; vm_compute; discriminate|reflexivity]. Qed.

(* C16 *)
Definition ex_soup : bytes := [0; 0; 5; 131; 255; 255; 255; 255; 255; 1; 2].

Example ex_total : forall w, ro_res (read_frame_with_size 16384 ex_soup) <> Panic w.
Proof. apply read_total. reflexivity. Qed.

(* type byte 0x83 is a negative FrameType: unknown, and its 5 announced bytes are not there *)
Example ex_soup_value :
  read_frame_with_size 16384 ex_soup =
  mkRO (Err E_unknown_type) 11 0 [Acq PFrameHeader 0; Rel PFrameHeader 0].
Proof. vm_compute. reflexivity. Qed.

Definition ex_ping_ack : bytes := [0; 0; 8; 6; 1; 0; 0; 0; 0; 1; 2; 3; 4; 5; 6; 7; 8; 0; 0; 0].

Example ex_sound :
  exists f fr, ro_res (read_frame_with_size 16384 ex_ping_ack) = Ok fr /\
    spec_parse (takeN 17 ex_ping_ack) = Some (f, []) /\ fr = view 16384 f /\
    ro_used (read_frame_with_size 16384 ex_ping_ack) = 17.
Proof.
  destruct (read_sound 16384 ex_ping_ack (mkFH 8 6%Z 1 0 16384 [1; 2; 3; 4; 5; 6; 7; 8] (Some (BPing true [1; 2; 3; 4; 5; 6; 7; 8]))))
    as (f & P & _ & _ & V & U & _); [reflexivity|vm_compute; reflexivity|].
  exists f. eexists. split; [vm_compute; reflexivity|]. split; [exact P|]. split; [exact V|]. reflexivity.
Qed.

Example ex_unknown :
  let o := read_frame_with_size 16384 [0; 0; 2; 200; 9; 0; 0; 0; 1; 50; 51; 0; 0; 0; 0] in
  ro_res o = Err E_unknown_type /\ ro_used o = 9 + 2 /\ ro_alloc o = 0.
Proof.
  eapply read_unknown_type; [reflexivity|reflexivity|reflexivity|vm_compute; discriminate|vm_compute; discriminate].
Qed.

Example ex_too_large :
  let o := read_frame_with_size 16384 [0; 64; 1; 0; 0; 0; 0; 0; 1; 50; 51] in
  ro_res o = Err E_too_large /\ ro_used o = 9 /\ ro_alloc o = 0.
Proof. eapply read_too_large; [reflexivity|reflexivity|reflexivity]. Qed.

Example ex_alloc : ro_alloc (read_frame_with_size 16384 [0; 64; 0; 0; 0; 0; 0; 0; 1; 50; 51]) = 16384.
Proof. vm_compute. reflexivity. Qed.

(* PING with 7 octets; padding as long as what remains; SETTINGS ACK with a payload *)
Example ex_structure_ping :
  exists e, ro_res (read_frame_with_size 16384 [0; 0; 7; 6; 0; 0; 0; 0; 0; 1; 2; 3; 4; 5; 6; 7]) = Err e.
Proof.
  eapply structure_rejected; [reflexivity|reflexivity|vm_compute; discriminate|].
  unfold impossible. do 3 right. left. split; [reflexivity|vm_compute; discriminate].
Qed.

Example ex_structure_pad :
  exists e, ro_res (read_frame_with_size 16384 [0; 0; 3; 0; 8; 0; 0; 0; 1; 3; 65; 66]) = Err e.
Proof.
  eapply structure_rejected; [reflexivity|reflexivity|vm_compute; discriminate|].
  unfold impossible. do 6 right. left. split; [auto|]. split; [reflexivity|]. vm_compute. reflexivity.
Qed.

Example ex_structure_settings_ack :
  exists e, ro_res (read_frame_with_size 16384 [0; 0; 6; 4; 1; 0; 0; 0; 0; 0; 3; 0; 0; 0; 100]) = Err e.
Proof.
  eapply structure_rejected; [reflexivity|reflexivity|vm_compute; discriminate|].
  unfold impossible. do 2 right. left. split; [reflexivity|]. right. split; [reflexivity|vm_compute; discriminate].
Qed.

Example ex_truncation :
  forall k, k < 9 + 12 ->
  exists e, ro_res (read_frame_with_size 16384 (takeN k (spec_write ex_headers))) = Err e.
Proof. intros k H. eapply truncation; [reflexivity|reflexivity|exact H]. Qed.

(* a frame cut inside its payload: the body is acquired, then both objects go back once *)
Example ex_pool_truncated :
  ro_events (read_frame_with_size 16384 (takeN 15 (spec_write ex_headers))) =
    [Acq PFrameHeader 0; Acq PFrame 1; Rel PFrame 1; Rel PFrameHeader 0] /\
  linear (ro_events (read_frame_with_size 16384 (takeN 15 (spec_write ex_headers))))
         (handed (read_frame_with_size 16384 (takeN 15 (spec_write ex_headers)))) = true.
Proof. split; [vm_compute; reflexivity|]. apply read_pool_safe. reflexivity. Qed.

(* the automaton does reject the log the code produced before the double-release fix *)
Example ex_pool_automaton :
  linear [Acq PFrameHeader 0; Acq PFrame 1; Rel PFrame 1; Rel PFrame 1; Rel PFrameHeader 0] [] = false /\
  linear [Acq PFrameHeader 0; Acq PFrame 1; Rel PFrame 1; Rel PFrameHeader 0] [(PFrameHeader, 0)] = false /\
  linear [Acq PFrameHeader 0; Acq PFrame 1] [] = false.
Proof. repeat split. Qed.

(* forwarding: the padded, prioritised HEADERS frame above goes back out unpadded, E and R
   bits cleared, undefined flag bit 0x40 kept, and reads back to the same values *)
Example ex_forward :
  exists fr out f' g,
    ro_res (read_frame_with_size 16384 (spec_write ex_headers ++ [1; 2])) = Ok fr /\
    write_to fr 9 = Ok (out, f') /\ spec_parse out = Some (g, []) /\ wf g /\
    f_stream g = 5 /\ f_rsv g = false /\
    view_body (f_flags g) (f_body g) = BHeaders false 3 200 true true true [130; 134; 132].
Proof. apply (forward_preserves_view ex_headers [1; 2] 16384 ex_headers_wf I); [vm_compute; discriminate|reflexivity]. Qed.

Example ex_forward_bytes :
  match ro_res (read_frame_with_size 16384 (spec_write ex_headers)) with
  | Ok fr => match write_to fr 9 with
             | Ok (out, _) => out = [0; 0; 8; 1; 64 + 32 + 4 + 1; 0; 0; 0; 5; 0; 0; 0; 3; 200; 130; 134; 132]
             | _ => False
             end
  | _ => False
  end.
Proof. vm_compute. reflexivity. Qed.

Example ex_forward_settings :
  exists fr st out f' items',
    ro_res (read_frame_with_size 16384 (spec_write ex_settings ++ [])) = Ok fr /\
    fh_body fr = Some (BSettings st) /\ write_to fr 9 = Ok (out, f') /\
    spec_parse out = Some (mkFrame (flags_of 0 (BSettings st)) false 0 (Settings items'), []) /\
    apply_settings initial_params items' = params_of st.
Proof.
  apply (forward_settings_meaning [(3, 250); (4, 1048576); (99, 1)] 0 0 [] 16384 ex_settings_wf);
    [reflexivity|reflexivity|vm_compute; discriminate|reflexivity].
Qed.

Example ex_stream :
  read_many 16384 2 (spec_write ex_settings ++ spec_write ex_headers ++ [0; 0]) =
  [Ok (view 16384 ex_settings); Ok (view 16384 ex_headers)].
Proof.
  assert (E := read_stream 16384 [ex_settings; ex_headers] [0; 0]).
  cbn [flat_map length map app] in E. rewrite app_nil_r, <- app_assoc in E. apply E; [|reflexivity].
  repeat constructor; try exact ex_settings_wf; try exact ex_headers_wf; try reflexivity; vm_compute; discriminate.
Qed.

(* pooled objects. A header that still holds a SETTINGS payload, limit 0, a Ping body: *)
Definition ex_dirty : fhdr := mkFH 6 4%Z 0 7 0 [0; 4; 0; 16; 0; 0] (Some (BPing true zeros8)).

(* a SETTINGS ack written on it is the 9-byte ack *)
Example ex_write_dirty_ack :
  exists f', write_to (build_on ex_dirty 0 0 (BSettings (st_set_ack settings_reset true))) 9 =
             Ok ([0; 0; 0; 4; 1; 0; 0; 0; 0], f').
Proof.
  destruct (write_frame_parses_on ex_dirty 0 0 (BSettings (st_set_ack settings_reset true)) 9) as (f' & E & _);
    try (vm_compute; reflexivity); try (vm_compute; discriminate).
  - conc.
  - exists f'. exact E.
Qed.

(* pools holding that header (limit 0 = unlimited) and a used HEADERS body: ReadFrameFrom still
   applies the default limit, and a HEADERS frame read next does not see the old block *)
Definition ex_pools : pools :=
  mkPools (Some ex_dirty)
          (fun k => if (k =? 1)%Z then Some (BHeaders true 9 9 true true true [7; 7; 7]) else None).

Example ex_pools_ok : pools_ok ex_pools.
Proof.
  intros k b. unfold ex_pools. cbn [p_frame]. destruct (k =? 1)%Z eqn:E; [|discriminate].
  intros [= <-]. apply Z.eqb_eq in E. subst k. split; [reflexivity|exact I].
Qed.

Example ex_pool_limit :
  ro_res (read_frame_pooled ex_pools None [0; 64; 1; 0; 0; 0; 0; 0; 1; 50; 51]) = Err E_too_large.
Proof. rewrite (read_pool_independent _ _ _ ex_pools_ok). reflexivity. Qed.

Example ex_pool_headers :
  ro_res (read_frame_pooled ex_pools (Some 100) [0; 0; 2; 1; 4; 0; 0; 0; 1; 130; 134]) =
  Ok (mkFH 2 1%Z 4 1 100 [130; 134] (Some (BHeaders false 0 0 false true false [130; 134]))).
Proof. rewrite (read_pool_independent _ _ _ ex_pools_ok). vm_compute. reflexivity. Qed.
