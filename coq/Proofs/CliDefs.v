(* Vocabulary shared by the statements about the client model (Props/C02 C07 C11 C12):
   the run as a log of steps, projections of the trace, sample requests and frames.
   Definitions only. *)
From H2V Require Import Base.Bytes Base.MachineInt Base.Result Gen.GenConsts Impl.Hpack Impl.ServerConn
     Impl.ClientConn Impl.ClientInst.
From Coq Require Import ZArith List.
Import ListNotations.
Local Open Scope N_scope.

Definition cst : Type := cconn hpack_state.

Definition cst_out (c : cst) : list coutev := cc_out hpack_state c.

(* what a step added to the trace, oldest first *)
Definition cli_new (c c' : cst) : list coutev :=
  rev (firstn (length (cst_out c') - length (cst_out c)) (cst_out c')).

(* the run, step by step: the state before, the event, what the step emitted, the state after *)
Record cli_entry : Type := mkCliEntry { le_before : cst; le_ev : cevent; le_items : list coutev; le_after : cst }.

Fixpoint cli_log_from (cfg : cl_config) (c : cst) (evs : list cevent) : list cli_entry :=
  match evs with
  | [] => []
  | e :: t =>
    let c' := cli_step cfg c e in
    mkCliEntry c e (cli_new c c') c' :: cli_log_from cfg c' t
  end.
Definition cli_log (cfg : cl_config) (first : bytes) (evs : list cevent) : list cli_entry :=
  cli_log_from cfg (cli_init first) evs.

Definition cli_tr (cfg : cl_config) (first : bytes) (evs : list cevent) : list coutev :=
  cli_trace (cli_run cfg first evs).

(* ---------- projections of a trace ---------- *)

Definition headers_of (tr : list coutev) : list (N * bool * bytes) :=
  flat_map (fun o => match o with COHeaders sid es b => [(sid, es, b)] | _ => [] end) tr.
Definition header_ids (tr : list coutev) : list N := map (fun x => fst (fst x)) (headers_of tr).
Definition header_blocks (tr : list coutev) : list bytes := map snd (headers_of tr).

Definition data_of (sid : N) (tr : list coutev) : list (bool * bytes) :=
  flat_map (fun o => match o with COData s es p => if s =? sid then [(es, p)] else [] | _ => [] end) tr.
Definition data_bytes (sid : N) (tr : list coutev) : bytes := concat (map snd (data_of sid tr)).
(* END_STREAM flags the client put on stream sid: on its HEADERS and on its DATA frames *)
Definition end_streams (sid : N) (tr : list coutev) : nat :=
  length (filter (fun x => Bool.eqb (snd (fst x)) true && (fst (fst x) =? sid)) (headers_of tr))
  + length (filter (fun x => fst x) (data_of sid tr)).

Definition results_of (tr : list coutev) : list (N * bool * cerr * cresponse) :=
  flat_map (fun o => match o with COResult t r e resp => [(t, r, e, resp)] | _ => [] end) tr.
Definition results_for (tag : N) (tr : list coutev) : list (bool * cerr * cresponse) :=
  flat_map (fun o => match o with COResult t r e resp => if t =? tag then [(r, e, resp)] else [] | _ => [] end) tr.

Definition is_deadlock (o : coutev) : bool :=
  match o with COSelfDeadlock _ _ | COBlocked _ _ => true | _ => false end.
Definition is_panic_item (o : coutev) : bool := match o with COPanic _ => true | _ => false end.

(* the Ctx of a tag in a state *)
Definition cst_ctx (c : cst) (tag : N) : option cctx := cl_ctxs_get (cc_ctxs hpack_state c) tag.
(* the stream the request of tag went out on (0: none) *)
Definition cst_sid (c : cst) (tag : N) : N := match cst_ctx c tag with Some x => ct_sid x | None => 0 end.

(* tag is still referred to by one of the connection's tables or queues *)
Definition cst_refers (c : cst) (tag : N) : bool :=
  existsb (fun e => snd e =? tag) (cc_reqQueued hpack_state c)
  || existsb (fun pb => pb_tag pb =? tag) (cc_pending hpack_state c)
  || existsb (N.eqb tag) (cc_inQ hpack_state c).

(* ---------- what the server sends ---------- *)

(* the parameters of a SETTINGS payload, in order (RFC 7540 6.5.1) *)
Fixpoint settings_pairs (d : bytes) : list (N * N) :=
  match d with
  | k1 :: k0 :: v3 :: v2 :: v1 :: v0 :: rest => (k1 * 256 + k0, ((v3 * 256 + v2) * 256 + v1) * 256 + v0) :: settings_pairs rest
  | _ => []
  end.
(* the read loop takes the frame of this step in: it is running, the frame is well formed and in sequence *)
Definition rl_takes (c : cst) (fr : sframe) : bool :=
  cl_rl_live hpack_state c && negb (cc_netClosed hpack_state c)
  && ((sf_sid fr =? 0)
      || (if cc_hdrStream hpack_state c =? 0 then negb (fkind_eqb (sf_kind fr) KCont)
          else fkind_eqb (sf_kind fr) KCont && (sf_sid fr =? cc_hdrStream hpack_state c))).

(* ---------- the requests a caller gave, as the server should see them ---------- *)

(* the field list of RFC 7540 8.1.2 the request stands for: pseudo-headers, user-agent, then the
   other fields in order, names in lower case, connection-specific ones left out *)
Definition ascii_lower (b : bytes) : bytes := map (fun c => if (65 <=? c) && (c <=? 90) then c + 32 else c) b.
Definition request_fields (rq : crequest) : list (bytes * bytes) :=
  [(S_authority, cq_host rq); (S_method, cq_method rq); (S_path, cq_path rq); (S_scheme, cq_scheme rq); (S_user_agent, cq_ua rq)]
  ++ flat_map (fun kv =>
       let k := ascii_lower (fst kv) in
       if bytes_eqb k S_user_agent || is_connection_specific k then [] else [(k, snd kv)]) (cq_fields rq).

(* the bytes of a request body, whatever its shape; None: the caller's reader fails before the end *)
Fixpoint reads_bytes (reads : list (bytes * rerr)) : option bytes :=
  match reads with
  | [] => Some []
  | (ch, RNil) :: t => match ch, reads_bytes t with
                       | [], _ => None                      (* (0, nil) *)
                       | _, Some r => Some (ch ++ r)
                       | _, None => None
                       end
  | (ch, REof) :: _ => Some ch
  | (_, RFail) :: _ => None
  end.
Definition request_body (rq : crequest) : option bytes :=
  match cq_body rq with
  | CBuf b => Some b
  | CStream reads size =>
    match reads_bytes reads with
    | Some b => Some (if (0 <=? size)%Z then firstn (Z.to_nat size) b else b)
    | None => None
    end
  end.

(* ---------- sample requests and frames for the examples ---------- *)

Definition ex_cfg : cl_config := mkCCfg false false.
Definition ex_cfg_armed : cl_config := mkCCfg true false.

(* GET https://h/ *)
Definition ex_get : crequest := mkCReq [104] [71; 69; 84] [47] [104; 116; 116; 112; 115] [] [] (CBuf []).
(* POST https://h/ with a body *)
Definition ex_post (b : cbody) : crequest := mkCReq [104] [80; 79; 83; 84] [47] [104; 116; 116; 112; 115] [] [] b.

Definition ex_frame (k : fkind) (flags sid : N) (payload : bytes) (dep code inc : N) : rl_input :=
  RFrame (mkSFrame k flags sid (len payload) payload dep code inc false 0 false 0).
(* HEADERS with END_HEADERS; es: END_STREAM *)
Definition ex_headers (sid : N) (es : bool) (block : bytes) : rl_input :=
  ex_frame KHeaders (if es then 5 else 4) sid block 0 0 0.
Definition ex_data (sid : N) (es : bool) (payload : bytes) : rl_input :=
  ex_frame KData (if es then 1 else 0) sid payload 0 0 0.
Definition ex_rst (sid code : N) : rl_input := ex_frame KRst 0 sid [] 0 code 0.
Definition ex_winupd (sid inc : N) : rl_input := ex_frame KWinUpd 0 sid [] 0 0 inc.
Definition ex_goaway (last code : N) : rl_input := ex_frame KGoAway 0 0 [] last code 0.
(* SETTINGS with one parameter *)
Definition ex_settings (id value : N) : rl_input :=
  ex_frame KSettings 0 0 [id / 256; id mod 256; value / 16777216; (value / 65536) mod 256; (value / 256) mod 256; value mod 256] 0 0 0.

(* ":status 200" (static table index 8), ":status 404" (index 13) *)
Definition ex_block_200 : bytes := [136].
Definition ex_block_404 : bytes := [141].
(* ":status 200", then "x-a: 1" as a literal without indexing *)
Definition ex_block_200_xa : bytes := [136; 0; 3; 120; 45; 97; 1; 49].
